(* Extraction of the C03/C04 model (and the RFC transcriptions) for the correspondence check:
   ExtrOcamlBasic only, Z stays inductive; primitives become closure arguments. *)
From Coq Require Import ZArith List.
Require Import PV.Lib.Bytes PV.Model.Wire PV.Model.Encrypt PV.Spec.Rfc4880_enc PV.Spec.Rfc6637.
Require Extraction.
Require Import ExtrOcamlBasic.
Extraction "../ocaml/gen/ex_c03.ml"
  sym_valid pk_valid hash_valid key_bits block_bits key_octets block_octets
  seipd_plain seipd_encrypt seipd_decrypt pkesk_m pkesk_open pkcs5_pad pkcs5_unpad pkcs5_pad_to ecdh_unpad ecdh_param ecdh_kdf
  rsa_decrypt_m pkesk_decrypt_sk pkesk_encrypt pkesk_encrypt_to s2k_derive skesk_decrypt_sk skesk_encrypt_gen skesk_encrypt
  decrypt_pass key_decrypt decrypt_with encrypt_to esk_packet msg_emit msg_parse packet seipd_body
  rfc_pkesk_m rfc_seipd_plain rfc_param rfc_kdf rfc_pad8 rfc_pad40 rfc_wrapped_field
  int_to_bytes bytes_to_int Z.add Z.mul.
