(* Extraction of the C06 model for the correspondence check: ExtrOcamlBasic only, Z stays inductive. *)
From Coq Require Import ZArith List.
Require Import PV.Lib.Bytes PV.Model.Wire PV.Model.KeyProtect PV.Spec.Rfc4880_keyprotect.
Require Extraction.
Require Import ExtrOcamlBasic.
Extraction "../ocaml/gen/ex_c06.ml" protect unprotect_std read_key pkts_of_read run_trace rewrite_key s2k_parse blob_emit rfc_secret_part
  int_to_bytes bytes_to_int Z.add Z.mul.
