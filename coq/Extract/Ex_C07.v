(* Extraction of the C07 model for the correspondence check: ExtrOcamlBasic only, Z stays inductive. *)
From Coq Require Import ZArith List.
Require Import PV.Lib.Bytes PV.Model.Wire PV.Model.KeyPackets PV.Model.Fingerprint PV.Model.PubExport PV.Spec.Rfc4880_keys.
Require Extraction.
Require Import ExtrOcamlBasic.
Extraction "../ocaml/gen/ex_c07.ml" export pubkey_of export_pkts keys_of view key_action private_actions
  parse_packets key_body_parse rfc_fingerprint fingerprint key_body key_tag all_curves Z.add Z.mul.
