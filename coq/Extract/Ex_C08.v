From Coq Require Import ZArith List String.
Require Import PV.Lib.Bytes PV.Model.Wire PV.Model.Fmt PV.Model.Packets.
Require Extraction.
Require Import ExtrOcamlBasic ExtrOcamlString.
Extraction "../ocaml/gen/ex_c08.ml" enc dec_full lookup_fmt named_formats header_parse header_emit Z.add Z.mul.
