(* Extraction of the C09 model for the correspondence check: ExtrOcamlBasic only, Z stays inductive. *)
From Coq Require Import ZArith List.
Require Import PV.Lib.Bytes PV.Model.Wire PV.Spec.Rfc4880_wire.
Require Extraction.
Require Import ExtrOcamlBasic.
Extraction "../ocaml/gen/ex_c09.ml" new_length old_length encode_length llen_get new_len header_parse header_emit
  to_mpibytes mpi_parse sub_header_parse sub_header_emit s2k_count time4 untime4
  rfc_new_len rfc_sub_len rfc_mpi rfc_count int_to_bytes bytes_to_int Z.add Z.mul.
