(* Extraction of the C10 model for the correspondence check: ExtrOcamlBasic only, Z stays inductive. *)
From Coq Require Import ZArith List.
Require Import PV.Lib.Bytes PV.Model.Armor PV.Spec.Rfc4880_armor.
Require Extraction.
Require Import ExtrOcamlBasic.
Extraction "../ocaml/gen/ex_c10.ml" b64_enc b64_dec rfc_b64_enc crc24 crc24_rfc wrap armor unarmor
  parse_decision magic_of class_of rfc_label Z.add Z.mul.
