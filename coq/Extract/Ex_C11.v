(* Extraction of the C11 model for the correspondence check: ExtrOcamlBasic only, Z stays inductive. *)
From Coq Require Import ZArith List.
Require Import PV.Lib.Bytes PV.Model.Armor PV.Model.Cleartext PV.Spec.Rfc4880_cleartext.
Require Extraction.
Require Import ExtrOcamlBasic.
Extraction "../ocaml/gen/ex_c11.ml" dash_escape dash_unescape rfc_dash_escape canon_pgpy canon_rfc71 hash_names render read
  to_crlf defect_trailing_blanks defect_non_ascii defect_final_cr Z.add Z.mul.
