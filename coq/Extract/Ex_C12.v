(* Extraction of the C12 model and the RFC 4880 3.7.1 transcription for the correspondence check:
   ExtrOcamlBasic only, Z stays inductive; the hash primitive is a closure answered by the primitive oracle. *)
From Coq Require Import ZArith List.
Require Import PV.Lib.Bytes PV.Model.Wire PV.Model.S2K PV.Spec.Rfc4880_wire PV.Spec.Rfc4880_s2k.
Require Extraction.
Require Import ExtrOcamlBasic.
Extraction "../ocaml/gen/ex_c12.ml" derive derive_sym derive_prefix derive_plan hashdata rfc_s2k rfc_hashed_octets rfc_contexts
  cycle_take s2k_count rfc_count Z.add Nat.add.
