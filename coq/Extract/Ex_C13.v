(* Extraction of the C13 model for the correspondence check: ExtrOcamlBasic only, Z stays inductive. *)
From Coq Require Import ZArith List.
Require Import PV.Lib.Bytes PV.Model.Fresh.
Require Extraction.
Require Import ExtrOcamlBasic.
Extraction "../ocaml/gen/ex_c13.ml" run exec key_octets blk_octets exposed exposed_given size_ok secret_purpose Z.add Z.mul.
