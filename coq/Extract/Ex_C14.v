(* Extraction of the C14 model for the correspondence check: ExtrOcamlBasic only, Z stays inductive. *)
From Coq Require Import ZArith List.
Require Import PV.Model.KeyStruct.
Require Extraction.
Require Import ExtrOcamlBasic.
Extraction "../ocaml/gen/ex_c14.ml" import export copy pubkey_of uids_sortedb sortedb item_lt sig_lt strip_nonexportable
  import_prefix_f9 import_prefix_f2 import_prefix_dup import_old_selfsig import_pre_bf7 import_pre_orphanfix copy_prefix tops Z.add Z.mul.
