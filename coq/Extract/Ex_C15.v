(* Extraction of the C15 model for the correspondence check: ExtrOcamlBasic only, Z stays inductive. *)
From Coq Require Import ZArith List.
Require Import PV.Model.KeyStruct PV.Model.KeyHist.
Require Extraction.
Require Import ExtrOcamlBasic.
Extraction "../ocaml/gen/ex_c15.ml" apply apply_prefix run effective effective_old key_expiry key_expiry_old key_revocations sub_revocations uid_revocations
  inv_key sorted_key good_key inv_world pubkey_of export import Z.add Z.mul.
