(* Extraction of the C16 key-usage policy model for the correspondence check: ExtrOcamlBasic only, Z stays inductive. *)
From Coq Require Import ZArith List.
Require Import PV.Model.Policy.
Require Extraction.
Require Import ExtrOcamlBasic.
Extraction "../ocaml/gen/ex_c16.ml" perform perform_prefix perform_old_selfsig perform_old_lockcheck perform_old_crash perform_old_identity usage comp_flags flags_primary flags_sub is_public is_protected is_unlocked
  check_attributes decrypt_route op_flags Z.add Z.land Z.lor.
