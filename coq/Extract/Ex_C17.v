(* Extraction of the C17 model for the correspondence check: ExtrOcamlBasic only, Z stays inductive. *)
From Coq Require Import ZArith List.
Require Import PV.Model.Verdict.
Require Extraction.
Require Import ExtrOcamlBasic.
Extraction "../ocaml/gen/ex_c17.ml" causes_fail causes_fail_bits causes_fail_prefix is_good is_bad entry_ok good bad truthy truthy_with
  add_sigsubj sv_and validate_params check_management check_soundness verify_entry verify_all verify_all_with verify_all_gen check_management_prefix Z.add Nat.add.
