(* Extraction of the C18 model for the correspondence check: ExtrOcamlBasic only, Z stays inductive. *)
From Coq Require Import ZArith List.
Require Import PV.Lib.Bytes PV.Model.Wire PV.Model.KeyPackets PV.Model.Fingerprint PV.Spec.Rfc4880_keys.
Require Extraction.
Require Import ExtrOcamlBasic.
Extraction "../ocaml/gen/ex_c18.ml" fingerprint keyid fp_input rfc_fingerprint rfc_pub_body rfc_keyid_value
  key_body pub_packet_body pubkey_pkt key_tag publen key_body_parse parse_packets run_ops header_emit
  issuer_subpacket issuer_fpr_subpacket pkesk_prefix sig_subpackets pkesk_keyid
  oid_field rfc_oid_field all_curves unbe Z.add Z.mul Z.modulo Z.pow.
