(* Extraction of the C19 keyring model for the correspondence check: ExtrOcamlBasic only, Z stays inductive.
   `sort` (a Section variable of the model) becomes a closure argument supplied by the driver. *)
From Coq Require Import ZArith List.
Require Import PV.Lib.Bytes PV.Model.Keyring.
Require Extraction.
Require Import ExtrOcamlBasic.
Extraction "../ocaml/gen/ex_c19.ml" init add_key add_key_with add_alias add_alias_repo unload step run
  get_key get_key_issuers containsS get fingerprints klen aliases_of strip unspaced sort_alias
  containsS_old get_key_old step_old step_old_addkey load_result Z.add Z.eqb.
