(* Extraction of the C20 model for the correspondence check: ExtrOcamlBasic only, Z stays inductive. *)
From Coq Require Import ZArith List.
Require Import PV.Lib.Bytes PV.Model.Wire PV.Model.Message PV.Spec.Rfc4880_msg PV.Model.Message_abs.
Require Extraction.
Require Import ExtrOcamlBasic.
Extraction "../ocaml/gen/ex_c20.ml" new_msg add_sig add_sigs encrypt_msg export_pkts export_pkts_prefix export_bytes emit_pkts
  parse_pkts import_pkts import_bytes in_grammar flags_ok ops_flags toks unwrap is_message ops_flags_ok
  lit_body lit_parse ops_body ops_parse rfc_lit_dec rfc_ops_dec frame frame_old frame_partial
  utf8 utf8_decode contents contents_prefix sig_peek insort new_text Z.add Z.mul.
