(* Extraction of the signature model (C01, C02, C05): ExtrOcamlBasic only, Z stays inductive. *)
From Coq Require Import ZArith List.
Require Import PV.Lib.Bytes PV.Model.Wire PV.Model.HashData PV.Spec.Rfc4880_sig PV.Model.SigEncoding PV.Spec.Der PV.Model.SigCompose PV.Model.SubArea.
Require Extraction.
Require Import ExtrOcamlBasic.
Extraction "../ocaml/gen/ex_sig.ml" hashdata rfc_hashdata canon rfc_canon sig_body_parse subpackets_parse fields_of verify_pair
  trailer hcontext dsa_from_signer der_seq2 eddsa_from_signer eddsa_sig sign_body area_emit sa_parse sa_run sa_emit Z.add Z.mul.
