(* Byte strings over Z, big-endian integers, PGPy's int_to_bytes / bytes_to_int.
   Python ints are modelled as Z everywhere (never N: truncated subtraction falsifies laws). *)
From Coq Require Import ZArith List Bool Lia.
Import ListNotations.
Open Scope Z_scope.

Definition bytes := list Z.

Definition byteb (b : Z) : bool := (0 <=? b) && (b <? 256).
Definition wfb (l : bytes) : bool := forallb byteb l.
Definition wf_bytes (l : bytes) : Prop := Forall (fun b => 0 <= b < 256) l.

(* n-octet big-endian encoding of v (the low n octets; exact when 0 <= v < 256^n) *)
Fixpoint be (n : nat) (v : Z) : bytes :=
  match n with O => [] | S n' => be n' (v / 256) ++ [v mod 256] end.

Fixpoint unbe_acc (acc : Z) (l : bytes) : Z :=
  match l with [] => acc | b :: r => unbe_acc (acc * 256 + b) r end.
Definition unbe (l : bytes) : Z := unbe_acc 0 l.

(* Python int.bit_length() for non-negative ints *)
Definition bit_length (v : Z) : Z := if v <=? 0 then 0 else Z.log2 v + 1.
(* PGPObject.int_byte_len *)
Definition int_byte_len (v : Z) : Z := (bit_length v + 7) / 8.
(* PGPObject.int_to_bytes(i, minlen): width max(minlen, byte_len, 1) *)
Definition int_to_bytes (v minlen : Z) : bytes :=
  be (Z.to_nat (Z.max (Z.max minlen (int_byte_len v)) 1)) v.
Definition bytes_to_int (l : bytes) : Z := unbe l.

(* Python slicing helpers: a[i:j] for 0 <= i <= j *)
Definition slice (i j : nat) (l : bytes) : bytes := firstn (j - i) (skipn i l).

Fixpoint eqb_bytes (a b : bytes) : bool :=
  match a, b with
  | [], [] => true
  | x :: a', y :: b' => (x =? y) && eqb_bytes a' b'
  | _, _ => false
  end.

Fixpoint sumz (l : bytes) : Z := match l with [] => 0 | x :: r => x + sumz r end.

Definition lastn {A} (n : nat) (l : list A) : list A := skipn (length l - n) l.
