From Coq Require Import ZArith List Bool Lia.
Import ListNotations.
Require Import PV.Lib.Bytes.
Open Scope Z_scope.

Lemma length_be n v : length (be n v) = n.
Proof. revert v; induction n as [|n IH]; intros v; cbn [be]; [reflexivity|]. rewrite app_length, IH. cbn. lia. Qed.

Lemma unbe_acc_app a l1 l2 : unbe_acc a (l1 ++ l2) = unbe_acc (unbe_acc a l1) l2.
Proof. revert a; induction l1 as [|x l1 IH]; intros a; cbn; auto. Qed.

Lemma unbe_acc_be n : forall a v, 0 <= v < 256 ^ Z.of_nat n -> unbe_acc a (be n v) = a * 256 ^ Z.of_nat n + v.
Proof.
  induction n as [|n IH]; intros a v Hv.
  - cbn. change (256 ^ Z.of_nat 0) with 1 in *. lia.
  - cbn [be]. rewrite unbe_acc_app. cbn [unbe_acc].
    rewrite Nat2Z.inj_succ, Z.pow_succ_r in * by lia.
    rewrite IH.
    + pose proof (Z.div_mod v 256 ltac:(lia)). lia.
    + split; [apply Z.div_pos; lia|]. apply Z.div_lt_upper_bound; lia.
Qed.

Lemma unbe_be n v : 0 <= v < 256 ^ Z.of_nat n -> unbe (be n v) = v.
Proof. intros H. unfold unbe. rewrite unbe_acc_be by assumption. lia. Qed.

Lemma wf_bytes_app a b : wf_bytes (a ++ b) <-> wf_bytes a /\ wf_bytes b.
Proof. unfold wf_bytes. apply Forall_app. Qed.

Lemma wf_be n v : wf_bytes (be n v).
Proof.
  revert v; induction n as [|n IH]; intros v; cbn [be]; [constructor|].
  apply wf_bytes_app. split; [apply IH|]. constructor; [|constructor].
  apply Z.mod_pos_bound. lia.
Qed.

Lemma wfb_iff l : wfb l = true <-> wf_bytes l.
Proof.
  unfold wfb, wf_bytes. rewrite forallb_forall, Forall_forall.
  split; intros H x Hx; specialize (H x Hx); unfold byteb in *; lia.
Qed.

Lemma unbe_acc_bounds l : forall a, 0 <= a -> wf_bytes l ->
  a * 256 ^ Z.of_nat (length l) <= unbe_acc a l < (a + 1) * 256 ^ Z.of_nat (length l).
Proof.
  induction l as [|x l IH]; intros a Ha Hl.
  - cbn. change (256 ^ Z.of_nat 0) with 1. lia.
  - inversion Hl as [|? ? Hx Hl']; subst. cbn [unbe_acc length].
    rewrite Nat2Z.inj_succ, Z.pow_succ_r by lia.
    specialize (IH (a * 256 + x) ltac:(lia) Hl').
    pose proof (Z.pow_pos_nonneg 256 (Z.of_nat (length l)) ltac:(lia) ltac:(lia)). nia.
Qed.

Lemma unbe_bounds l : wf_bytes l -> 0 <= unbe l < 256 ^ Z.of_nat (length l).
Proof. intros H. pose proof (unbe_acc_bounds l 0 ltac:(lia) H). unfold unbe. lia. Qed.

Lemma unbe_app a b : unbe (a ++ b) = unbe a * 256 ^ Z.of_nat (length b) + unbe b.
Proof.
  unfold unbe. rewrite unbe_acc_app. generalize (unbe_acc 0 a). clear a.
  induction b as [|x b IH]; intros a.
  - cbn. change (256 ^ Z.of_nat 0) with 1. lia.
  - cbn [unbe_acc length]. rewrite IH. rewrite (IH (0 * 256 + x)).
    rewrite Nat2Z.inj_succ, Z.pow_succ_r by lia. lia.
Qed.

Lemma unbe_snoc l x : unbe (l ++ [x]) = unbe l * 256 + x.
Proof. unfold unbe. rewrite unbe_acc_app. reflexivity. Qed.

Lemma be_unbe l : wf_bytes l -> be (length l) (unbe l) = l.
Proof.
  induction l as [|x l IH] using rev_ind; intros H; [reflexivity|].
  apply wf_bytes_app in H as [Hl Hx]. inversion Hx as [|? ? Hx0 _]; subst.
  rewrite app_length. cbn [length]. rewrite Nat.add_1_r. cbn [be].
  rewrite unbe_snoc.
  replace ((unbe l * 256 + x) / 256) with (unbe l).
  2:{ symmetry. replace (unbe l * 256 + x) with (x + unbe l * 256) by lia.
      rewrite Z.div_add by lia. rewrite Z.div_small by lia. lia. }
  replace ((unbe l * 256 + x) mod 256) with x.
  2:{ symmetry. replace (unbe l * 256 + x) with (x + unbe l * 256) by lia.
      rewrite Z.mod_add by lia. apply Z.mod_small. lia. }
  rewrite IH by assumption. reflexivity.
Qed.

Lemma firstn_app_exact {A} (l r : list A) n : length l = n -> firstn n (l ++ r) = l.
Proof. intros <-. rewrite firstn_app, Nat.sub_diag, firstn_all. cbn. apply app_nil_r. Qed.
Lemma skipn_app_exact {A} (l r : list A) n : length l = n -> skipn n (l ++ r) = r.
Proof. intros <-. rewrite skipn_app, Nat.sub_diag, skipn_all. reflexivity. Qed.

(* bit_length: 2^(n-1) <= v < 2^n *)
Lemma bit_length_nonneg v : 0 <= bit_length v.
Proof. unfold bit_length. destruct (v <=? 0) eqn:E; [lia|]. pose proof (Z.log2_nonneg v). lia. Qed.

Lemma bit_length_spec v : 0 < v -> 2 ^ (bit_length v - 1) <= v < 2 ^ bit_length v.
Proof.
  intros H. unfold bit_length. destruct (v <=? 0) eqn:E; [lia|].
  pose proof (Z.log2_spec v H) as [A B].
  replace (Z.log2 v + 1 - 1) with (Z.log2 v) by lia.
  replace (Z.log2 v + 1) with (Z.succ (Z.log2 v)) by lia. lia.
Qed.

Lemma bit_length_0 : bit_length 0 = 0. Proof. reflexivity. Qed.

Lemma bit_length_unique v n : 0 < n -> 2 ^ (n - 1) <= v < 2 ^ n -> bit_length v = n.
Proof.
  intros Hn [A B]. assert (0 < v) by (pose proof (Z.pow_pos_nonneg 2 (n-1) ltac:(lia) ltac:(lia)); lia).
  unfold bit_length. destruct (v <=? 0) eqn:E; [lia|].
  assert (Z.log2 v = n - 1); [|lia].
  apply Z.log2_unique; [lia|]. replace (Z.succ (n-1)) with n by lia. lia.
Qed.

Lemma int_byte_len_nonneg v : 0 <= int_byte_len v.
Proof. unfold int_byte_len. pose proof (bit_length_nonneg v). apply Z.div_pos; lia. Qed.

Lemma lt_pow256_byte_len v : 0 <= v -> v < 256 ^ int_byte_len v.
Proof.
  intros H. destruct (Z.eq_dec v 0) as [->|Hne]; [reflexivity|].
  pose proof (bit_length_spec v ltac:(lia)) as [_ B].
  pose proof (bit_length_nonneg v) as Hb.
  unfold int_byte_len.
  replace 256 with (2 ^ 8) by reflexivity. rewrite <- Z.pow_mul_r by (try apply Z.div_pos; lia).
  eapply Z.lt_le_trans; [exact B|]. apply Z.pow_le_mono_r; [lia|].
  pose proof (Z.div_mod (bit_length v + 7) 8 ltac:(lia)).
  pose proof (Z.mod_pos_bound (bit_length v + 7) 8 ltac:(lia)). lia.
Qed.

Lemma pow256_mono a b : 0 <= a <= b -> 256 ^ a <= 256 ^ b.
Proof. intros. apply Z.pow_le_mono_r; lia. Qed.

Lemma length_int_to_bytes v m : length (int_to_bytes v m) = Z.to_nat (Z.max (Z.max m (int_byte_len v)) 1).
Proof. unfold int_to_bytes. apply length_be. Qed.

(* int_to_bytes never loses information for v >= 0 *)
Lemma unbe_int_to_bytes v m : 0 <= v -> unbe (int_to_bytes v m) = v.
Proof.
  intros H. unfold int_to_bytes. apply unbe_be. split; [lia|].
  rewrite Z2Nat.id by lia.
  eapply Z.lt_le_trans; [apply lt_pow256_byte_len; assumption|].
  apply pow256_mono. pose proof (int_byte_len_nonneg v). lia.
Qed.

Lemma eqb_bytes_eq a b : eqb_bytes a b = true <-> a = b.
Proof.
  revert b; induction a as [|x a IH]; intros [|y b]; cbn; split; try congruence; try discriminate.
  - intros H. apply andb_prop in H as [H1 H2]. apply Z.eqb_eq in H1. apply IH in H2. congruence.
  - intros [= -> ->]. rewrite Z.eqb_refl. apply IH. reflexivity.
Qed.

Lemma eqb_bytes_refl a : eqb_bytes a a = true.
Proof. apply eqb_bytes_eq. reflexivity. Qed.
