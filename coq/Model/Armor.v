(* C10: ASCII armor of PGPy, modelled function by function.
   pgpy/types.py  Armorable.__str__ / ascii_unarmor / crc24 / is_ascii, the armor regular expression
   (read as a line-oriented recogniser: every alternative of the expression is anchored at a line
   start and confined to lines), Python's base64.b64encode and the non-strict binascii.a2b_base64
   state machine (CPython 3.12), pgpy/pgp.py magic / kind checks of the three parse methods.
   Text = list of code points (Z); octets = Z.  No proofs in this file. *)
From Coq Require Import ZArith Bool String Ascii List.
Import ListNotations.
Require Import PV.Lib.Bytes.
Open Scope Z_scope.

Definition text := list Z.
Definition s2z (s : string) : text := map (fun a => Z.of_N (N_of_ascii a)) (list_ascii_of_string s).

(* ---------- Armorable.crc24 (same text as the definitions regenerated into Gen/Gen_types.v) ---------- *)
Definition crc_bit (crc : Z) : Z :=
 (let crc := (Z.shiftl crc (1)) in
 (if (negb (Z.eqb (Z.land crc (16777216)) 0)) then (let crc := (Z.lxor crc (25578747)) in
 crc) else crc)).

Definition crc_octet (crc b : Z) : Z :=
 (let crc := (Z.lxor crc (Z.shiftl b (16))) in
 (Nat.iter 8 crc_bit crc)).

Definition crc24 (data : bytes) : Z :=
 (let crc := fold_left crc_octet data (11994318) in (Z.land crc (16777215))).

Definition armor_wrap : Z := 64.
Definition armor_crc_octets : Z := 3.

(* ---------- base64 ---------- *)
Definition b64_char (v : Z) : Z :=
  if v <? 26 then 65 + v else if v <? 52 then 71 + v else if v <? 62 then v - 4
  else if v =? 62 then 43 else 47.

Definition b64_val (c : Z) : option Z :=
  if (65 <=? c) && (c <=? 90) then Some (c - 65)
  else if (97 <=? c) && (c <=? 122) then Some (c - 71)
  else if (48 <=? c) && (c <=? 57) then Some (c + 4)
  else if c =? 43 then Some 62
  else if c =? 47 then Some 63
  else None.

Definition is_b64c (c : Z) : bool := match b64_val c with Some _ => true | None => false end.

(* base64.b64encode: 3 octets -> 4 characters, '=' padding; written with / and mod *)
Fixpoint b64_enc (p : bytes) : text :=
  match p with
  | [] => []
  | [a] => [b64_char (a / 4); b64_char ((a mod 4) * 16); 61; 61]
  | [a; b] => [b64_char (a / 4); b64_char ((a mod 4) * 16 + b / 16); b64_char ((b mod 16) * 4); 61]
  | a :: b :: c :: r =>
    b64_char (a / 4) :: b64_char ((a mod 4) * 16 + b / 16) :: b64_char ((b mod 16) * 4 + c / 64)
      :: b64_char (c mod 64) :: b64_enc r
  end.

Definition ocons (x : Z) (o : option bytes) : option bytes :=
  match o with Some l => Some (x :: l) | None => None end.

(* binascii.a2b_base64, strict_mode = False (what base64.b64decode(s) calls):
   qp = quad_pos, left = leftchar, pads = number of '=' seen since the last data character
   (counted only while quad_pos >= 2).  None = binascii.Error. *)
Fixpoint a2b (s : text) (qp : nat) (left : Z) (pads : nat) : option bytes :=
  match s with
  | [] => match qp with O => Some [] | _ => None end
  | c :: r =>
    if c =? 61 then
      if Nat.leb 2 qp then
        (if Nat.leb 4 (qp + S pads) then Some [] else a2b r qp left (S pads))
      else a2b r qp left pads
    else
      match b64_val c with
      | None => a2b r qp left pads
      | Some v =>
        match qp with
        | O => a2b r 1 v 0
        | S O => ocons (left * 4 + v / 16) (a2b r 2 (v mod 16) 0)
        | S (S O) => ocons (left * 16 + v / 4) (a2b r 3 (v mod 4) 0)
        | _ => ocons (left * 64 + v) (a2b r 0 0 0)
        end
      end
  end.

Definition b64_dec (s : text) : option bytes := a2b s 0 0 0.

(* ---------- line wrap:  '\n'.join(payload[i:i+64] for i in range(0, len(payload), 64)) ---------- *)
Fixpoint chunks (fuel : nat) (n : nat) (s : text) : list text :=
  match fuel with
  | O => []
  | S f => match s with [] => [] | _ => firstn n s :: chunks f n (skipn n s) end
  end.
Definition wrap (s : text) : list text := chunks (length s) (Z.to_nat armor_wrap) s.

Fixpoint join (sep : text) (ls : list text) : text :=
  match ls with
  | [] => []
  | [l] => l
  | l :: r => l ++ sep ++ join sep r
  end.

(* ---------- Armorable.__str__ ---------- *)
Definition dash5 : text := Eval vm_compute in s2z "-----".
Definition begin_pfx : text := Eval vm_compute in s2z "-----BEGIN PGP ".
Definition end_pfx : text := Eval vm_compute in s2z "-----END PGP ".
Definition signed_begin : text := Eval vm_compute in s2z "-----BEGIN PGP SIGNED MESSAGE-----".
Definition hash_pfx : text := Eval vm_compute in s2z "Hash: ".

Definition hdr_line (kv : text * text) : text := fst kv ++ [58; 32] ++ snd kv.
Definition crc_text (p : bytes) : text := b64_enc (int_to_bytes (crc24 p) armor_crc_octets).

Definition armor (magic : text) (hdrs : list (text * text)) (p : bytes) : text :=
  begin_pfx ++ magic ++ dash5 ++ [10]
  ++ concat (map (fun kv => hdr_line kv ++ [10]) hdrs) ++ [10]
  ++ join [10] (wrap (b64_enc p)) ++ [10]
  ++ [61] ++ crc_text p ++ [10]
  ++ end_pfx ++ magic ++ dash5 ++ [10].

(* ---------- line tools ---------- *)
(* str.split('\n'): k newlines give k+1 segments; all but the last are terminated lines *)
Fixpoint split_lines (t : text) : list text :=
  match t with
  | [] => [[]]
  | c :: r =>
    if c =? 10 then [] :: split_lines r
    else match split_lines r with l :: ls => (c :: l) :: ls | [] => [[c]] end
  end.

Fixpoint strip_prefix (p l : text) : option text :=
  match p with
  | [] => Some l
  | a :: p' => match l with b :: l' => if a =? b then strip_prefix p' l' else None | [] => None end
  end.

Definition strip_suffix (s l : text) : option text :=
  match strip_prefix (rev s) (rev l) with Some r => Some (rev r) | None => None end.

(* the optional \r of (?:\r?\n) *)
Fixpoint strip_cr (l : text) : text :=
  match l with
  | [] => []
  | c :: r => match r with [] => if c =? 13 then [] else [c] | _ => c :: strip_cr r end
  end.

Definition is_nil {A} (l : list A) : bool := match l with [] => true | _ => false end.

Fixpoint span {A} (f : A -> bool) (l : list A) : list A * list A :=
  match l with
  | [] => ([], [])
  | x :: r => if f x then let (a, b) := span f r in (x :: a, b) else ([], l)
  end.

(* Armorable.is_ascii: ^[ -~\r\n\t]*$ *)
Definition ascii_char (c : Z) : bool :=
  ((32 <=? c) && (c <=? 126)) || (c =? 13) || (c =? 10) || (c =? 9).
Definition is_ascii_text (t : text) : bool := forallb ascii_char t.

(* ^-{5}BEGIN\ PGP\ (?P<magic>[A-Z0-9 ,]+)-{5}(?:\r?\n) *)
Definition magic_char (c : Z) : bool :=
  ((65 <=? c) && (c <=? 90)) || ((48 <=? c) && (c <=? 57)) || (c =? 32) || (c =? 44).

Definition begin_magic (l : text) : option text :=
  match strip_prefix begin_pfx (strip_cr l) with
  | None => None
  | Some r =>
    match strip_suffix dash5 r with
    | None => None
    | Some m => if negb (is_nil m) && forallb magic_char m then Some m else None
    end
  end.

(* header line  ^.+:\ .+(?:\r?\n)  and the split done by
   re.findall('^(?P<key>.+?): (?P<value>.+?)\r?$\n?'): the key is lazy (shortest key of at least one
   character that is followed by ": " and at least one more character), the value is lazy up to an
   optional final \r *)
Fixpoint split_hdr (l : text) : option (text * text) :=
  match l with
  | [] => None
  | c :: r =>
    match r with
    | a :: b :: v =>
      if (a =? 58) && (b =? 32) && negb (is_nil v) then Some ([c], v)
      else match split_hdr r with Some (k, v') => Some (c :: k, v') | None => None end
    | _ => None
    end
  end.

(* the split before commit 0c3c3b8: greedy key group (?P<key>.+), i.e. the LAST ": " that still leaves
   a character for the value; kept for the refutation theorem *)
Fixpoint split_hdr_prefix (l : text) : option (text * text) :=
  match l with
  | [] => None
  | c :: r =>
    match split_hdr_prefix r with
    | Some (k, v) => Some (c :: k, v)
    | None =>
      match r with
      | a :: b :: v => if (a =? 58) && (b =? 32) && negb (is_nil v) then Some ([c], v) else None
      | _ => None
      end
    end
  end.

Definition is_header_line (l : text) : bool := match split_hdr l with Some _ => true | None => false end.

Definition hdr_value (r : text) : text := match strip_cr r with [] => r | v => v end.

Definition parse_hdr (l : text) : text * text :=
  match split_hdr l with Some (k, v) => (k, hdr_value v) | None => ([], []) end.
Definition parse_hdr_prefix (l : text) : text * text :=
  match split_hdr_prefix l with Some (k, v) => (k, hdr_value v) | None => ([], []) end.

(* collections.OrderedDict(list of pairs): a repeated key keeps its first position, takes the last value *)
Fixpoint od_set (d : list (text * text)) (k v : text) : list (text * text) :=
  match d with
  | [] => [(k, v)]
  | (k', v') :: r => if eqb_bytes k k' then (k', v) :: r else (k', v') :: od_set r k v
  end.
Definition od_of_pairs (ps : list (text * text)) : list (text * text) :=
  fold_left (fun d kv => od_set d (fst kv) (snd kv)) ps [].

Definition is_blank (l : text) : bool := is_nil (strip_cr l).

(* [A-Za-z0-9+/]{1,76}={,2}(?:\r?\n) *)
Definition is_body_line (l : text) : bool :=
  let (a, rest) := span is_b64c (strip_cr l) in
  Nat.leb 1 (length a) && Nat.leb (length a) 76 && Nat.leb (length rest) 2 && forallb (Z.eqb 61) rest.

(* ^=(?P<crc>[A-Za-z0-9+/]{4})(?:\r?\n) *)
Definition crc_line (l : text) : option text :=
  match strip_cr l with
  | e :: r => if (e =? 61) && Nat.eqb (length r) 4 && forallb is_b64c r then Some r else None
  | [] => None
  end.

(* ^-{5}END\ PGP\ (?P=magic)-{5}   (not anchored at the end of the line) *)
Definition end_line (m l : text) : bool :=
  match strip_prefix (end_pfx ++ m ++ dash5) l with Some _ => true | None => false end.

(* one armor block starting at the first line of ls; ls = terminated lines, fin = the text after the
   last newline.  Result: magic, header lines, body lines, the four CRC characters. *)
Definition block := (text * list text * list text * text)%type.

Definition block_at (ls : list text) (fin : text) : option block :=
  match ls with
  | [] => None
  | l0 :: rest =>
    match begin_magic l0 with
    | None => None
    | Some m =>
      let (hdrs, rest1) := span is_header_line rest in
      let rest2 := match rest1 with b :: r => if is_blank b then r else rest1 | [] => rest1 end in
      let (body, rest3) := span is_body_line rest2 in
      if is_nil body then None else
      match rest3 with
      | [] => None
      | c :: rest4 =>
        match crc_line c with
        | None => None
        | Some crc4 =>
          let e := match rest4 with e :: _ => e | [] => fin end in
          if end_line m e then Some (m, hdrs, body, crc4) else None
        end
      end
    end
  end.

(* (?P<cleartext>(.*\r?\n)*(.*?(?=\r?\n-{5})))(?:\r?\n) followed by the block: the star is greedy, so
   the LAST line index at which a block parses; at least one cleartext line; the last cleartext line
   is matched lazily up to \r?\n, i.e. without the \r of a CR LF ending *)
Section Reader.
(* lastline = what the lazy .*? keeps of the last cleartext line: strip_cr in the code as it is now;
   the identity in the code before commit debc39b (greedy match), kept for the refutation theorem *)
Variable lastline : text -> text.

Fixpoint find_last_block_gen (ls : list text) (fin : text) : option (list text * block) :=
  match ls with
  | [] => None
  | l :: rest =>
    match find_last_block_gen rest fin with
    | Some (pre, b) => Some (l :: pre, b)
    | None => match block_at rest fin with Some b => Some ([lastline l], b) | None => None end
    end
  end.
End Reader.
Definition find_last_block := find_last_block_gen strip_cr.

(* Hash:\ (?P<hashes>[A-Za-z0-9\-,]+) *)
Definition hash_char (c : Z) : bool :=
  ((65 <=? c) && (c <=? 90)) || ((97 <=? c) && (c <=? 122)) || ((48 <=? c) && (c <=? 57)) || (c =? 45) || (c =? 44).
Definition hash_line (l : text) : option text :=
  match strip_prefix hash_pfx (strip_cr l) with
  | Some h => if negb (is_nil h) && forallb hash_char h then Some h else None
  | None => None
  end.

Fixpoint split_on (sep : Z) (t : text) : list text :=
  match t with
  | [] => [[]]
  | c :: r =>
    if c =? sep then [] :: split_on sep r
    else match split_on sep r with l :: ls => (c :: l) :: ls | [] => [[c]] end
  end.

(* cleartext part: (hashes or None, the text of the cleartext group) *)
Definition clearpart := (option (list text) * text)%type.

Inductive ures :=
| UBinary (b : bytes)              (* not is_ascii: the input octets are the body, magic None *)
| UNoMatch                         (* ValueError("Expected: ASCII-armored PGP data") *)
| UBadB64                          (* PGPError from binascii.Error *)
| UArmor (magic : text) (headers : option (list (text * text))) (body : bytes) (crc : Z)
         (warn : bool) (clear : option clearpart).

Section Reader2.
Variable lastline : text -> text.

Definition signed_at_gen (ls : list text) (fin : text) : option (clearpart * block) :=
  match ls with
  | [] => None
  | l0 :: rest =>
    if eqb_bytes (strip_cr l0) signed_begin then
      let nohash := match find_last_block_gen lastline rest fin with
                    | Some (pre, b) => Some ((None, join [10] pre), b)
                    | None => None end in
      match rest with
      | l1 :: l2 :: rest' =>
        match hash_line l1 with
        | Some hs =>
          if is_blank l2 then
            match find_last_block_gen lastline rest' fin with
            | Some (pre, b) => Some ((Some (split_on 44 hs), join [10] pre), b)
            | None => nohash
            end
          else nohash
        | None => nohash
        end
      | _ => nohash
      end
    else None
  end.

(* re.search: leftmost line at which the expression matches; the optional cleartext prefix first *)
Fixpoint search_gen (ls : list text) (fin : text) : option (option clearpart * block) :=
  match ls with
  | [] => None
  | _ :: rest =>
    match signed_at_gen ls fin with
    | Some (c, b) => Some (Some c, b)
    | None =>
      match block_at ls fin with
      | Some b => Some (None, b)
      | None => search_gen rest fin
      end
    end
  end.

Definition unarmor_gen (t : text) : ures :=
  if negb (is_ascii_text t) then UBinary t else
  let segs := split_lines t in
  match search_gen (removelast segs) (last segs []) with
  | None => UNoMatch
  | Some (clear, (m, hl, bl, crc4)) =>
    match b64_dec (concat (map (fun l => l ++ [10]) bl)) with
    | None => UBadB64
    | Some body =>
      let crc := match b64_dec crc4 with Some c => unbe c | None => 0 end in
      UArmor m (if is_nil hl then None else Some (od_of_pairs (map parse_hdr hl)))
             body crc (negb (crc24 body =? crc)) clear
    end
  end.
End Reader2.

Definition signed_at := signed_at_gen strip_cr.
Definition search := search_gen strip_cr.
Definition unarmor := unarmor_gen strip_cr.
(* the reader before the repair of the last cleartext line *)
Definition unarmor_prefix := unarmor_gen (fun l => l).

(* ---------- magic and the kind checks of the parse methods ---------- *)
Inductive kind := KPublicKey | KPrivateKey | KKeyEmpty | KMessage | KCleartext | KSignature.
Inductive cls := ClsKey | ClsMessage | ClsSignature.

Definition m_public : text := Eval vm_compute in s2z "PUBLIC KEY BLOCK".
Definition m_private : text := Eval vm_compute in s2z "PRIVATE KEY BLOCK".
Definition m_emptykey : text := Eval vm_compute in s2z " KEY BLOCK".
Definition m_message : text := Eval vm_compute in s2z "MESSAGE".
Definition m_signature : text := Eval vm_compute in s2z "SIGNATURE".
Definition m_key : text := Eval vm_compute in s2z "KEY".

Definition magic_of (k : kind) : text :=
  match k with
  | KPublicKey => m_public
  | KPrivateKey => m_private
  | KKeyEmpty => m_emptykey
  | KMessage => m_message
  | KCleartext => m_signature
  | KSignature => m_signature
  end.

Definition class_of (k : kind) : cls :=
  match k with
  | KPublicKey | KPrivateKey | KKeyEmpty => ClsKey
  | KMessage | KCleartext => ClsMessage
  | KSignature => ClsSignature
  end.

(* 'KEY' in magic *)
Fixpoint contains (p l : text) : bool :=
  match strip_prefix p l with
  | Some _ => true
  | None => match l with [] => false | _ :: r => contains p r end
  end.

Inductive decision := DAccept | DAcceptCleartext | DValueError | DTypeError.

(* what parse does after ascii_unarmor returned a magic (None = binary input: no check at all);
   has_clear = the cleartext group took part in the match *)
Definition parse_decision (c : cls) (magic : option text) (has_clear : bool) : decision :=
  match magic with
  | None => DAccept
  | Some m =>
    match c with
    | ClsKey => if contains m_key m then DAccept else DValueError
    | ClsSignature => if eqb_bytes m m_signature then DAccept else DValueError
    | ClsMessage =>
      if eqb_bytes m m_signature then (if has_clear then DAcceptCleartext else DTypeError)
      else if eqb_bytes m m_message then DAccept else DValueError
    end
  end.

(* ---------- vocabulary of the statements in Props/C10.v, C11.v ---------- *)
(* every LF of a text becomes CR LF (what a CRLF transport does to the armored message) *)
Fixpoint to_crlf (t : text) : text :=
  match t with [] => [] | c :: r => if c =? 10 then 13 :: 10 :: to_crlf r else c :: to_crlf r end.


(* characters that may occur inside a line without being taken for a line ending: [ -~\t] *)
Definition plain_char (c : Z) : bool := ((32 <=? c) && (c <=? 126)) || (c =? 9).

(* ": " somewhere in the text *)
Fixpoint has_sep (v : text) : bool :=
  match v with
  | a :: r => match r with b :: _ => ((a =? 58) && (b =? 32)) || has_sep r | [] => false end
  | [] => false
  end.

(* armor header pairs that read back as written: non-empty printable key and value, no ": " in the key *)
Definition wf_header (kv : text * text) : bool :=
  negb (is_nil (fst kv)) && negb (is_nil (snd kv)) && forallb plain_char (fst kv) && forallb plain_char (snd kv)
  && negb (has_sep (fst kv)).
Definition wf_headers (h : list (text * text)) : Prop := forallb wf_header h = true /\ NoDup (map fst h).

Definition signed_magic : text := Eval vm_compute in s2z "SIGNED MESSAGE".
Definition wf_magic (k : text) : bool := negb (is_nil k) && forallb magic_char k && negb (eqb_bytes k signed_magic).

(* the lines of an armor block (without line endings) and a text made of lines with a given line ending *)
Definition armor_lines (k : text) (h : list (text * text)) (p : bytes) : list text :=
  (begin_pfx ++ k ++ dash5) :: map hdr_line h ++ [] :: wrap (b64_enc p) ++ [61 :: crc_text p; end_pfx ++ k ++ dash5].
Definition with_eol (eol : text) (ls : list text) : text := concat (map (fun l => (l ++ eol) ++ [10]) ls).
Definition headers_opt (h : list (text * text)) : option (list (text * text)) := if is_nil h then None else Some h.

Definition is_eol (eol : text) : Prop := eol = [] \/ eol = [13].
(* a line at which neither alternative of the armor expression can start *)
Definition nostart (l : text) : bool :=
  negb (eqb_bytes (strip_cr l) signed_begin) && match begin_magic l with None => true | Some _ => false end.
(* a character of a line of surrounding text: ASCII, not a line feed *)
Definition line_char (c : Z) : bool := ascii_char c && negb (c =? 10).

Definition is_clear (k : kind) : bool := match k with KCleartext => true | _ => false end.
Definition rejected (d : decision) : bool := match d with DValueError | DTypeError => true | _ => false end.
Definition cls_eqb (a b : cls) : bool :=
  match a, b with ClsKey, ClsKey | ClsMessage, ClsMessage | ClsSignature, ClsSignature => true | _, _ => false end.
