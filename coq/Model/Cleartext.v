(* C11: cleartext signature framework of PGPy.
   pgpy/pgp.py PGPMessage.dash_escape / dash_unescape (re.subn with re.MULTILINE: ^ = start of the
   text or just after "\n"), PGPMessage.__str__ cleartext template and Hash: header,
   PGPMessage.parse cleartext branch (through Model/Armor.v unarmor, i.e. the cleartext / hashes
   groups of the armor expression), PGPSignature.hashdata CanonicalDocument branch.
   Text = list of code points.  No proofs in this file. *)
From Coq Require Import ZArith Bool String Ascii List.
Import ListNotations.
Require Import PV.Lib.Bytes PV.Model.Armor.
Open Scope Z_scope.

(* re.subn(r'^-', '- -', text, flags=re.MULTILINE) *)
Fixpoint esc (bol : bool) (t : text) : text :=
  match t with
  | [] => []
  | c :: r => (if bol && (c =? 45) then [45; 32; 45] else [c]) ++ esc (c =? 10) r
  end.
Definition dash_escape (t : text) : text := esc true t.

(* re.subn(r'^- ', '', text, flags=re.MULTILINE): after a removal the scan continues behind the two
   removed characters, which is not a line start, so one escape is removed per line *)
Fixpoint unesc (bol : bool) (t : text) {struct t} : text :=
  match t with
  | [] => []
  | c :: r =>
    match r with
    | d :: r' => if bol && (c =? 45) && (d =? 32) then unesc false r' else c :: unesc (c =? 10) r
    | [] => [c]
    end
  end.
Definition dash_unescape (t : text) : text := unesc true t.

(* ','.join(sorted(set(names))): code-point lexicographic order, duplicates dropped *)
Fixpoint lex_lt (a b : text) : bool :=
  match a, b with
  | [], [] => false
  | [], _ => true
  | _, [] => false
  | x :: a', y :: b' => if x <? y then true else if y <? x then false else lex_lt a' b'
  end.
Fixpoint insert_uniq (x : text) (l : list text) : list text :=
  match l with
  | [] => [x]
  | y :: r => if eqb_bytes x y then l else if lex_lt x y then x :: l else y :: insert_uniq x r
  end.
Definition hash_names (names : list text) : list text := fold_right insert_uniq [] names.

Definition hash_header (names : list text) : text :=
  match hash_names names with
  | [] => []
  | hs => hash_pfx ++ join [44] hs ++ [10]
  end.

(* PGPMessage.__str__, cleartext branch: names = hash algorithm names of the signatures,
   sigarmor = Armorable.__str__ of the message (magic SIGNATURE, payload = the signature packets) *)
Definition render (names : list text) (t : text) (hdrs : list (text * text)) (payload : bytes) : text :=
  signed_begin ++ [10] ++ hash_header names ++ [10] ++ dash_escape t ++ [10]
  ++ armor (magic_of KCleartext) hdrs payload.

(* PGPMessage.parse on armored input whose match used the cleartext group:
   (hashes, text after dash_unescape, armor headers, signature packets, crc warning) *)
Definition read_gen (un : text -> ures) (t : text)
  : option (option (list text) * text * option (list (text * text)) * bytes * bool) :=
  match un t with
  | UArmor m h body _ warn (Some (hs, clear)) =>
    if eqb_bytes m (magic_of KCleartext) then Some (hs, dash_unescape clear, h, body, warn) else None
  | _ => None
  end.
Definition read := read_gen unarmor.
(* the reader before commit debc39b (last cleartext line matched greedily) *)
Definition read_prefix := read_gen unarmor_prefix.

(* PGPSignature.hashdata, CanonicalDocument: re.subn(br'\r?\n', b'\r\n', subject) *)
Fixpoint canon_pgpy (t : text) : text :=
  match t with
  | [] => []
  | c :: r =>
    if c =? 10 then 13 :: 10 :: canon_pgpy r
    else if c =? 13 then
      match r with
      | d :: r' => if d =? 10 then 13 :: 10 :: canon_pgpy r' else 13 :: canon_pgpy r
      | [] => [13]
      end
    else c :: canon_pgpy r
  end.

(* the same transformation told line by line: every terminated line loses the \r of a \r\n ending *)
Fixpoint cr_lines (ls : list text) : list text :=
  match ls with
  | [] => []
  | [l] => [l]
  | l :: r => strip_cr l :: cr_lines r
  end.
Definition canon_lines (t : text) : list text := cr_lines (split_lines t).

(* decidable defect classes of the cleartext path *)
Definition blank (c : Z) : bool := (c =? 32) || (c =? 9).
Definition ends_blank (l : text) : bool := match rev l with c :: _ => blank c | [] => false end.
(* C11/trailing-blanks-signed: some line (LF or CRLF terminated, or the last) ends in SP / TAB *)
Definition defect_trailing_blanks (t : text) : bool := existsb ends_blank (canon_lines t).
(* C11/non-ascii-cleartext-unreadable: the text leaves the class [ -~\r\n\t] *)
Definition defect_non_ascii (t : text) : bool := negb (is_ascii_text t).
(* C11/final-lone-cr-ambiguous: the last character of the text is a CR (the reader takes it for the
   CR of the CR LF in front of the signature block) *)
Definition defect_final_cr (t : text) : bool := negb (eqb_bytes (strip_cr t) t).

(* ---------- vocabulary of the statements in Props/C11.v ---------- *)
(* a line that starts with "-" starts with "- " *)
Definition safe_line (l : text) : bool :=
  match l with
  | c :: r => if c =? 45 then match r with d :: _ => d =? 32 | [] => false end else true
  | [] => true
  end.

(* a hash algorithm name as it appears in the Hash: header: non-empty, [A-Za-z0-9-] *)
Definition wf_hash_name (n : text) : bool := negb (is_nil n) && forallb (fun c => hash_char c && negb (c =? 44)) n.

