(* C03 / C04: PGPy's encryption layer, modelled function by function (NO proofs here).
   pgpy/packet/packets.py  IntegrityProtectedSKEDataV1.encrypt/decrypt/parse, MDC,
                           PKESessionKeyV3.encrypt_sk/decrypt_sk/parse/__bytearray__,
                           SKESessionKeyV4.encrypt_sk/decrypt_sk/parse/__bytearray__
   pgpy/packet/fields.py   RSACipherText, ECDHCipherText.encrypt/decrypt/parse, ECPoint, ECKDF.derive_key,
                           String2Key.parse/__bytearray__ (layout inside the SKESK)
   pgpy/constants.py       SymmetricKeyAlgorithm key/block size tables, enum membership
   pgpy/pgp.py             PGPMessage.encrypt/decrypt/parse/__or__ (session-key list, passphrase loop),
                           PGPKey.encrypt/decrypt (recipient key-id match, subkey delegation)
   Primitives (SHA-1, CFB, RSA PKCS#1 v1.5, ECDH point multiplication, SHA-2, AES key wrap, S2K hashing) are
   Section variables; randomness (prefix, salt, ephemeral keys, PKCS#1 padding) is an explicit argument. *)
From Coq Require Import ZArith List Bool.
Import ListNotations.
Require Import PV.Lib.Bytes PV.Model.Wire.
Open Scope Z_scope.

(* ---------- exceptions as values ---------- *)
Inductive exc :=
| EDecrypt        (* PGPDecryptionError *)
| EValue          (* ValueError *)
| ENotImpl        (* NotImplementedError *)
| EType           (* TypeError *)
| EIndex          (* IndexError *)
| EPGP            (* PGPError (also: every exception raised while a packet is parsed, Packet() re-raises it as PGPError) *)
| EStopIter       (* StopIteration out of next(...) (only in the pre-repair variants of PGPKey.decrypt) *)
| EPrim           (* a primitive refused (cryptography raised: bad key size, bad PKCS#1 padding, InvalidUnwrap, ...) *)
| ENotEncrypted   (* PGPKey.decrypt on a message with neither session keys nor encrypted data: warning, the INPUT object is returned *)
| EEncrypt        (* PGPEncryptionError *)
| EAttr           (* AttributeError (only in the pre-repair variant of PGPKey.decrypt) *)
| EUnmodelled     (* packet kinds outside this model (signatures, literal data, GNU S2K extension, ...) *)
| EFuel.          (* parser fuel exhausted (excluded by the theorems) *)

Inductive res (A : Type) : Type := Ok (a : A) | Raise (e : exc).
Arguments Ok {A} a.
Arguments Raise {A} e.
Definition bind {A B} (r : res A) (f : A -> res B) : res B :=
  match r with Ok a => f a | Raise e => Raise e end.
Definition of_opt {A} (e : exc) (o : option A) : res A :=
  match o with Some a => Ok a | None => Raise e end.

(* ---------- constants.py tables ---------- *)
Definition zmem (a : Z) (l : list Z) : bool := existsb (Z.eqb a) l.
Definition sym_valid (a : Z) : bool := zmem a [0; 1; 2; 3; 4; 7; 8; 9; 10; 11; 12; 13].       (* SymmetricKeyAlgorithm(a) *)
Definition pk_valid (a : Z) : bool := zmem a [0; 1; 2; 3; 16; 17; 18; 19; 20; 21; 22].         (* PubKeyAlgorithm(a) *)
Definition hash_valid (a : Z) : bool := (0 <=? a) && (a <=? 11).                                (* HashAlgorithm(a) *)
Definition s2ktype_valid (a : Z) : bool := zmem a [0; 1; 2; 3; 101].                            (* String2KeyType(a) *)

(* SymmetricKeyAlgorithm.key_size; None = NotImplementedError *)
Definition key_bits (a : Z) : option Z :=
  if a =? 1 then Some 128 else if a =? 2 then Some 192 else if a =? 3 then Some 128 else if a =? 4 then Some 128
  else if a =? 7 then Some 128 else if a =? 8 then Some 192 else if a =? 9 then Some 256 else if a =? 10 then Some 256
  else if a =? 11 then Some 128 else if a =? 12 then Some 192 else if a =? 13 then Some 256 else None.
Definition key_octets (a : Z) : option nat :=
  match key_bits a with Some b => Some (Z.to_nat (b / 8)) | None => None end.
(* SymmetricKeyAlgorithm.block_size (cipher.block_size); None = NotImplementedError *)
Definition block_bits (a : Z) : option Z :=
  if (1 <=? a) && (a <=? 4) then Some 64 else if (7 <=? a) && (a <=? 13) then Some 128 else None.
(* alg.block_size // 8 after _decrypt succeeded (which evaluated the same property first) *)
Definition block_octets (a : Z) : nat :=
  match block_bits a with Some b => Z.to_nat (b / 8) | None => 0%nat end.

(* Python slices with a possibly negative bound: b[:n] and b[n:] *)
(* (bounds are clamped to the list length BEFORE the conversion to nat: same result, and the extracted code never
   builds a unary number larger than the buffer) *)
Definition clampz (n : Z) (l : bytes) : nat := Z.to_nat (Z.min n (Z.of_nat (length l))).
Definition py_take (n : Z) (l : bytes) : bytes :=
  if n <? 0 then firstn (length l - clampz (- n) l) l else firstn (clampz n l) l.
Definition py_drop (n : Z) (l : bytes) : bytes :=
  if n <? 0 then skipn (length l - clampz (- n) l) l else skipn (clampz n l) l.

(* ---------- key objects as far as encryption uses them ---------- *)
Record pkey := {
  k_id : bytes;        (* 8-octet key id (fingerprint.keyid) *)
  k_alg : Z;           (* key_algorithm *)
  k_fp : bytes;        (* 20-octet fingerprint; also the handle under which the primitive oracle knows the key *)
  k_oid : bytes;       (* ECDH: curve OID octets *)
  k_kdf_hash : Z;      (* ECDH: kdf.halg *)
  k_kdf_enc : Z        (* ECDH: kdf.encalg *)
}.
Record fullkey := { fk_key : pkey; fk_subs : list pkey }.   (* a PGPKey with its subkeys in dictionary order *)

Record s2kspec := { s_type : Z; s_hash : Z; s_salt : bytes; s_count : Z (* coded *) }.

Inductive pkct :=
| CRsa (v : Z)                    (* RSACipherText.me_mod_n *)
| CEcdh (xy : bytes) (c : bytes)  (* ECDHCipherText: point octets (format octet first), wrapped key *)
| CElg (a b : Z)                  (* ElGCipherText (parsed, never decrypted) *)
| COpaque (x : bytes).            (* pkalg without a ciphertext class (listed or not): _opaque_ct, the rest of the packet as received *)

Inductive esk :=
| PK (id : bytes) (pkalg : Z) (ct : pkct)           (* PKESessionKeyV3 *)
| SK (symalg : Z) (spec : s2kspec) (ct : bytes).    (* SKESessionKeyV4 *)

(* PGPMessage as far as decryption looks at it: _sessionkeys in order, _message if it is a SEIPD packet *)
Definition emsg := (list esk * option bytes)%type.

Definition beqb (a b : bytes) : bool := eqb_bytes a b.

(* "Anonymous Sender    " *)
Definition anon_sender : bytes :=
  [65; 110; 111; 110; 121; 109; 111; 117; 115; 32; 83; 101; 110; 100; 101; 114; 32; 32; 32; 32].

(* ---------- PKCS#5 padding ---------- *)
(* sender (ECDHCipherText.encrypt): cryptography's PKCS7(64) padder, to a multiple of 8 *)
Definition pkcs5_pad (m : bytes) : bytes :=
  let n := 8 - Z.of_nat (length m) mod 8 in m ++ repeat n (Z.to_nat n).
(* another sender (RFC 6637 section 8: "the sender MAY use 21, 13, and 5 bytes of padding for AES-128, AES-192, and AES-256,
   respectively, to provide the same number of octets, 40 total"): pad to a chosen total.  PGPy never writes this; it reads it *)
Definition pkcs5_pad_to (total : Z) (m : bytes) : bytes :=
  let n := total - Z.of_nat (length m) in m ++ repeat n (Z.to_nat n).
(* recipient (the end of ECDHCipherText.decrypt): PGPy's own lines
     padlen = _m[-1]
     if not 0 < padlen <= len(_m) or _m[-padlen:] != bytearray([padlen]) * padlen: raise PGPDecryptionError
     return bytes(_m[:-padlen])
   no bound by a block size, no condition on the length (RFC 6637 section 8 lets the sender pad up to 40 octets).
   None = refused; the empty string (on which _m[-1] is an IndexError) is told apart by the caller, ecdh_unpad *)
Definition pkcs5_unpad (m : bytes) : option bytes :=
  let len := length m in
  if (len =? 0)%nat then None else
  let n := last m 0 in
  if (n <? 1) || (Z.of_nat len <? n) then None else
  if eqb_bytes (lastn (Z.to_nat n) m) (repeat n (Z.to_nat n)) then Some (firstn (len - Z.to_nat n) m) else None.
(* the unpadder BEFORE repair 830c52d (cryptography's PKCS7(64) unpadder: multiple of 8, pad value at most 8); kept for the
   regression theorems only *)
Definition pkcs5_unpad_old (m : bytes) : option bytes :=
  let len := length m in
  if (len =? 0)%nat || negb (Z.of_nat len mod 8 =? 0) then None else
  let n := last m 0 in
  if (n <? 1) || (n >? 8) then None else
  if forallb (Z.eqb n) (lastn (Z.to_nat n) m) then Some (firstn (len - Z.to_nat n) m) else None.

(* ---------- PKESK "m": algorithm octet, key, 16-bit additive checksum ---------- *)
Definition pkesk_m (alg : Z) (key : bytes) : bytes :=
  int_to_bytes alg 1 ++ key ++ int_to_bytes (sumz key mod 65536) 2.
(* tail of PKESessionKeyV3.decrypt_sk: reading the cipher id and its key length is inside
     try: ... except (IndexError, ValueError, NotImplementedError): raise PGPDecryptionError
   (empty m, an octet that is no SymmetricKeyAlgorithm, a cipher without a key size), and a key shorter than the key size is
   refused together with a wrong checksum: every refusal is PGPDecryptionError *)
Definition pkesk_open (m : bytes) : res (Z * bytes) :=
  match m with
  | [] => Raise EDecrypt
  | a :: r =>
    if negb (sym_valid a) then Raise EDecrypt else
    match key_octets a with
    | None => Raise EDecrypt
    | Some n =>
      let symkey := firstn n r in
      let checksum := bytes_to_int (firstn 2 (skipn n r)) in
      if negb (length symkey =? n)%nat || negb (sumz symkey mod 65536 =? checksum) then Raise EDecrypt else Ok (a, symkey)
    end
  end.
(* the same BEFORE repair 774c7db (IndexError / ValueError / NotImplementedError escaped; a short key passed when its
   checksum matched); kept for the regression theorems only *)
Definition pkesk_open_old (m : bytes) : res (Z * bytes) :=
  match m with
  | [] => Raise EIndex
  | a :: r =>
    if negb (sym_valid a) then Raise EValue else
    match key_octets a with
    | None => Raise ENotImpl
    | Some n =>
      let symkey := firstn n r in
      let checksum := bytes_to_int (firstn 2 (skipn n r)) in
      if negb (sumz symkey mod 65536 =? checksum) then Raise EDecrypt else Ok (a, symkey)
    end
  end.

(* octets of an MPI without the two-octet bit count: to_mpibytes()[2:] *)
Definition mpi_body (v : Z) : bytes := skipn 2 (to_mpibytes v).
(* b'\x00' * n (empty when n <= 0) *)
Definition zeros (n : Z) : bytes := repeat 0 (Z.to_nat n).

(* ECDH KDF parameter block, ECKDF.derive_key *)
Definition ecdh_param (oid : bytes) (halg kek : Z) (fp : bytes) : bytes :=
  [Z.of_nat (length oid)] ++ oid ++ [18] ++ [3; 1] ++ [halg] ++ [kek] ++ anon_sender ++ fp.

(* ECPoint(packet) after the MPI has been read: format checks only; the octets are kept *)
Definition ecpoint_octets (v : Z) : res bytes :=
  let xy := mpi_body v in
  match xy with
  | [] => Raise EIndex
  | f :: r =>
    if f =? 4 then (if Nat.even (length r) then Ok xy else Raise EPGP)
    else if f =? 64 then Ok xy
    else if (f =? 65) || (f =? 66) then Raise ENotImpl
    else Raise EValue
  end.

(* String2Key layout inside an SKESK: specifier, hash, [salt], [count] *)
Definition s2k_bytes (sp : s2kspec) : bytes :=
  [s_type sp; s_hash sp] ++ (if s_type sp >=? 1 then s_salt sp else []) ++ (if s_type sp =? 3 then [s_count sp] else []).
(* derive_key: `specifier >= Salted` uses the salt, `== Iterated` the count; the reserved value 2 therefore acts as Salted *)
Definition s2k_kind (t : Z) : Z := if t =? 0 then 0 else if t =? 3 then 3 else 1.

(* decrypt_sk, RSA branch: ct = me_mod_n.to_mpibytes()[2:]; ct = b'\x00' * (width - len(ct)) + ct *)
Definition rsa_ct_padded (width : Z) (v : Z) : bytes :=
  let ct := mpi_body v in zeros (width - Z.of_nat (length ct)) ++ ct.

Section Prims.
  Variable sha1 : bytes -> bytes.
  (* CFB with an all-zero IV, whole-block feedback: algorithm id, key, data.  None = the cipher could not be set up *)
  Variable cfb_enc cfb_dec : Z -> bytes -> bytes -> option bytes.
  (* RSA, PKCS#1 v1.5: key handle; modulus size in bits; encryption takes its randomness as an argument *)
  Variable rsa_bits : bytes -> Z.
  Variable rsa_enc : bytes -> bytes -> bytes -> option bytes.
  Variable rsa_dec : bytes -> bytes -> option bytes.
  (* ECDH: fresh ephemeral key for a recipient -> (public point octets, shared secret); recipient side *)
  Variable ecdh_gen : bytes -> bytes -> option (bytes * bytes).
  Variable ecdh_shared : bytes -> bytes -> option bytes.
  (* hash by OpenPGP id (the KDF uses SHA-2) *)
  Variable hash : Z -> bytes -> option bytes.
  (* RFC 3394 *)
  Variable aes_wrap aes_unwrap : bytes -> bytes -> option bytes.
  (* RFC 4880 3.7.1: kind (0 simple, 1 salted, 3 iterated), hash id, salt, octet count, key octets, passphrase *)
  Variable s2k : Z -> Z -> bytes -> Z -> nat -> bytes -> option bytes.

  (* ---------- SEIPD (tag 18) + MDC (tag 19) ---------- *)
  (* MDC().__bytes__(): header built by the generic emitter (new format, tag 19, body length) followed by the digest *)
  Definition mdc_bytes (digest : bytes) : bytes :=
    match header_emit {| h_lenfmt := 1; h_tag := 19; h_llen := 1; h_len := Z.of_nat (length digest) |} with
    | Some h => h ++ digest
    | None => digest
    end.
  (* IntegrityProtectedSKEDataV1.encrypt up to the cipher call; iv = the random prefix *)
  Definition seipd_plain (iv data : bytes) : bytes :=
    let d := iv ++ lastn 2 iv ++ data in
    d ++ mdc_bytes (sha1 (d ++ [211; 20])).
  Definition seipd_encrypt (alg : Z) (key iv data : bytes) : res bytes :=
    of_opt EPrim (cfb_enc alg key (seipd_plain iv data)).
  (* IntegrityProtectedSKEDataV1.decrypt: MDC comparison first; the 22 octets of the MDC packet are then removed
     (`del pt[-22:]`), the repeated-octets check is made on what is left, and the result is the data alone *)
  Definition seipd_decrypt (alg : Z) (key ct : bytes) : res bytes :=
    match cfb_dec alg key ct with
    | None => Raise EPrim
    | Some pt =>
      let expected := [211; 20] ++ sha1 (firstn (length pt - 20) pt) in
      if negb (beqb (lastn 22 pt) expected) then Raise EDecrypt else
      let body := firstn (length pt - 22) pt in
      let bs := block_octets alg in
      let iv := firstn bs body in
      let pt1 := skipn bs body in
      let ivl2 := firstn 2 pt1 in
      let pt2 := skipn 2 pt1 in
      if negb (beqb (lastn 2 iv) ivl2) then Raise EDecrypt else Ok pt2
    end.

  (* ---------- RSA ---------- *)
  (* decrypt_sk, RSA branch: strip the bit count, left-pad with zero octets to the length of the modulus in octets,
     (key_size + 7) // 8 -- a modulus need not be a multiple of 8 bits long *)
  Definition rsa_decrypt_m (h : bytes) (v : Z) : res bytes :=
    of_opt EPrim (rsa_dec h (rsa_ct_padded ((rsa_bits h + 7) / 8) v)).
  (* BEFORE repair 9a4ce40: key_size // 8, one octet short of the modulus when its bit length is no multiple of 8, so that a
     ciphertext integer with a leading zero octet reached the primitive too short; kept for the regression theorem only *)
  Definition rsa_decrypt_m_old (h : bytes) (v : Z) : res bytes :=
    of_opt EPrim (rsa_dec h (rsa_ct_padded (rsa_bits h / 8) v)).
  Definition rsa_encrypt_ct (h seed m : bytes) : res pkct :=
    match rsa_enc h seed m with Some c => Ok (CRsa (bytes_to_int c)) | None => Raise EPrim end.

  (* ---------- ECDH (RFC 6637) ---------- *)
  (* cryptography's ConcatKDFHash: H(counter32 || Z || otherinfo) for counter = 1, 2, ... truncated *)
  Fixpoint kdf_loop (fuel : nat) (halg : Z) (s param : bytes) (len : nat) (i : Z) (acc : bytes) : option bytes :=
    if (len <=? length acc)%nat then Some (firstn len acc) else
    match fuel with
    | O => None
    | S f =>
      match hash halg (be 4 i ++ s ++ param) with
      | None => None
      | Some d => kdf_loop f halg s param len (i + 1) (acc ++ d)
      end
    end.
  Definition ecdh_kdf (halg : Z) (s : bytes) (len : nat) (param : bytes) : option bytes :=
    kdf_loop (S len) halg s param len 1 [].
  Definition ecdh_kek (k : pkey) (s : bytes) : res bytes :=
    match key_octets (k_kdf_enc k) with
    | None => Raise ENotImpl
    | Some n => of_opt EPrim (ecdh_kdf (k_kdf_hash k) s n
                                (ecdh_param (k_oid k) (k_kdf_hash k) (k_kdf_enc k) (k_fp k)))
    end.
  (* the unpadding lines of ECDHCipherText.decrypt: _m[-1] on an empty string is an IndexError (AES key unwrap never
     returns one), every other refusal is PGPDecryptionError *)
  Definition ecdh_unpad (mp : bytes) : res bytes :=
    match mp with
    | [] => Raise EIndex
    | _ => of_opt EDecrypt (pkcs5_unpad mp)
    end.
  (* ECDHCipherText.decrypt *)
  Definition ecdh_decrypt_m (k : pkey) (xy c : bytes) : res bytes :=
    bind (of_opt EPrim (ecdh_shared (k_fp k) xy)) (fun s =>
    bind (ecdh_kek k s) (fun z =>
    bind (of_opt EPrim (aes_unwrap z c)) ecdh_unpad)).
  (* ECDHCipherText.encrypt *)
  Definition ecdh_encrypt_ct (k : pkey) (seed m : bytes) : res pkct :=
    bind (of_opt EPrim (ecdh_gen (k_fp k) seed)) (fun vs =>
    bind (ecdh_kek k (snd vs)) (fun z =>
    bind (of_opt EPrim (aes_wrap z (pkcs5_pad m))) (fun c =>
    Ok (CEcdh (fst vs) c)))).

  (* the ECDH session-key packet of a sender that pads m to `total` octets (not PGPy's: for the independent encryptor) *)
  Definition ecdh_encrypt_ct_to (total : Z) (k : pkey) (seed m : bytes) : res pkct :=
    bind (of_opt EPrim (ecdh_gen (k_fp k) seed)) (fun vs =>
    bind (ecdh_kek k (snd vs)) (fun z =>
    bind (of_opt EPrim (aes_wrap z (pkcs5_pad_to total m))) (fun c =>
    Ok (CEcdh (fst vs) c)))).

  (* ---------- PKESK v3 ---------- *)
  (* decrypt_sk:  try: m = bytearray(self.ct.decrypt(...))  except (ValueError, InvalidUnwrap): raise PGPDecryptionError.
     The refusals of the primitives (EPrim) are these two classes: cryptography reports bad PKCS#1 padding, a point that is
     not on the curve, a wrapped key of a bad length as ValueError and a failed key-wrap integrity check as InvalidUnwrap
     (the fault enumeration of C04 compares the class on every rejected input).  Other classes pass through. *)
  Definition ct_failure (e : exc) : exc := match e with EValue | EPrim => EDecrypt | _ => e end.
  Definition ct_guard {A} (r : res A) : res A := match r with Ok a => Ok a | Raise e => Raise (ct_failure e) end.
  Definition pkesk_decrypt_sk (k : pkey) (pkalg : Z) (ct : pkct) : res (Z * bytes) :=
    if pkalg =? 1 then
      match ct with CRsa v => bind (ct_guard (rsa_decrypt_m (k_fp k) v)) pkesk_open | _ => Raise EType end
    else if pkalg =? 18 then
      match ct with CEcdh xy c => bind (ct_guard (ecdh_decrypt_m k xy c)) pkesk_open | _ => Raise EType end
    else Raise ENotImpl.
  (* PGPKey.encrypt: new PKESK for this key, encrypt_sk (which refuses a session key whose length is not the key
     size of the cipher: the recipient slices exactly that many octets) *)
  Definition pkesk_encrypt (k : pkey) (seed : bytes) (alg : Z) (sk : bytes) : res esk :=
    match key_octets alg with
    | None => Raise ENotImpl
    | Some n =>
      if negb (length sk =? n)%nat then Raise EEncrypt else
      let m := pkesk_m alg sk in
      if k_alg k =? 1 then bind (rsa_encrypt_ct (k_fp k) seed m) (fun ct => Ok (PK (k_id k) 1 ct))
      else if k_alg k =? 18 then bind (ecdh_encrypt_ct k seed m) (fun ct => Ok (PK (k_id k) 18 ct))
      else Raise ENotImpl
    end.

  Definition pkesk_encrypt_to (total : Z) (k : pkey) (seed : bytes) (alg : Z) (sk : bytes) : res esk :=
    match key_octets alg with
    | None => Raise ENotImpl
    | Some n =>
      if negb (length sk =? n)%nat then Raise EEncrypt else
      if k_alg k =? 18 then bind (ecdh_encrypt_ct_to total k seed (pkesk_m alg sk)) (fun ct => Ok (PK (k_id k) 18 ct))
      else Raise ENotImpl
    end.

  (* ---------- SKESK v4 ---------- *)
  Definition s2k_derive (symalg : Z) (sp : s2kspec) (pass : bytes) : res bytes :=
    match key_octets symalg with
    | None => Raise ENotImpl
    | Some n => of_opt EPrim (s2k (s2k_kind (s_type sp)) (s_hash sp) (if s_type sp >=? 1 then s_salt sp else [])
                                  (s2k_count (s_count sp)) n pass)
    end.
  Definition skesk_decrypt_sk (symalg : Z) (sp : s2kspec) (ct pass : bytes) : res (Z * bytes) :=
    bind (s2k_derive symalg sp pass) (fun k =>
    match ct with
    | [] => Ok (symalg, k)
    | _ =>
      bind (of_opt EPrim (cfb_dec symalg k ct)) (fun m =>
      match m with
      | [] => Raise EIndex
      | a :: key => if sym_valid a then Ok (a, key) else Raise EValue
      end)
    end).
  (* encrypt_sk generalised: `inner` is the algorithm octet put in front of the session key (PGPy: inner = symalg).
     Like the public-key path it refuses a session key whose length is not the key size of the cipher it is labelled with
     (first statement of encrypt_sk; in PGPy that cipher is self.symalg = inner) *)
  Definition skesk_encrypt_gen (symalg inner : Z) (sp : s2kspec) (pass sk : bytes) : res esk :=
    match key_octets inner with
    | None => Raise ENotImpl
    | Some n =>
      if negb (length sk =? n)%nat then Raise EEncrypt else
      bind (s2k_derive symalg sp pass) (fun k =>
      bind (of_opt EPrim (cfb_enc symalg k (int_to_bytes inner 1 ++ sk))) (fun c =>
      Ok (SK symalg sp c)))
    end.
  (* the same BEFORE repair 29ef9ad (any length was stored); kept for the regression theorem only *)
  Definition skesk_encrypt_gen_old (symalg inner : Z) (sp : s2kspec) (pass sk : bytes) : res esk :=
    bind (s2k_derive symalg sp pass) (fun k =>
    bind (of_opt EPrim (cfb_enc symalg k (int_to_bytes inner 1 ++ sk))) (fun c =>
    Ok (SK symalg sp c))).
  Definition skesk_encrypt (symalg : Z) (sp : s2kspec) (pass sk : bytes) : res esk :=
    skesk_encrypt_gen symalg symalg sp pass sk.

  (* ---------- one attempt of the loops ---------- *)
  Definition skesk_try (e : esk) (pass ct : bytes) : res bytes :=
    match e with
    | SK symalg sp c => bind (skesk_decrypt_sk symalg sp c pass) (fun ak => seipd_decrypt (fst ak) (snd ak) ct)
    | PK _ _ _ => Raise EType
    end.
  (* except (TypeError, ValueError, NotImplementedError, PGPDecryptionError): continue.
     Refusals of primitives surface in the code as exactly these classes. *)
  Definition caught (e : exc) : bool :=
    match e with EDecrypt | EValue | ENotImpl | EType | EPrim => true | _ => false end.
  Definition is_sk (e : esk) : bool := match e with SK _ _ _ => true | _ => false end.
  (* PGPMessage.decrypt *)
  Fixpoint pass_loop (es : list esk) (pass ct : bytes) : res bytes :=
    match es with
    | [] => Raise EDecrypt
    | e :: r =>
      if is_sk e then
        match skesk_try e pass ct with
        | Ok pt => Ok pt
        | Raise x => if caught x then pass_loop r pass ct else Raise x
        end
      else pass_loop r pass ct
    end.
  Definition decrypt_pass (m : emsg) (pass : bytes) : res bytes :=
    match snd m with
    | None => Raise EPGP
    | Some ct => pass_loop (fst m) pass ct
    end.

  (* PGPKey.decrypt *)
  Definition encrypters (es : list esk) : list bytes :=
    flat_map (fun e => match e with PK id _ _ => [id] | _ => [] end) es.
  Definition id_in (id : bytes) (ids : list bytes) : bool := existsb (beqb id) ids.
  Definition pk_for (k : pkey) (e : esk) : bool :=
    match e with PK id a _ => (a =? k_alg k) && beqb id (k_id k) | _ => false end.
  (* pkesk = next((pk for pk in ... if ...), None); if pkesk is None: raise PGPError  (a session key packet names the key id
     under another algorithm id) *)
  Definition key_decrypt_leaf (k : pkey) (es : list esk) (ct : bytes) : res bytes :=
    match find (pk_for k) es with
    | Some (PK _ a c) => bind (pkesk_decrypt_sk k a c) (fun ak => seipd_decrypt (fst ak) (snd ak) ct)
    | _ => Raise EPGP
    end.
  (* BEFORE repair 774c7db: next(...) without a default let StopIteration out; kept for the regression theorem only *)
  Definition key_decrypt_leaf_old (k : pkey) (es : list esk) (ct : bytes) : res bytes :=
    match find (pk_for k) es with
    | Some (PK _ a c) => bind (pkesk_decrypt_sk k a c) (fun ak => seipd_decrypt (fst ak) (snd ak) ct)
    | _ => Raise EStopIter
    end.
  (* PGPKey.decrypt BEFORE the repair of defect F10 (kept for the regression theorem only): the generator read
     pk.pkalg of every session-key packet, and an SKESessionKeyV4 has no such attribute *)
  Fixpoint find_pk_prefix (k : pkey) (es : list esk) : res (Z * pkct) :=
    match es with
    | [] => Raise EStopIter
    | SK _ _ _ :: _ => Raise EAttr
    | PK id a c :: r => if (a =? k_alg k) && beqb id (k_id k) then Ok (a, c) else find_pk_prefix k r
    end.
  Definition key_decrypt_leaf_prefix (k : pkey) (es : list esk) (ct : bytes) : res bytes :=
    bind (find_pk_prefix k es) (fun ac =>
    bind (pkesk_decrypt_sk k (fst ac) (snd ac)) (fun ak => seipd_decrypt (fst ak) (snd ak) ct)).

  (* without an encrypted data packet: session key packets alone are a message cut short (PGPError); only a message with
     neither is "not encrypted" (warning, the input object is returned) *)
  Definition key_decrypt (k : fullkey) (m : emsg) : res bytes :=
    match snd m with
    | None => match fst m with [] => Raise ENotEncrypted | _ :: _ => Raise EPGP end
    | Some ct =>
      let ids := encrypters (fst m) in
      if id_in (k_id (fk_key k)) ids then key_decrypt_leaf (fk_key k) (fst m) ct
      else match find (fun s => id_in (k_id s) ids) (fk_subs k) with
           | Some s => key_decrypt_leaf s (fst m) ct
           | None => Raise EPGP
           end
    end.

  Inductive secret := SPass (p : bytes) | SKey (k : fullkey).
  Definition decrypt_with (s : secret) (m : emsg) : res bytes :=
    match s with SPass p => decrypt_pass m p | SKey k => key_decrypt k m end.

  (* ---------- encryption to a list of recipients ---------- *)
  (* the API adds one recipient per call with the same session key and cipher:
     PGPMessage.encrypt puts its SKESK in front of the existing session keys, PGPKey.encrypt appends its PKESK *)
  Inductive recipient :=
  | RPass (pass : bytes) (spec : s2kspec)
  | RKey (k : pkey) (seed : bytes).
  Definition esk_of (alg : Z) (sk : bytes) (r : recipient) : res esk :=
    match r with
    | RPass p sp => skesk_encrypt alg sp p sk
    | RKey k seed => pkesk_encrypt k seed alg sk
    end.
  Definition add_recipient (alg : Z) (sk : bytes) (acc : res (list esk)) (r : recipient) : res (list esk) :=
    bind acc (fun es => bind (esk_of alg sk r) (fun e =>
      match r with RPass _ _ => Ok (e :: es) | RKey _ _ => Ok (es ++ [e]) end)).
  (* order of the work as in the API: the first call makes its session-key packet (which refuses a session key of the wrong
     length) and then encrypts the data; every later call adds a session-key packet only *)
  Definition encrypt_to (alg : Z) (sk iv : bytes) (rs : list recipient) (m : bytes) : res emsg :=
    match rs with
    | [] => bind (seipd_encrypt alg sk iv m) (fun ct => Ok ([], Some ct))
    | r1 :: rest =>
      bind (esk_of alg sk r1) (fun e1 =>
      bind (seipd_encrypt alg sk iv m) (fun ct =>
      bind (fold_left (add_recipient alg sk) rest (Ok [e1])) (fun es => Ok (es, Some ct))))
    end.
End Prims.

(* ---------- packet bodies ---------- *)
Definition pkct_bytes (ct : pkct) : res bytes :=
  match ct with
  | CRsa v => Ok (to_mpibytes v)
  | CEcdh xy c =>
    if 256 <=? Z.of_nat (length c) then Raise EValue
    else Ok (to_mpibytes (bytes_to_int xy) ++ [Z.of_nat (length c)] ++ c)
  | CElg a b => Ok (to_mpibytes a ++ to_mpibytes b)
  | COpaque x => Ok x
  end.
(* (PKESessionKeyV3.__bytearray__ builds this body first and sets header.length = 1 + len(_body) before the header is
   written: the header of a re-serialised packet counts the octets written, as `packet` below does) *)
Definition esk_body (e : esk) : res bytes :=
  match e with
  | PK id a ct => bind (pkct_bytes ct) (fun b => Ok ([3] ++ id ++ [a] ++ b))
  | SK a sp ct => Ok ([4; a] ++ s2k_bytes sp ++ ct)
  end.
Definition esk_tag (e : esk) : Z := match e with PK _ _ _ => 1 | SK _ _ _ => 3 end.
Definition seipd_body (ct : bytes) : bytes := [1] ++ ct.
(* new-format header, as every packet object created by PGPy has *)
Definition packet (tag : Z) (body : bytes) : res bytes :=
  match header_emit {| h_lenfmt := 1; h_tag := tag; h_llen := 1; h_len := Z.of_nat (length body) |} with
  | Some h => Ok (h ++ body)
  | None => Raise EValue
  end.
Definition esk_packet (e : esk) : res bytes := bind (esk_body e) (packet (esk_tag e)).
Fixpoint esks_emit (es : list esk) : res bytes :=
  match es with
  | [] => Ok []
  | e :: r => bind (esk_packet e) (fun a => bind (esks_emit r) (fun b => Ok (a ++ b)))
  end.
(* PGPMessage.__iter__ for an encrypted message: session keys, then the encrypted data *)
Definition msg_emit (m : emsg) : res bytes :=
  bind (esks_emit (fst m)) (fun a =>
  match snd m with
  | None => Ok a
  | Some ct => bind (packet 18 (seipd_body ct)) (fun b => Ok (a ++ b))
  end).

(* ---------- packet parsers: they eat from the shared buffer like the code; result = (object, rest) ---------- *)
(* the algorithm ids pkalg_int has a ciphertext class for (RSACipherText, ElGCipherText, ECDHCipherText) *)
Definition pk_class (a : Z) : bool := (a =? 1) || (a =? 2) || (a =? 16) || (a =? 20) || (a =? 18).
(* PKESessionKeyV3.parse; b = buffer after header and version octet.  The pkalg setter keeps an id that is no
   PubKeyAlgorithm member as a plain int (no refusal); every id without a ciphertext class, listed or not, takes
     pend = self.header.length - 10; self._opaque_ct = packet[:pend]; del packet[:pend]
   (version octet, key id and algorithm octet are the 10) *)
Definition pkesk_parse (h : pheader) (b : bytes) : res (esk * bytes) :=
  let id := firstn 8 b in
  match skipn 8 b with
  | [] => Raise EPGP
  | alg :: b2 =>
    if (alg =? 1) || (alg =? 2) then
      let '(v, r) := mpi_parse b2 in Ok (PK id alg (CRsa v), r)
    else if (alg =? 16) || (alg =? 20) then
      let '(v1, r1) := mpi_parse b2 in
      let '(v2, r2) := mpi_parse r1 in Ok (PK id alg (CElg v1 v2), r2)
    else if alg =? 18 then
      let '(v, r) := mpi_parse b2 in
      match ecpoint_octets v with
      | Raise _ => Raise EPGP
      | Ok xy =>
        match r with
        | [] => Raise EPGP
        | clen :: r2 => Ok (PK id 18 (CEcdh xy (firstn (Z.to_nat clen) r2)), skipn (Z.to_nat clen) r2)
        end
      end
    else Ok (PK id alg (COpaque (py_take (h_len h - 10) b2)), py_drop (h_len h - 10) b2)
  end.
(* the same BEFORE repairs 3c26ab3 / f2ab7da, kept for the regression theorems only: an id outside the enum made the setter
   raise (PGPError out of the packet dispatcher: the whole message unreadable); for a listed id without class the code did
   `del packet[:(self.header.length - 18)]` and kept nothing, and __bytearray__ wrote b'\x00' * (header.length - 10) in its
   place -- the object is given here by the octets it would write *)
Definition pkesk_parse_old (h : pheader) (b : bytes) : res (esk * bytes) :=
  let id := firstn 8 b in
  match skipn 8 b with
  | [] => Raise EPGP
  | alg :: b2 =>
    if negb (pk_valid alg) then Raise EPGP
    else if pk_class alg then pkesk_parse h b
    else Ok (PK id alg (COpaque (zeros (h_len h - 10))), py_drop (h_len h - 18) b2)
  end.

(* SKESessionKeyV4.parse *)
Definition skesk_parse (h : pheader) (b : bytes) : res (esk * bytes) :=
  match b with
  | [] => Raise EPGP
  | alg :: b1 =>
    if negb (sym_valid alg) then Raise EPGP else
    match b1 with
    | [] => Raise EPGP
    | ty :: b2 =>
      if negb (s2ktype_valid ty) then Raise EPGP
      else if ty =? 101 then Raise EUnmodelled else
      match b2 with
      | [] => Raise EPGP
      | ha :: b3 =>
        if negb (hash_valid ha) then Raise EPGP else
        let salt := if ty >=? 1 then firstn 8 b3 else [] in
        let b4 := if ty >=? 1 then skipn 8 b3 else b3 in
        let fin (cnt : Z) (b5 : bytes) : res (esk * bytes) :=
          let s2klen := 4 + Z.of_nat (length salt) + (if ty =? 3 then 1 else 0) in
          let ctend := h_len h - s2klen in
          Ok (SK alg {| s_type := ty; s_hash := ha; s_salt := salt; s_count := cnt |} (py_take ctend b5),
              py_drop ctend b5) in
        if ty =? 3 then
          match b4 with
          | [] => Raise EPGP
          | c :: b5 => fin c b5
          end
        else fin 0 b4
      end
    end
  end.

(* new-format header whose first length octet opens a partial body length (224..254): C09's territory; a mutated
   message that reaches one is outside this model (the code mostly dies with IndexError) *)
Definition partial_first (b : bytes) : bool :=
  match b with
  | t :: l :: _ => negb (Z.land t 64 =? 0) && (224 <=? l) && (l <? 255)
  | _ => false
  end.

(* PGPMessage.parse loop over Packet(data) and __or__ *)
Fixpoint msg_parse_loop (fuel : nat) (b : bytes) (es : list esk) (ct : option bytes) : res emsg :=
  match b with
  | [] => Ok (es, ct)
  | _ =>
    match fuel with
    | O => Raise EFuel
    | S f =>
      if partial_first b then Raise EUnmodelled else
      match header_parse b with
      | None => Raise EPGP
      | Some (h, r) =>
        let t := h_tag h in
        if (t =? 1) || (t =? 3) || (t =? 18) then
          match r with
          | [] => Raise EPGP
          | ver :: r1 =>
            if t =? 1 then
              if ver =? 3 then
                match pkesk_parse h r1 with
                | Ok (e, r2) => msg_parse_loop f r2 (es ++ [e]) ct
                | Raise x => Raise x
                end
              else Raise ENotImpl
            else if t =? 3 then
              if ver =? 4 then
                match skesk_parse h r1 with
                | Ok (e, r2) => msg_parse_loop f r2 (es ++ [e]) ct
                | Raise x => Raise x
                end
              else Raise ENotImpl
            else
              if ver =? 1 then
                match ct with
                | Some _ => Raise ENotImpl
                | None => msg_parse_loop f (py_drop (h_len h - 1) r1) es (Some (py_take (h_len h - 1) r1))
                end
              else Raise ENotImpl
          end
        else Raise EUnmodelled
      end
    end
  end.
Definition msg_parse (b : bytes) : res emsg := msg_parse_loop (S (length b)) b [] None.
