(* C18: PubKeyV4.fingerprint (pgpy/packet/packets.py) as the code computes it, Fingerprint.keyid
   (pgpy/types.py), and the places where PGPy writes a key id / fingerprint:
   Issuer (type 16) and IssuerFingerprint (type 33) subpackets, PKESK v3 key id.
   SHA-1 is a Section variable (answered by hashlib through the primitive oracle after extraction).
   No proofs in this file. *)
From Coq Require Import ZArith List Bool.
Import ListNotations.
Require Import PV.Lib.Bytes PV.Model.Wire PV.Model.KeyPackets.
Open Scope Z_scope.

Section Fingerprint.
Variable sha1 : bytes -> bytes.

(* fp = sha1(); fp.update(piece) ... : the digest of the concatenation of the pieces, in the order and
   with the slicing the method uses:
     plen = self.keymaterial.publen();  bcde_len = int_to_bytes(6 + plen, 2)
     b'\x99' + bcde_len[:1] + bcde_len[-1:]    (first and LAST octet: not the two-octet length when 6+plen >= 65536)
     b'\x04';  int_to_bytes(timegm(created), 4);  int_to_bytes(pkalg)
     self.keymaterial.__bytearray__()[:plen]   (for a private key the whole secret material is built, then cut) *)
Definition fp_input (k : keypkt) : bytes :=
  let plen := publen k in
  let bcde := int_to_bytes (6 + plen) 2 in
  ([153] ++ firstn 1 bcde ++ lastn 1 bcde)
  ++ [4]
  ++ int_to_bytes (k_created k) 4
  ++ int_to_bytes (k_alg k) 1
  ++ firstn (Z.to_nat plen) (keymaterial_bytes k).

Definition fingerprint (k : keypkt) : bytes := sha1 (fp_input k).

(* the code before repair e03112d: publen() of opaque material was 0 *)
Definition fp_input_prefix (k : keypkt) : bytes :=
  let plen := pubmat_len_prefix (k_mat k) in
  let bcde := int_to_bytes (6 + plen) 2 in
  ([153] ++ firstn 1 bcde ++ lastn 1 bcde)
  ++ [4]
  ++ int_to_bytes (k_created k) 4
  ++ int_to_bytes (k_alg k) 1
  ++ firstn (Z.to_nat plen) (keymaterial_bytes k).
Definition fingerprint_prefix (k : keypkt) : bytes := sha1 (fp_input_prefix k).

(* Fingerprint.keyid = self[-16:] of the 40 hex digits = the last 8 octets; shortid = the last 4 *)
Definition keyid (k : keypkt) : bytes := lastn 8 (fingerprint k).
Definition shortid (k : keypkt) : bytes := lastn 4 (fingerprint k).

(* what PGPy emits *)
(* Issuer subpacket: header (length 9 = type octet + 8), then unhexlify(fingerprint.keyid) *)
Definition issuer_subpacket (k : keypkt) : bytes := sub_header_emit 9 16 false ++ keyid k.
(* IssuerFingerprint subpacket: header (length 22), key version 4, the 20 octets *)
Definition issuer_fpr_subpacket (k : keypkt) : bytes := sub_header_emit 22 33 false ++ [4] ++ fingerprint k.
(* PKESK v3 body starts: version 3, unhexlify(fingerprint.keyid), algorithm *)
Definition pkesk_prefix (k : keypkt) : bytes := [3] ++ keyid k ++ int_to_bytes (k_alg k) 1.

End Fingerprint.

(* ---------- what can happen to a key packet during a key-management history ---------- *)
(* export + import of the packet: the body is emitted and parsed again; the secret tail is carried over
   as it is (its own codec is the subject of C06/C08, it is never read by the fingerprint) *)
Definition reparse (k : keypkt) : keypkt :=
  match key_body_parse (key_body k) with
  | Some (c, a, m, _) => {| k_sub := k_sub k; k_created := c; k_alg := a; k_mat := m; k_sec := k_sec k |}
  | None => k
  end.

Inductive keyop :=
| OpProtect (s2k enc : bytes)     (* PrivKeyV4.protect: new S2K parameters and ciphertext, integers cleared *)
| OpUnlock (privs : list Z)       (* PrivKeyV4.unprotect: the secret integers reappear *)
| OpLock                          (* leaving `with key.unlock(...)`: keymaterial.clear() *)
| OpPubkey                        (* PrivKeyV4.pubkey() / PGPKey.pubkey *)
| OpCopy                          (* PubKeyV4.__copy__: same field values (opaque octets included, repair 3c1c8c6) *)
| OpReparse.                      (* bytes(packet) read back by Packet(...) *)

(* None = the step raises (only pubkey() of a private key with opaque material: NotImplementedError) *)
Definition apply_op (k : keypkt) (o : keyop) : option keypkt :=
  match o with
  | OpProtect s e => Some (map_sec (protect_sec s e) k)
  | OpUnlock p => Some (map_sec (unlock_sec p) k)
  | OpLock => Some (map_sec clear_sec k)
  | OpPubkey => pubkey_pkt k
  | OpCopy => Some k
  | OpReparse => Some (reparse k)
  end.
(* a history: the first refusal ends it *)
Fixpoint run_ops (ops : list keyop) (k : keypkt) : option keypkt :=
  match ops with
  | [] => Some k
  | o :: r => match apply_op k o with Some k' => run_ops r k' | None => None end
  end.

(* the code before repair 3c1c8c6: pubkey() never refused and emptied opaque material, copy lost the opaque octets *)
Definition apply_op_old (k : keypkt) (o : keyop) : keypkt :=
  match o with
  | OpProtect s e => map_sec (protect_sec s e) k
  | OpUnlock p => map_sec (unlock_sec p) k
  | OpLock => map_sec clear_sec k
  | OpPubkey => pubkey_pkt_old k
  | OpCopy => copy_pkt_old k
  | OpReparse => reparse k
  end.

(* ---------- reading ids back out of emitted packets (used on PGPy's output by the harness) ---------- *)
(* all subpackets of one area as (type, body); None = malformed *)
Fixpoint subpackets (fuel : nat) (b : bytes) : option (list (Z * bytes)) :=
  match fuel with
  | O => None
  | S f =>
    match b with
    | [] => Some []
    | _ =>
      match sub_header_parse b with
      | None => None
      | Some (l, t, _, r) =>
        if (l <? 1) || (Z.of_nat (length r) <? l - 1) then None
        else let n := Z.to_nat (l - 1) in
             match subpackets f (skipn n r) with
             | None => None
             | Some more => Some ((t, firstn n r) :: more)
             end
      end
    end
  end.

(* version-4 signature packet body: ver, type, pkalg, halg, hashed area (2-octet length), unhashed area *)
Definition sig_subpackets (body : bytes) : option (list (Z * bytes) * list (Z * bytes)) :=
  match body with
  | 4 :: _ :: _ :: _ :: h1 :: h0 :: r =>
    let hl := Z.to_nat (h1 * 256 + h0) in
    if (length r <? hl)%nat then None
    else match subpackets (S hl) (firstn hl r) with
         | None => None
         | Some hs =>
           match skipn hl r with
           | u1 :: u0 :: r2 =>
             let ul := Z.to_nat (u1 * 256 + u0) in
             if (length r2 <? ul)%nat then None
             else match subpackets (S ul) (firstn ul r2) with
                  | None => None
                  | Some us => Some (hs, us)
                  end
           | _ => None
           end
         end
  | _ => None
  end.

(* PKESK version 3 body: the key id field *)
Definition pkesk_keyid (body : bytes) : option bytes :=
  match body with
  | 3 :: r => if (length r <? 8)%nat then None else Some (firstn 8 r)
  | _ => None
  end.
