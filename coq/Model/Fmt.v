(* Format combinators: one untyped value language, an encoder, a fuel-indexed decoder.
   Every packet / subpacket body codec of PGPy is an instance (Model/Packets.v); the generic
   round-trip theorem is Proofs/Fmt_lemmas.v dec_enc. *)
From Coq Require Import ZArith List Bool.
Import ListNotations.
Require Import PV.Lib.Bytes PV.Model.Wire.
Open Scope Z_scope.

Inductive value := VZ (z : Z) | VB (b : bytes) | VP (a b : value) | VL (l : list value).

Inductive fmt :=
| FBE (n : nat)                 (* n-octet unsigned big endian *)
| FFixed (n : nat)              (* exactly n octets *)
| FConst (c : bytes)            (* these octets *)
| FMPI                          (* RFC 4880 3.2 multiprecision integer *)
| FRest                         (* everything up to the end of the region *)
| FSeq (a b : fmt)
| FLen (n : nat) (a : fmt)      (* n-octet length prefix, then exactly that many octets parsed by a *)
| FNewLen (a : fmt)             (* new-format (1/2/5-octet) length prefix, then exactly that many octets parsed by a *)
| FSubLen (a : fmt)             (* subpacket length prefix (RFC 4880 5.2.3.1: one octet below 192, two octets for a first octet 192..254,
                                  five octets for 255; no partial form; Wire.sub_len / Wire.sub_length), then exactly that many octets parsed by a *)
| FMany (a : fmt).              (* repeat a until the region is exhausted *)

Fixpoint enc (f : fmt) (v : value) {struct f} : option bytes :=
  match f, v with
  | FBE n, VZ z => if (0 <=? z) && (z <? 256 ^ Z.of_nat n) then Some (be n z) else None
  | FFixed n, VB b => if Nat.eqb (length b) n then Some b else None
  | FConst c, VB b => if eqb_bytes b c then Some c else None
  | FMPI, VZ z => if (0 <=? z) && (bit_length z <? 65536) then Some (to_mpibytes z) else None
  | FRest, VB b => Some b
  | FSeq a b, VP x y =>
      match enc a x, enc b y with Some p, Some q => Some (p ++ q) | _, _ => None end
  | FLen n a, x =>
      match enc a x with
      | Some p => if Z.of_nat (length p) <? 256 ^ Z.of_nat n then Some (be n (Z.of_nat (length p)) ++ p) else None
      | None => None end
  | FNewLen a, x =>
      match enc a x with
      | Some p => if Z.of_nat (length p) <? 4294967296 then Some (new_length (Z.of_nat (length p)) ++ p) else None
      | None => None end
  | FSubLen a, x =>
      match enc a x with
      | Some p => if Z.of_nat (length p) <? 4294967296 then Some (sub_length (Z.of_nat (length p)) ++ p) else None
      | None => None end
  | FMany a, VL l =>
      (fix go (l : list value) : option bytes :=
         match l with
         | [] => Some []
         | x :: r => match enc a x, go r with
                     | Some p, Some q => if Nat.eqb (length p) 0 then None else Some (p ++ q)
                     | _, _ => None end
         end) l
  | _, _ => None
  end.

Fixpoint dec (fuel : nat) (f : fmt) (i : bytes) {struct fuel} : option (value * bytes) :=
  match fuel with O => None | S fuel' =>
  match f with
  | FBE n => if Nat.leb n (length i) then Some (VZ (unbe (firstn n i)), skipn n i) else None
  | FFixed n => if Nat.leb n (length i) then Some (VB (firstn n i), skipn n i) else None
  | FConst c => if eqb_bytes (firstn (length c) i) c then Some (VB c, skipn (length c) i) else None
  | FMPI => let '(v, r) := mpi_parse i in Some (VZ v, r)
  | FRest => Some (VB i, [])
  | FSeq a b =>
      match dec fuel' a i with
      | Some (x, r) => match dec fuel' b r with Some (y, r') => Some (VP x y, r') | None => None end
      | None => None end
  | FLen n a =>
      if Nat.leb n (length i) then
        let len := Z.to_nat (unbe (firstn n i)) in
        let rest := skipn n i in
        if Nat.leb len (length rest) then
          match dec fuel' a (firstn len rest) with
          | Some (x, []) => Some (x, skipn len rest)
          | _ => None end
        else None
      else None
  | FNewLen a =>
      match new_len i with
      | Some (l, rest) =>
        let len := Z.to_nat l in
        if Nat.leb len (length rest) then
          match dec fuel' a (firstn len rest) with
          | Some (x, []) => Some (x, skipn len rest)
          | _ => None end
        else None
      | None => None end
  | FSubLen a =>
      match sub_len i with
      | Some (l, rest) =>
        let len := Z.to_nat l in
        if Nat.leb len (length rest) then
          match dec fuel' a (firstn len rest) with
          | Some (x, []) => Some (x, skipn len rest)
          | _ => None end
        else None
      | None => None end
  | FMany a =>
      match i with
      | [] => Some (VL [], [])
      | _ => match dec fuel' a i with
             | Some (x, r) =>
                 if Nat.ltb (length r) (length i) then
                   match dec fuel' (FMany a) r with
                   | Some (VL l, r') => Some (VL (x :: l), r')
                   | _ => None end
                 else None
             | None => None end
      end
  end end.

Fixpoint depth (f : fmt) : nat :=
  match f with
  | FSeq a b => S (depth a + depth b) | FLen _ a => S (depth a) | FNewLen a => S (depth a) | FSubLen a => S (depth a) | FMany a => S (depth a)
  | _ => 1%nat end.

(* mode true: self-delimiting; mode false: consumes exactly the region it is given *)
Fixpoint wf (m : bool) (f : fmt) : bool :=
  match f, m with
  | FBE _, _ | FFixed _, _ | FConst _, _ | FMPI, _ => true
  | FRest, false => true
  | FSeq a b, m => wf true a && wf m b
  | FLen _ a, _ => wf false a
  | FNewLen a, _ => wf false a
  | FSubLen a, _ => wf false a
  | FMany a, false => wf true a
  | _, _ => false
  end.

Definition out (m : bool) (r : bytes) := if m then r else [].
Definition inp (m : bool) (b r : bytes) := if m then b ++ r else b.
