(* Strict companions of the tolerant decoder Fmt.dec.

   dec_strict: a copy of Fmt.dec whose ONLY difference is the FMPI case: where mpi_parse clamps like
   Python slices (a multiprecision integer whose two length octets or whose value octets are cut
   short by the end of the region still decodes), dec_strict answers None unless the two length
   octets and all (bits+7)/8 value octets are present.  Everything else (non-minimal new-format
   lengths, partial body lengths, bit counts that cover leading zero bits) is accepted as by dec.

   dec_strict2: a copy of dec_strict with these further refusals:
     - FNewLen: partial body lengths (first length octet 224..254) are refused (new_len_np);
     - FSubLen: sub_len has no partial lengths, but a first octet 224..254 opens a two-octet length of
       8384..16319, which the encoder (Wire.sub_length = the packet rule: two octets below 8384, else
       five) writes with FIVE octets, three more than were read: refused as well (sub_len_np);
     - FMPI: a value of 65536 significant bits is refused (possible only when the declared bit count is
       65529..65535, hence 8192 value octets, and the first value octet has its top bit set, i.e. the
       value does not fit the declared bit count; "v < 2^declared" implies the condition).
   So dec_strict2 refuses a first length octet 224..254 under both length rules, and nothing else about
   lengths.  Proofs/Fmt_lemmas2.v shows that "re-encoding is defined and no longer than what was
   consumed" holds for dec_strict2 and fails for dec_strict in three ways (partial packet lengths
   re-encode longer, and so do subpacket lengths 8384..16319 written with two octets; inside a
   two-octet-counted area the longer re-encoding of such subpackets overflows the count; a 65536-bit
   value has no two-octet bit count). *)
From Coq Require Import ZArith List Bool.
Import ListNotations.
Require Import PV.Lib.Bytes PV.Model.Wire PV.Model.Fmt.
Open Scope Z_scope.

Fixpoint dec_strict (fuel : nat) (f : fmt) (i : bytes) {struct fuel} : option (value * bytes) :=
  match fuel with O => None | S fuel' =>
  match f with
  | FBE n => if Nat.leb n (length i) then Some (VZ (unbe (firstn n i)), skipn n i) else None
  | FFixed n => if Nat.leb n (length i) then Some (VB (firstn n i), skipn n i) else None
  | FConst c => if eqb_bytes (firstn (length c) i) c then Some (VB c, skipn (length c) i) else None
  | FMPI =>
      if Nat.leb 2 (length i)
         && Nat.leb (Z.to_nat ((unbe (firstn 2 i) + 7) / 8)) (length (skipn 2 i))
      then let '(v, r) := mpi_parse i in Some (VZ v, r)
      else None
  | FRest => Some (VB i, [])
  | FSeq a b =>
      match dec_strict fuel' a i with
      | Some (x, r) => match dec_strict fuel' b r with Some (y, r') => Some (VP x y, r') | None => None end
      | None => None end
  | FLen n a =>
      if Nat.leb n (length i) then
        let len := Z.to_nat (unbe (firstn n i)) in
        let rest := skipn n i in
        if Nat.leb len (length rest) then
          match dec_strict fuel' a (firstn len rest) with
          | Some (x, []) => Some (x, skipn len rest)
          | _ => None end
        else None
      else None
  | FNewLen a =>
      match new_len i with
      | Some (l, rest) =>
        let len := Z.to_nat l in
        if Nat.leb len (length rest) then
          match dec_strict fuel' a (firstn len rest) with
          | Some (x, []) => Some (x, skipn len rest)
          | _ => None end
        else None
      | None => None end
  | FSubLen a =>
      match sub_len i with
      | Some (l, rest) =>
        let len := Z.to_nat l in
        if Nat.leb len (length rest) then
          match dec_strict fuel' a (firstn len rest) with
          | Some (x, []) => Some (x, skipn len rest)
          | _ => None end
        else None
      | None => None end
  | FMany a =>
      match i with
      | [] => Some (VL [], [])
      | _ => match dec_strict fuel' a i with
             | Some (x, r) =>
                 if Nat.ltb (length r) (length i) then
                   match dec_strict fuel' (FMany a) r with
                   | Some (VL l, r') => Some (VL (x :: l), r')
                   | _ => None end
                 else None
             | None => None end
      end
  end end.

(* same fuel as Packets.dec_full *)
Definition dec_strict_full (f : fmt) (i : bytes) : option (value * bytes) :=
  dec_strict (S (S (depth f + List.length i))) f i.

(* new_len without the partial-length loop: one length field (1, 2 or 5 octets), clamping as new_len does *)
Definition new_len_np (b : bytes) : option (Z * bytes) :=
  match parse_len b 0 with
  | Some (pl, size, false) => Some (pl, skipn size b)
  | _ => None
  end.

(* sub_len without the two-octet lengths the encoder does not write with two octets (first octet 224..254,
   length 8384..16319) *)
Definition sub_len_np (p : bytes) : option (Z * bytes) :=
  match p with
  | [] => None
  | p0 :: _ => if (224 <=? p0) && (p0 <? 255) then None else sub_len p
  end.

Fixpoint dec_strict2 (fuel : nat) (f : fmt) (i : bytes) {struct fuel} : option (value * bytes) :=
  match fuel with O => None | S fuel' =>
  match f with
  | FBE n => if Nat.leb n (length i) then Some (VZ (unbe (firstn n i)), skipn n i) else None
  | FFixed n => if Nat.leb n (length i) then Some (VB (firstn n i), skipn n i) else None
  | FConst c => if eqb_bytes (firstn (length c) i) c then Some (VB c, skipn (length c) i) else None
  | FMPI =>
      if Nat.leb 2 (length i)
         && Nat.leb (Z.to_nat ((unbe (firstn 2 i) + 7) / 8)) (length (skipn 2 i))
      then let '(v, r) := mpi_parse i in if bit_length v <? 65536 then Some (VZ v, r) else None
      else None
  | FRest => Some (VB i, [])
  | FSeq a b =>
      match dec_strict2 fuel' a i with
      | Some (x, r) => match dec_strict2 fuel' b r with Some (y, r') => Some (VP x y, r') | None => None end
      | None => None end
  | FLen n a =>
      if Nat.leb n (length i) then
        let len := Z.to_nat (unbe (firstn n i)) in
        let rest := skipn n i in
        if Nat.leb len (length rest) then
          match dec_strict2 fuel' a (firstn len rest) with
          | Some (x, []) => Some (x, skipn len rest)
          | _ => None end
        else None
      else None
  | FNewLen a =>
      match new_len_np i with
      | Some (l, rest) =>
        let len := Z.to_nat l in
        if Nat.leb len (length rest) then
          match dec_strict2 fuel' a (firstn len rest) with
          | Some (x, []) => Some (x, skipn len rest)
          | _ => None end
        else None
      | None => None end
  | FSubLen a =>
      match sub_len_np i with
      | Some (l, rest) =>
        let len := Z.to_nat l in
        if Nat.leb len (length rest) then
          match dec_strict2 fuel' a (firstn len rest) with
          | Some (x, []) => Some (x, skipn len rest)
          | _ => None end
        else None
      | None => None end
  | FMany a =>
      match i with
      | [] => Some (VL [], [])
      | _ => match dec_strict2 fuel' a i with
             | Some (x, r) =>
                 if Nat.ltb (length r) (length i) then
                   match dec_strict2 fuel' (FMany a) r with
                   | Some (VL l, r') => Some (VL (x :: l), r')
                   | _ => None end
                 else None
             | None => None end
      end
  end end.

Definition dec_strict2_full (f : fmt) (i : bytes) : option (value * bytes) :=
  dec_strict2 (S (S (depth f + List.length i))) f i.
