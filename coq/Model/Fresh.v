(* C13: every operation draws fresh secret randomness of the right size.
   Abstract model of the calls to the process random source made by
     pgpy/pgp.py            PGPMessage.encrypt, PGPKey.encrypt   (session key unless supplied)
     pgpy/packet/packets.py SKESessionKeyV4.encrypt_sk (8-octet salt), PKESessionKeyV3.encrypt_sk,
                            IntegrityProtectedSKEDataV1.encrypt (block-size prefix, last two octets repeated)
     pgpy/packet/fields.py  PrivKey.encrypt_keyblob (IV then salt, per key packet), ECDHCipherText.encrypt (ephemeral key pair)
     pgpy/constants.py      SymmetricKeyAlgorithm.gen_key / gen_iv, key_size, block_size
   in the order in which the code makes them.  The random source is an allocator of numbered cells: a draw takes the next
   cell; what the cell holds is outside the model (the quality of the OS / OpenSSL generator cannot be modelled - C13 is
   partial there).  Outputs are symbolic terms so that "where does a drawn value end up" is a syntactic question. *)
From Coq Require Import ZArith List Bool.
Import ListNotations.
Require Import PV.Lib.Bytes.
Open Scope Z_scope.

(* key_size // 8 and block_size // 8 of SymmetricKeyAlgorithm; 0 = not a cipher PGPy can encrypt with *)
Definition key_octets (c : Z) : Z :=
  if (c =? 1) || (c =? 3) || (c =? 4) || (c =? 7) || (c =? 11) then 16
  else if (c =? 2) || (c =? 8) || (c =? 12) then 24
  else if (c =? 9) || (c =? 10) || (c =? 13) then 32 else 0.
Definition blk_octets (c : Z) : Z :=
  if (1 <=? c) && (c <=? 4) then 8 else if (7 <=? c) && (c <=? 13) then 16 else 0.

Inductive purpose := PSessionKey | PSalt | PPrefix | PIV | PEphemeral.
Record drawrec := { d_purpose : purpose; d_size : Z; d_cell : nat }.

Inductive sterm :=
| Tok (cell : nat)                       (* the value held by a cell of the random source *)
| Given (b : bytes)                      (* octets supplied by the caller (sessionkey=...) *)
| Msg (m : bytes)                        (* the message handed to the operation *)
| Pass (p : bytes)                       (* the passphrase *)
| Secret (i : nat)                       (* secret integers of key packet i *)
| Lit (b : bytes)                        (* constants: versions, algorithm ids, key ids *)
| Cat (a b : sterm)
| Last2 (a : sterm)                      (* iv[-2:] *)
| Hash (a : sterm)
| Sum16 (a : sterm)                      (* two-octet additive checksum *)
| Kdf (pass salt : sterm)                (* String2Key.derive_key *)
| Enc (k pt : sterm)                     (* CFB encryption of pt under k *)
| PkEnc (rcpt : nat) (pt : sterm)        (* RSA PKCS#1 v1.5 encryption to recipient rcpt *)
| PubOf (e : sterm)                      (* public point of an ephemeral secret *)
| Wrap (e : sterm) (rcpt : nat) (pt : sterm).   (* AES key wrap under KDF(ECDH(e, recipient)) *)

(* one call to the random source *)
Definition draw (p : purpose) (sz : Z) (n : nat) : sterm * list drawrec * nat :=
  (Tok n, [{| d_purpose := p; d_size := sz; d_cell := n |}], S n).

Inductive kind := KRsa | KEcdh (scalar_octets : Z).

Inductive fop :=
| EncPass (cipher : Z) (pass msg : bytes) (sk : option bytes) (already_encrypted : bool)        (* PGPMessage.encrypt *)
| EncKey (cipher : Z) (k : kind) (rcpt : nat) (msg : bytes) (sk : option bytes) (already_encrypted : bool)   (* PGPKey.encrypt *)
| Protect (cipher : Z) (pass : bytes) (npkts : nat).                                            (* PGPKey.protect *)

(* `if sessionkey is None: sessionkey = cipher_algo.gen_key()` *)
Definition session (c : Z) (sk : option bytes) (n : nat) : sterm * list drawrec * nat :=
  match sk with
  | Some b => (Given b, [], n)
  | None => draw PSessionKey (key_octets c) n
  end.

(* IntegrityProtectedSKEDataV1.encrypt *)
Definition seipd (c : Z) (skt : sterm) (msg : bytes) (n : nat) : sterm * list drawrec * nat :=
  let '(pre, t, n1) := draw PPrefix (blk_octets c) n in
  let data := Cat pre (Cat (Last2 pre) (Msg msg)) in
  (Enc skt (Cat data (Cat (Lit [211; 20]) (Hash (Cat data (Lit [211; 20]))))), t, n1).

(* PKESessionKeyV3.encrypt_sk: m = cipher id, session key, checksum of the session key *)
Definition pkesk (c : Z) (k : kind) (rcpt : nat) (skt : sterm) (n : nat) : sterm * list drawrec * nat :=
  let m := Cat (Lit [c]) (Cat skt (Sum16 skt)) in
  match k with
  | KRsa => (PkEnc rcpt m, [], n)
  | KEcdh sz => let '(e, t, n1) := draw PEphemeral sz n in (Cat (PubOf e) (Wrap e rcpt m), t, n1)
  end.

(* PrivKey.encrypt_keyblob for the primary and every subkey: IV first, then salt *)
Fixpoint protect_loop (c : Z) (pass : bytes) (k i n : nat) : list sterm * list drawrec * nat :=
  match k with
  | O => ([], [], n)
  | S k' =>
    let '(iv, t1, n1) := draw PIV (blk_octets c) n in
    let '(salt, t2, n2) := draw PSalt 8 n1 in
    let out := Cat (Lit [254; c; 3]) (Cat salt (Cat iv (Enc (Kdf (Pass pass) salt) (Cat (Secret i) (Hash (Secret i)))))) in
    let '(outs, t3, n3) := protect_loop c pass k' (S i) n2 in
    (out :: outs, t1 ++ t2 ++ t3, n3)
  end.

(* SKESessionKeyV4.encrypt_sk (since repair 29ef9ad) and PKESessionKeyV3.encrypt_sk start with
   `if len(sk) != symalg.key_size // 8: raise PGPEncryptionError`: a caller-supplied session key of the wrong length is
   refused BEFORE the salt / the ephemeral key pair is drawn.  A key the operation drew itself always fits. *)
Definition sk_fits (c : Z) (sk : option bytes) : bool :=
  match sk with Some b => Z.of_nat (length b) =? key_octets c | None => true end.

(* ciphers PrivKey.encrypt_keyblob can encrypt with (Model/KeyProtect.v can_encrypt).  Since repair a3ce830 the IV and the salt
   are drawn into a String2Key object built on the side -- same calls, same order (IV, then salt), same sizes -- and a
   refused protect raises out of the FIRST key packet: IDEA (1) and Twofish256 (10) are refused by _encrypt after that
   packet's IV and salt were drawn (the values are dropped with the unused specifier); Plaintext (0) and non-ciphers have
   no block size, gen_iv raises before anything is drawn. *)
Definition can_protect (c : Z) : bool :=
  ((2 <=? c) && (c <=? 4)) || ((7 <=? c) && (c <=? 9)) || ((11 <=? c) && (c <=? 13)).
Definition protect_refused (c : Z) (npkts n : nat) : list sterm * list drawrec * nat :=
  match npkts with
  | O => ([], [], n)
  | S _ =>
    if (c =? 1) || (c =? 10) then
      let '(iv, t1, n1) := draw PIV (blk_octets c) n in
      let '(salt, t2, n2) := draw PSalt 8 n1 in
      ([], t1 ++ t2, n2)
    else ([], [], n)
  end.

(* one operation: (symbolic outputs, draw trace in call order, next free cell); no output = the operation raised *)
Definition exec (o : fop) (n : nat) : list sterm * list drawrec * nat :=
  match o with
  | EncPass c pass msg sk enc =>
    if sk_fits c sk then
      let '(skt, t1, n1) := session c sk n in
      let '(salt, t2, n2) := draw PSalt 8 n1 in
      let skesk := Cat (Lit [4; c; 3]) (Cat salt (Enc (Kdf (Pass pass) salt) (Cat (Lit [c]) skt))) in
      if enc then ([Cat skesk (Msg msg)], t1 ++ t2, n2)
      else let '(body, t3, n3) := seipd c skt msg n2 in ([Cat skesk body], t1 ++ t2 ++ t3, n3)
    else ([], [], n)
  | EncKey c k rcpt msg sk enc =>
    if sk_fits c sk then
      let '(skt, t1, n1) := session c sk n in
      let '(pk, t2, n2) := pkesk c k rcpt skt n1 in
      if enc then ([Cat (Msg msg) pk], t1 ++ t2, n2)
      else let '(body, t3, n3) := seipd c skt msg n2 in ([Cat body pk], t1 ++ t2 ++ t3, n3)
    else ([], [], n)
  | Protect c pass npkts => if can_protect c then protect_loop c pass npkts 0 n else protect_refused c npkts n
  end.

(* the rule before repair 29ef9ad: a supplied session key of any length went through, the salt was drawn *)
Definition exec_pass_old (c : Z) (pass msg : bytes) (sk : option bytes) (enc : bool) (n : nat) : list sterm * list drawrec * nat :=
  let '(skt, t1, n1) := session c sk n in
  let '(salt, t2, n2) := draw PSalt 8 n1 in
  let skesk := Cat (Lit [4; c; 3]) (Cat salt (Enc (Kdf (Pass pass) salt) (Cat (Lit [c]) skt))) in
  if enc then ([Cat skesk (Msg msg)], t1 ++ t2, n2)
  else let '(body, t3, n3) := seipd c skt msg n2 in ([Cat skesk body], t1 ++ t2 ++ t3, n3).

(* the session-key term an encryption works with *)
Definition sk_term (o : fop) (n : nat) : option sterm :=
  match o with
  | EncPass c _ _ sk _ => Some (fst (fst (session c sk n)))
  | EncKey c _ _ _ sk _ => Some (fst (fst (session c sk n)))
  | Protect _ _ _ => None
  end.

(* a sequence of operations in one process *)
Fixpoint run (ops : list fop) (n : nat) : list (list sterm * list drawrec) * nat :=
  match ops with
  | [] => ([], n)
  | o :: r =>
    let '(outs, t, n1) := exec o n in
    let '(rest, n2) := run r n1 in
    ((outs, t) :: rest, n2)
  end.

Definition traces (ops : list fop) (n : nat) : list drawrec := concat (map snd (fst (run ops n))).
Definition outputs (ops : list fop) (n : nat) : list sterm := concat (map fst (fst (run ops n))).

(* what of an operation the draws may depend on: everything except message, passphrase, recipient, supplied key octets
   (of a supplied key only whether there is one and whether its LENGTH is the cipher's key size) *)
Inductive shape := ShPass (c : Z) (supplied fits enc : bool) | ShKey (c : Z) (k : kind) (supplied fits enc : bool) | ShProtect (c : Z) (npkts : nat).
Definition is_some {A} (o : option A) : bool := match o with Some _ => true | None => false end.
Definition shape_of (o : fop) : shape :=
  match o with
  | EncPass c _ _ sk enc => ShPass c (is_some sk) (sk_fits c sk) enc
  | EncKey c k _ _ sk enc => ShKey c k (is_some sk) (sk_fits c sk) enc
  | Protect c _ n => ShProtect c n
  end.
Definition cipher_of (o : fop) : Z :=
  match o with EncPass c _ _ _ _ => c | EncKey c _ _ _ _ _ => c | Protect c _ _ => c end.

(* size the purpose demands for cipher c (None = no constraint at this interface: ephemeral key pairs are generated
   inside the cryptographic library) *)
Definition want_size (c : Z) (p : purpose) : option Z :=
  match p with
  | PSessionKey => Some (key_octets c)
  | PPrefix => Some (blk_octets c)
  | PIV => Some (blk_octets c)
  | PSalt => Some 8
  | PEphemeral => None
  end.
Definition size_ok (c : Z) (d : drawrec) : bool :=
  match want_size c (d_purpose d) with Some s => d_size d =? s | None => true end.

(* cells readable from a term without breaking an encryption / key agreement / derivation *)
Fixpoint exposed (t : sterm) : list nat :=
  match t with
  | Tok c => [c]
  | Cat a b => exposed a ++ exposed b
  | Last2 a => exposed a
  | Hash a => exposed a            (* conservative: a hash in the clear counts as exposing its argument *)
  | Sum16 a => exposed a
  | Given _ | Msg _ | Pass _ | Secret _ | Lit _ => []
  | Kdf _ _ => []
  | Enc _ _ => []
  | PkEnc _ _ => []
  | PubOf _ => []
  | Wrap _ _ _ => []
  end.
(* caller-supplied octets readable in the same sense *)
Fixpoint exposed_given (t : sterm) : list bytes :=
  match t with
  | Given b => [b]
  | Cat a b => exposed_given a ++ exposed_given b
  | Last2 a => exposed_given a
  | Hash a => exposed_given a
  | Sum16 a => exposed_given a
  | _ => []
  end.

Definition secret_purpose (p : purpose) : bool :=
  match p with PSessionKey | PPrefix | PEphemeral => true | PSalt | PIV => false end.
