(* C01 / C02 / C05: the octets PGPy hashes for a signature (pgpy/pgp.py PGPSignature.hashdata),
   the v4 signature packet body (pgpy/packet/packets.py SignatureV4, pgpy/packet/fields.py SubPackets)
   and the verdict of PGPKey.verify for one (signature, subject) pair. *)
From Coq Require Import ZArith List Bool.
Import ListNotations.
Require Import PV.Lib.Bytes PV.Model.Wire.
Open Scope Z_scope.

(* ---------- subjects, as the octets PGPy derives from the Python objects ---------- *)
Inductive subject :=
| SDoc (d : bytes)            (* str / bytes / literal message contents *)
| SKey (kb : bytes)           (* a (primary or sub) key: public-key packet body *)
| SUid (kb u : bytes)         (* user id u on the key with body kb *)
| SUattr (kb ua : bytes)      (* user attribute (its subpacket octets) on the key kb *)
| SSubkey (pb sb : bytes).    (* subkey sb of primary pb (either may be the Python-level subject) *)

(* re.subn(br'\r?\n', b'\r\n', subject) *)
Fixpoint canon (d : bytes) : bytes :=
  match d with
  | [] => []
  | x :: r =>
    if x =? 10 then 13 :: 10 :: canon r
    else if x =? 13 then
      match r with
      | y :: r' => if y =? 10 then 13 :: 10 :: canon r' else 13 :: canon r
      | [] => [13]
      end
    else x :: canon r
  end.

Definition key_block (kb : bytes) : bytes :=
  if (0 <? Z.of_nat (length kb)) then [153] ++ int_to_bytes (Z.of_nat (length kb)) 2 ++ kb else [].
Definition uid_block (marker : Z) (u : bytes) : bytes :=
  [marker] ++ int_to_bytes (Z.of_nat (length u)) 4 ++ u.

Definition is_cert_type (t : Z) : bool := existsb (Z.eqb t) [16; 17; 18; 19; 22; 48].
Definition is_binding_type (t : Z) : bool := existsb (Z.eqb t) [24; 25].
Definition is_key_type (t : Z) : bool := existsb (Z.eqb t) [31; 32].
Definition is_known_type (t : Z) : bool := existsb (Z.eqb t) [0; 1; 2; 16; 17; 18; 19; 22; 24; 25; 31; 32; 40; 48; 64; 80].

(* the part of the hash input that depends on the subject. None = the Python code raises
   (wrong kind of subject for the signature type). *)
Definition hash_body (t : Z) (s : subject) : option bytes :=
  if t =? 0 then match s with SDoc d => Some d | _ => None end
  else if t =? 1 then match s with SDoc d => Some (canon d) | _ => None end
  else if is_cert_type t then
    match s with
    | SUid kb u => Some (key_block kb ++ uid_block 180 u)
    | SUattr kb ua => Some (key_block kb ++ uid_block 209 ua)
    | _ => None end
  else if is_binding_type t then
    match s with SSubkey pb sb => Some (key_block pb ++ [153] ++ int_to_bytes (Z.of_nat (length sb)) 2 ++ sb) | _ => None end
  else if is_key_type t then
    match s with SKey kb => Some ([153] ++ int_to_bytes (Z.of_nat (length kb)) 2 ++ kb) | _ => None end
  else if t =? 40 then
    match s with SSubkey pb sb => Some (([153] ++ int_to_bytes (Z.of_nat (length pb)) 2 ++ pb) ++ [153] ++ int_to_bytes (Z.of_nat (length sb)) 2 ++ sb) | _ => None end
  else Some [].   (* standalone 0x02, timestamp 0x40, third-party confirmation 0x50: only the trailer *)

Record sigfields := { sf_ver : Z; sf_type : Z; sf_pkalg : Z; sf_halg : Z;
                      sf_hashed : bytes (* two-octet count ++ hashed subpacket area, as emitted / as received *) }.

Definition hcontext (f : sigfields) : bytes :=
  [sf_ver f; sf_type f; sf_pkalg f; sf_halg f] ++ sf_hashed f.
Definition trailer (f : sigfields) : bytes :=
  hcontext f ++ [4; 255] ++ int_to_bytes (Z.of_nat (length (hcontext f))) 4.

Definition hashdata (f : sigfields) (s : subject) : option bytes :=
  match hash_body (sf_type f) s with
  | Some b => Some (b ++ trailer f)
  | None => None
  end.

(* ---------- SubPackets.parse on the hashed / unhashed areas: structure only ---------- *)
(* one subpacket: header (length incl. type octet, type, critical) then length-1 body octets.
   Slices clamp: a body shorter than declared is accepted by the header walk (per-type parsers may
   still reject).  None = the header cannot be read. *)
Definition sp_step (p : bytes) : option (Z * Z * bool * bytes * bytes) :=   (* len, type, crit, body, rest *)
  match sub_header_parse p with
  | None => None
  | Some (l, t, c, r) =>
    let n := Z.to_nat (l - 1) in
    Some (l, t, c, firstn n r, skipn n r)
  end.

(* walk whole subpackets until at least `hl` octets have been consumed; returns the list of
   (type, critical, body) and the rest, and how many octets were consumed *)
Fixpoint sp_walk (fuel : nat) (p : bytes) (hl : nat) (consumed : nat) : option (list (Z * bool * bytes) * bytes * nat) :=
  if (hl <=? consumed)%nat then Some ([], p, consumed)
  else match fuel with
  | O => None
  | S fuel' =>
    match sp_step p with
    | None => None
    | Some (l, t, c, body, rest) =>
      let used := (length p - length rest)%nat in
      if (used =? 0)%nat then None else
      match sp_walk fuel' rest hl (consumed + used) with
      | None => None
      | Some (sps, r, tot) => Some ((t, c, body) :: sps, r, tot)
      end
    end
  end.

(* SubPackets.parse after the F13 repair: the hashed area is kept verbatim and must end exactly
   at its declared length; after repair 88a5e9e the unhashed area must end exactly at its declared length too *)
Record subpackets := { sp_hashed_raw : bytes; sp_hashed : list (Z * bool * bytes); sp_unhashed : list (Z * bool * bytes) }.

Definition subpackets_parse (p : bytes) : option (subpackets * bytes) :=
  let hl := Z.to_nat (unbe (firstn 2 p)) in
  let raw := firstn (hl + 2) p in
  let p1 := skipn 2 p in
  match sp_walk (S (length p1)) p1 hl 0 with
  | None => None
  | Some (hs, p2, tot) =>
    if negb (tot =? hl)%nat then None else
    let uhl := Z.to_nat (unbe (firstn 2 p2)) in
    let p3 := skipn 2 p2 in
    match sp_walk (S (length p3)) p3 uhl 0 with
    | None => None
    | Some (us, p4, tot2) =>
      (* repair 88a5e9e: the unhashed area too must end exactly at its declared length *)
      if negb (tot2 =? uhl)%nat then None else
      Some ({| sp_hashed_raw := raw; sp_hashed := hs; sp_unhashed := us |}, p4)
    end
  end.

(* ---------- SignatureV4.parse (body after the version octet) ---------- *)
Record sigpkt := { sg_type : Z; sg_pkalg : Z; sg_halg : Z; sg_sub : subpackets; sg_hash2 : bytes; sg_mpis : bytes }.

Definition sig_body_parse (p : bytes) : option sigpkt :=   (* p = body after the version octet 4 *)
  match p with
  | t :: pk :: h :: r =>
    match subpackets_parse r with
    | None => None
    | Some (sp, r2) => Some {| sg_type := t; sg_pkalg := pk; sg_halg := h; sg_sub := sp;
                               sg_hash2 := firstn 2 r2; sg_mpis := skipn 2 r2 |}
    end
  | _ => None
  end.

Definition fields_of (s : sigpkt) : sigfields :=
  {| sf_ver := 4; sf_type := sg_type s; sf_pkalg := sg_pkalg s; sf_halg := sg_halg s; sf_hashed := sp_hashed_raw (sg_sub s) |}.

(* ---------- one (signature, subject) pair of PGPKey.verify ---------- *)
Section Verify.
  (* pk_verify pub digest-input sigmpis halg : the primitive of *Pub.verify (InvalidSignature -> false) *)
  Variable pk_verify : bytes -> bytes -> bytes -> Z -> bool.

  (* issues = check_soundness | check_primitives as computed by the caller; fails = causes_fail issues.
     result: the issue value recorded for the entry; None = hashdata raised *)
  Definition verify_pair (pub : bytes) (issues : Z) (fails : bool) (s : sigpkt) (subj : subject) : option Z :=
    if negb (issues =? 0) && fails then Some issues
    else match hashdata (fields_of s) subj with
         | None => None
         | Some d => Some (if pk_verify pub d (sg_mpis s) (sg_halg s) then 0 else 1)
         end.
End Verify.

(* ---------- PGPKey.verify: which (signature, subject) pairs are examined at all ---------- *)
(* ids = key id of the verifying key followed by the key ids of its subkeys; a signature is examined only when its
   issuer is one of them (_filter_sigs, and the `elif signature.signer in ...` test for an explicit signature);
   with nothing to examine the call raises PGPError("No signatures to verify") *)
Definition examined (ids : list bytes) (issuer : bytes) : bool := existsb (eqb_bytes issuer) ids.
Definition filter_sigs {A} (ids : list bytes) (sigs : list (bytes * A)) : list (bytes * A) :=
  filter (fun s => examined ids (fst s)) sigs.
Section VerifyExplicit.
  Variable pk_verify : bytes -> bytes -> bytes -> Z -> bool.
  (* None = raises "No signatures to verify"; Some r = the recorded issue value (or None inside when hashdata raised) *)
  Definition verify_explicit (pub : bytes) (ids : list bytes) (issues : Z) (fails : bool) (issuer : bytes) (s : sigpkt) (subj : subject)
    : option (option Z) :=
    if examined ids issuer then Some (verify_pair pk_verify pub issues fails s subj) else None.
End VerifyExplicit.
