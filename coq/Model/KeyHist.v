(* C15: key-management histories over the structural model of KeyStruct.v.

   pgpy/pgp.py  PGPKey.new / add_uid / del_uid / add_subkey / bind / certify / revoke / revoker / protect / unlock /
                pubkey / __copy__ / parse+__bytearray__, the KeyAction decorator (pgpy/decorators.py), PGPKey.get_uid (exact match of a field, first match), PGPUID.__or__ with
                SorteDeque.resort, PGPUID.selfsig / is_primary, PGPKey.expires_at / revocation_signatures.
   PGPUID.selfsig is KeyStruct.selfsig: after repair 812bc0f the newest self-CERTIFICATION (0x10-0x13 issued by the key); a
   certification revocation or an attestation by the key no longer hides it (selfsig_old / effective_old / key_expiry_old = the rule before).
   PGPKey.unlock after repair e967622 touches only protected components; in the scope below every component of a protected key
   is protected (subkeys are added to unprotected keys only, protect() covers all), so the lock-state bookkeeping is unchanged.

   Signatures are symbolic: `sign` records who signed and the digest term (subject + hashed fields) that
   PGPSignature.hashdata would feed to the hash; `verifies` recomputes that term for the component the signature
   sits on and compares.  That is the sense in which C15 is partial: no statement about the signature primitive.

   Scope decisions (named in evidence):
   * user ids are addressed by (kind, content) with first-match semantics, as PGPKey.get_uid does for names;
   * add_subkey is only applied to keys without passphrase protection (a subkey added to a protected key would
     carry unprotected material next to protected material; PGPKey.unlock then fails - outside this model);
   * an operation whose preconditions fail raises in PGPy; the model keeps the state PGPy leaves behind (unchanged,
     except add_subkey, which has already stored the subkey when bind raises);
   * one passphrase per run; OUnlock / OLock are entering / leaving `with key.unlock(...)`. *)
From Coq Require Import ZArith List Bool.
Import ListNotations.
Require Import PV.Model.KeyStruct.
Open Scope Z_scope.

(* ---------- symbolic signing and verification ---------- *)
Fixpoint eqb_lz (a b : list Z) : bool :=
  match a, b with
  | [], [] => true
  | x :: a', y :: b' => (x =? y) && eqb_lz a' b'
  | _, _ => false
  end.
Definition eqb_ob (a b : option bool) : bool :=
  match a, b with
  | None, None => true
  | Some x, Some y => Bool.eqb x y
  | _, _ => false
  end.
Definition subject_eqb (a b : subject) : bool :=
  match a, b with
  | OnKey k, OnKey k' => k =? k'
  | OnUid k i c, OnUid k' i' c' => (k =? k') && Bool.eqb i i' && eqb_lz c c'
  | OnSub k s, OnSub k' s' => (k =? k') && (s =? s')
  | _, _ => false
  end.
Definition digest_eqb (a b : digest) : bool :=
  subject_eqb (d_subj a) (d_subj b) && (d_type a =? d_type b) && (d_created a =? d_created b)
  && eqb_ob (d_exp a) (d_exp b) && Bool.eqb (d_primary a) (d_primary b) && eqb_lz (d_info a) (d_info b)
  && (d_issuer a =? d_issuer b).

(* PGPSignature.hashdata(subject): the subject and the hashed fields *)
Definition hashdata (c : score) (subj : subject) : digest :=
  {| d_subj := subj; d_type := c_type c; d_created := c_created c; d_exp := c_exp c; d_primary := c_primary c;
     d_info := c_info c; d_issuer := c_issuer c |}.

(* key.verify(subject, sig) with the public half `pk` *)
Definition verifies (pk : Z) (c : score) (subj : subject) : bool :=
  (c_signer c =? pk) && digest_eqb (c_digest c) (hashdata c subj).

(* PGPKey._sign with the secret half `sk` *)
Definition sign (sk typ t : Z) (exp : option bool) (primary : bool) (info : list Z) (subj : subject) : score :=
  {| c_issuer := sk; c_type := typ; c_created := t; c_exp := exp; c_primary := primary; c_info := info; c_signer := sk;
     c_digest := {| d_subj := subj; d_type := typ; d_created := t; d_exp := exp; d_primary := primary; d_info := info;
                    d_issuer := sk |} |}.

(* attribute list: [key flags; key expiration or -1; hash prefs..., -1, cipher prefs..., -1, compression prefs..., -1, extras] *)
Definition no_info : list Z := [0; -1; -1; -1; -1].
Definition flags_info (flags : Z) : list Z := [flags; -1; -1; -1; -1].

(* ---------- world ---------- *)
(* o_lock: 0 = no passphrase, 1 = protected, inside `with unlock`, 2 = protected and locked *)
Record kobj := { o_key : key; o_lock : Z }.
Definition world := list kobj.

Inductive op :=
| OCreate (label : Z)
| OAddUid (k : nat) (isuid : bool) (c : list Z) (info : list Z) (primary : bool) (t : Z)
| ORecertify (k : nat) (isuid : bool) (c : list Z) (info : list Z) (primary : bool) (t : Z)
| OCertify (by_ k : nat) (isuid : bool) (c : list Z) (exp : option bool) (t : Z)
| OCertifyKey (by_ k : nat) (exp : option bool) (t : Z)      (* key |= other.certify(key, exportable=...): a direct-key signature *)
| ORevokeUid (k : nat) (isuid : bool) (c : list Z) (t : Z)
| OAttest (k : nat) (isuid : bool) (c : list Z) (t : Z)       (* uid |= key.certify(uid, SignatureType.Attestation, attested_certifications=[]) *)
| OAddSubkey (k : nat) (label : Z) (cansign : bool) (flags : Z) (t : Z)
| OAdoptKey (k other : nat) (t : Z)        (* key.add_subkey(<key object `other`, which has identities of its own>) *)
| ORevokeSubkey (k : nat) (label : Z) (t : Z)
| ORevokeKey (k : nat) (t : Z)
| OAddRevoker (k by_ : nat) (t : Z)
| ODelUid (k : nat) (c : list Z)
| OProtect (k : nat)
| OUnlock (k : nat)
| OLock (k : nat)
| OCopy (k : nat)
| OReimport (k : nat)
| OPublish (k : nat).

Fixpoint replace_nth {A : Type} (j : nat) (x : A) (l : list A) : list A :=
  match l, j with
  | [], _ => []
  | _ :: r, O => x :: r
  | y :: r, S j' => y :: replace_nth j' x r
  end.

Definition upd (w : world) (i : nat) (f : kobj -> kobj) : world :=
  match nth_error w i with
  | Some o => replace_nth i (f o) w
  | None => w
  end.

Definition set_key (o : kobj) (k : key) : kobj := {| o_key := k; o_lock := o_lock o |}.
Definition with_uids (k : key) (us : list uid) : key :=
  {| p_label := p_label k; p_public := p_public k; p_sigs := p_sigs k; p_uids := us; p_subs := p_subs k |}.
Definition with_sigs (k : key) (l : list item) : key :=
  {| p_label := p_label k; p_public := p_public k; p_sigs := l; p_uids := p_uids k; p_subs := p_subs k |}.
Definition with_subs (k : key) (l : list subkey) : key :=
  {| p_label := p_label k; p_public := p_public k; p_sigs := p_sigs k; p_uids := p_uids k; p_subs := l |}.

(* ---------- preconditions (KeyAction + the lookups inside _sign / _get_key_flags) ---------- *)
Definition has_text (k : key) : bool := existsb u_isuid (p_uids k).
Definition no_uids (k : key) : bool := match p_uids k with [] => true | _ => false end.
(* is_public == False and is_unlocked == True *)
Definition can_sign (o : kobj) : bool := negb (p_public (o_key o)) && negb (o_lock o =? 2).
(* certify: exempt from "Key is not complete"; _get_key_flags takes the first user id, or the first user attribute when there is none
   (repair 1d6dbd1), and a primary key always has Certify.  Before that repair a key whose identities were all attributes raised
   (StopIteration): certify_ok_old *)
Definition certify_ok (o : kobj) : bool := can_sign o.
Definition certify_ok_old (o : kobj) : bool := can_sign o && (no_uids (o_key o) || has_text (o_key o)).
(* revoke: complete key (an identity of either kind); Certify usage as for certify *)
Definition revoke_ok (o : kobj) : bool := can_sign o && negb (no_uids (o_key o)).
Definition revoke_ok_old (o : kobj) : bool := can_sign o && has_text (o_key o).
(* bind / revoker: complete key (hash algorithm always passed explicitly) *)
Definition direct_ok (o : kobj) : bool := can_sign o && negb (no_uids (o_key o)).

(* ---------- user id lookup and attachment ---------- *)
Fixpoint find_uid (isuid : bool) (c : list Z) (l : list uid) : option nat :=
  match l with
  | [] => None
  | u :: r => if Bool.eqb (u_isuid u) isuid && eqb_lz (u_content u) c then Some O
              else match find_uid isuid c r with Some j => Some (S j) | None => None end
  end.

(* uid |= sig for the user id at index j of the key: insort, then parent._uids.resort(uid) *)
Definition attach_uid_sig (k : key) (j : nat) (s : sig) : key :=
  match nth_error (p_uids k) j with
  | None => k
  | Some u => with_uids k (resort (uid_lt (p_label k)) j (replace_nth j (uid_or_sig u s) (p_uids k)))
  end.
(* the same before repair d951222 *)
Definition attach_uid_sig_prefix (k : key) (j : nat) (s : sig) : key :=
  match nth_error (p_uids k) j with
  | None => k
  | Some u => with_uids k (resort_prefix (uid_lt (p_label k)) j (replace_nth j (uid_or_sig u s) (p_uids k)))
  end.

Definition plain (c : score) : sig := {| s_core := c; s_emb := [] |}.

Fixpoint find_sub (label : Z) (l : list subkey) : option nat :=
  match l with
  | [] => None
  | sk :: r => if sk_label sk =? label then Some O
               else match find_sub label r with Some j => Some (S j) | None => None end
  end.

Definition first_key (r : result (list key)) : option key :=
  match r with Ok (k :: _) => Some k | _ => None end.

(* ---------- one operation ---------- *)
Definition apply (w : world) (o : op) : world :=
  match o with
  | OCreate label =>
    w ++ [{| o_key := {| p_label := label; p_public := false; p_sigs := []; p_uids := []; p_subs := [] |}; o_lock := 0 |}]
  | OAddUid i isuid c info primary t =>
    upd w i (fun ob =>
      if certify_ok ob then
        let k := o_key ob in
        let s := plain (sign (p_label k) T_POSITIVE t None primary info (OnUid (p_label k) isuid c)) in
        set_key ob (key_or_uid k (uid_or_sig {| u_isuid := isuid; u_content := c; u_sigs := [] |} s))
      else ob)
  | ORecertify i isuid c info primary t =>
    upd w i (fun ob =>
      let k := o_key ob in
      match find_uid isuid c (p_uids k) with
      | Some j =>
        if certify_ok ob then
          set_key ob (attach_uid_sig k j (plain (sign (p_label k) T_POSITIVE t None primary info (OnUid (p_label k) isuid c))))
        else ob
      | None => ob
      end)
  | OCertify b i isuid c exp t =>
    match nth_error w b with
    | Some cert =>
      upd w i (fun ob =>
        let k := o_key ob in
        match find_uid isuid c (p_uids k) with
        | Some j =>
          if certify_ok cert then
            set_key ob (attach_uid_sig k j (plain (sign (p_label (o_key cert)) T_GENERIC t exp false no_info (OnUid (p_label k) isuid c))))
          else ob
        | None => ob
        end)
    | None => w
    end
  | OCertifyKey b i exp t =>
    match nth_error w b with
    | Some cert =>
      upd w i (fun ob =>
        let k := o_key ob in
        if certify_ok cert then
          set_key ob (with_sigs k (key_or_sig (p_sigs k)
            (plain (sign (p_label (o_key cert)) T_DIRECT t exp false no_info (OnKey (p_label k))))))
        else ob)
    | None => w
    end
  | ORevokeUid i isuid c t =>
    upd w i (fun ob =>
      let k := o_key ob in
      match find_uid isuid c (p_uids k) with
      | Some j =>
        if revoke_ok ob then
          set_key ob (attach_uid_sig k j (plain (sign (p_label k) T_CERT_REV t None false no_info (OnUid (p_label k) isuid c))))
        else ob
      | None => ob
      end)
  | OAttest i isuid c t =>
    (* an Attestation Key Signature (0x16) by the key on its own identity: certify's KeyAction (Certify usage), no key flags,
       preferences or Features (those are added for 0x10-0x13 and 0x30 only); the attested list is not an attribute the model tracks *)
    upd w i (fun ob =>
      let k := o_key ob in
      match find_uid isuid c (p_uids k) with
      | Some j =>
        if certify_ok ob then
          set_key ob (attach_uid_sig k j (plain (sign (p_label k) T_ATTESTATION t None false no_info (OnUid (p_label k) isuid c))))
        else ob
      | None => ob
      end)
  | OAddSubkey i label cansign flags t =>
    upd w i (fun ob =>
      let k := o_key ob in
      if p_public k || negb (o_lock ob =? 0) then ob
      else
        (* (before 1d6dbd1 the cross-signature of a signing subkey needed a TEXT user id on the parent: `&& (negb cansign || has_text k)`) *)
        let ok := direct_ok ob in
        let emb := if cansign then [sign label T_PRIMARY_BINDING t None false no_info (OnSub (p_label k) label)] else [] in
        let b := {| s_core := sign (p_label k) T_SUBKEY_BINDING t None false (flags_info flags) (OnSub (p_label k) label);
                    s_emb := emb |} in
        let sk := {| sk_label := label; sk_public := false; sk_cansign := cansign;
                     sk_sigs := key_or_sig [] b |} in
        (* repair 163b208: when the binding signature is refused the attachment is undone (before: the subkey stayed, unbound) *)
        if ok then set_key ob (with_subs k (sub_set sk (p_subs k))) else ob)
  | OAdoptKey i j t =>
    (* repair a832629: add_subkey refuses (PGPError) a key that has user ids or attributes of its own, before anything is changed -
       and every other refusal of add_subkey (public key, key with subkeys) comes before any change as well.  Scope: `other` is an
       existing key object WITH identities (a key without any is what OAddSubkey models, with fresh material): nothing changes *)
    w
  | ORevokeSubkey i label t =>
    upd w i (fun ob =>
      let k := o_key ob in
      match find_sub label (p_subs k) with
      | Some j =>
        if revoke_ok ob then
          match nth_error (p_subs k) j with
          | Some sk =>
            let s := plain (sign (p_label k) T_SUBKEY_REV t None false no_info (OnSub (p_label k) label)) in
            set_key ob (with_subs k (replace_nth j {| sk_label := sk_label sk; sk_public := sk_public sk; sk_cansign := sk_cansign sk;
                                                      sk_sigs := key_or_sig (sk_sigs sk) s |} (p_subs k)))
          | None => ob
          end
        else ob
      | None => ob
      end)
  | ORevokeKey i t =>
    upd w i (fun ob =>
      let k := o_key ob in
      if revoke_ok ob then
        set_key ob (with_sigs k (key_or_sig (p_sigs k) (plain (sign (p_label k) T_KEY_REV t None false no_info (OnKey (p_label k))))))
      else ob)
  | OAddRevoker i b t =>
    match nth_error w b with
    | Some rv =>
      upd w i (fun ob =>
        let k := o_key ob in
        if direct_ok ob then
          set_key ob (with_sigs k (key_or_sig (p_sigs k)
            (plain (sign (p_label k) T_DIRECT t None false (no_info ++ [p_label (o_key rv)]) (OnKey (p_label k))))))
        else ob)
    | None => w
    end
  | ODelUid i c =>
    upd w i (fun ob =>
      let k := o_key ob in
      match find_uid true c (p_uids k) with
      | Some j => set_key ob (with_uids k (remove_nth j (p_uids k)))
      | None => ob
      end)
  | OProtect i =>
    upd w i (fun ob => if p_public (o_key ob) then ob else {| o_key := o_key ob; o_lock := 2 |})
  | OUnlock i =>
    upd w i (fun ob => if o_lock ob =? 2 then {| o_key := o_key ob; o_lock := 1 |} else ob)
  | OLock i =>
    upd w i (fun ob => if o_lock ob =? 1 then {| o_key := o_key ob; o_lock := 2 |} else ob)
  | OCopy i =>
    upd w i (fun ob => set_key ob (copy (o_key ob)))
  | OReimport i =>
    upd w i (fun ob =>
      match first_key (import (export (o_key ob))) with
      | Some k' => {| o_key := k'; o_lock := if o_lock ob =? 0 then 0 else 2 |}
      | None => ob
      end)
  | OPublish i =>
    match nth_error w i with
    | Some ob =>
      match first_key (import (export (pubkey_of (o_key ob)))) with
      | Some k' => w ++ [{| o_key := k'; o_lock := 0 |}]
      | None => w
      end
    | None => w
    end
  end.

Definition run (ops : list op) : world := fold_left apply ops [].

(* the history before repair d951222 (only the user-id attachment differs; written out for the two self-made attachments the
   refutations use: since repair 812bc0f a revocation no longer changes the sort key of an identity, a re-certification does) *)
Definition apply_prefix (w : world) (o : op) : world :=
  match o with
  | ORecertify i isuid c info primary t =>
    upd w i (fun ob =>
      let k := o_key ob in
      match find_uid isuid c (p_uids k) with
      | Some j =>
        if certify_ok ob then
          set_key ob (attach_uid_sig_prefix k j (plain (sign (p_label k) T_POSITIVE t None primary info (OnUid (p_label k) isuid c))))
        else ob
      | None => ob
      end)
  | ORevokeUid i isuid c t =>
    upd w i (fun ob =>
      let k := o_key ob in
      match find_uid isuid c (p_uids k) with
      | Some j =>
        if revoke_ok ob then
          set_key ob (attach_uid_sig_prefix k j (plain (sign (p_label k) T_CERT_REV t None false no_info (OnUid (p_label k) isuid c))))
        else ob
      | None => ob
      end)
  | _ => apply w o
  end.

(* ---------- observables ---------- *)
(* flags / preferences / primary mark / expiry of an identity: those of PGPUID.selfsig.  `pick` is the selfsig rule:
   KeyStruct.selfsig now (repair 812bc0f: newest self-CERTIFICATION), KeyStruct.selfsig_old before it (newest signature of any
   type issued by the key) *)
Definition effective_with (pick : Z -> uid -> option sig) (k : key) (u : uid) : option (Z * list Z * bool) :=
  match pick (p_label k) u with
  | Some s => Some (c_type (s_core s), c_info (s_core s), c_primary (s_core s))
  | None => None
  end.
Definition effective := effective_with selfsig.
Definition effective_old := effective_with selfsig_old.
Definition info_keyexp (info : list Z) : Z := nth 1 info (-1).
(* PGPKey.expires_at (as an offset from key creation; -1 = None): the last text user id whose selfsig has one *)
Definition key_expiry_raw (pick : Z -> uid -> option sig) (k : key) : Z :=
  fold_left (fun acc u => if u_isuid u then
                            match pick (p_label k) u with
                            | Some s => if info_keyexp (c_info (s_core s)) =? -1 then acc else info_keyexp (c_info (s_core s))
                            | None => acc
                            end
                          else acc) (p_uids k) (-1).
(* repair 96d5157: `if expires:` - a key expiration time of zero means never, like the absence of one (before: `is not None`,
   the key "expired" at its creation time) *)
Definition key_expiry_with (pick : Z -> uid -> option sig) (k : key) : Z :=
  let e := key_expiry_raw pick k in if e =? 0 then -1 else e.
Definition key_expiry_pre96 := key_expiry_raw selfsig.
Definition key_expiry := key_expiry_with selfsig.
Definition key_expiry_old := key_expiry_with selfsig_old.
(* PGPKey.revocation_signatures of the primary / of a subkey *)
Definition key_revocations (k : key) : list item :=
  filter (fun it => (c_type (icore it) =? T_KEY_REV) && (c_issuer (icore it) =? p_label k)) (p_sigs k).
Definition sub_revocations (k : key) (sk : subkey) : list item :=
  filter (fun it => (c_type (icore it) =? T_SUBKEY_REV) && (c_issuer (icore it) =? p_label k)) (sk_sigs sk).
Definition uid_revocations (k : key) (u : uid) : list sig :=
  filter (fun s => (c_type (s_core s) =? T_CERT_REV) && (c_issuer (s_core s) =? p_label k)) (u_sigs u).

(* ---------- the invariant, as a decidable check (used by the harness; the Prop form is in Proofs) ---------- *)
Definition uid_sig_ok (k : key) (u : uid) (s : sig) : bool :=
  verifies (c_issuer (s_core s)) (s_core s) (OnUid (p_label k) (u_isuid u) (u_content u)).
Definition key_item_ok (k : key) (it : item) : bool :=
  match it with
  | Top s => verifies (c_issuer (s_core s)) (s_core s) (OnKey (p_label k)) && negb (c_type (s_core s) =? T_SUBKEY_BINDING)
  | Emb _ => false
  end.
Definition emb_ok (k : key) (sk : subkey) (e : score) : bool :=
  (c_type e =? T_PRIMARY_BINDING) && verifies (sk_label sk) e (OnSub (p_label k) (sk_label sk)).
Definition sub_item_ok (k : key) (sk : subkey) (it : item) : bool :=
  match it with
  | Top s =>
    verifies (c_issuer (s_core s)) (s_core s) (OnSub (p_label k) (sk_label sk))
    && (if c_type (s_core s) =? T_SUBKEY_BINDING
        then forallb (emb_ok k sk) (s_emb s) && (negb (sk_cansign sk) || negb (match s_emb s with [] => true | _ => false end))
        else true)
  | Emb e => emb_ok k sk e
  end.
Definition inv_key (k : key) : bool :=
  forallb (fun u => forallb (uid_sig_ok k u) (u_sigs u)) (p_uids k)
  && forallb (key_item_ok k) (p_sigs k)
  && forallb (fun sk => forallb (sub_item_ok k sk) (sk_sigs sk)) (p_subs k).
Definition sorted_key (k : key) : bool := all_sortedb k.
Definition good_key (k : key) : bool := inv_key k && all_sortedb k && wfkb k.
Definition inv_world (w : world) : bool := forallb (fun ob => good_key (o_key ob)) w.
