(* C18 / C07: version-4 key packet bodies of PGPy, modelled class by class.
   pgpy/packet/fields.py  PubKey.__len__/__bytearray__/publen, RSAPub DSAPub ElGPub ECPoint ECDSAPub EdDSAPub
                          ECDHPub ECKDF OpaquePubKey, PrivKey.__bytearray__/publen, ECDHPriv.__bytearray__/publen
   pgpy/packet/packets.py PubKeyV4.__bytearray__/parse, PrivKeyV4.pubkey/protect/unprotect
   pgpy/constants.py      EllipticCurveOID (dotted OIDs), PubKeyAlgorithm (dispatch table of pkalg_int)
   No proofs in this file. *)
From Coq Require Import ZArith List Bool.
Import ListNotations.
Require Import PV.Lib.Bytes PV.Model.Wire.
Open Scope Z_scope.

(* ---------- curve OIDs: EllipticCurveOID members and `encoder.encode(oid.value)[1:]` ---------- *)
Inductive curve := C25519 | CEd25519 | CP256 | CP384 | CP521 | CBP256 | CBP384 | CBP512 | CK1.
Definition all_curves : list curve := [C25519; CEd25519; CP256; CP384; CP521; CBP256; CBP384; CBP512; CK1].

Definition curve_arcs (c : curve) : list Z :=
  match c with
  | C25519 => [1; 3; 6; 1; 4; 1; 3029; 1; 5; 1]
  | CEd25519 => [1; 3; 6; 1; 4; 1; 11591; 15; 1]
  | CP256 => [1; 2; 840; 10045; 3; 1; 7]
  | CP384 => [1; 3; 132; 0; 34]
  | CP521 => [1; 3; 132; 0; 35]
  | CBP256 => [1; 3; 36; 3; 3; 2; 8; 1; 1; 7]
  | CBP384 => [1; 3; 36; 3; 3; 2; 8; 1; 1; 11]
  | CBP512 => [1; 3; 36; 3; 3; 2; 8; 1; 1; 13]
  | CK1 => [1; 3; 132; 0; 10]
  end.

Definition curve_eqb (a b : curve) : bool :=
  match a, b with
  | C25519, C25519 | CEd25519, CEd25519 | CP256, CP256 | CP384, CP384 | CP521, CP521
  | CBP256, CBP256 | CBP384, CBP384 | CBP512, CBP512 | CK1, CK1 => true
  | _, _ => false
  end.

(* DER contents of an OBJECT IDENTIFIER: first two arcs as 40*a+b, every value base 128, high bit = "more" *)
Fixpoint b128_hi (fuel : nat) (v : Z) : bytes :=
  match fuel with
  | O => []
  | S f => if v <=? 0 then [] else b128_hi f (v / 128) ++ [128 + v mod 128]
  end.
Definition b128 (v : Z) : bytes := b128_hi 10 (v / 128) ++ [v mod 128].
Definition der_oid_content (arcs : list Z) : bytes :=
  match arcs with
  | a :: b :: r => b128 (40 * a + b) ++ flat_map b128 r
  | _ => []
  end.
(* encoder.encode(oid)[1:] = DER length octet (short form) + contents *)
Definition oid_field (c : curve) : bytes :=
  let ct := der_oid_content (curve_arcs c) in Z.of_nat (length ct) :: ct.

Definition oid_lookup (ct : bytes) : option curve :=
  find (fun c => eqb_bytes (der_oid_content (curve_arcs c)) ct) all_curves.

(* parse side: oidlen = packet[0]; decoder.decode(06 len octets); EllipticCurveOID(oid).  None = exception *)
Definition oid_parse (b : bytes) : option (curve * bytes) :=
  match b with
  | [] => None
  | l :: r =>
    if (length r <? Z.to_nat l)%nat then None
    else match oid_lookup (firstn (Z.to_nat l) r) with
         | Some c => Some (c, skipn (Z.to_nat l) r)
         | None => None
         end
  end.

(* ---------- ECPoint ---------- *)
Inductive ecpoint :=
| EPStd (bytelen x y : Z)      (* format 0x04, coordinates as integers, bytelen = octets per coordinate *)
| EPNative (x : bytes).        (* format 0x40, raw octets *)

(* ECPoint.__len__ : the NOMINAL length, computed from bytelen, not from the octets *)
Definition ecpoint_len (p : ecpoint) : Z :=
  match p with
  | EPStd bl _ _ => 2 * bl + 3
  | EPNative x => Z.of_nat (length x) + 3
  end.
(* the buffer b of ECPoint.to_mpibytes before it is turned into an integer *)
Definition ecpoint_raw (p : ecpoint) : bytes :=
  match p with
  | EPStd bl x y => 4 :: int_to_bytes x bl ++ int_to_bytes y bl
  | EPNative x => 64 :: x
  end.
(* MPI(MPIs.bytes_to_int(b)).to_mpibytes() *)
Definition ecpoint_bytes (p : ecpoint) : bytes := to_mpibytes (bytes_to_int (ecpoint_raw p)).

Definition is_std (p : ecpoint) : bool := match p with EPStd _ _ _ => true | EPNative _ => false end.

(* ECPoint.__init__(packet): None = IndexError / ValueError / PGPError / NotImplementedError *)
Definition ecpoint_parse (b : bytes) : option (ecpoint * bytes) :=
  let '(v, rest) := mpi_parse b in
  match skipn 2 (to_mpibytes v) with
  | [] => None
  | f :: xy =>
    if f =? 4 then
      let n := length xy in
      if Nat.even n then
        let bl := Nat.div2 n in
        Some (EPStd (Z.of_nat bl) (bytes_to_int (firstn bl xy)) (bytes_to_int (skipn bl xy)), rest)
      else None
    else if f =? 64 then Some (EPNative xy, rest)
    else None
  end.

(* ---------- public key material ---------- *)
Inductive pubmat :=
| PRSA (n e : Z)
| PDSA (p q g y : Z)
| PElG (p g y : Z)
| PECDSA (c : curve) (pt : ecpoint)
| PEdDSA (c : curve) (pt : ecpoint)
| PECDH (c : curve) (pt : ecpoint) (kdf_halg kdf_encalg : Z)
| POpaque (data : bytes).       (* OpaquePubKey: algorithm ids 0 and 21, which pkalg_int has no class for *)

(* MPI.__len__ *)
Definition mpi_len (v : Z) : Z := mpi_byte_length v + 2.
(* ECKDF.__bytearray__ : len(self) - 1, 0x01, halg, encalg *)
Definition kdf_bytes (kh ke : Z) : bytes := [4 - 1; 1; kh; ke].
Definition kdf_len : Z := 4.
(* len(encoder.encode(self.oid.value)) - 1 *)
Definition oid_len (c : curve) : Z := Z.of_nat (length (oid_field c)).

(* <Class>Pub.__bytearray__ *)
Definition pubmat_bytes (m : pubmat) : bytes :=
  match m with
  | PRSA n e => to_mpibytes n ++ to_mpibytes e
  | PDSA p q g y => to_mpibytes p ++ to_mpibytes q ++ to_mpibytes g ++ to_mpibytes y
  | PElG p g y => to_mpibytes p ++ to_mpibytes g ++ to_mpibytes y
  | PECDSA c pt => oid_field c ++ ecpoint_bytes pt
  | PEdDSA c pt => oid_field c ++ ecpoint_bytes pt
  | PECDH c pt kh ke => oid_field c ++ ecpoint_bytes pt ++ kdf_bytes kh ke
  | POpaque d => d
  end.

(* <Class>Pub.__len__, which is what publen() returns for public AND private material
   (PrivKey.publen = super(PrivKey).__len__(), ECDHPriv.publen = ECDHPub.__len__).
   OpaquePubKey.__len__ = len(self.data) (repair e03112d; before it inherited PubKey.__len__ over an
   empty __pubfields__: 0 — kept below as pubmat_len_prefix).  For an OpaquePrivKey `data` is the WHOLE stored
   material, secret part included, because the boundary is unknown for an unknown algorithm. *)
Definition pubmat_len (m : pubmat) : Z :=
  match m with
  | PRSA n e => mpi_len n + mpi_len e
  | PDSA p q g y => mpi_len p + mpi_len q + mpi_len g + mpi_len y
  | PElG p g y => mpi_len p + mpi_len g + mpi_len y
  | PECDSA c pt => ecpoint_len pt + oid_len c
  | PEdDSA c pt => ecpoint_len pt + oid_len c
  | PECDH c pt _ _ => ecpoint_len pt + kdf_len + oid_len c
  | POpaque d => Z.of_nat (length d)
  end.
(* the code before the repair (kept for the refutation theorem) *)
Definition pubmat_len_prefix (m : pubmat) : Z :=
  match m with POpaque _ => 0 | _ => pubmat_len m end.

(* ---------- secret part (PrivKey.__bytearray__ after the public fields) ---------- *)
(* s_s2k = the String2Key octets after the usage octet as String2Key.__bytearray__ writes them
   (cipher, specifier, hash, salt, count, iv); s_enc = encbytes; s_priv = the private integers
   in __privfields__ order (MPI(0) each while the key is locked); s_chk = chksum *)
Record secpart := { s_usage : Z; s_s2k : bytes; s_enc : bytes; s_priv : list Z; s_chk : bytes }.

(* The layout below is PrivKey.__bytearray__ (emission).  Repairs 7c47922 (DSAPriv/ElGPriv.parse: with usage 255 the two
   checksum octets stay inside encbytes) and 05bf06b (String2Key.__bytearray__ writes the serial-length octet of a GNU
   smartcard stub even when the serial is empty) changed which FIELD VALUES a parsed packet holds and which octets
   String2Key emits; both arrive here as the inputs s_enc / s_chk / s_s2k, the composition of the tail is unchanged. *)
(* String2Key.__bool__ after repair 8563c06: `self.usage != 0`.  A usage octet other than 0 / 254 / 255 is a cipher id
   (RFC 4880 5.5.3, "legacy"): the material is protected, String2Key.__bytearray__ writes the usage octet and the IV
   only (s_s2k = the IV then), the ciphertext follows, no clear checksum *)
Definition s2k_on (sp : secpart) : bool := negb (s_usage sp =? 0).
Definition s2k_bytes (sp : secpart) : bytes := s_usage sp :: (if s2k_on sp then s_s2k sp else []).
Definition sec_tail (sp : secpart) : bytes :=
  s2k_bytes sp
  ++ (if s2k_on sp then s_enc sp else flat_map to_mpibytes (s_priv sp))
  ++ (if s_usage sp =? 0 then s_chk sp else []).
(* the code before that repair (kept for the refutation theorem): only 254 / 255 counted as protected, so a secret part
   under a cipher-id usage octet was written as usage octet + the (cleared) integers, IV and ciphertext dropped *)
Definition s2k_on_old (sp : secpart) : bool := (s_usage sp =? 254) || (s_usage sp =? 255).
Definition sec_tail_old (sp : secpart) : bytes :=
  (s_usage sp :: (if s2k_on_old sp then s_s2k sp else []))
  ++ (if s2k_on_old sp then s_enc sp else flat_map to_mpibytes (s_priv sp))
  ++ (if s_usage sp =? 0 then s_chk sp else []).

(* ---------- the key packet ---------- *)
(* k_created is the integer calendar.timegm(self.created.utctimetuple()) — the instant for an aware datetime
   (repair ceba52c; before: timetuple(), the wall-clock fields read as UTC), the fields as they stand for a
   naive one (datetime/calendar arithmetic is not modelled further) *)
Record keypkt := { k_sub : bool; k_created : Z; k_alg : Z; k_mat : pubmat; k_sec : option secpart }.

Definition is_private (k : keypkt) : bool := match k_sec k with Some _ => true | None => false end.

Definition is_opaque (m : pubmat) : bool := match m with POpaque _ => true | _ => false end.
(* self.keymaterial.__bytearray__().  PrivKey.__bytearray__ appends the secret part to the public fields; since repair
   c516614 OpaquePrivKey.__bytearray__ is OpaquePubKey.__bytearray__: the opaque octets ARE the whole material as
   received (public part, usage octet, secret part undivided), nothing of the unused String2Key / checksum follows *)
Definition keymaterial_bytes (k : keypkt) : bytes :=
  pubmat_bytes (k_mat k)
  ++ (if is_opaque (k_mat k) then [] else match k_sec k with Some sp => sec_tail sp | None => [] end).
(* the composition before that repair (kept for the refutation theorem): the secret tail - at least the usage octet 0
   of the fresh String2Key - after the opaque octets too *)
Definition keymaterial_bytes_old (k : keypkt) : bytes :=
  pubmat_bytes (k_mat k) ++ match k_sec k with Some sp => sec_tail sp | None => [] end.
(* self.keymaterial.publen() *)
Definition publen (k : keypkt) : Z := pubmat_len (k_mat k).

(* PubKeyV4.__bytearray__ without the packet header: version, time, algorithm, material.  Since repair 298df7b the
   method builds this body first and sets header.length = 1 + len(_body) before the header is written: the header always
   counts the octets written (what Model/PubExport.v pkt_emit does: header for the length of the body) *)
Definition key_body (k : keypkt) : bytes :=
  [4] ++ int_to_bytes (k_created k) 4 ++ int_to_bytes (k_alg k) 1 ++ keymaterial_bytes k.
Definition key_body_old (k : keypkt) : bytes :=
  [4] ++ int_to_bytes (k_created k) 4 ++ int_to_bytes (k_alg k) 1 ++ keymaterial_bytes_old k.

(* __typeid__ of PubKeyV4 / PubSubKeyV4 / PrivKeyV4 / PrivSubKeyV4 *)
Definition key_tag (k : keypkt) : Z :=
  match k_sec k, k_sub k with
  | None, false => 6 | None, true => 14 | Some _, false => 5 | Some _, true => 7
  end.

(* PrivKeyV4.pubkey() after repair 3c1c8c6:
     if isinstance(self.keymaterial, OpaquePrivKey): raise NotImplementedError      (None below)
     otherwise a fresh PubKeyV4 / PubSubKeyV4 with created, pkalg, __pubfields__, oid, kdf - nothing else.
   For a supported algorithm the copied fields ARE the public material (every constructor argument of pubmat).
   A packet that is public already has no pubkey() method; PGPKey.pubkey returns such a key itself
   (`if self.is_public: return self`): pub_half of a public packet is that packet. *)
Definition pub_half (k : keypkt) : keypkt :=
  {| k_sub := k_sub k; k_created := k_created k; k_alg := k_alg k; k_mat := k_mat k; k_sec := None |}.
Definition opaque_private (k : keypkt) : bool := is_private k && is_opaque (k_mat k).
Definition pubkey_pkt (k : keypkt) : option keypkt := if opaque_private k then None else Some (pub_half k).

(* the code BEFORE that repair (kept for the refutation theorems): a total function.  Opaque material has no
   __pubfields__: the fresh OpaquePubKey kept its empty `data` *)
Definition pub_mat_old (m : pubmat) : pubmat := match m with POpaque _ => POpaque [] | _ => m end.
Definition pubkey_pkt_old (k : keypkt) : keypkt :=
  {| k_sub := k_sub k; k_created := k_created k; k_alg := k_alg k; k_mat := pub_mat_old (k_mat k); k_sec := None |}.
(* PubKeyV4.__copy__ -> copy.copy(self.keymaterial) -> MPIs.__copy__ before the same repair: the MPI fields, oid and kdf
   were carried over, the octets of OpaquePubKey.data were not (now OpaquePubKey.__copy__ copies them: a copy has the
   same field values, see Fingerprint.v OpCopy) *)
Definition copy_pkt_old (k : keypkt) : keypkt :=
  {| k_sub := k_sub k; k_created := k_created k; k_alg := k_alg k; k_mat := pub_mat_old (k_mat k); k_sec := k_sec k |}.

(* body of the public twin; None = pubkey() refuses *)
Definition pub_packet_body (k : keypkt) : option bytes :=
  match pubkey_pkt k with Some p => Some (key_body p) | None => None end.
Definition sec_packet_body (k : keypkt) : bytes := key_body k.

(* ---------- state changes of the secret part (nothing else is written by these methods) ---------- *)
Definition map_sec (f : secpart -> secpart) (k : keypkt) : keypkt :=
  {| k_sub := k_sub k; k_created := k_created k; k_alg := k_alg k; k_mat := k_mat k;
     k_sec := match k_sec k with Some sp => Some (f sp) | None => None end |}.
(* PrivKey.clear() *)
Definition clear_sec (sp : secpart) : secpart :=
  {| s_usage := s_usage sp; s_s2k := s_s2k sp; s_enc := s_enc sp; s_priv := map (fun _ => 0) (s_priv sp); s_chk := s_chk sp |}.
(* PrivKey.encrypt_keyblob: usage 254, fresh S2K parameters / iv, ciphertext, then clear() *)
Definition protect_sec (s2k enc : bytes) (sp : secpart) : secpart :=
  {| s_usage := 254; s_s2k := s2k; s_enc := enc; s_priv := map (fun _ => 0) (s_priv sp); s_chk := s_chk sp |}.
(* decrypt_keyblob: the private integers reappear, everything else stays *)
Definition unlock_sec (privs : list Z) (sp : secpart) : secpart :=
  {| s_usage := s_usage sp; s_s2k := s_s2k sp; s_enc := s_enc sp; s_priv := privs; s_chk := s_chk sp |}.

(* ---------- parsing (PubKeyV4.parse, <Class>Pub.parse) ---------- *)
Inductive matkind := KRSA | KDSA | KElG | KECDSA | KECDH | KEdDSA | KOpaque.
(* PubKeyAlgorithm(val) (ValueError outside the enum = None) + the table in pkalg_int *)
Definition alg_kind (a : Z) : option matkind :=
  if (a =? 1) || (a =? 2) || (a =? 3) then Some KRSA
  else if a =? 17 then Some KDSA
  else if (a =? 16) || (a =? 20) then Some KElG
  else if a =? 19 then Some KECDSA
  else if a =? 18 then Some KECDH
  else if a =? 22 then Some KEdDSA
  else if (a =? 0) || (a =? 21) then Some KOpaque
  else None.

Definition kind_of (m : pubmat) : matkind :=
  match m with
  | PRSA _ _ => KRSA | PDSA _ _ _ _ => KDSA | PElG _ _ _ => KElG | PECDSA _ _ => KECDSA
  | PEdDSA _ _ => KEdDSA | PECDH _ _ _ _ => KECDH | POpaque _ => KOpaque
  end.

(* returns the material and what is left of the buffer it was handed *)
Definition material_parse (kd : matkind) (b : bytes) : option (pubmat * bytes) :=
  match kd with
  | KRSA => let '(n, b1) := mpi_parse b in let '(e, b2) := mpi_parse b1 in Some (PRSA n e, b2)
  | KDSA => let '(p, b1) := mpi_parse b in let '(q, b2) := mpi_parse b1 in
            let '(g, b3) := mpi_parse b2 in let '(y, b4) := mpi_parse b3 in Some (PDSA p q g y, b4)
  | KElG => let '(p, b1) := mpi_parse b in let '(g, b2) := mpi_parse b1 in
            let '(y, b3) := mpi_parse b2 in Some (PElG p g y, b3)
  | KECDSA =>
    match oid_parse b with
    | None => None
    | Some (c, b1) =>
      match ecpoint_parse b1 with
      | None => None
      | Some (pt, b2) => if is_std pt then Some (PECDSA c pt, b2) else None
      end
    end
  | KEdDSA =>
    match oid_parse b with
    | None => None
    | Some (c, b1) =>
      match ecpoint_parse b1 with
      | None => None
      | Some (pt, b2) => if is_std pt then None else Some (PEdDSA c pt, b2)
      end
    end
  | KECDH =>
    match oid_parse b with
    | None => None
    | Some (c, b1) =>
      match ecpoint_parse b1 with
      | None => None
      | Some (pt, b2) =>
        if Bool.eqb (curve_eqb c C25519) (is_std pt) then None   (* Curve25519 <-> native, others <-> standard *)
        else match b2 with
             | 3 :: 1 :: kh :: ke :: b3 => Some (PECDH c pt kh ke, b3)
             | _ => None
             end
      end
    end
  | KOpaque => Some (POpaque b, [])
  end.

(* body of a version-4 key packet: (created, algorithm, public material, octets after the public material) *)
Definition key_body_parse (b : bytes) : option (Z * Z * pubmat * bytes) :=
  match b with
  | v :: r =>
    if v =? 4 then
      let created := bytes_to_int (firstn 4 r) in
      match skipn 4 r with
      | [] => None
      | a :: r2 =>
        match alg_kind a with
        | None => None
        | Some kd =>
          match material_parse kd r2 with
          | Some (m, rest) => Some (created, a, m, rest)
          | None => None
          end
        end
      end
    else None
  | [] => None
  end.

(* ---------- a sequence of packets: (tag, body) list; None = malformed / truncated ---------- *)
Fixpoint parse_packets (fuel : nat) (b : bytes) : option (list (Z * bytes)) :=
  match fuel with
  | O => None
  | S f =>
    match b with
    | [] => Some []
    | _ =>
      match header_parse b with
      | None => None
      | Some (h, r) =>
        if Z.of_nat (length r) <? h_len h then None
        else let n := Z.to_nat (h_len h) in
             match parse_packets f (skipn n r) with
             | None => None
             | Some more => Some ((h_tag h, firstn n r) :: more)
             end
      end
    end
  end.

(* ---------- well-formedness (ranges in which the nominal lengths are the real ones) ---------- *)
Definition wf_mpi (v : Z) : Prop := 0 <= v /\ bit_length v < 65536.
Definition wf_point (p : ecpoint) : Prop :=
  match p with
  | EPStd bl x y => 1 <= bl < 4000 /\ 0 <= x < 256 ^ bl /\ 0 <= y < 256 ^ bl
  | EPNative x => wf_bytes x /\ Z.of_nat (length x) < 8000
  end.
Definition wf_pubmat (m : pubmat) : Prop :=
  match m with
  | PRSA n e => wf_mpi n /\ wf_mpi e
  | PDSA p q g y => wf_mpi p /\ wf_mpi q /\ wf_mpi g /\ wf_mpi y
  | PElG p g y => wf_mpi p /\ wf_mpi g /\ wf_mpi y
  | PECDSA c pt => wf_point pt
  | PEdDSA c pt => wf_point pt
  | PECDH c pt kh ke => wf_point pt /\ 0 <= kh < 256 /\ 0 <= ke < 256
  | POpaque _ => False     (* the supported algorithms; opaque material has its own theorems *)
  end.
(* the nominal public length IS the length of the public material: true of every well-formed supported material
   (theorem publen_correct) and of opaque material by definition of OpaquePubKey.__len__ *)
Definition real_publen (k : keypkt) : Prop := Z.of_nat (length (pubmat_bytes (k_mat k))) = publen k.
Definition wf_pub (k : keypkt) : Prop :=
  0 <= k_created k < 4294967296 /\ 0 <= k_alg k < 256 /\ wf_pubmat (k_mat k).

(* what the parser additionally insists on: algorithm id and material class agree, point format fits the class *)
Definition parse_consistent (k : keypkt) : Prop :=
  alg_kind (k_alg k) = Some (kind_of (k_mat k)) /\
  match k_mat k with
  | PECDSA _ pt => is_std pt = true
  | PEdDSA _ pt => is_std pt = false
  | PECDH c pt _ _ => is_std pt = negb (curve_eqb c C25519)
  | _ => True
  end.

(* two packets with the same public fields (secret part, S2K, lock state free) *)
Definition same_public_pkt (k k' : keypkt) : Prop :=
  k_sub k = k_sub k' /\ k_created k = k_created k' /\ k_alg k = k_alg k' /\ k_mat k = k_mat k'.
