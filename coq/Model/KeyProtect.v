(* C06: secret keys at rest.  Executable model of
     pgpy/packet/fields.py  String2Key.parse/__bytearray__, PrivKey.encrypt_keyblob / decrypt_keyblob / clear,
                            the per-algorithm secret layouts (RSAPriv d,p,q,u; DSAPriv/ElGPriv x; ECDSAPriv/EdDSAPriv/ECDHPriv s),
     pgpy/packet/packets.py PrivKeyV4.protected / unlocked / protect / unprotect,
     pgpy/pgp.py            PGPKey.protect, PGPKey.unlock (context manager; entry loop and finally-clear pass over key material
                            that is not protected), PGPKey.add_subkey (attachment only), is_protected, is_unlocked,
     pgpy/decorators.py     KeyAction.check_attributes (is_unlocked gate of sign / decrypt).
   The primitives (CFB encryption, SHA-1, the S2K key derivation) are Section variables; in the extracted
   program they are closures answered by the primitive oracle (cryptography / hashlib called directly by the
   harness, never through pgpy), which makes [read_key] an independent RFC 4880 5.5.3 reader and [rewrite_key]
   an independent writer of protected secret keys.
   NOT modelled (C06 is partial there): CPython heap residue of freed integers / bytearrays. *)
From Coq Require Import ZArith List Bool.
Import ListNotations.
Require Import PV.Lib.Bytes PV.Model.Wire.
Open Scope Z_scope.

(* ---------- tables of pgpy/constants.py ---------- *)
(* SymmetricKeyAlgorithm.block_size // 8; None = ValueError (not an enum member) / NotImplementedError (Plaintext) *)
Definition block_octets (alg : Z) : option Z :=
  if (1 <=? alg) && (alg <=? 4) then Some 8
  else if (7 <=? alg) && (alg <=? 13) then Some 16 else None.
Definition valid_symalg (alg : Z) : bool := ((0 <=? alg) && (alg <=? 4)) || ((7 <=? alg) && (alg <=? 13)).
Definition valid_halg (h : Z) : bool := (0 <=? h) && (h <=? 11).
Definition valid_spec (s : Z) : bool := ((0 <=? s) && (s <=? 3)) || (s =? 101).

(* number of secret MPIs per public-key algorithm (__privfields__) *)
Definition nsecret (pkalg : Z) : option nat :=
  if (1 <=? pkalg) && (pkalg <=? 3) then Some 4%nat                               (* RSA: d p q u *)
  else if (pkalg =? 16) || (pkalg =? 17) || (pkalg =? 20) then Some 1%nat          (* ElGamal / DSA: x *)
  else if (pkalg =? 18) || (pkalg =? 19) || (pkalg =? 22) then Some 1%nat          (* ECDH / ECDSA / EdDSA: s *)
  else None.

(* ---------- plaintext of the secret part ---------- *)
Definition secret_plain (mpis : list Z) : bytes := concat (map to_mpibytes mpis).

Fixpoint parse_mpis (n : nat) (b : bytes) : list Z * bytes :=
  match n with
  | O => ([], b)
  | S n' => let '(v, r) := mpi_parse b in
            let '(vs, r') := parse_mpis n' r in (v :: vs, r')
  end.

(* ---------- at-rest form ---------- *)
Record sblob := { b_usage : Z; b_alg : Z; b_spec : Z; b_halg : Z; b_salt : bytes; b_count : Z; b_iv : bytes; b_enc : bytes }.
(* GNU extension (specifier 101): no IV, no secret; [rest] is whatever followed in the packet *)
Inductive blob := BStd (b : sblob) | BGnu (usage alg ext : Z) (serial rest : bytes).

(* String2Key.legacy (repair 8563c06): RFC 4880 5.5.3 -- a usage octet other than 0, 254 and 255 is the id of the cipher that
   protects the secret key material; no specifier is stored (implied: Simple S2K with MD5), only the IV follows *)
Definition legacy (u : Z) : bool := negb ((u =? 0) || (u =? 254) || (u =? 255)).
(* String2Key.__bytearray__ for a protected key: usage 254/255 with the specifier, or the legacy form usage + IV *)
Definition s2k_emit_std (b : sblob) : bytes :=
  if legacy (b_usage b) then [b_usage b] ++ b_iv b
  else
  [b_usage b; b_alg b; b_spec b; b_halg b]
  ++ (if 1 <=? b_spec b then b_salt b else [])
  ++ (if b_spec b =? 3 then [b_count b] else [])
  ++ b_iv b.
Definition gnu_magic : bytes := [0; 71; 78; 85].
(* String2Key._experimental_bytearray (since repair 05bf06b): the divert-to-card mode (extension 2) writes the length octet of
   the serial number also when the serial is empty -- parsing always reads it; extension 1 has no serial *)
Definition s2k_emit_gnu (usage alg ext : Z) (serial : bytes) : bytes :=
  [usage; alg; 101] ++ gnu_magic ++ [ext]
  ++ (if ext =? 2 then [Z.of_nat (length serial)] ++ serial else []).
(* the rule before 05bf06b: length octet only for a non-empty serial (kept for the _old_refuted statement) *)
Definition s2k_emit_gnu_old (usage alg ext : Z) (serial : bytes) : bytes :=
  [usage; alg; 101] ++ gnu_magic ++ [ext]
  ++ (match serial with [] => [] | _ => [Z.of_nat (length serial)] ++ serial end).
Definition blob_emit (bl : blob) : bytes :=
  match bl with
  | BStd b => s2k_emit_std b ++ b_enc b
  | BGnu u a e s r => s2k_emit_gnu u a e s ++ r
  end.

(* String2Key.parse followed by `self.encbytes = packet` (RSA / ECC classes).  None = exception.
   inl 0  = usage octet 0 (PGPy then reads the secret MPIs in the clear).  Since repair 8563c06 any other usage octet
   than 0 / 254 / 255 is the legacy form: encalg = usage (ValueError when it is not a cipher id), specifier Simple (0),
   hash MD5 (1), then the IV of the cipher's block size *)
Definition s2k_parse (p : bytes) : option ((Z + blob) * bytes) :=
  match p with
  | [] => None
  | u :: r =>
    if (u =? 254) || (u =? 255) then
      match r with
      | alg :: spec :: r2 =>
        if valid_symalg alg && valid_spec spec then
          if spec =? 101 then
            if eqb_bytes (firstn 4 r2) gnu_magic then
              match skipn 4 r2 with
              | ext :: r3 =>
                if ext =? 1 then Some (inr (BGnu u alg ext [] r3), [])
                else if ext =? 2 then
                  match r3 with
                  | n :: r4 => let slen := Z.to_nat (Z.min n 16) in
                               Some (inr (BGnu u alg ext (firstn slen r4) (skipn slen r4)), [])
                  | [] => None
                  end
                else None
              | [] => None
              end
            else None
          else
            match r2 with
            | halg :: r3 =>
              if valid_halg halg then
                let salt := if 1 <=? spec then firstn 8 r3 else [] in
                let r4 := if 1 <=? spec then skipn 8 r3 else r3 in
                let cnt := if spec =? 3 then nth_error r4 0 else Some 0 in
                let r5 := if spec =? 3 then skipn 1 r4 else r4 in
                match cnt, block_octets alg with
                | Some c, Some bs =>
                  let iv := firstn (Z.to_nat bs) r5 in
                  let enc := skipn (Z.to_nat bs) r5 in
                  Some (inr (BStd {| b_usage := u; b_alg := alg; b_spec := spec; b_halg := halg; b_salt := salt;
                                     b_count := c; b_iv := iv; b_enc := enc |}), [])
                | _, _ => None
                end
              else None
            | [] => None
            end
        else None
      | _ => None
      end
    else if u =? 0 then Some (inl u, r)
    else if valid_symalg u then
      match block_octets u with
      | Some bs =>
        Some (inr (BStd {| b_usage := u; b_alg := u; b_spec := 0; b_halg := 1; b_salt := []; b_count := 0;
                           b_iv := firstn (Z.to_nat bs) r; b_enc := skipn (Z.to_nat bs) r |}), [])
      | None => None
      end
    else None
  end.

Section Prims.
  (* CFB mode of cipher `alg` (SymmetricKeyAlgorithm id), key, IV, data *)
  Variable cfb_enc cfb_dec : Z -> bytes -> bytes -> bytes -> bytes.
  Variable sha1 : bytes -> bytes.
  (* String2Key.derive_key: specifier type, hash id, cipher id (fixes the key size), salt, coded count, passphrase octets *)
  Variable s2k : Z -> Z -> Z -> bytes -> Z -> bytes -> bytes.

  (* ---------- PrivKey.encrypt_keyblob followed by __bytearray__ of the secret part ---------- *)
  Definition protect_enc (usage alg spec halg : Z) (salt : bytes) (count : Z) (iv pass : bytes) (mpis : list Z) : bytes :=
    let pt := secret_plain mpis in
    let tail := if usage =? 254 then sha1 pt else int_to_bytes (sumz pt mod 65536) 2 in
    cfb_enc alg (s2k spec halg alg salt count pass) iv (pt ++ tail).

  Definition mk_sblob (usage alg spec halg : Z) (salt : bytes) (count : Z) (iv pass : bytes) (mpis : list Z) : sblob :=
    {| b_usage := usage; b_alg := alg; b_spec := spec; b_halg := halg; b_salt := salt; b_count := count; b_iv := iv;
       b_enc := protect_enc usage alg spec halg salt count iv pass mpis |}.

  (* what PGPy writes: usage 254, iterated+salted *)
  Definition protect (mpis : list Z) (pass iv salt : bytes) (count alg halg : Z) : bytes :=
    [254; alg; 3; halg] ++ salt ++ [count] ++ iv
    ++ cfb_enc alg (s2k 3 halg alg salt count pass) iv (secret_plain mpis ++ sha1 (secret_plain mpis)).

  (* ---------- PrivKey.decrypt_keyblob ---------- *)
  (* since repair 8563c06 the 16-bit checksum is checked whenever the usage octet is not 254 (255 or a cipher id) *)
  Definition gate (usage : Z) (pt : bytes) : bool :=
    if usage =? 254 then eqb_bytes (lastn 20 pt) (sha1 (firstn (length pt - 20) pt))
    else unbe (lastn 2 pt) =? sumz (firstn (length pt - 2) pt) mod 65536.
  (* the rule before: nothing was checked for a usage octet other than 254 / 255 *)
  Definition gate_old (usage : Z) (pt : bytes) : bool :=
    if usage =? 254 then eqb_bytes (lastn 20 pt) (sha1 (firstn (length pt - 20) pt))
    else if usage =? 255 then unbe (lastn 2 pt) =? sumz (firstn (length pt - 2) pt) mod 65536
    else true.

  (* USkip = PrivKeyV4.unprotect returned at once: a GNU-extension stub has nothing to decrypt (repair 9a72221) *)
  Inductive ures := UOk (ms : list Z) (rest : bytes) | UBadPass | UError | USkip.

  Definition decrypt_std (b : sblob) (pass : bytes) : bytes :=
    cfb_dec (b_alg b) (s2k (b_spec b) (b_halg b) (b_alg b) (b_salt b) (b_count b) pass) (b_iv b) (b_enc b).

  Definition unprotect_std (n : nat) (b : sblob) (pass : bytes) : ures :=
    let pt := decrypt_std b pass in
    if gate (b_usage b) pt then let '(ms, r) := parse_mpis n pt in UOk ms r else UBadPass.

  (* GNU dummy / smartcard stub: since repair 9a72221 PrivKeyV4.unprotect returns at once (before: derive_key asked Plaintext
     (cipher 0) for its key size -> NotImplementedError) *)
  Definition unprotect_blob (n : nat) (bl : blob) (pass : bytes) : ures :=
    match bl with BStd b => unprotect_std n b pass | BGnu _ _ _ _ _ => USkip end.

  (* DESIGN.md name: Some mpis on acceptance *)
  Definition unprotect (n : nat) (b : sblob) (pass : bytes) : option (list Z) :=
    match unprotect_std n b pass with UOk ms _ => Some ms | _ => None end.

  (* ---------- one secret-key packet: (s2k + encbytes, private fields, stored checksum) ---------- *)
  Record pkt := { p_blob : option blob; p_fields : list Z; p_chk : bytes }.

  Definition zeros (l : list Z) : list Z := map (fun _ => 0) l.
  (* PrivKey.clear *)
  Definition clear (c : pkt) : pkt := {| p_blob := p_blob c; p_fields := zeros (p_fields c); p_chk := p_chk c |}.
  (* PrivKeyV4.protected *)
  Definition protected (c : pkt) : bool := match p_blob c with Some _ => true | None => false end.
  (* PrivKeyV4.unlocked: `0 not in list(self.keymaterial)`; the public integers of a well-formed key are never 0,
     so the test is decided by the private fields *)
  Definition fields_nonzero (c : pkt) : bool := negb (existsb (Z.eqb 0) (p_fields c)).
  Definition unlocked_flag (c : pkt) : bool := if protected c then fields_nonzero c else true.
  Definition all_zero (c : pkt) : bool := forallb (Z.eqb 0) (p_fields c).

  (* the three-state view *)
  Inductive kview := Unprotected (s : list Z) | Locked (b : blob) | Unlocked (b : blob) (s : list Z).
  Definition view (c : pkt) : kview :=
    match p_blob c with
    | None => Unprotected (p_fields c)
    | Some b => if all_zero c then Locked b else Unlocked b (p_fields c)
    end.

  (* secret part of the packet as exported: PrivKey.__bytearray__ after the public fields *)
  Definition export_secret (c : pkt) : bytes :=
    match p_blob c with
    | Some bl => blob_emit bl
    | None => [0] ++ secret_plain (p_fields c) ++ p_chk c
    end.

  (* PrivKeyV4.protect = encrypt_keyblob: always usage 254 / iterated; ends with clear() *)
  Definition protect_pkt (pass : bytes) (alg halg count : Z) (ivsalt : bytes * bytes) (c : pkt) : pkt :=
    {| p_blob := Some (BStd (mk_sblob 254 alg 3 halg (snd ivsalt) count (fst ivsalt) pass (p_fields c)));
       p_fields := zeros (p_fields c); p_chk := p_chk c |}.

  (* ciphers PrivKey.encrypt_keyblob can encrypt with: Plaintext (0) has no cipher (NotImplementedError from gen_iv, before
     any draw), IDEA (1) is refused as insecure and Twofish256 (10) has no backend (both raised by _encrypt, after the IV and
     salt were drawn).  Since repair a3ce830 the new S2K specifier is built on the side and installed together with the
     ciphertext only after _encrypt succeeded: a refused protect leaves the packet exactly as it was. *)
  Definition can_encrypt (alg : Z) : bool :=
    ((2 <=? alg) && (alg <=? 4)) || ((7 <=? alg) && (alg <=? 9)) || ((11 <=? alg) && (alg <=? 13)).

  Fixpoint protect_pkts (pass : bytes) (alg halg count : Z) (rnd : list (bytes * bytes)) (l : list pkt) : list pkt :=
    match l with
    | [] => []
    | c :: r => protect_pkt pass alg halg count (hd ([], []) rnd) c :: protect_pkts pass alg halg count (tl rnd) r
    end.

  (* the try-block of PGPKey.unlock: unprotect the primary, then every subkey, in order; since repair e967622 key material
     that is not protected (e.g. a subkey attached with add_subkey while the key was unlocked) is passed over.
     inl kind = an exception left the loop (1 = PGPDecryptionError, 2 = anything else, e.g. NotImplementedError for a
     GNU dummy) *)
  Fixpoint enter_pkts (pass : bytes) (l : list pkt) : Z + list pkt :=
    match l with
    | [] => inr []
    | c :: r =>
      match p_blob c with
      | None => match enter_pkts pass r with inr r' => inr (c :: r') | inl k => inl k end
      | Some bl =>
        match unprotect_blob (length (p_fields c)) bl pass with
        | UOk ms _ =>
          match enter_pkts pass r with
          | inr r' => inr ({| p_blob := p_blob c; p_fields := ms; p_chk := p_chk c |} :: r')
          | inl k => inl k
          end
        | UBadPass => inl 1
        | UError => inl 2
        | USkip => match enter_pkts pass r with inr r' => inr (c :: r') | inl k => inl k end   (* the stub stays as it is *)
        end
      end
    end.

  (* ---------- the key object: primary :: subkeys, and the stack of open unlock scopes ---------- *)
  (* true = a scope whose exit runs the finally-clear; false = the warn-and-yield scope of an unprotected key *)
  Record kst := { k_pkts : list pkt; k_scopes : list bool }.

  Inductive op :=
  | OProtect (pass : bytes) (alg halg count : Z) (rnd : list (bytes * bytes))
  | OEnter (pass : bytes)          (* cm = key.unlock(pass); cm.__enter__() *)
  | OExit                          (* cm.__exit__(None, None, None) of the innermost open scope *)
  | ORaiseInScope                  (* an exception raised by the body of the innermost open scope *)
  | OSign (i : nat)                (* key.sign(..) carried out by packet i *)
  | ODecrypt (i : nat)             (* key.decrypt(..) carried out by packet i *)
  | OExport
  | OReimport                      (* key := PGPKey.from_blob(bytes(key)) *)
  | OAddSub (ms : list Z) (chk : bytes).   (* key.add_subkey(sub): sub is a fresh unprotected key with secret integers ms *)

  Inductive obs :=
  | BDone | BWarned | BRaised (kind : Z) | BNoScope
  | BUsed (secret : list Z)        (* a private operation ran on these secret integers *)
  | BRefused                       (* PGPError from KeyAction.check_attributes *)
  | BExported (parts : list bytes).

  (* (a) one round of the finally-block of PGPKey.unlock since repair e967622: `if sk.is_protected: sk._key.keymaterial.clear()`
     -- key material that is not protected has no ciphertext to recover it from and is left alone;
     (b) parse of an exported packet: a protected packet comes back with zero fields *)
  Definition relock (c : pkt) : pkt := if protected c then clear c else c.

  Definition primary_protected (k : list pkt) : bool := match k with c :: _ => protected c | [] => false end.
  Definition primary_unlocked (k : list pkt) : bool := match k with c :: _ => unlocked_flag c | [] => true end.

  (* KeyAction (since repair cab6d36) checks is_unlocked on the SELECTED component, the one that does the work: for sign that
     is packet i alone (check_primary = false).  PGPKey.decrypt carries no usage flag, so its decorator selects (and
     checks) the key it was called on, the primary; the body then re-dispatches to the subkey object, whose own decorator
     checks that subkey (check_primary = true: both) *)
  Definition private_op (st : kst) (check_primary : bool) (i : nat) : kst * obs :=
    if check_primary && negb (primary_unlocked (k_pkts st)) then (st, BRefused)
    else
      match nth_error (k_pkts st) i with
      | Some c => if unlocked_flag c then (st, BUsed (p_fields c)) else (st, BRefused)
      | None => (st, BRaised 2)
      end.

  (* some component is protected and its secret fields are not there: PGPKey.protect then only warns (repair 080d1e8) *)
  Definition locked_comp (c : pkt) : bool := protected c && negb (unlocked_flag c).
  Definition any_locked (k : list pkt) : bool := existsb locked_comp k.
  Definition any_protected (k : list pkt) : bool := existsb protected k.

  Definition step(st : kst) (o : op) : kst * obs :=
    let k := k_pkts st in
    match o with
    | OProtect pass alg halg count rnd =>
      if any_locked k then (st, BWarned)
      else if can_encrypt alg then ({| k_pkts := protect_pkts pass alg halg count rnd k; k_scopes := k_scopes st |}, BDone)
      else (st, BRaised 2)         (* refused by the first packet: nothing installed, nothing cleared *)
    | OEnter pass =>
      (* repair a8a4c11: the warn-and-yield scope is taken only when NO component is protected *)
      if negb (any_protected k) then ({| k_pkts := k; k_scopes := false :: k_scopes st |}, BWarned)
      else match enter_pkts pass k with
           | inr k' => ({| k_pkts := k'; k_scopes := true :: k_scopes st |}, BDone)
           | inl kind => ({| k_pkts := map relock k; k_scopes := k_scopes st |}, BRaised kind)
           end
    | OExit | ORaiseInScope =>
      match k_scopes st with
      | [] => (st, BNoScope)
      | true :: s => ({| k_pkts := map relock k; k_scopes := s |}, BDone)
      | false :: s => ({| k_pkts := k; k_scopes := s |}, BDone)
      end
    | OSign i => private_op st false i
    | ODecrypt i => private_op st true i
    | OExport => (st, BExported (map export_secret k))
    | OReimport => ({| k_pkts := map relock k; k_scopes := [] |}, BDone)
    | OAddSub ms chk =>
      (* PGPKey.add_subkey attaches the subkey and then asks for the binding signature (self.bind, a KeyAction with
         is_unlocked=True); since repair 163b208 a refused binding (the primary is locked) undoes the attachment: the key is
         left as it was.  The new key material is unprotected whatever the state of the primary. *)
      if primary_unlocked k then
        ({| k_pkts := k ++ [{| p_blob := None; p_fields := ms; p_chk := chk |}]; k_scopes := k_scopes st |}, BDone)
      else (st, BRefused)
    end.

  (* the rule before repair 163b208: the packet stayed attached (without binding signature) when the binding was refused *)
  Definition add_sub_old (st : kst) (ms : list Z) (chk : bytes) : kst * obs :=
    ({| k_pkts := k_pkts st ++ [{| p_blob := None; p_fields := ms; p_chk := chk |}]; k_scopes := k_scopes st |},
     if primary_unlocked (k_pkts st) then BDone else BRefused).

  (* the rules before repairs 080d1e8 / a8a4c11 looked at the primary key only *)
  Definition protect_old (st : kst) (pass : bytes) (alg halg count : Z) (rnd : list (bytes * bytes)) : kst * obs :=
    let k := k_pkts st in
    if primary_protected k && negb (primary_unlocked k) then (st, BWarned)
    else if can_encrypt alg then ({| k_pkts := protect_pkts pass alg halg count rnd k; k_scopes := k_scopes st |}, BDone)
    else (st, BRaised 2).
  Definition enter_old (st : kst) (pass : bytes) : kst * obs :=
    let k := k_pkts st in
    if negb (primary_protected k) then ({| k_pkts := k; k_scopes := false :: k_scopes st |}, BWarned)
    else match enter_pkts pass k with
         | inr k' => ({| k_pkts := k'; k_scopes := true :: k_scopes st |}, BDone)
         | inl kind => ({| k_pkts := map relock k; k_scopes := k_scopes st |}, BRaised kind)
         end.

  Definition run (ops : list op) (st : kst) : kst := fold_left (fun s o => fst (step s o)) ops st.
  Fixpoint run_obs (ops : list op) (st : kst) : list obs :=
    match ops with [] => [] | o :: r => let '(st', b) := step st o in b :: run_obs r st' end.

  (* ---------- symbolic form of an export (for the "no secret outside cfb_enc" statement) ---------- *)
  Inductive sym :=
  | SLit (b : bytes)                                  (* public octets: headers, salts, IVs, foreign ciphertext *)
  | SSec (mpis : list Z)                              (* the MPI encoding of secret integers *)
  | SCat (a b : sym)
  | SSha1 (a : sym)
  | SSum16 (a : sym)                                  (* two-octet additive checksum *)
  | SKdf (spec halg alg : Z) (salt : bytes) (count : Z) (pass : bytes)
  | SCfb (alg : Z) (k : sym) (iv : bytes) (pt : sym).

  Fixpoint eval (t : sym) : bytes :=
    match t with
    | SLit b => b
    | SSec m => secret_plain m
    | SCat a b => eval a ++ eval b
    | SSha1 a => sha1 (eval a)
    | SSum16 a => int_to_bytes (sumz (eval a) mod 65536) 2
    | SKdf sp h a salt c p => s2k sp h a salt c p
    | SCfb a k iv pt => cfb_enc a (eval k) iv (eval pt)
    end.

  (* true iff no secret term occurs outside the plaintext position of an encryption *)
  Fixpoint guarded (t : sym) : bool :=
    match t with
    | SLit _ => true
    | SSec _ => false
    | SCat a b => guarded a && guarded b
    | SSha1 a => guarded a
    | SSum16 a => guarded a
    | SKdf _ _ _ _ _ _ => true
    | SCfb _ k _ _ => guarded k
    end.

  Definition protect_sym (mpis : list Z) (pass iv salt : bytes) (count alg halg : Z) : sym :=
    SCat (SLit ([254; alg; 3; halg] ++ salt ++ [count] ++ iv))
         (SCfb alg (SKdf 3 halg alg salt count pass) iv (SCat (SSec mpis) (SSha1 (SSec mpis)))).

  (* instrumented packets: the packet together with the symbolic origin of its exported secret part *)
  Definition sym_of_pkt (c : pkt) : sym :=
    match p_blob c with
    | Some bl => SLit (blob_emit bl)                  (* an imported at-rest form is public data *)
    | None => SCat (SLit [0]) (SCat (SSec (p_fields c)) (SLit (p_chk c)))
    end.

  Fixpoint protect_syms (pass : bytes) (alg halg count : Z) (rnd : list (bytes * bytes)) (l : list pkt) : list sym :=
    match l with
    | [] => []
    | c :: r => protect_sym (p_fields c) pass (fst (hd ([], []) rnd)) (snd (hd ([], []) rnd)) count alg halg
                :: protect_syms pass alg halg count (tl rnd) r
    end.

  (* ghost step: how the symbolic origins evolve (only protect creates a new at-rest form; add_subkey brings a clear-text one) *)
  Definition step_sym (st : kst) (syms : list sym) (o : op) : list sym :=
    match o with
    | OProtect pass alg halg count rnd =>
      if any_locked (k_pkts st) then syms
      else if can_encrypt alg then protect_syms pass alg halg count rnd (k_pkts st) else syms
    | OAddSub ms chk =>
      if primary_unlocked (k_pkts st) then syms ++ [sym_of_pkt {| p_blob := None; p_fields := ms; p_chk := chk |}] else syms
    | _ => syms
    end.

  Fixpoint run_sym (ops : list op) (st : kst) (syms : list sym) : kst * list sym :=
    match ops with
    | [] => (st, syms)
    | o :: r => run_sym r (fst (step st o)) (step_sym st syms o)
    end.

  (* ---------- the model as an independent reader / writer of whole transferable secret keys ---------- *)
  (* public algorithm-specific fields: returns the remaining octets (None = malformed) *)
  Definition skip_pub (pkalg : Z) (b : bytes) : option bytes :=
    if (1 <=? pkalg) && (pkalg <=? 3) then Some (snd (parse_mpis 2 b))
    else if pkalg =? 17 then Some (snd (parse_mpis 4 b))
    else if (pkalg =? 16) || (pkalg =? 20) then Some (snd (parse_mpis 3 b))
    else if (pkalg =? 19) || (pkalg =? 22) then
      match b with
      | n :: r => Some (snd (mpi_parse (skipn (Z.to_nat n) r)))
      | [] => None
      end
    else if pkalg =? 18 then
      match b with
      | n :: r =>
        match snd (mpi_parse (skipn (Z.to_nat n) r)) with
        | kl :: r2 => Some (skipn (Z.to_nat kl) r2)
        | [] => None
        end
      | [] => None
      end
    else None.

  Inductive rres :=
  | RUnprot (ms : list Z) (chk : bytes) (chk_ok : bool)
  | RProt (bl : blob) (u : ures)
  | RFail (code : Z).

  (* body of a tag 5 / tag 7 packet -> (pkalg, public part incl. version/created/alg, result) *)
  Definition read_secret_body (try_unlock : bool) (body pass : bytes) : Z * bytes * rres :=
    match body with
    | ver :: c1 :: c2 :: c3 :: c4 :: pkalg :: r =>
      if ver =? 4 then
        match skip_pub pkalg r, nsecret pkalg with
        | Some sec, Some n =>
          let pub := firstn (length body - length sec) body in
          match s2k_parse sec with
          | Some (inr bl, _) => (pkalg, pub, RProt bl (if try_unlock then unprotect_blob n bl pass else UError))
          | Some (inl u, r2) =>
            if u =? 0 then
              let '(ms, r3) := parse_mpis n r2 in
              (pkalg, pub, RUnprot ms r3 (eqb_bytes r3 (int_to_bytes (sumz (secret_plain ms) mod 65536) 2)))
            else (pkalg, pub, RFail 3)
          | None => (pkalg, pub, RFail 2)
          end
        | _, _ => (pkalg, [], RFail 1)
        end
      else (0, [], RFail 0)
    | _ => (0, [], RFail 0)
    end.

  (* walk the packet sequence of bytes(key) *)
  Fixpoint read_key (try_unlock : bool) (fuel : nat) (data pass : bytes) : list (Z * Z * bytes * rres) :=
    match fuel with
    | O => []
    | S f =>
      match data with
      | [] => []
      | _ =>
        match header_parse data with
        | None => [(0, 0, [], RFail 9)]
        | Some (h, r) =>
          let n := Z.to_nat (h_len h) in
          let body := firstn n r in
          let next := skipn n r in
          if (h_tag h =? 5) || (h_tag h =? 7) then
            let '(a, pub, res) := read_secret_body try_unlock body pass in
            (h_tag h, a, pub, res) :: read_key try_unlock f next pass
          else read_key try_unlock f next pass
        end
      end
    end.

  (* initial object state after PGPKey.from_blob, from what the reader saw *)
  Definition pkt_of_read (pkalg : Z) (r : rres) : option pkt :=
    match r with
    | RUnprot ms chk _ => Some {| p_blob := None; p_fields := ms; p_chk := chk |}
    | RProt bl _ =>
      match nsecret pkalg with
      | Some n => Some {| p_blob := Some bl; p_fields := repeat 0 n; p_chk := [] |}
      | None => None
      end
    | RFail _ => None
    end.

  Fixpoint pkts_of_read (l : list (Z * Z * bytes * rres)) : option (list pkt) :=
    match l with
    | [] => Some []
    | (_, a, _, r) :: t =>
      match pkt_of_read a r, pkts_of_read t with
      | Some c, Some cs => Some (c :: cs)
      | _, _ => None
      end
    end.

  (* run a history on the key read from its export; observation and per-packet flags after every step *)
  Definition flags (st : kst) : list (bool * bool * bool) * list bool :=
    (map (fun c => (protected c, unlocked_flag c, all_zero c)) (k_pkts st), k_scopes st).
  Fixpoint run_trace (ops : list op) (st : kst) : list (obs * (list (bool * bool * bool) * list bool)) :=
    match ops with
    | [] => []
    | o :: r => let '(st', b) := step st o in (b, flags st') :: run_trace r st'
    end.

  (* foreign forms the model can write *)
  Inductive wform :=
  | WKeep                                                             (* copy the packet unchanged *)
  | WStd (usage alg spec halg : Z) (salt : bytes) (count : Z) (iv pass : bytes)
  | WGnu (usage ext : Z) (serial : bytes).

  Definition write_secret (f : wform) (ms : list Z) : bytes :=
    match f with
    | WKeep => [0] ++ secret_plain ms ++ int_to_bytes (sumz (secret_plain ms) mod 65536) 2
    | WStd u a sp h salt c iv pass => blob_emit (BStd (mk_sblob u a sp h salt c iv pass ms))
    | WGnu u e s => blob_emit (BGnu u 0 e s [])
    end.

  (* re-emit bytes(key) with every unprotected secret-key packet rewritten in the requested form *)
  Fixpoint rewrite_key (fuel : nat) (data : bytes) (forms : list wform) : option bytes :=
    match fuel with
    | O => None
    | S f =>
      match data with
      | [] => Some []
      | _ =>
        match header_parse data with
        | None => None
        | Some (h, r) =>
          let n := Z.to_nat (h_len h) in
          let body := firstn n r in
          let next := skipn n r in
          let raw := firstn (length data - length next) data in
          if (h_tag h =? 5) || (h_tag h =? 7) then
            match forms, read_secret_body false body [] with
            | WKeep :: fs, _ =>
              match rewrite_key f next fs with Some t => Some (raw ++ t) | None => None end
            | fm :: fs, (_, pub, RUnprot ms _ _) =>
              let nb := pub ++ write_secret fm ms in
              match header_emit {| h_lenfmt := 1; h_tag := h_tag h; h_llen := 1; h_len := Z.of_nat (length nb) |},
                    rewrite_key f next fs with
              | Some hd, Some t => Some (hd ++ nb ++ t)
              | _, _ => None
              end
            | _, _ => None
            end
          else match rewrite_key f next forms with Some t => Some (raw ++ t) | None => None end
        end
      end
    end.
End Prims.
