(* C14 / C15: structural model of a transferable key as PGPy holds it, and of the code that builds,
   exports, imports and copies it.

   pgpy/types.py  SorteDeque.insort (bisect_right, after the F9 repair) / resort (remove + insort, after repair d951222)
   pgpy/pgp.py    PGPSignature.__lt__ / exportable, PGPUID.selfsig / is_primary / __lt__ / __or__ / __copy__,
                  PGPKey.__or__ (attachment, embedded-signature extraction, OrderedDict of subkeys),
                  PGPKey.__bytearray__ (export order, exportable filter), PGPKey.__copy__, PGPKey.pubkey,
                  PGPKey.parse (Trust filter, groupby on non-signature packets, Opaque groups skipped, the groups after an opaque
                  primary key packet skipped up to the next understood primary key (repair bf7dbf5), several keys in one blob).

   Abstractions (everything else follows the code branch by branch):
   * key material is a label (Z): the public and the private half of one key share it, a key id / fingerprint
     comparison is a comparison of labels (issuer key id and issuer fingerprint subpackets are one field);
   * a signature is a symbolic record (score): issuer, type, creation time, explicit Exportable subpacket
     (None = absent), Primary-User-ID flag, an opaque attribute list, and - for C15 - who made it and over
     which digest term; a signature packet may carry embedded signatures (also scores);
   * packet kinds outside Key / UserID / UserAttribute / Signature / Trust / Opaque are not modelled
     (PGPy warns "orphaned packet"; that path is `pragma: no cover`). *)
From Coq Require Import ZArith List Bool.
Import ListNotations.
Open Scope Z_scope.

(* ---------- symbolic signatures ---------- *)
Inductive subject :=
| OnKey (k : Z)                                (* 0x1F, 0x20: the primary key *)
| OnUid (k : Z) (isuid : bool) (c : list Z)    (* 0x10-0x13, 0x30: primary key + user id / attribute *)
| OnSub (k sub : Z).                           (* 0x18, 0x19, 0x28: primary key + subkey *)

(* what PGPSignature.hashdata feeds to the hash: the subject and the hashed fields of the signature *)
Record digest := { d_subj : subject; d_type : Z; d_created : Z; d_exp : option bool; d_primary : bool;
                   d_info : list Z; d_issuer : Z }.

Record score := { c_issuer : Z; c_type : Z; c_created : Z; c_exp : option bool; c_primary : bool;
                  c_info : list Z; c_signer : Z; c_digest : digest }.

Record sig := { s_core : score; s_emb : list score }.

(* an element of PGPKey._signatures: a signature packet, or an embedded signature extracted from one *)
Inductive item := Top (s : sig) | Emb (c : score).
Definition icore (i : item) : score := match i with Top s => s_core s | Emb c => c end.

Definition T_GENERIC := 16.  Definition T_POSITIVE := 19.  Definition T_ATTESTATION := 22.
Definition T_SUBKEY_BINDING := 24.  Definition T_PRIMARY_BINDING := 25.
Definition T_DIRECT := 31.  Definition T_KEY_REV := 32.  Definition T_SUBKEY_REV := 40.  Definition T_CERT_REV := 48.

(* PGPSignature.exportable (after the F2 repair the parsed Boolean keeps its value) *)
Definition exportable (c : score) : bool := match c_exp c with Some b => b | None => true end.

(* PGPSignature.__lt__ *)
Definition score_lt (a b : score) : bool := c_created a <? c_created b.
Definition sig_lt (a b : sig) : bool := score_lt (s_core a) (s_core b).
Definition item_lt (a b : item) : bool := score_lt (icore a) (icore b).

(* ---------- bisect / SorteDeque ---------- *)
Section Insort.
  Context {A : Type}.
  Variable lt : A -> A -> bool.

  (* the loop shared by bisect_left and bisect_right: first index in [lo, hi) whose element satisfies p,
     found by binary search (mid = (lo + hi) // 2) *)
  Fixpoint bsearch (p : A -> bool) (l : list A) (fuel lo hi : nat) : nat :=
    match fuel with
    | O => lo
    | S f =>
      if Nat.ltb lo hi then
        let mid := Nat.div2 (lo + hi) in
        match nth_error l mid with
        | Some y => if p y then bsearch p l f lo mid else bsearch p l f (S mid) hi
        | None => lo
        end
      else lo
    end.

  (* bisect_right: `if x < a[mid]: hi = mid else: lo = mid + 1` *)
  Definition bisect_right (x : A) (l : list A) : nat := bsearch (fun y => lt x y) l (S (length l)) 0 (length l).
  (* bisect_left: `if a[mid] < x: lo = mid + 1 else: hi = mid` *)
  Definition bisect_left (x : A) (l : list A) : nat := bsearch (fun y => negb (lt y x)) l (S (length l)) 0 (length l).

  (* rotate(-i); appendleft(item); rotate(i) *)
  Definition insert_at (i : nat) (x : A) (l : list A) : list A := firstn i l ++ x :: skipn i l.

  (* SorteDeque.insort as it is now *)
  Definition insort (x : A) (l : list A) : list A := insert_at (bisect_right x l) x l.
  (* SorteDeque.insort before the F9 repair *)
  Definition insort_prefix (x : A) (l : list A) : list A := insert_at (bisect_left x l) x l.

  Definition remove_nth (j : nat) (l : list A) : list A := firstn j l ++ skipn (S j) l.

  (* SorteDeque.resort(item) for the item at index j, as it is now (repair d951222): the item is taken
     out, then inserted into its sorted position *)
  Definition resort (j : nat) (l : list A) : list A :=
    match nth_error l j with
    | None => l
    | Some x => insort x (remove_nth j l)
    end.
  (* before that repair: bisect_left over the deque that still holds the item, moved only when the
     search does not land on the item itself (`self[i] is not item` is `i <> j`) *)
  Definition resort_prefix (j : nat) (l : list A) : list A :=
    match nth_error l j with
    | None => l
    | Some x =>
      let i := bisect_left x l in
      if Nat.eqb i (length l) || negb (Nat.eqb i j) then insort x (remove_nth j l) else l
    end.

  (* inserting a whole sequence, one element after the other *)
  Definition insort_all (xs : list A) (l : list A) : list A := fold_left (fun acc x => insort x acc) xs l.
End Insort.

(* ---------- user ids ---------- *)
Record uid := { u_isuid : bool; u_content : list Z; u_sigs : list sig }.

(* the signature types PGPUID.selfsig looks at: Generic_Cert 0x10, Persona_Cert 0x11, Casual_Cert 0x12, Positive_Cert 0x13 *)
Definition is_cert_type (t : Z) : bool := (t =? 16) || (t =? 17) || (t =? 18) || (t =? 19).
(* PGPUID.selfsig with parent label k (after repair 812bc0f): newest first, only certifications issued by the key itself;
   a certification revocation (0x30) or an attestation (0x16) made by the key is skipped *)
Definition selfsig (k : Z) (u : uid) : option sig :=
  find (fun s => is_cert_type (c_type (s_core s)) && (c_issuer (s_core s) =? k)) (rev (u_sigs u)).
(* before that repair: the newest signature of ANY type issued by the key (kept for the refutations only) *)
Definition selfsig_old (k : Z) (u : uid) : option sig := find (fun s => c_issuer (s_core s) =? k) (rev (u_sigs u)).
(* PGPUID.is_primary and PGPUID.__lt__ read the self-signature; `pick` is the selfsig rule (selfsig now, selfsig_old before 812bc0f) *)
Definition uid_is_primary_with (pick : Z -> uid -> option sig) (k : Z) (u : uid) : bool :=
  match pick k u with Some s => c_primary (s_core s) | None => false end.

(* PGPUID.__lt__ *)
Definition uid_lt_with (pick : Z -> uid -> option sig) (k : Z) (a b : uid) : bool :=
  if Bool.eqb (u_isuid a) (u_isuid b) then
    if Bool.eqb (uid_is_primary_with pick k a) (uid_is_primary_with pick k b) then
      match pick k a, pick k b with
      | None, None => false
      | None, Some _ => true
      | Some _, None => false
      | Some m, Some o => sig_lt o m          (* mysig > othersig  ==  othersig.__lt__(mysig) *)
      end
    else uid_is_primary_with pick k a
  else u_isuid a.
Definition uid_is_primary : Z -> uid -> bool := uid_is_primary_with selfsig.
Definition uid_lt : Z -> uid -> uid -> bool := uid_lt_with selfsig.
Definition uid_lt_old : Z -> uid -> uid -> bool := uid_lt_with selfsig_old.

(* PGPUID.__or__(signature), before the parent's resort *)
Definition uid_or_sig (u : uid) (s : sig) : uid :=
  {| u_isuid := u_isuid u; u_content := u_content u; u_sigs := insort sig_lt s (u_sigs u) |}.
Definition uid_or_sig_prefix (u : uid) (s : sig) : uid :=
  {| u_isuid := u_isuid u; u_content := u_content u; u_sigs := insort_prefix sig_lt s (u_sigs u) |}.

(* ---------- keys ---------- *)
Record subkey := { sk_label : Z; sk_public : bool; sk_cansign : bool; sk_sigs : list item }.
Record key := { p_label : Z; p_public : bool; p_sigs : list item; p_uids : list uid; p_subs : list subkey }.

(* PGPKey.__or__(signature): insort, then every embedded signature of a subkey binding is insorted too *)
Definition key_or_sig (l : list item) (s : sig) : list item :=
  let l1 := insort item_lt (Top s) l in
  if c_type (s_core s) =? T_SUBKEY_BINDING
  then fold_left (fun acc e => insort item_lt (Emb e) acc) (s_emb s) l1
  else l1.
Definition key_or_sig_prefix (l : list item) (s : sig) : list item :=
  let l1 := insort_prefix item_lt (Top s) l in
  if c_type (s_core s) =? T_SUBKEY_BINDING
  then fold_left (fun acc e => insort_prefix item_lt (Emb e) acc) (s_emb s) l1
  else l1.

(* PGPKey.__or__(uid) *)
Definition key_or_uid (k : key) (u : uid) : key :=
  {| p_label := p_label k; p_public := p_public k; p_sigs := p_sigs k;
     p_uids := insort (uid_lt (p_label k)) u (p_uids k); p_subs := p_subs k |}.
(* the same with the identity order of the code before repair 812bc0f *)
Definition key_or_uid_old (k : key) (u : uid) : key :=
  {| p_label := p_label k; p_public := p_public k; p_sigs := p_sigs k;
     p_uids := insort (uid_lt_old (p_label k)) u (p_uids k); p_subs := p_subs k |}.
Definition key_or_uid_prefix (k : key) (u : uid) : key :=
  {| p_label := p_label k; p_public := p_public k; p_sigs := p_sigs k;
     p_uids := insort_prefix (uid_lt (p_label k)) u (p_uids k); p_subs := p_subs k |}.

(* OrderedDict assignment self._children[keyid] = other: an existing entry keeps its position *)
Fixpoint sub_set (sk : subkey) (l : list subkey) : list subkey :=
  match l with
  | [] => [sk]
  | x :: r => if sk_label x =? sk_label sk then sk :: r else x :: sub_set sk r
  end.

(* PGPKey.__or__(subkey): None is the TypeError of a public/private mismatch *)
Definition key_or_sub (k : key) (sk : subkey) : option key :=
  if Bool.eqb (sk_public sk) (p_public k)
  then Some {| p_label := p_label k; p_public := p_public k; p_sigs := p_sigs k; p_uids := p_uids k;
               p_subs := sub_set sk (p_subs k) |}
  else None.

(* the signature packets among the elements of a signature list (`not s.embedded`) *)
Definition tops (l : list item) : list sig :=
  flat_map (fun i => match i with Top s => [s] | Emb _ => [] end) l.

(* ---------- packets and export ---------- *)
Inductive packet :=
| PKey (primary public cansign : bool) (label : Z)
| PUid (isuid : bool) (c : list Z)
| PSig (s : sig)
| PTrust
| POpaque (sigtag : bool) (id : Z)       (* an Opaque packet; sigtag = it carries the Signature tag (else: a subkey of unknown version, or another tag) *)
| POpaqueKey (id : Z)                    (* an Opaque packet with the PublicKey / SecretKey tag: a PRIMARY key of unknown version *)
| PStray (id : Z).                       (* an understood packet that is no part of a key (a Marker packet, a literal ...): "orphaned packet" *)

Definition export_sigs (l : list sig) : list packet :=
  flat_map (fun s => if exportable (s_core s) then [PSig s] else []) l.
Definition export_uid (u : uid) : list packet := PUid (u_isuid u) (u_content u) :: export_sigs (u_sigs u).
Definition export_sub (sk : subkey) : list packet :=
  PKey false (sk_public sk) (sk_cansign sk) (sk_label sk) :: export_sigs (tops (sk_sigs sk)).
(* PGPKey.__bytearray__ *)
Definition export (k : key) : list packet :=
  PKey true (p_public k) true (p_label k) :: export_sigs (tops (p_sigs k))
  ++ flat_map export_uid (p_uids k) ++ flat_map export_sub (p_subs k).

(* ---------- import (PGPKey.parse) ---------- *)
Inductive result (A : Type) :=
| Ok (a : A)
| ErrLeadingSignature      (* before repair bf7dbf5: first packet is a signature: grouping key None -> None.endswith -> AttributeError *)
| ErrNoPrimary             (* subkey or user id before any primary key: `None |= obj` -> TypeError (StopIteration before 84a9ce0) *)
| ErrTypeError.            (* public subkey under a private key or the converse *)
Arguments Ok {A} a.  Arguments ErrLeadingSignature {A}.  Arguments ErrNoPrimary {A}.  Arguments ErrTypeError {A}.

Definition is_sigpkt (p : packet) : bool :=
  match p with PSig _ => true | POpaque true _ => true | _ => false end.
Definition not_trust (p : packet) : bool := match p with PTrust => false | _ => true end.

(* itertools.groupby with PktGrouper: (signatures before the first non-signature packet, groups) *)
Fixpoint groups (ps : list packet) : list packet * list (packet * list packet) :=
  match ps with
  | [] => ([], [])
  | p :: r =>
    let (lead, gs) := groups r in
    if is_sigpkt p then (p :: lead, gs) else ([], (p, lead) :: gs)
  end.

(* `PGPSignature() | sig for sig in group if not isinstance(sig, Opaque)` *)
Definition sigs_of (ss : list packet) : list sig :=
  flat_map (fun p => match p with PSig s => [s] | _ => [] end) ss.

(* keys[(keyid, is_public)] = pgpobj *)
Fixpoint keys_set (k : key) (l : list key) : list key :=
  match l with
  | [] => [k]
  | x :: r => if (p_label x =? p_label k) && Bool.eqb (p_public x) (p_public k) then k :: r else x :: keys_set k r
  end.

(* `primary |= obj`: parse keeps the most recently PARSED primary key in a local variable (repair 84a9ce0); that object
   is always the dictionary entry of its (keyid, is_public), so it is addressed by that pair here.
   No primary key yet: `None |= obj` -> TypeError (ErrNoPrimary). *)
Definition same_id (id : Z * bool) (k : key) : bool := (p_label k =? fst id) && Bool.eqb (p_public k) (snd id).
Fixpoint upd_key (id : Z * bool) (f : key -> result key) (l : list key) : result (list key) :=
  match l with
  | [] => ErrNoPrimary
  | x :: r =>
    if same_id id x then
      match f x with
      | Ok x' => Ok (x' :: r)
      | ErrLeadingSignature => ErrLeadingSignature
      | ErrNoPrimary => ErrNoPrimary
      | ErrTypeError => ErrTypeError
      end
    else
      match upd_key id f r with
      | Ok r' => Ok (x :: r')
      | e => e
      end
  end.
Definition upd_cur (cur : option (Z * bool)) (f : key -> result key) (l : list key) : result (list key) :=
  match cur with
  | None => ErrNoPrimary
  | Some id => upd_key id f l
  end.

(* before that repair: keys[next(reversed(keys))] |= obj - the LAST dictionary entry, which is not the key just parsed
   when a blob repeats a key (an existing dictionary key keeps its position); empty dictionary -> StopIteration *)
Definition upd_last (f : key -> result key) (l : list key) : result (list key) :=
  match rev l with
  | [] => ErrNoPrimary
  | K :: r => match f K with
              | Ok K' => Ok (rev r ++ [K'])
              | ErrLeadingSignature => ErrLeadingSignature
              | ErrNoPrimary => ErrNoPrimary
              | ErrTypeError => ErrTypeError
              end
  end.

(* the `skipping` flag of PGPKey.parse, as a pass over the groups: it depends on the group heads alone.  An opaque primary key packet
   sets it, an understood primary key packet clears it, and while it is set every group is passed over (`continue`) before anything is
   built from it; opaque groups are passed over in any case *)
Fixpoint drop_skipped (skipping : bool) (gs : list (packet * list packet)) : list (packet * list packet) :=
  match gs with
  | [] => []
  | (h, ss) :: r =>
    match h with
    | POpaqueKey _ => drop_skipped true r
    | POpaque _ _ => drop_skipped skipping r
    | PStray _ => drop_skipped skipping r      (* set aside with the signatures grouped with it (`orphaned`), whether skipping or not *)
    | PKey true _ _ _ => (h, ss) :: drop_skipped false r
    | _ => if skipping then drop_skipped true r else (h, ss) :: drop_skipped false r
    end
  end.

Inductive parse_rule := RuleNow | RulePreOrphan | RulePreBf7.

Section Import.
  (* the three attachment operations, so that the pre-repair code can be run through the same parser *)
  Variable kos : list item -> sig -> list item.
  Variable uos : uid -> sig -> uid.
  Variable kou : key -> uid -> key.
  Variable psig : sig -> sig.            (* what parsing does to a signature packet (identity today) *)
  (* how a user id / subkey finds its key: current primary (now) or last dictionary entry (before 84a9ce0) *)
  Variable attach : option (Z * bool) -> (key -> result key) -> list key -> result (list key).

  (* state: the `keys` dictionary and the (keyid, is_public) of the local variable `primary` *)
  Definition import_group (st : list key * option (Z * bool)) (g : packet * list packet) : result (list key * option (Z * bool)) :=
    let (ks, cur) := st in
    let (h, ss) := g in
    let sl := map psig (sigs_of ss) in
    let keep (r : result (list key)) : result (list key * option (Z * bool)) :=
      match r with
      | Ok ks' => Ok (ks', cur)
      | ErrLeadingSignature => ErrLeadingSignature
      | ErrNoPrimary => ErrNoPrimary
      | ErrTypeError => ErrTypeError
      end in
    match h with
    | POpaque _ _ | POpaqueKey _ => Ok st      (* `if isinstance(pkt, Opaque): ... continue` (what else an opaque primary key does: drop_skipped) *)
    | PStray _ => Ok st                        (* `orphaned.append(pkt); orphaned.extend(group); continue` *)
    | PKey prim pub cs l =>
      let its := fold_left kos sl [] in
      if prim then Ok (keys_set {| p_label := l; p_public := pub; p_sigs := its; p_uids := []; p_subs := [] |} ks, Some (l, pub))
      else keep (attach cur (fun K => match key_or_sub K {| sk_label := l; sk_public := pub; sk_cansign := cs; sk_sigs := its |} with
                                      | Some K' => Ok K' | None => ErrTypeError end) ks)
    | PUid isu c =>
      let u := fold_left uos sl {| u_isuid := isu; u_content := c; u_sigs := [] |} in
      keep (attach cur (fun K => Ok (kou K u)) ks)
    | PSig _ | PTrust => Ok st                 (* never the head of a group *)
    end.

  Fixpoint import_groups (gs : list (packet * list packet)) (st : list key * option (Z * bool)) : result (list key) :=
    match gs with
    | [] => Ok (fst st)
    | g :: r => match import_group st g with
                | Ok st' => import_groups r st'
                | ErrLeadingSignature => ErrLeadingSignature
                | ErrNoPrimary => ErrNoPrimary
                | ErrTypeError => ErrTypeError
                end
    end.

  (* The parse before the orphan repair (HEAD f2ab7da), on the leading signatures `lead` and the groups `gs` still to come.  A packet
     that is no part of a key - a stray packet, or a REAL signature at the head of the leading group (grouping key None; an opaque
     one there is just passed over) - took `else: break`: "Orphaned packet" warning, the rest of its group consumed - at which point
     itertools.groupby has already read the FIRST PACKET OF THE NEXT GROUP - and the `while True` started a new groupby (and a new
     grouper, last = None) over the same iterator: that packet is LOST, the signatures after it are leading signatures again; keys,
     primary and skipping live on.  (A stray packet met while skipping is passed over by `if skipping: continue` before that.) *)
  Fixpoint import_groups_orphan (fuel : nat) (lead : list packet) (gs : list (packet * list packet))
                                (st : list key * option (Z * bool)) (skipping : bool) : result (list key) :=
    match fuel with
    | O => Ok (fst st)
    | S f =>
      match lead with
      | PSig _ :: _ =>
        match gs with
        | [] => Ok (fst st)
        | (_, ss) :: r => import_groups_orphan f ss r st skipping          (* the head of the next group is lost *)
        end
      | _ =>
        match gs with
        | [] => Ok (fst st)
        | (h, ss) :: r =>
          match h with
          | POpaqueKey _ => import_groups_orphan f [] r st true
          | POpaque _ _ => import_groups_orphan f [] r st skipping
          | _ =>
            let skipping' := match h with PKey true _ _ _ => false | _ => skipping end in
            if skipping' then import_groups_orphan f [] r st skipping'
            else match h with
                 | PStray _ =>
                   match r with
                   | [] => Ok (fst st)
                   | (_, ss2) :: r2 => import_groups_orphan f ss2 r2 st skipping'     (* the head of the next group is lost *)
                   end
                 | _ =>
                   match import_group st (h, ss) with
                   | Ok st' => import_groups_orphan f [] r st' skipping'
                   | ErrLeadingSignature => ErrLeadingSignature
                   | ErrNoPrimary => ErrNoPrimary
                   | ErrTypeError => ErrTypeError
                   end
                 end
          end
        end
      end
    end.

  (* which PGPKey.parse:
     RuleNow         after the orphan repair: what is no part of a key - leading signatures, a stray packet with the signatures grouped
                     with it - is set aside and the loop goes on (`continue`): nothing else is dropped; the groups after an opaque primary
                     key packet up to the next understood primary key packet are skipped (drop_skipped);
     RulePreOrphan   HEAD before that repair: import_groups_orphan;
     RulePreBf7      before repair bf7dbf5: leading signatures raise (AttributeError), an opaque primary key packet is skipped like any
                     other opaque packet and what follows it is given to the key parsed before it (used on blobs without stray packets) *)
  Variable rule : parse_rule.
  Definition import_with (ps : list packet) : result (list key) :=
    let (lead, gs) := groups (filter not_trust ps) in
    match rule with
    | RuleNow => import_groups (drop_skipped false gs) ([], None)
    | RulePreOrphan => import_groups_orphan (S (length gs)) lead gs ([], None) false
    | RulePreBf7 =>
      match lead with
      | [] => import_groups gs ([], None)
      | _ :: _ => ErrLeadingSignature
      end
    end.
End Import.

(* PGPKey.parse as it is now; the returned list is the `keys` dictionary in order (its first element is the
   object from_blob returns as the key) *)
Definition import : list packet -> result (list key) := import_with key_or_sig uid_or_sig key_or_uid (fun s => s) upd_cur RuleNow.
(* before the orphan repair (HEAD f2ab7da) *)
Definition import_pre_orphanfix : list packet -> result (list key) := import_with key_or_sig uid_or_sig key_or_uid (fun s => s) upd_cur RulePreOrphan.
(* before repair bf7dbf5 *)
Definition import_pre_bf7 : list packet -> result (list key) := import_with key_or_sig uid_or_sig key_or_uid (fun s => s) upd_cur RulePreBf7.

(* before repair 84a9ce0 *)
Definition import_prefix_dup : list packet -> result (list key) :=
  import_with key_or_sig uid_or_sig key_or_uid (fun s => s) (fun _ => upd_last) RuleNow.

(* before repair 812bc0f: identities ordered through selfsig_old *)
Definition import_old_selfsig : list packet -> result (list key) :=
  import_with key_or_sig uid_or_sig key_or_uid_old (fun s => s) upd_cur RuleNow.

(* before the F9 repair *)
Definition import_prefix_f9 : list packet -> result (list key) :=
  import_with key_or_sig_prefix uid_or_sig_prefix key_or_uid_prefix (fun s => s) upd_cur RuleNow.

(* before the F2 repair: a parsed Boolean subpacket lost its value (an explicit exportable=True read back as False) *)
Definition psig_prefix_f2 (s : sig) : sig :=
  let c := s_core s in
  {| s_core := {| c_issuer := c_issuer c; c_type := c_type c; c_created := c_created c;
                  c_exp := match c_exp c with Some _ => Some false | None => None end;
                  c_primary := c_primary c; c_info := c_info c; c_signer := c_signer c; c_digest := c_digest c |};
     s_emb := s_emb s |}.
Definition import_prefix_f2 : list packet -> result (list key) :=
  import_with key_or_sig uid_or_sig key_or_uid psig_prefix_f2 upd_cur RuleNow.

(* ---------- copy, public twin, and what both have in common ---------- *)
(* PGPUID.__copy__ *)
Definition copy_uid (u : uid) : uid :=
  fold_left uid_or_sig (u_sigs u) {| u_isuid := u_isuid u; u_content := u_content u; u_sigs := [] |}.
(* PGPKey.__copy__ of a subkey / subkey.pubkey: the non-embedded signatures are attached again *)
Definition copy_sub (pub : bool) (sk : subkey) : subkey :=
  {| sk_label := sk_label sk; sk_public := pub; sk_cansign := sk_cansign sk;
     sk_sigs := fold_left key_or_sig (tops (sk_sigs sk)) [] |}.

(* a key rebuilt from its parts with the attachment operators; `pub` is the public flag of the result *)
Definition rebuild_as (pub : bool) (k : key) : key :=
  {| p_label := p_label k; p_public := pub;
     p_sigs := fold_left key_or_sig (tops (p_sigs k)) [];
     p_uids := insort_all (uid_lt (p_label k)) (map copy_uid (p_uids k)) [];
     p_subs := fold_left (fun acc sk => sub_set (copy_sub pub sk) acc) (p_subs k) [] |}.

(* PGPKey.__copy__: user ids, then subkeys, then signatures *)
Definition copy (k : key) : key := rebuild_as (p_public k) k.
(* PGPKey.pubkey of a private key (every call derives a new twin) *)
Definition pubkey_of (k : key) : key := if p_public k then k else rebuild_as true k.

(* the pre-F9 copy *)
Definition copy_uid_prefix (u : uid) : uid :=
  fold_left uid_or_sig_prefix (u_sigs u) {| u_isuid := u_isuid u; u_content := u_content u; u_sigs := [] |}.
Definition copy_prefix (k : key) : key :=
  {| p_label := p_label k; p_public := p_public k;
     p_sigs := fold_left key_or_sig_prefix (tops (p_sigs k)) [];
     p_uids := fold_left (fun acc u => insort_prefix (uid_lt (p_label k)) u acc) (map copy_uid_prefix (p_uids k)) [];
     p_subs := fold_left (fun acc sk => sub_set {| sk_label := sk_label sk; sk_public := sk_public sk; sk_cansign := sk_cansign sk;
                                                   sk_sigs := fold_left key_or_sig_prefix (tops (sk_sigs sk)) [] |} acc) (p_subs k) [] |}.

(* ---------- the reference the theorems compare with ---------- *)
Definition strip_sigs (l : list sig) : list sig := filter (fun s => exportable (s_core s)) l.
Definition strip_uid (u : uid) : uid :=
  {| u_isuid := u_isuid u; u_content := u_content u; u_sigs := strip_sigs (u_sigs u) |}.
Definition strip_sub (sk : subkey) : subkey :=
  {| sk_label := sk_label sk; sk_public := sk_public sk; sk_cansign := sk_cansign sk;
     sk_sigs := map Top (strip_sigs (tops (sk_sigs sk))) |}.
(* the key without its non-exportable signature packets (and without the embedded copies, which are derived data) *)
Definition strip_nonexportable (k : key) : key :=
  {| p_label := p_label k; p_public := p_public k; p_sigs := map Top (strip_sigs (tops (p_sigs k)));
     p_uids := map strip_uid (p_uids k); p_subs := map strip_sub (p_subs k) |}.

(* decidable well-formedness used by the harness and by `Example`s *)
Fixpoint sortedb {A : Type} (lt : A -> A -> bool) (l : list A) : bool :=
  match l with
  | [] => true
  | x :: r => forallb (fun y => negb (lt y x)) r && sortedb lt r
  end.
Definition uids_sortedb (k : key) : bool := sortedb (uid_lt (p_label k)) (p_uids k).
(* every subkey is public exactly when the key is (PGPKey.__or__ accepts nothing else) *)
Definition wf_pubb (k : key) : bool := forallb (fun sk => Bool.eqb (sk_public sk) (p_public k)) (p_subs k).
(* the subkey dictionary has one entry per label *)
Fixpoint nodupb (l : list Z) : bool :=
  match l with
  | [] => true
  | x :: r => negb (existsb (Z.eqb x) r) && nodupb r
  end.
Definition sub_labels_nodupb (k : key) : bool := nodupb (map sk_label (p_subs k)).
(* all four kinds of list are in order *)
Definition all_sortedb (k : key) : bool :=
  sortedb item_lt (p_sigs k) && forallb (fun u => sortedb sig_lt (u_sigs u)) (p_uids k)
  && forallb (fun sk => sortedb item_lt (sk_sigs sk)) (p_subs k) && uids_sortedb k.
Definition wfkb (k : key) : bool := wf_pubb k && sub_labels_nodupb k.
