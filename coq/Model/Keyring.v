(* C19 -- executable model of pgpy/pgp.py PGPKeyring (as it is in /repo NOW, i.e. with the F5 repair of _add_alias and with
   commit 48f9d25: the space-free form of an identifier is tried only when it is 8, 16 or 40 hexadecimal digits).
   No proofs in this file (Proofs/Keyring_lemmas.v), statements in Props/C19.v.

   Python object                         model
   ------------------------------------  -----------------------------------------------------------
   str / Fingerprint used as dict key     alias = list of code points (Fingerprint hashes/compares as its str)
   id(pgpkey)                             pkid : Z (a label chosen by the caller, one per live object)
   dict (insertion ordered)               association list, oldest entry first, at most one entry per alias
   self._aliases : deque of dict          layers = list layer, index 0 = leftmost
   self._keys : dict pkid -> PGPKey       keys : list kinfo in insertion order
   sorted(list(set(..)), key=(created, is_public))   `sort` -- a Section variable: the theorems assume only that it
                                          permutes its argument, the correspondence run supplies the real order *)
From Coq Require Import ZArith List Bool.
Import ListNotations.
Require Import PV.Lib.Bytes.
Open Scope Z_scope.

Definition alias := list Z.
Definition pkid := Z.
Definition layer := list (alias * pkid).
Definition layers := list layer.

Definition aeqb (a b : alias) : bool := eqb_bytes a b.
(* alias.replace(' ', '') *)
Definition strip (a : alias) : alias := filter (fun c => negb (c =? 32)) a.
(* PGPKeyring._unspaced: re.fullmatch(r'[0-9A-Fa-f]{40}|[0-9A-Fa-f]{16}|[0-9A-Fa-f]{8}', alias.replace(' ', '')) -- the class is
   spelled out, so only the ASCII digits and letters match (no other Unicode digit, no trailing newline: fullmatch).
   The correspondence run passes identifiers as UTF-8 octets: every octet of a non-ASCII character is >= 128, neither a blank nor
   a hex digit, so the function agrees on octets and on code points. *)
Definition hexdigit (c : Z) : bool :=
  ((48 <=? c) && (c <=? 57)) || ((65 <=? c) && (c <=? 70)) || ((97 <=? c) && (c <=? 102)).
Definition id_shaped (s : alias) : bool :=
  forallb hexdigit s && (let n := Z.of_nat (length s) in (n =? 40) || (n =? 16) || (n =? 8)).
Definition unspaced (a : alias) : alias := let s := strip a in if id_shaped s then s else a.

(* m[alias] / alias in m *)
Fixpoint lookup (a : alias) (l : layer) : option pkid :=
  match l with [] => None | (b, k) :: r => if aeqb a b then Some k else lookup a r end.
(* m.pop(alias) *)
Definition lremove (a : alias) (l : layer) : layer := filter (fun p => negb (aeqb a (fst p))) l.
(* m[alias] = pkid : a new dict key goes to the end; every assignment in the code is to an absent key *)
Definition lset (a : alias) (k : pkid) (l : layer) : layer := lremove a l ++ [(a, k)].

(* [m[alias] for m in self._aliases if alias in m] *)
Definition pids (a : alias) (ls : layers) : list pkid :=
  flat_map (fun l => match lookup a l with Some k => [k] | None => [] end) ls.
(* alias in the union of the key sets of all layers *)
Definition contains (a : alias) (ls : layers) : bool := negb (match pids a ls with [] => true | _ => false end).
(* PGPKeyring.__contains__ for a str: `alias in aliases or self._unspaced(alias) in aliases` *)
Definition containsS (a : alias) (ls : layers) : bool := contains a ls || contains (unspaced a) ls.
(* before commit 48f9d25: `alias in aliases or alias.replace(' ', '') in aliases` (kept for the refutation of the old rule) *)
Definition containsS_old (a : alias) (ls : layers) : bool := contains a ls || contains (strip a) ls.

(* for depth, pkid in enumerate(pkids): self._aliases[depth][alias] = pkid
   (an IndexError would need more pkids than layers: excluded by pids_length in Proofs) *)
Fixpoint place (a : alias) (ks : list pkid) (ls : layers) : layers :=
  match ks, ls with
  | k :: ks', l :: ls' => lset a k l :: place a ks' ls'
  | _, _ => ls
  end.

Definition nonempty (l : layer) : bool := match l with [] => false | _ => true end.

(* PGPKeyring._get_key: per layer, the exact alias first, then _unspaced(alias) (computed once, before the loop) *)
Fixpoint get (a : alias) (ls : layers) : option pkid :=
  match ls with
  | [] => None
  | l :: r => match lookup a l with
              | Some k => Some k
              | None => match lookup (unspaced a) l with Some k => Some k | None => get a r end
              end
  end.
(* before commit 48f9d25: per layer, the exact alias first, then the alias without spaces *)
Fixpoint get_old (a : alias) (ls : layers) : option pkid :=
  match ls with
  | [] => None
  | l :: r => match lookup a l with
              | Some k => Some k
              | None => match lookup (strip a) l with Some k => Some k | None => get_old a r end
              end
  end.

(* ---- key descriptions (what _add_key reads off a PGPKey) ---- *)
Record uid := { u_name : alias; u_comment : alias; u_email : alias }.
Record kinfo := { kid : pkid; kfp : alias; kuids : list uid; kcreated : Z; kpublic : bool; kprimary : bool; kparentless : bool }.
Definition key := (kinfo * list kinfo)%type.        (* a key object and its .subkeys.values() *)

Definition truthy (a : alias) : bool := match a with [] => false | _ => true end.
Definition uid_aliases (u : uid) : list alias :=
  u_name u :: (if truthy (u_comment u) then [u_comment u] else []) ++ (if truthy (u_email u) then [u_email u] else []).
(* the order of the _add_alias calls in _add_key *)
Definition aliases_of (i : kinfo) : list alias :=
  kfp i :: lastn 16 (kfp i) :: lastn 8 (kfp i) :: flat_map uid_aliases (kuids i).

Record state := { keys : list kinfo; pubs : list pkid; privs : list pkid; lays : layers }.
Definition init : state := {| keys := []; pubs := []; privs := []; lays := [[]] |}.
Definition has_key (k : pkid) (ks : list kinfo) : bool := existsb (fun i => kid i =? k) ks.

Inductive op := Load (k : key) | Unload (k : key).

Section WithSort.
  Variable sort : list pkid -> list pkid.

  (* PGPKeyring._sort_alias *)
  Definition sort_alias (a : alias) (ls : layers) : layers :=
    let ks := sort (pids a ls) in
    filter nonempty (place a ks (map (lremove a) ls)).

  (* the for ... else of _add_alias: first layer lacking the alias, else appendleft({alias: pkid}) *)
  Fixpoint ins (a : alias) (k : pkid) (ls : layers) : option layers :=
    match ls with
    | [] => None
    | l :: r => match lookup a l with
                | None => Some ((l ++ [(a, k)]) :: r)
                | Some _ => option_map (cons l) (ins a k r) end
    end.
  Definition insert_free a k ls := match ins a k ls with Some x => x | None => [(a, k)] :: ls end.
  (* self._aliases[-1][alias] = pkid   (on an empty deque Python raises IndexError; layers_never_empty shows that
     no reachable state has an empty deque, the first equation is there to keep the function total) *)
  Fixpoint set_last (a : alias) (k : pkid) (ls : layers) : layers :=
    match ls with [] => [[(a, k)]] | [l] => [lset a k l] | l :: r => l :: set_last a k r end.

  (* PGPKeyring._add_alias as it is now; cS is `alias in self` *)
  Definition add_alias_with (cS : alias -> layers -> bool) (a : alias) (k : pkid) (ls : layers) : layers :=
    if negb (cS a ls) then set_last a k ls
    else if existsb (Z.eqb k) (pids a ls) then ls
    else sort_alias a (insert_free a k ls).
  Definition add_alias := add_alias_with containsS.

  (* PGPKeyring._add_alias before commit 1574c30 (kept for the regression theorem repo_loses_alias only; `alias in self` is
     today's, the witness history has no identifier with a blank) *)
  Fixpoint set_nth (n : nat) (a : alias) (k : pkid) (ls : layers) : layers :=
    match n, ls with O, l :: r => lset a k l :: r | S n', l :: r => l :: set_nth n' a k r | _, [] => [] end.
  Definition add_alias_repo (a : alias) (k : pkid) (ls : layers) : layers :=
    if negb (containsS a ls) then set_last a k ls
    else if existsb (Z.eqb k) (pids a ls) then ls
    else
      let adepth := (Z.of_nat (length ls) - Z.of_nat (length (pids a ls)) - 1) in
      let ls1 := if adepth =? -1 then [] :: ls else ls in
      let d := if adepth =? -1 then 0 else adepth in
      sort_alias a (set_nth (Z.to_nat d) a k ls1).

  Section WithAdd.
    Variable add : alias -> pkid -> layers -> layers.

    (* the body of _add_key for one object (without the recursion into subkeys) *)
    Definition add_one_with (s : state) (i : kinfo) : state :=
      if has_key (kid i) (keys s) then s
      else {| keys := keys s ++ [i];
              pubs := if kparentless i && kpublic i then pubs s ++ [kid i] else pubs s;
              privs := if kparentless i && negb (kpublic i) then privs s ++ [kid i] else privs s;
              lays := fold_left (fun ls a => add a (kid i) ls) (aliases_of i) (lays s) |}.
    (* _add_key (commit 7e98898): the key itself when it is new, then its subkeys -- also those of a key that is already loaded,
       one of them may have been unloaded on its own; each visit is guarded by the same `pkid not in self._keys` *)
    Definition add_key_with (s : state) (k : key) : state := fold_left add_one_with (snd k) (add_one_with s (fst k)).
    (* before commit 7e98898: subkeys were visited only when the key itself was new (kept for the refutation) *)
    Definition add_key_with_old (s : state) (k : key) : state :=
      if has_key (kid (fst k)) (keys s) then s else fold_left add_one_with (snd k) (add_one_with s (fst k)).
  End WithAdd.
  Definition add_one := add_one_with add_alias.
  Definition add_key := add_key_with add_alias.
  Definition add_key_old := add_key_with_old add_alias.

  (* unload: [(m, a) for m in self._aliases for a, p in m.items() if p == pkid] -- the aliases in iteration order *)
  Definition todo (k : pkid) (ls : layers) : list alias :=
    flat_map (fun l => map fst (filter (fun p => snd p =? k) l)) ls.
  (* m.pop(a) on the dict that holds (a, pkid), then the re-sort when the alias is still known *)
  Definition unstep_with (cS : alias -> layers -> bool) (k : pkid) (ls : layers) (a : alias) : layers :=
    let s1 := map (filter (fun p => negb (aeqb a (fst p) && (snd p =? k)))) ls in
    if cS a s1 then sort_alias a s1 else s1.
  Definition unstep := unstep_with containsS.
  Definition unload_one_with (cS : alias -> layers -> bool) (s : state) (i : kinfo) : state :=
    if has_key (kid i) (keys s) then
      {| keys := filter (fun j => negb (kid j =? kid i)) (keys s);
         pubs := filter (fun p => negb (p =? kid i)) (pubs s);
         privs := filter (fun p => negb (p =? kid i)) (privs s);
         lays := fold_left (unstep_with cS (kid i)) (todo (kid i) (lays s)) (lays s) |}
    else s.
  Definition unload_one := unload_one_with containsS.
  Definition unload_with (cS : alias -> layers -> bool) (s : state) (k : key) : state :=
    if has_key (kid (fst k)) (keys s) then
      let s1 := unload_one_with cS s (fst k) in
      if kprimary (fst k) then fold_left (unload_one_with cS) (snd k) s1 else s1
    else s.
  Definition unload := unload_with containsS.
  (* the keyring of before commit 48f9d25: `alias in self` in _add_alias and unload was the blank-stripping membership test
     (_add_key as it is now: the witnesses have no subkeys) *)
  Definition step_old (s : state) (o : op) : state :=
    match o with Load k => add_key_with (add_alias_with containsS_old) s k | Unload k => unload_with containsS_old s k end.

  Definition step (s : state) (o : op) : state :=
    match o with Load k => add_key s k | Unload k => unload s k end.
  Definition run (ops : list op) : state := fold_left step ops init.
  Definition run_old (ops : list op) : state := fold_left step_old ops init.
  (* the keyring of before commit 7e98898 (everything else as it is now) *)
  Definition step_old_addkey (s : state) (o : op) : state :=
    match o with Load k => add_key_old s k | Unload k => unload s k end.
  Definition run_old_addkey (ops : list op) : state := fold_left step_old_addkey ops init.
End WithSort.

(* ---- observations ---- *)
(* what load() returns for one argument: {ik.fingerprint} | {isk.fingerprint for isk in ik.subkeys.values()} *)
Definition load_result (k : key) : list alias := map kfp (fst k :: snd k).
Definition find_key (k : pkid) (ks : list kinfo) : option kinfo := find (fun i => kid i =? k) ks.
(* with keyring.key(str): None = KeyError *)
Definition get_key (s : state) (a : alias) : option kinfo :=
  match get a (lays s) with Some k => find_key k (keys s) | None => None end.
(* before commit 48f9d25 *)
Definition get_key_old (s : state) (a : alias) : option kinfo :=
  match get_old a (lays s) with Some k => find_key k (keys s) | None => None end.
(* with keyring.key(message): the first issuer the keyring knows; None = KeyError: no issuer known (the for ... else of commit
   35c6008; an empty issuer list takes the else as well) *)
Definition get_key_issuers (s : state) (issuers : list alias) : option kinfo :=
  match find (fun i => containsS i (lays s)) issuers with Some i => get_key s i | None => None end.
(* fingerprints(keyhalf, keytype): None = 'any', Some true = 'public' / 'primary', Some false = 'private' / 'sub' *)
Definition sel (f : option bool) (b : bool) : bool := match f with None => true | Some x => Bool.eqb x b end.
Definition fingerprints (s : state) (half typ : option bool) : list alias :=
  map kfp (filter (fun i => sel typ (kprimary i) && sel half (kpublic i)) (keys s)).
Definition klen (s : state) : nat := length (keys s).
