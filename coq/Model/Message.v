(* C20: OpenPGP message composition of PGPy, modelled function by function.
   pgpy/pgp.py PGPMessage.__iter__ / __bytearray__ / __or__ / parse / new / message / encrypt,
   PGPSignature.make_onepass, SorteDeque.insort;
   pgpy/packet/packets.py OnePassSignatureV3, LiteralData, CompressedData (+ the opaque framing of
   PKESK / SKESK / SED / SEIPD / Marker / MDC); pgpy/types.py MetaDispatchable.__call__ (tag / version dispatch).
   Packet headers come from PV.Model.Wire (C09).  No proofs in this file. *)
From Coq Require Import ZArith List Bool.
Import ListNotations.
Require Import PV.Lib.Bytes PV.Model.Wire.
Open Scope Z_scope.

(* ------------------------------------------------------------------ packet alphabet *)
(* one-pass signature packet; o_flag is PGPy's attribute `nested`: the wire octet is int(nested),
   i.e. True <-> octet 1 <-> "no further one-pass packet follows" (RFC 4880 5.4) *)
Record opsd := { o_type : Z; o_halg : Z; o_pkalg : Z; o_keyid : bytes; o_flag : bool }.
(* signature packet: the fields a one-pass packet repeats, the creation time PGPSignature.__lt__ sorts by,
   and the packet body verbatim (version octet first) - signatures are encoded by C02/C08, not here *)
Record sigd := { s_type : Z; s_halg : Z; s_pkalg : Z; s_keyid : bytes; s_created : Z; s_raw : bytes }.
(* literal data: format octet, file name (code points; latin-1 on the wire), time, content octets *)
Record litd := { l_format : Z; l_name : list Z; l_mtime : Z; l_data : bytes }.

Inductive pkt :=
| POps (o : opsd)
| PSig (s : sigd)
| PLit (l : litd)
| PComp (alg : Z) (inner : list pkt)
| PPkesk (b : bytes)      (* tag 1, body verbatim incl. version octet *)
| PSkesk (b : bytes)      (* tag 3 *)
| PSed (b : bytes)        (* tag 9 *)
| PSeipd (b : bytes)      (* tag 18, body verbatim incl. version octet *)
| PMarker (b : bytes)     (* tag 10 *)
| PMdc (b : bytes)        (* tag 19 *)
| POther (tag : Z) (b : bytes).   (* anything PGPMessage.__or__ refuses *)

(* ------------------------------------------------------------------ PGPSignature.make_onepass *)
Definition make_onepass (s : sigd) : opsd :=
  {| o_type := s_type s; o_halg := s_halg s; o_pkalg := s_pkalg s; o_keyid := s_keyid s; o_flag := false |}.
Definition with_flag (o : opsd) (f : bool) : opsd :=
  {| o_type := o_type o; o_halg := o_halg o; o_pkalg := o_pkalg o; o_keyid := o_keyid o; o_flag := f |}.

(* ------------------------------------------------------------------ message state *)
Inductive body :=
| BNone                                  (* _message is None *)
| BClear (text : bytes)                  (* cleartext signature framework (C11) *)
| BLit (l : litd)
| BEnc (integrity : bool) (ct : bytes).  (* SKEData / IntegrityProtectedSKEData *)
Record msg := { m_comp : Z; m_body : body; m_mdc : option bytes; m_sigs : list sigd; m_esk : list pkt }.

Definition empty_msg : msg := {| m_comp := 0; m_body := BNone; m_mdc := None; m_sigs := []; m_esk := [] |}.
Definition enc_pkt (integrity : bool) (ct : bytes) : pkt := if integrity then PSeipd ct else PSed ct.

(* for sig in reversed(self._signatures): ops = sig.make_onepass(); if sig is self._signatures[0]: ops.nested = True *)
Definition indexed (sigs : list sigd) : list (nat * sigd) := combine (seq 0 (length sigs)) sigs.
Definition ops_list (sigs : list sigd) : list pkt :=
  map (fun p => POps (with_flag (make_onepass (snd p)) (Nat.eqb (fst p) 0))) (rev (indexed sigs)).
(* the rule before the repair (F3): if sig is not self._signatures[-1] *)
Definition ops_list_prefix (sigs : list sigd) : list pkt :=
  map (fun p => POps (with_flag (make_onepass (snd p)) (negb (Nat.eqb (fst p) (length sigs - 1))))) (rev (indexed sigs)).

(* PGPMessage.__iter__ ; None = NotImplementedError raised by .type *)
Definition iter_with (ops : list sigd -> list pkt) (m : msg) : option (list pkt) :=
  match m_body m with
  | BNone => None
  | BClear _ => Some (map PSig (m_sigs m))
  | BEnc i ct => Some (map PSig (m_sigs m) ++ m_esk m ++ [enc_pkt i ct])
  | BLit l => Some (ops (m_sigs m) ++ [PLit l]
                    ++ (match m_mdc m with Some d => [PMdc d] | None => [] end)
                    ++ map PSig (m_sigs m))
  end.
Definition iter_packets : msg -> option (list pkt) := iter_with ops_list.
Definition iter_packets_prefix : msg -> option (list pkt) := iter_with ops_list_prefix.

(* PGPMessage.__bytearray__ at packet level: the compression wrapper holds [pkt for pkt in self] *)
Definition is_compressed (m : msg) : bool := negb (m_comp m =? 0).
Definition export_pkts (m : msg) : option (list pkt) :=
  match iter_packets m with
  | None => None
  | Some ps => Some (if is_compressed m then [PComp (m_comp m) ps] else ps)
  end.
Definition export_pkts_prefix (m : msg) : option (list pkt) :=
  match iter_packets_prefix m with
  | None => None
  | Some ps => Some (if is_compressed m then [PComp (m_comp m) ps] else ps)
  end.

(* ------------------------------------------------------------------ building messages *)
(* SorteDeque.insort with bisect_right over PGPSignature.__lt__ (created): after every element that is not later *)
Fixpoint insort (s : sigd) (l : list sigd) : list sigd :=
  match l with
  | [] => [s]
  | x :: r => if s_created s <? s_created x then s :: l else x :: insort s r
  end.

(* PGPMessage.new(..., cleartext=False): literal + compression *)
Definition new_msg (l : litd) (comp : Z) : msg :=
  {| m_comp := comp; m_body := BLit l; m_mdc := None; m_sigs := []; m_esk := [] |}.
(* msg |= signature *)
Definition add_sig (m : msg) (s : sigd) : msg :=
  {| m_comp := m_comp m; m_body := m_body m; m_mdc := m_mdc m; m_sigs := insort s (m_sigs m); m_esk := m_esk m |}.
Definition add_sigs (m : msg) (ss : list sigd) : msg := fold_left add_sig ss m.
Definition add_esk (m : msg) (p : pkt) : msg :=
  {| m_comp := m_comp m; m_body := m_body m; m_mdc := m_mdc m; m_sigs := m_sigs m; m_esk := m_esk m ++ [p] |}.
Definition is_encrypted (m : msg) : bool := match m_body m with BEnc _ _ => true | _ => false end.
(* PGPMessage.encrypt: msg = PGPMessage() | skesk; then either | SEIPD(ct of bytes(self)) or | self.
   `ct` is the SEIPD body the cipher produced for bytes(self) (a primitive; C03 / C04) *)
Definition encrypt_msg (m : msg) (skesk : pkt) (ct : bytes) : msg :=
  if is_encrypted m then
    {| m_comp := m_comp m; m_body := m_body m; m_mdc := m_mdc m; m_sigs := m_sigs m; m_esk := skesk :: m_esk m |}
  else
    {| m_comp := 0; m_body := BEnc true ct; m_mdc := None; m_sigs := []; m_esk := [skesk] |}.

(* ------------------------------------------------------------------ PGPMessage.__or__ *)
Definition set_comp (m : msg) (c : Z) : msg :=
  {| m_comp := c; m_body := m_body m; m_mdc := m_mdc m; m_sigs := m_sigs m; m_esk := m_esk m |}.
Definition set_body (m : msg) (b : body) : msg :=
  {| m_comp := m_comp m; m_body := b; m_mdc := m_mdc m; m_sigs := m_sigs m; m_esk := m_esk m |}.
Definition set_mdc (m : msg) (d : bytes) : msg :=
  {| m_comp := m_comp m; m_body := m_body m; m_mdc := Some d; m_sigs := m_sigs m; m_esk := m_esk m |}.
Definition has_body (m : msg) : bool := match m_body m with BNone => false | _ => true end.

Definition fold_opt {A B} (f : A -> B -> option A) : list B -> option A -> option A :=
  fix go (l : list B) (a : option A) : option A :=
    match l with
    | [] => a
    | x :: r => match a with None => None | Some a' => go r (f a' x) end
    end.

(* None = NotImplementedError *)
Fixpoint or_pkt (m : msg) (p : pkt) {struct p} : option msg :=
  match p with
  | PMarker _ => Some m
  | PComp a inner => fold_opt or_pkt inner (Some (set_comp m a))
  | PLit l => if has_body m then None else Some (set_body m (BLit l))
  | PSed ct => if has_body m then None else Some (set_body m (BEnc false ct))
  | PSeipd ct => if has_body m then None else Some (set_body m (BEnc true ct))
  | PMdc d => match m_mdc m with None => Some (set_mdc m d) | Some _ => None end
  | POps _ => Some m
  | PSig s => Some (add_sig m s)
  | PPkesk _ | PSkesk _ => Some (add_esk m p)
  | POther _ _ => None
  end.
Definition import_pkts (ps : list pkt) : option msg := fold_opt or_pkt ps (Some empty_msg).

(* ------------------------------------------------------------------ Python slices with any integer bound *)
(* a bound beyond the end is the end (Python clamps); clamping BEFORE the conversion keeps the extracted unary nat small
   when a damaged header announces gigabytes *)
Definition clamp (k : Z) (l : bytes) : nat := Z.to_nat (Z.min k (Z.of_nat (length l))).
Definition py_take (k : Z) (l : bytes) : bytes :=
  if k <? 0 then firstn (length l - Z.to_nat (- k)) l else firstn (clamp k l) l.
Definition py_drop (k : Z) (l : bytes) : bytes :=
  if k <? 0 then skipn (length l - Z.to_nat (- k)) l else skipn (clamp k l) l.

(* ------------------------------------------------------------------ one-pass signature body (version 3) *)
(* SignatureType / PubKeyAlgorithm members (pinned by the harness): constructing the enum from another value raises *)
Definition sigtypes : list Z := [0; 1; 2; 16; 17; 18; 19; 22; 24; 25; 31; 32; 40; 48; 64; 80].
Definition pkalgs : list Z := [0; 1; 2; 3; 16; 17; 18; 19; 20; 21; 22].
Definition memz (x : Z) (l : list Z) : bool := existsb (Z.eqb x) l.

Definition ops_body (o : opsd) : bytes :=
  [3; o_type o; o_halg o; o_pkalg o] ++ o_keyid o ++ [if o_flag o then 1 else 0].
(* OnePassSignatureV3.parse after the version octet; it never looks at the header length *)
Definition ops_parse (p : bytes) : option (opsd * bytes) :=
  match p with
  | t :: h :: a :: r =>
    if memz t sigtypes && memz a pkalgs then
      match skipn 8 r with
      | f :: r' => Some ({| o_type := t; o_halg := h; o_pkalg := a; o_keyid := firstn 8 r; o_flag := negb (f =? 0) |}, r')
      | [] => None
      end
    else None
  | _ => None
  end.

(* ------------------------------------------------------------------ literal data body *)
Definition latin1_ok (t : list Z) : bool := forallb (fun c => (0 <=? c) && (c <? 256)) t.
(* LiteralData.__bytearray__ after the header; None = ValueError / UnicodeEncodeError / OverflowError.
   A time that does not fit four octets is refused (ValueError) *)
Definition lit_body (l : litd) : option bytes :=
  if (0 <=? l_format l) && (l_format l <? 256) && (Z.of_nat (length (l_name l)) <=? 255) && latin1_ok (l_name l)
     && (0 <=? l_mtime l) && (l_mtime l <? 4294967296)
  then Some ([l_format l] ++ [Z.of_nat (length (l_name l))] ++ l_name l ++ int_to_bytes (l_mtime l) 4 ++ l_data l)
  else None.
(* before the repair: int_to_bytes widens to five octets from 2106-02-07 on (kept for the refutation theorem) *)
Definition lit_body_prefix (l : litd) : option bytes :=
  if (0 <=? l_format l) && (l_format l <? 256) && (Z.of_nat (length (l_name l)) <=? 255) && latin1_ok (l_name l)
     && (0 <=? l_mtime l)
  then Some ([l_format l] ++ [Z.of_nat (length (l_name l))] ++ l_name l ++ int_to_bytes (l_mtime l) 4 ++ l_data l)
  else None.
(* LiteralData.parse: len = header.length, p = body ++ following data *)
Definition lit_parse (len : Z) (p : bytes) : option (litd * bytes) :=
  match p with
  | f :: fnl :: r =>
    let name := firstn (Z.to_nat fnl) r in
    let r1 := skipn (Z.to_nat fnl) r in
    let mt := unbe (firstn 4 r1) in
    let r2 := skipn 4 r1 in
    let k := len - (6 + fnl) in
    (* a header that declares fewer octets than format, name length, name and date take is refused (the name, the date and -- the
       count k being negative -- the contents used to be taken from the packets that follow) *)
    if len <? 6 + fnl then None else
    Some ({| l_format := f; l_name := name; l_mtime := mt; l_data := py_take k r2 |}, py_drop k r2)
  | _ => None
  end.

(* bytes.decode('utf-8') (strict): shortest form only, no surrogates, nothing above U+10FFFF; None = UnicodeDecodeError *)
Definition cont (b : Z) : bool := (128 <=? b) && (b <? 192).
Fixpoint utf8_decode (b : bytes) : option (list Z) :=
  match b with
  | [] => Some []
  | b0 :: r =>
    if b0 <? 128 then
      (if 0 <=? b0 then option_map (cons b0) (utf8_decode r) else None)
    else if b0 <? 194 then None
    else if b0 <? 224 then
      match r with
      | b1 :: r1 =>
        if cont b1 then option_map (cons ((b0 - 192) * 64 + (b1 - 128))) (utf8_decode r1) else None
      | _ => None
      end
    else if b0 <? 240 then
      match r with
      | b1 :: b2 :: r2 =>
        let c := (b0 - 224) * 4096 + (b1 - 128) * 64 + (b2 - 128) in
        if cont b1 && cont b2 && (2048 <=? c) && negb ((55296 <=? c) && (c <? 57344))
        then option_map (cons c) (utf8_decode r2) else None
      | _ => None
      end
    else if b0 <? 245 then
      match r with
      | b1 :: b2 :: b3 :: r3 =>
        let c := (b0 - 240) * 262144 + (b1 - 128) * 4096 + (b2 - 128) * 64 + (b3 - 128) in
        if cont b1 && cont b2 && cont b3 && (65536 <=? c) && (c <? 1114112)
        then option_map (cons c) (utf8_decode r3) else None
      | _ => None
      end
    else None
  end.

(* LiteralData.contents / PGPMessage.message.  't': UTF-8 (what PGPMessage.new stores), latin-1 (code point = octet)
   when the octets are not UTF-8 (other producers); 'u': UTF-8, VErr = UnicodeDecodeError; anything else: the octets *)
Inductive view := VBytes (b : bytes) | VText (t : list Z) | VErr.
Definition contents (l : litd) : view :=
  if l_format l =? 116 then
    match utf8_decode (l_data l) with Some t => VText t | None => VText (l_data l) end
  else if l_format l =? 117 then
    match utf8_decode (l_data l) with Some t => VText t | None => VErr end
  else VBytes (l_data l).
(* before the repair: 't' always read as latin-1 (kept for the refutation theorem) *)
Definition contents_prefix (l : litd) : view :=
  if l_format l =? 116 then VText (l_data l)
  else if l_format l =? 117 then
    match utf8_decode (l_data l) with Some t => VText t | None => VErr end
  else VBytes (l_data l).
(* text_to_bytes: str.encode('utf-8') on code points *)
Definition utf8_cp (c : Z) : bytes :=
  if c <? 128 then [c]
  else if c <? 2048 then [192 + c / 64; 128 + c mod 64]
  else if c <? 65536 then [224 + c / 4096; 128 + (c / 64) mod 64; 128 + c mod 64]
  else [240 + c / 262144; 128 + (c / 4096) mod 64; 128 + (c / 64) mod 64; 128 + c mod 64].
Definition utf8 (t : list Z) : bytes := flat_map utf8_cp t.
(* PGPMessage.new with text (str, or bytes decoded with the charset hint) *)
Definition new_text (format : Z) (name : list Z) (mtime : Z) (text : list Z) (comp : Z) : msg :=
  new_msg {| l_format := format; l_name := name; l_mtime := mtime; l_data := utf8 text |} comp.

(* ------------------------------------------------------------------ signature fields read from the body *)
(* subpacket areas: list of (type, body) *)
Fixpoint sub_scan (fuel : nat) (area : bytes) : option (list (Z * bytes)) :=
  match area with
  | [] => Some []
  | _ =>
    match fuel with
    | O => None
    | S f =>
      match sub_header_parse area with
      | None => None
      | Some (l, t, _, r) =>
        let n := Z.to_nat (l - 1) in
        match sub_scan f (skipn n r) with
        | Some rest => Some ((t, firstn n r) :: rest)
        | None => None
        end
      end
    end
  end.
Definition last_of (t : Z) (sps : list (Z * bytes)) : option bytes :=
  match filter (fun p => fst p =? t) sps with
  | [] => None
  | x :: r => Some (snd (last r x))
  end.
(* version 4 body: 04 type pkalg halg hashedlen(2) hashed unhashedlen(2) unhashed ...
   created = last hashed CreationTime (2); signer = last Issuer (16) of hashed ++ unhashed *)
Definition sig_peek (raw : bytes) : option sigd :=
  match raw with
  | 4 :: t :: a :: h :: r =>
    let hl := Z.to_nat (unbe (firstn 2 r)) in
    let hashed := firstn hl (skipn 2 r) in
    let r1 := skipn hl (skipn 2 r) in
    let ul := Z.to_nat (unbe (firstn 2 r1)) in
    let unhashed := firstn ul (skipn 2 r1) in
    match sub_scan (S (length hashed)) hashed, sub_scan (S (length unhashed)) unhashed with
    | Some hs, Some us =>
      match last_of 2 hs, last_of 16 (hs ++ us) with
      | Some c, Some k =>
        Some {| s_type := t; s_halg := h; s_pkalg := a; s_keyid := k; s_created := unbe c; s_raw := raw |}
      | _, _ => None
      end
    | _, _ => None
    end
  | _ => None
  end.

(* ------------------------------------------------------------------ wire level *)
Inductive pres (A : Type) := Ok (a : A) | Reject | OutOfFuel.
Arguments Ok {A} a. Arguments Reject {A}. Arguments OutOfFuel {A}.

(* packets PGPy creates carry a new-format header; update_hlen sets the length to the body size *)
Definition frame (tag : Z) (body : bytes) : option bytes :=
  match header_emit {| h_lenfmt := 1; h_tag := tag; h_llen := 1; h_len := Z.of_nat (length body) |} with
  | Some h => Some (h ++ body)
  | None => None
  end.
Definition concat_opt (f : pkt -> option bytes) : list pkt -> option bytes :=
  fix go (l : list pkt) : option bytes :=
    match l with
    | [] => Some []
    | q :: r => match f q with
                | None => None
                | Some x => match go r with None => None | Some y => Some (x ++ y) end
                end
    end.
Definition valid_calg (a : Z) : bool := (0 <=? a) && (a <=? 3).

Section Prim.
  (* CompressionAlgorithm.compress / decompress (zlib / bz2); None = the library raised *)
  Variable compress : Z -> bytes -> bytes.
  Variable decompress : Z -> bytes -> option bytes.

  Fixpoint emit_pkt (p : pkt) : option bytes :=
    match p with
    | POps o => frame 4 (ops_body o)
    | PSig s => frame 2 (s_raw s)
    | PLit l => match lit_body l with Some b => frame 11 b | None => None end
    | PComp a inner =>
      if valid_calg a then
        match concat_opt emit_pkt inner with
        | Some pb => frame 8 (a :: compress a pb)
        | None => None
        end
      else None
    | PPkesk b => frame 1 b
    | PSkesk b => frame 3 b
    | PSed b => frame 9 b
    | PSeipd b => frame 18 b
    | PMarker b => frame 10 b
    | PMdc b => frame 19 b
    | POther t b => frame t b
    end.
  Definition emit_pkts : list pkt -> option bytes := concat_opt emit_pkt.
  (* bytes(message) *)
  Definition export_bytes (m : msg) : option bytes :=
    match export_pkts m with None => None | Some ps => emit_pkts ps end.

  (* Packet(data): header, dispatch on tag (and version), body parser.  rec parses a decompressed stream *)
  Definition versioned (len : Z) (r : bytes) (ver : Z) (mk : bytes -> pkt) (tag : Z) : pres (pkt * bytes) :=
    match r with
    | [] => Reject
    | v :: r1 =>
      let b := v :: py_take (len - 1) r1 in
      Ok (if v =? ver then mk b else POther tag b, py_drop (len - 1) r1)
    end.
  Definition parse_one (rec : bytes -> pres (list pkt)) (b : bytes) : pres (pkt * bytes) :=
    match header_parse b with
    | None => Reject
    | Some (h, r) =>
      let len := h_len h in
      let tag := h_tag h in
      if tag =? 11 then
        match lit_parse len r with Some (l, r') => Ok (PLit l, r') | None => Reject end
      else if tag =? 4 then
        match r with
        | [] => Reject
        | v :: r1 =>
          if v =? 3 then match ops_parse r1 with Some (o, r') => Ok (POps o, r') | None => Reject end
          else Ok (POther 4 (v :: py_take (len - 1) r1), py_drop (len - 1) r1)
        end
      else if tag =? 2 then
        match r with
        | [] => Reject
        | v :: r1 =>
          let raw := v :: py_take (len - 1) r1 in
          if v =? 4 then match sig_peek raw with Some s => Ok (PSig s, py_drop (len - 1) r1) | None => Reject end
          else Ok (POther 2 raw, py_drop (len - 1) r1)
        end
      else if tag =? 8 then
        match r with
        | [] => Reject
        | a :: r1 =>
          if valid_calg a then
            match decompress a (py_take (len - 1) r1) with
            | None => Reject
            | Some cdata =>
              match rec cdata with
              | Ok inner => Ok (PComp a inner, py_drop (len - 1) r1)
              | Reject => Reject
              | OutOfFuel => OutOfFuel
              end
            end
          else Reject
        end
      else if tag =? 1 then versioned len r 3 PPkesk 1
      else if tag =? 3 then versioned len r 4 PSkesk 3
      else if tag =? 18 then versioned len r 1 PSeipd 18
      else if tag =? 9 then Ok (PSed (py_take len r), py_drop len r)
      else if tag =? 10 then Ok (PMarker (py_take len r), py_drop len r)
      (* MDC.parse: a header that declares anything but 20 octets is refused (it used to take 20 octets whatever was declared) *)
      else if tag =? 19 then if len =? 20 then Ok (PMdc (firstn 20 r), skipn 20 r) else Reject
      else Ok (POther tag (py_take len r), py_drop len r)
    end.
  (* while len(data) > 0: self |= Packet(data) *)
  Fixpoint parse_pkts (fuel : nat) (b : bytes) : pres (list pkt) :=
    match b with
    | [] => Ok []
    | _ =>
      match fuel with
      | O => OutOfFuel
      | S f =>
        match parse_one (parse_pkts f) b with
        | Ok (p, r) =>
          match parse_pkts f r with
          | Ok ps => Ok (p :: ps)
          | Reject => Reject
          | OutOfFuel => OutOfFuel
          end
        | Reject => Reject
        | OutOfFuel => OutOfFuel
        end
      end
    end.
  (* PGPMessage.from_blob on binary input *)
  Definition import_bytes (fuel : nat) (b : bytes) : pres msg :=
    match parse_pkts fuel b with
    | Ok ps => match import_pkts ps with Some m => Ok m | None => Reject end
    | Reject => Reject
    | OutOfFuel => OutOfFuel
    end.
End Prim.

(* ------------------------------------------------------------------ encodings other producers use *)
(* old-format header (tag < 16) with a 1 / 2 / 4 octet length, or indeterminate length (width 0, last packet only) *)
Definition frame_old (tag width : Z) (body : bytes) : option bytes :=
  match header_emit {| h_lenfmt := 0; h_tag := tag; h_llen := width;
                       h_len := Z.of_nat (length body) |} with
  | Some h => Some (h ++ body)
  | None => None
  end.
(* new-format header with partial body lengths: chunk i carries 2^k_i octets, the rest follows with a final length *)
Fixpoint split_chunks (ks : list Z) (body : bytes) : list (Z * bytes) * bytes :=
  match ks with
  | [] => ([], body)
  | k :: ks' =>
    let n := Z.to_nat (2 ^ k) in
    if (n <=? length body)%nat then
      let '(cs, last) := split_chunks ks' (skipn n body) in ((k, firstn n body) :: cs, last)
    else ([], body)
  end.
Fixpoint encode_chunks (cs : list (Z * bytes)) (last : bytes) : bytes :=
  match cs with
  | [] => new_length (Z.of_nat (length last)) ++ last
  | (k, d) :: cs' => (224 + k) :: d ++ encode_chunks cs' last
  end.
Definition frame_partial (tag : Z) (ks : list Z) (body : bytes) : bytes :=
  let '(cs, last) := split_chunks ks body in (192 + tag) :: encode_chunks cs last.
