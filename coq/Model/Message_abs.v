(* C20: the view of a model packet sequence in the vocabulary of Spec/Rfc4880_msg.v (no proofs here). *)
From Coq Require Import ZArith List Bool.
Import ListNotations.
Require Import PV.Lib.Bytes PV.Model.Message PV.Spec.Rfc4880_msg.
Open Scope Z_scope.

Fixpoint tok_of (p : pkt) : tok :=
  match p with
  | POps o => TOps (o_type o) (o_halg o) (o_pkalg o) (o_keyid o) (if o_flag o then 1 else 0)
  | PSig s => TSig (s_type s) (s_halg s) (s_pkalg s) (s_keyid s)
  | PLit _ => TLit
  | PComp _ inner => TComp (map tok_of inner)
  | PPkesk _ => TPkesk
  | PSkesk _ => TSkesk
  | PSed _ => TSed
  | PSeipd _ => TSeipd
  | PMarker _ => TOther 10
  | PMdc _ => TOther 19
  | POther t _ => TOther t
  end.
Definition toks (ps : list pkt) : list tok := map tok_of ps.

(* what the compression wrapper holds (one level), for the checks on the one-pass flags *)
Definition unwrap (ps : list pkt) : list pkt := match ps with [PComp _ inner] => inner | _ => ps end.
Definition in_grammar (ps : list pkt) : bool := is_message (toks ps).
Definition flags_ok (ps : list pkt) : bool := ops_flags_ok (toks (unwrap ps)).
(* the flag octets of the one-pass packets, in order *)
Definition ops_flags (ps : list pkt) : list bool :=
  flat_map (fun p => match p with POps o => [o_flag o] | _ => [] end) ps.
