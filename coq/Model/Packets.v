(* C08: packet body codecs of pgpy/packet/packets.py + fields.py as format terms (Model/Fmt.v).
   A whole packet (new-format header, body) is itself a self-delimiting format, so the generic theorem
   dec_enc gives "parses back, consuming exactly its own length, leaving following data untouched". *)
From Coq Require Import ZArith List Bool String.
Import ListNotations.
Require Import PV.Lib.Bytes PV.Model.Wire PV.Model.Fmt.
Open Scope Z_scope.

Fixpoint fseq (l : list fmt) (last : fmt) : fmt :=
  match l with [] => last | a :: r => FSeq a (fseq r last) end.

(* new-format packet: tag octet 0xC0|tag, length, body *)
Definition pkt (tag : Z) (body : fmt) : fmt := FSeq (FConst [192 + tag]) (FNewLen body).
Definition versioned (ver : Z) (body : fmt) : fmt := FSeq (FConst [ver]) body.

(* signature / user attribute subpacket: length (counts the type octet; the SUBPACKET length rule: a first octet 192..254
   opens a two-octet length, there is no partial form), type octet (critical bit included), body *)
Definition f_subpacket : fmt := FSubLen (FSeq (FBE 1) FRest).
Definition f_subarea : fmt := FLen 2 (FMany f_subpacket).

(* tag 1, v3: key id, pk algorithm, then algorithm-specific: RSA one MPI; ECDH MPI + one-octet-length wrapped key *)
Definition f_pkesk_rsa := pkt 1 (versioned 3 (fseq [FFixed 8; FConst [1]] FMPI)).
Definition f_pkesk_ecdh := pkt 1 (versioned 3 (fseq [FFixed 8; FConst [18]; FMPI] (FLen 1 FRest))).
(* tag 2, v4 *)
Definition f_sig_v4 := pkt 2 (versioned 4 (fseq [FBE 1; FBE 1; FBE 1; f_subarea; f_subarea; FFixed 2] FRest)).
(* tag 3, v4: cipher, S2K specifier (0 simple / 1 salted / 3 iterated), optional encrypted session key *)
Definition f_skesk_simple := pkt 3 (versioned 4 (fseq [FBE 1; FConst [0]; FBE 1] FRest)).
Definition f_skesk_salted := pkt 3 (versioned 4 (fseq [FBE 1; FConst [1]; FBE 1; FFixed 8] FRest)).
Definition f_skesk_iter := pkt 3 (versioned 4 (fseq [FBE 1; FConst [3]; FBE 1; FFixed 8; FBE 1] FRest)).
(* tag 4, v3: type, hash, pk alg, key id, last-flag *)
Definition f_ops_v3 := pkt 4 (versioned 3 (fseq [FBE 1; FBE 1; FBE 1; FFixed 8] (FBE 1))).
(* public keys (tag 6) and public subkeys (tag 14), v4: time, algorithm, material *)
Definition pub_rsa := fseq [FBE 4; FConst [1]; FMPI] FMPI.
Definition pub_dsa := fseq [FBE 4; FConst [17]; FMPI; FMPI; FMPI] FMPI.
Definition pub_elg := fseq [FBE 4; FConst [16]; FMPI; FMPI] FMPI.
Definition pub_ecdsa := fseq [FBE 4; FConst [19]; FLen 1 FRest] FMPI.
Definition pub_eddsa := fseq [FBE 4; FConst [22]; FLen 1 FRest] FMPI.
Definition pub_ecdh := fseq [FBE 4; FConst [18]; FLen 1 FRest; FMPI] (FLen 1 (fseq [FConst [1]; FBE 1] (FBE 1))).
Definition f_pubkey (tag : Z) (m : fmt) := pkt tag (versioned 4 m).
(* secret keys (tag 5) and secret subkeys (tag 7), v4: the public part, then S2K usage:
   0 = cleartext secret MPIs + two-octet checksum; 254 / 255 = cipher, S2K specifier, (hash, salt, count), IV + ciphertext
   (the IV length depends on the cipher, so IV and ciphertext together are the rest of the packet);
   GNU dummy (specifier 101): "GNU" marker and extension number *)
Definition sec_plain (pub : fmt) (nsecret : nat) : fmt :=
  FSeq pub (FSeq (FConst [0]) (fseq (repeat FMPI nsecret) (FFixed 2))).
Definition sec_s2k_iter (pub : fmt) (usage : Z) : fmt :=
  FSeq pub (fseq [FConst [usage]; FBE 1; FConst [3]; FBE 1; FFixed 8; FBE 1] FRest).
Definition sec_s2k_salted (pub : fmt) (usage : Z) : fmt :=
  FSeq pub (fseq [FConst [usage]; FBE 1; FConst [1]; FBE 1; FFixed 8] FRest).
Definition sec_s2k_simple (pub : fmt) (usage : Z) : fmt :=
  FSeq pub (fseq [FConst [usage]; FBE 1; FConst [0]; FBE 1] FRest).
Definition sec_gnu_dummy (pub : fmt) : fmt :=
  FSeq pub (fseq [FBE 1; FBE 1; FConst [101]; FBE 1; FConst [71; 78; 85]] FRest).
(* GNU smartcard stub (extension 2): the serial number follows behind a one-octet length, also when it is empty (repair 05bf06b) *)
Definition sec_gnu_card (pub : fmt) : fmt :=
  FSeq pub (fseq [FBE 1; FBE 1; FConst [101]; FBE 1; FConst [71; 78; 85]; FConst [2]] (FLen 1 FRest)).
Definition f_seckey (tag : Z) (m : fmt) := pkt tag (versioned 4 m).

(* tag 8: algorithm + compressed octets; tag 9 / 18: ciphertext; tag 10: "PGP"; tag 19: SHA-1 *)
Definition f_compressed := pkt 8 (FSeq (FBE 1) FRest).
Definition f_sed := pkt 9 FRest.
Definition f_marker := pkt 10 (FConst [80; 71; 80]).
(* tag 11: format, file name (one-octet length), time, data *)
Definition f_literal := pkt 11 (fseq [FBE 1; FLen 1 FRest; FBE 4] FRest).
Definition f_userid := pkt 13 FRest.
(* tag 17: user attribute subpackets: length, type, body *)
Definition f_uattr := pkt 17 (FMany f_subpacket).
Definition f_seipd := pkt 18 (versioned 1 FRest).
Definition f_mdc := pkt 19 (FFixed 20).
(* unknown tag: opaque payload *)
Definition f_opaque (tag : Z) := pkt tag FRest.

Definition named_formats : list (string * fmt) :=
  [("pkesk_rsa", f_pkesk_rsa); ("pkesk_ecdh", f_pkesk_ecdh); ("sig_v4", f_sig_v4);
   ("skesk_simple", f_skesk_simple); ("skesk_salted", f_skesk_salted); ("skesk_iter", f_skesk_iter);
   ("ops_v3", f_ops_v3);
   ("pub_rsa", f_pubkey 6 pub_rsa); ("pub_dsa", f_pubkey 6 pub_dsa); ("pub_elg", f_pubkey 6 pub_elg);
   ("pub_ecdsa", f_pubkey 6 pub_ecdsa); ("pub_eddsa", f_pubkey 6 pub_eddsa); ("pub_ecdh", f_pubkey 6 pub_ecdh);
   ("sub_rsa", f_pubkey 14 pub_rsa); ("sub_dsa", f_pubkey 14 pub_dsa); ("sub_elg", f_pubkey 14 pub_elg);
   ("sub_ecdsa", f_pubkey 14 pub_ecdsa); ("sub_eddsa", f_pubkey 14 pub_eddsa); ("sub_ecdh", f_pubkey 14 pub_ecdh);
   ("compressed", f_compressed); ("sed", f_sed); ("marker", f_marker); ("literal", f_literal); ("userid", f_userid);
   ("uattr", f_uattr); ("seipd", f_seipd); ("mdc", f_mdc);
   ("opaque20", f_opaque 20); ("opaque60", f_opaque 60); ("subarea", f_subarea);
   ("sec_rsa_plain", f_seckey 5 (sec_plain pub_rsa 4)); ("sec_dsa_plain", f_seckey 5 (sec_plain pub_dsa 1));
   ("sec_elg_plain", f_seckey 5 (sec_plain pub_elg 1)); ("sec_ecdsa_plain", f_seckey 5 (sec_plain pub_ecdsa 1));
   ("sec_eddsa_plain", f_seckey 5 (sec_plain pub_eddsa 1)); ("sec_ecdh_plain", f_seckey 5 (sec_plain pub_ecdh 1));
   ("ssb_rsa_plain", f_seckey 7 (sec_plain pub_rsa 4)); ("ssb_dsa_plain", f_seckey 7 (sec_plain pub_dsa 1));
   ("ssb_elg_plain", f_seckey 7 (sec_plain pub_elg 1)); ("ssb_ecdsa_plain", f_seckey 7 (sec_plain pub_ecdsa 1));
   ("ssb_eddsa_plain", f_seckey 7 (sec_plain pub_eddsa 1)); ("ssb_ecdh_plain", f_seckey 7 (sec_plain pub_ecdh 1));
   ("sec_rsa_254", f_seckey 5 (sec_s2k_iter pub_rsa 254)); ("sec_dsa_254", f_seckey 5 (sec_s2k_iter pub_dsa 254));
   ("sec_ecdsa_254", f_seckey 5 (sec_s2k_iter pub_ecdsa 254)); ("sec_eddsa_254", f_seckey 5 (sec_s2k_iter pub_eddsa 254));
   ("sec_ecdh_254", f_seckey 5 (sec_s2k_iter pub_ecdh 254));
   ("ssb_rsa_254", f_seckey 7 (sec_s2k_iter pub_rsa 254)); ("ssb_dsa_254", f_seckey 7 (sec_s2k_iter pub_dsa 254));
   ("ssb_ecdsa_254", f_seckey 7 (sec_s2k_iter pub_ecdsa 254)); ("ssb_eddsa_254", f_seckey 7 (sec_s2k_iter pub_eddsa 254));
   ("ssb_ecdh_254", f_seckey 7 (sec_s2k_iter pub_ecdh 254)); ("ssb_elg_254", f_seckey 7 (sec_s2k_iter pub_elg 254));
   ("sec_rsa_255", f_seckey 5 (sec_s2k_iter pub_rsa 255)); ("sec_eddsa_255", f_seckey 5 (sec_s2k_iter pub_eddsa 255));
   ("ssb_rsa_255", f_seckey 7 (sec_s2k_iter pub_rsa 255)); ("ssb_ecdh_255", f_seckey 7 (sec_s2k_iter pub_ecdh 255));
   ("sec_rsa_254_salted", f_seckey 5 (sec_s2k_salted pub_rsa 254)); ("sec_rsa_254_simple", f_seckey 5 (sec_s2k_simple pub_rsa 254));
   ("sec_rsa_gnu", f_seckey 5 (sec_gnu_dummy pub_rsa)); ("ssb_rsa_gnu", f_seckey 7 (sec_gnu_dummy pub_rsa));
   (* forms that round-trip since the repairs 7c47922 (DSA / ElGamal usage 255), 05bf06b (smartcard stub), 471db4e (trust packet of any length) *)
   ("sec_dsa_255", f_seckey 5 (sec_s2k_iter pub_dsa 255)); ("ssb_dsa_255", f_seckey 7 (sec_s2k_iter pub_dsa 255));
   ("ssb_elg_255", f_seckey 7 (sec_s2k_iter pub_elg 255)); ("sec_dsa_255_salted", f_seckey 5 (sec_s2k_salted pub_dsa 255));
   ("sec_rsa_card", f_seckey 5 (sec_gnu_card pub_rsa)); ("ssb_rsa_card", f_seckey 7 (sec_gnu_card pub_rsa));
   ("sec_eddsa_card", f_seckey 5 (sec_gnu_card pub_eddsa)); ("ssb_ecdh_card", f_seckey 7 (sec_gnu_card pub_ecdh));
   ("trust", f_opaque 12)]%string.

Definition all_formats : list fmt := map snd named_formats.

Fixpoint lookup_fmt (n : string) (l : list (string * fmt)) : option fmt :=
  match l with [] => None | (k, f) :: r => if String.eqb n k then Some f else lookup_fmt n r end.

(* decode with the fuel the theorem says is sufficient *)
Definition dec_full (f : fmt) (i : bytes) : option (value * bytes) := dec (S (S (depth f + List.length i))) f i.
