(* C16 -- executable model of the key-usage policy of PGPy as it is in /repo NOW:
   pgpy/decorators.py KeyAction (__call__, usage, check_attributes), pgpy/pgp.py PGPKey._get_key_flags (with the F7 repair:
   a subkey's flags come from the NEWEST binding signature), PGPUID.selfsig (with repair 812bc0f: the newest self-CERTIFICATION, types
   0x10-0x13; a certification revocation or attestation by the key is skipped), PGPSignature.key_flags (with repair df70557: the KeyFlags
   subpacket of the HASHED area, the empty set when there is none - an unhashed one grants nothing), PGPKey.is_public / is_protected / is_unlocked, the decorator
   arguments of sign / certify / revoke / revoker / bind / encrypt / decrypt, and the routing at the top of PGPKey.decrypt.
   No proofs in this file (Proofs/Policy_lemmas.v), statements in Props/C16.v.

   KeyFlags are a bit set in Z (Certify 1, Sign 2, EncryptCommunications 4, EncryptStorage 8, Split 16, Authentication 32,
   MultiPerson 128): `self.flags & set(flags)` is non-empty iff Z.land is non-zero. *)
From Coq Require Import ZArith List Bool.
Import ListNotations.
Open Scope Z_scope.

Definition CERTIFY : Z := 1.
Definition SIGN : Z := 2.
Definition ENCRYPT : Z := 12.        (* EncryptCommunications | EncryptStorage *)

(* a signature as far as the policy looks at it.
   s_flags: the flags of its hashed KeyFlags subpacket (0 when the hashed area has none);
   s_qual:
   on a user id   -- issued by the key itself (PGPUID.selfsig: signer_fingerprint / signer equals the parent's),
   on a subkey    -- a non-expired Subkey_Binding issued by the parent (PGPKey.self_signatures);
   s_cert: its type is a certification (Generic / Persona / Casual / Positive_Cert) -- looked at on user ids only. *)
Record sigr := { s_created : Z; s_flags : Z; s_qual : bool; s_cert : bool }.
(* user id: the strings get_uid compares against (name, comment, e-mail that are not None), its signatures in stored order *)
Record uidr := { u_ids : list Z; u_sigs : list sigr }.

(* next(reversed(...)) / `for sig in reversed(self._signatures)`: the LAST qualifying signature in stored order
   (SorteDeque keeps _signatures ordered by creation time, later insertions after equal ones) *)
Definition newest (l : list sigr) : option sigr := find s_qual (rev l).
(* the pre-480b116 code took next(self.self_signatures): the FIRST one (kept for the refutation only) *)
Definition oldest (l : list sigr) : option sigr := find s_qual l.
(* PGPUID.selfsig: `for sig in reversed(self._signatures)`, skipping what is not a certification, the first one issued by the key.
   Before repair 812bc0f there was no type test: that rule is `newest` (kept for the refutation only) *)
Definition newest_cert (l : list sigr) : option sigr := find (fun s => s_cert s && s_qual s) (rev l).

Inductive crash :=
  | CrashUser          (* user= names no user id: get_uid gives None, None.selfsig -> AttributeError *)
  | CrashNoBinding.    (* subkey without usable binding signature: StopIteration inside the generator -> RuntimeError *)
Inductive fres := FOk (f : Z) | FCrash (c : crash).

(* `user.selfsig.key_flags if user.selfsig else set()`; upick = the selfsig rule *)
Definition selfsig_flags_with (upick : list sigr -> option sigr) (u : uidr) : Z :=
  match upick (u_sigs u) with Some s => s_flags s | None => 0 end.
Definition selfsig_flags := selfsig_flags_with newest_cert.
Definition selfsig_flags_old := selfsig_flags_with newest.
Definition get_uid (uids : list uidr) (s : Z) : option uidr := find (fun u => existsb (Z.eqb s) (u_ids u)) uids.

(* _get_key_flags on a primary key *)
Definition flags_primary_with (upick : list sigr -> option sigr) (uids : list uidr) (user : option Z) : fres :=
  match user with
  | Some s => match get_uid uids s with
              | None => FCrash CrashUser
              | Some u => FOk (Z.lor CERTIFY (selfsig_flags_with upick u)) end
  | None => match uids with
            | [] => FOk CERTIFY
            | u :: _ => FOk (Z.lor CERTIFY (selfsig_flags_with upick u)) end
  end.
Definition flags_primary := flags_primary_with newest_cert.
(* _get_key_flags on a subkey (the user argument is ignored there) *)
Definition flags_sub_with (pick : list sigr -> option sigr) (sigs : list sigr) : fres :=
  match pick sigs with Some s => FOk (s_flags s) | None => FCrash CrashNoBinding end.
Definition flags_sub := flags_sub_with newest.

(* the key object an operation is invoked on *)
Record pkey := {
  k_present : bool;              (* key._key is not None *)
  k_primary : bool;              (* is_primary; a subkey object can be the receiver too (decrypt delegates to it) *)
  k_uids : list uidr;            (* key._uids *)
  k_bind : list sigr;            (* its own binding signatures when it is a subkey *)
  k_subs : list (list sigr);     (* key.subkeys.values(), insertion order: the signatures of each *)
  k_public : bool; k_protected : bool; k_unl : bool;     (* packet class, keymaterial.s2k set, secret material present *)
  k_enforce : bool }.            (* key._require_usage_flags *)

Definition is_public (k : pkey) : bool := k_public k.
Definition is_protected (k : pkey) : bool := if is_public k then false else k_protected k.
Definition is_unlocked (k : pkey) : bool := if is_public k then true else if negb (is_protected k) then true else k_unl k.

(* flags of the receiver (component 0) and of its subkeys (components 1..n), in the order usage() visits them *)
(* upick = the selfsig rule on user ids, pick = the binding-signature rule on subkeys *)
Definition comp_flags_with (upick pick : list sigr -> option sigr) (k : pkey) (user : option Z) : list fres :=
  (if k_primary k then flags_primary_with upick (k_uids k) user else flags_sub_with pick (k_bind k)) :: map (flags_sub_with pick) (k_subs k).
Definition comp_flags := comp_flags_with newest_cert newest.

(* the for ... else of KeyAction.usage.  idx = index of the head of l, last = index of the component visited before it
   (what the loop variable _key still holds when the loop runs out) *)
Inductive scanres := Found (idx : nat) | Exhausted (last : nat) | ScanCrash (c : crash).
Fixpoint scan (req : Z) (l : list fres) (idx last : nat) : scanres :=
  match l with
  | [] => Exhausted last
  | FCrash c :: _ => ScanCrash c
  | FOk f :: r => if Z.land req f =? 0 then scan req r (S idx) idx else Found idx
  end.

Inductive attr := IsUnlocked | IsPublic.
Inductive oper := OSign | OCertify | ORevoke | ORevoker | OBind | OEncrypt | ODecrypt.
(* @KeyAction(flags..., conditions...) as written above each method *)
Definition op_flags (o : oper) : Z :=
  match o with OSign => SIGN | OCertify => CERTIFY | ORevoke => CERTIFY | OEncrypt => ENCRYPT | ORevoker | OBind | ODecrypt => 0 end.
Definition op_conds (o : oper) : list (attr * bool) :=
  match o with OEncrypt => [(IsPublic, true)] | _ => [(IsUnlocked, true); (IsPublic, false)] end.
Definition is_certify (o : oper) : bool := match o with OCertify => true | _ => false end.

Definition attr_val (k : pkey) (a : attr) : bool := match a with IsUnlocked => is_unlocked k | IsPublic => is_public k end.
(* check_attributes(key) -- on the receiver, not on the chosen component: the first violated condition *)
Definition check_attributes (k : pkey) (o : oper) : option attr :=
  option_map fst (find (fun c => negb (Bool.eqb (attr_val k (fst c)) (snd c))) (op_conds o)).

Inductive used := Chosen (idx : nat) (warned : bool) | Refused | Crashed (c : crash).
Definition usage_with (upick pick : list sigr -> option sigr) (k : pkey) (o : oper) (user : option Z) : used :=
  if op_flags o =? 0 then Chosen 0 false
  else match scan (op_flags o) (comp_flags_with upick pick k user) 0 0 with
       | Found i => Chosen i false
       | Exhausted last => if k_enforce k then Refused else Chosen last true
       | ScanCrash c => Crashed c
       end.
Definition usage := usage_with newest_cert newest.

Inductive outcome :=
  | NoKey | Incomplete | NoUsage | BadAttr (a : attr)     (* the four PGPError refusals *)
  | Crash (c : crash)
  | Run (idx : nat) (warned : bool).                     (* the undecorated method runs on component idx *)

(* KeyAction.__call__ *)
Definition perform_with (upick pick : list sigr -> option sigr) (k : pkey) (o : oper) (user : option Z) : outcome :=
  if negb (k_present k) then NoKey
  else if (length (k_uids k) =? 0)%nat && k_primary k && negb (is_certify o) then Incomplete
  else match usage_with upick pick k o user with
       | Crashed c => Crash c
       | Refused => NoUsage
       | Chosen i w => match check_attributes k o with Some a => BadAttr a | None => Run i w end
       end.
Definition perform := perform_with newest_cert newest.
(* before repair 480b116 (F7): the oldest binding signature of a subkey *)
Definition perform_prefix := perform_with newest_cert oldest.
(* before repair 812bc0f: the newest signature of any type by the key as the self-signature of a user id *)
Definition perform_old_selfsig := perform_with newest newest.

(* the top of PGPKey.decrypt: own key id among the recipients -> decrypt here; else the subkeys that are addressed
   (the code takes list(set & set)[0], i.e. one of them); else refuse *)
Inductive route := RouteOwn | RouteSub (candidates : list Z) | RouteCannot.
Definition decrypt_route (own : Z) (subs : list Z) (encrypters : list Z) : route :=
  if existsb (Z.eqb own) encrypters then RouteOwn
  else match filter (fun s => existsb (Z.eqb s) encrypters) subs with
       | [] => RouteCannot
       | c => RouteSub c
       end.
