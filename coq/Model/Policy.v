(* C16 -- executable model of the key-usage policy of PGPy as it is in /repo NOW:
   pgpy/decorators.py KeyAction (__call__, usage, check_attributes), pgpy/pgp.py PGPKey._get_key_flags, PGPKey.is_public / is_protected /
   is_unlocked, PGPKey.get_uid, PGPUID.selfsig, PGPSignature.key_flags, the decorator arguments of sign / certify / revoke / revoker /
   bind / encrypt / decrypt, and the routing at the top of PGPKey.decrypt.
   No proofs in this file (Proofs/Policy_lemmas.v), statements in Props/C16.v.

   Repairs the model follows (each earlier rule is kept as a field value of `rules` for the refutations):
     480b116 (F7)  a subkey's flags come from the NEWEST binding signature in effect                      r_pick
     812bc0f       PGPUID.selfsig = the newest self-CERTIFICATION (0x10-0x13 issued by the key)             r_upick
     df70557       PGPSignature.key_flags = the KeyFlags subpacket of the HASHED area, else the empty set  (s_flags)
     a0cb78f       a subkey without binding signature in effect has the empty flag set (was: StopIteration  r_nobind
                   in a generator -> RuntimeError); an unknown user= is refused with PGPError before the
                   scan (was: None.selfsig -> AttributeError)                                               r_usercheck
     1d6dbd1       default identity = the first user id, or the first user attribute when there is none     r_uafallback
     cab6d36       check_attributes (is_unlocked / is_public) on the component usage() SELECTED, not on      r_onchosen
                   the receiver: every component has its own public / protected / unlocked state

   KeyFlags are a bit set in Z (Certify 1, Sign 2, EncryptCommunications 4, EncryptStorage 8, Split 16, Authentication 32,
   MultiPerson 128): `self.flags & set(flags)` is non-empty iff Z.land is non-zero. *)
From Coq Require Import ZArith List Bool.
Import ListNotations.
Open Scope Z_scope.

Definition CERTIFY : Z := 1.
Definition SIGN : Z := 2.
Definition ENCRYPT : Z := 12.        (* EncryptCommunications | EncryptStorage *)

(* a signature as far as the policy looks at it.
   s_flags: the flags of its hashed KeyFlags subpacket (0 when the hashed area has none);
   s_qual:
   on a user id   -- issued by the key itself (PGPUID.selfsig: signer_fingerprint / signer equals the parent's),
   on a subkey    -- a non-expired Subkey_Binding issued by the parent (PGPKey.self_signatures);
   s_cert: its type is a certification (Generic / Persona / Casual / Positive_Cert) -- looked at on user ids only. *)
Record sigr := { s_created : Z; s_flags : Z; s_qual : bool; s_cert : bool }.
(* an entry of PGPKey._uids: u_text = it is a UserID (false: a UserAttribute); u_ids = the strings get_uid compares against
   (name, comment, e-mail that are not None); its signatures in stored order *)
Record uidr := { u_text : bool; u_ids : list Z; u_sigs : list sigr }.

(* next(reversed(...)) / `for sig in reversed(self._signatures)`: the LAST qualifying signature in stored order
   (SorteDeque keeps _signatures ordered by creation time, later insertions after equal ones) *)
Definition newest (l : list sigr) : option sigr := find s_qual (rev l).
(* the pre-480b116 code took next(self.self_signatures): the FIRST one (kept for the refutation only) *)
Definition oldest (l : list sigr) : option sigr := find s_qual l.
(* PGPUID.selfsig: `for sig in reversed(self._signatures)`, skipping what is not a certification, the first one issued by the key.
   Before repair 812bc0f there was no type test: that rule is `newest` (kept for the refutation only) *)
Definition newest_cert (l : list sigr) : option sigr := find (fun s => s_cert s && s_qual s) (rev l).

Inductive crash :=
  | CrashUser          (* before a0cb78f: user= names no user id: get_uid gives None, None.selfsig -> AttributeError *)
  | CrashNoBinding     (* before a0cb78f: subkey without usable binding signature: StopIteration inside the generator -> RuntimeError *)
  | CrashNoUserId.     (* before 1d6dbd1: only user attributes: next(iter(self.userids)) -> StopIteration -> RuntimeError *)
Inductive fres := FOk (f : Z) | FCrash (c : crash).

(* the rules of the code; `rules_now` below is /repo as it is, the others differ from it in one field *)
Record rules := {
  r_upick : list sigr -> option sigr;       (* PGPUID.selfsig *)
  r_pick : list sigr -> option sigr;        (* the binding signature _get_key_flags reads on a subkey *)
  r_nobind : fres;                          (* _get_key_flags of a subkey without binding signature in effect *)
  r_usercheck : bool;                       (* KeyAction refuses an unknown user= before usage() *)
  r_uafallback : bool;                      (* `self.userids or self._uids` *)
  r_onchosen : bool }.                      (* check_attributes(_key) (true) / check_attributes(key) (false) *)

(* `user.selfsig.key_flags if user.selfsig else set()` *)
Definition selfsig_flags_with (upick : list sigr -> option sigr) (u : uidr) : Z :=
  match upick (u_sigs u) with Some s => s_flags s | None => 0 end.
Definition selfsig_flags := selfsig_flags_with newest_cert.
Definition selfsig_flags_old := selfsig_flags_with newest.
(* PGPKey.get_uid: the first entry of _uids one of whose fields EQUALS the search string *)
Definition get_uid (uids : list uidr) (s : Z) : option uidr := find (fun u => existsb (Z.eqb s) (u_ids u)) uids.
(* next(iter(self.userids or self._uids)) for a non-empty _uids; without the fallback next(iter(self.userids)) *)
Definition default_uid (fallback : bool) (uids : list uidr) : option uidr :=
  match filter u_text uids with
  | u :: _ => Some u
  | [] => if fallback then hd_error uids else None
  end.

(* _get_key_flags on a primary key *)
Definition flags_primary_with (r : rules) (uids : list uidr) (user : option Z) : fres :=
  match user with
  | Some s => match get_uid uids s with
              | None => FCrash CrashUser
              | Some u => FOk (Z.lor CERTIFY (selfsig_flags_with (r_upick r) u)) end
  | None => match uids with
            | [] => FOk CERTIFY
            | _ :: _ => match default_uid (r_uafallback r) uids with
                        | Some u => FOk (Z.lor CERTIFY (selfsig_flags_with (r_upick r) u))
                        | None => FCrash CrashNoUserId end
            end
  end.
(* _get_key_flags on a subkey (the user argument is ignored there) *)
Definition flags_sub_with (r : rules) (sigs : list sigr) : fres :=
  match r_pick r sigs with Some s => FOk (s_flags s) | None => r_nobind r end.

(* what is_public / is_protected / is_unlocked of ONE key object (the receiver or a subkey) depend on:
   packet class, keymaterial.s2k set, secret material present *)
Record cattr := { a_public : bool; a_protected : bool; a_unl : bool }.
Definition is_public (a : cattr) : bool := a_public a.
Definition is_protected (a : cattr) : bool := if is_public a then false else a_protected a.
Definition is_unlocked (a : cattr) : bool := if is_public a then true else if negb (is_protected a) then true else a_unl a.

Record subr := { sb_sigs : list sigr; sb_attr : cattr }.
(* the key object an operation is invoked on *)
Record pkey := {
  k_present : bool;              (* key._key is not None *)
  k_primary : bool;              (* is_primary; a subkey object can be the receiver too (decrypt delegates to it) *)
  k_uids : list uidr;            (* key._uids (for a subkey receiver: what get_uid searches, its parent's _uids) *)
  k_bind : list sigr;            (* its own binding signatures when it is a subkey *)
  k_subs : list subr;            (* key.subkeys.values(), insertion order: the signatures and the lock state of each *)
  k_attr : cattr;                (* the lock state of the receiver *)
  k_enforce : bool }.            (* key._require_usage_flags *)

Definition rules_now : rules :=
  {| r_upick := newest_cert; r_pick := newest; r_nobind := FOk 0; r_usercheck := true; r_uafallback := true; r_onchosen := true |}.
Definition flags_primary := flags_primary_with rules_now.
Definition flags_sub := flags_sub_with rules_now.

(* flags of the receiver (component 0) and of its subkeys (components 1..n), in the order usage() visits them *)
Definition comp_flags_with (r : rules) (k : pkey) (user : option Z) : list fres :=
  (if k_primary k then flags_primary_with r (k_uids k) user else flags_sub_with r (k_bind k))
  :: map (fun s => flags_sub_with r (sb_sigs s)) (k_subs k).
Definition comp_flags := comp_flags_with rules_now.
(* the lock states in the same order; comp_attr k i = that of component i *)
Definition comp_attrs (k : pkey) : list cattr := k_attr k :: map sb_attr (k_subs k).
Definition comp_attr (k : pkey) (i : nat) : cattr := nth i (comp_attrs k) (k_attr k).

(* the for ... else of KeyAction.usage.  idx = index of the head of l, last = index of the component visited before it
   (what the loop variable _key still holds when the loop runs out) *)
Inductive scanres := Found (idx : nat) | Exhausted (last : nat) | ScanCrash (c : crash).
Fixpoint scan (req : Z) (l : list fres) (idx last : nat) : scanres :=
  match l with
  | [] => Exhausted last
  | FCrash c :: _ => ScanCrash c
  | FOk f :: r => if Z.land req f =? 0 then scan req r (S idx) idx else Found idx
  end.

Inductive attr := IsUnlocked | IsPublic.
Inductive oper := OSign | OCertify | ORevoke | ORevoker | OBind | OEncrypt | ODecrypt.
(* @KeyAction(flags..., conditions...) as written above each method *)
Definition op_flags (o : oper) : Z :=
  match o with OSign => SIGN | OCertify => CERTIFY | ORevoke => CERTIFY | OEncrypt => ENCRYPT | ORevoker | OBind | ODecrypt => 0 end.
Definition op_conds (o : oper) : list (attr * bool) :=
  match o with OEncrypt => [(IsPublic, true)] | _ => [(IsUnlocked, true); (IsPublic, false)] end.
Definition is_certify (o : oper) : bool := match o with OCertify => true | _ => false end.

Definition attr_val (a : cattr) (x : attr) : bool := match x with IsUnlocked => is_unlocked a | IsPublic => is_public a end.
(* check_attributes(_key) on one key object: the first violated condition *)
Definition check_attributes (a : cattr) (o : oper) : option attr :=
  option_map fst (find (fun c => negb (Bool.eqb (attr_val a (fst c)) (snd c))) (op_conds o)).

Inductive used := Chosen (idx : nat) (warned : bool) | Refused | Crashed (c : crash).
Definition usage_with (r : rules) (k : pkey) (o : oper) (user : option Z) : used :=
  if op_flags o =? 0 then Chosen 0 false
  else match scan (op_flags o) (comp_flags_with r k user) 0 0 with
       | Found i => Chosen i false
       | Exhausted last => if k_enforce k then Refused else Chosen last true
       | ScanCrash c => Crashed c
       end.
Definition usage := usage_with rules_now.

Inductive outcome :=
  | NoKey | Incomplete | NoUser | NoUsage | BadAttr (a : attr)     (* the five PGPError refusals *)
  | Crash (c : crash)                                              (* an exception that is not PGPError (none under rules_now) *)
  | Run (idx : nat) (warned : bool).                               (* the undecorated method runs on component idx *)

(* `user is not None and key.get_uid(user) is None` *)
Definition user_unknown (k : pkey) (user : option Z) : bool :=
  match user with
  | Some s => match get_uid (k_uids k) s with None => true | Some _ => false end
  | None => false
  end.

(* KeyAction.__call__ *)
Definition perform_with (r : rules) (k : pkey) (o : oper) (user : option Z) : outcome :=
  if negb (k_present k) then NoKey
  else if (length (k_uids k) =? 0)%nat && k_primary k && negb (is_certify o) then Incomplete
  else if r_usercheck r && user_unknown k user then NoUser
  else match usage_with r k o user with
       | Crashed c => Crash c
       | Refused => NoUsage
       | Chosen i w => match check_attributes (if r_onchosen r then comp_attr k i else k_attr k) o with
                       | Some a => BadAttr a
                       | None => Run i w
                       end
       end.
Definition perform := perform_with rules_now.

(* the earlier rules, each differing from rules_now in what one repair changed *)
Definition with_pick (r : rules) (p : list sigr -> option sigr) : rules :=
  {| r_upick := r_upick r; r_pick := p; r_nobind := r_nobind r; r_usercheck := r_usercheck r; r_uafallback := r_uafallback r; r_onchosen := r_onchosen r |}.
Definition with_upick (r : rules) (p : list sigr -> option sigr) : rules :=
  {| r_upick := p; r_pick := r_pick r; r_nobind := r_nobind r; r_usercheck := r_usercheck r; r_uafallback := r_uafallback r; r_onchosen := r_onchosen r |}.
(* before repair 480b116 (F7): the oldest binding signature of a subkey *)
Definition perform_prefix := perform_with (with_pick rules_now oldest).
(* before repair 812bc0f: the newest signature of any type by the key as the self-signature of a user id *)
Definition perform_old_selfsig := perform_with (with_upick rules_now newest).
(* before repair a0cb78f: no check of user=, a subkey without binding signature raises *)
Definition rules_old_crash : rules :=
  {| r_upick := newest_cert; r_pick := newest; r_nobind := FCrash CrashNoBinding; r_usercheck := false; r_uafallback := true; r_onchosen := true |}.
Definition perform_old_crash := perform_with rules_old_crash.
(* before repair 1d6dbd1: the default identity is the first USER ID *)
Definition rules_old_identity : rules :=
  {| r_upick := newest_cert; r_pick := newest; r_nobind := FOk 0; r_usercheck := true; r_uafallback := false; r_onchosen := true |}.
Definition perform_old_identity := perform_with rules_old_identity.
(* before repair cab6d36: the conditions are checked on the receiver *)
Definition rules_old_lockcheck : rules :=
  {| r_upick := newest_cert; r_pick := newest; r_nobind := FOk 0; r_usercheck := true; r_uafallback := true; r_onchosen := false |}.
Definition perform_old_lockcheck := perform_with rules_old_lockcheck.

(* the top of PGPKey.decrypt: own key id among the recipients -> decrypt here; else the subkeys that are addressed
   (the code takes list(set & set)[0], i.e. one of them); else refuse *)
Inductive route := RouteOwn | RouteSub (candidates : list Z) | RouteCannot.
Definition decrypt_route (own : Z) (subs : list Z) (encrypters : list Z) : route :=
  if existsb (Z.eqb own) encrypters then RouteOwn
  else match filter (fun s => existsb (Z.eqb s) encrypters) subs with
       | [] => RouteCannot
       | c => RouteSub c
       end.
