(* C07: the public twin of a transferable key and its export, and the precondition table of private operations.
   pgpy/pgp.py        PGPKey.pubkey (getter), PGPKey.__bytearray__, PGPKey.__or__, is_public / is_unlocked
   pgpy/packet/packets.py PrivKeyV4.pubkey (Model/KeyPackets.v pubkey_pkt: partial since repair 3c1c8c6)
   pgpy/decorators.py KeyAction.__call__ / usage / check_attributes
   User-id, user-attribute and signature packets are carried as (header format, tag, body octets): their
   contents are public data whose codecs belong to C05/C08; what matters here is which of them are emitted.
   _signatures / _uids are SorteDeques; copying them element by element with insort keeps their order, so
   they are lists here.  No proofs in this file. *)
From Coq Require Import ZArith List Bool.
Import ListNotations.
Require Import PV.Lib.Bytes PV.Model.Wire PV.Model.KeyPackets.
Open Scope Z_scope.

(* ---------- packets with their stored header format ---------- *)
Record pkt := { p_fmt : Z (* 1 new / 0 old *); p_llen : Z (* stored old-format width *); p_tag : Z; p_body : bytes }.

(* Packet.__bytearray__ after update_hlen(): header for the body length, then the body.  None = KeyError in the header *)
Definition pkt_emit (p : pkt) : option bytes :=
  match header_emit {| h_lenfmt := p_fmt p; h_tag := p_tag p; h_llen := p_llen p; h_len := Z.of_nat (length (p_body p)) |} with
  | Some h => Some (h ++ p_body p)
  | None => None
  end.

Fixpoint emit_all (l : list pkt) : option bytes :=
  match l with
  | [] => Some []
  | p :: r =>
    match pkt_emit p, emit_all r with
    | Some a, Some b => Some (a ++ b)
    | _, _ => None
    end
  end.

(* ---------- the transferable key ---------- *)
Record sigm := { sg_pkt : pkt; sg_exportable : bool; sg_embedded : bool }.
Record uidm := { u_pkt : pkt (* tag 13 or 17 *); u_sigs : list sigm }.
Record keym := { km_fmt : Z; km_llen : Z; km_key : keypkt }.
Record subm := { sb_key : keym; sb_sigs : list sigm }.
Record tkey := { t_key : keym; t_sigs : list sigm; t_uids : list uidm; t_subs : list subm }.

Definition key_pkt (k : keym) : pkt :=
  {| p_fmt := km_fmt k; p_llen := km_llen k; p_tag := key_tag (km_key k); p_body := key_body (km_key k) |}.

(* PGPKey.__bytearray__: key packet; own signatures that are not embedded and exportable; each user id followed by
   its exportable signatures; each subkey (same method: packet, then its own non-embedded exportable signatures) *)
Definition direct_sigs (l : list sigm) : list pkt :=
  map sg_pkt (filter (fun s => negb (sg_embedded s) && sg_exportable s) l).
Definition uid_sigs (l : list sigm) : list pkt := map sg_pkt (filter sg_exportable l).
Definition uid_pkts (u : uidm) : list pkt := u_pkt u :: uid_sigs (u_sigs u).
Definition sub_pkts (s : subm) : list pkt := key_pkt (sb_key s) :: direct_sigs (sb_sigs s).
Definition export_pkts (t : tkey) : list pkt :=
  key_pkt (t_key t) :: direct_sigs (t_sigs t) ++ flat_map uid_pkts (t_uids t) ++ flat_map sub_pkts (t_subs t).
Definition export (t : tkey) : option bytes := emit_all (export_pkts t).

(* ---------- PGPKey.pubkey ---------- *)
Definition keym_private (k : keym) : bool := is_private (km_key k).
(* PrivKeyV4.pubkey(): a FRESH PubKeyV4 / PubSubKeyV4 (new-format header) holding the public fields only;
   None = it raises NotImplementedError (opaque private material, repair 3c1c8c6; Model/KeyPackets.v pubkey_pkt) *)
Definition pub_keym (k : keym) : option keym :=
  if keym_private k
  then match pubkey_pkt (km_key k) with
       | Some p => Some {| km_fmt := 1; km_llen := 1; km_key := p |}
       | None => None
       end
  else Some k.
(* `pub |= subkey.pubkey`: the subkey's own twin - its packet and copies of its signatures *)
Definition pub_sub (s : subm) : option subm :=
  match pub_keym (sb_key s) with
  | Some k => Some {| sb_key := k; sb_sigs := sb_sigs s |}
  | None => None
  end.
(* the loop over the subkeys: the first refusal propagates out of the getter *)
Fixpoint pub_subs (l : list subm) : option (list subm) :=
  match l with
  | [] => Some []
  | s :: r =>
    match pub_sub s, pub_subs r with
    | Some s', Some r' => Some (s' :: r')
    | _, _ => None
    end
  end.
(* if self.is_public: return self; else key packet, subkeys, copies of user ids (with their signatures) and signatures.
   None = the getter raises: an opaque private primary or subkey packet has no public half, so the key has no twin *)
Definition pubkey_of (t : tkey) : option tkey :=
  if keym_private (t_key t)
  then match pub_keym (t_key t), pub_subs (t_subs t) with
       | Some k, Some subs => Some {| t_key := k; t_sigs := t_sigs t; t_uids := t_uids t; t_subs := subs |}
       | _, _ => None
       end
  else Some t.
(* octets of the public export: None = no twin; Some None = KeyError in a packet header *)
Definition pub_export (t : tkey) : option (option bytes) :=
  match pubkey_of t with Some p => Some (export p) | None => None end.

(* the code before repair 3c1c8c6 (kept for the refutation theorem): a total function, opaque material emptied *)
Definition pub_keym_old (k : keym) : keym :=
  if keym_private k then {| km_fmt := 1; km_llen := 1; km_key := pubkey_pkt_old (km_key k) |} else k.
Definition pub_sub_old (s : subm) : subm := {| sb_key := pub_keym_old (sb_key s); sb_sigs := sb_sigs s |}.
Definition pubkey_of_old (t : tkey) : tkey :=
  if keym_private (t_key t)
  then {| t_key := pub_keym_old (t_key t); t_sigs := t_sigs t; t_uids := t_uids t; t_subs := map pub_sub_old (t_subs t) |}
  else t.

Definition keys_of (t : tkey) : list keypkt := km_key (t_key t) :: map (fun s => km_key (sb_key s)) (t_subs t).

(* __or__ only attaches subkeys whose is_public equals the parent's *)
Definition all_private (t : tkey) : Prop :=
  keym_private (t_key t) = true /\ Forall (fun s => keym_private (sb_key s) = true) (t_subs t).

(* same public content; secret parts, S2K state, lock state and the header format of the secret packets are free *)
Definition same_public_keym (k k' : keym) : Prop := same_public_pkt (km_key k) (km_key k').
Definition same_public (t t' : tkey) : Prop :=
  same_public_keym (t_key t) (t_key t') /\ t_sigs t = t_sigs t' /\ t_uids t = t_uids t' /\
  Forall2 (fun s s' => same_public_keym (sb_key s) (sb_key s') /\ sb_sigs s = sb_sigs s') (t_subs t) (t_subs t').

(* ---------- well-formedness ---------- *)
Definition wf_pkt (p : pkt) : Prop :=
  Z.of_nat (length (p_body p)) < 4294967296 /\
  ((p_fmt p = 1 /\ 0 <= p_tag p < 64) \/
   (p_fmt p = 0 /\ 0 <= p_tag p < 16 /\ (p_llen p = 1 \/ p_llen p = 2 \/ p_llen p = 4))).
Definition wf_sig (s : sigm) : Prop := wf_pkt (sg_pkt s) /\ p_tag (sg_pkt s) = 2.
Definition wf_uid (u : uidm) : Prop :=
  wf_pkt (u_pkt u) /\ (p_tag (u_pkt u) = 13 \/ p_tag (u_pkt u) = 17) /\ Forall wf_sig (u_sigs u).
Definition wf_tkey (t : tkey) : Prop :=
  Forall wf_pub (keys_of t) /\ k_sub (km_key (t_key t)) = false /\
  Forall (fun s => k_sub (km_key (sb_key s)) = true /\ Forall wf_sig (sb_sigs s)) (t_subs t) /\
  Forall wf_sig (t_sigs t) /\ Forall wf_uid (t_uids t).

Definition view (p : pkt) : Z * bytes := (p_tag p, p_body p).
Definition public_tags : list Z := [6; 14; 13; 17; 2].

(* ---------- KeyAction: preconditions of the key operations ---------- *)
Inductive action := ASign | ACertify | ARevoke | ARevoker | ABind | ADecrypt | AEncrypt.
Inductive attr := IsUnlocked | IsPublic.
Inductive outcome := Run | ErrNoKey | ErrIncomplete | ErrUsage | ErrAttr (a : attr).

(* what the decorator looks at.  haskey / nuids / primary belong to the key the method was called on; since repair
   cab6d36 the attributes is_public / protected / unlocked are read from the component usage() SELECTS for the work
   (`self.check_attributes(_key)`): the key itself when it carries one of the required flags or the action names none,
   else the first subkey that does.  Every component of a public key is public (PGPKey.__or__ refuses a subkey whose
   is_public differs from the parent's; checked by the harness on every public object): for an object that holds only
   public material ks_public is true whichever component is selected. *)
Record kstate := {
  ks_haskey : bool;          (* key._key is not None *)
  ks_nuids : nat;            (* len(key._uids) *)
  ks_primary : bool;
  ks_public : bool;          (* is_public of the selected component *)
  ks_protected : bool;       (* its _key.protected *)
  ks_cleartext : bool;       (* its _key.unlocked: no secret integer is zero *)
  ks_flag_ok : bool;         (* the key or one of its subkeys carries one of the required usage flags *)
  ks_require_flags : bool    (* key._require_usage_flags *)
}.

(* the @KeyAction decorator arguments (usage flags, keyword conditions) as written above each method, conditions in keyword order *)
Definition action_has_flags (a : action) : bool :=
  match a with ASign | ACertify | ARevoke | AEncrypt => true | _ => false end.
Definition action_conds (a : action) : list (attr * bool) :=
  match a with
  | AEncrypt => [(IsPublic, true)]
  | _ => [(IsUnlocked, true); (IsPublic, false)]
  end.
Definition is_certify (a : action) : bool := match a with ACertify => true | _ => false end.

(* PGPKey.is_unlocked / is_public *)
Definition attr_val (st : kstate) (a : attr) : bool :=
  match a with
  | IsPublic => ks_public st
  | IsUnlocked => if ks_public st then true else if negb (ks_protected st) then true else ks_cleartext st
  end.

(* KeyAction.check_attributes: the first condition that does not hold raises *)
Fixpoint check_attributes (conds : list (attr * bool)) (st : kstate) : outcome :=
  match conds with
  | [] => Run
  | (a, expected) :: r => if Bool.eqb (attr_val st a) expected then check_attributes r st else ErrAttr a
  end.

(* KeyAction.__call__ *)
Definition key_action (a : action) (st : kstate) : outcome :=
  if negb (ks_haskey st) then ErrNoKey
  else if (Nat.eqb (ks_nuids st) 0) && ks_primary st && negb (is_certify a) then ErrIncomplete
  else if action_has_flags a && negb (ks_flag_ok st) && ks_require_flags st then ErrUsage
  else check_attributes (action_conds a) st.

Definition private_actions : list action := [ASign; ACertify; ARevoke; ARevoker; ABind; ADecrypt].
