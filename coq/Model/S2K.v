(* C12: pgpy/packet/fields.py String2Key.derive_key, statement by statement (the coded count getter is
   PV.Model.Wire.s2k_count).  H and hlen are the hash primitive (hashlib through HashAlgorithm.hasher /
   digest_size); a passphrase given as text is encoded as UTF-8 before this point.  No proofs in this file. *)
From Coq Require Import ZArith List Bool.
Import ListNotations.
Require Import PV.Lib.Bytes PV.Model.Wire.
Open Scope Z_scope.

(* int(math.ceil(a / b)) for a >= 0, b > 0 *)
Definition ceil_div (a b : Z) : Z := (a + b - 1) / b.
(* bytes * n *)
Fixpoint rep {A} (n : nat) (l : list A) : list A := match n with O => [] | S n' => l ++ rep n' l end.

(* String2KeyType: Simple 0, Salted 1, Reserved 2, Iterated 3 *)
Record plan := { p_ctx : Z; p_sp : bytes; p_count : Z; p_hcount : Z; p_hleft : Z; p_keyoctets : Z }.

Section S2K.
Variable H : Z -> bytes -> bytes.     (* halg id, data -> digest *)
Variable hlen : Z -> Z.               (* HashAlgorithm.digest_size (octets) *)

(* the straight-line arithmetic of derive_key; c is the coded count octet (self._count) *)
Definition derive_plan (spec halg keylen : Z) (salt : bytes) (c : Z) (pass : bytes) : plan :=
  let hashlen := hlen halg * 8 in
  let ctx := ceil_div keylen hashlen in
  let hsalt := if spec >=? 1 then salt else [] in
  let sp := hsalt ++ pass in
  let l := Z.of_nat (length sp) in
  let count := if (spec =? 3) && (s2k_count c >? l) then s2k_count c else l in
  let hcount := if negb (l =? 0) then count / l else 0 in      (* after the F6 repair *)
  let hleft := count - hcount * l in
  {| p_ctx := ctx; p_sp := sp; p_count := count; p_hcount := hcount; p_hleft := hleft; p_keyoctets := keylen / 8 |}.

(* hashdata = ((hsalt + hpass) * hcount) + (hsalt + hpass)[:hleft] *)
Definition hashdata (p : plan) : bytes :=
  rep (Z.to_nat (p_hcount p)) (p_sp p) ++ firstn (Z.to_nat (p_hleft p)) (p_sp p).

(* for i in range(ctx): h = hasher; h.update(b'\x00' * i); h.update(hashdata);   b''.join(digests)[:keylen // 8] *)
Definition derive (spec halg keylen : Z) (salt : bytes) (c : Z) (pass : bytes) : bytes :=
  let p := derive_plan spec halg keylen salt c pass in
  firstn (Z.to_nat (p_keyoctets p))
    (concat (map (fun i => H halg (repeat 0 i ++ hashdata p)) (seq 0 (Z.to_nat (p_ctx p))))).

(* the same function with the hashed stream handed to the primitive in compressed form (zero octets, unit,
   whole copies, rest) -- what the correspondence driver uses for counts up to 65 MB *)
Variable Hrep : Z -> nat -> bytes -> Z -> Z -> bytes.
Definition derive_sym (spec halg keylen : Z) (salt : bytes) (c : Z) (pass : bytes) : bytes :=
  let p := derive_plan spec halg keylen salt c pass in
  firstn (Z.to_nat (p_keyoctets p))
    (concat (map (fun i => Hrep halg i (p_sp p) (p_hcount p) (p_hleft p)) (seq 0 (Z.to_nat (p_ctx p))))).

(* the code before the F6 repair: `hcount = count // len(hsalt + hpass)`; None = ZeroDivisionError *)
Definition derive_prefix (spec halg keylen : Z) (salt : bytes) (c : Z) (pass : bytes) : option bytes :=
  let p := derive_plan spec halg keylen salt c pass in
  if Z.of_nat (length (p_sp p)) =? 0 then None
  else Some (derive spec halg keylen salt c pass).
End S2K.
