(* C02: the signer side (pgpy/pgp.py PGPKey._sign) composed with the parser and the verifier:
   a v4 signature packet body assembled from well-formed subpackets, the left 16 bits of the digest and the
   signature integers produced by the primitive. *)
From Coq Require Import ZArith List Bool.
Import ListNotations.
Require Import PV.Lib.Bytes PV.Model.Wire PV.Model.HashData.
Open Scope Z_scope.

(* one subpacket as the signer emits it: header (length counts the type octet), body *)
Record subp := { sp_type : Z; sp_crit : bool; sp_body : bytes }.
Definition subp_emit (s : subp) : bytes :=
  sub_header_emit (Z.of_nat (length (sp_body s)) + 1) (sp_type s) (sp_crit s) ++ sp_body s.
Definition area_emit (l : list subp) : bytes :=
  let c := flat_map subp_emit l in int_to_bytes (Z.of_nat (length c)) 2 ++ c.

Section Signer.
  Variable digest : Z -> bytes -> bytes.                       (* hash algorithm id, data *)
  Variable pk_sign : bytes -> bytes -> Z -> bytes.             (* private key, hash input, hash id -> signature MPIs as octets *)

  (* body after the version octet; None = hashdata raised for this subject *)
  Definition sign_body (t pk h : Z) (hashed unhashed : list subp) (priv : bytes) (subj : subject) : option bytes :=
    let f := {| sf_ver := 4; sf_type := t; sf_pkalg := pk; sf_halg := h; sf_hashed := area_emit hashed |} in
    match hashdata f subj with
    | Some d => Some ([t; pk; h] ++ area_emit hashed ++ area_emit unhashed ++ firstn 2 (digest h d) ++ pk_sign priv d h)
    | None => None
    end.
End Signer.
