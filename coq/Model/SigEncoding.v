(* C02: per-algorithm encoding of the signature value (pgpy/packet/fields.py *Signature.from_signer / __sig__).
   DSA / ECDSA: the primitive returns a DER SEQUENCE of two INTEGERs; DSASignature.from_signer is a hand-rolled
   DER reader.  EdDSA: the 64-octet signature is split into two halves. *)
From Coq Require Import ZArith List Bool.
Import ListNotations.
Require Import PV.Lib.Bytes.
Open Scope Z_scope.

(* _der_intf: one INTEGER.  None = the Python code raises (wrong tag, or index out of range) *)
Definition der_int (a : bytes) : option (Z * bytes) :=
  match a with
  | t :: r =>
    if negb (t =? 2) then None else
    match r with
    | l0 :: r1 =>
      if negb (Z.land l0 128 =? 0) then
        let llen := Z.to_nat (Z.land l0 127) in
        let flen := Z.to_nat (unbe (firstn llen r1)) in
        let r2 := skipn llen r1 in
        Some (unbe (firstn flen r2), skipn flen r2)
      else
        let flen := Z.to_nat (Z.land l0 127) in
        Some (unbe (firstn flen r1), skipn flen r1)
    | [] => None
    end
  | [] => None
  end.

Definition dsa_from_signer (sig : bytes) : option (Z * Z) :=
  match sig with
  | s0 :: r =>
    if negb (s0 =? 48) then None else
    match r with
    | l0 :: r1 =>
      let r2 := if negb (Z.land l0 128 =? 0) then skipn (Z.to_nat (Z.land l0 127)) r1 else r1 in
      match der_int r2 with
      | Some (rv, r3) => match der_int r3 with Some (sv, _) => Some (rv, sv) | None => None end
      | None => None
      end
    | [] => None
    end
  | [] => None
  end.

(* EdDSASignature.from_signer / __sig__ *)
Definition eddsa_from_signer (sig : bytes) : option (Z * Z) :=
  if negb (Nat.even (length sig)) then None
  else let split := Nat.div (length sig) 2 in Some (unbe (firstn split sig), unbe (skipn split sig)).
Definition eddsa_sig (r s : Z) : bytes := int_to_bytes r 32 ++ int_to_bytes s 32.

(* RSASignature: the signature octets are one big-endian integer; __sig__ drops the MPI bit count *)
Definition rsa_from_signer (sig : bytes) : Z := unbe sig.
