(* pgpy/pgp.py  PGPMessage._signed_data (repair 9dba8e2) composed with PGPSignature.hashdata:
   what a signature on a MESSAGE covers.  PGPKey.sign(message) and PGPKey.verify(message) hand `message._signed_data`
   to hashdata: the octets of the literal data packet as they are on the wire (never its decoded text), the text itself
   for a cleartext message (C11 owns its canonical form). *)
From Coq Require Import ZArith List Bool.
Import ListNotations.
Require Import PV.Lib.Bytes PV.Model.HashData PV.Model.Message.
Open Scope Z_scope.

(* literal message: subject = SDoc (octets of the literal body) *)
Definition signed_data_lit (l : litd) : subject := SDoc (l_data l).

(* the rule before the repair: the message's `.message` value re-encoded by hashdata's str prologue
   (str.encode('utf-8'); the latin-1 fallback of `contents` yields code points < 256, which encode as UTF-8) *)
Definition signed_data_lit_old (l : litd) : option subject :=
  match contents l with
  | VText t => Some (SDoc (utf8 t))
  | VBytes b => Some (SDoc b)
  | VErr => None                  (* UnicodeDecodeError out of verify *)
  end.

(* hash input of a document signature carried in a message *)
Definition msg_hashdata (f : sigfields) (l : litd) : option bytes := hashdata f (signed_data_lit l).
