(* pgpy/packet/fields.py  class SubPackets as a small state machine (after repairs 54a6db5 and 88a5e9e):
   the two subpacket areas of a signature, each with the octets it was received in (when the object was parsed)
   and the parsed subpackets.  The received octets of an area are what is hashed / exported until a subpacket
   is added to THAT area; from then on the area is re-serialised from the parsed objects.

     __init__           sa_new
     parse              sa_parse            (Model/HashData.v subpackets_parse + the received octets of both areas)
     __setitem__        sa_set hashed x     ('h_' prefix = hashed area; drops the received octets of that area only)
     __copy__           sa_copy
     __hashbytearray__  sa_hashed_emit
     __unhashbytearray__ sa_unhashed_emit
     __bytearray__      sa_emit

   How the parsed OBJECTS of an area serialise (value setters normalise flags, booleans, text, length forms) is a
   parameter `reser`: the theorems hold for every such function, which is the point of keeping the octets. *)
From Coq Require Import ZArith List Bool.
Import ListNotations.
Require Import PV.Lib.Bytes PV.Model.Wire PV.Model.HashData.
Open Scope Z_scope.

Definition sub3 : Type := (Z * bool * bytes)%type.      (* type, critical, body: what HashData.sp_walk returns *)

Record sastate := { sa_h : list sub3; sa_u : list sub3; sa_hraw : option bytes; sa_uraw : option bytes }.

Definition sa_new : sastate := {| sa_h := []; sa_u := []; sa_hraw := None; sa_uraw := None |}.

(* SubPackets.parse: the accept / reject decision and the subpacket lists are subpackets_parse; the received octets of the
   unhashed area are the two count octets and the `uhl` octets after them, read where the hashed area ended *)
Definition sa_parse (p : bytes) : option (sastate * bytes) :=
  match subpackets_parse p with
  | None => None
  | Some (sp, rest) =>
    let hl := Z.to_nat (unbe (firstn 2 p)) in
    let p2 := skipn (hl + 2) p in
    let uhl := Z.to_nat (unbe (firstn 2 p2)) in
    Some ({| sa_h := sp_hashed sp; sa_u := sp_unhashed sp; sa_hraw := Some (sp_hashed_raw sp); sa_uraw := Some (firstn (uhl + 2) p2) |}, rest)
  end.

(* SubPackets.__setitem__ (through addnew or directly): append to one area, forget that area's received octets *)
Definition sa_set (hashed : bool) (x : sub3) (s : sastate) : sastate :=
  if hashed then {| sa_h := sa_h s ++ [x]; sa_u := sa_u s; sa_hraw := None; sa_uraw := sa_uraw s |}
  else {| sa_h := sa_h s; sa_u := sa_u s ++ [x]; sa_hraw := sa_hraw s; sa_uraw := None |}.

(* SubPackets.__copy__: both dictionaries and both kept areas *)
Definition sa_copy (s : sastate) : sastate :=
  {| sa_h := sa_h s; sa_u := sa_u s; sa_hraw := sa_hraw s; sa_uraw := sa_uraw s |}.

Section Emit.
  Variable reser : list sub3 -> bytes.       (* count octets + the objects' own serialisation *)

  Definition sa_hashed_emit (s : sastate) : bytes :=
    match sa_hraw s with Some r => r | None => reser (sa_h s) end.
  Definition sa_unhashed_emit (s : sastate) : bytes :=
    match sa_uraw s with Some r => r | None => reser (sa_u s) end.
  Definition sa_emit (s : sastate) : bytes := sa_hashed_emit s ++ sa_unhashed_emit s.
End Emit.

(* histories on one object *)
Inductive saop := SetH (x : sub3) | SetU (x : sub3) | Copy.
Definition sa_apply (s : sastate) (o : saop) : sastate :=
  match o with SetH x => sa_set true x s | SetU x => sa_set false x s | Copy => sa_copy s end.
Definition sa_run (s : sastate) (ops : list saop) : sastate := fold_left sa_apply ops s.

Definition touches_hashed (o : saop) : bool := match o with SetH _ => true | _ => false end.
Definition touches_unhashed (o : saop) : bool := match o with SetU _ => true | _ => false end.

(* the pre-repair code (before 54a6db5 / 88a5e9e) always re-serialised: *)
Definition sa_emit_old (reser : list sub3 -> bytes) (s : sastate) : bytes := reser (sa_h s) ++ reser (sa_u s).
