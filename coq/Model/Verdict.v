(* C17: verification verdicts.
   pgpy/constants.py SecurityIssues, causes_signature_verify_to_fail, PubKeyAlgorithm.validate_params,
   MINIMUM_ASYMMETRIC_KEY_LENGTHS, SAFE_CURVES;
   pgpy/types.py SignatureVerification (good_signatures, bad_signatures, __bool__, __and__, add_sigsubj);
   pgpy/pgp.py PGPKey.check_primitives / check_management / check_soundness / verify (issue aggregation).
   Issues are a Z bit set (IntFlag).  No proofs in this file. *)
From Coq Require Import ZArith List Bool.
Import ListNotations.
Open Scope Z_scope.

(* ---------- SecurityIssues ---------- *)
Definition SI_OK : Z := 0.
Definition SI_WrongSig : Z := 1.
Definition SI_Expired : Z := 2.
Definition SI_Disabled : Z := 4.
Definition SI_Revoked : Z := 8.
Definition SI_Invalid : Z := 16.
Definition SI_BrokenAsymmetricFunc : Z := 32.
Definition SI_HashFunctionNotCollisionResistant : Z := 64.
Definition SI_HashFunctionNotSecondPreimageResistant : Z := 128.
Definition SI_AsymmetricKeyLengthIsTooShort : Z := 256.
Definition SI_InsecureCurve : Z := 512.
Definition SI_NoSelfSignature : Z := 1024.

(* causes_signature_verify_to_fail (after the F1 repair): bool(self & (WrongSig|Expired|Disabled|Invalid|NoSelfSignature)) *)
Definition fail_mask : Z :=
  Z.lor (Z.lor (Z.lor (Z.lor SI_WrongSig SI_Expired) SI_Disabled) SI_Invalid) SI_NoSelfSignature.
Definition causes_fail (issues : Z) : bool := negb (Z.land issues fail_mask =? 0).

(* the same thing said bit by bit: some disqualifying bit (0, 1, 2, 4, 10) is set *)
Definition disqualifying_bits : list Z := [0; 1; 2; 4; 10].
Definition causes_fail_bits (issues : Z) : bool := existsb (Z.testbit issues) disqualifying_bits.

(* the code as it was before the repair: `self in {WrongSig, Expired, Disabled, Invalid, NoSelfSignature}` *)
Definition causes_fail_prefix (issues : Z) : bool :=
  existsb (Z.eqb issues) [SI_WrongSig; SI_Expired; SI_Disabled; SI_Invalid; SI_NoSelfSignature].

(* ---------- SignatureVerification ---------- *)
(* one entry per examined signature; only the `issues` component matters for the verdict *)
Definition result := list Z.

Section Entry.
Variable cf : Z -> bool.   (* the failing test in force (current / pre-repair) *)
(* good_signatures: `not issues or (issues and not issues.causes_signature_verify_to_fail)` *)
Definition is_good_with (issues : Z) : bool := (issues =? 0) || (negb (issues =? 0) && negb (cf issues)).
(* bad_signatures: `issues and issues.causes_signature_verify_to_fail` *)
Definition is_bad_with (issues : Z) : bool := negb (issues =? 0) && cf issues.
(* __bool__: all(`issues is OK or (issues and not issues.causes_signature_verify_to_fail)`) *)
Definition entry_ok_with (issues : Z) : bool := (issues =? 0) || (negb (issues =? 0) && negb (cf issues)).
End Entry.

Definition is_good := is_good_with causes_fail.
Definition is_bad := is_bad_with causes_fail.
Definition entry_ok := entry_ok_with causes_fail.

Definition good (r : result) : result := filter is_good r.
Definition bad (r : result) : result := filter is_bad r.
Definition truthy (r : result) : bool := forallb entry_ok r.
Definition truthy_with (cf : Z -> bool) (r : result) : bool := forallb (entry_ok_with cf) r.

Definition default_issues : Z := 255.   (* add_sigsubj(..., issues=None) -> SecurityIssues(0xFF) *)
Definition add_sigsubj (r : result) (issues : option Z) : result :=
  r ++ [match issues with None => default_issues | Some i => i end].
Definition sv_and (a b : result) : result := a ++ b.   (* __and__: self._subjects += other._subjects *)

(* ---------- key checks ---------- *)
Inductive curve := C_Invalid | Curve25519 | Ed25519 | NIST_P256 | NIST_P384 | NIST_P521
                 | Brainpool_P256 | Brainpool_P384 | Brainpool_P512 | SECP256K1.
Definition safe_curve (c : curve) : bool := match c with Curve25519 | Ed25519 => true | _ => false end.
(* PGPKey.key_size: an int (bit length) for non-EC algorithms, the curve for EC ones *)
Inductive ksize := Bits (n : Z) | Curve (c : curve).

(* PubKeyAlgorithm ids: RSAEncryptOrSign 1, RSAEncrypt 2, RSASign 3, ElGamal 16, DSA 17, ECDH 18, ECDSA 19,
   FormerlyElGamalEncryptOrSign 20, DiffieHellman 21, EdDSA 22 *)
Definition alg_is_ecc (alg : Z) : bool := (alg =? 19) || (alg =? 22) || (alg =? 18).
Definition alg_min_bits (alg : Z) : option Z :=
  if (alg =? 1) || (alg =? 3) || (alg =? 16) || (alg =? 17) then Some 2048 else None.

(* validate_params.  None = TypeError (an EC curve compared with an int) *)
Definition validate_params (alg : Z) (sz : ksize) : option Z :=
  if alg_is_ecc alg then
    Some (match sz with
          | Curve c => if safe_curve c then SI_OK else SI_InsecureCurve
          | Bits _ => SI_InsecureCurve      (* `int in SAFE_CURVES` is False *)
          end)
  else match alg_min_bits alg with
       | Some m => match sz with
                   | Bits n => Some (if n >=? m then SI_OK else SI_AsymmetricKeyLengthIsTooShort)
                   | Curve _ => None
                   end
       | None => Some SI_BrokenAsymmetricFunc
       end.

Record keyinfo := { k_alg : Z; k_size : ksize; k_expired : bool (* is_expired: of a primary key by the key expiration time of its user ids' self-signatures, of a subkey by that of its newest binding signature (repair 96d5157; before: never); zero = never *);
                    k_parent_expired : bool (* subkeys: the primary key is expired; primary keys (parent is None): false *);
                    k_revoked : bool;
                    k_selfv : Z (* what the `self_verified` property returns; the current code returns OK always *) }.

Definition check_primitives (k : keyinfo) : option Z := validate_params (k_alg k) (k_size k).

(* res = self.self_verified; if is_expired or (parent is not None and parent.is_expired): res |= Expired;
   res |= int(bool(revocations)) * Revoked *)
Definition check_management (k : keyinfo) : Z :=
  let res := k_selfv k in
  let res := if k_expired k || k_parent_expired k then Z.lor res SI_Expired else res in
  Z.lor res ((if k_revoked k then 1 else 0) * SI_Revoked).

(* before the second repair: `if self.is_expired:` only (a subkey has no user ids, so it never expired) *)
Definition check_management_prefix (k : keyinfo) : Z :=
  let res := k_selfv k in
  let res := if k_expired k then Z.lor res SI_Expired else res in
  Z.lor res ((if k_revoked k then 1 else 0) * SI_Revoked).

Definition check_soundness_gen (mg : keyinfo -> Z) (k : keyinfo) : option Z :=
  match check_primitives k with
  | Some p => Some (Z.lor (mg k) p)
  | None => None
  end.
Definition check_soundness := check_soundness_gen check_management.

(* the else-branch of the loop in PGPKey.verify for one (signature, subject) pair:
   self_verifying : the subject is the key itself;  verified : outcome of the cryptographic check.
   cf / mg : the failing test and the management check in force (current / pre-repair) *)
Definition verify_entry_gen (cf : Z -> bool) (mg : keyinfo -> Z) (k : keyinfo) (self_verifying verified : bool) : option Z :=
  match check_soundness_gen mg k, check_primitives k with
  | Some subkey_issues, Some signature_issues =>
    let signature_issues :=
      if self_verifying then Z.land signature_issues (Z.lnot SI_HashFunctionNotCollisionResistant)
      else signature_issues in
    let issues := Z.lor signature_issues subkey_issues in
    Some (if negb (issues =? 0) && cf issues then issues
          else if verified then SI_OK else SI_WrongSig)
  | _, _ => None
  end.
Definition verify_entry_with (cf : Z -> bool) := verify_entry_gen cf check_management.
Definition verify_entry := verify_entry_with causes_fail.

(* a whole verify call: each pair is examined with the key that made the signature (primary or subkey;
   `sigv &= subkey.verify(...)` appends that call's entries) *)
Fixpoint verify_all_gen (cf : Z -> bool) (mg : keyinfo -> Z) (ps : list (keyinfo * bool * bool)) : option result :=
  match ps with
  | [] => Some []
  | (k, sv, ok) :: r =>
    match verify_entry_gen cf mg k sv ok, verify_all_gen cf mg r with
    | Some i, Some l => Some (i :: l)
    | _, _ => None
    end
  end.
Definition verify_all_with (cf : Z -> bool) := verify_all_gen cf check_management.
Definition verify_all := verify_all_with causes_fail.
