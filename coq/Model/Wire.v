(* C09: primitive wire codecs of PGPy, modelled function by function.
   pgpy/types.py Header.encode_length / length setter / llen,
   pgpy/packet/types.py Header.__bytearray__/parse, MPI,
   pgpy/packet/subpackets/types.py Header, pgpy/packet/fields.py String2Key.count. *)
From Coq Require Import ZArith List Bool.
Import ListNotations.
Require Import PV.Lib.Bytes.
Open Scope Z_scope.

(* ---------- Header.encode_length ---------- *)
Definition new_length (nl : Z) : bytes :=
  if 192 >? nl then int_to_bytes nl 1
  else if 8384 >? nl then
    let elen := (Z.land nl 65280 + Z.shiftl 192 8) + (Z.land nl 255 - 192) in
    int_to_bytes elen 2
  else [255] ++ int_to_bytes nl 4.

Definition old_length (nl llen : Z) : bytes :=
  if llen >? 0 then int_to_bytes nl llen else [].

Definition encode_length (length : Z) (nhf : bool) (llen : Z) : bytes :=
  if nhf then new_length length else old_length length llen.

(* ---------- Header.llen getter ---------- *)
(* new format: computed from the length; old format (after the F4 repair): the stored
   width, widened to the next legal width (1, 2, 4) when the value no longer fits *)
Definition old_need (length : Z) : Z :=
  let need := int_byte_len length in
  if need <=? 1 then 1 else if need =? 2 then 2 else 4.

Definition llen_get (lenfmt length stored_llen : Z) : Z :=
  if lenfmt =? 1 then
    (if 192 >? length then 1 else if 8384 >? length then 2 else 5)
  else
    (if negb (stored_llen =? 0) then Z.max stored_llen (old_need length) else stored_llen).

(* the code as it was before the repair (kept for the refutation theorem) *)
Definition llen_get_prefix (lenfmt length stored_llen : Z) : Z :=
  if lenfmt =? 1 then
    (if 192 >? length then 1 else if 8384 >? length then 2 else 5)
  else stored_llen.

(* llen setter mapping {0:1, 1:2, 2:4, 3:0} *)
Definition llen_of_code (c : Z) : Z :=
  if c =? 0 then 1 else if c =? 1 then 2 else if c =? 2 then 4 else 0.
(* mapping used on emission {1:0, 2:1, 4:2, 0:3}; any other width is a KeyError *)
Definition code_of_llen (l : Z) : option Z :=
  if l =? 1 then Some 0 else if l =? 2 then Some 1 else if l =? 4 then Some 2
  else if l =? 0 then Some 3 else None.

(* ---------- length setter: _parse_len / _new_len / _old_len ---------- *)
(* (parsed length, size of the length field, partial?)  None = IndexError *)
Definition parse_len (b : bytes) (offset : nat) : option (Z * nat * bool) :=
  match nth_error b offset with
  | None => None
  | Some fo =>
    if 192 >? fo then Some (fo, 1%nat, false)
    else if 224 >? fo then
      let dlen := unbe (slice offset (offset + 2) b) in
      Some (Z.land (dlen - Z.shiftl 192 8) 65280 + (Z.land dlen 255 + 192), 2%nat, false)
    else if 255 >? fo then Some (Z.shiftl 1 (Z.land fo 31), 1%nat, true)
    else Some (unbe (slice (offset + 1) (offset + 5) b), 5%nat, false)
  end.

(* the while loop: b is the buffer *after* the first length octet was removed;
   total = octets of body seen so far.  Returns (total length, buffer with the inner
   length fields removed). *)
Fixpoint partial_loop (fuel : nat) (b : bytes) (total : nat) : option (Z * bytes) :=
  match fuel with
  | O => None
  | S fuel' =>
    match parse_len b total with
    | None => None
    | Some (pl, size, partial) =>
      let b' := firstn total b ++ skipn (total + size) b in
      let total' := (total + Z.to_nat pl)%nat in
      if partial then partial_loop fuel' b' total' else Some (Z.of_nat total', b')
    end
  end.

(* _new_len: returns (length, remaining buffer = body ++ following data) *)
Definition new_len (b : bytes) : option (Z * bytes) :=
  match parse_len b 0 with
  | None => None
  | Some (pl, size, partial) =>
    let b1 := skipn size b in
    if partial then partial_loop (S (length b)) b1 (Z.to_nat pl) else Some (pl, b1)
  end.

Definition old_len (llen : Z) (b : bytes) : Z * bytes :=
  if llen >? 0 then (unbe (firstn (Z.to_nat llen) b), skipn (Z.to_nat llen) b) else (0, b).

(* ---------- packet Header (pgpy/packet/types.py) ---------- *)
Record pheader := { h_lenfmt : Z; h_tag : Z; h_llen : Z (* stored _llen *); h_len : Z }.

Definition tag_of_octet (lenfmt val : Z) : Z :=
  if negb (lenfmt =? 0) then Z.land val 63 else Z.shiftr (Z.land val 60) 2.

(* Header.parse: None = exception *)
Definition header_parse (p : bytes) : option (pheader * bytes) :=
  match p with
  | [] => None
  | p0 :: rest =>
    let lenfmt := Z.shiftr (Z.land p0 64) 6 in
    let tag := tag_of_octet lenfmt p0 in
    let llen := if lenfmt =? 0 then llen_of_code (Z.land p0 3) else 1 in
    if lenfmt =? 1 then
      match new_len rest with
      | None => None
      | Some (l, r) => Some ({| h_lenfmt := 1; h_tag := tag; h_llen := 1; h_len := l |}, r)
      end
    else if llen >? 0 then
      let '(l, r) := old_len llen rest in
      Some ({| h_lenfmt := 0; h_tag := tag; h_llen := llen; h_len := l |}, r)
    else Some ({| h_lenfmt := 0; h_tag := tag; h_llen := 1 (* indeterminate length: kept with a one-octet length field from now on, repair of Header.parse *); h_len := Z.of_nat (length rest) |}, rest)
  end.

(* Header.__bytearray__: tag octet then encode_length(length, lenfmt, llen) *)
Definition header_emit (h : pheader) : option bytes :=
  let ll := llen_get (h_lenfmt h) (h_len h) (h_llen h) in
  if negb (h_lenfmt h =? 0) then
    Some (int_to_bytes (Z.lor (Z.lor 128 (Z.shiftl (h_lenfmt h) 6)) (h_tag h)) 1
          ++ encode_length (h_len h) true ll)
  else
    match code_of_llen ll with
    | None => None
    | Some c =>
      Some (int_to_bytes (Z.lor (Z.lor 128 (Z.shiftl (h_lenfmt h) 6)) (Z.lor (Z.shiftl (h_tag h) 2) c)) 1
            ++ encode_length (h_len h) false ll)
    end.

Definition header_emit_prefix (h : pheader) : option bytes :=
  let ll := llen_get_prefix (h_lenfmt h) (h_len h) (h_llen h) in
  if negb (h_lenfmt h =? 0) then
    Some (int_to_bytes (Z.lor (Z.lor 128 (Z.shiftl (h_lenfmt h) 6)) (h_tag h)) 1
          ++ encode_length (h_len h) true ll)
  else
    match code_of_llen ll with
    | None => None
    | Some c =>
      Some (int_to_bytes (Z.lor (Z.lor 128 (Z.shiftl (h_lenfmt h) 6)) (Z.lor (Z.shiftl (h_tag h) 2) c)) 1
            ++ encode_length (h_len h) false ll)
    end.

(* ---------- MPI ---------- *)
Definition mpi_byte_length (v : Z) : Z := (bit_length v + 7) / 8.
(* after the F14 repair: zero is two octets 00 00 (int_to_bytes never emits fewer than one octet) *)
Definition to_mpibytes (v : Z) : bytes :=
  int_to_bytes (bit_length v) 2 ++ (if negb (v =? 0) then int_to_bytes v (mpi_byte_length v) else []).
Definition to_mpibytes_prefix (v : Z) : bytes :=
  int_to_bytes (bit_length v) 2 ++ int_to_bytes v (mpi_byte_length v).
(* MPI.__new__ from a buffer: value and remaining buffer (slices clamp, never raise) *)
Definition mpi_parse (b : bytes) : Z * bytes :=
  let fl := (unbe (firstn 2 b) + 7) / 8 in
  let r := skipn 2 b in
  (unbe (firstn (Z.to_nat fl) r), skipn (Z.to_nat fl) r).

(* ---------- subpacket Header (pgpy/packet/subpackets/types.py) ---------- *)
(* length decode after the F8 repair: 192..254 always opens a two-octet length *)
Definition sub_len (p : bytes) : option (Z * bytes) :=
  match p with
  | [] => None
  | p0 :: rest =>
    if (192 <=? p0) && (p0 <? 255) then
      match rest with
      | [] => None
      | p1 :: r => Some (Z.shiftl (p0 - 192) 8 + p1 + 192, r)
      end
    else new_len p
  end.
(* before the repair: shared with the packet routine, 224..254 read as partial *)
Definition sub_len_prefix (p : bytes) : option (Z * bytes) := new_len p.

Definition sub_header_parse (p : bytes) : option (Z * Z * bool * bytes) :=  (* length, typeid, critical, rest *)
  match sub_len p with
  | None => None
  | Some (l, r) =>
    let v := unbe (firstn 1 r) in
    Some (l, Z.land v 127, negb (Z.land v 128 =? 0), skipn 1 r)
  end.
Definition sub_header_emit (len typeid : Z) (critical : bool) : bytes :=
  encode_length len true 1 ++ int_to_bytes (Z.shiftl (if critical then 1 else 0) 7 + typeid) 1.
(* the length field of a subpacket header on its own (Model/Fmt.v FSubLen): what sub_header_emit writes in front of
   the type octet (Proofs/Wire_lemmas2.v sub_header_emit_sub_length) *)
Definition sub_length (len : Z) : bytes := encode_length len true 1.

(* ---------- S2K coded count ---------- *)
Definition s2k_count (c : Z) : Z := Z.shiftl (16 + Z.land c 15) (Z.shiftr c 4 + 6).

(* ---------- four-octet time ---------- *)
Definition time4 (t : Z) : bytes := int_to_bytes t 4.
Definition untime4 (b : bytes) : Z := unbe (firstn 4 b).
