(* Proofs for C10, part 1: base64, CRC-24, line wrap. *)
From Coq Require Import ZArith Bool List Lia ZifyBool.
Import ListNotations.
Require Import PV.Lib.Bytes PV.Lib.BytesLemmas PV.Model.Armor PV.Spec.Rfc4880_armor.
Open Scope Z_scope.

Ltac dm := Z.div_mod_to_equations; lia.

(* ---------- induction in steps of three octets ---------- *)
Lemma list_ind3 {A} (P : list A -> Prop) :
  P [] -> (forall a, P [a]) -> (forall a b, P [a; b]) ->
  (forall a b c r, P r -> P (a :: b :: c :: r)) -> forall l, P l.
Proof.
  intros H0 H1 H2 H3.
  fix IH 1. intros [|a [|b [|c r]]]; [exact H0|apply H1|apply H2|apply H3; apply IH].
Qed.

(* ---------- alphabet ---------- *)
Lemma b64_val_char v : 0 <= v < 64 -> b64_val (b64_char v) = Some v.
Proof.
  intros H. unfold b64_char, b64_val.
  destruct (v <? 26) eqn:E1.
  { replace ((65 <=? 65 + v) && (65 + v <=? 90)) with true by lia. f_equal; lia. }
  destruct (v <? 52) eqn:E2.
  { replace ((65 <=? 71 + v) && (71 + v <=? 90)) with false by lia.
    replace ((97 <=? 71 + v) && (71 + v <=? 122)) with true by lia. f_equal; lia. }
  destruct (v <? 62) eqn:E3.
  { replace ((65 <=? v - 4) && (v - 4 <=? 90)) with false by lia.
    replace ((97 <=? v - 4) && (v - 4 <=? 122)) with false by lia.
    replace ((48 <=? v - 4) && (v - 4 <=? 57)) with true by lia. f_equal; lia. }
  destruct (v =? 62) eqn:E4; [assert (v = 62) by lia; subst; reflexivity|].
  assert (v = 63) by lia. subst. reflexivity.
Qed.

Lemma b64_char_is v : 0 <= v < 64 -> is_b64c (b64_char v) = true.
Proof. intros H. unfold is_b64c. rewrite (b64_val_char v H). reflexivity. Qed.

Lemma b64_val_range c v : b64_val c = Some v -> 0 <= v < 64.
Proof.
  unfold b64_val. intros H.
  repeat match type of H with (if ?c then _ else _) = _ => destruct c eqn:? end;
    try discriminate; injection H as <-; lia.
Qed.

Lemma is_b64c_not_special c : is_b64c c = true -> c <> 61 /\ c <> 10 /\ c <> 13 /\ c <> 45 /\ c <> 58 /\ c <> 32.
Proof.
  intros H. unfold is_b64c in H. destruct (b64_val c) as [v|] eqn:E; [|discriminate]. clear H. unfold b64_val in E.
  repeat match type of E with (if ?c then _ else _) = _ => destruct c eqn:? end; try discriminate; lia.
Qed.

Lemma b64_char_rfc v : 0 <= v < 64 -> b64_char v = rfc_b64_char v.
Proof.
  intros H.
  assert (S : forallb (fun n => b64_char (Z.of_nat n) =? rfc_b64_char (Z.of_nat n)) (seq 0 64) = true) by (vm_compute; reflexivity).
  rewrite forallb_forall in S. specialize (S (Z.to_nat v)).
  rewrite Z2Nat.id in S by lia. apply Z.eqb_eq, S. apply in_seq. lia.
Qed.

(* ---------- encoder: shape, alphabet, agreement with RFC 4880 6.3 ---------- *)
Definition b64_text_char (c : Z) : bool := is_b64c c || (c =? 61).

Lemma b64_alphabet p : wf_bytes p -> forallb b64_text_char (b64_enc p) = true.
Proof.
  induction p using list_ind3; intros W; cbn [b64_enc forallb]; unfold b64_text_char in *.
  - reflexivity.
  - inversion W; subst. rewrite !b64_char_is by dm. reflexivity.
  - inversion W as [|? ? ? W']; subst. inversion W'; subst. rewrite !b64_char_is by dm. reflexivity.
  - inversion W as [|? ? ? W1]; subst. inversion W1 as [|? ? ? W2]; subst. inversion W2; subst.
    rewrite !b64_char_is by dm. cbn [orb andb]. auto.
Qed.

Lemma b64_enc_eq_rfc p : wf_bytes p -> b64_enc p = rfc_b64_enc p.
Proof.
  induction p using list_ind3; intros W; cbn [b64_enc rfc_b64_enc]; cbv zeta.
  - reflexivity.
  - inversion W; subst. rewrite <- !b64_char_rfc by dm.
    replace (a * 16 / 64) with (a / 4) by dm. replace (a * 16 mod 64) with (a mod 4 * 16) by dm. reflexivity.
  - inversion W as [|? ? ? W']; subst. inversion W'; subst. rewrite <- !b64_char_rfc by dm.
    replace ((a * 256 + b) * 4 / 4096) with (a / 4) by dm.
    replace ((a * 256 + b) * 4 / 64 mod 64) with (a mod 4 * 16 + b / 16) by dm.
    replace ((a * 256 + b) * 4 mod 64) with (b mod 16 * 4) by dm. reflexivity.
  - inversion W as [|? ? ? W1]; subst. inversion W1 as [|? ? ? W2]; subst. inversion W2; subst.
    rewrite <- !b64_char_rfc by dm. rewrite IHp by assumption.
    replace ((a * 65536 + b * 256 + c) / 262144) with (a / 4) by dm.
    replace ((a * 65536 + b * 256 + c) / 4096 mod 64) with (a mod 4 * 16 + b / 16) by dm.
    replace ((a * 65536 + b * 256 + c) / 64 mod 64) with (b mod 16 * 4 + c / 64) by dm.
    replace ((a * 65536 + b * 256 + c) mod 64) with (c mod 64) by dm. reflexivity.
Qed.

Lemma b64_enc_length p : length (b64_enc p) = (4 * ((length p + 2) / 3))%nat.
Proof.
  induction p as [|x|x y|x y z r IH] using list_ind3; cbn [b64_enc length]; try reflexivity.
  rewrite IH. replace (S (S (S (length r))) + 2)%nat with ((length r + 2) + 1 * 3)%nat by lia.
  rewrite Nat.div_add by lia. lia.
Qed.

Lemma b64_enc_app a b : (length a mod 3 = 0)%nat -> b64_enc (a ++ b) = b64_enc a ++ b64_enc b.
Proof.
  induction a as [|x|x y|x y z r IH] using list_ind3; intros H.
  - reflexivity.
  - cbn in H. discriminate.
  - cbn in H. discriminate.
  - cbn [app b64_enc]. rewrite IH; [reflexivity|].
    cbn [length] in H. replace (S (S (S (length r)))) with (length r + 1 * 3)%nat in H by lia.
    rewrite Nat.mod_add in H by lia. exact H.
Qed.

(* ---------- decoder ---------- *)
Lemma a2b_quad c1 c2 c3 c4 v1 v2 v3 v4 r l p :
  b64_val c1 = Some v1 -> b64_val c2 = Some v2 -> b64_val c3 = Some v3 -> b64_val c4 = Some v4 ->
  a2b (c1 :: c2 :: c3 :: c4 :: r) 0 l p =
  match a2b r 0 0 0 with
  | Some o => Some ((v1 * 4 + v2 / 16) :: ((v2 mod 16) * 16 + v3 / 4) :: ((v3 mod 4) * 64 + v4) :: o)
  | None => None
  end.
Proof.
  intros H1 H2 H3 H4.
  assert (N : forall c v, b64_val c = Some v -> (c =? 61) = false).
  { intros c v Hc. destruct (c =? 61) eqn:E; [|reflexivity]. apply Z.eqb_eq in E. subst. discriminate. }
  cbn [a2b]. rewrite (N _ _ H1), (N _ _ H2), (N _ _ H3), (N _ _ H4), H1, H2, H3, H4.
  destruct (a2b r 0 0 0); reflexivity.
Qed.

Theorem b64_roundtrip p : wf_bytes p -> b64_dec (b64_enc p) = Some p.
Proof.
  unfold b64_dec.
  induction p using list_ind3; intros W.
  - reflexivity.
  - inversion W; subst. cbn [b64_enc a2b].
    assert (E1 := b64_val_char (a / 4) ltac:(dm)). assert (E2 := b64_val_char ((a mod 4) * 16) ltac:(dm)).
    assert (N1 := proj1 (is_b64c_not_special _ (b64_char_is (a / 4) ltac:(dm)))).
    assert (N2 := proj1 (is_b64c_not_special _ (b64_char_is ((a mod 4) * 16) ltac:(dm)))).
    apply Z.eqb_neq in N1, N2. rewrite N1, N2, E1, E2. cbn. repeat f_equal. dm.
  - inversion W as [|? ? ? W']; subst. inversion W'; subst. cbn [b64_enc a2b].
    assert (E1 := b64_val_char (a / 4) ltac:(dm)). assert (E2 := b64_val_char ((a mod 4) * 16 + b / 16) ltac:(dm)).
    assert (E3 := b64_val_char ((b mod 16) * 4) ltac:(dm)).
    assert (N1 := proj1 (is_b64c_not_special _ (b64_char_is (a / 4) ltac:(dm)))).
    assert (N2 := proj1 (is_b64c_not_special _ (b64_char_is ((a mod 4) * 16 + b / 16) ltac:(dm)))).
    assert (N3 := proj1 (is_b64c_not_special _ (b64_char_is ((b mod 16) * 4) ltac:(dm)))).
    apply Z.eqb_neq in N1, N2, N3. rewrite N1, N2, N3, E1, E2, E3. cbn. repeat f_equal; dm.
  - inversion W as [|? ? ? W1]; subst. inversion W1 as [|? ? ? W2]; subst. inversion W2; subst.
    cbn [b64_enc].
    rewrite (a2b_quad _ _ _ _ _ _ _ _ _ _ _
               (b64_val_char (a / 4) ltac:(dm)) (b64_val_char ((a mod 4) * 16 + b / 16) ltac:(dm))
               (b64_val_char ((b mod 16) * 4 + c / 64) ltac:(dm)) (b64_val_char (c mod 64) ltac:(dm))).
    rewrite IHp by assumption. repeat f_equal; dm.
Qed.

(* characters that are neither alphabet nor '=' do not change the decoder state *)
Lemma a2b_skip s : forall qp l pads, a2b (filter b64_text_char s) qp l pads = a2b s qp l pads.
Proof.
  induction s as [|c s IH]; intros qp l pads; [reflexivity|].
  cbn [filter]. unfold b64_text_char at 1, is_b64c.
  destruct (c =? 61) eqn:E61.
  - rewrite orb_true_r. cbn [a2b]. rewrite E61.
    destruct (Nat.leb 2 qp); [destruct (Nat.leb 4 (qp + S pads))|]; auto.
  - rewrite orb_false_r. destruct (b64_val c) as [v|] eqn:Ev.
    + cbn [a2b]. rewrite E61, Ev. destruct qp as [|[|[|qp]]]; rewrite IH; reflexivity.
    + cbn [a2b]. rewrite E61, Ev. apply IH.
Qed.

Lemma filter_concat_nl (f : Z -> bool) (eol : list Z) (ls : list text) :
  forallb (fun c => negb (f c)) eol = true -> f 10 = false ->
  filter f (concat (map (fun l => (l ++ eol) ++ [10]) ls)) = filter f (concat ls).
Proof.
  intros He H10. induction ls as [|l ls IH]; [reflexivity|].
  cbn [map concat]. rewrite !filter_app, IH. f_equal.
  cbn [filter]. rewrite H10, app_nil_r.
  assert (filter f eol = []) as ->; [|apply app_nil_r].
  clear -He. induction eol as [|e eol IH]; [reflexivity|].
  cbn [forallb] in He. apply andb_true_iff in He as [H1 H2]. cbn [filter].
  destruct (f e); [discriminate|]. auto.
Qed.

Lemma filter_all {A} (f : A -> bool) l : forallb f l = true -> filter f l = l.
Proof.
  induction l as [|x l IH]; [reflexivity|]. cbn. intros H. apply andb_true_iff in H as [H1 H2].
  rewrite H1, IH by assumption. reflexivity.
Qed.

(* ---------- CRC-24 ---------- *)
Lemma lxor_bound a b n : 0 <= n -> 0 <= a < 2 ^ n -> 0 <= b < 2 ^ n -> 0 <= Z.lxor a b < 2 ^ n.
Proof.
  intros Hn Ha Hb. split; [apply Z.lxor_nonneg; lia|].
  destruct (Z.eq_dec (Z.lxor a b) 0) as [->|Hz]; [lia|].
  assert (0 < n).
  { destruct (Z.eq_dec n 0) as [->|]; [|lia]. change (2 ^ 0) with 1 in *.
    assert (a = 0) by lia. assert (b = 0) by lia. subst. cbn in Hz. congruence. }
  assert (0 < Z.lxor a b) by (assert (0 <= Z.lxor a b) by (apply Z.lxor_nonneg; lia); lia).
  apply Z.log2_lt_pow2; [assumption|].
  assert (L := Z.log2_lxor a b ltac:(lia) ltac:(lia)).
  assert (Z.log2 a < n).
  { destruct (Z.eq_dec a 0) as [->|]; [cbn; lia|]. apply Z.log2_lt_pow2; lia. }
  assert (Z.log2 b < n).
  { destruct (Z.eq_dec b 0) as [->|]; [cbn; lia|]. apply Z.log2_lt_pow2; lia. }
  lia.
Qed.

Lemma land_pow2_small r : 0 <= r < 16777216 -> Z.land 16777216 r = 0.
Proof.
  intros H. apply Z.bits_inj'. intros i Hi. rewrite Z.land_spec, Z.bits_0.
  change 16777216 with (2 ^ 24). rewrite Z.pow2_bits_eqb by lia.
  destruct (24 =? i) eqn:E; [|reflexivity]. apply Z.eqb_eq in E. subst i. cbn [andb].
  apply Z.bits_above_log2; [lia|]. destruct (Z.eq_dec r 0) as [->|]; [cbn; lia|].
  apply Z.log2_lt_pow2; lia.
Qed.

Lemma land_bit24 c : 0 <= c < 33554432 ->
  Z.land c 16777216 = if c <? 16777216 then 0 else 16777216.
Proof.
  intros H. destruct (c <? 16777216) eqn:E.
  - rewrite Z.land_comm. apply land_pow2_small. lia.
  - replace c with (16777216 + (c - 16777216)) at 1 by lia.
    rewrite (Z.add_nocarry_lxor 16777216 (c - 16777216)) by (apply land_pow2_small; lia).
    rewrite Z.lxor_lor by (apply land_pow2_small; lia).
    rewrite Z.land_lor_distr_l. rewrite Z.land_diag.
    rewrite (Z.land_comm (c - 16777216)), land_pow2_small by lia. apply Z.lor_0_r.
Qed.

Lemma crc_bit_bound c : 0 <= c < 16777216 -> 0 <= crc_bit c < 16777216.
Proof.
  intros H. unfold crc_bit. rewrite Z.shiftl_mul_pow2 by lia. change (2 ^ 1) with 2.
  rewrite land_bit24 by lia.
  destruct (c * 2 <? 16777216) eqn:E; cbn [Z.eqb negb]; [lia|].
  replace (c * 2) with (16777216 + (c * 2 - 16777216)) by lia.
  rewrite (Z.add_nocarry_lxor 16777216 (c * 2 - 16777216)) by (apply land_pow2_small; lia).
  change 25578747 with (Z.lxor 16777216 8801531).
  rewrite Z.lxor_assoc, (Z.lxor_comm (c * 2 - 16777216)), <- !Z.lxor_assoc, Z.lxor_nilpotent, Z.lxor_0_l.
  rewrite Z.lxor_comm. change 16777216 with (2 ^ 24). apply lxor_bound; lia.
Qed.

Lemma iter_crc_bit_bound n c : 0 <= c < 16777216 -> 0 <= Nat.iter n crc_bit c < 16777216.
Proof. induction n; intros H; cbn [Nat.iter]; [assumption|]. apply crc_bit_bound, IHn, H. Qed.

Lemma crc_octet_bound c b : 0 <= c < 16777216 -> 0 <= b < 256 -> 0 <= crc_octet c b < 16777216.
Proof.
  intros Hc Hb. unfold crc_octet. apply iter_crc_bit_bound.
  change 16777216 with (2 ^ 24). apply lxor_bound; [lia|lia|].
  rewrite Z.shiftl_mul_pow2 by lia. change (2 ^ 16) with 65536. change (2 ^ 24) with 16777216. lia.
Qed.

Lemma crc_fold_bound d : forall c, wf_bytes d -> 0 <= c < 16777216 -> 0 <= fold_left crc_octet d c < 16777216.
Proof.
  induction d as [|b d IH]; intros c W H; cbn [fold_left]; [assumption|].
  inversion W; subst. apply IH; [assumption|]. apply crc_octet_bound; assumption.
Qed.

Lemma rfc_step_eq c : rfc_crc_step c = crc_bit c.
Proof. unfold rfc_crc_step, crc_bit, CRC24_POLY. cbv zeta. destruct (Z.land (Z.shiftl c 1) 16777216 =? 0); reflexivity. Qed.

Lemma iter_ext {A} (f g : A -> A) n x : (forall y, f y = g y) -> Nat.iter n f x = Nat.iter n g x.
Proof.
  intros H. induction n; [reflexivity|].
  change (Nat.iter (S n) f x) with (f (Nat.iter n f x)). change (Nat.iter (S n) g x) with (g (Nat.iter n g x)).
  rewrite IHn. apply H.
Qed.

Lemma land_mask_small c : 0 <= c < 16777216 -> Z.land c 16777215 = c.
Proof. intros H. change 16777215 with (Z.ones 24). rewrite Z.land_ones by lia. apply Z.mod_small. change (2 ^ 24) with 16777216. lia. Qed.

Lemma rfc_octet_eq c b : 0 <= c < 16777216 -> 0 <= b < 256 -> rfc_crc_octet c b = crc_octet c b.
Proof.
  intros Hc Hb. unfold rfc_crc_octet. rewrite (iter_ext _ _ 8 _ rfc_step_eq).
  change (Nat.iter 8 crc_bit (Z.lxor c (Z.shiftl b 16))) with (crc_octet c b).
  apply land_mask_small. apply crc_octet_bound; assumption.
Qed.

(* the invariant: between octets PGPy's unmasked accumulator is already a 24-bit value and equals the RFC's *)
Lemma crc_fold_eq d : forall c, wf_bytes d -> 0 <= c < 16777216 ->
  fold_left rfc_crc_octet d c = fold_left crc_octet d c.
Proof.
  induction d as [|b d IH]; intros c W H; cbn [fold_left]; [reflexivity|].
  inversion W; subst. rewrite rfc_octet_eq by assumption. apply IH; [assumption|]. apply crc_octet_bound; assumption.
Qed.

Theorem crc24_eq_rfc d : wf_bytes d -> crc24 d = crc24_rfc d.
Proof.
  intros W. unfold crc24, crc24_rfc, CRC24_INIT. cbv zeta.
  rewrite crc_fold_eq by (try assumption; lia). reflexivity.
Qed.

Theorem crc24_unmasked d : wf_bytes d -> crc24 d = fold_left crc_octet d 11994318.
Proof. intros W. unfold crc24. cbv zeta. apply land_mask_small. apply crc_fold_bound; [assumption|lia]. Qed.

Theorem crc24_lt_2_24 d : 0 <= crc24 d < 16777216.
Proof.
  unfold crc24. cbv zeta. change 16777215 with (Z.ones 24). rewrite Z.land_ones by lia.
  change (2 ^ 24) with 16777216. apply Z.mod_pos_bound. lia.
Qed.

(* ---------- line wrap ---------- *)
Lemma chunks_le f n : forall s, Forall (fun l => (length l <= n)%nat) (chunks f n s).
Proof.
  induction f as [|f IH]; intros s; cbn [chunks]; [constructor|].
  destruct s as [|c s]; [constructor|]. constructor; [apply firstn_le_length|apply IH].
Qed.

Lemma chunks_concat f n : forall s, (1 <= n)%nat -> (length s <= f)%nat -> concat (chunks f n s) = s.
Proof.
  induction f as [|f IH]; intros s Hn Hl; cbn [chunks].
  - destruct s; [reflexivity|cbn in Hl; lia].
  - destruct s as [|c s]; [reflexivity|]. cbn [concat]. rewrite IH; [apply firstn_skipn|assumption|].
    rewrite skipn_length. cbn [length] in *. lia.
Qed.

Theorem wrap_line_le_64 s : Forall (fun l => (length l <= 64)%nat) (wrap s).
Proof. apply chunks_le. Qed.

Theorem wrap_concat s : concat (wrap s) = s.
Proof. apply chunks_concat; [cbn; lia|lia]. Qed.

Lemma chunks_cons f n s : s <> [] -> chunks (S f) n s = firstn n s :: chunks f n (skipn n s).
Proof. destruct s; [congruence|reflexivity]. Qed.

Lemma b64_enc_nonempty p : p <> [] -> b64_enc p <> [].
Proof. destruct p as [|x [|y [|z r]]]; [congruence| | |]; intros _; cbn; discriminate. Qed.

(* the wrapped lines of a base64 text are the base64 texts of the 48-octet pieces of the payload *)
Lemma chunks_b64 f2 : forall f1 p, (length (b64_enc p) <= f1)%nat -> (length p <= f2)%nat ->
  chunks f1 64 (b64_enc p) = map b64_enc (chunks f2 48 p).
Proof.
  induction f2 as [|f2 IH]; intros f1 p H1 H2.
  - destruct p; [|cbn in H2; lia]. destruct f1; reflexivity.
  - destruct p as [|x p'] eqn:Ep; [destruct f1; reflexivity|]. rewrite <- Ep in *.
    assert (Hp : p <> []) by (rewrite Ep; discriminate).
    assert (Hne := b64_enc_nonempty p Hp).
    destruct f1 as [|f1]; [exfalso; destruct (b64_enc p); [congruence|cbn in H1; lia]|].
    rewrite (chunks_cons f1 64 _ Hne), (chunks_cons f2 48 _ Hp). cbn [map].
    destruct (Nat.le_gt_cases 48 (length p)) as [Hlen|Hlen].
    + assert (Hf : length (firstn 48 p) = 48%nat) by (rewrite firstn_length; lia).
      assert (Ee : b64_enc p = b64_enc (firstn 48 p) ++ b64_enc (skipn 48 p)).
      { rewrite <- b64_enc_app by (rewrite Hf; reflexivity). rewrite firstn_skipn. reflexivity. }
      assert (L64 : length (b64_enc (firstn 48 p)) = 64%nat) by (rewrite b64_enc_length, Hf; reflexivity).
      rewrite Ee at 1 2. rewrite (firstn_app_exact _ _ 64 L64), (skipn_app_exact _ _ 64 L64).
      f_equal. apply IH.
      * rewrite Ee, app_length, L64 in H1. lia.
      * rewrite skipn_length. assert (1 <= length p)%nat by (rewrite Ep; cbn; lia). lia.
    + assert (L : (length (b64_enc p) <= 64)%nat).
      { rewrite b64_enc_length. assert ((length p + 2) / 3 < 17)%nat; [|lia].
        apply Nat.div_lt_upper_bound; lia. }
      rewrite (firstn_all2 (n := 64)) by assumption. rewrite (firstn_all2 (n := 48)) by lia.
      rewrite (skipn_all2 (n := 64)) by assumption. rewrite (skipn_all2 (n := 48)) by lia.
      f_equal. destruct f1, f2; reflexivity.
Qed.

Theorem wrap_b64 p : wrap (b64_enc p) = map b64_enc (chunks (length p) 48 p).
Proof. apply chunks_b64; lia. Qed.

Lemma chunks_nonempty f n : forall s, (1 <= n)%nat -> Forall (fun l => l <> []) (chunks f n s).
Proof.
  induction f as [|f IH]; intros s Hn; cbn [chunks]; [constructor|].
  destruct s as [|c s]; [constructor|]. constructor; [|apply IH; assumption].
  destruct n; [lia|]. cbn. discriminate.
Qed.

Lemma chunks_wf f n : forall s, wf_bytes s -> Forall wf_bytes (chunks f n s).
Proof.
  induction f as [|f IH]; intros s W; cbn [chunks]; [constructor|].
  destruct s as [|c s]; [constructor|].
  rewrite <- (firstn_skipn n (c :: s)) in W. apply wf_bytes_app in W as [W1 W2].
  constructor; [exact W1|apply IH, W2].
Qed.
