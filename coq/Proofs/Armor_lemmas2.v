(* Proofs for C10, part 2: the reader run on the writer's output (unarmor_armor), CRC flag, kinds. *)
From Coq Require Import ZArith Bool List Lia ZifyBool.
Import ListNotations.
Require Import PV.Lib.Bytes PV.Lib.BytesLemmas PV.Model.Armor PV.Spec.Rfc4880_armor PV.Proofs.Armor_lemmas.
Open Scope Z_scope.


(* ---------- plain characters ---------- *)
Lemma plain_not_nl c : plain_char c = true -> c <> 10 /\ c <> 13 /\ ascii_char c = true.
Proof. unfold plain_char, ascii_char. intros H. repeat split; lia. Qed.

Lemma magic_plain c : magic_char c = true -> plain_char c = true.
Proof. unfold magic_char, plain_char. lia. Qed.

Lemma b64c_plain c : b64_text_char c = true -> plain_char c = true.
Proof.
  unfold b64_text_char, plain_char. intros H. apply orb_true_iff in H as [H|H]; [|lia].
  unfold is_b64c in H. destruct (b64_val c) eqn:E; [|discriminate]. unfold b64_val in E.
  repeat match type of E with (if ?c then _ else _) = _ => destruct c eqn:? end; try discriminate; lia.
Qed.

Lemma forallb_impl {A} (f g : A -> bool) l : (forall x, f x = true -> g x = true) -> forallb f l = true -> forallb g l = true.
Proof. intros H. rewrite !forallb_forall. auto. Qed.

(* ---------- strip_cr ---------- *)
Lemma strip_cr_eol l eol : is_eol eol -> forallb plain_char l = true -> strip_cr (l ++ eol) = l.
Proof.
  intros He. induction l as [|c l IH]; intros H.
  - destruct He as [->| ->]; reflexivity.
  - cbn [forallb] in H. apply andb_true_iff in H as [Hc Hl]. specialize (IH Hl).
    cbn [app strip_cr]. destruct (l ++ eol) as [|d r] eqn:E.
    + apply app_eq_nil in E as [-> _]. destruct (plain_not_nl c Hc) as (_ & N & _).
      apply Z.eqb_neq in N. rewrite N. reflexivity.
    + rewrite IH. reflexivity.
Qed.

Lemma strip_cr_plain l : forallb plain_char l = true -> strip_cr l = l.
Proof. intros H. rewrite <- (app_nil_r l) at 1. apply strip_cr_eol; [left; reflexivity|assumption]. Qed.

(* ---------- prefixes and suffixes ---------- *)
Lemma strip_prefix_app p l : strip_prefix p (p ++ l) = Some l.
Proof. induction p as [|a p IH]; [reflexivity|]. cbn. rewrite Z.eqb_refl. exact IH. Qed.

Lemma strip_suffix_app s l : strip_suffix s (l ++ s) = Some l.
Proof. unfold strip_suffix. rewrite rev_app_distr, strip_prefix_app, rev_involutive. reflexivity. Qed.

Lemma strip_prefix_head p l a b : strip_prefix (a :: p) (b :: l) = if a =? b then strip_prefix p l else None.
Proof. reflexivity. Qed.

(* ---------- BEGIN / END lines ---------- *)
Lemma wf_magic_parts k : wf_magic k = true -> k <> [] /\ forallb magic_char k = true /\ k <> signed_magic.
Proof.
  unfold wf_magic. intros H. apply andb_true_iff in H as [H H3]. apply andb_true_iff in H as [H1 H2].
  repeat split; [destruct k; [discriminate|discriminate]|assumption|].
  intros ->. rewrite eqb_bytes_refl in H3. discriminate.
Qed.

Lemma begin_line_plain k : forallb magic_char k = true -> forallb plain_char (begin_pfx ++ k ++ dash5) = true.
Proof.
  intros H. rewrite !forallb_app. rewrite (forallb_impl _ _ _ magic_plain H). reflexivity.
Qed.

Lemma end_line_plain k : forallb magic_char k = true -> forallb plain_char (end_pfx ++ k ++ dash5) = true.
Proof.
  intros H. rewrite !forallb_app. rewrite (forallb_impl _ _ _ magic_plain H). reflexivity.
Qed.

Lemma begin_magic_ok k eol : is_eol eol -> wf_magic k = true ->
  begin_magic ((begin_pfx ++ k ++ dash5) ++ eol) = Some k.
Proof.
  intros He Hk. destruct (wf_magic_parts k Hk) as (Hne & Hm & _).
  unfold begin_magic. rewrite strip_cr_eol by (try assumption; apply begin_line_plain, Hm).
  rewrite strip_prefix_app, strip_suffix_app. rewrite Hm.
  destruct k; [congruence|reflexivity].
Qed.

Lemma not_signed_begin k eol : is_eol eol -> wf_magic k = true ->
  eqb_bytes (strip_cr ((begin_pfx ++ k ++ dash5) ++ eol)) signed_begin = false.
Proof.
  intros He Hk. destruct (wf_magic_parts k Hk) as (Hne & Hm & Hs).
  rewrite strip_cr_eol by (try assumption; apply begin_line_plain, Hm).
  destruct (eqb_bytes (begin_pfx ++ k ++ dash5) signed_begin) eqn:E; [|reflexivity].
  apply eqb_bytes_eq in E. exfalso. apply Hs.
  change signed_begin with (begin_pfx ++ signed_magic ++ dash5) in E.
  apply app_inv_head in E. apply app_inv_tail in E. exact E.
Qed.

Lemma end_line_ok k eol tail : end_line k ((end_pfx ++ k ++ dash5) ++ eol ++ tail) = true.
Proof.
  unfold end_line. rewrite <- !app_assoc.
  replace (end_pfx ++ k ++ dash5 ++ eol ++ tail) with ((end_pfx ++ k ++ dash5) ++ eol ++ tail) by (rewrite <- !app_assoc; reflexivity).
  rewrite strip_prefix_app. reflexivity.
Qed.

(* ---------- header lines ---------- *)
Lemma has_sep_cons a r : has_sep (a :: r) = false -> has_sep r = false.
Proof. cbn [has_sep]. destruct r as [|b r']; [reflexivity|]. intros H. apply orb_false_iff in H as [_ H]. exact H. Qed.

Lemma split_hdr_ok k v : k <> [] -> v <> [] -> has_sep k = false ->
  split_hdr (k ++ 58 :: 32 :: v) = Some (k, v).
Proof.
  intros Hk Hv. induction k as [|c k IH]; [congruence|]. intros Hs.
  destruct k as [|c' k'].
  - cbn [app split_hdr]. change (58 =? 58) with true. change (32 =? 32) with true.
    destruct v; [congruence|reflexivity].
  - specialize (IH ltac:(discriminate) (has_sep_cons _ _ Hs)).
    change ((c :: c' :: k') ++ 58 :: 32 :: v) with (c :: ((c' :: k') ++ 58 :: 32 :: v)).
    remember ((c' :: k') ++ 58 :: 32 :: v) as r eqn:Er.
    cbn [split_hdr]. rewrite IH.
    destruct r as [|a [|b w]]; [discriminate| |].
    + destruct k'; cbn in Er; discriminate.
    + assert (C : (a =? 58) && (b =? 32) = false).
      { cbn [has_sep] in Hs. apply orb_false_iff in Hs as [_ Hs].
        destruct k' as [|d k''].
        - cbn in Er. injection Er as -> -> _. destruct (c' =? 58); reflexivity.
        - cbn in Er. injection Er as -> -> _. cbn [has_sep] in Hs. apply orb_false_iff in Hs as [Hs _]. exact Hs. }
      rewrite C. reflexivity.
Qed.

Lemma has_sep_snoc13 v : has_sep v = false -> has_sep (v ++ [13]) = false.
Proof.
  induction v as [|a r IH]; intros H; [reflexivity|].
  destruct r as [|b r'].
  - cbn. destruct (a =? 58); reflexivity.
  - cbn [app has_sep] in *. apply orb_false_iff in H as [H1 H2]. rewrite H1. cbn [orb]. apply IH. exact H2.
Qed.

Lemma has_sep_eol v eol : is_eol eol -> has_sep v = false -> has_sep (v ++ eol) = false.
Proof. intros [->| ->] H; [rewrite app_nil_r; exact H|apply has_sep_snoc13, H]. Qed.

Lemma wf_header_parts kv : wf_header kv = true ->
  fst kv <> [] /\ snd kv <> [] /\ forallb plain_char (fst kv) = true /\ forallb plain_char (snd kv) = true /\ has_sep (fst kv) = false.
Proof.
  unfold wf_header. intros H. repeat (apply andb_true_iff in H as [H ?]).
  repeat split; try assumption.
  - destruct (fst kv); [discriminate|discriminate].
  - destruct (snd kv); [discriminate|discriminate].
  - destruct (has_sep (fst kv)); [discriminate|reflexivity].
Qed.

Lemma hdr_line_eol kv eol : hdr_line kv ++ eol = fst kv ++ 58 :: 32 :: (snd kv ++ eol).
Proof. unfold hdr_line. rewrite <- !app_assoc. reflexivity. Qed.

Lemma parse_hdr_ok kv eol : is_eol eol -> wf_header kv = true -> parse_hdr (hdr_line kv ++ eol) = kv.
Proof.
  intros He H. destruct (wf_header_parts kv H) as (Hk & Hv & Pk & Pv & Hs).
  unfold parse_hdr. rewrite hdr_line_eol, split_hdr_ok.
  - unfold hdr_value. rewrite strip_cr_eol by assumption.
    destruct kv as [k v]; cbn [fst snd] in *. destruct v; [congruence|reflexivity].
  - assumption.
  - intros E. apply app_eq_nil in E as [E _]. congruence.
  - assumption.
Qed.

Lemma is_header_line_ok kv eol : is_eol eol -> wf_header kv = true -> is_header_line (hdr_line kv ++ eol) = true.
Proof.
  intros He H. destruct (wf_header_parts kv H) as (Hk & Hv & Pk & Pv & Hs).
  unfold is_header_line. rewrite hdr_line_eol, split_hdr_ok; [reflexivity|assumption| |assumption].
  intros E. apply app_eq_nil in E as [E _]. congruence.
Qed.

Lemma hdr_line_plain kv : wf_header kv = true -> forallb plain_char (hdr_line kv) = true.
Proof.
  intros H. destruct (wf_header_parts kv H) as (Hk & Hv & Pk & Pv & Hs).
  unfold hdr_line. rewrite !forallb_app, Pk, Pv. reflexivity.
Qed.

(* OrderedDict of pairs with distinct keys is the list itself *)
Lemma od_set_fresh d k v : ~ In k (map fst d) -> od_set d k v = d ++ [(k, v)].
Proof.
  induction d as [|[k' v'] d IH]; intros H; [reflexivity|].
  cbn [od_set]. destruct (eqb_bytes k k') eqn:E.
  - apply eqb_bytes_eq in E. subst. exfalso. apply H. left. reflexivity.
  - cbn [app]. f_equal. apply IH. intros Hin. apply H. right. exact Hin.
Qed.

Lemma od_fold_nodup ps : forall acc, NoDup (map fst (acc ++ ps)) ->
  fold_left (fun d kv => od_set d (fst kv) (snd kv)) ps acc = acc ++ ps.
Proof.
  induction ps as [|[k v] ps IH]; intros acc H; [symmetry; apply app_nil_r|].
  cbn [fold_left fst snd]. rewrite od_set_fresh.
  - rewrite IH; rewrite <- app_assoc; [reflexivity|exact H].
  - rewrite map_app in H. cbn [map fst] in H. apply NoDup_remove_2 in H.
    intros Hin. apply H. apply in_or_app. left. exact Hin.
Qed.

Lemma od_of_pairs_nodup ps : NoDup (map fst ps) -> od_of_pairs ps = ps.
Proof. intros H. unfold od_of_pairs. apply (od_fold_nodup ps []). exact H. Qed.

(* ---------- span ---------- *)
Lemma span_app {A} (f : A -> bool) a b :
  forallb f a = true -> match b with [] => True | x :: _ => f x = false end -> span f (a ++ b) = (a, b).
Proof.
  intros Ha Hb. induction a as [|x a IH].
  - destruct b as [|y b]; [reflexivity|]. cbn. rewrite Hb. reflexivity.
  - cbn [forallb] in Ha. apply andb_true_iff in Ha as [H1 H2]. cbn [app span]. rewrite H1, (IH H2). reflexivity.
Qed.

(* ---------- body lines ---------- *)
Lemma span_b64 q : wf_bytes q ->
  exists a pads, span is_b64c (b64_enc q) = (a, pads) /\ (q <> [] -> a <> []) /\
    (length a <= length (b64_enc q))%nat /\ (length pads <= 2)%nat /\ forallb (Z.eqb 61) pads = true.
Proof.
  induction q as [|x|x y|x y z r IH] using list_ind3; intros W.
  - exists [], []. cbn. repeat split; auto; try congruence; try lia.
  - inversion W; subst. cbn [b64_enc span].
    rewrite !b64_char_is by dm. change (is_b64c 61) with false.
    eexists _, _. split; [reflexivity|]. cbn. repeat split; try lia; try discriminate.
  - inversion W as [|? ? ? W']; subst. inversion W'; subst. cbn [b64_enc span].
    rewrite !b64_char_is by dm. change (is_b64c 61) with false.
    eexists _, _. split; [reflexivity|]. cbn. repeat split; try lia; try discriminate.
  - inversion W as [|? ? ? W1]; subst. inversion W1 as [|? ? ? W2]; subst. inversion W2; subst.
    destruct (IH ltac:(assumption)) as (a & pads & E & _ & L1 & L2 & P).
    cbn [b64_enc span]. rewrite !b64_char_is by dm. rewrite E.
    eexists _, _. split; [reflexivity|]. cbn [length]. repeat split; try lia; try assumption; try discriminate.
Qed.

Lemma b64_enc_plain q : wf_bytes q -> forallb plain_char (b64_enc q) = true.
Proof. intros W. apply (forallb_impl _ _ _ b64c_plain), b64_alphabet, W. Qed.

Lemma is_body_line_b64 q eol : is_eol eol -> wf_bytes q -> q <> [] -> (length q <= 48)%nat ->
  is_body_line (b64_enc q ++ eol) = true.
Proof.
  intros He W Hne Hl. unfold is_body_line. rewrite strip_cr_eol by (try assumption; apply b64_enc_plain, W).
  destruct (span_b64 q W) as (a & pads & E & Ha & L1 & L2 & P). rewrite E.
  assert (L : (length (b64_enc q) <= 64)%nat).
  { rewrite b64_enc_length. assert ((length q + 2) / 3 < 17)%nat; [|lia]. apply Nat.div_lt_upper_bound; lia. }
  specialize (Ha Hne). destruct a as [|a0 a]; [congruence|]. cbn [length] in *.
  rewrite P. replace (Nat.leb (S (length a)) 76) with true by (symmetry; apply Nat.leb_le; lia).
  replace (Nat.leb (length pads) 2) with true by (symmetry; apply Nat.leb_le; lia). reflexivity.
Qed.

(* ---------- CRC line ---------- *)
Lemma crc_int_byte_len v : 0 <= v < 16777216 -> int_byte_len v <= 3.
Proof.
  intros H. unfold int_byte_len, bit_length. destruct (v <=? 0) eqn:E; [cbn; lia|].
  assert (Z.log2 v < 24) by (apply Z.log2_lt_pow2; lia).
  assert (0 <= Z.log2 v) by apply Z.log2_nonneg. dm.
Qed.

Lemma crc_bytes p : exists x y z, int_to_bytes (crc24 p) armor_crc_octets = [x; y; z] /\ wf_bytes [x; y; z].
Proof.
  assert (B := crc24_lt_2_24 p). assert (L := length_int_to_bytes (crc24 p) armor_crc_octets).
  assert (I := crc_int_byte_len _ B). assert (N := int_byte_len_nonneg (crc24 p)).
  unfold armor_crc_octets in *.
  replace (Z.to_nat (Z.max (Z.max 3 (int_byte_len (crc24 p))) 1)) with 3%nat in L by lia.
  assert (W : wf_bytes (int_to_bytes (crc24 p) 3)) by apply wf_be.
  destruct (int_to_bytes (crc24 p) 3) as [|x [|y [|z [|? ?]]]]; try discriminate.
  exists x, y, z. split; [reflexivity|exact W].
Qed.

Lemma crc_text_shape p : exists c1 c2 c3 c4, crc_text p = [c1; c2; c3; c4] /\
  forallb is_b64c [c1; c2; c3; c4] = true.
Proof.
  destruct (crc_bytes p) as (x & y & z & E & W). unfold crc_text. rewrite E.
  inversion W as [|? ? ? W1]; subst. inversion W1 as [|? ? ? W2]; subst. inversion W2; subst.
  cbn [b64_enc]. eexists _, _, _, _. split; [reflexivity|]. cbn [forallb]. rewrite !b64_char_is by dm. reflexivity.
Qed.

Lemma crc_text_plain p : forallb plain_char (61 :: crc_text p) = true.
Proof.
  destruct (crc_text_shape p) as (c1 & c2 & c3 & c4 & E & A). rewrite E.
  cbn [forallb] in *. repeat (apply andb_true_iff in A as [? A]).
  assert (forall c, is_b64c c = true -> plain_char c = true) as Q.
  { intros c Hc. apply b64c_plain. unfold b64_text_char. rewrite Hc. reflexivity. }
  rewrite (Q c1), (Q c2), (Q c3), (Q c4) by assumption. reflexivity.
Qed.

Lemma crc_line_ok p eol : is_eol eol -> crc_line ((61 :: crc_text p) ++ eol) = Some (crc_text p).
Proof.
  intros He. unfold crc_line. rewrite strip_cr_eol by (try assumption; apply crc_text_plain).
  destruct (crc_text_shape p) as (c1 & c2 & c3 & c4 & E & A). rewrite E in *.
  rewrite A. reflexivity.
Qed.

Lemma crc_line_not_body p eol : is_eol eol -> is_body_line ((61 :: crc_text p) ++ eol) = false.
Proof.
  intros He. unfold is_body_line. rewrite strip_cr_eol by (try assumption; apply crc_text_plain).
  cbn [span]. change (is_b64c 61) with false. reflexivity.
Qed.

Lemma crc_text_decodes p : match b64_dec (crc_text p) with Some c => unbe c | None => 0 end = crc24 p.
Proof.
  destruct (crc_bytes p) as (x & y & z & E & W). unfold crc_text. rewrite b64_roundtrip by (rewrite E; exact W).
  apply unbe_int_to_bytes. apply crc24_lt_2_24.
Qed.

(* ---------- text <-> lines ---------- *)
Lemma split_lines_nonempty t : split_lines t <> [].
Proof. destruct t as [|c r]; cbn; [discriminate|]. destruct (c =? 10); [discriminate|]. destruct (split_lines r); discriminate. Qed.

Lemma split_lines_line l rest : forallb (fun c => negb (c =? 10)) l = true ->
  split_lines (l ++ 10 :: rest) = l :: split_lines rest.
Proof.
  induction l as [|c l IH]; intros H; [reflexivity|].
  cbn [forallb] in H. apply andb_true_iff in H as [H1 H2]. cbn [app split_lines].
  destruct (c =? 10); [discriminate|]. rewrite (IH H2). reflexivity.
Qed.

Lemma split_lines_with ls rest : Forall (fun l => forallb (fun c => negb (c =? 10)) l = true) ls ->
  split_lines (concat (map (fun l => l ++ [10]) ls) ++ rest) = ls ++ split_lines rest.
Proof.
  induction ls as [|l ls IH]; intros H; [reflexivity|].
  inversion H; subst. cbn [map concat app]. rewrite <- !app_assoc. cbn [app].
  rewrite split_lines_line by assumption. rewrite IH by assumption. reflexivity.
Qed.

Lemma plain_no_nl l : forallb plain_char l = true -> forallb (fun c => negb (c =? 10)) l = true.
Proof. apply forallb_impl. intros c H. destruct (plain_not_nl c H) as (N & _). lia. Qed.

Lemma removelast_app_ne {A} (a b : list A) : b <> [] -> removelast (a ++ b) = a ++ removelast b.
Proof. apply removelast_app. Qed.

Lemma last_app_ne {A} (a b : list A) d : b <> [] -> last (a ++ b) d = last b d.
Proof.
  intros H. induction a as [|x a IH]; [reflexivity|].
  cbn [app]. change (last (x :: a ++ b) d) with (match a ++ b with [] => x | _ => last (a ++ b) d end).
  destruct (a ++ b) eqn:E; [apply app_eq_nil in E as [_ E]; congruence|]. exact IH.
Qed.
