(* Proofs for C10, part 3: assembling unarmor (armor ...), transports, CRC flag, kind table, refutations. *)
From Coq Require Import ZArith Bool List Lia ZifyBool.
Import ListNotations.
Require Import PV.Lib.Bytes PV.Lib.BytesLemmas PV.Model.Armor PV.Spec.Rfc4880_armor
  PV.Proofs.Armor_lemmas PV.Proofs.Armor_lemmas2.
Open Scope Z_scope.

Lemma wrap_nonempty s : s <> [] -> wrap s <> [].
Proof.
  intros H. unfold wrap. destruct s as [|c s]; [congruence|].
  change (length (c :: s)) with (S (length s)). rewrite chunks_cons by discriminate. discriminate.
Qed.

Lemma end_line_ok' k eol : end_line k ((end_pfx ++ k ++ dash5) ++ eol) = true.
Proof. unfold end_line. rewrite strip_prefix_app. reflexivity. Qed.

Lemma is_eol_plainish eol : is_eol eol -> forallb (fun c => negb (c =? 10)) eol = true /\ forallb ascii_char eol = true
  /\ forallb (fun c => negb (b64_text_char c)) eol = true /\ is_blank eol = true /\ is_header_line eol = false.
Proof. intros [->| ->]; repeat split; reflexivity. Qed.

Section Assembly.
Variables (k : text) (h : list (text * text)) (p : bytes) (eol : text).
Hypothesis He : is_eol eol.
Hypothesis Hk : wf_magic k = true.
Hypothesis Hh : wf_headers h.
Hypothesis Wp : wf_bytes p.
Hypothesis Np : p <> [].

Definition E (l : text) : text := l ++ eol.
Definition HL : list text := map E (map hdr_line h).
Definition WL : list text := map E (wrap (b64_enc p)).

Lemma lines_shape tail :
  map E (armor_lines k h p) ++ tail =
  E (begin_pfx ++ k ++ dash5) :: (HL ++ E [] :: (WL ++ E (61 :: crc_text p) :: E (end_pfx ++ k ++ dash5) :: tail)).
Proof.
  unfold armor_lines, HL, WL. cbn [map]. rewrite map_app. cbn [map]. rewrite map_app. cbn [map app].
  rewrite <- app_assoc. cbn [app]. rewrite <- app_assoc. cbn [app]. reflexivity.
Qed.

Lemma HL_headers : forallb is_header_line HL = true.
Proof.
  destruct Hh as [Hw _]. unfold HL. apply forallb_forall. intros x Hx.
  apply in_map_iff in Hx as (y & <- & Hy). apply in_map_iff in Hy as (kv & <- & Hkv).
  rewrite forallb_forall in Hw. apply is_header_line_ok; auto.
Qed.

Lemma chunk_facts q : In q (chunks (length p) 48 p) -> wf_bytes q /\ q <> [] /\ (length q <= 48)%nat.
Proof.
  intros H. repeat split.
  - assert (F := chunks_wf (length p) 48 p Wp). rewrite Forall_forall in F. auto.
  - assert (F := chunks_nonempty (length p) 48 p ltac:(lia)). rewrite Forall_forall in F. auto.
  - assert (F := chunks_le (length p) 48 p). rewrite Forall_forall in F. auto.
Qed.

Lemma WL_body : forallb is_body_line WL = true.
Proof.
  unfold WL. rewrite wrap_b64. apply forallb_forall. intros x Hx.
  apply in_map_iff in Hx as (y & <- & Hy). apply in_map_iff in Hy as (q & <- & Hq).
  destruct (chunk_facts q Hq) as (W & N & L). apply is_body_line_b64; assumption.
Qed.

Lemma WL_nonempty : is_nil WL = false.
Proof.
  unfold WL. assert (H := wrap_nonempty (b64_enc p) (b64_enc_nonempty p Np)).
  destruct (wrap (b64_enc p)); [congruence|reflexivity].
Qed.

Lemma block_at_armor tail fin :
  block_at (map E (armor_lines k h p) ++ tail) fin = Some (k, HL, WL, crc_text p).
Proof.
  rewrite lines_shape. unfold block_at. unfold E at 1. rewrite begin_magic_ok by assumption.
  destruct (is_eol_plainish eol He) as (_ & _ & _ & Hb & Hn).
  rewrite (span_app is_header_line HL) by (try apply HL_headers; exact Hn).
  cbv beta iota. change (E []) with eol. rewrite Hb.
  rewrite (span_app is_body_line WL) by (try apply WL_body; unfold E; apply crc_line_not_body; exact He).
  cbv beta iota. rewrite WL_nonempty. unfold E at 1. rewrite crc_line_ok by assumption.
  unfold E at 1. rewrite end_line_ok'. reflexivity.
Qed.

Lemma first_line_not_signed tail fin : signed_at (map E (armor_lines k h p) ++ tail) fin = None.
Proof.
  rewrite lines_shape. unfold signed_at, signed_at_gen. unfold E at 1. rewrite not_signed_begin by assumption. reflexivity.
Qed.

Lemma search_armor tail fin : search (map E (armor_lines k h p) ++ tail) fin = Some (None, (k, HL, WL, crc_text p)).
Proof.
  assert (S := first_line_not_signed tail fin). assert (B := block_at_armor tail fin).
  unfold search. unfold signed_at in S.
  destruct (map E (armor_lines k h p) ++ tail) as [|l0 r] eqn:EE.
  - rewrite lines_shape in EE. discriminate.
  - cbn [search_gen]. rewrite S, B. reflexivity.
Qed.

Lemma search_skip pre ls fin : forallb nostart pre = true -> search (pre ++ ls) fin = search ls fin.
Proof.
  induction pre as [|l pre IH]; intros H; [reflexivity|].
  cbn [forallb] in H. apply andb_true_iff in H as [H1 H2]. unfold nostart in H1. apply andb_true_iff in H1 as [Ha Hb].
  unfold search in *. cbn [app search_gen]. unfold signed_at_gen, block_at.
  destruct (eqb_bytes (strip_cr l) signed_begin); [discriminate|].
  destruct (begin_magic l); [discriminate|]. apply IH, H2.
Qed.

Lemma decode_body : b64_dec (concat (map (fun l => l ++ [10]) WL)) = Some p.
Proof.
  unfold b64_dec, WL. rewrite map_map. unfold E.
  rewrite <- a2b_skip. destruct (is_eol_plainish eol He) as (_ & _ & H3 & _).
  rewrite (filter_concat_nl b64_text_char eol) by (try exact H3; reflexivity).
  rewrite wrap_concat. rewrite filter_all by (apply b64_alphabet, Wp). apply b64_roundtrip, Wp.
Qed.

Lemma parse_headers : map parse_hdr HL = h.
Proof.
  destruct Hh as [Hw _]. rewrite forallb_forall in Hw. unfold HL. rewrite !map_map.
  rewrite <- (map_id h) at 2. apply map_ext_in. intros kv Hkv. unfold E. apply parse_hdr_ok; auto.
Qed.

Lemma HL_nil : is_nil HL = is_nil h.
Proof. unfold HL. destruct h; reflexivity. Qed.

Lemma armor_lines_plain : Forall (fun l => forallb plain_char l = true) (armor_lines k h p).
Proof.
  destruct (wf_magic_parts k Hk) as (_ & Hm & _). destruct Hh as [Hw _]. rewrite forallb_forall in Hw.
  unfold armor_lines. constructor; [apply begin_line_plain, Hm|].
  apply Forall_app. split.
  - apply Forall_forall. intros x Hx. apply in_map_iff in Hx as (kv & <- & Hkv). apply hdr_line_plain; auto.
  - constructor; [reflexivity|]. apply Forall_app. split.
    + rewrite wrap_b64. apply Forall_forall. intros x Hx. apply in_map_iff in Hx as (q & <- & Hq).
      apply b64_enc_plain. apply (chunk_facts q Hq).
    + constructor; [apply crc_text_plain|]. constructor; [apply end_line_plain, Hm|constructor].
Qed.

Lemma E_lines_no_nl : Forall (fun l => forallb (fun c => negb (c =? 10)) l = true) (map E (armor_lines k h p)).
Proof.
  apply Forall_forall. intros x Hx. apply in_map_iff in Hx as (l & <- & Hl).
  assert (F := armor_lines_plain). rewrite Forall_forall in F. unfold E. rewrite forallb_app.
  rewrite (plain_no_nl l (F l Hl)). destruct (is_eol_plainish eol He) as (H1 & _). rewrite H1. reflexivity.
Qed.

Lemma with_eol_E ls : with_eol eol ls = concat (map (fun l => l ++ [10]) (map E ls)).
Proof. unfold with_eol. rewrite map_map. reflexivity. Qed.

Lemma forallb_concat {A} (f : A -> bool) ls : forallb f (concat ls) = forallb (forallb f) ls.
Proof. induction ls as [|l ls IH]; [reflexivity|]. cbn. rewrite forallb_app, IH. reflexivity. Qed.

Lemma with_eol_ascii : is_ascii_text (with_eol eol (armor_lines k h p)) = true.
Proof.
  unfold is_ascii_text, with_eol. rewrite forallb_concat. apply forallb_forall. intros x Hx.
  apply in_map_iff in Hx as (l & <- & Hl). assert (F := armor_lines_plain). rewrite Forall_forall in F.
  rewrite !forallb_app. destruct (is_eol_plainish eol He) as (_ & H2 & _). rewrite H2.
  rewrite (forallb_impl plain_char ascii_char l) by (try apply F, Hl; intros c Hc; apply (plain_not_nl c Hc)).
  reflexivity.
Qed.

Theorem unarmor_armor_embedded pre post :
  Forall (fun l => forallb line_char l = true /\ nostart l = true) pre ->
  is_ascii_text post = true ->
  unarmor (concat (map (fun l => l ++ [10]) pre) ++ with_eol eol (armor_lines k h p) ++ post)
  = UArmor k (headers_opt h) p (crc24 p) false None.
Proof.
  intros Hpre Hpost. unfold unarmor, unarmor_gen.
  assert (A : is_ascii_text (concat (map (fun l => l ++ [10]) pre) ++ with_eol eol (armor_lines k h p) ++ post) = true).
  { unfold is_ascii_text. rewrite !forallb_app. fold (is_ascii_text (with_eol eol (armor_lines k h p))).
    rewrite with_eol_ascii. fold (is_ascii_text post). rewrite Hpost. rewrite forallb_concat.
    rewrite andb_true_r. apply forallb_forall. intros x Hx. apply in_map_iff in Hx as (l & <- & Hl).
    rewrite Forall_forall in Hpre. destruct (Hpre l Hl) as [Hc _]. rewrite forallb_app.
    rewrite (forallb_impl line_char ascii_char l) by (try exact Hc; unfold line_char; intros c H; apply andb_true_iff in H; tauto).
    reflexivity. }
  rewrite A. cbn [negb].
  assert (Pno : Forall (fun l => forallb (fun c => negb (c =? 10)) l = true) pre).
  { rewrite Forall_forall in *. intros l Hl. destruct (Hpre l Hl) as [Hc _].
    apply (forallb_impl line_char _ l); [|exact Hc]. unfold line_char. intros c H. apply andb_true_iff in H. tauto. }
  rewrite split_lines_with by exact Pno. rewrite with_eol_E, split_lines_with by apply E_lines_no_nl.
  assert (Sne := split_lines_nonempty post).
  rewrite !removelast_app_ne by (try assumption; intros X; apply app_eq_nil in X as [_ X]; congruence).
  rewrite !last_app_ne by (try assumption; intros X; apply app_eq_nil in X as [_ X]; congruence).
  rewrite search_skip.
  - fold search. rewrite search_armor. rewrite decode_body, crc_text_decodes, Z.eqb_refl, HL_nil, parse_headers.
    rewrite od_of_pairs_nodup by apply Hh. unfold headers_opt. destruct (is_nil h); reflexivity.
  - apply forallb_forall. intros l Hl. rewrite Forall_forall in Hpre. apply (Hpre l Hl).
Qed.
End Assembly.

(* ---------- armor as a text of lines ---------- *)
Lemma join_nl ls : ls <> [] -> join [10] ls ++ [10] = concat (map (fun l => l ++ [10]) ls).
Proof.
  induction ls as [|l ls IH]; [congruence|]. intros _. destruct ls as [|l' ls].
  - cbn. rewrite app_nil_r. reflexivity.
  - change (join [10] (l :: l' :: ls)) with (l ++ [10] ++ join [10] (l' :: ls)).
    change (concat (map (fun l => l ++ [10]) (l :: l' :: ls))) with ((l ++ [10]) ++ concat (map (fun l => l ++ [10]) (l' :: ls))).
    rewrite <- IH by discriminate. rewrite <- !app_assoc. reflexivity.
Qed.

Lemma with_eol_nil ls : with_eol [] ls = concat (map (fun l => l ++ [10]) ls).
Proof. unfold with_eol. f_equal. apply map_ext. intros l. rewrite app_nil_r. reflexivity. Qed.

Lemma armor_eq_lines k h p : p <> [] -> armor k h p = with_eol [] (armor_lines k h p).
Proof.
  intros Np. rewrite with_eol_nil. unfold armor, armor_lines.
  cbn [map concat]. rewrite map_app, concat_app. cbn [map concat]. rewrite map_app, concat_app. cbn [map concat].
  assert (J := join_nl (wrap (b64_enc p)) (wrap_nonempty _ (b64_enc_nonempty p Np))). unfold text in *. rewrite <- J.
  rewrite map_map. rewrite <- !app_assoc. cbn [app]. reflexivity.
Qed.

Lemma to_crlf_line l r : forallb (fun c => negb (c =? 10)) l = true -> to_crlf (l ++ 10 :: r) = l ++ 13 :: 10 :: to_crlf r.
Proof.
  induction l as [|c l IH]; intros H; [reflexivity|].
  cbn [forallb] in H. apply andb_true_iff in H as [H1 H2]. cbn [app to_crlf].
  destruct (c =? 10); [discriminate|]. rewrite (IH H2). reflexivity.
Qed.

Lemma to_crlf_lines ls : Forall (fun l => forallb (fun c => negb (c =? 10)) l = true) ls ->
  to_crlf (with_eol [] ls) = with_eol [13] ls.
Proof.
  unfold with_eol. induction ls as [|l ls IH]; intros H; [reflexivity|].
  inversion H; subst. cbn [map concat]. rewrite app_nil_r, <- !app_assoc. cbn [app].
  rewrite to_crlf_line by assumption. rewrite IH by assumption. reflexivity.
Qed.

Theorem unarmor_armor k h p : wf_magic k = true -> wf_headers h -> wf_bytes p -> p <> [] ->
  unarmor (armor k h p) = UArmor k (headers_opt h) p (crc24 p) false None.
Proof.
  intros Hk Hh Wp Np. rewrite armor_eq_lines by assumption.
  assert (T := unarmor_armor_embedded k h p [] (or_introl eq_refl) Hk Hh Wp Np [] [] (Forall_nil _) eq_refl).
  cbn [map concat app] in T. rewrite app_nil_r in T. exact T.
Qed.

Theorem unarmor_armor_crlf k h p : wf_magic k = true -> wf_headers h -> wf_bytes p -> p <> [] ->
  unarmor (to_crlf (armor k h p)) = UArmor k (headers_opt h) p (crc24 p) false None.
Proof.
  intros Hk Hh Wp Np. rewrite armor_eq_lines by assumption.
  rewrite to_crlf_lines.
  - assert (T := unarmor_armor_embedded k h p [13] (or_intror eq_refl) Hk Hh Wp Np [] [] (Forall_nil _) eq_refl).
    cbn [map concat app] in T. rewrite app_nil_r in T. exact T.
  - assert (F := armor_lines_plain k h p Hk Hh Wp). rewrite Forall_forall in *. intros l Hl. apply plain_no_nl, F, Hl.
Qed.

(* ---------- CRC flag ---------- *)
Theorem crc_flag_iff t m h body crc warn c :
  unarmor t = UArmor m h body crc warn c -> (warn = true <-> crc24 body <> crc).
Proof.
  unfold unarmor, unarmor_gen. destruct (negb (is_ascii_text t)); [discriminate|].
  destruct (search_gen _ _ _) as [[cl [[[m' hl] bl] crc4]]|]; [|discriminate].
  destruct (b64_dec (concat _)) as [b|]; [|discriminate].
  intros H. injection H as <- <- <- <- <- <-. rewrite negb_true_iff, Z.eqb_neq. tauto.
Qed.

(* the body handed on is what base64 gives for the body lines; a text that is not ASCII is handed on untouched *)
Theorem unarmor_binary t : is_ascii_text t = false -> unarmor t = UBinary t.
Proof. intros H. unfold unarmor, unarmor_gen. rewrite H. reflexivity. Qed.

(* ---------- kinds ---------- *)
Theorem right_kind_accepted k : rejected (parse_decision (class_of k) (Some (magic_of k)) (is_clear k)) = false.
Proof. destruct k; vm_compute; reflexivity. Qed.

Theorem wrong_kind_rejected k c : cls_eqb c (class_of k) = false ->
  (k = KCleartext /\ c = ClsSignature) \/ rejected (parse_decision c (Some (magic_of k)) (is_clear k)) = true.
Proof. destruct k, c; vm_compute; intros H; try discriminate; auto. Qed.

Theorem cleartext_block_loads_as_signature : parse_decision ClsSignature (Some (magic_of KCleartext)) true = DAccept.
Proof. reflexivity. Qed.

Definition rfc_block_of (k : kind) : option rfc_block :=
  match k with
  | KPublicKey => Some RPublicKeyBlock | KPrivateKey => Some RPrivateKeyBlock | KKeyEmpty => None
  | KMessage => Some RMessage | KCleartext => Some RSignature | KSignature => Some RSignature
  end.

Theorem armor_label_matches_kind k b : rfc_block_of k = Some b -> magic_of k = rfc_label b /\ wf_magic (magic_of k) = true.
Proof. destruct k; intros H; injection H as <- || discriminate; split; reflexivity. Qed.

Theorem armor_first_last_line k h p : exists mid,
  armor k h p = (begin_pfx ++ k ++ dash5 ++ [10]) ++ mid ++ (end_pfx ++ k ++ dash5 ++ [10]).
Proof.
  exists (concat (map (fun kv => hdr_line kv ++ [10]) h) ++ [10] ++ join [10] (wrap (b64_enc p)) ++ [10] ++ [61] ++ crc_text p ++ [10]).
  unfold armor. rewrite <- !app_assoc. reflexivity.
Qed.
