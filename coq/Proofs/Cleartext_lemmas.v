(* Proofs for C11, part 1: dash escaping, lines, canonical text. *)
From Coq Require Import ZArith Bool List Lia ZifyBool.
Import ListNotations.
Require Import PV.Lib.Bytes PV.Lib.BytesLemmas PV.Model.Armor PV.Model.Cleartext PV.Spec.Rfc4880_cleartext
  PV.Proofs.Armor_lemmas PV.Proofs.Armor_lemmas2.
Open Scope Z_scope.

(* ---------- dash_unescape (dash_escape t) = t ---------- *)
Lemma esc_nil b t : esc b t = [] -> t = [].
Proof. destruct t as [|c r]; [reflexivity|]. cbn [esc]. destruct (b && (c =? 45)); discriminate. Qed.

Lemma unesc_cons b c y : unesc b (c :: y) =
  if b && (c =? 45) && (match y with d :: _ => d =? 32 | [] => false end) then unesc false (tl y) else c :: unesc (c =? 10) y.
Proof.
  destruct y as [|d r]; cbn [unesc tl].
  - rewrite andb_false_r. reflexivity.
  - reflexivity.
Qed.

Theorem unescape_escape_gen t : forall b, unesc b (esc b t) = t.
Proof.
  induction t as [|c r IH]; intros b; [reflexivity|].
  cbn [esc]. destruct (b && (c =? 45)) eqn:E.
  - apply andb_true_iff in E as [-> E]. apply Z.eqb_eq in E. subst c.
    change (45 =? 10) with false. cbn [app].
    rewrite unesc_cons. cbn [andb Z.eqb tl]. change (45 =? 45) with true. change (32 =? 32) with true. cbn [andb].
    rewrite unesc_cons. cbn [andb]. change (45 =? 10) with false. rewrite IH. reflexivity.
  - cbn [app]. rewrite unesc_cons. rewrite E. cbn [andb]. rewrite IH. reflexivity.
Qed.

Theorem unescape_escape t : dash_unescape (dash_escape t) = t.
Proof. apply unescape_escape_gen. Qed.

(* ---------- lines ---------- *)
Lemma split_lines_eq_on t : split_lines t = split_on 10 t.
Proof. induction t as [|c r IH]; [reflexivity|]. cbn. rewrite IH. reflexivity. Qed.

Lemma split_on_nonempty s t : split_on s t <> [].
Proof. destruct t as [|c r]; cbn; [discriminate|]. destruct (c =? s); [discriminate|]. destruct (split_on s r); discriminate. Qed.

Lemma split_on_app s a b : split_on s (a ++ s :: b) =
  removelast (split_on s a) ++ [last (split_on s a) []] ++ split_on s b.
Proof.
  induction a as [|c a IH].
  - cbn. rewrite Z.eqb_refl. reflexivity.
  - cbn [app split_on]. destruct (c =? s); [rewrite IH|].
    + assert (N := split_on_nonempty s a). destruct (split_on s a) as [|x xs]; [congruence|]. reflexivity.
    + rewrite IH. assert (N := split_on_nonempty s a). destruct (split_on s a) as [|x xs] eqn:Ea; [congruence|].
      destruct xs as [|y ys]; reflexivity.
Qed.

Lemma split_on_app' s a b : split_on s (a ++ s :: b) = split_on s a ++ split_on s b.
Proof.
  rewrite split_on_app. rewrite app_assoc. rewrite <- app_removelast_last by apply split_on_nonempty. reflexivity.
Qed.

Lemma split_lines_app_nl a b : split_lines (a ++ 10 :: b) = split_lines a ++ split_lines b.
Proof. rewrite !split_lines_eq_on. apply split_on_app'. Qed.

Definition no_sep (s : Z) (l : text) : bool := forallb (fun c => negb (c =? s)) l.

Lemma split_on_one s l : no_sep s l = true -> split_on s l = [l].
Proof.
  induction l as [|c l IH]; intros H; [reflexivity|].
  cbn [no_sep forallb] in H. apply andb_true_iff in H as [H1 H2]. cbn [split_on].
  destruct (c =? s); [discriminate|]. rewrite (IH H2). reflexivity.
Qed.

Lemma join_cons sep l r : r <> [] -> join sep (l :: r) = l ++ sep ++ join sep r.
Proof. destruct r; [congruence|reflexivity]. Qed.

Lemma split_join s ls : ls <> [] -> Forall (fun l => no_sep s l = true) ls -> split_on s (join [s] ls) = ls.
Proof.
  induction ls as [|l ls IH]; [congruence|]. intros _ F. inversion F; subst.
  destruct ls as [|l' ls].
  - cbn [join]. apply split_on_one. assumption.
  - rewrite join_cons by discriminate. cbn [app]. rewrite split_on_app', split_on_one by assumption.
    rewrite IH by (try discriminate; assumption). reflexivity.
Qed.

Lemma split_on_no_sep s t : Forall (fun l => no_sep s l = true) (split_on s t).
Proof.
  induction t as [|c r IH]; [repeat constructor|].
  cbn [split_on]. destruct (c =? s) eqn:E; [constructor; [reflexivity|exact IH]|].
  destruct (split_on s r) as [|l ls]; [repeat constructor; cbn; rewrite E; reflexivity|].
  inversion IH; subst. constructor; [|assumption]. cbn [no_sep forallb]. rewrite E. cbn. assumption.
Qed.

Lemma join_split s t : join [s] (split_on s t) = t.
Proof.
  induction t as [|c r IH]; [reflexivity|].
  cbn [split_on]. destruct (c =? s) eqn:E.
  - apply Z.eqb_eq in E. subst. rewrite join_cons by apply split_on_nonempty. cbn [app]. rewrite IH. reflexivity.
  - assert (N := split_on_nonempty s r). destruct (split_on s r) as [|l ls]; [congruence|].
    destruct ls as [|l' ls]; cbn [join] in *; rewrite <- IH; reflexivity.
Qed.

Lemma join_prepend sep x l rest : join sep ((x ++ l) :: rest) = x ++ join sep (l :: rest).
Proof. destruct rest; cbn [join]; [reflexivity|]. rewrite <- app_assoc. reflexivity. Qed.

(* ---------- the spec's helper functions are the model's ---------- *)
Lemma rfc_lines_eq t : rfc_lines t = split_lines t.
Proof. induction t as [|c r IH]; [reflexivity|]. cbn. rewrite IH. reflexivity. Qed.
Lemma rfc_join_eq sep ls : rfc_join sep ls = join sep ls.
Proof. induction ls as [|l ls IH]; [reflexivity|]. cbn. rewrite IH. reflexivity. Qed.
Lemma rfc_drop_cr_eq l : rfc_drop_cr l = strip_cr l.
Proof. induction l as [|c r IH]; [reflexivity|]. cbn. rewrite IH. reflexivity. Qed.
Lemma rfc_line_contents_eq ls : rfc_line_contents ls = cr_lines ls.
Proof. induction ls as [|l ls IH]; [reflexivity|]. cbn. rewrite IH, rfc_drop_cr_eq. reflexivity. Qed.

(* ---------- dash_escape is the RFC 4880 7.1 escaping ---------- *)
Lemma esc_lines t :
  esc true t = join [10] (map rfc_escape_line (split_lines t)) /\
  esc false t = match split_lines t with l :: ls => join [10] (l :: map rfc_escape_line ls) | [] => [] end.
Proof.
  induction t as [|c r [IHt IHf]]; [split; reflexivity|].
  assert (N := split_lines_nonempty r).
  cbn [split_lines esc]. destruct (c =? 10) eqn:E.
  - apply Z.eqb_eq in E. subst c. change (10 =? 45) with false. rewrite !andb_false_r. cbn [map app].
    assert (M : map rfc_escape_line (split_lines r) <> []) by (destruct (split_lines r); [congruence|discriminate]).
    split; (change (rfc_escape_line []) with (@nil Z) || idtac); rewrite join_cons by exact M; cbn [app]; rewrite IHt; reflexivity.
  - destruct (split_lines r) as [|l ls] eqn:S; [congruence|]. rewrite IHf. cbn [map]. split.
    + cbn [andb]. destruct (c =? 45) eqn:E45.
      * apply Z.eqb_eq in E45. subst c. change (rfc_escape_line (45 :: l)) with ([45; 32; 45] ++ l).
        rewrite join_prepend. reflexivity.
      * replace (rfc_escape_line (c :: l)) with ([c] ++ l) by (unfold rfc_escape_line; rewrite E45; reflexivity).
        rewrite join_prepend. reflexivity.
    + cbn [andb]. change (c :: l) with ([c] ++ l). apply eq_sym, join_prepend.
Qed.

Theorem dash_escape_eq_rfc t : dash_escape t = rfc_dash_escape t.
Proof. unfold dash_escape, rfc_dash_escape. rewrite rfc_join_eq, rfc_lines_eq. apply esc_lines. Qed.

(* ---------- escaped lines are safe ---------- *)
Lemma rfc_escape_line_safe l : safe_line (rfc_escape_line l) = true.
Proof.
  destruct l as [|c r]; [reflexivity|]. unfold rfc_escape_line. destruct (c =? 45) eqn:E; [reflexivity|].
  cbn [safe_line]. rewrite E. reflexivity.
Qed.

Lemma rfc_escape_line_no_nl l : no_sep 10 l = true -> no_sep 10 (rfc_escape_line l) = true.
Proof.
  destruct l as [|c r]; [reflexivity|]. unfold rfc_escape_line. destruct (c =? 45); [|auto]. intros H. cbn [no_sep forallb] in *. exact H.
Qed.

Theorem escaped_lines : forall t, split_lines (dash_escape t) = map rfc_escape_line (split_lines t).
Proof.
  intros t. unfold dash_escape. rewrite (proj1 (esc_lines t)). rewrite split_lines_eq_on at 1. apply split_join.
  - assert (N := split_lines_nonempty t). destruct (split_lines t); [congruence|discriminate].
  - apply Forall_forall. intros x Hx. apply in_map_iff in Hx as (l & <- & Hl). apply rfc_escape_line_no_nl.
    assert (F := split_on_no_sep 10 t). rewrite <- split_lines_eq_on in F. rewrite Forall_forall in F. auto.
Qed.

Theorem escaped_lines_safe t : Forall (fun l => safe_line l = true) (split_lines (dash_escape t)).
Proof.
  rewrite escaped_lines. apply Forall_forall. intros x Hx. apply in_map_iff in Hx as (l & <- & _). apply rfc_escape_line_safe.
Qed.

Lemma strip_cr_head c d r : strip_cr (c :: d :: r) = c :: strip_cr (d :: r).
Proof. reflexivity. Qed.

Lemma strip_prefix_some p : forall l r, strip_prefix p l = Some r -> l = p ++ r.
Proof.
  induction p as [|a p IH]; intros l r H; [cbn in H; injection H as ->; reflexivity|].
  destruct l as [|b l]; [discriminate|]. cbn in H. destruct (a =? b) eqn:E; [|discriminate].
  apply Z.eqb_eq in E. subst. cbn. f_equal. apply IH, H.
Qed.

(* a safe line opens nothing: it is neither a BEGIN line nor the SIGNED MESSAGE line *)
Theorem no_line_is_armor_header l : safe_line l = true -> nostart l = true.
Proof.
  intros H. unfold nostart.
  assert (P : forall x, strip_prefix [45; 45] (strip_cr l) = Some x -> False).
  { intros x Hx. apply strip_prefix_some in Hx. cbn [app] in Hx.
    destruct l as [|c [|d r]].
    - cbn in Hx. discriminate.
    - cbn in Hx. destruct (c =? 13); discriminate.
    - rewrite strip_cr_head in Hx. injection Hx as Hc Hd. subst c. cbn in H.
      apply Z.eqb_eq in H. subst d.
      destruct r as [|e r]; [cbn in Hd; discriminate|]. discriminate. }
  apply andb_true_iff. split.
  - destruct (eqb_bytes (strip_cr l) signed_begin) eqn:E; [|reflexivity]. apply eqb_bytes_eq in E.
    exfalso. apply (P (skipn 2 signed_begin)). rewrite E. reflexivity.
  - unfold begin_magic. destruct (strip_prefix begin_pfx (strip_cr l)) as [r|] eqn:E; [|reflexivity].
    exfalso. apply strip_prefix_some in E. apply (P (skipn 2 begin_pfx ++ r)). rewrite E. reflexivity.
Qed.

(* ---------- canonical text ---------- *)
Lemma cr_lines_cons l ls : ls <> [] -> cr_lines (l :: ls) = strip_cr l :: cr_lines ls.
Proof. destruct ls; [congruence|reflexivity]. Qed.

Lemma cr_lines_nonempty ls : ls <> [] -> cr_lines ls <> [].
Proof. destruct ls as [|l [|l' ls]]; [congruence|discriminate|discriminate]. Qed.

Lemma canon_step c r : c <> 10 -> ~ (c = 13 /\ exists r', r = 10 :: r') -> canon_pgpy (c :: r) = c :: canon_pgpy r.
Proof.
  intros H10 Hx. cbn [canon_pgpy]. apply Z.eqb_neq in H10. rewrite H10.
  destruct (c =? 13) eqn:E13; [|reflexivity]. apply Z.eqb_eq in E13. subst c.
  destruct r as [|d r']; [reflexivity|]. destruct (d =? 10) eqn:Ed; [|reflexivity].
  apply Z.eqb_eq in Ed. subst d. exfalso. apply Hx. split; [reflexivity|]. exists r'. reflexivity.
Qed.

Lemma canon_lines_step c r : c <> 10 -> ~ (c = 13 /\ exists r', r = 10 :: r') ->
  canon_lines (c :: r) = match canon_lines r with l :: ls => (c :: l) :: ls | [] => [] end.
Proof.
  intros H10 Hx. unfold canon_lines. cbn [split_lines]. apply Z.eqb_neq in H10. rewrite H10.
  assert (N := split_lines_nonempty r). destruct (split_lines r) as [|l ls] eqn:S; [congruence|].
  destruct ls as [|l' ls]; [reflexivity|].
  rewrite !cr_lines_cons by discriminate. f_equal.
  destruct l as [|x l]; [|reflexivity].
  (* the first line of r is empty: r starts with LF, so c is not CR *)
  destruct r as [|d r']; [cbn in S; discriminate|]. cbn [split_lines] in S.
  destruct (d =? 10) eqn:Ed.
  - apply Z.eqb_eq in Ed. subst d. cbn. destruct (c =? 13) eqn:E13; [|reflexivity].
    apply Z.eqb_eq in E13. exfalso. apply Hx. split; [assumption|]. exists r'. reflexivity.
  - destruct (split_lines r'); discriminate.
Qed.

Theorem canon_pgpy_lines t : canon_pgpy t = join [13; 10] (canon_lines t).
Proof.
  induction t as [|c r IH]; [reflexivity|].
  destruct (Z.eq_dec c 10) as [->|N10].
  - cbn [canon_pgpy]. change (10 =? 10) with true. cbn iota. unfold canon_lines in *. cbn [split_lines]. change (10 =? 10) with true. cbn iota.
    rewrite cr_lines_cons by apply split_lines_nonempty. change (strip_cr []) with (@nil Z).
    rewrite join_cons by (apply cr_lines_nonempty, split_lines_nonempty). cbn [app]. rewrite IH. reflexivity.
  - destruct (Z.eq_dec c 13) as [->|N13].
    + destruct r as [|d r']; [reflexivity|]. destruct (Z.eq_dec d 10) as [->|Nd].
      * (* CR LF: same as LF *)
        change (canon_pgpy (13 :: 10 :: r')) with (canon_pgpy (10 :: r')). rewrite IH.
        unfold canon_lines. cbn [split_lines]. change (13 =? 10) with false. change (10 =? 10) with true. cbn iota.
        rewrite !cr_lines_cons by apply split_lines_nonempty. reflexivity.
      * rewrite canon_step, canon_lines_step; try lia; try (intros [_ [r'' Hr]]; injection Hr as Hr _; congruence).
        rewrite IH. assert (Nn := cr_lines_nonempty _ (split_lines_nonempty (d :: r'))). fold (canon_lines (d :: r')) in Nn.
        destruct (canon_lines (d :: r')) as [|l ls]; [congruence|].
        change (13 :: l) with ([13] ++ l). rewrite join_prepend. reflexivity.
    + rewrite canon_step, canon_lines_step; try assumption; try (intros [Hc _]; congruence).
      rewrite IH. assert (Nn := cr_lines_nonempty _ (split_lines_nonempty r)). fold (canon_lines r) in Nn.
      destruct (canon_lines r) as [|l ls]; [congruence|].
      change (c :: l) with ([c] ++ l). rewrite join_prepend. reflexivity.
Qed.

Theorem canon_rfc71_lines t : canon_rfc71 t = join [13; 10] (map rfc_strip_blanks (canon_lines t)).
Proof. unfold canon_rfc71, canon_lines. rewrite rfc_join_eq, rfc_line_contents_eq, rfc_lines_eq. reflexivity. Qed.

(* trailing blanks *)
Lemma strip_blanks_snoc l c : rfc_strip_blanks (l ++ [c]) = if blank c then rfc_strip_blanks l else l ++ [c].
Proof.
  induction l as [|a l IH].
  - cbn. unfold blank. destruct ((c =? 32) || (c =? 9)); reflexivity.
  - cbn [app rfc_strip_blanks]. rewrite IH. destruct (blank c); [reflexivity|].
    destruct (l ++ [c]) eqn:E; [apply app_eq_nil in E as [_ E]; discriminate|]. reflexivity.
Qed.

Lemma strip_blanks_le l : (length (rfc_strip_blanks l) <= length l)%nat.
Proof.
  induction l as [|a l IH]; [cbn; lia|]. cbn [rfc_strip_blanks].
  destruct (rfc_strip_blanks l); [destruct ((a =? 32) || (a =? 9)); cbn; lia|cbn [length] in *; lia].
Qed.

Lemma ends_blank_snoc l c : ends_blank (l ++ [c]) = blank c.
Proof. unfold ends_blank. rewrite rev_app_distr. reflexivity. Qed.

Lemma strip_blanks_cases l :
  (ends_blank l = false /\ rfc_strip_blanks l = l) \/ (ends_blank l = true /\ (length (rfc_strip_blanks l) < length l)%nat).
Proof.
  induction l as [|a l' _] using rev_ind; [left; split; reflexivity|].
  rewrite ends_blank_snoc, strip_blanks_snoc. destruct (blank a).
  - right. split; [reflexivity|]. rewrite app_length. cbn. assert (H := strip_blanks_le l'). lia.
  - left. split; reflexivity.
Qed.

Fixpoint total (ls : list text) : nat := match ls with [] => 0%nat | l :: r => (length l + 2 + total r)%nat end.

Lemma join_total ls : ls <> [] -> (length (join [13%Z; 10%Z] ls) + 2 = total ls)%nat.
Proof.
  induction ls as [|l ls IH]; [congruence|]. intros _. destruct ls as [|l' ls].
  - cbn. lia.
  - rewrite join_cons by discriminate. rewrite !app_length. cbn [total length] in *.
    specialize (IH ltac:(discriminate)). lia.
Qed.

Lemma total_strip ls :
  (total (map rfc_strip_blanks ls) <= total ls)%nat /\
  (existsb ends_blank ls = true -> (total (map rfc_strip_blanks ls) < total ls)%nat) /\
  (existsb ends_blank ls = false -> map rfc_strip_blanks ls = ls).
Proof.
  induction ls as [|l ls (IH1 & IH2 & IH3)]; [repeat split; cbn; auto; discriminate|].
  cbn [map total existsb]. assert (L := strip_blanks_le l).
  destruct (strip_blanks_cases l) as [[E1 E2]|[E1 E2]]; rewrite E1; cbn [orb].
  - repeat split; [lia| |].
    + intros H. specialize (IH2 H). lia.
    + intros H. rewrite E2, (IH3 H). reflexivity.
  - repeat split; [lia|intros _; lia|discriminate].
Qed.

Theorem canon_agree_iff t : canon_pgpy t = canon_rfc71 t <-> defect_trailing_blanks t = false.
Proof.
  rewrite canon_pgpy_lines, canon_rfc71_lines. unfold defect_trailing_blanks.
  assert (N : canon_lines t <> []) by (apply cr_lines_nonempty, split_lines_nonempty).
  destruct (total_strip (canon_lines t)) as (T1 & T2 & T3). split.
  - intros H. destruct (existsb ends_blank (canon_lines t)) eqn:E; [|reflexivity].
    specialize (T2 eq_refl). apply (f_equal (@length Z)) in H.
    assert (J1 := join_total (canon_lines t) N).
    assert (J2 := join_total (map rfc_strip_blanks (canon_lines t)) ltac:(destruct (canon_lines t); [congruence|discriminate])).
    lia.
  - intros H. rewrite (T3 H). reflexivity.
Qed.

(* ---------- Hash: header ---------- *)
Lemma insert_uniq_in x l y : In y (insert_uniq x l) <-> y = x \/ In y l.
Proof.
  induction l as [|z l IH]; cbn [insert_uniq].
  - cbn. intuition.
  - destruct (eqb_bytes x z) eqn:E.
    + apply eqb_bytes_eq in E. subst. cbn. intuition.
    + destruct (lex_lt x z); cbn [In]; [intuition|]. rewrite IH. intuition.
Qed.

Theorem hash_names_in names n : In n (hash_names names) <-> In n names.
Proof.
  unfold hash_names. induction names as [|x names IH]; [reflexivity|].
  cbn [fold_right]. rewrite insert_uniq_in, IH. cbn. intuition.
Qed.

