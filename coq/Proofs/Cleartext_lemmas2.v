(* Proofs for C11, part 2: the cleartext frame read back (frame_roundtrip), defect classes. *)
From Coq Require Import ZArith Bool List Lia ZifyBool.
Import ListNotations.
Require Import PV.Lib.Bytes PV.Lib.BytesLemmas PV.Model.Armor PV.Model.Cleartext PV.Spec.Rfc4880_cleartext
  PV.Proofs.Armor_lemmas PV.Proofs.Armor_lemmas2 PV.Proofs.Armor_lemmas3 PV.Proofs.Cleartext_lemmas.
Open Scope Z_scope.

(* ---------- strip_cr and escaping ---------- *)
Lemma strip_cr_cons c y : c <> 13 -> strip_cr (c :: y) = c :: strip_cr y.
Proof. intros H. destruct y; [|reflexivity]. cbn. apply Z.eqb_neq in H. rewrite H. reflexivity. Qed.

Lemma strip_cr_cons_ne c y : y <> [] -> strip_cr (c :: y) = c :: strip_cr y.
Proof. destruct y; [congruence|reflexivity]. Qed.

Lemma strip_cr_app_ne x y : y <> [] -> strip_cr (x ++ y) = x ++ strip_cr y.
Proof.
  intros H. induction x as [|c x IH]; [reflexivity|]. cbn [app]. rewrite strip_cr_cons_ne, IH; [reflexivity|].
  intros X. apply app_eq_nil in X as [_ X]. congruence.
Qed.

Lemma esc_nonempty b c r : esc b (c :: r) <> [].
Proof. cbn [esc]. destruct (b && (c =? 45)); discriminate. Qed.

Lemma esc_strip_cr t : forall b, strip_cr (esc b t) = esc b (strip_cr t).
Proof.
  induction t as [|c r IH]; intros b; [reflexivity|].
  destruct r as [|d r'].
  - cbn [esc strip_cr]. rewrite app_nil_r. destruct (c =? 13) eqn:E13.
    + apply Z.eqb_eq in E13. subst c. change (13 =? 45) with false. rewrite andb_false_r. reflexivity.
    + cbn [esc]. rewrite app_nil_r. destruct (b && (c =? 45)); [reflexivity|]. cbn. rewrite E13. reflexivity.
  - rewrite strip_cr_head. cbn [esc]. rewrite <- (IH (c =? 10)). apply strip_cr_app_ne. apply esc_nonempty.
Qed.

Lemma strip_cr_join ls : ls <> [] ->
  strip_cr (join [10] ls) = join [10] (removelast ls ++ [strip_cr (last ls [])]).
Proof.
  induction ls as [|l ls IH]; [congruence|]. intros _. destruct ls as [|l' ls]; [reflexivity|].
  rewrite join_cons by discriminate. specialize (IH ltac:(discriminate)).
  change (removelast (l :: l' :: ls)) with (l :: removelast (l' :: ls)).
  change (last (l :: l' :: ls) []) with (last (l' :: ls) []).
  cbn [app]. rewrite (join_cons [10] l (removelast (l' :: ls) ++ [strip_cr (last (l' :: ls) [])]))
    by (intros X; apply app_eq_nil in X as [_ X]; discriminate).
  rewrite strip_cr_app_ne by discriminate. cbn [app]. rewrite strip_cr_cons by lia. rewrite IH. reflexivity.
Qed.

Lemma esc_ascii t : forall b, is_ascii_text t = true -> is_ascii_text (esc b t) = true.
Proof.
  unfold is_ascii_text. induction t as [|c r IH]; intros b H; [reflexivity|].
  cbn [forallb] in H. apply andb_true_iff in H as [H1 H2]. cbn [esc]. rewrite forallb_app, (IH _ H2), andb_true_r.
  destruct (b && (c =? 45)); [reflexivity|]. cbn. rewrite H1. reflexivity.
Qed.

Lemma esc_ascii_inv t : forall b, is_ascii_text (esc b t) = true -> is_ascii_text t = true.
Proof.
  unfold is_ascii_text. induction t as [|c r IH]; intros b H; [reflexivity|].
  cbn [esc] in H. rewrite forallb_app in H. apply andb_true_iff in H as [H1 H2]. cbn [forallb]. rewrite (IH _ H2), andb_true_r.
  destruct (b && (c =? 45)) eqn:E.
  - apply andb_true_iff in E as [_ E]. apply Z.eqb_eq in E. subst. reflexivity.
  - cbn in H1. rewrite andb_true_r in H1. exact H1.
Qed.

(* ---------- the greedy star: last line at which a block parses ---------- *)
Definition nobegin (l : text) : Prop := begin_magic l = None.

Lemma block_at_nobegin ls fin : match ls with [] => True | l :: _ => nobegin l end -> block_at ls fin = None.
Proof. destruct ls as [|l r]; [reflexivity|]. intros H. unfold block_at. rewrite H. reflexivity. Qed.

Lemma find_last_none f ls fin : Forall nobegin ls -> find_last_block_gen f ls fin = None.
Proof.
  induction ls as [|l ls IH]; intros H; [reflexivity|]. inversion H as [|? ? Hl Hls]; subst.
  cbn [find_last_block_gen]. rewrite (IH Hls). rewrite block_at_nobegin; [reflexivity|].
  destruct ls; [exact I|]. inversion Hls; assumption.
Qed.

Lemma find_last_some f es al b fin : es <> [] -> Forall nobegin es ->
  block_at al fin = Some b -> find_last_block_gen f al fin = None ->
  find_last_block_gen f (es ++ al) fin = Some (removelast es ++ [f (last es [])], b).
Proof.
  intros Hne He Hb Hn. induction es as [|e es IH]; [congruence|].
  inversion He as [|? ? He1 He2]; subst. destruct es as [|e' es].
  - cbn [app find_last_block_gen]. rewrite Hn, Hb. reflexivity.
  - specialize (IH ltac:(discriminate) He2).
    change ((e :: e' :: es) ++ al) with (e :: ((e' :: es) ++ al)). cbn [find_last_block_gen]. rewrite IH. reflexivity.
Qed.

(* ---------- no line of an armor block after the first opens a block ---------- *)
Lemma strip_suffix_some s l r : strip_suffix s l = Some r -> l = r ++ s.
Proof.
  unfold strip_suffix. destruct (strip_prefix (rev s) (rev l)) as [x|] eqn:E; [|discriminate].
  intros H. injection H as <-. apply strip_prefix_some in E.
  rewrite <- (rev_involutive l), E, rev_app_distr, rev_involutive. reflexivity.
Qed.

Lemma begin_magic_chars l m : begin_magic l = Some m -> forallb (fun c => magic_char c || (c =? 45)) (strip_cr l) = true.
Proof.
  unfold begin_magic. destruct (strip_prefix begin_pfx (strip_cr l)) as [r|] eqn:E1; [|discriminate].
  destruct (strip_suffix dash5 r) as [m'|] eqn:E2; [|discriminate].
  destruct (negb (is_nil m') && forallb magic_char m') eqn:E3; [|discriminate]. intros _.
  apply strip_prefix_some in E1. apply strip_suffix_some in E2. rewrite E1, E2. rewrite !forallb_app.
  apply andb_true_iff in E3 as [_ E3].
  rewrite (forallb_impl magic_char (fun c => magic_char c || (c =? 45)) m') by (try exact E3; intros c Hc; rewrite Hc; reflexivity).
  reflexivity.
Qed.

Lemma begin_magic_first c r : c <> 45 -> c <> 13 -> begin_magic (c :: r) = None.
Proof.
  intros H45 H13. unfold begin_magic. rewrite strip_cr_cons by assumption.
  unfold begin_pfx. cbn [strip_prefix]. replace (45 =? c) with false by lia. reflexivity.
Qed.

Lemma b64_enc_head q : wf_bytes q -> q <> [] -> exists c r, b64_enc q = c :: r /\ is_b64c c = true.
Proof.
  intros W N. destruct q as [|x [|y [|z q']]]; [congruence| | |]; inversion W; subst; cbn [b64_enc];
    eexists _, _; (split; [reflexivity|]); apply b64_char_is; dm.
Qed.

Section Tail.
Variables (k : text) (h : list (text * text)) (p : bytes) (eol : text).
Hypothesis He : is_eol eol.
Hypothesis Hk : wf_magic k = true.
Hypothesis Hh : wf_headers h.
Hypothesis Wp : wf_bytes p.
Hypothesis Np : p <> [].

Lemma header_nobegin kv : wf_header kv = true -> nobegin (hdr_line kv ++ eol).
Proof.
  intros H. unfold nobegin. destruct (begin_magic (hdr_line kv ++ eol)) as [m|] eqn:E; [exfalso|reflexivity].
  apply begin_magic_chars in E. rewrite strip_cr_eol in E by (try assumption; apply hdr_line_plain, H).
  unfold hdr_line in E. rewrite !forallb_app in E. cbn [forallb] in E.
  change (magic_char 58 || (58 =? 45)) with false in E. rewrite andb_false_l, andb_false_r in E. discriminate.
Qed.

Lemma tail_nobegin :
  Forall nobegin (HL h eol ++ E eol [] :: (WL p eol ++ [E eol (61 :: crc_text p); E eol (end_pfx ++ k ++ dash5)])).
Proof.
  destruct Hh as [Hw _]. rewrite forallb_forall in Hw.
  apply Forall_app. split.
  - unfold HL. apply Forall_forall. intros x Hx. apply in_map_iff in Hx as (y & <- & Hy).
    apply in_map_iff in Hy as (kv & <- & Hkv). apply header_nobegin. auto.
  - constructor; [unfold nobegin, E; destruct He as [->| ->]; reflexivity|].
    apply Forall_app. split.
    + unfold WL. rewrite wrap_b64. apply Forall_forall. intros x Hx. apply in_map_iff in Hx as (y & <- & Hy).
      apply in_map_iff in Hy as (q & <- & Hq). destruct (chunk_facts k p Hk Wp q Hq) as (W & N & _).
      destruct (b64_enc_head q W N) as (c & r & Eq & Hc). unfold E. rewrite Eq. cbn [app].
      destruct (is_b64c_not_special c Hc) as (_ & _ & H13 & H45 & _). apply begin_magic_first; assumption.
    + constructor; [unfold E; cbn [app]; apply begin_magic_first; lia|].
      constructor; [|constructor]. unfold nobegin, begin_magic, E.
      rewrite strip_cr_eol by (try assumption; apply end_line_plain; apply (wf_magic_parts k Hk)).
      reflexivity.
Qed.

Lemma armor_block_is_last f es fin : es <> [] -> Forall nobegin es ->
  find_last_block_gen f (es ++ map (E eol) (armor_lines k h p)) fin
  = Some (removelast es ++ [f (last es [])], (k, HL h eol, WL p eol, crc_text p)).
Proof.
  intros Hne Hes. apply find_last_some; try assumption.
  - rewrite <- (app_nil_r (map (E eol) (armor_lines k h p))). apply block_at_armor; assumption.
  - rewrite <- (app_nil_r (map (E eol) (armor_lines k h p))). rewrite lines_shape.
    cbn [find_last_block_gen]. rewrite find_last_none by apply tail_nobegin.
    rewrite block_at_nobegin; [reflexivity|].
    assert (T := tail_nobegin). destruct (HL h eol ++ _) eqn:X; [exact I|]. inversion T; assumption.
Qed.
End Tail.

(* ---------- Hash: line ---------- *)
Lemma join_hash_chars hs : hs <> [] -> Forall (fun n => wf_hash_name n = true) hs ->
  join [44] hs <> [] /\ forallb hash_char (join [44] hs) = true /\ forallb plain_char (join [44] hs) = true.
Proof.
  assert (HP : forall c, hash_char c = true -> plain_char c = true) by (intros c; unfold hash_char, plain_char; lia).
  induction hs as [|n hs IH]; [congruence|]. intros _ F. inversion F as [|? ? Hn Hs]; subst.
  unfold wf_hash_name in Hn. apply andb_true_iff in Hn as [Hn1 Hn2].
  assert (Hc : forallb hash_char n = true).
  { apply (forallb_impl _ _ n) with (2 := Hn2). intros c H. apply andb_true_iff in H. tauto. }
  destruct hs as [|n' hs].
  - cbn [join]. repeat split; [destruct n; [discriminate|discriminate]|exact Hc|apply (forallb_impl _ _ n HP Hc)].
  - rewrite join_cons by discriminate. destruct (IH ltac:(discriminate) Hs) as (_ & I2 & I3).
    repeat split.
    + destruct n; [discriminate|discriminate].
    + rewrite !forallb_app, Hc, I2. reflexivity.
    + rewrite !forallb_app, (forallb_impl _ _ n HP Hc), I3. reflexivity.
Qed.

Lemma split_hashes hs : hs <> [] -> Forall (fun n => wf_hash_name n = true) hs -> split_on 44 (join [44] hs) = hs.
Proof.
  intros N F. apply split_join; [exact N|]. apply Forall_forall. intros n Hn. rewrite Forall_forall in F. specialize (F n Hn).
  unfold wf_hash_name in F. apply andb_true_iff in F as [_ F]. unfold no_sep.
  apply (forallb_impl _ _ n) with (2 := F). intros c H. apply andb_true_iff in H. tauto.
Qed.

Lemma hash_names_wf names : names <> [] -> Forall (fun n => wf_hash_name n = true) names ->
  hash_names names <> [] /\ Forall (fun n => wf_hash_name n = true) (hash_names names).
Proof.
  intros N F. split.
  - destruct names as [|n names]; [congruence|]. intros X.
    assert (I : In n (hash_names (n :: names))) by (apply hash_names_in; left; reflexivity). rewrite X in I. destruct I.
  - apply Forall_forall. intros n Hn. apply (proj1 (hash_names_in names n)) in Hn. rewrite Forall_forall in F. auto.
Qed.

Lemma is_ascii_app a b : is_ascii_text (a ++ b) = is_ascii_text a && is_ascii_text b.
Proof. apply forallb_app. Qed.
Lemma is_ascii_nl b : is_ascii_text (10 :: b) = is_ascii_text b.
Proof. reflexivity. Qed.

(* ---------- the frame ---------- *)
Section Frame.
Variables (names : list text) (t : text) (h : list (text * text)) (p : bytes).
Hypothesis Nn : names <> [].
Hypothesis Fn : Forall (fun n => wf_hash_name n = true) names.
Hypothesis At : is_ascii_text t = true.
Hypothesis Hh : wf_headers h.
Hypothesis Wp : wf_bytes p.
Hypothesis Np : p <> [].

Let hs := hash_names names.
Let hl := hash_pfx ++ join [44] hs.
Let es := split_lines (dash_escape t).
Let al := map (E []) (armor_lines m_signature h p).

Lemma render_shape : render names t h p =
  signed_begin ++ 10 :: hl ++ 10 :: [] ++ 10 :: dash_escape t ++ 10 :: with_eol [] (armor_lines m_signature h p).
Proof.
  unfold render, hash_header, hl, hs. destruct (hash_names_wf names Nn Fn) as [N _].
  destruct (hash_names names) as [|x xs] eqn:Eh; [congruence|].
  rewrite <- armor_eq_lines by exact Np. change (magic_of KCleartext) with m_signature.
  rewrite <- !app_assoc. reflexivity.
Qed.

Lemma hl_facts : hash_line hl = Some (join [44] hs) /\ forallb plain_char hl = true.
Proof.
  destruct (hash_names_wf names Nn Fn) as [N F]. fold hs in N, F.
  destruct (join_hash_chars hs N F) as (J1 & J2 & J3).
  assert (P : forallb plain_char hl = true) by (unfold hl; rewrite forallb_app, J3; reflexivity).
  split; [|exact P]. unfold hash_line. rewrite strip_cr_plain by exact P. unfold hl. rewrite strip_prefix_app, J2.
  destruct (join [44] hs); [congruence|reflexivity].
Qed.

Lemma render_lines : split_lines (render names t h p) = signed_begin :: hl :: [] :: es ++ al ++ [[]].
Proof.
  rewrite render_shape. destruct hl_facts as [_ P].
  rewrite split_lines_app_nl. rewrite (split_lines_eq_on signed_begin), split_on_one by reflexivity. cbn [app]. f_equal.
  rewrite split_lines_app_nl. rewrite (split_lines_eq_on hl), split_on_one by (apply plain_no_nl, P). cbn [app]. f_equal.
  cbn [split_lines]. change (10 =? 10) with true. cbn iota. f_equal.
  rewrite split_lines_app_nl. fold es. f_equal.
  rewrite (with_eol_E []). rewrite <- (app_nil_r (concat _)).
  rewrite split_lines_with by (apply E_lines_no_nl; try assumption; try reflexivity; left; reflexivity).
  reflexivity.
Qed.

Lemma es_facts : es <> [] /\ Forall nobegin es.
Proof.
  split; [apply split_lines_nonempty|].
  assert (S := escaped_lines_safe t). fold es in S. rewrite Forall_forall in *. intros l Hl.
  assert (Q := no_line_is_armor_header l (S l Hl)). unfold nostart in Q. apply andb_true_iff in Q as [_ Q].
  unfold nobegin. destruct (begin_magic l); [discriminate|reflexivity].
Qed.

Lemma render_ascii : is_ascii_text (render names t h p) = true.
Proof.
  rewrite render_shape. destruct hl_facts as [_ P]. unfold dash_escape.
  repeat (rewrite is_ascii_app || rewrite is_ascii_nl).
  rewrite (esc_ascii t true At).
  rewrite (with_eol_ascii m_signature h p [] (or_introl eq_refl) eq_refl Hh Wp).
  unfold is_ascii_text at 2.
  rewrite (forallb_impl plain_char ascii_char hl) by (try exact P; intros c Hc; apply (plain_not_nl c Hc)).
  reflexivity.
Qed.

Theorem frame_roundtrip :
  read (render names t h p) = Some (Some (hash_names names), strip_cr t, headers_opt h, p, false).
Proof.
  unfold read, read_gen, unarmor, unarmor_gen. rewrite render_ascii. cbn [negb].
  rewrite render_lines.
  assert (RL : removelast (signed_begin :: hl :: [] :: es ++ al ++ [[]]) = signed_begin :: hl :: [] :: es ++ al).
  { change (signed_begin :: hl :: [] :: es ++ al ++ [[]]) with ([signed_begin; hl; []] ++ es ++ al ++ [[]]).
    rewrite !removelast_app_ne by (try discriminate; intros X; apply app_eq_nil in X as [_ X]; try discriminate;
                                   apply app_eq_nil in X as [_ X]; discriminate).
    cbn [removelast]. rewrite app_nil_r. reflexivity. }
  assert (LA : last (signed_begin :: hl :: [] :: es ++ al ++ [[]]) [] = []).
  { change (signed_begin :: hl :: [] :: es ++ al ++ [[]]) with ([signed_begin; hl; []] ++ es ++ al ++ [[]]).
    rewrite !last_app_ne by (try discriminate; intros X; apply app_eq_nil in X as [_ X]; try discriminate;
                             apply app_eq_nil in X as [_ X]; discriminate).
    reflexivity. }
  rewrite RL, LA. clear RL LA.
  destruct hl_facts as [HLn _]. destruct es_facts as [En Eb].
  destruct (hash_names_wf names Nn Fn) as [N F]. fold hs in N, F.
  assert (FB : find_last_block_gen strip_cr (es ++ al) [] =
               Some (removelast es ++ [strip_cr (last es [])], (m_signature, HL h [], WL p [], crc_text p))).
  { apply armor_block_is_last; try assumption; try reflexivity. left; reflexivity. }
  cbn [search_gen]. unfold signed_at_gen.
  change (eqb_bytes (strip_cr signed_begin) signed_begin) with true. cbn iota.
  rewrite HLn. change (is_blank []) with true. cbn iota. rewrite FB.
  rewrite (decode_body p [] (or_introl eq_refl) Wp), crc_text_decodes, Z.eqb_refl.
  rewrite (HL_nil h [] Hh), (parse_headers h [] (or_introl eq_refl) Hh), od_of_pairs_nodup by apply Hh.
  change (eqb_bytes m_signature (magic_of KCleartext)) with true. cbn iota.
  rewrite split_hashes by assumption.
  rewrite <- strip_cr_join by exact En. unfold es. rewrite split_lines_eq_on, join_split.
  unfold dash_escape. rewrite esc_strip_cr. fold (dash_escape (strip_cr t)). rewrite unescape_escape.
  unfold headers_opt. destruct (is_nil h); reflexivity.
Qed.
End Frame.

(* a text outside the ASCII class cannot be read back: the whole message takes the binary path *)
Theorem non_ascii_unreadable names t h p : defect_non_ascii t = true -> read (render names t h p) = None.
Proof.
  unfold defect_non_ascii. intros H. apply negb_true_iff in H.
  unfold read, read_gen, unarmor, unarmor_gen.
  assert (A : is_ascii_text (render names t h p) = false).
  { destruct (is_ascii_text (render names t h p)) eqn:E; [|reflexivity]. exfalso.
    unfold render in E. rewrite !is_ascii_app in E.
    do 4 (apply andb_true_iff in E as [_ E]). apply andb_true_iff in E as [E _].
    apply (esc_ascii_inv t true) in E. rewrite E in H. discriminate. }
  rewrite A. reflexivity.
Qed.

Lemma final_cr_iff t : defect_final_cr t = false <-> strip_cr t = t.
Proof.
  unfold defect_final_cr. rewrite negb_false_iff. apply eqb_bytes_eq.
Qed.
