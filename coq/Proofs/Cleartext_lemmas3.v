(* Proofs for C11, part 3: the frame carried over a CR LF transport (every LF of the armored text became CR LF). *)
From Coq Require Import ZArith Bool List Lia ZifyBool.
Import ListNotations.
Require Import PV.Lib.Bytes PV.Lib.BytesLemmas PV.Model.Armor PV.Model.Cleartext PV.Spec.Rfc4880_cleartext
  PV.Proofs.Armor_lemmas PV.Proofs.Armor_lemmas2 PV.Proofs.Armor_lemmas3 PV.Proofs.Cleartext_lemmas PV.Proofs.Cleartext_lemmas2.
Open Scope Z_scope.

Lemma strip_cr_snoc13 l : strip_cr (l ++ [13]) = l.
Proof.
  induction l as [|c l IH]; [reflexivity|]. cbn [app]. rewrite strip_cr_cons_ne, IH; [reflexivity|].
  intros X. apply app_eq_nil in X as [_ X]. discriminate.
Qed.

Lemma safe_line_snoc13 l : safe_line l = true -> safe_line (l ++ [13]) = true.
Proof.
  destruct l as [|c [|d r]]; cbn; [reflexivity| |].
  - destruct (c =? 45); [discriminate|reflexivity].
  - destruct (c =? 45); auto.
Qed.

(* to_crlf commutes with dash escaping *)
Lemma esc_to_crlf t : forall b, to_crlf (esc b t) = esc b (to_crlf t).
Proof.
  induction t as [|c r IH]; intros b; [reflexivity|].
  cbn [esc to_crlf]. destruct (c =? 10) eqn:E10.
  - apply Z.eqb_eq in E10. subst c. change (10 =? 45) with false. rewrite andb_false_r. cbn [app to_crlf].
    change (10 =? 10) with true. cbn iota. cbn [esc]. change (13 =? 45) with false. rewrite andb_false_r.
    change (13 =? 10) with false. cbn [app esc]. change (10 =? 45) with false. rewrite andb_false_l.
    change (10 =? 10) with true. cbn [app]. rewrite IH. reflexivity.
  - cbn [esc]. rewrite E10. destruct (b && (c =? 45)) eqn:Eb.
    + apply andb_true_iff in Eb as [_ Eb]. apply Z.eqb_eq in Eb. subst c. cbn [app to_crlf].
      change (45 =? 10) with false. change (32 =? 10) with false. cbn iota. rewrite IH. reflexivity.
    + cbn [app to_crlf]. rewrite E10, IH. reflexivity.
Qed.

Lemma to_crlf_ascii t : is_ascii_text t = true -> is_ascii_text (to_crlf t) = true.
Proof.
  unfold is_ascii_text. induction t as [|c r IH]; intros H; [reflexivity|].
  cbn [forallb] in H. apply andb_true_iff in H as [H1 H2]. cbn [to_crlf]. destruct (c =? 10); cbn [forallb]; rewrite (IH H2).
  - reflexivity.
  - rewrite H1. reflexivity.
Qed.

Lemma to_crlf_no_nl l : no_sep 10 l = true -> to_crlf l = l.
Proof.
  induction l as [|c l IH]; intros H; [reflexivity|].
  cbn [no_sep forallb] in H. apply andb_true_iff in H as [H1 H2]. cbn [to_crlf]. destruct (c =? 10); [discriminate|].
  rewrite (IH H2). reflexivity.
Qed.

Lemma join_crlf ls : ls <> [] -> Forall (fun l => no_sep 10 l = true) ls ->
  join [10] (map (fun l => l ++ [13]) (removelast ls) ++ [last ls []]) = to_crlf (join [10] ls).
Proof.
  induction ls as [|l ls IH]; [congruence|]. intros _ F. inversion F as [|? ? Hl Hls]; subst.
  destruct ls as [|l' ls].
  - cbn [removelast map app last join]. symmetry. apply to_crlf_no_nl, Hl.
  - change (removelast (l :: l' :: ls)) with (l :: removelast (l' :: ls)).
    change (last (l :: l' :: ls) []) with (last (l' :: ls) []).
    cbn [map app]. rewrite join_cons by (intros X; apply app_eq_nil in X as [_ X]; discriminate).
    rewrite IH by (try discriminate; assumption). rewrite (join_cons [10] l (l' :: ls)) by discriminate.
    rewrite <- app_assoc. cbn [app]. rewrite to_crlf_line by exact Hl. reflexivity.
Qed.

Lemma canon_to_crlf t : forallb (fun c => negb (c =? 13)) t = true -> canon_pgpy (to_crlf t) = canon_pgpy t.
Proof.
  induction t as [|c r IH]; intros H; [reflexivity|].
  cbn [forallb] in H. apply andb_true_iff in H as [H1 H2]. specialize (IH H2).
  cbn [to_crlf]. destruct (c =? 10) eqn:E10.
  - apply Z.eqb_eq in E10. subst c. cbn [canon_pgpy]. change (13 =? 10) with false. change (13 =? 13) with true.
    change (10 =? 10) with true. cbn iota. rewrite IH. reflexivity.
  - cbn [canon_pgpy]. rewrite E10. destruct (c =? 13); [discriminate|]. rewrite IH. reflexivity.
Qed.

Lemma removelast_map {A B} (f : A -> B) ls : removelast (map f ls) = map f (removelast ls).
Proof.
  induction ls as [|l ls IH]; [reflexivity|]. destruct ls as [|l' ls]; [reflexivity|].
  change (removelast (l :: l' :: ls)) with (l :: removelast (l' :: ls)). cbn [map].
  change (removelast (f l :: f l' :: map f ls)) with (f l :: removelast (map f (l' :: ls))).
  rewrite IH. reflexivity.
Qed.

Lemma last_map_strip ls : ls <> [] -> strip_cr (last (map (E [13]) ls) []) = last ls [].
Proof.
  induction ls as [|l ls IH]; [congruence|]. intros _. destruct ls as [|l' ls]; [cbn; apply strip_cr_snoc13|].
  change (last (map (E [13]) (l :: l' :: ls)) []) with (last (map (E [13]) (l' :: ls)) []).
  change (last (l :: l' :: ls) []) with (last (l' :: ls) []). apply IH. discriminate.
Qed.

Section FrameCrlf.
Variables (names : list text) (t : text) (h : list (text * text)) (p : bytes).
Hypothesis Nn : names <> [].
Hypothesis Fn : Forall (fun n => wf_hash_name n = true) names.
Hypothesis At : is_ascii_text t = true.
Hypothesis Hh : wf_headers h.
Hypothesis Wp : wf_bytes p.
Hypothesis Np : p <> [].

Let hs := hash_names names.
Let hl := hash_pfx ++ join [44] hs.
Let es := split_lines (dash_escape t).
Let al := armor_lines m_signature h p.
Let eol : text := [13].
Let He : is_eol eol := or_intror eq_refl.

Lemma es_no_nl : Forall (fun l => no_sep 10 l = true) es.
Proof. unfold es. rewrite split_lines_eq_on. apply split_on_no_sep. Qed.

Lemma render_all_lines : render names t h p = with_eol [] (signed_begin :: hl :: [] :: es ++ al).
Proof.
  rewrite (render_shape names t h p Nn Fn Np). fold hs. fold hl. rewrite !with_eol_nil.
  cbn [map concat]. rewrite map_app, concat_app. rewrite <- !app_assoc. cbn [app]. do 3 f_equal.
  assert (J := join_nl es (split_lines_nonempty _)). unfold es in J at 1. rewrite split_lines_eq_on, join_split in J.
  unfold text in *. rewrite <- J. rewrite <- !app_assoc. reflexivity.
Qed.

Lemma all_lines_no_nl : Forall (fun l => forallb (fun c => negb (c =? 10)) l = true) (signed_begin :: hl :: [] :: es ++ al).
Proof.
  destruct (hl_facts names Nn Fn) as [_ P]. fold hs in P. fold hl in P.
  constructor; [reflexivity|]. constructor; [apply plain_no_nl, P|]. constructor; [reflexivity|].
  apply Forall_app. split; [exact es_no_nl|].
  assert (F := armor_lines_plain m_signature h p eq_refl Hh Wp). rewrite Forall_forall in *. intros l Hl. apply plain_no_nl, F, Hl.
Qed.

Theorem frame_crlf :
  read (to_crlf (render names t h p)) = Some (Some (hash_names names), to_crlf t, headers_opt h, p, false).
Proof.
  unfold read, read_gen, unarmor, unarmor_gen.
  rewrite (to_crlf_ascii _ (render_ascii names t h p Nn Fn At Hh Wp Np)). cbn [negb].
  rewrite render_all_lines, (to_crlf_lines _ all_lines_no_nl).
  rewrite (with_eol_E [13]). rewrite <- (app_nil_r (concat _)).
  rewrite split_lines_with.
  2:{ apply Forall_forall. intros x Hx. apply in_map_iff in Hx as (l & <- & Hl).
      assert (F := all_lines_no_nl). rewrite Forall_forall in F. unfold E. rewrite forallb_app, (F l Hl). reflexivity. }
  cbn [split_lines]. rewrite removelast_app_ne, last_app_ne by discriminate. cbn [removelast last]. rewrite app_nil_r.
  cbn [map]. rewrite map_app.
  destruct (hl_facts names Nn Fn) as [HLn P]. fold hs in HLn, P. fold hl in HLn, P.
  destruct (es_facts t) as [En _].
  destruct (hash_names_wf names Nn Fn) as [N F]. fold hs in N, F.
  assert (Eb : Forall nobegin (map (E [13]) es)).
  { assert (S := escaped_lines_safe t). fold es in S. apply Forall_forall. intros x Hx. apply in_map_iff in Hx as (l & <- & Hl).
    rewrite Forall_forall in S. assert (Q := no_line_is_armor_header _ (safe_line_snoc13 l (S l Hl))).
    unfold nostart in Q. apply andb_true_iff in Q as [_ Q]. unfold nobegin, E. destruct (begin_magic (l ++ [13])); [discriminate|reflexivity]. }
  assert (FB : find_last_block_gen strip_cr (map (E [13]) es ++ map (E [13]) al) [] =
               Some (removelast (map (E [13]) es) ++ [strip_cr (last (map (E [13]) es) [])], (m_signature, HL h [13], WL p [13], crc_text p))).
  { apply armor_block_is_last; try assumption; try reflexivity.
    intros X. apply map_eq_nil in X. exact (En X). }
  cbn [search_gen]. unfold signed_at_gen.
  unfold E at 1. rewrite strip_cr_snoc13. change (eqb_bytes signed_begin signed_begin) with true. cbn iota.
  unfold E at 1. unfold hash_line. rewrite strip_cr_snoc13. fold (hash_line hl).
  assert (HLn' : hash_line hl = Some (join [44] hs)) by exact HLn.
  unfold hash_line in HLn'. rewrite (strip_cr_plain hl P) in HLn'. rewrite HLn'.
  change (is_blank (E [13] [])) with true. cbn iota. rewrite FB.
  rewrite (decode_body p [13] He Wp), crc_text_decodes, Z.eqb_refl.
  rewrite (HL_nil h [13] Hh), (parse_headers h [13] He Hh), od_of_pairs_nodup by apply Hh.
  change (eqb_bytes m_signature (magic_of KCleartext)) with true. cbn iota.
  rewrite split_hashes by assumption.
  (* the cleartext group: every line but the last keeps its CR *)
  assert (CT : join [10] (removelast (map (E [13]) es) ++ [strip_cr (last (map (E [13]) es) [])]) = to_crlf (dash_escape t)).
  { assert (R1 := removelast_map (E [13]) es). assert (R2 := last_map_strip es En). unfold E in R1 at 2.
    rewrite R1, R2. etransitivity; [exact (join_crlf es En es_no_nl)|]. unfold es. rewrite split_lines_eq_on, join_split. reflexivity. }
  rewrite CT. unfold dash_escape. rewrite esc_to_crlf. fold (dash_escape (to_crlf t)). rewrite unescape_escape.
  unfold headers_opt. destruct (is_nil h); reflexivity.
Qed.
End FrameCrlf.
