(* Proof scripts for C03, part 3: the packet codecs.  What the model's emitter writes for a well-formed encrypted
   message is read back by the model of PGPy's parser as the same session-key list and the same encrypted data. *)
From Coq Require Import ZArith List Bool Lia ZifyBool.
Import ListNotations.
Require Import PV.Lib.Bytes PV.Lib.BytesLemmas PV.Model.Wire PV.Model.Encrypt
  PV.Proofs.Wire_lemmas PV.Proofs.Wire_lemmas2 PV.Proofs.Encrypt_lemmas PV.Proofs.Encrypt_lemmas2.
Open Scope Z_scope.

(* ---------- Python slices ---------- *)
Lemma py_take_app (a r : bytes) : py_take (Z.of_nat (length a)) (a ++ r) = a.
Proof.
  unfold py_take, clampz. destruct (Z.of_nat (length a) <? 0) eqn:E; [lia|].
  rewrite app_length. replace (Z.to_nat (Z.min (Z.of_nat (length a)) (Z.of_nat (length a + length r)))) with (length a) by lia.
  apply firstn_app_exact. reflexivity.
Qed.
Lemma py_drop_app (a r : bytes) : py_drop (Z.of_nat (length a)) (a ++ r) = r.
Proof.
  unfold py_drop, clampz. destruct (Z.of_nat (length a) <? 0) eqn:E; [lia|].
  rewrite app_length. replace (Z.to_nat (Z.min (Z.of_nat (length a)) (Z.of_nat (length a + length r)))) with (length a) by lia.
  apply skipn_app_exact. reflexivity.
Qed.

(* ---------- EC point octets survive the MPI ---------- *)
Lemma unbe_cons b r : unbe (b :: r) = b * 256 ^ Z.of_nat (length r) + unbe r.
Proof. change (b :: r) with ([b] ++ r). rewrite unbe_app. f_equal. Qed.

Lemma mpi_body_point xy b r : wf_bytes xy -> xy = b :: r -> 0 < b -> Z.of_nat (length xy) <= 8000 ->
  0 < unbe xy /\ bit_length (unbe xy) < 65536 /\ mpi_body (unbe xy) = xy.
Proof.
  intros W E Hb L. pose proof (unbe_bounds xy W) as B. set (v := unbe xy) in *.
  assert (Wr : wf_bytes r) by (subst xy; inversion W; assumption).
  pose proof (unbe_bounds r Wr) as Br.
  assert (Hlow : 256 ^ Z.of_nat (length r) <= v).
  { unfold v. rewrite E, unbe_cons. pose proof (Z.pow_pos_nonneg 256 (Z.of_nat (length r)) ltac:(lia) ltac:(lia)) as PP.
    set (P := 256 ^ Z.of_nat (length r)) in *.
    assert (0 <= (b - 1) * P) by (apply Z.mul_nonneg_nonneg; lia).
    replace (b * P) with (P + (b - 1) * P) by ring. lia. }
  assert (Hv : 0 < v) by (pose proof (Z.pow_pos_nonneg 256 (Z.of_nat (length r)) ltac:(lia) ltac:(lia)); lia).
  assert (Hbl : bit_length v <= 8 * Z.of_nat (length xy)).
  { apply bit_length_le; [lia|]. replace (2 ^ (8 * Z.of_nat (length xy))) with (256 ^ Z.of_nat (length xy)); [lia|].
    change 256 with (2 ^ 8). rewrite <- Z.pow_mul_r by lia. reflexivity. }
  split; [exact Hv|]. split; [lia|].
  rewrite mpi_body_pos by lia.
  assert (Hi : int_byte_len v = Z.of_nat (length xy)).
  { pose proof (int_byte_len_le v (Z.of_nat (length xy)) ltac:(lia) ltac:(lia)) as U.
    pose proof (int_byte_len_nonneg v) as N.
    destruct (Z_lt_le_dec (int_byte_len v) (Z.of_nat (length xy))) as [Lt|Ge]; [|lia].
    exfalso. pose proof (lt_pow256_byte_len v ltac:(lia)) as P.
    assert (256 ^ int_byte_len v <= 256 ^ Z.of_nat (length r)).
    { apply pow256_mono. subst xy. cbn [length] in Lt. lia. }
    lia. }
  rewrite Hi, Nat2Z.id. apply be_unbe. exact W.
Qed.

(* ---------- packet header ---------- *)
Lemma new_length_first n : 0 <= n < 4294967296 ->
  exists l t, new_length n = l :: t /\ ((224 <=? l) && (l <? 255) = false).
Proof.
  intros H. destruct (Z_lt_le_dec n 192) as [A|A].
  - rewrite new_length_1 by lia. exists n, []. split; [reflexivity|]. lia.
  - destruct (Z_lt_le_dec n 8384) as [B|B].
    + rewrite new_length_2 by lia. eexists. eexists. split; [reflexivity|].
      assert ((n - 192) / 256 < 32) by (apply Z.div_lt_upper_bound; lia). lia.
    + rewrite new_length_5 by lia. exists 255, (be 4 n). split; [reflexivity|]. reflexivity.
Qed.

Lemma header_emit_new t n :
  header_emit {| h_lenfmt := 1; h_tag := t; h_llen := 1; h_len := n |}
  = Some (int_to_bytes (Z.lor (Z.lor 128 (Z.shiftl 1 6)) t) 1 ++ new_length n).
Proof. reflexivity. Qed.

Lemma packet_parse tag body rest : 0 <= tag < 64 -> Z.of_nat (length body) < 4294967296 ->
  exists hdr h, packet tag body = Ok (hdr ++ body) /\
    header_parse (hdr ++ body ++ rest) = Some (h, body ++ rest) /\ h_tag h = tag /\ h_len h = Z.of_nat (length body) /\
    partial_first (hdr ++ body ++ rest) = false.
Proof.
  intros Ht Hn.
  destruct (new_header_roundtrip tag (Z.of_nat (length body)) 1 (body ++ rest) Ht ltac:(lia)) as [bs [h [E [P [T [Ln _]]]]]].
  exists bs, h. unfold packet. rewrite E. split; [reflexivity|]. split; [exact P|]. split; [exact T|]. split; [exact Ln|].
  pose proof new_tag_sweep as SW. rewrite forallb_forall in SW. specialize (SW tag (in_tags64 tag Ht)).
  unfold new_tag_ok in SW. cbv zeta in SW.
  pose proof (header_emit_new tag (Z.of_nat (length body))) as HE.
  remember (Z.lor (Z.lor 128 (Z.shiftl 1 6)) tag) as o eqn:Ho.
  apply andb_prop in SW as [SW Hlt]. apply andb_prop in SW as [SW Hge].
  rewrite HE in E. assert (Eb : bs = int_to_bytes o 1 ++ new_length (Z.of_nat (length body))) by congruence.
  rewrite Eb. clear E P Eb HE.
  rewrite int_to_bytes_octet by lia.
  destruct (new_length_first (Z.of_nat (length body)) ltac:(lia)) as [l [t [-> F]]].
  cbn [app partial_first]. rewrite <- andb_assoc, F. apply andb_false_r.
Qed.

(* ---------- well-formed session-key packets ---------- *)
Definition wf_pkct (a : Z) (ct : pkct) : Prop :=
  match ct with
  | CRsa v => (a = 1 \/ a = 2) /\ 0 <= v /\ bit_length v < 65536
  | CEcdh xy c => a = 18 /\ wf_bytes xy /\ Z.of_nat (length xy) <= 8000 /\ (length c < 256)%nat /\
                  exists r, (xy = 4 :: r /\ Nat.even (length r) = true) \/ xy = 64 :: r
  | COpaque x => pk_class a = false
  | _ => False
  end.
Definition wf_spec (sp : s2kspec) : Prop :=
  hash_valid (s_hash sp) = true /\
  ((s_type sp = 0 /\ s_salt sp = [] /\ s_count sp = 0) \/
   (s_type sp = 1 /\ length (s_salt sp) = 8%nat /\ s_count sp = 0) \/
   (s_type sp = 3 /\ length (s_salt sp) = 8%nat)).
Definition wf_esk (e : esk) : Prop :=
  match e with
  | PK id a ct => length id = 8%nat /\ wf_pkct a ct
  | SK a sp ct => sym_valid a = true /\ wf_spec sp
  end.

Lemma pkesk_body_parse h id a ct b rest :
  length id = 8%nat -> wf_pkct a ct -> pkct_bytes ct = Ok b ->
  h_len h = Z.of_nat (length ([3] ++ id ++ [a] ++ b)) ->
  pkesk_parse h (id ++ [a] ++ b ++ rest) = Ok (PK id a ct, rest).
Proof.
  intros Li W E Hl. unfold pkesk_parse. rewrite firstn_app_exact, skipn_app_exact by exact Li. cbn [app].
  destruct ct as [v|xy c|? ?|x]; cbn [wf_pkct] in W; try contradiction.
  3:{ (* opaque: the rest of the packet, as many octets as the header counts after version, key id and algorithm *)
      cbn [pkct_bytes] in E. injection E as <-. unfold pk_class in W.
      assert (T1 : (a =? 1) || (a =? 2) = false) by lia. assert (T2 : (a =? 16) || (a =? 20) = false) by lia.
      assert (T3 : (a =? 18) = false) by lia. rewrite T1, T2, T3.
      rewrite !app_length in Hl. cbn [length] in Hl. rewrite Li in Hl.
      replace (h_len h - 10) with (Z.of_nat (length x)) by lia.
      rewrite py_take_app, py_drop_app. reflexivity. }
  - destruct W as [Ha [Hv Hb]]. cbn [pkct_bytes] in E. injection E as <-.
    assert (T : (a =? 1) || (a =? 2) = true) by lia. rewrite T.
    rewrite mpi_roundtrip by assumption. reflexivity.
  - destruct W as [-> [Wxy [Lxy [Lc [r Hshape]]]]]. cbn [pkct_bytes] in E.
    destruct (256 <=? Z.of_nat (length c)) eqn:E256; [lia|]. injection E as <-.
    change ((18 =? 1) || (18 =? 2)) with false. change ((18 =? 16) || (18 =? 20)) with false.
    change (18 =? 18) with true. cbv iota.
    assert (P : 0 < unbe xy /\ bit_length (unbe xy) < 65536 /\ mpi_body (unbe xy) = xy).
    { destruct Hshape as [[-> _]| ->]; eapply mpi_body_point; try reflexivity; try assumption; lia. }
    destruct P as [Pv [Pb Pm]]. unfold bytes_to_int.
    repeat rewrite <- app_assoc. rewrite mpi_roundtrip by lia.
    unfold ecpoint_octets. rewrite Pm.
    assert (EO : match xy with
                 | [] => Raise EIndex
                 | f :: r0 => if f =? 4 then if Nat.even (length r0) then Ok xy else Raise EPGP
                              else if f =? 64 then Ok xy else if (f =? 65) || (f =? 66) then Raise ENotImpl else Raise EValue
                 end = Ok xy).
    { destruct Hshape as [[-> Ev]| ->]; cbn [Z.eqb Pos.eqb]; [rewrite Ev|]; reflexivity. }
    rewrite EO. cbn [app]. rewrite Nat2Z.id. rewrite firstn_app_exact, skipn_app_exact by reflexivity. reflexivity.
Qed.

Lemma s2k_bytes_length sp : wf_spec sp ->
  Z.of_nat (length (s2k_bytes sp)) = 2 + Z.of_nat (length (s_salt sp)) + (if s_type sp =? 3 then 1 else 0).
Proof.
  intros [_ [[T [S _]]|[[T [S _]]|[T S]]]]; unfold s2k_bytes; rewrite T;
    [change (0 >=? 1) with false; change (0 =? 3) with false
    |change (1 >=? 1) with true; change (1 =? 3) with false
    |change (3 >=? 1) with true; change (3 =? 3) with true];
    cbv iota; rewrite ?app_length; cbn [length]; rewrite ?S; cbn [length]; lia.
Qed.

Lemma skesk_body_parse h a sp ct rest :
  sym_valid a = true -> wf_spec sp ->
  h_len h = Z.of_nat (length ([4; a] ++ s2k_bytes sp ++ ct)) ->
  skesk_parse h ([a] ++ s2k_bytes sp ++ ct ++ rest) = Ok (SK a sp ct, rest).
Proof.
  intros V W Hl. pose proof (s2k_bytes_length sp W) as LS.
  rewrite app_length, app_length in Hl. cbn [length] in Hl.
  assert (HL2 : h_len h = 4 + Z.of_nat (length (s_salt sp)) + (if s_type sp =? 3 then 1 else 0) + Z.of_nat (length ct)) by lia.
  clear LS Hl.
  destruct sp as [ty ha salt cnt]. destruct W as [HV Wc]. cbn [s_type s_hash s_salt s_count] in *.
  unfold skesk_parse. cbn [app]. rewrite V. cbn [negb].
  destruct Wc as [[-> [-> ->]]|[[-> [Ls ->]]|[-> Ls]]]; unfold s2k_bytes in *; cbn [s_type s_hash s_salt s_count] in *.
  - change (0 >=? 1) with false in *. change (0 =? 3) with false in *. cbv iota in *. cbn [app].
    change (s2ktype_valid 0) with true. cbn [negb]. change (0 =? 101) with false. cbv iota. rewrite HV. cbn [negb].
    change (0 >=? 1) with false. change (0 =? 3) with false. cbv iota.
    cbn [length] in *.
    replace (h_len h - (4 + Z.of_nat 0 + 0)) with (Z.of_nat (length ct)) by lia.
    rewrite py_take_app, py_drop_app. reflexivity.
  - change (1 >=? 1) with true in *. change (1 =? 3) with false in *. cbv iota in *. cbn [app].
    change (s2ktype_valid 1) with true. cbn [negb]. change (1 =? 101) with false. cbv iota. rewrite HV. cbn [negb].
    change (1 >=? 1) with true. change (1 =? 3) with false. cbv iota.
    rewrite app_nil_r in *. rewrite firstn_app_exact, skipn_app_exact by exact Ls. rewrite Ls.
    rewrite Ls in HL2.
    replace (h_len h - (4 + Z.of_nat 8 + 0)) with (Z.of_nat (length ct)) by lia.
    rewrite py_take_app, py_drop_app. reflexivity.
  - change (3 >=? 1) with true in *. change (3 =? 3) with true in *. cbv iota in *. cbn [app].
    change (s2ktype_valid 3) with true. cbn [negb]. change (3 =? 101) with false. cbv iota. rewrite HV. cbn [negb].
    change (3 >=? 1) with true. change (3 =? 3) with true. cbv iota.
    rewrite <- app_assoc. rewrite firstn_app_exact, skipn_app_exact by exact Ls. cbn [app]. rewrite Ls.
    rewrite Ls in HL2.
    replace (h_len h - (4 + Z.of_nat 8 + 1)) with (Z.of_nat (length ct)) by lia.
    rewrite py_take_app, py_drop_app. reflexivity.
Qed.

(* ---------- the message loop ---------- *)
Definition small (b : bytes) : Prop := Z.of_nat (length b) < 4294967296.

Lemma esk_packet_step e p rest fuel acc ct :
  wf_esk e -> esk_packet e = Ok p -> small p ->
  msg_parse_loop (S fuel) (p ++ rest) acc ct = msg_parse_loop fuel rest (acc ++ [e]) ct.
Proof.
  intros W E Sm. unfold esk_packet in E. destruct (esk_body e) as [body|] eqn:EB; cbn [bind] in E; [|discriminate].
  assert (Tg : 0 <= esk_tag e < 64) by (destruct e; cbn; lia).
  assert (Sb : Z.of_nat (length body) < 4294967296).
  { unfold packet in E. destruct (header_emit _) as [hd|]; [|discriminate]. injection E as <-. unfold small in Sm. rewrite app_length in Sm. lia. }
  destruct (packet_parse (esk_tag e) body rest Tg Sb) as [hdr [h [P [HP [HT [HL PF]]]]]].
  rewrite P in E. injection E as <-. rewrite <- app_assoc.
  assert (NE : hdr ++ body ++ rest <> []).
  { intros Z0. rewrite Z0 in HP. discriminate HP. }
  cbn [msg_parse_loop]. destruct (hdr ++ body ++ rest) as [|x0 l0] eqn:EQ; [congruence|]. rewrite PF, HP. cbv zeta. rewrite HT.
  destruct e as [id a c|a sp c]; cbn [esk_tag esk_body wf_esk] in *.
  - destruct W as [Li Wc]. destruct (pkct_bytes c) as [b|] eqn:EC; cbn [bind] in EB; [|discriminate]. injection EB as <-.
    change ((1 =? 1) || (1 =? 3) || (1 =? 18)) with true. cbv iota. cbn [app]. change (1 =? 1) with true. change (3 =? 3) with true. cbv iota.
    replace ((id ++ a :: b) ++ rest) with (id ++ [a] ++ b ++ rest) by (rewrite <- app_assoc; reflexivity).
    rewrite (pkesk_body_parse h id a c b rest Li Wc EC); [reflexivity|]. rewrite HL. cbn [app]. reflexivity.
  - destruct W as [V Ws]. injection EB as <-.
    change ((3 =? 1) || (3 =? 3) || (3 =? 18)) with true. cbv iota. cbn [app]. change (3 =? 1) with false. change (3 =? 3) with true. change (4 =? 4) with true. cbv iota.
    match goal with |- context [skesk_parse h ?x] => replace x with ([a] ++ s2k_bytes sp ++ c ++ rest) end.
    2:{ unfold s2k_bytes. cbn [app]. repeat rewrite <- app_assoc. reflexivity. }
    rewrite (skesk_body_parse h a sp c rest V Ws); [reflexivity|]. rewrite HL. reflexivity.
Qed.

(* a session key packet of an algorithm PGPy has no ciphertext class for (listed in PubKeyAlgorithm or not), with ANY octets
   after the algorithm octet, is read back as it was written, and what follows it is untouched *)
Theorem opaque_pkesk_roundtrip id a x p rest fuel acc ct :
  length id = 8%nat -> pk_class a = false -> esk_packet (PK id a (COpaque x)) = Ok p -> small p ->
  msg_parse_loop (S fuel) (p ++ rest) acc ct = msg_parse_loop fuel rest (acc ++ [PK id a (COpaque x)]) ct.
Proof. intros Li C E Sm. apply esk_packet_step; [split; [exact Li|exact C]|exact E|exact Sm]. Qed.
Theorem opaque_pkesk_alone id a x p :
  length id = 8%nat -> pk_class a = false -> esk_packet (PK id a (COpaque x)) = Ok p -> small p ->
  msg_parse p = Ok ([PK id a (COpaque x)], None).
Proof.
  intros Li C E Sm. unfold msg_parse. rewrite <- (app_nil_r p) at 2.
  rewrite (opaque_pkesk_roundtrip id a x p [] (length p) [] None Li C E Sm). destruct (length p); reflexivity.
Qed.

(* regression (before 3c26ab3 / f2ab7da), header length 13 = version + key id + algorithm + three octets 7 8 9:
   algorithm 22 (listed, no class): the three octets were LEFT IN THE BUFFER (header.length - 18 is negative there) and three
   zero octets written in their place; algorithm 100 (not listed): refused, and with it the whole message.  Both are kept now *)
Theorem pkesk_parse_old_refuted :
  let h := {| h_lenfmt := 1; h_tag := 1; h_llen := 1; h_len := 13 |} in
  let id := [1; 2; 3; 4; 5; 6; 7; 8] in
  pkesk_parse_old h (id ++ [22; 7; 8; 9]) = Ok (PK id 22 (COpaque [0; 0; 0]), [7; 8; 9]) /\
  pkesk_parse_old h (id ++ [100; 7; 8; 9]) = Raise EPGP /\
  pkesk_parse h (id ++ [22; 7; 8; 9]) = Ok (PK id 22 (COpaque [7; 8; 9]), []) /\
  pkesk_parse h (id ++ [100; 7; 8; 9]) = Ok (PK id 100 (COpaque [7; 8; 9]), []).
Proof. vm_compute. repeat split. Qed.

Lemma esks_emit_parse es : forall b rest fuel acc ct,
  Forall wf_esk es -> esks_emit es = Ok b -> small b ->
  msg_parse_loop (length es + fuel) (b ++ rest) acc ct = msg_parse_loop fuel rest (acc ++ es) ct.
Proof.
  induction es as [|e es IH]; intros b rest fuel acc ct W E Sm.
  - cbn in E. injection E as <-. cbn. rewrite app_nil_r. reflexivity.
  - cbn [esks_emit] in E. destruct (esk_packet e) as [p|] eqn:EP; cbn [bind] in E; [|discriminate].
    destruct (esks_emit es) as [b'|] eqn:EE; cbn [bind] in E; [|discriminate]. injection E as <-.
    inversion W as [|? ? We Wes]; subst. unfold small in Sm. rewrite app_length in Sm.
    cbn [length Nat.add]. rewrite <- app_assoc.
    rewrite (esk_packet_step e p (b' ++ rest) (length es + fuel) acc ct We EP) by (unfold small; lia).
    rewrite (IH b' rest fuel (acc ++ [e]) ct Wes eq_refl) by (unfold small; lia).
    rewrite <- app_assoc. reflexivity.
Qed.

Lemma seipd_step c p rest fuel acc :
  packet 18 (seipd_body c) = Ok p -> small p ->
  msg_parse_loop (S fuel) (p ++ rest) acc None = msg_parse_loop fuel rest acc (Some c).
Proof.
  intros E Sm.
  assert (Sb : Z.of_nat (length (seipd_body c)) < 4294967296).
  { unfold packet in E. destruct (header_emit _) as [hd|]; [|discriminate]. injection E as <-. unfold small in Sm. rewrite app_length in Sm. lia. }
  destruct (packet_parse 18 (seipd_body c) rest ltac:(lia) Sb) as [hdr [h [P [HP [HT [HL PF]]]]]].
  rewrite P in E. injection E as <-. rewrite <- app_assoc.
  assert (NE : hdr ++ seipd_body c ++ rest <> []) by (intros Z0; rewrite Z0 in HP; discriminate HP).
  cbn [msg_parse_loop]. destruct (hdr ++ seipd_body c ++ rest) as [|x0 l0] eqn:EQ; [congruence|]. rewrite PF, HP. cbv zeta. rewrite HT.
  change ((18 =? 1) || (18 =? 3) || (18 =? 18)) with true. cbv iota. unfold seipd_body. cbn [app].
  change (18 =? 1) with false. change (18 =? 3) with false. change (1 =? 1) with true. cbv iota.
  rewrite HL. unfold seipd_body. cbn [app length]. replace (Z.of_nat (S (length c)) - 1) with (Z.of_nat (length c)) by lia.
  rewrite py_take_app, py_drop_app. reflexivity.
Qed.

Theorem msg_codec_roundtrip es c b :
  Forall wf_esk es -> msg_emit (es, Some c) = Ok b -> small b -> msg_parse b = Ok (es, Some c).
Proof.
  intros W E Sm. unfold msg_emit in E. cbn [fst snd] in E.
  destruct (esks_emit es) as [a|] eqn:EA; cbn [bind] in E; [|discriminate].
  destruct (packet 18 (seipd_body c)) as [p|] eqn:EP; cbn [bind] in E; [|discriminate]. injection E as <-.
  unfold small in Sm. rewrite app_length in Sm. unfold msg_parse.
  assert (Lp : (1 <= length p)%nat).
  { unfold packet in EP. destruct (header_emit _) as [hd|]; [|discriminate]. injection EP as <-. rewrite app_length. unfold seipd_body. cbn [length app]. lia. }
  assert (Les : (length es <= length a)%nat).
  { clear - EA. revert a EA. induction es as [|e es IH]; intros a EA; [cbn; lia|].
    cbn [esks_emit] in EA. destruct (esk_packet e) as [q|] eqn:EQ; cbn [bind] in EA; [|discriminate].
    destruct (esks_emit es) as [a'|]; cbn [bind] in EA; [|discriminate]. injection EA as <-.
    specialize (IH a' eq_refl). rewrite app_length. cbn [length].
    assert ((1 <= length q)%nat); [|lia].
    unfold esk_packet in EQ. destruct (esk_body e) as [bd|]; cbn [bind] in EQ; [|discriminate].
    unfold packet in EQ. destruct (header_emit _) as [hd|] eqn:EH; [|discriminate]. injection EQ as <-.
    rewrite header_emit_new in EH. injection EH as <-.
    rewrite !app_length. rewrite length_int_to_bytes. lia. }
  rewrite app_length.
  replace (S (length a + length p)) with (length es + S (S (length a + length p - length es - 1)))%nat by lia.
  rewrite (esks_emit_parse es a p _ [] None W EA) by (unfold small; lia). cbn [app].
  pose proof (seipd_step c p [] (S (length a + length p - length es - 1)) es EP ltac:(unfold small; lia)) as ST.
  rewrite app_nil_r in ST. rewrite ST. reflexivity.
Qed.

(* ---------- what encrypt_to builds is well formed, so the octets it is written as read back as the same message ---------- *)
Section Wf.
  Variable sha1 : bytes -> bytes.
  Variable cfb_enc : Z -> bytes -> bytes -> option bytes.
  Variable rsa_bits : bytes -> Z.
  Variable rsa_enc : bytes -> bytes -> bytes -> option bytes.
  Variable rsa_dec : bytes -> bytes -> option bytes.
  Variable ecdh_gen : bytes -> bytes -> option (bytes * bytes).
  Variable hash : Z -> bytes -> option bytes.
  Variable aes_wrap : bytes -> bytes -> option bytes.
  Variable s2k : Z -> Z -> bytes -> Z -> nat -> bytes -> option bytes.

  Hypothesis rsa_ok : forall h seed m c, rsa_enc h seed m = Some c ->
    wf_bytes c /\ Z.of_nat (length c) = (rsa_bits h + 7) / 8 /\ rsa_bits h + 7 < 65536 /\ rsa_dec h c = Some m.
  (* the ephemeral public key is an uncompressed SEC1 point 04 || X || Y or a native point 40 || X *)
  Hypothesis ecdh_point : forall h seed v s, ecdh_gen h seed = Some (v, s) ->
    wf_bytes v /\ Z.of_nat (length v) <= 8000 /\ exists r, (v = 4 :: r /\ Nat.even (length r) = true) \/ v = 64 :: r.
  Hypothesis wrap_short : forall z x c, aes_wrap z x = Some c -> (length c < 256)%nat.

  Definition wf_recipient (r : recipient) : Prop :=
    match r with
    | RPass _ sp => wf_spec sp
    | RKey k _ => length (k_id k) = 8%nat
    end.

  Lemma esk_of_wf alg sk r e : sym_valid alg = true -> wf_recipient r ->
    esk_of cfb_enc rsa_enc ecdh_gen hash aes_wrap s2k alg sk r = Ok e -> wf_esk e.
  Proof.
    intros V W E. destruct r as [p sp|k seed]; cbn [esk_of wf_recipient] in *.
    - unfold skesk_encrypt, skesk_encrypt_gen in E.
      destruct (key_octets alg) as [n0|]; [|discriminate]. destruct (negb (length sk =? n0)%nat); [discriminate|].
      destruct (s2k_derive s2k alg sp p) as [kk|]; cbn [bind] in E; [|discriminate].
      destruct (cfb_enc alg kk _) as [c|]; cbn [of_opt bind] in E; [|discriminate].
      injection E as <-. cbn. auto.
    - unfold pkesk_encrypt in E. destruct (key_octets alg) as [n0|]; [|discriminate].
      destruct (negb (length sk =? n0)%nat); [discriminate|]. destruct (k_alg k =? 1) eqn:A1.
      + unfold rsa_encrypt_ct in E. destruct (rsa_enc (k_fp k) seed _) as [c|] eqn:R; cbn [bind] in E; [|discriminate].
        injection E as <-. destruct (rsa_ok _ _ _ _ R) as [Wc [Lc [Bits _]]].
        cbn [wf_esk wf_pkct]. split; [exact W|]. split; [auto|].
        pose proof (unbe_bounds c Wc) as B. unfold bytes_to_int. split; [lia|].
        assert (Lk : Z.of_nat (length c) < 8192).
        { pose proof (Z.div_mod (rsa_bits (k_fp k) + 7) 8 ltac:(lia)). pose proof (Z.mod_pos_bound (rsa_bits (k_fp k) + 7) 8 ltac:(lia)). lia. }
        assert (bit_length (unbe c) <= 8 * Z.of_nat (length c)); [|lia].
        apply bit_length_le; [lia|]. replace (2 ^ (8 * Z.of_nat (length c))) with (256 ^ Z.of_nat (length c)); [lia|].
        change 256 with (2 ^ 8). rewrite <- Z.pow_mul_r by lia. reflexivity.
      + destruct (k_alg k =? 18) eqn:A2; [|discriminate]. unfold ecdh_encrypt_ct in E.
        destruct (ecdh_gen (k_fp k) seed) as [[v s]|] eqn:G; cbn [of_opt bind fst snd] in E; [|discriminate].
        destruct (ecdh_kek hash k s) as [z|]; cbn [bind] in E; [|discriminate].
        destruct (aes_wrap z _) as [c|] eqn:Wr; cbn [of_opt bind] in E; [|discriminate].
        injection E as <-. destruct (ecdh_point _ _ _ _ G) as [Wv [Lv Sh]].
        cbn [wf_esk wf_pkct]. split; [exact W|]. split; [reflexivity|]. split; [exact Wv|]. split; [exact Lv|].
        split; [eapply wrap_short; exact Wr|exact Sh].
  Qed.

  Theorem encrypt_to_wf alg sk iv rs m es ct : sym_valid alg = true -> Forall wf_recipient rs ->
    encrypt_to sha1 cfb_enc rsa_enc ecdh_gen hash aes_wrap s2k alg sk iv rs m = Ok (es, Some ct) -> Forall wf_esk es.
  Proof.
    intros V W E. apply encrypt_to_parts in E as [_ F].
    destruct (fold_esks cfb_enc rsa_enc ecdh_gen hash aes_wrap s2k alg sk rs [] es F) as [_ B].
    apply Forall_forall. intros e Ie. apply B in Ie as [[]|[r [Ir Er]]].
    rewrite Forall_forall in W. eapply esk_of_wf; [exact V|apply W; exact Ir|exact Er].
  Qed.
End Wf.

(* ---------- octets to octets: encrypt_to, written out, parsed by the model of PGPy's reader, decrypted ---------- *)
Section Wire.
  Variable sha1 : bytes -> bytes.
  Variable cfb_enc cfb_dec : Z -> bytes -> bytes -> option bytes.
  Variable rsa_bits : bytes -> Z.
  Variable rsa_enc : bytes -> bytes -> bytes -> option bytes.
  Variable rsa_dec : bytes -> bytes -> option bytes.
  Variable ecdh_gen : bytes -> bytes -> option (bytes * bytes).
  Variable ecdh_shared : bytes -> bytes -> option bytes.
  Variable hash : Z -> bytes -> option bytes.
  Variable aes_wrap aes_unwrap : bytes -> bytes -> option bytes.
  Variable s2k : Z -> Z -> bytes -> Z -> nat -> bytes -> option bytes.
  Hypothesis sha1_len : forall x, length (sha1 x) = 20%nat.
  Hypothesis cfb_dec_enc : forall a k x c, cfb_enc a k x = Some c -> cfb_dec a k c = Some x.
  Hypothesis cfb_len : forall a k c x, cfb_dec a k c = Some x -> length x = length c.
  Hypothesis rsa_ok : forall h seed m c, rsa_enc h seed m = Some c ->
    wf_bytes c /\ Z.of_nat (length c) = (rsa_bits h + 7) / 8 /\ rsa_bits h + 7 < 65536 /\ rsa_dec h c = Some m.
  Hypothesis ecdh_ok : forall h seed v s, ecdh_gen h seed = Some (v, s) -> ecdh_shared h v = Some s.
  Hypothesis ecdh_point : forall h seed v s, ecdh_gen h seed = Some (v, s) ->
    wf_bytes v /\ Z.of_nat (length v) <= 8000 /\ exists r, (v = 4 :: r /\ Nat.even (length r) = true) \/ v = 64 :: r.
  Hypothesis wrap_ok : forall z x c, aes_wrap z x = Some c -> aes_unwrap z c = Some x.
  Hypothesis wrap_short : forall z x c, aes_wrap z x = Some c -> (length c < 256)%nat.

  Variables (alg : Z) (sk iv m : bytes) (rs : list recipient) (n : nat) (es : list esk) (ct b : bytes).
  Hypothesis Hvalid : sym_valid alg = true.
  Hypothesis Hkeylen : key_octets alg = Some n.
  Hypothesis Hsk : length sk = n.
  Hypothesis Hiv : length iv = block_octets alg.
  Hypothesis Hrs : Forall wf_recipient rs.
  Hypothesis Henc : encrypt_to sha1 cfb_enc rsa_enc ecdh_gen hash aes_wrap s2k alg sk iv rs m = Ok (es, Some ct).
  Hypothesis Hemit : msg_emit (es, Some ct) = Ok b.
  Hypothesis Hsmall : Z.of_nat (length b) < 4294967296.

  Lemma wire_parse : msg_parse b = Ok (es, Some ct).
  Proof.
    apply msg_codec_roundtrip; [|exact Hemit|exact Hsmall].
    eapply encrypt_to_wf; try eassumption.
  Qed.

  Theorem wire_roundtrip_key holder k seed :
    (forall k1 k2, cand rs holder k1 -> cand rs holder k2 -> k_id k1 = k_id k2 -> k1 = k2) ->
    In (RKey k seed) rs -> (k = fk_key holder \/ In k (fk_subs holder)) ->
    bind (msg_parse b) (decrypt_with sha1 cfb_dec rsa_bits rsa_dec ecdh_shared hash aes_unwrap s2k (SKey holder))
    = Ok m.
  Proof.
    intros U I H. rewrite wire_parse. cbn [bind decrypt_with].
    eapply message_roundtrip_key; eassumption.
  Qed.

  Theorem wire_roundtrip_pass p sp :
    (forall p' sp' e', In (RPass p' sp') rs -> skesk_encrypt cfb_enc s2k alg sp' p' sk = Ok e' -> (p', sp') <> (p, sp) ->
       exists x, skesk_try sha1 cfb_dec s2k e' p ct = Raise x /\ caught x = true) ->
    In (RPass p sp) rs ->
    bind (msg_parse b) (decrypt_with sha1 cfb_dec rsa_bits rsa_dec ecdh_shared hash aes_unwrap s2k (SPass p))
    = Ok m.
  Proof.
    intros Wr I. rewrite wire_parse. cbn [bind decrypt_with].
    eapply (message_roundtrip_pass sha1 cfb_enc cfb_dec rsa_bits rsa_enc rsa_dec ecdh_gen ecdh_shared hash aes_wrap aes_unwrap s2k); eassumption.
  Qed.
End Wire.
