(* Proof scripts for C03 / C04, part 1: SEIPD layout, gate and round trip; PKESK m; PKCS#5; RFC 6637 block and KDF. *)
From Coq Require Import ZArith List Bool Lia ZifyBool.
Import ListNotations.
Require Import PV.Lib.Bytes PV.Lib.BytesLemmas PV.Model.Wire PV.Model.Encrypt PV.Spec.Rfc4880_enc PV.Spec.Rfc6637
  PV.Proofs.Wire_lemmas PV.Proofs.Wire_lemmas2.
Open Scope Z_scope.

(* ---------- lists ---------- *)
Lemma lastn_app_exact {A} (l r : list A) n : length r = n -> lastn n (l ++ r) = r.
Proof.
  intros <-. unfold lastn. rewrite app_length.
  replace (length l + length r - length r)%nat with (length l) by lia.
  apply skipn_app_exact. reflexivity.
Qed.

Lemma length_lastn {A} (l : list A) n : length (lastn n l) = Nat.min n (length l).
Proof. unfold lastn. rewrite skipn_length. lia. Qed.

Lemma firstn_lastn {A} (l : list A) n : firstn (length l - n) l ++ lastn n l = l.
Proof. unfold lastn. apply firstn_skipn. Qed.

Lemma lastn2_nth (l : bytes) : (2 <= length l)%nat ->
  lastn 2 l = [nth (length l - 2) l 0; nth (length l - 1) l 0].
Proof.
  intros H. pose proof (firstn_lastn l 2) as E. pose proof (length_lastn l 2) as L.
  destruct (lastn 2 l) as [|a [|b [|c t]]] eqn:E2; cbn [length] in L; try lia.
  assert (Lf : length (firstn (length l - 2) l) = (length l - 2)%nat) by (rewrite firstn_length; lia).
  rewrite <- E at 2 4.
  rewrite !app_nth2 by lia. rewrite Lf.
  replace (length l - 2 - (length l - 2))%nat with 0%nat by lia.
  replace (length l - 1 - (length l - 2))%nat with 1%nat by lia. reflexivity.
Qed.

Lemma eqb_bytes_length a b : eqb_bytes a b = true -> length a = length b.
Proof. intros H. apply eqb_bytes_eq in H. congruence. Qed.

Lemma forallb_repeat (n : Z) k : forallb (Z.eqb n) (repeat n k) = true.
Proof. induction k; cbn; [reflexivity|]. rewrite Z.eqb_refl. exact IHk. Qed.

Lemma forallb_eq_repeat (n : Z) l : forallb (Z.eqb n) l = true -> l = repeat n (length l).
Proof.
  induction l as [|x l IH]; cbn; [reflexivity|]. intros H. apply andb_prop in H as [H1 H2].
  apply Z.eqb_eq in H1. subst x. f_equal. apply IH. exact H2.
Qed.

Lemma last_app_repeat (l : bytes) x k d : last (l ++ repeat x (S k)) d = x.
Proof.
  replace (repeat x (S k)) with (repeat x k ++ [x]).
  - rewrite app_assoc. apply last_last.
  - clear. induction k; cbn; [reflexivity|]. cbn in IHk. rewrite IHk. reflexivity.
Qed.

Lemma last_lastn (l : bytes) d : l <> [] -> lastn 1 l = [last l d].
Proof.
  intros H. destruct (exists_last H) as [l' [x ->]].
  rewrite last_last. apply lastn_app_exact. reflexivity.
Qed.

(* ---------- algorithm tables ---------- *)
Lemma zmem_In a l : zmem a l = true <-> In a l.
Proof.
  unfold zmem. rewrite existsb_exists. split.
  - intros [x [H1 H2]]. apply Z.eqb_eq in H2. subst. exact H1.
  - intros H. exists a. split; [exact H|apply Z.eqb_refl].
Qed.

Lemma sym_valid_octet a : sym_valid a = true -> 0 <= a < 256.
Proof. unfold sym_valid. rewrite zmem_In. cbn. intuition lia. Qed.

Lemma key_octets_block a n : key_octets a = Some n -> (2 <= block_octets a)%nat /\ sym_valid a = true.
Proof.
  unfold key_octets, key_bits, block_octets, block_bits, sym_valid, zmem.
  repeat match goal with |- context [if ?c then _ else _] => destruct c eqn:? end;
    intros H; try discriminate H; cbn; split; try lia; try reflexivity.
Qed.

(* ---------- MDC packet ---------- *)
Lemma mdc_bytes_20 d : length d = 20%nat -> mdc_bytes d = [211; 20] ++ d.
Proof. intros H. unfold mdc_bytes. rewrite H. reflexivity. Qed.

Section Seipd.
  Variable sha1 : bytes -> bytes.
  Variable cfb_enc cfb_dec : Z -> bytes -> bytes -> option bytes.
  Hypothesis sha1_len : forall x, length (sha1 x) = 20%nat.

  (* layout = RFC 4880 5.13 *)
  Lemma seipd_layout_eq_rfc iv data : (2 <= length iv)%nat ->
    seipd_plain sha1 iv data = rfc_seipd_plain sha1 iv (length iv) data.
  Proof.
    intros H. unfold seipd_plain, rfc_seipd_plain, rfc_prefix.
    rewrite mdc_bytes_20 by apply sha1_len. rewrite lastn2_nth by exact H.
    repeat rewrite <- app_assoc. cbn [app]. reflexivity.
  Qed.

  Lemma seipd_plain_shape iv data :
    seipd_plain sha1 iv data =
    iv ++ lastn 2 iv ++ data ++ [211; 20] ++ sha1 (iv ++ lastn 2 iv ++ data ++ [211; 20]).
  Proof.
    unfold seipd_plain. rewrite mdc_bytes_20 by apply sha1_len.
    repeat rewrite <- app_assoc. reflexivity.
  Qed.

  (* the gate on a decrypted octet string *)
  Definition gate_mdc (pt : bytes) : Prop := lastn 22 pt = [211; 20] ++ sha1 (firstn (length pt - 20) pt).
  Definition gate_quick (bs : nat) (pt : bytes) : Prop := lastn 2 (firstn bs pt) = firstn 2 (skipn bs pt).

  (* what is left when the MDC packet has been taken off the end *)
  Definition unmdc (pt : bytes) : bytes := firstn (length pt - 22) pt.

  Lemma seipd_accept_iff alg key ct p :
    seipd_decrypt sha1 cfb_dec alg key ct = Ok p <->
    exists pt, cfb_dec alg key ct = Some pt /\ gate_mdc pt /\ gate_quick (block_octets alg) (unmdc pt) /\
               p = skipn 2 (skipn (block_octets alg) (unmdc pt)).
  Proof.
    unfold seipd_decrypt, gate_mdc, gate_quick, unmdc, beqb. split.
    - destruct (cfb_dec alg key ct) as [pt|]; [|discriminate].
      destruct (eqb_bytes (lastn 22 pt) _) eqn:E1; cbn [negb]; [|discriminate].
      destruct (eqb_bytes (lastn 2 _) _) eqn:E2; cbn [negb]; [|discriminate].
      intros [= <-]. exists pt. apply eqb_bytes_eq in E1. apply eqb_bytes_eq in E2. auto.
    - intros [pt [-> [G1 [G2 ->]]]]. rewrite G1, eqb_bytes_refl. cbn [negb].
      rewrite G2, eqb_bytes_refl. reflexivity.
  Qed.

  (* every failure of the gate is PGPDecryptionError, every failure of the cipher set-up is the primitive's *)
  Lemma seipd_reject_kinds alg key ct e :
    seipd_decrypt sha1 cfb_dec alg key ct = Raise e -> e = EDecrypt \/ (e = EPrim /\ cfb_dec alg key ct = None).
  Proof.
    unfold seipd_decrypt. destruct (cfb_dec alg key ct) as [pt|]; [|intros [= <-]; auto].
    destruct (negb _); [intros [= <-]; auto|]. destruct (negb _); [intros [= <-]; auto|discriminate].
  Qed.

  (* the MDC half of the gate is exactly the RFC's description of a valid MDC *)
  Lemma gate_mdc_eq_rfc pt : gate_mdc pt <-> rfc_mdc_valid sha1 pt.
  Proof.
    unfold gate_mdc, rfc_mdc_valid. split.
    - intros G.
      assert (L : (22 <= length pt)%nat).
      { pose proof (length_lastn pt 22) as L. rewrite G in L. cbn [length app] in L. rewrite sha1_len in L. lia. }
      pose proof (firstn_lastn pt 22) as E. rewrite G in E.
      set (body := firstn (length pt - 22) pt) in *.
      assert (Lb : length body = (length pt - 22)%nat) by (unfold body; rewrite firstn_length; lia).
      assert (F : firstn (length pt - 20) pt = body ++ [211; 20]).
      { rewrite <- E at 2. rewrite firstn_app, Lb.
        replace (length pt - 20 - (length pt - 22))%nat with 2%nat by lia.
        rewrite firstn_all2 by lia. reflexivity. }
      exists (body ++ [211; 20]), (sha1 (body ++ [211; 20])).
      split; [|split; [apply sha1_len|split; [exists body; reflexivity|reflexivity]]].
      rewrite <- E at 1. rewrite F. rewrite <- app_assoc. reflexivity.
    - intros [hashed [digest [-> [Ld [[front ->] ->]]]]].
      set (hs := front ++ [211; 20]) in *.
      rewrite app_length, Ld. replace (length hs + 20 - 20)%nat with (length hs) by lia.
      rewrite firstn_app_exact by reflexivity.
      unfold hs at 1. rewrite <- app_assoc. apply lastn_app_exact. cbn [app length]. rewrite sha1_len. reflexivity.
  Qed.

  Lemma gate_mdc_length pt : gate_mdc pt -> (22 <= length pt)%nat.
  Proof.
    intros G. pose proof (length_lastn pt 22) as L. unfold gate_mdc in G. rewrite G in L.
    cbn [length app] in L. rewrite sha1_len in L. lia.
  Qed.

  Hypothesis cfb_len : forall a k c x, cfb_dec a k c = Some x -> length x = length c.

  Lemma seipd_short_rejects alg key ct p : (length ct < 22)%nat -> seipd_decrypt sha1 cfb_dec alg key ct <> Ok p.
  Proof.
    intros H E. apply seipd_accept_iff in E as [pt [D [G _]]].
    apply gate_mdc_length in G. apply cfb_len in D. lia.
  Qed.

  Hypothesis cfb_dec_enc : forall a k x c, cfb_enc a k x = Some c -> cfb_dec a k c = Some x.

  Lemma gates_of_plain iv data : (2 <= length iv)%nat ->
    let pt := seipd_plain sha1 iv data in
    gate_mdc pt /\ unmdc pt = iv ++ lastn 2 iv ++ data /\ gate_quick (length iv) (unmdc pt) /\
    skipn 2 (skipn (length iv) (unmdc pt)) = data.
  Proof.
    intros H pt. subst pt. rewrite seipd_plain_shape.
    set (hs := iv ++ lastn 2 iv ++ data ++ [211; 20]).
    set (h := sha1 hs).
    assert (Lh : length h = 20%nat) by apply sha1_len.
    assert (L2 : length (lastn 2 iv) = 2%nat) by (rewrite length_lastn; lia).
    assert (U : unmdc (iv ++ lastn 2 iv ++ data ++ [211; 20] ++ h) = iv ++ lastn 2 iv ++ data).
    { unfold unmdc.
      replace (iv ++ lastn 2 iv ++ data ++ [211; 20] ++ h) with ((iv ++ lastn 2 iv ++ data) ++ ([211; 20] ++ h))
        by (repeat rewrite <- app_assoc; reflexivity).
      apply firstn_app_exact. rewrite (app_length (iv ++ lastn 2 iv ++ data)). cbn [app length]. rewrite Lh. lia. }
    split; [|split; [exact U|rewrite U; split]].
    - unfold gate_mdc.
      replace (iv ++ lastn 2 iv ++ data ++ [211; 20] ++ h) with (hs ++ h)
        by (unfold hs; repeat rewrite <- app_assoc; reflexivity).
      rewrite app_length, Lh. replace (length hs + 20 - 20)%nat with (length hs) by lia.
      rewrite firstn_app_exact by reflexivity. fold h.
      replace (hs ++ h) with ((iv ++ lastn 2 iv ++ data) ++ ([211; 20] ++ h))
        by (unfold hs; repeat rewrite <- app_assoc; reflexivity).
      apply lastn_app_exact. cbn [app length]. rewrite Lh. reflexivity.
    - unfold gate_quick. rewrite firstn_app_exact, skipn_app_exact by reflexivity.
      rewrite firstn_app_exact by exact L2. reflexivity.
    - rewrite skipn_app_exact by reflexivity. rewrite skipn_app_exact by exact L2. reflexivity.
  Qed.

  (* after the quick check nothing of an accepted text is prefix: it is empty or longer than block + 2 (+ MDC) *)
  Lemma gate_quick_lengths bs body : (2 <= bs)%nat -> gate_quick bs body -> body = [] \/ (bs + 2 <= length body)%nat.
  Proof.
    intros Hb G. unfold gate_quick in G.
    destruct (Nat.le_gt_cases (bs + 2) (length body)) as [L|L]; [right; exact L|left].
    assert (L1 : length (lastn 2 (firstn bs body)) = Nat.min 2 (Nat.min bs (length body))) by (rewrite length_lastn, firstn_length; reflexivity).
    assert (L2 : length (firstn 2 (skipn bs body)) = Nat.min 2 (length body - bs)) by (rewrite firstn_length, skipn_length; reflexivity).
    rewrite G in L1. rewrite L1 in L2.
    destruct body as [|x body]; [reflexivity|]. cbn [length] in *. lia.
  Qed.

  Theorem seipd_roundtrip alg key iv data c :
    length iv = block_octets alg -> (2 <= block_octets alg)%nat ->
    seipd_encrypt sha1 cfb_enc alg key iv data = Ok c ->
    seipd_decrypt sha1 cfb_dec alg key c = Ok data.
  Proof.
    intros Hl Hb E. unfold seipd_encrypt in E.
    destruct (cfb_enc alg key (seipd_plain sha1 iv data)) as [c'|] eqn:EC; cbn in E; [|discriminate].
    injection E as ->. apply cfb_dec_enc in EC.
    apply seipd_accept_iff. exists (seipd_plain sha1 iv data).
    destruct (gates_of_plain iv data ltac:(lia)) as [G1 [_ [G2 G3]]].
    rewrite <- Hl. split; [exact EC|]. split; [exact G1|]. split; [exact G2|]. symmetry. exact G3.
  Qed.

  (* an accepted ciphertext is an MDC packet alone (empty text, no prefix) or at least block + 2 + 22 octets long *)
  Lemma seipd_accept_lengths alg key ct p : (2 <= block_octets alg)%nat ->
    seipd_decrypt sha1 cfb_dec alg key ct = Ok p ->
    (length ct = 22%nat /\ p = []) \/ (block_octets alg + 2 + 22 <= length ct)%nat.
  Proof.
    intros Hb E. apply seipd_accept_iff in E as [pt [D [G1 [G2 ->]]]].
    pose proof (gate_mdc_length pt G1) as L22. pose proof (cfb_len _ _ _ _ D) as Lc.
    assert (Lu : length (unmdc pt) = (length pt - 22)%nat) by (unfold unmdc; rewrite firstn_length; lia).
    destruct (gate_quick_lengths _ _ Hb G2) as [E0|Lg].
    - left. rewrite E0 in Lu. cbn [length] in Lu. split; [lia|]. rewrite E0. rewrite skipn_nil. reflexivity.
    - right. lia.
  Qed.
End Seipd.

(* ---------- PKESK m ---------- *)
Lemma pkesk_m_eq_rfc alg key : 0 <= alg < 256 -> pkesk_m alg key = rfc_pkesk_m alg key.
Proof.
  intros H. unfold pkesk_m, rfc_pkesk_m, rfc_checksum.
  rewrite int_to_bytes_octet by exact H.
  assert (S : sumz key = fold_right Z.add 0 key) by (induction key; cbn; [reflexivity|]; rewrite IHkey; reflexivity).
  rewrite <- S. set (cs := sumz key mod 65536).
  assert (0 <= cs < 65536) by (unfold cs; apply Z.mod_pos_bound; lia).
  rewrite (int_to_bytes_fits cs 2) by (change (256 ^ 2) with 65536; lia).
  change (Z.to_nat 2) with 2%nat.
  assert (M : (cs / 256) mod 256 = cs / 256)
    by (apply Z.mod_small; split; [apply Z.div_pos; lia|apply Z.div_lt_upper_bound; lia]).
  cbn [be app]. rewrite M. reflexivity.
Qed.

Lemma length_cs2 v : 0 <= v < 65536 -> length (int_to_bytes v 2) = 2%nat.
Proof. intros H. rewrite int_to_bytes_fits by (change (256 ^ 2) with 65536; lia). apply length_be. Qed.

Theorem pkesk_m_roundtrip alg key n pad :
  sym_valid alg = true -> key_octets alg = Some n -> length key = n ->
  pkesk_open (pkesk_m alg key ++ pad) = Ok (alg, key).
Proof.
  intros V K L. pose proof (sym_valid_octet alg V) as R.
  unfold pkesk_m. rewrite int_to_bytes_octet by exact R. cbn [app]. unfold pkesk_open.
  rewrite V, K. cbn [negb].
  set (cs := sumz key mod 65536).
  assert (Hc : 0 <= cs < 65536) by (unfold cs; apply Z.mod_pos_bound; lia).
  rewrite <- app_assoc. rewrite firstn_app_exact, skipn_app_exact by exact L.
  rewrite firstn_app_exact by (apply length_cs2; exact Hc).
  unfold bytes_to_int. rewrite unbe_int_to_bytes by lia. fold cs. rewrite Z.eqb_refl, L, Nat.eqb_refl. reflexivity.
Qed.

Theorem pkesk_open_accept_iff m a k :
  pkesk_open m = Ok (a, k) <->
  exists r n, m = a :: r /\ sym_valid a = true /\ key_octets a = Some n /\ k = firstn n r /\ length k = n /\
              sumz k mod 65536 = bytes_to_int (firstn 2 (skipn n r)).
Proof.
  unfold pkesk_open. split.
  - destruct m as [|a' r]; [discriminate|].
    destruct (sym_valid a') eqn:V; cbn [negb]; [|discriminate].
    destruct (key_octets a') as [n|] eqn:K; [|discriminate].
    destruct (length (firstn n r) =? n)%nat eqn:EL; cbn [negb orb]; [|discriminate].
    destruct (sumz (firstn n r) mod 65536 =? _) eqn:E; cbn [negb]; [|discriminate].
    intros [= <- <-]. exists r, n. apply Z.eqb_eq in E. apply Nat.eqb_eq in EL. auto 10.
  - intros [r [n [-> [V [K [-> [L E]]]]]]]. rewrite V, K. cbn [negb]. rewrite L, Nat.eqb_refl, E, Z.eqb_refl. reflexivity.
Qed.

(* every refusal of the tail of decrypt_sk is PGPDecryptionError (repair 774c7db) *)
Theorem pkesk_open_reject_kinds m e : pkesk_open m = Raise e -> e = EDecrypt.
Proof.
  unfold pkesk_open. destruct m as [|a r]; [intros [= <-]; reflexivity|].
  destruct (negb (sym_valid a)); [intros [= <-]; reflexivity|].
  destruct (key_octets a) as [n|]; [|intros [= <-]; reflexivity].
  destruct (_ || _); [intros [= <-]; reflexivity|discriminate].
Qed.

(* regression (before 774c7db): IndexError, ValueError and NotImplementedError escaped, and an m cut off inside the key
   was accepted with the SHORT key when the two octets that happened to follow matched its sum; all are refused now *)
Theorem pkesk_open_old_refuted :
  pkesk_open_old [] = Raise EIndex /\ pkesk_open_old [5] = Raise EValue /\ pkesk_open_old [1] = Ok (1, []) /\
  pkesk_open_old [0] = Raise ENotImpl /\ pkesk_open_old [9; 0; 0] = Ok (9, [0; 0]) /\
  pkesk_open [] = Raise EDecrypt /\ pkesk_open [5] = Raise EDecrypt /\ pkesk_open [1] = Raise EDecrypt /\
  pkesk_open [0] = Raise EDecrypt /\ pkesk_open [9; 0; 0] = Raise EDecrypt.
Proof. vm_compute. repeat split. Qed.

(* a caller-supplied session key of the wrong length is NOT recovered from m (AES-256 id, 16-octet key) *)
Theorem pkesk_m_wrong_length_refuted :
  exists alg key, sym_valid alg = true /\ pkesk_open (pkesk_m alg key) <> Ok (alg, key).
Proof. exists 9, (repeat 1 16). split; [reflexivity|]. vm_compute. discriminate. Qed.

(* ---------- PKCS#5 ---------- *)
Lemma pad_n_range (m : bytes) : 1 <= 8 - Z.of_nat (length m) mod 8 <= 8.
Proof. pose proof (Z.mod_pos_bound (Z.of_nat (length m)) 8 ltac:(lia)). lia. Qed.

(* the unpadder takes off ANY PKCS#5 padding (n >= 1 octets of value n), whatever the total length *)
Lemma unpad_padded m n : 1 <= n -> pkcs5_unpad (m ++ repeat n (Z.to_nat n)) = Some m.
Proof.
  intros Hn. unfold pkcs5_unpad.
  rewrite app_length, repeat_length.
  destruct (Z.to_nat n) as [|k] eqn:Ek; [lia|].
  destruct ((length m + S k =? 0)%nat) eqn:E0; [lia|].
  rewrite last_app_repeat.
  destruct (n <? 1) eqn:E1; [lia|]. destruct (Z.of_nat (length m + S k) <? n) eqn:E2; [lia|]. cbn [orb].
  rewrite Ek. rewrite lastn_app_exact by (rewrite repeat_length; reflexivity).
  rewrite eqb_bytes_refl.
  replace (length m + S k - S k)%nat with (length m) by lia.
  rewrite firstn_app_exact by reflexivity. reflexivity.
Qed.

Theorem pad_unpad m : pkcs5_unpad (pkcs5_pad m) = Some m.
Proof. unfold pkcs5_pad. apply unpad_padded. pose proof (pad_n_range m). lia. Qed.

Lemma pad_eq_rfc m : pkcs5_pad m = rfc_pad8 m /\ rfc_padded_ok (pkcs5_pad m) m.
Proof.
  split; [reflexivity|]. unfold rfc_padded_ok, pkcs5_pad. pose proof (pad_n_range m) as R.
  exists (8 - Z.of_nat (length m) mod 8). split; [exact R|]. split; [reflexivity|].
  rewrite app_length, repeat_length, Nat2Z.inj_add, Z2Nat.id by lia.
  replace (Z.of_nat (length m) + (8 - Z.of_nat (length m) mod 8)) with (Z.of_nat (length m) - Z.of_nat (length m) mod 8 + 1 * 8) by lia.
  rewrite Z.mod_add by lia. rewrite Zminus_mod, Z.mod_mod by lia. rewrite Z.sub_diag. reflexivity.
Qed.

(* whatever the unpadder accepts is a PKCS#5-padded string (n >= 1 octets of value n were taken off), and it accepts all
   of them: no other path to Some *)
Theorem unpad_accept_iff p m : pkcs5_unpad p = Some m <-> rfc_pkcs5_padded p m.
Proof.
  split.
  - unfold pkcs5_unpad, rfc_pkcs5_padded.
    destruct ((length p =? 0)%nat) eqn:E0; [discriminate|].
    set (n := last p 0).
    destruct (n <? 1) eqn:E1; [discriminate|]. destruct (Z.of_nat (length p) <? n) eqn:E9; [discriminate|]. cbn [orb].
    destruct (eqb_bytes (lastn (Z.to_nat n) p) (repeat n (Z.to_nat n))) eqn:EF; [|discriminate].
    intros [= <-]. exists n. split; [lia|].
    apply eqb_bytes_eq in EF. rewrite <- EF. symmetry. apply firstn_lastn.
  - intros [n [Hn ->]]. apply unpad_padded. exact Hn.
Qed.

Theorem unpad_accept_inv p m : pkcs5_unpad p = Some m -> rfc_pkcs5_padded p m.
Proof. apply unpad_accept_iff. Qed.

(* RFC 6637 section 8: a sender hiding the key size pads m (19 / 27 / 35 octets for AES-128 / 192 / 256) with 21 / 13 / 5
   octets to 40; any m shorter than 40 octets padded that way is accepted and given back *)
Theorem unpad_pad40 m : (length m < 40)%nat -> pkcs5_unpad (rfc_pad40 m) = Some m /\ length (rfc_pad40 m) = 40%nat.
Proof.
  intros H. unfold rfc_pad40. split; [apply unpad_padded; lia|].
  rewrite app_length, repeat_length. lia.
Qed.
Lemma pad_to_40 m : pkcs5_pad_to 40 m = rfc_pad40 m.
Proof. reflexivity. Qed.
Lemma unpad_pad_to total m : Z.of_nat (length m) < total -> pkcs5_unpad (pkcs5_pad_to total m) = Some m.
Proof. intros H. unfold pkcs5_pad_to. apply unpad_padded. lia. Qed.
Lemma length_pkesk_m alg key : 0 <= alg < 256 -> length (pkesk_m alg key) = (length key + 3)%nat.
Proof.
  intros H. unfold pkesk_m. rewrite int_to_bytes_octet by exact H. rewrite !app_length.
  rewrite length_cs2 by (apply Z.mod_pos_bound; lia). cbn [length]. lia.
Qed.
Theorem unpad_pad40_rfc_amounts m :
  (length m = 19%nat -> rfc_pad40 m = m ++ repeat 21 21) /\ (length m = 27%nat -> rfc_pad40 m = m ++ repeat 13 13) /\
  (length m = 35%nat -> rfc_pad40 m = m ++ repeat 5 5).
Proof. unfold rfc_pad40. repeat split; intros ->; reflexivity. Qed.

(* regression (before 830c52d): the PKCS7(64) unpadder refused pad values above 8, i.e. the 40-octet forms of AES-128 and
   AES-192 session keys; what it did accept was padded to the 8-octet granularity *)
Theorem unpad_old_pad40_refuted :
  pkcs5_unpad_old (rfc_pad40 (repeat 7 19)) = None /\ pkcs5_unpad_old (rfc_pad40 (repeat 8 27)) = None /\
  pkcs5_unpad (rfc_pad40 (repeat 7 19)) = Some (repeat 7 19) /\ pkcs5_unpad (rfc_pad40 (repeat 8 27)) = Some (repeat 8 27).
Proof. vm_compute. repeat split. Qed.

Theorem unpad_old_accept_inv p m : pkcs5_unpad_old p = Some m -> rfc_padded_ok p m.
Proof.
  unfold pkcs5_unpad_old, rfc_padded_ok.
  destruct ((length p =? 0)%nat) eqn:E0; [discriminate|].
  destruct (Z.of_nat (length p) mod 8 =? 0) eqn:E8; cbn [orb negb]; [|discriminate].
  set (n := last p 0).
  destruct (n <? 1) eqn:E1; [discriminate|]. destruct (n >? 8) eqn:E9; [discriminate|]. cbn [orb].
  destruct (forallb (Z.eqb n) (lastn (Z.to_nat n) p)) eqn:EF; [|discriminate].
  intros [= <-]. exists n. split; [lia|].
  assert (L8 : (8 <= length p)%nat).
  { apply Z.eqb_eq in E8. pose proof (Z.div_mod (Z.of_nat (length p)) 8 ltac:(lia)). lia. }
  apply forallb_eq_repeat in EF. rewrite length_lastn in EF.
  rewrite Nat.min_l in EF by lia.
  split; [|apply Z.eqb_eq; exact E8].
  rewrite <- EF. symmetry. apply firstn_lastn.
Qed.

(* ---------- RFC 6637 ---------- *)
Theorem ecdh_param_eq_rfc6637 oid halg kek fp : ecdh_param oid halg kek fp = rfc_param oid halg kek fp.
Proof. reflexivity. Qed.

Section Kdf.
  Variable hash : Z -> bytes -> option bytes.
  Definition hash_total (halg : Z) (x : bytes) : bytes := match hash halg x with Some d => d | None => [] end.

  Theorem kdf_eq_rfc6637 halg s len param d :
    hash halg ([0; 0; 0; 1] ++ s ++ param) = Some d -> (0 < len <= length d)%nat ->
    ecdh_kdf hash halg s len param = Some (rfc_kdf (hash_total halg) s len param).
  Proof.
    intros H L. unfold ecdh_kdf, rfc_kdf, hash_total. cbn [kdf_loop].
    destruct ((len <=? @length Z [])%nat) eqn:E; [cbn in E; lia|].
    change (be 4 1) with [0; 0; 0; 1]. rewrite H. cbn [app].
    destruct len as [|len']; [lia|]. cbn [kdf_loop].
    destruct ((S len' <=? length d)%nat) eqn:E2; [reflexivity|lia].
  Qed.
End Kdf.
