(* Proof scripts for C03 / C04, part 2: RSA ciphertext restoration, PKESK / SKESK round trips, message level. *)
From Coq Require Import ZArith List Bool Lia ZifyBool.
Import ListNotations.
Require Import PV.Lib.Bytes PV.Lib.BytesLemmas PV.Model.Wire PV.Model.Encrypt
  PV.Proofs.Wire_lemmas PV.Proofs.Wire_lemmas2 PV.Proofs.Encrypt_lemmas.
Open Scope Z_scope.

(* ---------- big-endian padding ---------- *)
Lemma be_zero_ext n : forall v, 0 <= v < 256 ^ Z.of_nat n -> be (S n) v = 0 :: be n v.
Proof.
  induction n as [|n IH]; intros v H.
  - change (256 ^ Z.of_nat 0) with 1 in H. assert (v = 0) by lia. subst. reflexivity.
  - change (be (S (S n)) v) with (be (S n) (v / 256) ++ [v mod 256]).
    rewrite IH.
    + reflexivity.
    + rewrite Nat2Z.inj_succ, Z.pow_succ_r in H by lia.
      split; [apply Z.div_pos; lia|apply Z.div_lt_upper_bound; lia].
Qed.

Lemma be_pad k : forall L v, (L <= k)%nat -> 0 <= v < 256 ^ Z.of_nat L -> be k v = repeat 0 (k - L) ++ be L v.
Proof.
  induction k as [|k IH]; intros L v HL Hv.
  - assert (L = 0)%nat by lia. subst. reflexivity.
  - destruct (Nat.eq_dec L (S k)) as [->|Hne].
    + rewrite Nat.sub_diag. reflexivity.
    + assert (Hk : (L <= k)%nat) by lia.
      rewrite be_zero_ext.
      * rewrite (IH L v Hk Hv). replace (S k - L)%nat with (S (k - L)) by lia. reflexivity.
      * split; [lia|]. eapply Z.lt_le_trans; [apply Hv|]. apply pow256_mono. lia.
Qed.

Lemma mpi_body_0 : mpi_body 0 = [].
Proof. reflexivity. Qed.

Lemma mpi_body_pos v : 0 < v -> bit_length v < 65536 -> mpi_body v = be (Z.to_nat (int_byte_len v)) v.
Proof.
  intros Hv Hb. unfold mpi_body, to_mpibytes.
  destruct (v =? 0) eqn:E; [lia|]. cbn [negb].
  pose proof (bit_length_nonneg v) as Hn.
  rewrite skipn_app_exact by (apply length_cs2; lia).
  unfold int_to_bytes. f_equal.
  pose proof (mpi_byte_length_pos v Hv) as P. unfold mpi_byte_length in *. unfold int_byte_len. lia.
Qed.

(* decrypt_sk: "pad up ct with null bytes if necessary" gives back exactly the octets the primitive produced *)
Lemma rsa_ct_restore c k : wf_bytes c -> length c = k -> Z.of_nat k < 8192 ->
  zeros (Z.of_nat k - Z.of_nat (length (mpi_body (unbe c)))) ++ mpi_body (unbe c) = c.
Proof.
  intros W L K. pose proof (unbe_bounds c W) as B. rewrite L in B.
  rewrite <- (be_unbe c W) at 3. rewrite L. set (v := unbe c) in *.
  destruct (Z.eq_dec v 0) as [->|Hne].
  - rewrite mpi_body_0. cbn [length]. unfold zeros. rewrite Z.sub_0_r, Nat2Z.id, app_nil_r.
    rewrite (be_pad k 0 0) by (cbn; lia). rewrite Nat.sub_0_r. cbn [be]. rewrite app_nil_r. reflexivity.
  - assert (Hv : 0 < v) by lia.
    assert (Hbl : bit_length v <= 8 * Z.of_nat k).
    { apply bit_length_le; [lia|]. replace (2 ^ (8 * Z.of_nat k)) with (256 ^ Z.of_nat k); [lia|].
      change 256 with (2 ^ 8). rewrite <- Z.pow_mul_r by lia. reflexivity. }
    rewrite mpi_body_pos by lia. rewrite length_be.
    pose proof (int_byte_len_le v (Z.of_nat k) ltac:(lia) ltac:(lia)) as HL.
    pose proof (int_byte_len_nonneg v) as HN.
    unfold zeros. rewrite Z2Nat.id by lia.
    replace (Z.to_nat (Z.of_nat k - int_byte_len v)) with (k - Z.to_nat (int_byte_len v))%nat by lia.
    symmetry. apply be_pad; [lia|]. rewrite Z2Nat.id by lia. split; [lia|]. apply lt_pow256_byte_len. lia.
Qed.

(* regression (before 9a4ce40): a 15-bit toy modulus, two octets long; the ciphertext 00 05 was handed to the primitive as the
   single octet 05 (15 // 8 = 1), now as 00 05.  With a primitive that, like the real one, takes only modulus-length input: *)
Theorem rsa_pad_old_refuted :
  rsa_ct_padded (15 / 8) (bytes_to_int [0; 5]) = [5] /\ rsa_ct_padded ((15 + 7) / 8) (bytes_to_int [0; 5]) = [0; 5] /\
  let bits := fun _ : bytes => 15 in
  let dec := fun (_ c : bytes) => if (length c =? 2)%nat then Some c else None in
  rsa_decrypt_m_old bits dec [] (bytes_to_int [0; 5]) = Raise EPrim /\ rsa_decrypt_m bits dec [] (bytes_to_int [0; 5]) = Ok [0; 5].
Proof. vm_compute. repeat split. Qed.

(* ---------- generic ---------- *)
Lemma find_exists {A} (f : A -> bool) l : (exists x, In x l /\ f x = true) -> exists y, find f l = Some y.
Proof.
  induction l as [|a l IH]; intros [x [Hin Hf]]; [destruct Hin|]. cbn.
  destruct (f a) eqn:E; [eauto|]. destruct Hin as [->|Hin]; [congruence|]. apply IH. eauto.
Qed.

Lemma find_none_all {A} (f : A -> bool) l : (forall x, In x l -> f x = false) -> find f l = None.
Proof.
  induction l as [|a l IH]; intros H; [reflexivity|]. cbn. rewrite (H a (or_introl eq_refl)).
  apply IH. intros x Hx. apply H. right. exact Hx.
Qed.

Lemma beqb_eq a b : beqb a b = true <-> a = b.
Proof. apply eqb_bytes_eq. Qed.

Lemma s2kspec_eq_dec (a b : s2kspec) : {a = b} + {a <> b}.
Proof. decide equality; try apply Z.eq_dec; apply (list_eq_dec Z.eq_dec). Qed.

Section Msg.
  Variable sha1 : bytes -> bytes.
  Variable cfb_enc cfb_dec : Z -> bytes -> bytes -> option bytes.
  Variable rsa_bits : bytes -> Z.
  Variable rsa_enc : bytes -> bytes -> bytes -> option bytes.
  Variable rsa_dec : bytes -> bytes -> option bytes.
  Variable ecdh_gen : bytes -> bytes -> option (bytes * bytes).
  Variable ecdh_shared : bytes -> bytes -> option bytes.
  Variable hash : Z -> bytes -> option bytes.
  Variable aes_wrap aes_unwrap : bytes -> bytes -> option bytes.
  Variable s2k : Z -> Z -> bytes -> Z -> nat -> bytes -> option bytes.

  Local Notation SDEC := (seipd_decrypt sha1 cfb_dec).
  Local Notation SENC := (seipd_encrypt sha1 cfb_enc).
  Local Notation PKDEC := (pkesk_decrypt_sk rsa_bits rsa_dec ecdh_shared hash aes_unwrap).
  Local Notation PKENC := (pkesk_encrypt rsa_enc ecdh_gen hash aes_wrap).
  Local Notation SKDEC := (skesk_decrypt_sk cfb_dec s2k).
  Local Notation SKENCG := (skesk_encrypt_gen cfb_enc s2k).
  Local Notation SKENC := (skesk_encrypt cfb_enc s2k).
  Local Notation TRY := (skesk_try sha1 cfb_dec s2k).
  Local Notation ESKOF := (esk_of cfb_enc rsa_enc ecdh_gen hash aes_wrap s2k).
  Local Notation ADD := (add_recipient cfb_enc rsa_enc ecdh_gen hash aes_wrap s2k).
  Local Notation LEAF := (key_decrypt_leaf sha1 cfb_dec rsa_bits rsa_dec ecdh_shared hash aes_unwrap).
  Local Notation KDEC := (key_decrypt sha1 cfb_dec rsa_bits rsa_dec ecdh_shared hash aes_unwrap).
  Local Notation PDEC := (decrypt_pass sha1 cfb_dec s2k).
  Local Notation PLOOP := (pass_loop sha1 cfb_dec s2k).
  Local Notation ENCTO := (encrypt_to sha1 cfb_enc rsa_enc ecdh_gen hash aes_wrap s2k).

  (* ---------- C04, structure of the two decrypt entry points (no hypotheses on the primitives) ---------- *)
  Lemma pass_loop_ok_inv es p ct pt :
    PLOOP es p ct = Ok pt -> exists e, In e es /\ is_sk e = true /\ TRY e p ct = Ok pt.
  Proof.
    induction es as [|e es IH]; cbn [pass_loop]; [discriminate|].
    destruct (is_sk e) eqn:S.
    - destruct (TRY e p ct) as [pt'|x] eqn:T.
      + intros [= <-]. exists e. auto using in_eq.
      + destruct (caught x); [|discriminate]. intros H. destruct (IH H) as [e' [I [S' T']]].
        exists e'. auto using in_cons.
    - intros H. destruct (IH H) as [e' [I [S' T']]]. exists e'. auto using in_cons.
  Qed.

  Lemma pass_loop_raise_kinds es p ct x : PLOOP es p ct = Raise x -> x = EDecrypt \/ caught x = false.
  Proof.
    induction es as [|e es IH]; cbn [pass_loop]; [intros [= <-]; auto|].
    destruct (is_sk e); [|exact IH].
    destruct (TRY e p ct) as [pt'|y] eqn:T; [discriminate|].
    destruct (caught y) eqn:C; [exact IH|]. intros [= <-]. auto.
  Qed.

  Theorem decrypt_pass_ok_inv es ct p pt :
    PDEC (es, Some ct) p = Ok pt ->
    exists symalg sp c alg key, In (SK symalg sp c) es /\ SKDEC symalg sp c p = Ok (alg, key) /\ SDEC alg key ct = Ok pt.
  Proof.
    unfold decrypt_pass. cbn [fst snd]. intros H.
    destruct (pass_loop_ok_inv _ _ _ _ H) as [e [I [S T]]].
    destruct e as [id a c|symalg sp c]; [discriminate|]. cbn [skesk_try] in T.
    destruct (SKDEC symalg sp c p) as [[alg key]|x] eqn:D; cbn [bind fst snd] in T; [|discriminate].
    exists symalg, sp, c, alg, key. auto.
  Qed.

  Theorem decrypt_pass_failure_kinds m p x : PDEC m p = Raise x -> x = EDecrypt \/ x = EPGP \/ caught x = false.
  Proof.
    unfold decrypt_pass. destruct (snd m); [|intros [= <-]; auto].
    intros H. apply pass_loop_raise_kinds in H. destruct H as [H|H]; auto.
  Qed.

  Theorem key_decrypt_ok_inv holder es ct pt :
    KDEC holder (es, Some ct) = Ok pt ->
    exists k c alg key, (k = fk_key holder \/ In k (fk_subs holder)) /\ In (PK (k_id k) (k_alg k) c) es /\
      PKDEC k (k_alg k) c = Ok (alg, key) /\ SDEC alg key ct = Ok pt.
  Proof.
    assert (L : forall k, LEAF k es ct = Ok pt ->
      exists c alg key, In (PK (k_id k) (k_alg k) c) es /\ PKDEC k (k_alg k) c = Ok (alg, key) /\ SDEC alg key ct = Ok pt).
    { intros k H. unfold key_decrypt_leaf in H. destruct (find (pk_for k) es) as [[id a c|? ? ?]|] eqn:F; try discriminate.
      apply find_some in F as [I P]. cbn [pk_for] in P. apply andb_prop in P as [P1 P2].
      apply Z.eqb_eq in P1. apply beqb_eq in P2. subst.
      destruct (PKDEC k (k_alg k) c) as [[alg key]|x] eqn:D; cbn [bind fst snd] in H; [|discriminate].
      exists c, alg, key. auto. }
    unfold key_decrypt. cbn [fst snd].
    destruct (id_in (k_id (fk_key holder)) (encrypters es)).
    - intros H. destruct (L _ H) as [c [alg [key [I [D S]]]]]. exists (fk_key holder), c, alg, key. auto.
    - destruct (find _ (fk_subs holder)) as [s|] eqn:F; [|discriminate].
      intros H. destruct (L _ H) as [c [alg [key [I [D S]]]]]. apply find_some in F as [Is _].
      exists s, c, alg, key. auto.
  Qed.

  (* a PKESK yields a session key only through the checksum gate, applied to what RSA / the ECDH unwrap+unpad produced *)
  Theorem pkesk_decrypt_sk_ok_inv k a c alg key :
    PKDEC k a c = Ok (alg, key) ->
    exists m, pkesk_open m = Ok (alg, key) /\
      ((a = 1 /\ exists v, c = CRsa v /\ rsa_decrypt_m rsa_bits rsa_dec (k_fp k) v = Ok m) \/
       (a = 18 /\ exists xy w, c = CEcdh xy w /\ ecdh_decrypt_m ecdh_shared hash aes_unwrap k xy w = Ok m)).
  Proof.
    unfold pkesk_decrypt_sk. destruct (a =? 1) eqn:A1.
    - apply Z.eqb_eq in A1. destruct c as [v| | |]; try discriminate.
      destruct (rsa_decrypt_m rsa_bits rsa_dec (k_fp k) v) as [m|] eqn:R; cbn [bind ct_guard]; [|discriminate].
      intros O. exists m. split; [exact O|]. left. eauto.
    - destruct (a =? 18) eqn:A2; [|discriminate]. apply Z.eqb_eq in A2. destruct c as [|xy w| |]; try discriminate.
      destruct (ecdh_decrypt_m ecdh_shared hash aes_unwrap k xy w) as [m|] eqn:R; cbn [bind ct_guard]; [|discriminate].
      intros O. exists m. split; [exact O|]. right. eauto.
  Qed.

  (* what leaves decrypt_sk when it does not return a session key (repair 774c7db): PGPDecryptionError for every failure of
     the primitives, of the unpadding and of the tail; besides that only NotImplementedError (an algorithm that is neither
     RSA nor ECDH, a KDF cipher without a key size), TypeError (ciphertext fields of the other algorithm) and the
     IndexError of an EMPTY unwrapped string *)
  Lemma ecdh_decrypt_m_raise_kinds k xy w e :
    ecdh_decrypt_m ecdh_shared hash aes_unwrap k xy w = Raise e ->
    e = EPrim \/ e = EDecrypt \/ (e = ENotImpl /\ key_octets (k_kdf_enc k) = None) \/
    (e = EIndex /\ exists z, aes_unwrap z w = Some []).
  Proof.
    unfold ecdh_decrypt_m. destruct (ecdh_shared (k_fp k) xy) as [sh|]; cbn [of_opt bind]; [|intros [= <-]; auto].
    unfold ecdh_kek. destruct (key_octets (k_kdf_enc k)) as [n|] eqn:KO; cbn [bind]; [|intros [= <-]; auto].
    destruct (ecdh_kdf hash (k_kdf_hash k) sh n _) as [z|]; cbn [of_opt bind]; [|intros [= <-]; auto].
    destruct (aes_unwrap z w) as [mp|] eqn:U; cbn [of_opt bind]; [|intros [= <-]; auto].
    unfold ecdh_unpad. destruct mp as [|x mp]; [intros [= <-]; right; right; right; eauto|].
    destruct (pkcs5_unpad (x :: mp)); cbn [of_opt]; [discriminate|intros [= <-]; auto].
  Qed.

  Theorem pkesk_decrypt_sk_raise_kinds k a c e :
    PKDEC k a c = Raise e ->
    e = EDecrypt \/
    (e = ENotImpl /\ ((a <> 1 /\ a <> 18) \/ (a = 18 /\ key_octets (k_kdf_enc k) = None))) \/
    (e = EType /\ ((a = 1 /\ forall v, c <> CRsa v) \/ (a = 18 /\ forall xy w, c <> CEcdh xy w))) \/
    (e = EIndex /\ exists xy w z, c = CEcdh xy w /\ aes_unwrap z w = Some []).
  Proof.
    unfold pkesk_decrypt_sk. destruct (a =? 1) eqn:A1.
    - apply Z.eqb_eq in A1.
      destruct c as [v| | |]; try (intros [= <-]; right; right; left; split; [reflexivity|left; split; [exact A1|discriminate]]).
      unfold rsa_decrypt_m. destruct (rsa_dec _ _) as [m|]; cbn [of_opt ct_guard ct_failure bind]; [|intros [= <-]; auto].
      intros H. apply pkesk_open_reject_kinds in H. auto.
    - destruct (a =? 18) eqn:A2; [|intros [= <-]; right; left; split; [reflexivity|left; lia]].
      apply Z.eqb_eq in A2.
      destruct c as [|xy w| |]; try (intros [= <-]; right; right; left; split; [reflexivity|right; split; [exact A2|discriminate]]).
      destruct (ecdh_decrypt_m ecdh_shared hash aes_unwrap k xy w) as [m|x] eqn:D; cbn [ct_guard bind].
      + intros H. apply pkesk_open_reject_kinds in H. auto.
      + intros [= <-]. apply ecdh_decrypt_m_raise_kinds in D.
        destruct D as [->|[->|[[-> KO]|[-> [z U]]]]]; cbn [ct_failure]; auto.
        * right. left. split; [reflexivity|]. right. split; assumption.
        * right. right. right. split; [reflexivity|]. eauto.
  Qed.

  (* ... hence, for a PKESK whose fields belong to its algorithm, a key with a usable KDF cipher and a key unwrap that
     never returns the empty string (RFC 3394 output is at least 16 octets), EVERY failure is PGPDecryptionError *)
  Theorem pkesk_decrypt_sk_failure_is_decrypt k a c e :
    (forall z w, aes_unwrap z w <> Some []) ->
    (a = 1 /\ exists v, c = CRsa v) \/ (a = 18 /\ (exists xy w, c = CEcdh xy w) /\ key_octets (k_kdf_enc k) <> None) ->
    PKDEC k a c = Raise e -> e = EDecrypt.
  Proof.
    intros NE W H. apply pkesk_decrypt_sk_raise_kinds in H.
    destruct H as [H|[[-> H]|[[-> H]|[-> [xy [w [z [-> U]]]]]]]]; [exact H| | |].
    - destruct W as [[-> _]|[-> [_ KO]]]; destruct H as [[H1 H2]|[H1 H2]]; congruence.
    - destruct W as [[-> [v ->]]|[-> [[xy [w ->]] _]]]; destruct H as [[H1 H2]|[H1 H2]]; try lia.
      + exfalso. eapply H2. reflexivity.
      + exfalso. eapply H2. reflexivity.
    - exfalso. eapply NE. exact U.
  Qed.

  (* a session key packet of an algorithm without ciphertext class (kept as opaque octets for its recipient) never yields a
     session key, whatever the key: decrypt_sk has no branch for it (NotImplementedError), and under the RSA / ECDH ids the
     fields it would read are not there (TypeError) *)
  Theorem opaque_does_not_open k a x :
    exists e, PKDEC k a (COpaque x) = Raise e /\ (e = EType \/ e = ENotImpl).
  Proof.
    unfold pkesk_decrypt_sk. destruct (a =? 1); [eauto|]. destruct (a =? 18); eauto.
  Qed.
  (* ... so a message all of whose public-key session key packets are of that kind opens for no private key *)
  Theorem key_decrypt_opaque_only holder es ct pt :
    (forall id a c, In (PK id a c) es -> exists x, c = COpaque x) -> KDEC holder (es, Some ct) <> Ok pt.
  Proof.
    intros O H. apply key_decrypt_ok_inv in H as [k [c [alg [key [_ [I [D _]]]]]]].
    destruct (O _ _ _ I) as [x ->]. destruct (opaque_does_not_open k (k_alg k) x) as [e [R _]]. congruence.
  Qed.

  (* a session key packet that names the key id under another algorithm id: PGPError (it was StopIteration) *)
  Lemma key_decrypt_leaf_no_match k es ct : find (pk_for k) es = None -> LEAF k es ct = Raise EPGP.
  Proof. intros F. unfold key_decrypt_leaf. rewrite F. reflexivity. Qed.
  Theorem key_decrypt_leaf_old_refuted k id a c ct :
    a <> k_alg k ->
    key_decrypt_leaf_old sha1 cfb_dec rsa_bits rsa_dec ecdh_shared hash aes_unwrap k [PK id a c] ct = Raise EStopIter /\
    LEAF k [PK id a c] ct = Raise EPGP.
  Proof.
    intros H. unfold key_decrypt_leaf_old, key_decrypt_leaf. cbn [find pk_for].
    destruct (a =? k_alg k) eqn:E; [lia|]. cbn [andb]. auto.
  Qed.

  (* session key packets without an encrypted data packet: a message cut short, refused with PGPError (repair b46a5dd; the
     input object used to be handed back as if it were the plaintext) *)
  Theorem key_decrypt_no_data_raises holder es : es <> [] -> KDEC holder (es, None) = Raise EPGP.
  Proof. intros H. unfold key_decrypt. cbn [fst snd]. destruct es; [contradiction|reflexivity]. Qed.

  (* every way PGPKey.decrypt fails on a message that has an encrypted data packet *)
  Theorem key_decrypt_failure_kinds holder es ct x :
    KDEC holder (es, Some ct) = Raise x ->
    x = EDecrypt \/ x = EPGP \/ x = ENotImpl \/ x = EType \/ x = EIndex \/ x = EPrim.
  Proof.
    assert (L : forall k, LEAF k es ct = Raise x -> x = EDecrypt \/ x = EPGP \/ x = ENotImpl \/ x = EType \/ x = EIndex \/ x = EPrim).
    { intros k H. unfold key_decrypt_leaf in H. destruct (find (pk_for k) es) as [[id a c|? ? ?]|]; try (injection H as <-; auto).
      destruct (PKDEC k a c) as [[alg key]|y] eqn:D; cbn [bind fst snd] in H.
      - apply seipd_reject_kinds in H. destruct H as [->|[-> _]]; auto 10.
      - injection H as <-. apply pkesk_decrypt_sk_raise_kinds in D.
        destruct D as [->|[[-> _]|[[-> _]|[-> _]]]]; auto 10. }
    unfold key_decrypt. cbn [fst snd].
    destruct (id_in (k_id (fk_key holder)) (encrypters es)); [apply L|].
    destruct (find _ (fk_subs holder)) as [s|]; [apply L|]. intros [= <-]. auto.
  Qed.

  Theorem decrypt_wrong_recipient_raises holder es ct :
    id_in (k_id (fk_key holder)) (encrypters es) = false ->
    (forall s, In s (fk_subs holder) -> id_in (k_id s) (encrypters es) = false) ->
    KDEC holder (es, Some ct) = Raise EPGP.
  Proof.
    intros H1 H2. unfold key_decrypt. cbn [fst snd]. rewrite H1.
    rewrite find_none_all; [reflexivity|]. exact H2.
  Qed.

  (* defect F10 (repaired in the code): with a passphrase recipient in front, the old scan died before reaching the PKESK *)
  Theorem mixed_recipients_prefix_refuted k a sp c r ct :
    key_decrypt_leaf_prefix sha1 cfb_dec rsa_bits rsa_dec ecdh_shared hash aes_unwrap k (SK a sp c :: r) ct = Raise EAttr.
  Proof. reflexivity. Qed.

  (* ---------- C03 ---------- *)
  Hypothesis sha1_len : forall x, length (sha1 x) = 20%nat.
  Hypothesis cfb_dec_enc : forall a k x c, cfb_enc a k x = Some c -> cfb_dec a k c = Some x.
  Hypothesis cfb_len : forall a k c x, cfb_dec a k c = Some x -> length x = length c.
  (* the ciphertext has the length of the modulus in octets, (bits + 7) / 8: what the RSA primitive of `cryptography` (the
     harness oracle) returns, for every modulus length -- also one that is no multiple of 8 bits *)
  Hypothesis rsa_ok : forall h seed m c, rsa_enc h seed m = Some c ->
    wf_bytes c /\ Z.of_nat (length c) = (rsa_bits h + 7) / 8 /\ rsa_bits h + 7 < 65536 /\ rsa_dec h c = Some m.
  Hypothesis ecdh_ok : forall h seed v s, ecdh_gen h seed = Some (v, s) -> ecdh_shared h v = Some s.
  Hypothesis wrap_ok : forall z x c, aes_wrap z x = Some c -> aes_unwrap z c = Some x.

  Lemma pkesk_roundtrip k seed alg sk n e :
    sym_valid alg = true -> key_octets alg = Some n -> length sk = n ->
    PKENC k seed alg sk = Ok e ->
    exists c, e = PK (k_id k) (k_alg k) c /\ PKDEC k (k_alg k) c = Ok (alg, sk).
  Proof.
    intros V K L E. unfold pkesk_encrypt in E. rewrite K, L, Nat.eqb_refl in E. cbn [negb] in E.
    assert (OPEN : pkesk_open (pkesk_m alg sk) = Ok (alg, sk)).
    { rewrite <- (app_nil_r (pkesk_m alg sk)). eapply pkesk_m_roundtrip; eassumption. }
    destruct (k_alg k =? 1) eqn:A1.
    - apply Z.eqb_eq in A1. unfold rsa_encrypt_ct in E.
      destruct (rsa_enc (k_fp k) seed (pkesk_m alg sk)) as [c|] eqn:R; cbn [bind] in E; [|discriminate].
      injection E as <-. rewrite A1. eexists. split; [reflexivity|].
      destruct (rsa_ok _ _ _ _ R) as [W [Lc [Bits D]]].
      unfold pkesk_decrypt_sk. cbn [Z.eqb Pos.eqb]. unfold rsa_decrypt_m, rsa_ct_padded, bytes_to_int. cbv zeta.
      rewrite <- Lc. rewrite rsa_ct_restore; [|exact W|reflexivity|].
      + rewrite D. cbn [of_opt ct_guard bind]. exact OPEN.
      + pose proof (Z.div_mod (rsa_bits (k_fp k) + 7) 8 ltac:(lia)). pose proof (Z.mod_pos_bound (rsa_bits (k_fp k) + 7) 8 ltac:(lia)). lia.
    - destruct (k_alg k =? 18) eqn:A2; [|discriminate].
      apply Z.eqb_eq in A2. unfold ecdh_encrypt_ct in E.
      destruct (ecdh_gen (k_fp k) seed) as [[v s]|] eqn:G; cbn [of_opt bind fst snd] in E; [|discriminate].
      destruct (ecdh_kek hash k s) as [z|] eqn:KK; cbn [bind] in E; [|discriminate].
      destruct (aes_wrap z (pkcs5_pad (pkesk_m alg sk))) as [c|] eqn:Wr; cbn [of_opt bind] in E; [|discriminate].
      injection E as <-. rewrite A2. eexists. split; [reflexivity|].
      unfold pkesk_decrypt_sk. cbn [Z.eqb Pos.eqb]. unfold ecdh_decrypt_m.
      rewrite (ecdh_ok _ _ _ _ G). cbn [of_opt bind]. rewrite KK. cbn [bind].
      rewrite (wrap_ok _ _ _ Wr). cbn [of_opt bind]. unfold ecdh_unpad.
      destruct (pkcs5_pad (pkesk_m alg sk)) as [|x0 pm] eqn:PM.
      { pose proof (pad_unpad (pkesk_m alg sk)) as PU. rewrite PM in PU. discriminate PU. }
      rewrite <- PM, pad_unpad. cbn [of_opt ct_guard bind]. exact OPEN.
  Qed.

  (* a sender that pads m to `total` octets before the key wrap (RFC 6637 section 8: 40) is read back as well *)
  Lemma pkesk_padded_roundtrip total k seed alg sk n e :
    sym_valid alg = true -> key_octets alg = Some n -> length sk = n -> Z.of_nat n + 3 < total ->
    pkesk_encrypt_to ecdh_gen hash aes_wrap total k seed alg sk = Ok e ->
    exists c, e = PK (k_id k) 18 c /\ PKDEC k 18 c = Ok (alg, sk).
  Proof.
    intros V K L T E. unfold pkesk_encrypt_to in E. rewrite K, L, Nat.eqb_refl in E. cbn [negb] in E.
    assert (OPEN : pkesk_open (pkesk_m alg sk) = Ok (alg, sk)).
    { rewrite <- (app_nil_r (pkesk_m alg sk)). eapply pkesk_m_roundtrip; eassumption. }
    destruct (k_alg k =? 18) eqn:A2; [|discriminate]. unfold ecdh_encrypt_ct_to in E.
    destruct (ecdh_gen (k_fp k) seed) as [[v s]|] eqn:G; cbn [of_opt bind fst snd] in E; [|discriminate].
    destruct (ecdh_kek hash k s) as [z|] eqn:KK; cbn [bind] in E; [|discriminate].
    destruct (aes_wrap z (pkcs5_pad_to total (pkesk_m alg sk))) as [c|] eqn:Wr; cbn [of_opt bind] in E; [|discriminate].
    injection E as <-. eexists. split; [reflexivity|].
    unfold pkesk_decrypt_sk. cbn [Z.eqb Pos.eqb]. unfold ecdh_decrypt_m.
    rewrite (ecdh_ok _ _ _ _ G). cbn [of_opt bind]. rewrite KK. cbn [bind].
    rewrite (wrap_ok _ _ _ Wr). cbn [of_opt bind]. unfold ecdh_unpad.
    assert (PU : pkcs5_unpad (pkcs5_pad_to total (pkesk_m alg sk)) = Some (pkesk_m alg sk)).
    { apply unpad_pad_to. rewrite length_pkesk_m by (apply sym_valid_octet; exact V). lia. }
    destruct (pkcs5_pad_to total (pkesk_m alg sk)) as [|x0 pm] eqn:PM; [discriminate PU|].
    rewrite PU. cbn [of_opt ct_guard bind]. exact OPEN.
  Qed.

  (* encrypt_sk refuses a session key whose length is not the key size of the cipher *)
  Lemma pkesk_encrypt_wrong_length k seed alg sk n :
    key_octets alg = Some n -> length sk <> n -> PKENC k seed alg sk = Raise EEncrypt.
  Proof.
    intros K L. unfold pkesk_encrypt. rewrite K. destruct (length sk =? n)%nat eqn:E; [apply Nat.eqb_eq in E; contradiction|reflexivity].
  Qed.
  Lemma pkesk_encrypt_ok_length k seed alg sk e :
    PKENC k seed alg sk = Ok e -> exists n, key_octets alg = Some n /\ length sk = n.
  Proof.
    unfold pkesk_encrypt. destruct (key_octets alg) as [n|]; [|discriminate].
    destruct (length sk =? n)%nat eqn:E; cbn [negb]; [|discriminate]. intros _. exists n. apply Nat.eqb_eq in E. auto.
  Qed.

  Lemma skesk_gen_roundtrip outer inner sp pass sk e :
    sym_valid inner = true -> SKENCG outer inner sp pass sk = Ok e ->
    exists c, e = SK outer sp c /\ SKDEC outer sp c pass = Ok (inner, sk).
  Proof.
    intros V E. unfold skesk_encrypt_gen in E.
    destruct (key_octets inner) as [n0|]; [|discriminate]. destruct (negb (length sk =? n0)%nat); [discriminate|].
    destruct (s2k_derive s2k outer sp pass) as [k|] eqn:D; cbn [bind] in E; [|discriminate].
    destruct (cfb_enc outer k (int_to_bytes inner 1 ++ sk)) as [c|] eqn:C; cbn [of_opt bind] in E; [|discriminate].
    injection E as <-. exists c. split; [reflexivity|].
    unfold skesk_decrypt_sk. rewrite D. cbn [bind].
    apply cfb_dec_enc in C. rewrite int_to_bytes_octet in C by (apply sym_valid_octet; exact V). cbn [app] in C.
    pose proof (cfb_len _ _ _ _ C) as Lc. cbn [length] in Lc.
    destruct c as [|c0 c']; [discriminate Lc|].
    rewrite C. cbn [of_opt bind]. rewrite V. reflexivity.
  Qed.

  (* SKESessionKeyV4.encrypt_sk refuses a session key whose length is not the key size of the cipher (repair 29ef9ad) *)
  Lemma skesk_encrypt_wrong_length symalg sp pass sk n :
    key_octets symalg = Some n -> length sk <> n -> SKENC symalg sp pass sk = Raise EEncrypt.
  Proof.
    intros K L. unfold skesk_encrypt, skesk_encrypt_gen. rewrite K.
    destruct (length sk =? n)%nat eqn:E; [apply Nat.eqb_eq in E; contradiction|reflexivity].
  Qed.
  Lemma skesk_encrypt_ok_length symalg sp pass sk e :
    SKENC symalg sp pass sk = Ok e -> exists n, key_octets symalg = Some n /\ length sk = n.
  Proof.
    unfold skesk_encrypt, skesk_encrypt_gen. destruct (key_octets symalg) as [n|]; [|discriminate].
    destruct (length sk =? n)%nat eqn:E; cbn [negb]; [|discriminate]. intros _. exists n. apply Nat.eqb_eq in E. auto.
  Qed.

  (* direct mode: without an encrypted session key the S2K output is the session key *)
  Lemma skesk_direct symalg sp pass :
    SKDEC symalg sp [] pass = bind (s2k_derive s2k symalg sp pass) (fun k => Ok (symalg, k)).
  Proof. reflexivity. Qed.

  (* ---------- the list of session-key packets built for a recipient list ---------- *)
  Lemma fold_raise alg sk rs x : fold_left (ADD alg sk) rs (Raise x) = Raise x.
  Proof. induction rs as [|r rs IH]; [reflexivity|]. cbn. exact IH. Qed.

  Lemma fold_esks alg sk rs : forall acc es, fold_left (ADD alg sk) rs (Ok acc) = Ok es ->
    (forall r, In r rs -> exists x, ESKOF alg sk r = Ok x) /\
    (forall x, In x es <-> In x acc \/ exists r, In r rs /\ ESKOF alg sk r = Ok x).
  Proof.
    induction rs as [|r rs IH]; intros acc es H.
    - cbn in H. injection H as <-. split; [intros r []|]. intros x. split; [auto|]. intros [I|[r [[] _]]]. exact I.
    - cbn [fold_left] in H. unfold add_recipient at 2 in H. cbn [bind] in H.
      destruct (ESKOF alg sk r) as [e0|x0] eqn:E0; cbn [bind] in H.
      2:{ rewrite fold_raise in H. discriminate. }
      assert (exists acc', (forall x, In x acc' <-> In x acc \/ x = e0) /\ fold_left (ADD alg sk) rs (Ok acc') = Ok es) as [acc' [A H']].
      { destruct r; eexists; (split; [|exact H]); intros x; cbn [In]; rewrite ?in_app_iff; cbn [In]; intuition (subst; auto). }
      destruct (IH _ _ H') as [I1 I2]. split.
      + intros r' [<-|Hr]; [eauto|apply I1; exact Hr].
      + intros x. rewrite I2, A. split.
        * intros [[I| -> ]|[r' [Hr Er]]]; [auto| |]; right; [exists r|exists r']; auto using in_eq, in_cons.
        * intros [I|[r' [[<-|Hr] Er]]]; [auto| |].
          -- rewrite E0 in Er. injection Er as <-. auto.
          -- right. eauto.
  Qed.

  (* the order of the API calls does not matter for what is built *)
  Lemma encrypt_to_parts alg sk iv rs m es ct : ENCTO alg sk iv rs m = Ok (es, Some ct) ->
    SENC alg sk iv m = Ok ct /\ fold_left (ADD alg sk) rs (Ok []) = Ok es.
  Proof.
    unfold encrypt_to. destruct rs as [|r1 rest].
    - destruct (SENC alg sk iv m) as [ct'|]; cbn [bind]; [|discriminate]. intros E. injection E as <- <-. split; reflexivity.
    - cbn [fold_left].
      assert (A : ADD alg sk (Ok []) r1 = bind (ESKOF alg sk r1) (fun e => Ok [e])).
      { unfold add_recipient. cbn [bind]. destruct (ESKOF alg sk r1); cbn [bind]; [destruct r1; reflexivity|reflexivity]. }
      rewrite A. destruct (ESKOF alg sk r1) as [e1|]; cbn [bind]; [|discriminate].
      destruct (SENC alg sk iv m) as [ct'|]; cbn [bind]; [|discriminate].
      destruct (fold_left (ADD alg sk) rest (Ok [e1])) as [es'|]; cbn [bind]; [|discriminate].
      intros E. injection E as <- <-. split; reflexivity.
  Qed.

  Section RoundTrip.
    Variables (alg : Z) (sk iv m : bytes) (rs : list recipient) (n : nat) (es : list esk) (ct : bytes).
    Hypothesis Hvalid : sym_valid alg = true.
    Hypothesis Hkeylen : key_octets alg = Some n.
    Hypothesis Hsk : length sk = n.
    Hypothesis Hiv : length iv = block_octets alg.
    Hypothesis Henc : ENCTO alg sk iv rs m = Ok (es, Some ct).

    Let target := m.

    Lemma enc_parts : SENC alg sk iv m = Ok ct /\ fold_left (ADD alg sk) rs (Ok []) = Ok es.
    Proof. apply encrypt_to_parts. exact Henc. Qed.

    Lemma data_ok : SDEC alg sk ct = Ok target.
    Proof.
      destruct enc_parts as [S _]. destruct (key_octets_block _ _ Hkeylen) as [B _].
      eapply seipd_roundtrip; eauto.
    Qed.

    Lemma es_char : (forall r, In r rs -> exists x, ESKOF alg sk r = Ok x) /\
                    (forall x, In x es <-> exists r, In r rs /\ ESKOF alg sk r = Ok x).
    Proof.
      destruct enc_parts as [_ F]. destruct (fold_esks _ _ _ _ _ F) as [A B]. split; [exact A|].
      intros x. rewrite B. cbn [In]. tauto.
    Qed.

    Lemma esk_shape r x : ESKOF alg sk r = Ok x ->
      match r with
      | RPass p sp => exists c, x = SK alg sp c /\ SKDEC alg sp c p = Ok (alg, sk)
      | RKey k seed => exists c, x = PK (k_id k) (k_alg k) c /\ PKDEC k (k_alg k) c = Ok (alg, sk)
      end.
    Proof.
      destruct r as [p sp|k seed]; cbn [esk_of]; intros E.
      - eapply skesk_gen_roundtrip; eassumption.
      - eapply pkesk_roundtrip; eassumption.
    Qed.

    Lemma encrypters_char id : id_in id (encrypters es) = true <-> exists k seed, In (RKey k seed) rs /\ k_id k = id.
    Proof.
      destruct es_char as [A B]. unfold id_in. rewrite existsb_exists. split.
      - intros [id' [I E]]. apply beqb_eq in E. subst id'. unfold encrypters in I. apply in_flat_map in I as [e [Ie Iid]].
        apply B in Ie as [r [Ir Er]]. apply esk_shape in Er. destruct r as [p sp|k seed].
        + destruct Er as [c [-> _]]. destruct Iid.
        + destruct Er as [c [-> _]]. destruct Iid as [<-|[]]. eauto.
      - intros [k [seed [Ir <-]]]. destruct (A _ Ir) as [x Ex]. pose proof (esk_shape _ _ Ex) as [c [-> _]].
        exists (k_id k). split; [|apply beqb_eq; reflexivity].
        unfold encrypters. apply in_flat_map. eexists. split; [apply B; eauto|]. cbn. auto.
    Qed.

    Section Key.
      Variable holder : fullkey.
      Definition cand (x : pkey) : Prop := (exists s, In (RKey x s) rs) \/ x = fk_key holder \/ In x (fk_subs holder).
      Hypothesis Huniq : forall k1 k2, cand k1 -> cand k2 -> k_id k1 = k_id k2 -> k1 = k2.

      Lemma leaf_ok k : (exists seed, In (RKey k seed) rs) -> LEAF k es ct = Ok target.
      Proof.
        intros [seed Ir]. destruct es_char as [A B].
        destruct (A _ Ir) as [x0 E0]. pose proof (esk_shape _ _ E0) as [c0 [-> D0]].
        assert (F : exists y, find (pk_for k) es = Some y).
        { apply find_exists. eexists. split; [apply B; eauto|]. cbn [pk_for]. rewrite Z.eqb_refl. cbn [andb]. apply beqb_eq. reflexivity. }
        destruct F as [y F]. unfold key_decrypt_leaf. rewrite F.
        apply find_some in F as [Iy Py]. apply B in Iy as [r [Irr Er]]. apply esk_shape in Er.
        destruct r as [p sp|k' seed'].
        - destruct Er as [c [-> _]]. discriminate Py.
        - destruct Er as [c [-> D]]. cbn [pk_for] in Py. apply andb_prop in Py as [_ P2]. apply beqb_eq in P2.
          assert (k' = k) as -> by (apply Huniq; [left; eauto|left; eauto|exact P2]).
          rewrite D. cbn [bind fst snd]. exact data_ok.
      Qed.

      Theorem message_roundtrip_key k seed :
        In (RKey k seed) rs -> (k = fk_key holder \/ In k (fk_subs holder)) ->
        KDEC holder (es, Some ct) = Ok target.
      Proof.
        intros Ir Hk. unfold key_decrypt. cbn [fst snd].
        destruct (id_in (k_id (fk_key holder)) (encrypters es)) eqn:P.
        - apply encrypters_char in P as [k' [seed' [Ir' Eid]]].
          assert (k' = fk_key holder) as <- by (apply Huniq; [left; eauto|right; left; reflexivity|exact Eid]).
          apply leaf_ok. eauto.
        - assert (Hin : id_in (k_id k) (encrypters es) = true) by (apply encrypters_char; eauto).
          destruct Hk as [->|Hsub]; [congruence|].
          destruct (find_exists (fun s => id_in (k_id s) (encrypters es)) (fk_subs holder)) as [s F]; [eauto|].
          rewrite F. apply find_some in F as [Is Ps]. apply encrypters_char in Ps as [k' [seed' [Ir' Eid]]].
          assert (k' = s) as <- by (apply Huniq; [left; eauto|right; right; exact Is|exact Eid]).
          apply leaf_ok. eauto.
      Qed.
    End Key.

    Section Pass.
      Variables (p : bytes) (sp : s2kspec).
      (* the session-key packet of another passphrase recipient, tried with p, is refused by an exception the loop catches *)
      Hypothesis Hwrong : forall p' sp' e', In (RPass p' sp') rs -> SKENC alg sp' p' sk = Ok e' -> (p', sp') <> (p, sp) ->
        exists x, TRY e' p ct = Raise x /\ caught x = true.

      Lemma pass_loop_ok l :
        (forall e', In e' l -> is_sk e' = true -> TRY e' p ct = Ok target \/ exists x, TRY e' p ct = Raise x /\ caught x = true) ->
        (exists e0, In e0 l /\ is_sk e0 = true /\ TRY e0 p ct = Ok target) -> PLOOP l p ct = Ok target.
      Proof.
        induction l as [|e l IH]; intros G [e0 [I0 [S0 T0]]]; [destruct I0|]. cbn [pass_loop].
        destruct (is_sk e) eqn:S.
        - destruct (G e (in_eq _ _) S) as [T|[x [T C]]].
          + rewrite T. reflexivity.
          + rewrite T, C. apply IH; [intros; apply G; auto using in_cons|].
            destruct I0 as [->|I0]; [congruence|eauto].
        - apply IH; [intros; apply G; auto using in_cons|].
          destruct I0 as [->|I0]; [congruence|eauto].
      Qed.

      Theorem message_roundtrip_pass : In (RPass p sp) rs -> PDEC (es, Some ct) p = Ok target.
      Proof.
        intros Ir. unfold decrypt_pass. cbn [fst snd]. destruct es_char as [A B].
        assert (OWN : forall x, ESKOF alg sk (RPass p sp) = Ok x -> TRY x p ct = Ok target).
        { intros x Ex. pose proof (esk_shape _ _ Ex) as [c [-> D]]. cbn [skesk_try]. rewrite D. cbn [bind fst snd]. exact data_ok. }
        apply pass_loop_ok.
        - intros e' Ie Se. apply B in Ie as [r [Irr Er]]. destruct r as [p' sp'|k seed].
          + destruct (list_eq_dec Z.eq_dec p' p) as [->|Np]; [destruct (s2kspec_eq_dec sp' sp) as [->|Ns]|].
            * left. apply OWN. exact Er.
            * right. eapply Hwrong; [exact Irr|exact Er|congruence].
            * right. eapply Hwrong; [exact Irr|exact Er|congruence].
          + pose proof (esk_shape _ _ Er) as [c [-> _]]. discriminate Se.
        - destruct (A _ Ir) as [x Ex]. exists x. split; [apply B; eauto|]. split; [|apply OWN; exact Ex].
          pose proof (esk_shape _ _ Ex) as [c [-> _]]. reflexivity.
      Qed.
    End Pass.
  End RoundTrip.
End Msg.
