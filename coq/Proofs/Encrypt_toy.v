(* A toy instantiation of the primitives: shows that the premises under which C03's theorems are stated are jointly
   satisfiable, and gives a concrete state in which premises and conclusions can be evaluated (no cryptographic
   meaning whatsoever). *)
From Coq Require Import ZArith List Bool Lia ZifyBool.
Import ListNotations.
Require Import PV.Lib.Bytes PV.Lib.BytesLemmas PV.Model.Wire PV.Model.Encrypt PV.Proofs.Encrypt_lemmas.
Open Scope Z_scope.

Definition t_sha1 (x : bytes) : bytes := repeat (sumz x mod 256) 20.
Definition t_cfb_enc (a : Z) (k x : bytes) : option bytes := Some (map (fun b => b + sumz k) x).
Definition t_cfb_dec (a : Z) (k c : bytes) : option bytes := Some (map (fun b => b - sumz k) c).
(* (a modulus length that is no multiple of 8 bits: 34 octets) *)
Definition t_rsa_bits (h : bytes) : Z := 271.
Definition t_rsa_enc (h seed m : bytes) : option bytes :=
  if (length m <=? 32)%nat && wfb m then Some ([1; Z.of_nat (length m)] ++ m ++ repeat 0 (32 - length m)) else None.
Definition t_rsa_dec (h c : bytes) : option bytes :=
  match c with _ :: l :: r => Some (firstn (Z.to_nat l) r) | _ => None end.
Definition t_ecdh_gen (h seed : bytes) : option (bytes * bytes) :=
  if wfb seed && (length seed <=? 100)%nat then Some (64 :: seed, h ++ seed) else None.
Definition t_ecdh_shared (h v : bytes) : option bytes := Some (h ++ skipn 1 v).
Definition t_hash (a : Z) (x : bytes) : option bytes := Some (repeat (sumz x mod 256) 32).
Definition t_wrap (z x : bytes) : option bytes := if (length (z ++ x) <? 256)%nat then Some (z ++ x) else None.
Definition t_unwrap (z c : bytes) : option bytes := Some (skipn (length z) c).
Definition t_s2k (kind h : Z) (salt : bytes) (count : Z) (n : nat) (pass : bytes) : option bytes :=
  Some (repeat ((sumz pass + sumz salt) mod 256) n).

Lemma t_sha1_len x : length (t_sha1 x) = 20%nat.
Proof. apply repeat_length. Qed.

Lemma t_cfb_inverse a k x c : t_cfb_enc a k x = Some c -> t_cfb_dec a k c = Some x.
Proof.
  unfold t_cfb_enc, t_cfb_dec. intros [= <-]. rewrite map_map. f_equal.
  rewrite <- (map_id x) at 2. apply map_ext. intros b. lia.
Qed.

Lemma t_cfb_len a k c x : t_cfb_dec a k c = Some x -> length x = length c.
Proof. unfold t_cfb_dec. intros [= <-]. apply map_length. Qed.

Lemma wf_repeat0 n : wf_bytes (repeat 0 n).
Proof. induction n; cbn; constructor; [lia|assumption]. Qed.

Lemma t_rsa_ok h seed m c : t_rsa_enc h seed m = Some c ->
  wf_bytes c /\ Z.of_nat (length c) = (t_rsa_bits h + 7) / 8 /\ t_rsa_bits h + 7 < 65536 /\ t_rsa_dec h c = Some m.
Proof.
  unfold t_rsa_enc. remember (32 - length m)%nat as pad eqn:Hp.
  destruct ((length m <=? 32)%nat) eqn:L; [|discriminate].
  destruct (wfb m) eqn:W; [|discriminate]. cbn [andb]. intros [= <-].
  apply wfb_iff in W. apply Nat.leb_le in L. split; [|split; [|split]].
  - constructor; [lia|]. constructor; [lia|]. apply wf_bytes_app. split; [exact W|apply wf_repeat0].
  - unfold t_rsa_bits. change ((271 + 7) / 8) with 34.
    cbn [length]. rewrite app_length, repeat_length. lia.
  - reflexivity.
  - cbn [t_rsa_dec app]. rewrite Nat2Z.id. rewrite firstn_app_exact by reflexivity. reflexivity.
Qed.

Lemma t_ecdh_ok h seed v s : t_ecdh_gen h seed = Some (v, s) -> t_ecdh_shared h v = Some s.
Proof. unfold t_ecdh_gen, t_ecdh_shared. destruct (_ && _); [|discriminate]. intros [= <- <-]. reflexivity. Qed.

Lemma t_ecdh_point h seed v s : t_ecdh_gen h seed = Some (v, s) ->
  wf_bytes v /\ Z.of_nat (length v) <= 8000 /\ exists r, (v = 4 :: r /\ Nat.even (length r) = true) \/ v = 64 :: r.
Proof.
  unfold t_ecdh_gen. destruct (wfb seed) eqn:W; [|discriminate]. destruct ((length seed <=? 100)%nat) eqn:L; [|discriminate].
  cbn [andb]. intros [= <- <-]. apply wfb_iff in W. apply Nat.leb_le in L.
  split; [constructor; [lia|exact W]|]. split; [cbn [length]; lia|]. exists seed. right. reflexivity.
Qed.

Lemma t_wrap_ok z x c : t_wrap z x = Some c -> t_unwrap z c = Some x.
Proof. unfold t_wrap, t_unwrap. destruct (_ <? _)%nat; [|discriminate]. intros [= <-]. rewrite skipn_app_exact by reflexivity. reflexivity. Qed.

Lemma t_wrap_short z x c : t_wrap z x = Some c -> (length c < 256)%nat.
Proof. unfold t_wrap. destruct (length (z ++ x) <? 256)%nat eqn:L; [|discriminate]. intros [= <-]. apply Nat.ltb_lt. exact L. Qed.

(* ---------- one concrete run ---------- *)
Definition t_key1 : pkey := {| k_id := [1;1;1;1;1;1;1;1]; k_alg := 1; k_fp := [7]; k_oid := []; k_kdf_hash := 0; k_kdf_enc := 0 |}.
Definition t_key2 : pkey := {| k_id := [2;2;2;2;2;2;2;2]; k_alg := 18; k_fp := [9]; k_oid := [43; 6]; k_kdf_hash := 8; k_kdf_enc := 7 |}.
Definition t_key3 : pkey := {| k_id := [3;3;3;3;3;3;3;3]; k_alg := 1; k_fp := [11]; k_oid := []; k_kdf_hash := 0; k_kdf_enc := 0 |}.
Definition t_holder : fullkey := {| fk_key := t_key3; fk_subs := [t_key2] |}.       (* recipient through a subkey *)
Definition t_stranger : fullkey := {| fk_key := t_key3; fk_subs := [] |}.
Definition t_spec1 : s2kspec := {| s_type := 3; s_hash := 8; s_salt := [1;2;3;4;5;6;7;8]; s_count := 96 |}.
Definition t_spec2 : s2kspec := {| s_type := 1; s_hash := 2; s_salt := [8;7;6;5;4;3;2;1]; s_count := 0 |}.
Definition t_rs : list recipient := [RPass [112; 119] t_spec1; RKey t_key1 []; RPass [113] t_spec2; RKey t_key2 [5; 6]].
Definition t_sk : bytes := [0;1;2;3;4;5;6;7;8;9;10;11;12;13;14;15].
Definition t_iv : bytes := [15;14;13;12;11;10;9;8;7;6;5;4;3;2;1;0].
Definition t_m : bytes := [203; 3; 98; 0; 104].

Definition t_encrypt := encrypt_to t_sha1 t_cfb_enc t_rsa_enc t_ecdh_gen t_hash t_wrap t_s2k 7 t_sk t_iv t_rs t_m.
Definition t_decrypt := decrypt_with t_sha1 t_cfb_dec t_rsa_bits t_rsa_dec t_ecdh_shared t_hash t_unwrap t_s2k.
Definition t_target : bytes := t_m.

Lemma toy_run :
  exists es ct, t_encrypt = Ok (es, Some ct) /\ length es = 4%nat /\
    t_decrypt (SPass [112; 119]) (es, Some ct) = Ok t_target /\
    t_decrypt (SPass [113]) (es, Some ct) = Ok t_target /\
    t_decrypt (SKey {| fk_key := t_key1; fk_subs := [] |}) (es, Some ct) = Ok t_target /\
    t_decrypt (SKey t_holder) (es, Some ct) = Ok t_target /\
    t_decrypt (SPass [114]) (es, Some ct) = Raise EDecrypt /\
    t_decrypt (SKey t_stranger) (es, Some ct) = Raise EPGP /\
    (* the premise of the passphrase theorem in this state: the other recipient's packet is refused by a caught exception *)
    (forall e', In e' es -> is_sk e' = true ->
       skesk_try t_sha1 t_cfb_dec t_s2k e' [113] ct = Ok t_target \/
       exists x, skesk_try t_sha1 t_cfb_dec t_s2k e' [113] ct = Raise x /\ caught x = true).
Proof.
  eexists. eexists. split; [vm_compute; reflexivity|].
  split; [reflexivity|]. split; [vm_compute; reflexivity|]. split; [vm_compute; reflexivity|].
  split; [vm_compute; reflexivity|]. split; [vm_compute; reflexivity|]. split; [vm_compute; reflexivity|].
  split; [vm_compute; reflexivity|].
  intros e' I S. cbn [In] in I. destruct I as [<-|[<-|[<-|[<-|[]]]]]; try discriminate S.
  - left. vm_compute. reflexivity.
  - right. eexists. split; vm_compute; reflexivity.
Qed.
