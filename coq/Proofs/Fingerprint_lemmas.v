(* C18 proofs: the fingerprint the code computes is the RFC 4880 12.2 value, depends on the public
   fields only, the key id is its low 64 bits, and the emitted id fields read back as the key id. *)
From Coq Require Import ZArith List Bool Lia ZifyBool.
Import ListNotations.
Require Import PV.Lib.Bytes PV.Lib.BytesLemmas PV.Model.Wire PV.Proofs.Wire_lemmas PV.Proofs.Wire_lemmas2.
Require Import PV.Model.KeyPackets PV.Model.Fingerprint PV.Spec.Rfc4880_keys.
Require Import PV.Proofs.KeyPackets_lemmas PV.Proofs.KeyPackets_parse.
Open Scope Z_scope.

Lemma be2_first_last v : firstn 1 (be 2 v) ++ lastn 1 (be 2 v) = be 2 v.
Proof. unfold lastn. cbn [be app length firstn skipn Nat.sub]. reflexivity. Qed.

Lemma unbe_lastn l n : wf_bytes l -> (n <= length l)%nat -> unbe (lastn n l) = unbe l mod 256 ^ Z.of_nat n.
Proof.
  intros Hw Hn. unfold lastn. set (m := (length l - n)%nat).
  rewrite <- (firstn_skipn m l) at 2. rewrite unbe_app.
  assert (Hl : length (skipn m l) = n) by (rewrite skipn_length; unfold m; lia).
  rewrite Hl.
  assert (Hws : wf_bytes (skipn m l)).
  { rewrite <- (firstn_skipn m l) in Hw. apply wf_bytes_app in Hw. tauto. }
  pose proof (unbe_bounds _ Hws) as Hb. rewrite Hl in Hb.
  rewrite Z.add_comm, Z.mod_add by lia. rewrite Z.mod_small by lia. reflexivity.
Qed.

Section FP.
Variable sha1 : bytes -> bytes.

(* the octets hashed: the (possibly defective) three-octet prefix, then exactly the public packet body *)
Lemma fp_input_normal k : wf_pub k ->
  fp_input k = ([153] ++ firstn 1 (int_to_bytes (6 + publen k) 2) ++ lastn 1 (int_to_bytes (6 + publen k) 2))
               ++ pub_packet_body k.
Proof.
  intros H. unfold fp_input. cbv zeta. rewrite material_prefix by assumption.
  unfold pub_packet_body. rewrite key_body_split. unfold keymaterial_bytes, pubkey_pkt.
  cbn [k_mat k_sec k_created k_alg]. rewrite app_nil_r. destruct H as [_ [_ Hm]]. rewrite (pub_mat_wf _ Hm).
  rewrite <- !app_assoc. reflexivity.
Qed.

Theorem fp_eq_rfc k : wf_pub k -> 6 + publen k < 65536 ->
  fingerprint sha1 k = rfc_fingerprint sha1 (pub_packet_body k).
Proof.
  intros H Hb. unfold fingerprint, rfc_fingerprint. f_equal. rewrite fp_input_normal by assumption.
  rewrite length_pub_body by assumption.
  assert (0 <= publen k) by (destruct H as [_ [_ Hm]]; apply pubmat_len_nonneg; assumption).
  rewrite int_to_bytes_fits by (change (256 ^ 2) with 65536; lia).
  change (Z.to_nat 2) with 2%nat. rewrite be2_first_last. rewrite <- app_assoc. reflexivity.
Qed.

(* ... and of the RFC packet body written from the fields *)
Theorem fp_eq_rfc_fields k : wf_pub k -> 6 + publen k < 65536 ->
  fingerprint sha1 k = rfc_fingerprint sha1 (rfc_pub_body (k_created k) (k_alg k) (k_mat k)).
Proof. intros H Hb. rewrite fp_eq_rfc by assumption. rewrite pub_body_eq_rfc by assumption. reflexivity. Qed.

(* non-interference: only creation time, algorithm and public material reach the hash *)
Theorem fp_public_only k k' : wf_pub k ->
  k_created k = k_created k' -> k_alg k = k_alg k' -> k_mat k = k_mat k' ->
  fingerprint sha1 k = fingerprint sha1 k'.
Proof.
  intros H Hc Ha Hm.
  assert (H' : wf_pub k') by (unfold wf_pub in *; rewrite <- Hc, <- Ha, <- Hm; exact H).
  unfold fingerprint. f_equal. rewrite !fp_input_normal by assumption.
  unfold publen. rewrite Hm. f_equal.
  unfold pub_packet_body. rewrite !key_body_split. unfold keymaterial_bytes, pubkey_pkt.
  cbn [k_mat k_sec k_created k_alg]. rewrite Hc, Ha, Hm. reflexivity.
Qed.

Lemma reparse_fields k : wf_pub k -> parse_consistent k ->
  reparse k = k.
Proof.
  intros H Hc. unfold reparse. rewrite key_body_parse_emit by assumption. destruct k; reflexivity.
Qed.

Lemma apply_op_public k o : wf_pub k -> parse_consistent k ->
  let k' := apply_op k o in
  k_created k' = k_created k /\ k_alg k' = k_alg k /\ k_mat k' = k_mat k.
Proof.
  intros H Hc. destruct o; cbn [apply_op]; cbv zeta;
    try (unfold map_sec, pubkey_pkt; cbn [k_created k_alg k_mat]; auto).
  - destruct H as [_ [_ Hm]]. rewrite (pub_mat_wf _ Hm). auto.
  - rewrite reparse_fields by assumption. auto.
Qed.

Lemma fold_ops_public ops : forall k, wf_pub k -> parse_consistent k ->
  let k' := fold_left apply_op ops k in
  k_created k' = k_created k /\ k_alg k' = k_alg k /\ k_mat k' = k_mat k.
Proof.
  induction ops as [|o ops IH]; intros k H Hc; cbn [fold_left]; cbv zeta; [auto|].
  destruct (apply_op_public k o H Hc) as [E1 [E2 E3]]. cbv zeta in *.
  assert (H1 : wf_pub (apply_op k o)) by (unfold wf_pub in *; rewrite E1, E2, E3; exact H).
  assert (Hc1 : parse_consistent (apply_op k o)) by (unfold parse_consistent in *; rewrite E2, E3; exact Hc).
  destruct (IH _ H1 Hc1) as [F1 [F2 F3]]. cbv zeta in *.
  rewrite F1, F2, F3. auto.
Qed.

(* the fingerprint is the same at every point of a history of protect / unlock / lock / pubkey / copy /
   export+import steps, in any order and number *)
Theorem fp_invariant ops k : wf_pub k -> parse_consistent k ->
  fingerprint sha1 (fold_left apply_op ops k) = fingerprint sha1 k.
Proof.
  intros H Hc. destruct (fold_ops_public ops k H Hc) as [E1 [E2 E3]]. cbv zeta in *.
  symmetry. apply fp_public_only; auto.
Qed.

(* the same for two keys that merely share their public fields, whatever their secret parts are *)
Theorem fp_same_public k k' : wf_pub k -> same_public_pkt k k' -> fingerprint sha1 k = fingerprint sha1 k'.
Proof. intros H [_ [Hc [Ha Hm]]]. apply fp_public_only; assumption. Qed.

Hypothesis sha1_len : forall x, length (sha1 x) = 20%nat.
Hypothesis sha1_wf : forall x, wf_bytes (sha1 x).

Theorem keyid_low64 k : unbe (keyid sha1 k) = unbe (fingerprint sha1 k) mod 2 ^ 64.
Proof.
  unfold keyid. rewrite unbe_lastn; [reflexivity|apply sha1_wf|]. unfold fingerprint. rewrite sha1_len. lia.
Qed.

Theorem keyid_eq_rfc k : wf_pub k -> 6 + publen k < 65536 ->
  unbe (keyid sha1 k) = rfc_keyid_value sha1 (pub_packet_body k).
Proof. intros. rewrite keyid_low64. unfold rfc_keyid_value. rewrite fp_eq_rfc by assumption. reflexivity. Qed.

Lemma length_keyid k : length (keyid sha1 k) = 8%nat.
Proof. unfold keyid, lastn. rewrite skipn_length. unfold fingerprint. rewrite sha1_len. reflexivity. Qed.

Lemma wf_keyid k : wf_bytes (keyid sha1 k).
Proof.
  unfold keyid, lastn. set (l := fingerprint sha1 k). set (m := (length l - 8)%nat).
  assert (Hw : wf_bytes l) by apply sha1_wf.
  rewrite <- (firstn_skipn m l) in Hw. apply wf_bytes_app in Hw. tauto.
Qed.

(* every id PGPy writes for a key reads back as that key's id / fingerprint, leaving what follows untouched *)
Theorem emitted_ids_are_keyid k r : wf_bytes r -> 0 <= k_alg k < 256 ->
  sub_header_parse (issuer_subpacket sha1 k ++ r) = Some (9, 16, false, keyid sha1 k ++ r) /\
  sub_header_parse (issuer_fpr_subpacket sha1 k ++ r) = Some (22, 33, false, [4] ++ fingerprint sha1 k ++ r) /\
  pkesk_keyid (pkesk_prefix sha1 k ++ r) = Some (keyid sha1 k).
Proof.
  intros Hr Ha. split; [|split].
  - unfold issuer_subpacket. rewrite <- app_assoc. apply sub_header_roundtrip; [lia|lia|].
    apply wf_bytes_app. split; [apply wf_keyid|assumption].
  - unfold issuer_fpr_subpacket. rewrite <- !app_assoc. apply sub_header_roundtrip; [lia|lia|].
    apply wf_bytes_app. split; [constructor; [lia|constructor]|].
    apply wf_bytes_app. split; [apply sha1_wf|assumption].
  - unfold pkesk_prefix, pkesk_keyid. cbn [app].
    rewrite <- app_assoc. rewrite firstn_app_exact by apply length_keyid.
    rewrite app_length, length_keyid. reflexivity.
Qed.

End FP.

(* ---------- material the code has no class for (algorithm ids 0 and 21: OpaquePubKey / OpaquePrivKey) ---------- *)
Definition opaque_pub (sub : bool) (c a : Z) (d : bytes) : keypkt :=
  {| k_sub := sub; k_created := c; k_alg := a; k_mat := POpaque d; k_sec := None |}.
Definition opaque_sec (sub : bool) (c a : Z) (d : bytes) (sp : secpart) : keypkt :=
  {| k_sub := sub; k_created := c; k_alg := a; k_mat := POpaque d; k_sec := Some sp |}.

Lemma opaque_fp_input sub c a d s : 0 <= c < 4294967296 -> 0 <= a < 256 -> 6 + Z.of_nat (length d) < 65536 ->
  fp_input {| k_sub := sub; k_created := c; k_alg := a; k_mat := POpaque d; k_sec := s |}
  = [153] ++ be 2 (6 + Z.of_nat (length d)) ++ [4] ++ be 4 c ++ [a] ++ d.
Proof.
  intros Hc Ha Hb. unfold fp_input, publen, keymaterial_bytes. cbn [k_mat pubmat_len pubmat_bytes k_created k_alg k_sec].
  rewrite Nat2Z.id. rewrite firstn_app_exact by reflexivity.
  rewrite int_to_bytes_octet by assumption.
  rewrite (int_to_bytes_fits c 4) by (change (256 ^ 4) with 4294967296; lia).
  rewrite int_to_bytes_fits by (change (256 ^ 2) with 65536; lia).
  change (Z.to_nat 2) with 2%nat. change (Z.to_nat 4) with 4%nat. rewrite be2_first_last. rewrite <- !app_assoc. reflexivity.
Qed.

Section Opaque.
Variable sha1 : bytes -> bytes.
(* after repair e03112d: a PUBLIC key of an unknown algorithm gets the RFC fingerprint of its emitted body *)
Theorem fp_opaque_public_eq_rfc sub c a d : 0 <= c < 4294967296 -> 0 <= a < 256 -> 6 + Z.of_nat (length d) < 65536 ->
  fingerprint sha1 (opaque_pub sub c a d) = rfc_fingerprint sha1 (key_body (opaque_pub sub c a d)) /\
  key_body (opaque_pub sub c a d) = rfc_pub_body c a (POpaque d).
Proof.
  intros Hc Ha Hb.
  assert (E : key_body (opaque_pub sub c a d) = rfc_pub_body c a (POpaque d)).
  { unfold key_body, opaque_pub, keymaterial_bytes, rfc_pub_body. cbn [k_created k_alg k_mat k_sec pubmat_bytes rfc_material].
    rewrite int_to_bytes_octet by assumption.
    rewrite (int_to_bytes_fits c 4) by (change (256 ^ 4) with 4294967296; lia).
    rewrite app_nil_r. reflexivity. }
  split; [|exact E]. unfold fingerprint, rfc_fingerprint, opaque_pub. f_equal. rewrite opaque_fp_input by assumption.
  fold (opaque_pub sub c a d). rewrite E. unfold rfc_pub_body. cbn [rfc_material].
  rewrite !app_length, length_be. cbn [length]. f_equal. f_equal. f_equal. lia.
Qed.
End Opaque.

(* the code before the repair hashed six octets only: refuted against the RFC value (identity in place of SHA-1) ... *)
Definition opaque_witness : keypkt := opaque_pub false 1000 21 [0; 9; 1; 255].
Theorem fp_opaque_prefix_refuted :
  fingerprint_prefix (fun x => x) opaque_witness <> rfc_fingerprint (fun x => x) (key_body opaque_witness).
Proof. vm_compute. discriminate. Qed.
Theorem fp_opaque_prefix_characterised c a d s sub :
  0 <= c < 4294967296 -> 0 <= a < 256 ->
  fp_input_prefix {| k_sub := sub; k_created := c; k_alg := a; k_mat := POpaque d; k_sec := s |}
  = [153; 0; 6; 4] ++ be 4 c ++ [a].
Proof.
  intros Hc Ha. unfold fp_input_prefix. cbn [k_mat pubmat_len_prefix k_created k_alg].
  change (Z.to_nat 0) with 0%nat. cbn [firstn]. rewrite app_nil_r.
  rewrite int_to_bytes_octet by assumption.
  rewrite (int_to_bytes_fits c 4) by (change (256 ^ 4) with 4294967296; lia).
  reflexivity.
Qed.
(* ... and the repaired code is the same function on every supported algorithm *)
Theorem fp_prefix_same_supported k : wf_pubmat (k_mat k) -> fp_input_prefix k = fp_input k.
Proof.
  intros H. unfold fp_input_prefix, fp_input, publen.
  replace (pubmat_len_prefix (k_mat k)) with (pubmat_len (k_mat k)); [reflexivity|].
  destruct (k_mat k); try reflexivity. contradiction.
Qed.

(* a PRIVATE key of an unknown algorithm still differs: `data` is the whole stored material (the boundary between
   public and secret part is unknown), all of it is hashed, and PrivKeyV4.pubkey() yields an EMPTY twin *)
Theorem fp_opaque_private_characterised sub c a d sp :
  0 <= c < 4294967296 -> 0 <= a < 256 -> 6 + Z.of_nat (length d) < 65536 ->
  fp_input (opaque_sec sub c a d sp) = [153] ++ be 2 (6 + Z.of_nat (length d)) ++ [4] ++ be 4 c ++ [a] ++ d /\
  fp_input (pubkey_pkt (opaque_sec sub c a d sp)) = [153; 0; 6; 4] ++ be 4 c ++ [a].
Proof.
  intros Hc Ha Hb. split; [apply opaque_fp_input; assumption|].
  unfold pubkey_pkt, opaque_sec. cbn [k_sub k_created k_alg k_mat pub_mat].
  rewrite opaque_fp_input by (cbn [length]; lia). cbn [length]. reflexivity.
Qed.
Definition opaque_sec_witness : keypkt :=
  opaque_sec false 1000 21 [0; 9; 1; 255; 0; 0; 7; 99] {| s_usage := 0; s_s2k := []; s_enc := []; s_priv := []; s_chk := [] |}.
Theorem fp_opaque_private_refuted :
  fingerprint (fun x => x) opaque_sec_witness <> fingerprint (fun x => x) (pubkey_pkt opaque_sec_witness) /\
  key_body opaque_sec_witness <> [4] ++ be 4 1000 ++ [21] ++ [0; 9; 1; 255; 0; 0; 7; 99].
Proof. split; vm_compute; discriminate. Qed.

(* the bound 6 + publen < 65536 is needed: above it the code hashes the first and the last of THREE
      length octets (RFC 4880 cannot represent such a key at all: the fingerprint length field has two octets) *)
Lemma big_prefix_differs v : 65536 <= v < 16777216 ->
  firstn 1 (int_to_bytes v 2) ++ lastn 1 (int_to_bytes v 2) = [v / 65536; v mod 256].
Proof.
  intros H. unfold int_to_bytes.
  assert (Hl : int_byte_len v = 3).
  { assert (int_byte_len v <= 3) by (apply int_byte_len_le; [lia|change (256 ^ 3) with 16777216; lia]).
    destruct (Z_le_gt_dec (int_byte_len v) 2) as [Hle|]; [|lia]. exfalso.
    pose proof (lt_pow256_byte_len v ltac:(lia)). pose proof (int_byte_len_nonneg v).
    pose proof (pow256_mono (int_byte_len v) 2 ltac:(lia)). change (256 ^ 2) with 65536 in *. lia. }
  rewrite Hl. change (Z.to_nat (Z.max (Z.max 2 3) 1)) with 3%nat.
  unfold lastn. cbn [be app length firstn skipn Nat.sub].
  rewrite (Z.mod_small (v / 256 / 256)); [|split; [apply Z.div_pos; [apply Z.div_pos|]; lia|]].
  - rewrite Z.div_div by lia. reflexivity.
  - apply Z.div_lt_upper_bound; [lia|]. apply Z.div_lt_upper_bound; lia.
Qed.
