(* C18 proofs: the fingerprint the code computes is the RFC 4880 12.2 value, depends on the public
   fields only, the key id is its low 64 bits, and the emitted id fields read back as the key id. *)
From Coq Require Import ZArith List Bool Lia ZifyBool.
Import ListNotations.
Require Import PV.Lib.Bytes PV.Lib.BytesLemmas PV.Model.Wire PV.Proofs.Wire_lemmas PV.Proofs.Wire_lemmas2.
Require Import PV.Model.KeyPackets PV.Model.Fingerprint PV.Spec.Rfc4880_keys.
Require Import PV.Proofs.KeyPackets_lemmas PV.Proofs.KeyPackets_parse.
Open Scope Z_scope.

Lemma be2_first_last v : firstn 1 (be 2 v) ++ lastn 1 (be 2 v) = be 2 v.
Proof. unfold lastn. cbn [be app length firstn skipn Nat.sub]. reflexivity. Qed.

Lemma unbe_lastn l n : wf_bytes l -> (n <= length l)%nat -> unbe (lastn n l) = unbe l mod 256 ^ Z.of_nat n.
Proof.
  intros Hw Hn. unfold lastn. set (m := (length l - n)%nat).
  rewrite <- (firstn_skipn m l) at 2. rewrite unbe_app.
  assert (Hl : length (skipn m l) = n) by (rewrite skipn_length; unfold m; lia).
  rewrite Hl.
  assert (Hws : wf_bytes (skipn m l)).
  { rewrite <- (firstn_skipn m l) in Hw. apply wf_bytes_app in Hw. tauto. }
  pose proof (unbe_bounds _ Hws) as Hb. rewrite Hl in Hb.
  rewrite Z.add_comm, Z.mod_add by lia. rewrite Z.mod_small by lia. reflexivity.
Qed.

Section FP.
Variable sha1 : bytes -> bytes.

(* the octets hashed: the (possibly defective) three-octet prefix, then exactly the body of the public half -
   whenever the nominal public length is the real one (supported well-formed material, opaque material) *)
Lemma fp_input_real k : real_publen k ->
  fp_input k = ([153] ++ firstn 1 (int_to_bytes (6 + publen k) 2) ++ lastn 1 (int_to_bytes (6 + publen k) 2))
               ++ key_body (pub_half k).
Proof.
  intros H. unfold fp_input. cbv zeta. rewrite material_prefix_real by assumption.
  rewrite key_body_half. rewrite <- !app_assoc. reflexivity.
Qed.

Lemma fp_input_normal k : wf_pub k ->
  fp_input k = ([153] ++ firstn 1 (int_to_bytes (6 + publen k) 2) ++ lastn 1 (int_to_bytes (6 + publen k) 2))
               ++ key_body (pub_half k).
Proof. intros [_ [_ Hm]]. apply fp_input_real. apply real_publen_wf. exact Hm. Qed.

Lemma fp_eq_rfc_half k : wf_pub k -> 6 + publen k < 65536 ->
  fingerprint sha1 k = rfc_fingerprint sha1 (key_body (pub_half k)).
Proof.
  intros H Hb. unfold fingerprint, rfc_fingerprint. f_equal. rewrite fp_input_normal by assumption.
  rewrite length_half_body by assumption.
  assert (0 <= publen k) by (destruct H as [_ [_ Hm]]; apply pubmat_len_nonneg; assumption).
  rewrite int_to_bytes_fits by (change (256 ^ 2) with 65536; lia).
  change (Z.to_nat 2) with 2%nat. rewrite be2_first_last. rewrite <- app_assoc. reflexivity.
Qed.

(* the public twin is produced, and the fingerprint is the RFC hash of its body *)
Theorem fp_eq_rfc k : wf_pub k -> 6 + publen k < 65536 ->
  exists b, pub_packet_body k = Some b /\ fingerprint sha1 k = rfc_fingerprint sha1 b.
Proof.
  intros H Hb. exists (key_body (pub_half k)). split.
  - unfold pub_packet_body. rewrite pubkey_pkt_wf by exact H. reflexivity.
  - apply fp_eq_rfc_half; assumption.
Qed.

(* ... and of the RFC packet body written from the fields *)
Theorem fp_eq_rfc_fields k : wf_pub k -> 6 + publen k < 65536 ->
  fingerprint sha1 k = rfc_fingerprint sha1 (rfc_pub_body (k_created k) (k_alg k) (k_mat k)).
Proof. intros H Hb. rewrite fp_eq_rfc_half by assumption. rewrite half_body_eq_rfc by assumption. reflexivity. Qed.

(* non-interference: only creation time, algorithm and public material reach the hash *)
Lemma fp_public_only_real k k' : real_publen k ->
  k_created k = k_created k' -> k_alg k = k_alg k' -> k_mat k = k_mat k' ->
  fingerprint sha1 k = fingerprint sha1 k'.
Proof.
  intros H Hc Ha Hm.
  assert (H' : real_publen k') by (unfold real_publen, publen in *; rewrite <- Hm; exact H).
  unfold fingerprint. f_equal. rewrite !fp_input_real by assumption.
  unfold publen. rewrite Hm. f_equal.
  rewrite !key_body_half. rewrite Hc, Ha, Hm. reflexivity.
Qed.

Theorem fp_public_only k k' : wf_pub k ->
  k_created k = k_created k' -> k_alg k = k_alg k' -> k_mat k = k_mat k' ->
  fingerprint sha1 k = fingerprint sha1 k'.
Proof. intros [_ [_ Hm]]. apply fp_public_only_real. apply real_publen_wf. exact Hm. Qed.

(* whenever pubkey() produces a twin, the twin has the fingerprint of the key: supported algorithms and, after
   repair 3c1c8c6, opaque material alike (there the only twins are those of keys that are public already) *)
Theorem fp_twin_preserved k k' : real_publen k -> pubkey_pkt k = Some k' ->
  fingerprint sha1 k' = fingerprint sha1 k.
Proof.
  intros H E. apply pubkey_pkt_some in E. subst k'. symmetry. apply fp_public_only_real; [exact H|reflexivity..].
Qed.

Lemma reparse_fields k : wf_pub k -> parse_consistent k ->
  reparse k = k.
Proof.
  intros H Hc. unfold reparse. rewrite key_body_parse_emit by assumption. destruct k; reflexivity.
Qed.

Lemma apply_op_public k o : wf_pub k -> parse_consistent k ->
  exists k', apply_op k o = Some k' /\
  k_created k' = k_created k /\ k_alg k' = k_alg k /\ k_mat k' = k_mat k.
Proof.
  intros H Hc. destruct o; cbn [apply_op].
  - eexists. split; [reflexivity|]. unfold map_sec; cbn [k_created k_alg k_mat]; auto.
  - eexists. split; [reflexivity|]. unfold map_sec; cbn [k_created k_alg k_mat]; auto.
  - eexists. split; [reflexivity|]. unfold map_sec; cbn [k_created k_alg k_mat]; auto.
  - exists (pub_half k). split; [apply pubkey_pkt_wf; exact H|]. unfold pub_half; cbn [k_created k_alg k_mat]; auto.
  - exists k. auto.
  - exists k. rewrite reparse_fields by assumption. auto.
Qed.

Lemma run_ops_public ops : forall k, wf_pub k -> parse_consistent k ->
  exists k', run_ops ops k = Some k' /\
  k_created k' = k_created k /\ k_alg k' = k_alg k /\ k_mat k' = k_mat k.
Proof.
  induction ops as [|o ops IH]; intros k H Hc; cbn [run_ops]; [exists k; auto|].
  destruct (apply_op_public k o H Hc) as [k1 [E0 [E1 [E2 E3]]]]. rewrite E0.
  assert (H1 : wf_pub k1) by (unfold wf_pub in *; rewrite E1, E2, E3; exact H).
  assert (Hc1 : parse_consistent k1) by (unfold parse_consistent in *; rewrite E2, E3; exact Hc).
  destruct (IH _ H1 Hc1) as [k2 [F0 [F1 [F2 F3]]]].
  exists k2. rewrite F1, F2, F3. auto.
Qed.

(* no step of a history of protect / unlock / lock / pubkey / copy / export+import steps refuses a key of a supported
   algorithm, and the fingerprint is the same at every point, in any order and number *)
Theorem fp_invariant ops k : wf_pub k -> parse_consistent k ->
  exists k', run_ops ops k = Some k' /\ fingerprint sha1 k' = fingerprint sha1 k.
Proof.
  intros H Hc. destruct (run_ops_public ops k H Hc) as [k' [E0 [E1 [E2 E3]]]]. exists k'. split; [exact E0|].
  symmetry. apply fp_public_only; auto.
Qed.

(* the same for two keys that merely share their public fields, whatever their secret parts are *)
Theorem fp_same_public k k' : wf_pub k -> same_public_pkt k k' -> fingerprint sha1 k = fingerprint sha1 k'.
Proof. intros H [_ [Hc [Ha Hm]]]. apply fp_public_only; assumption. Qed.

Hypothesis sha1_len : forall x, length (sha1 x) = 20%nat.
Hypothesis sha1_wf : forall x, wf_bytes (sha1 x).

Theorem keyid_low64 k : unbe (keyid sha1 k) = unbe (fingerprint sha1 k) mod 2 ^ 64.
Proof.
  unfold keyid. rewrite unbe_lastn; [reflexivity|apply sha1_wf|]. unfold fingerprint. rewrite sha1_len. lia.
Qed.

Theorem keyid_eq_rfc k : wf_pub k -> 6 + publen k < 65536 ->
  exists b, pub_packet_body k = Some b /\ unbe (keyid sha1 k) = rfc_keyid_value sha1 b.
Proof.
  intros H Hb. destruct (fp_eq_rfc k H Hb) as [b [E F]]. exists b. split; [exact E|].
  rewrite keyid_low64. unfold rfc_keyid_value. rewrite F. reflexivity.
Qed.

Lemma length_keyid k : length (keyid sha1 k) = 8%nat.
Proof. unfold keyid, lastn. rewrite skipn_length. unfold fingerprint. rewrite sha1_len. reflexivity. Qed.

Lemma wf_keyid k : wf_bytes (keyid sha1 k).
Proof.
  unfold keyid, lastn. set (l := fingerprint sha1 k). set (m := (length l - 8)%nat).
  assert (Hw : wf_bytes l) by apply sha1_wf.
  rewrite <- (firstn_skipn m l) in Hw. apply wf_bytes_app in Hw. tauto.
Qed.

(* every id PGPy writes for a key reads back as that key's id / fingerprint, leaving what follows untouched *)
Theorem emitted_ids_are_keyid k r : wf_bytes r -> 0 <= k_alg k < 256 ->
  sub_header_parse (issuer_subpacket sha1 k ++ r) = Some (9, 16, false, keyid sha1 k ++ r) /\
  sub_header_parse (issuer_fpr_subpacket sha1 k ++ r) = Some (22, 33, false, [4] ++ fingerprint sha1 k ++ r) /\
  pkesk_keyid (pkesk_prefix sha1 k ++ r) = Some (keyid sha1 k).
Proof.
  intros Hr Ha. split; [|split].
  - unfold issuer_subpacket. rewrite <- app_assoc. apply sub_header_roundtrip; [lia|lia|].
    apply wf_bytes_app. split; [apply wf_keyid|assumption].
  - unfold issuer_fpr_subpacket. rewrite <- !app_assoc. apply sub_header_roundtrip; [lia|lia|].
    apply wf_bytes_app. split; [constructor; [lia|constructor]|].
    apply wf_bytes_app. split; [apply sha1_wf|assumption].
  - unfold pkesk_prefix, pkesk_keyid. cbn [app].
    rewrite <- app_assoc. rewrite firstn_app_exact by apply length_keyid.
    rewrite app_length, length_keyid. reflexivity.
Qed.

End FP.

(* ---------- material the code has no class for (algorithm ids 0 and 21: OpaquePubKey / OpaquePrivKey) ---------- *)
Definition opaque_pub (sub : bool) (c a : Z) (d : bytes) : keypkt :=
  {| k_sub := sub; k_created := c; k_alg := a; k_mat := POpaque d; k_sec := None |}.
Definition opaque_sec (sub : bool) (c a : Z) (d : bytes) (sp : secpart) : keypkt :=
  {| k_sub := sub; k_created := c; k_alg := a; k_mat := POpaque d; k_sec := Some sp |}.

Lemma opaque_fp_input sub c a d s : 0 <= c < 4294967296 -> 0 <= a < 256 -> 6 + Z.of_nat (length d) < 65536 ->
  fp_input {| k_sub := sub; k_created := c; k_alg := a; k_mat := POpaque d; k_sec := s |}
  = [153] ++ be 2 (6 + Z.of_nat (length d)) ++ [4] ++ be 4 c ++ [a] ++ d.
Proof.
  intros Hc Ha Hb. unfold fp_input, publen, keymaterial_bytes. cbn [k_mat pubmat_len pubmat_bytes k_created k_alg k_sec].
  rewrite Nat2Z.id. rewrite firstn_app_exact by reflexivity.
  rewrite int_to_bytes_octet by assumption.
  rewrite (int_to_bytes_fits c 4) by (change (256 ^ 4) with 4294967296; lia).
  rewrite int_to_bytes_fits by (change (256 ^ 2) with 65536; lia).
  change (Z.to_nat 2) with 2%nat. change (Z.to_nat 4) with 4%nat. rewrite be2_first_last. rewrite <- !app_assoc. reflexivity.
Qed.

Section Opaque.
Variable sha1 : bytes -> bytes.
(* after repair e03112d: a PUBLIC key of an unknown algorithm gets the RFC fingerprint of its emitted body *)
Theorem fp_opaque_public_eq_rfc sub c a d : 0 <= c < 4294967296 -> 0 <= a < 256 -> 6 + Z.of_nat (length d) < 65536 ->
  fingerprint sha1 (opaque_pub sub c a d) = rfc_fingerprint sha1 (key_body (opaque_pub sub c a d)) /\
  key_body (opaque_pub sub c a d) = rfc_pub_body c a (POpaque d).
Proof.
  intros Hc Ha Hb.
  assert (E : key_body (opaque_pub sub c a d) = rfc_pub_body c a (POpaque d)).
  { unfold key_body, opaque_pub, keymaterial_bytes, rfc_pub_body. cbn [k_created k_alg k_mat k_sec pubmat_bytes rfc_material].
    rewrite int_to_bytes_octet by assumption.
    rewrite (int_to_bytes_fits c 4) by (change (256 ^ 4) with 4294967296; lia).
    rewrite app_nil_r. reflexivity. }
  split; [|exact E]. unfold fingerprint, rfc_fingerprint, opaque_pub. f_equal. rewrite opaque_fp_input by assumption.
  fold (opaque_pub sub c a d). rewrite E. unfold rfc_pub_body. cbn [rfc_material].
  rewrite !app_length, length_be. cbn [length]. f_equal. f_equal. f_equal. lia.
Qed.
End Opaque.

(* the code before the repair hashed six octets only: refuted against the RFC value (identity in place of SHA-1) ... *)
Definition opaque_witness : keypkt := opaque_pub false 1000 21 [0; 9; 1; 255].
Theorem fp_opaque_prefix_refuted :
  fingerprint_prefix (fun x => x) opaque_witness <> rfc_fingerprint (fun x => x) (key_body opaque_witness).
Proof. vm_compute. discriminate. Qed.
Theorem fp_opaque_prefix_characterised c a d s sub :
  0 <= c < 4294967296 -> 0 <= a < 256 ->
  fp_input_prefix {| k_sub := sub; k_created := c; k_alg := a; k_mat := POpaque d; k_sec := s |}
  = [153; 0; 6; 4] ++ be 4 c ++ [a].
Proof.
  intros Hc Ha. unfold fp_input_prefix. cbn [k_mat pubmat_len_prefix k_created k_alg].
  change (Z.to_nat 0) with 0%nat. cbn [firstn]. rewrite app_nil_r.
  rewrite int_to_bytes_octet by assumption.
  rewrite (int_to_bytes_fits c 4) by (change (256 ^ 4) with 4294967296; lia).
  reflexivity.
Qed.
(* ... and the repaired code is the same function on every supported algorithm *)
Theorem fp_prefix_same_supported k : wf_pubmat (k_mat k) -> fp_input_prefix k = fp_input k.
Proof.
  intros H. unfold fp_input_prefix, fp_input, publen.
  replace (pubmat_len_prefix (k_mat k)) with (pubmat_len (k_mat k)); [reflexivity|].
  destruct (k_mat k); try reflexivity. contradiction.
Qed.

(* a PRIVATE key of an unknown algorithm: `data` is the whole stored material (the boundary between public and secret
   part is unknown), all of it is hashed, and after repair 3c1c8c6 PrivKeyV4.pubkey() REFUSES (NotImplementedError) *)
Theorem fp_opaque_private_characterised sub c a d sp :
  0 <= c < 4294967296 -> 0 <= a < 256 -> 6 + Z.of_nat (length d) < 65536 ->
  fp_input (opaque_sec sub c a d sp) = [153] ++ be 2 (6 + Z.of_nat (length d)) ++ [4] ++ be 4 c ++ [a] ++ d /\
  pubkey_pkt (opaque_sec sub c a d sp) = None.
Proof.
  intros Hc Ha Hb. split; [apply opaque_fp_input; assumption|reflexivity].
Qed.
(* the code before that repair produced an EMPTY twin with another fingerprint *)
Theorem fp_opaque_private_old_characterised sub c a d sp :
  0 <= c < 4294967296 -> 0 <= a < 256 ->
  fp_input (pubkey_pkt_old (opaque_sec sub c a d sp)) = [153; 0; 6; 4] ++ be 4 c ++ [a].
Proof.
  intros Hc Ha. unfold pubkey_pkt_old, opaque_sec. cbn [k_sub k_created k_alg k_mat pub_mat_old].
  rewrite opaque_fp_input by (cbn [length]; lia). cbn [length]. reflexivity.
Qed.
Definition opaque_sec_witness : keypkt :=
  opaque_sec false 1000 21 [0; 9; 1; 255; 0; 0; 7; 99] {| s_usage := 0; s_s2k := []; s_enc := []; s_priv := []; s_chk := [] |}.
Theorem fp_opaque_private_old_refuted :
  fingerprint (fun x => x) opaque_sec_witness <> fingerprint (fun x => x) (pubkey_pkt_old opaque_sec_witness).
Proof. vm_compute. discriminate. Qed.
(* since repair c516614 such a private packet is written back as received: version, time, algorithm, the opaque octets,
   whatever the (unused) secret-part fields of the object hold *)
Theorem opaque_private_reemit sub c a d sp : 0 <= c < 4294967296 -> 0 <= a < 256 ->
  key_body (opaque_sec sub c a d sp) = [4] ++ be 4 c ++ [a] ++ d.
Proof.
  intros Hc Ha. unfold key_body, opaque_sec, keymaterial_bytes. cbn [k_created k_alg k_mat k_sec pubmat_bytes is_opaque].
  rewrite int_to_bytes_octet by assumption.
  rewrite (int_to_bytes_fits c 4) by (change (256 ^ 4) with 4294967296; lia).
  rewrite app_nil_r. reflexivity.
Qed.
(* the composition before that repair appended the secret tail (at least a usage octet): another body, one octet longer
   than what was received, so the packet length and every later offset differ *)
Theorem opaque_private_reemit_old_refuted :
  key_body_old opaque_sec_witness <> [4] ++ be 4 1000 ++ [21] ++ [0; 9; 1; 255; 0; 0; 7; 99] /\
  key_body_old opaque_sec_witness <> key_body opaque_sec_witness /\
  length (key_body_old opaque_sec_witness) = S (length (key_body opaque_sec_witness)).
Proof. repeat split; vm_compute; discriminate. Qed.
(* the repair changed nothing where the material is not opaque *)
Theorem key_body_old_same k : is_opaque (k_mat k) = false -> key_body_old k = key_body k.
Proof. intros H. unfold key_body_old, key_body, keymaterial_bytes_old, keymaterial_bytes. rewrite H. reflexivity. Qed.
(* export + import of a private packet of an unknown algorithm gives the packet back (before: a material one octet longer) *)
Lemma opaque_sec_reparse sub c a d sp : 0 <= c < 4294967296 -> a = 0 \/ a = 21 ->
  reparse (opaque_sec sub c a d sp) = opaque_sec sub c a d sp.
Proof.
  intros Hc Ha. unfold reparse.
  assert (E : key_body_parse (key_body (opaque_sec sub c a d sp)) = Some (c, a, POpaque d, [])).
  { rewrite opaque_private_reemit by (destruct Ha; subst; lia).
    unfold key_body_parse. cbn [app]. change (4 =? 4) with true. cbv iota.
    rewrite firstn_app_exact, skipn_app_exact by apply length_be.
    unfold bytes_to_int. rewrite unbe_be by (change (256 ^ Z.of_nat 4) with 4294967296; lia).
    cbn [app]. destruct Ha; subst a; reflexivity. }
  rewrite E. reflexivity.
Qed.
(* every step but pubkey() leaves body and hashed octets of such a private packet as they are *)
Theorem opaque_sec_step sub c a d sp o : 0 <= c < 4294967296 -> a = 0 \/ a = 21 -> o <> OpPubkey ->
  exists sp', apply_op (opaque_sec sub c a d sp) o = Some (opaque_sec sub c a d sp') /\
    key_body (opaque_sec sub c a d sp') = key_body (opaque_sec sub c a d sp) /\
    fp_input (opaque_sec sub c a d sp') = fp_input (opaque_sec sub c a d sp).
Proof.
  intros Hc Ha Ho.
  assert (B : forall s1 s2, key_body (opaque_sec sub c a d s1) = key_body (opaque_sec sub c a d s2) /\
                            fp_input (opaque_sec sub c a d s1) = fp_input (opaque_sec sub c a d s2)) by (intros; split; reflexivity).
  destruct o; cbn [apply_op]; try contradiction.
  - eexists. split; [reflexivity|apply B].
  - eexists. split; [reflexivity|apply B].
  - eexists. split; [reflexivity|apply B].
  - exists sp. split; [reflexivity|apply B].
  - exists sp. rewrite opaque_sec_reparse by assumption. split; [reflexivity|apply B].
Qed.
(* the copy before the repair lost the opaque octets: another fingerprint, for public and private packets *)
Theorem fp_opaque_copy_old_refuted :
  fingerprint (fun x => x) (copy_pkt_old opaque_witness) <> fingerprint (fun x => x) opaque_witness /\
  fingerprint (fun x => x) (copy_pkt_old opaque_sec_witness) <> fingerprint (fun x => x) opaque_sec_witness /\
  key_body (copy_pkt_old opaque_witness) <> key_body opaque_witness.
Proof. repeat split; vm_compute; discriminate. Qed.
(* the old steps are the repaired ones on every supported algorithm *)
Theorem apply_op_old_same k o : wf_pub k -> apply_op k o = Some (apply_op_old k o).
Proof.
  intros H. destruct o; cbn [apply_op apply_op_old]; try reflexivity.
  - apply pubkey_pkt_old_same. exact H.
  - destruct H as [_ [_ Hm]]. unfold copy_pkt_old. rewrite (pub_mat_old_wf _ Hm). destruct k; reflexivity.
Qed.

(* a PUBLIC key of an unknown algorithm is left as it is by every step (protect / unlock / lock have no secret part to
   act on, PGPKey.pubkey returns the key itself, copy keeps the octets, export + import reads them back) *)
Lemma opaque_pub_reparse sub c a d : 0 <= c < 4294967296 -> a = 0 \/ a = 21 ->
  reparse (opaque_pub sub c a d) = opaque_pub sub c a d.
Proof.
  intros Hc Ha. unfold reparse.
  assert (E : key_body_parse (key_body (opaque_pub sub c a d)) = Some (c, a, POpaque d, [])).
  { unfold key_body, opaque_pub, keymaterial_bytes. cbn [k_created k_alg k_mat k_sec pubmat_bytes].
    rewrite int_to_bytes_octet by (destruct Ha; subst; lia).
    rewrite (int_to_bytes_fits c 4) by (change (256 ^ 4) with 4294967296; lia).
    change (Z.to_nat 4) with 4%nat. rewrite app_nil_r.
    unfold key_body_parse. cbn [app]. change (4 =? 4) with true. cbv iota.
    rewrite firstn_app_exact, skipn_app_exact by apply length_be.
    unfold bytes_to_int. rewrite unbe_be by (change (256 ^ Z.of_nat 4) with 4294967296; lia).
    cbn [app]. destruct Ha; subst a; reflexivity. }
  rewrite E. reflexivity.
Qed.
Lemma opaque_pub_step sub c a d o : 0 <= c < 4294967296 -> a = 0 \/ a = 21 ->
  apply_op (opaque_pub sub c a d) o = Some (opaque_pub sub c a d).
Proof.
  intros Hc Ha. destruct o; cbn [apply_op]; try reflexivity.
  rewrite opaque_pub_reparse by assumption. reflexivity.
Qed.
Theorem opaque_pub_invariant ops sub c a d : 0 <= c < 4294967296 -> a = 0 \/ a = 21 ->
  run_ops ops (opaque_pub sub c a d) = Some (opaque_pub sub c a d).
Proof.
  intros Hc Ha. induction ops as [|o ops IH]; cbn [run_ops]; [reflexivity|].
  rewrite opaque_pub_step by assumption. exact IH.
Qed.

(* the bound 6 + publen < 65536 is needed: above it the code hashes the first and the last of THREE
      length octets (RFC 4880 cannot represent such a key at all: the fingerprint length field has two octets) *)
Lemma big_prefix_differs v : 65536 <= v < 16777216 ->
  firstn 1 (int_to_bytes v 2) ++ lastn 1 (int_to_bytes v 2) = [v / 65536; v mod 256].
Proof.
  intros H. unfold int_to_bytes.
  assert (Hl : int_byte_len v = 3).
  { assert (int_byte_len v <= 3) by (apply int_byte_len_le; [lia|change (256 ^ 3) with 16777216; lia]).
    destruct (Z_le_gt_dec (int_byte_len v) 2) as [Hle|]; [|lia]. exfalso.
    pose proof (lt_pow256_byte_len v ltac:(lia)). pose proof (int_byte_len_nonneg v).
    pose proof (pow256_mono (int_byte_len v) 2 ltac:(lia)). change (256 ^ 2) with 65536 in *. lia. }
  rewrite Hl. change (Z.to_nat (Z.max (Z.max 2 3) 1)) with 3%nat.
  unfold lastn. cbn [be app length firstn skipn Nat.sub].
  rewrite (Z.mod_small (v / 256 / 256)); [|split; [apply Z.div_pos; [apply Z.div_pos|]; lia|]].
  - rewrite Z.div_div by lia. reflexivity.
  - apply Z.div_lt_upper_bound; [lia|]. apply Z.div_lt_upper_bound; lia.
Qed.
