From Coq Require Import ZArith List Bool Lia ZifyBool.
Import ListNotations.
Require Import PV.Lib.Bytes PV.Lib.BytesLemmas PV.Model.Wire PV.Proofs.Wire_lemmas PV.Proofs.Wire_lemmas2 PV.Model.Fmt.
Open Scope Z_scope.

Lemma many_enc_nil a : enc (FMany a) (VL []) = Some []. Proof. reflexivity. Qed.
Lemma many_enc_cons a x l :
  enc (FMany a) (VL (x :: l)) =
  match enc a x, enc (FMany a) (VL l) with
  | Some p, Some q => if Nat.eqb (length p) 0 then None else Some (p ++ q)
  | _, _ => None end.
Proof. reflexivity. Qed.

(* The generic round trip.  Mode true: the encoding followed by ANY data r decodes to the value and
   leaves exactly r (self-delimiting: "consumes exactly its own length and leaves following data
   untouched"); mode false: the encoding alone, handed over as a region, decodes to the value.
   Fuel depth f + |input| + 1 always suffices, so running out of fuel is excluded by the statement. *)
Theorem dec_enc : forall fuel f m v b r,
  wf m f = true -> enc f v = Some b -> (fuel > depth f + length (inp m b r))%nat ->
  dec fuel f (inp m b r) = Some (v, out m r).
Proof.
  induction fuel as [|fuel IH]; intros f m v b r Hwf He Hf; [lia|].
  destruct f as [n|n|c| | |fa fb|n fa|fa|fa|fa].
  - (* FBE *)
    destruct v as [z| | |]; try discriminate. cbn in He.
    destruct ((0 <=? z) && (z <? 256 ^ Z.of_nat n)) eqn:E; [|discriminate]. injection He as <-.
    apply andb_prop in E as [E1 E2]. apply Z.leb_le in E1. apply Z.ltb_lt in E2.
    cbn [dec]. destruct m; cbn [inp out] in *.
    + rewrite app_length, length_be.
      replace (Nat.leb n (n + length r)) with true by (symmetry; apply Nat.leb_le; lia).
      rewrite firstn_app_exact, skipn_app_exact by apply length_be. rewrite unbe_be by lia. reflexivity.
    + rewrite length_be, Nat.leb_refl.
      rewrite <- (app_nil_r (be n z)).
      rewrite firstn_app_exact, skipn_app_exact by apply length_be. rewrite unbe_be by lia. reflexivity.
  - (* FFixed *)
    destruct v as [|bb| |]; try discriminate. cbn in He.
    destruct (Nat.eqb (length bb) n) eqn:E; [|discriminate]. injection He as <-. apply Nat.eqb_eq in E.
    cbn [dec]. destruct m; cbn [inp out] in *.
    + rewrite app_length. replace (Nat.leb n (length bb + length r)) with true by (symmetry; apply Nat.leb_le; lia).
      rewrite firstn_app_exact, skipn_app_exact by assumption. reflexivity.
    + rewrite <- E, Nat.leb_refl, firstn_all, skipn_all. reflexivity.
  - (* FConst *)
    destruct v as [|bb| |]; try discriminate. cbn [enc] in He.
    destruct (eqb_bytes bb c) eqn:E; [|discriminate]. injection He as <-. apply eqb_bytes_eq in E. subst bb.
    cbn [dec]. destruct m; cbn [inp out] in *.
    + rewrite firstn_app_exact, skipn_app_exact by reflexivity. rewrite eqb_bytes_refl. reflexivity.
    + rewrite firstn_all, skipn_all. rewrite eqb_bytes_refl. reflexivity.
  - (* FMPI *)
    destruct v as [z| | |]; try discriminate. cbn [enc] in He.
    destruct ((0 <=? z) && (bit_length z <? 65536)) eqn:E; [|discriminate]. injection He as <-.
    apply andb_prop in E as [E1 E2]. apply Z.leb_le in E1. apply Z.ltb_lt in E2.
    cbn [dec]. destruct m; cbn [inp out] in *.
    + rewrite mpi_roundtrip by assumption. reflexivity.
    + rewrite <- (app_nil_r (to_mpibytes z)). rewrite mpi_roundtrip by assumption. reflexivity.
  - (* FRest *)
    destruct m; [discriminate|]. destruct v as [|bb| |]; try discriminate. injection He as <-. reflexivity.
  - (* FSeq *)
    destruct v as [| |x y|]; try discriminate. cbn [enc] in He.
    destruct (enc fa x) as [p|] eqn:Ea; [|discriminate]. destruct (enc fb y) as [q|] eqn:Eb; [|discriminate].
    injection He as <-. cbn [wf] in Hwf. apply andb_prop in Hwf as [Wa Wb]. cbn [depth] in Hf.
    cbn [dec].
    assert (Hin : inp m (p ++ q) r = inp true p (inp m q r)) by (destruct m; cbn [inp]; [apply app_assoc_reverse|reflexivity]).
    rewrite Hin in *.
    rewrite (IH fa true x p (inp m q r) Wa Ea) by (cbn [inp] in *; lia). cbn [out].
    rewrite (IH fb m y q r Wb Eb).
    + reflexivity.
    + cbn [inp] in Hf. rewrite app_length in Hf. lia.
  - (* FLen *)
    cbn [enc] in He. destruct (enc fa v) as [p|] eqn:Ea; [|discriminate].
    destruct (Z.of_nat (length p) <? 256 ^ Z.of_nat n) eqn:E; [|discriminate]. injection He as <-.
    apply Z.ltb_lt in E. cbn [wf] in Hwf. cbn [depth] in Hf.
    assert (Hw : wf false fa = true) by (destruct m; exact Hwf).
    cbn [dec].
    assert (Hin : inp m (be n (Z.of_nat (length p)) ++ p) r = be n (Z.of_nat (length p)) ++ (p ++ out m r)).
    { destruct m; cbn [inp out]; [apply app_assoc_reverse| rewrite app_nil_r; reflexivity]. }
    rewrite Hin in *. rewrite app_length, length_be in *.
    replace (Nat.leb n (n + length (p ++ out m r))) with true by (symmetry; apply Nat.leb_le; lia).
    rewrite firstn_app_exact, skipn_app_exact by apply length_be.
    rewrite unbe_be by lia. rewrite Nat2Z.id.
    rewrite app_length. replace (Nat.leb (length p) (length p + length (out m r))) with true by (symmetry; apply Nat.leb_le; lia).
    rewrite firstn_app_exact, skipn_app_exact by reflexivity.
    pose proof (IH fa false v p [] Hw Ea) as K. cbn [inp out] in K. rewrite K.
    + reflexivity.
    + rewrite app_length in Hf. lia.
  - (* FNewLen *)
    cbn [enc] in He. destruct (enc fa v) as [p|] eqn:Ea; [|discriminate].
    destruct (Z.of_nat (length p) <? 4294967296) eqn:E; [|discriminate]. injection He as <-.
    apply Z.ltb_lt in E. cbn [wf] in Hwf. cbn [depth] in Hf.
    assert (Hw : wf false fa = true) by (destruct m; exact Hwf).
    cbn [dec].
    assert (Hin : inp m (new_length (Z.of_nat (length p)) ++ p) r = new_length (Z.of_nat (length p)) ++ (p ++ out m r)).
    { destruct m; cbn [inp out]; [apply app_assoc_reverse| rewrite app_nil_r; reflexivity]. }
    rewrite Hin in *.
    rewrite new_len_roundtrip by lia. rewrite Nat2Z.id.
    rewrite app_length. replace (Nat.leb (length p) (length p + length (out m r))) with true by (symmetry; apply Nat.leb_le; lia).
    rewrite firstn_app_exact, skipn_app_exact by reflexivity.
    pose proof (IH fa false v p [] Hw Ea) as K. cbn [inp out] in K. rewrite K.
    + reflexivity.
    + rewrite !app_length in Hf. lia.
  - (* FSubLen *)
    cbn [enc] in He. destruct (enc fa v) as [p|] eqn:Ea; [|discriminate].
    destruct (Z.of_nat (length p) <? 4294967296) eqn:E; [|discriminate]. injection He as <-.
    apply Z.ltb_lt in E. cbn [wf] in Hwf. cbn [depth] in Hf.
    assert (Hw : wf false fa = true) by (destruct m; exact Hwf).
    cbn [dec].
    assert (Hin : inp m (sub_length (Z.of_nat (length p)) ++ p) r = sub_length (Z.of_nat (length p)) ++ (p ++ out m r)).
    { destruct m; cbn [inp out]; [apply app_assoc_reverse| rewrite app_nil_r; reflexivity]. }
    rewrite Hin in *.
    rewrite sub_len_roundtrip by lia. rewrite Nat2Z.id.
    rewrite app_length. replace (Nat.leb (length p) (length p + length (out m r))) with true by (symmetry; apply Nat.leb_le; lia).
    rewrite firstn_app_exact, skipn_app_exact by reflexivity.
    pose proof (IH fa false v p [] Hw Ea) as K. cbn [inp out] in K. rewrite K.
    + reflexivity.
    + rewrite !app_length in Hf. lia.
  - (* FMany *)
    destruct m; [discriminate|]. cbn [wf] in Hwf. cbn [inp out] in *. cbn [depth] in Hf.
    destruct v as [| | |l]; try discriminate.
    destruct l as [|x l].
    + rewrite many_enc_nil in He. injection He as <-. reflexivity.
    + rewrite many_enc_cons in He.
      destruct (enc fa x) as [p|] eqn:Ea; [|discriminate].
      destruct (enc (FMany fa) (VL l)) as [q|] eqn:Eq; [|discriminate].
      destruct (Nat.eqb (length p) 0) eqn:E0; [discriminate|]. injection He as <-. apply Nat.eqb_neq in E0.
      cbn [dec]. destruct (p ++ q) as [|c t] eqn:Epq.
      { destruct p; [contradiction|discriminate]. }
      rewrite <- Epq in *. clear c t Epq.
      pose proof (IH fa true x p q Hwf Ea) as K. cbn [inp out] in K. rewrite K by lia.
      rewrite app_length. replace (Nat.ltb (length q) (length p + length q)) with true by (symmetry; apply Nat.ltb_lt; lia).
      pose proof (IH (FMany fa) false (VL l) q [] Hwf Eq) as K2. cbn [inp out] in K2. rewrite K2.
      * reflexivity.
      * rewrite app_length in Hf. cbn [depth]. lia.
Qed.

(* convenient corollary: self-delimiting formats followed by arbitrary data *)
Corollary dec_enc_app f v b r : wf true f = true -> enc f v = Some b ->
  dec (S (S (depth f + length (b ++ r)))) f (b ++ r) = Some (v, r).
Proof. intros W E. apply (dec_enc _ f true v b r W E). cbn [inp]. lia. Qed.
Corollary dec_enc_region f v b : wf false f = true -> enc f v = Some b ->
  dec (S (S (depth f + length b))) f b = Some (v, []).
Proof. intros W E. apply (dec_enc _ f false v b [] W E). cbn [inp]. lia. Qed.
