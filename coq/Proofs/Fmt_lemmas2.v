(* "Foreign input normalises once": whatever well-formed encoding another producer chose, if the
   (strict) decoder accepts it, re-encoding the decoded value is defined, is no longer than what was
   consumed, and (Packets_lemmas) parses back to the same value and is a fixed point.

   Outcome.  For Model/FmtStrict.v dec_strict (only "all octets of a multiprecision integer are present"
   is demanded) the statement is FALSE, in three ways (foreign_normalises_once_refuted,
   dec_strict_enc_defined_refuted, foreign_subpacket_longer, all by computation on concrete inputs):
     1. longer: new_len accepts partial body lengths: a partial length 2^13 followed by a final two-octet
        length 192 spends 3 length octets on 8384 body octets, the encoder spends 5; and without any
        partial length: a SUBPACKET length 8384..16319 may be written with two octets (first octet
        224..254, RFC 4880 5.2.3.1), the encoder (packet rule: two octets below 8384) spends 5;
     2. undefined: inside a two-octet-counted region (signature subpacket area, 65535 octets) the longer
        re-encoding of such subpackets overflows the count: encoder None.  (Since subpacket lengths are
        read with the subpacket rule, FSubLen, this is no longer a matter of partial lengths, and not
        an artefact of the model: the area is well-formed by the RFC.);
     3. undefined: a multiprecision integer that declares 65529..65535 bits has 8192 value octets; when
        the first has its top bit set the value has 65536 significant bits, which no two-octet bit
        count expresses: encoder None.
   For dec_strict2 (a first length octet 224..254 refused under both length rules, 65536-bit values
   refused) the full statement holds (dec_strict_enc_defined_partial, foreign_normalises_once_partial),
   with no side condition on the format at all (wf is not needed in this direction), and dec_strict2
   accepts everything the encoder writes (dec_strict2_enc), so "well-formed foreign input" includes
   PGPy's own output. *)
From Coq Require Import ZArith List Bool Lia ZifyBool ZifyNat.
Import ListNotations.
Require Import PV.Lib.Bytes PV.Lib.BytesLemmas PV.Model.Wire PV.Proofs.Wire_lemmas PV.Proofs.Wire_lemmas2.
Require Import PV.Model.Fmt PV.Model.FmtStrict PV.Model.Packets PV.Proofs.Fmt_lemmas PV.Proofs.Packets_lemmas.
Open Scope Z_scope.

(* ---------- strict acceptance implies tolerant acceptance, same result ---------- *)
Theorem dec_strict_dec : forall fuel f i x, dec_strict fuel f i = Some x -> dec fuel f i = Some x.
Proof.
  induction fuel as [|fuel IH]; intros f i x H; [discriminate|].
  destruct f as [n|n|c| | |fa fb|n fa|fa|fa|fa]; cbn [dec_strict] in H; cbn [dec].
  - exact H.
  - exact H.
  - exact H.
  - destruct (Nat.leb 2 (length i) && Nat.leb (Z.to_nat ((unbe (firstn 2 i) + 7) / 8)) (length (skipn 2 i)));
      [exact H|discriminate].
  - exact H.
  - destruct (dec_strict fuel fa i) as [[x1 r1]|] eqn:Ea; [|discriminate].
    rewrite (IH _ _ _ Ea).
    destruct (dec_strict fuel fb r1) as [[y r2]|] eqn:Eb; [|discriminate].
    rewrite (IH _ _ _ Eb). exact H.
  - destruct (Nat.leb n (length i)); [|discriminate].
    destruct (Nat.leb (Z.to_nat (unbe (firstn n i))) (length (skipn n i))); [|discriminate].
    destruct (dec_strict fuel fa (firstn (Z.to_nat (unbe (firstn n i))) (skipn n i))) as [[x1 r1]|] eqn:Ea; [|discriminate].
    rewrite (IH _ _ _ Ea). exact H.
  - destruct (new_len i) as [[l rest]|]; [|discriminate].
    destruct (Nat.leb (Z.to_nat l) (length rest)); [|discriminate].
    destruct (dec_strict fuel fa (firstn (Z.to_nat l) rest)) as [[x1 r1]|] eqn:Ea; [|discriminate].
    rewrite (IH _ _ _ Ea). exact H.
  - destruct (sub_len i) as [[l rest]|]; [|discriminate].
    destruct (Nat.leb (Z.to_nat l) (length rest)); [|discriminate].
    destruct (dec_strict fuel fa (firstn (Z.to_nat l) rest)) as [[x1 r1]|] eqn:Ea; [|discriminate].
    rewrite (IH _ _ _ Ea). exact H.
  - destruct i as [|z t]; [exact H|].
    destruct (dec_strict fuel fa (z :: t)) as [[x1 r1]|] eqn:Ea; [|discriminate].
    rewrite (IH _ _ _ Ea).
    destruct (Nat.ltb (length r1) (length (z :: t))); [|discriminate].
    destruct (dec_strict fuel (FMany fa) r1) as [[vl r2]|] eqn:Em; [|discriminate].
    rewrite (IH _ _ _ Em). exact H.
Qed.

Lemma new_len_np_new_len i x : new_len_np i = Some x -> new_len i = Some x.
Proof.
  unfold new_len_np, new_len. destruct (parse_len i 0) as [[[pl sz] [|]]|]; intros H; [discriminate|exact H|discriminate].
Qed.

Lemma sub_len_np_sub_len i x : sub_len_np i = Some x -> sub_len i = Some x.
Proof.
  unfold sub_len_np. destruct i as [|p0 t]; [discriminate|].
  destruct ((224 <=? p0) && (p0 <? 255)); [discriminate|]. intros H. exact H.
Qed.

Theorem dec_strict2_dec_strict : forall fuel f i x, dec_strict2 fuel f i = Some x -> dec_strict fuel f i = Some x.
Proof.
  induction fuel as [|fuel IH]; intros f i x H; [discriminate|].
  destruct f as [n|n|c| | |fa fb|n fa|fa|fa|fa]; cbn [dec_strict2] in H; cbn [dec_strict].
  - exact H.
  - exact H.
  - exact H.
  - destruct (Nat.leb 2 (length i) && Nat.leb (Z.to_nat ((unbe (firstn 2 i) + 7) / 8)) (length (skipn 2 i)));
      [|discriminate].
    unfold mpi_parse in *. cbv beta iota zeta in H |- *.
    destruct (bit_length (unbe (firstn (Z.to_nat ((unbe (firstn 2 i) + 7) / 8)) (skipn 2 i))) <? 65536);
      [exact H|discriminate].
  - exact H.
  - destruct (dec_strict2 fuel fa i) as [[x1 r1]|] eqn:Ea; [|discriminate].
    rewrite (IH _ _ _ Ea).
    destruct (dec_strict2 fuel fb r1) as [[y r2]|] eqn:Eb; [|discriminate].
    rewrite (IH _ _ _ Eb). exact H.
  - destruct (Nat.leb n (length i)); [|discriminate].
    destruct (Nat.leb (Z.to_nat (unbe (firstn n i))) (length (skipn n i))); [|discriminate].
    destruct (dec_strict2 fuel fa (firstn (Z.to_nat (unbe (firstn n i))) (skipn n i))) as [[x1 r1]|] eqn:Ea; [|discriminate].
    rewrite (IH _ _ _ Ea). exact H.
  - destruct (new_len_np i) as [[l rest]|] eqn:En; [|discriminate].
    rewrite (new_len_np_new_len _ _ En).
    destruct (Nat.leb (Z.to_nat l) (length rest)); [|discriminate].
    destruct (dec_strict2 fuel fa (firstn (Z.to_nat l) rest)) as [[x1 r1]|] eqn:Ea; [|discriminate].
    rewrite (IH _ _ _ Ea). exact H.
  - destruct (sub_len_np i) as [[l rest]|] eqn:En; [|discriminate].
    rewrite (sub_len_np_sub_len _ _ En).
    destruct (Nat.leb (Z.to_nat l) (length rest)); [|discriminate].
    destruct (dec_strict2 fuel fa (firstn (Z.to_nat l) rest)) as [[x1 r1]|] eqn:Ea; [|discriminate].
    rewrite (IH _ _ _ Ea). exact H.
  - destruct i as [|z t]; [exact H|].
    destruct (dec_strict2 fuel fa (z :: t)) as [[x1 r1]|] eqn:Ea; [|discriminate].
    rewrite (IH _ _ _ Ea).
    destruct (Nat.ltb (length r1) (length (z :: t))); [|discriminate].
    destruct (dec_strict2 fuel (FMany fa) r1) as [[vl r2]|] eqn:Em; [|discriminate].
    rewrite (IH _ _ _ Em). exact H.
Qed.

Corollary dec_strict2_dec fuel f i x : dec_strict2 fuel f i = Some x -> dec fuel f i = Some x.
Proof. intros H. apply dec_strict_dec, dec_strict2_dec_strict, H. Qed.

Corollary dec_strict_full_dec_full f i x : dec_strict_full f i = Some x -> dec_full f i = Some x.
Proof. apply dec_strict_dec. Qed.
Corollary dec_strict2_full_dec_strict_full f i x : dec_strict2_full f i = Some x -> dec_strict_full f i = Some x.
Proof. apply dec_strict2_dec_strict. Qed.

(* ---------- arithmetic of the primitive fields ---------- *)
Lemma wf_firstn_skipn n (l : bytes) : wf_bytes l -> wf_bytes (firstn n l) /\ wf_bytes (skipn n l).
Proof. intros H. apply wf_bytes_app. rewrite firstn_skipn. exact H. Qed.

Lemma unbe_firstn_range n (i : bytes) : wf_bytes i -> (n <= length i)%nat ->
  0 <= unbe (firstn n i) < 256 ^ Z.of_nat n.
Proof.
  intros W L. pose proof (unbe_bounds (firstn n i) (proj1 (wf_firstn_skipn n i W))) as B.
  rewrite firstn_length_le in B by exact L. exact B.
Qed.

(* a value below 256^k with an encodable bit count takes at most 2 + k octets as a multiprecision integer *)
Lemma to_mpibytes_bound v k : 0 <= k -> 0 <= v < 256 ^ k -> bit_length v < 65536 ->
  (2 <= length (to_mpibytes v) <= 2 + Z.to_nat k)%nat.
Proof.
  intros Hk Hv Hb.
  pose proof (int_byte_len_le v k Hk Hv) as L.
  pose proof (bit_length_nonneg v) as N.
  unfold to_mpibytes. rewrite app_length, length_int_to_bytes.
  assert (H2 : 256 ^ 2 = 65536) by reflexivity.
  pose proof (int_byte_len_le (bit_length v) 2 ltac:(lia) ltac:(rewrite H2; lia)) as L2.
  pose proof (int_byte_len_nonneg (bit_length v)) as N2.
  destruct (v =? 0) eqn:E; cbn [negb length].
  - lia.
  - rewrite length_int_to_bytes. change (mpi_byte_length v) with (int_byte_len v).
    pose proof (int_byte_len_nonneg v) as N3.
    assert (1 <= k).
    { destruct (Z.eq_dec k 0) as [->|Hne]; [|lia]. rewrite Z.pow_0_r in Hv. lia. }
    lia.
Qed.

(* the refusal of dec_strict2 is implied by "the value fits the declared bit count" *)
Lemma fits_declared_encodable v bits : 0 <= bits < 65536 -> 0 <= v < 2 ^ bits -> bit_length v < 65536.
Proof. intros Hb Hv. pose proof (bit_length_le v bits ltac:(lia) Hv). lia. Qed.

(* one non-partial new-format length field: the value is below 2^32, the field is a prefix, and the
   canonical field of any smaller value is no longer *)
Lemma new_len_np_bound i l rest : wf_bytes i -> new_len_np i = Some (l, rest) ->
  (Z.to_nat l <= length rest)%nat ->
  0 <= l < 4294967296 /\
  exists h, i = h ++ rest /\ (0 < length h)%nat /\
    forall l', 0 <= l' <= l -> (1 <= length (new_length l') <= length h)%nat.
Proof.
  intros W E L. unfold new_len_np in E.
  destruct i as [|fo t]; [discriminate|].
  pose proof W as W'. apply Forall_cons_iff in W' as [Hfo Wt].
  assert (NL : forall l', 0 <= l' < 4294967296 -> (1 <= length (new_length l') <= 5)%nat).
  { intros l' Hl'. rewrite new_length_len by exact Hl'.
    destruct (l' <? 192); [lia|]. destruct (l' <? 8384); lia. }
  destruct (Z_lt_ge_dec fo 192) as [C1|C1].
  { (* one octet *)
    rewrite parse_len_one in E by lia. injection E as <- <-. cbn [skipn].
    split; [lia|]. exists [fo]. split; [reflexivity|]. split; [cbn [length]; lia|].
    intros l' Hl'. rewrite new_length_1 by lia. cbn [length]. lia. }
  destruct (Z_lt_ge_dec fo 224) as [C2|C2].
  { (* two octets *)
    destruct t as [|b1 t'].
    - exfalso. unfold parse_len in E. cbn [nth_error] in E.
      destruct (192 >? fo) eqn:E1; [lia|]. destruct (224 >? fo) eqn:E2; [|lia].
      injection E as <- <-. cbn [skipn length] in L.
      match type of L with context [Z.land ?a 65280] =>
        assert (P1 : 0 <= Z.land a 65280) by (apply Z.land_nonneg; right; lia) end.
      match type of L with context [Z.land ?a 255] =>
        assert (P2 : 0 <= Z.land a 255) by (apply Z.land_nonneg; right; lia) end.
      lia.
    - apply Forall_cons_iff in Wt as [Hb1 Wt'].
      rewrite parse_len_two in E by lia. injection E as <- <-. cbn [skipn].
      split; [lia|]. exists [fo; b1]. split; [reflexivity|]. split; [cbn [length]; lia|].
      intros l' Hl'. rewrite new_length_len by lia. cbn [length].
      destruct (l' <? 192) eqn:F1; [lia|]. destruct (l' <? 8384) eqn:F2; lia. }
  destruct (Z_lt_ge_dec fo 255) as [C3|C3].
  { (* partial: refused *)
    exfalso. unfold parse_len in E. cbn [nth_error] in E.
    destruct (192 >? fo) eqn:E1; [lia|]. destruct (224 >? fo) eqn:E2; [lia|].
    destruct (255 >? fo) eqn:E3; [|lia]. discriminate. }
  (* five octets, clamped like a Python slice when cut short *)
  unfold parse_len in E. cbn [nth_error] in E.
  destruct (192 >? fo) eqn:E1; [lia|]. destruct (224 >? fo) eqn:E2; [lia|].
  destruct (255 >? fo) eqn:E3; [lia|].
  assert (S1 : slice (0 + 1) (0 + 5) (fo :: t) = firstn 4 t) by reflexivity.
  assert (S2 : skipn 5 (fo :: t) = skipn 4 t) by reflexivity.
  rewrite S1, S2 in E. clear S1 S2.
  assert (El : l = unbe (firstn 4 t)) by congruence.
  assert (Er : rest = skipn 4 t) by congruence. clear E. subst l rest.
  pose proof (unbe_bounds (firstn 4 t) (proj1 (wf_firstn_skipn 4 t Wt))) as B.
  pose proof (firstn_le_length 4 t) as F4.
  assert (P4 : 256 ^ Z.of_nat (length (firstn 4 t)) <= 256 ^ 4) by (apply pow256_mono; lia).
  assert (H4 : 256 ^ 4 = 4294967296) by reflexivity.
  split; [lia|]. exists (fo :: firstn 4 t). split; [cbn [app]; rewrite firstn_skipn; reflexivity|].
  split; [cbn [length]; lia|].
  intros l' Hl'. pose proof (NL l' ltac:(lia)) as K. split; [lia|].
  destruct (Z_lt_ge_dec l' 192) as [D|D].
  - rewrite new_length_1 by lia. cbn [length]. lia.
  - rewrite skipn_length in L. cbn [length]. rewrite firstn_length. lia.
Qed.

(* injection without the reductions the injection tactic performs *)
Lemma some_pair_inv {A B} (a a' : A) (b b' : B) : Some (a, b) = Some (a', b') -> a' = a /\ b' = b.
Proof. intros H. injection H as <- <-. split; reflexivity. Qed.

(* one subpacket length field, first octet not 224..254: as new_len_np_bound *)
Lemma sub_len_np_bound i l rest : wf_bytes i -> sub_len_np i = Some (l, rest) ->
  (Z.to_nat l <= length rest)%nat ->
  0 <= l < 4294967296 /\
  exists h, i = h ++ rest /\ (0 < length h)%nat /\
    forall l', 0 <= l' <= l -> (1 <= length (sub_length l') <= length h)%nat.
Proof.
  intros W E L.
  destruct i as [|fo t]; [discriminate|].
  pose proof W as W'. apply Forall_cons_iff in W' as [Hfo Wt].
  unfold sub_len_np in E.
  destruct ((224 <=? fo) && (fo <? 255)) eqn:C; [discriminate|].
  unfold sub_len in E.
  destruct ((192 <=? fo) && (fo <? 255)) eqn:C2.
  - (* two octets, first octet 192..223: 192..8383 *)
    destruct t as [|p1 t']; [discriminate|].
    apply Forall_cons_iff in Wt as [Hp1 Wt'].
    apply some_pair_inv in E as [-> ->].
    rewrite Z.shiftl_mul_pow2 by lia. assert (H8 : 2 ^ 8 = 256) by reflexivity. rewrite H8.
    split; [lia|]. exists [fo; p1]. split; [reflexivity|]. split; [cbn [length]; lia|].
    intros l' Hl'. rewrite sub_length_new_length, new_length_len by lia. cbn [length].
    destruct (l' <? 192) eqn:F1; [lia|]. destruct (l' <? 8384) eqn:F2; lia.
  - (* one or five octets: the packet rule *)
    assert (En : new_len_np (fo :: t) = Some (l, rest)).
    { unfold new_len in E. unfold new_len_np.
      destruct (parse_len (fo :: t) 0) as [[[pl sz] pa]|] eqn:P; [|discriminate].
      destruct pa; [|exact E].
      exfalso. unfold parse_len in P. cbn [nth_error] in P.
      destruct (192 >? fo) eqn:E1; [discriminate|]. destruct (224 >? fo) eqn:E2; [discriminate|].
      destruct (255 >? fo) eqn:E3; [lia|discriminate]. }
    exact (new_len_np_bound _ _ _ W En L).
Qed.

(* ---------- the induction: decoded by dec_strict2, then re-encoded ---------- *)
(* c is what was consumed: the input is c ++ r, the re-encoding b is no longer than c, and a
   non-empty consumption re-encodes to a non-empty string (needed under FMany) *)
Theorem dec_strict2_enc_inv : forall fuel f i v r,
  wf_bytes i -> dec_strict2 fuel f i = Some (v, r) ->
  exists b c, enc f v = Some b /\ i = c ++ r /\ (length b <= length c)%nat /\
              (0 < length c -> 0 < length b)%nat.
Proof.
  induction fuel as [|fuel IH]; intros f i v r W H; [discriminate|].
  destruct f as [n|n|c| | |fa fb|n fa|fa|fa|fa]; cbn [dec_strict2] in H.
  - (* FBE *)
    destruct (Nat.leb n (length i)) eqn:E; [|discriminate]. apply Nat.leb_le in E.
    apply some_pair_inv in H as [-> ->].
    pose proof (unbe_firstn_range n i W E) as B.
    exists (be n (unbe (firstn n i))), (firstn n i). cbn [enc].
    destruct ((0 <=? unbe (firstn n i)) && (unbe (firstn n i) <? 256 ^ Z.of_nat n)) eqn:E2; [|lia].
    split; [reflexivity|]. split; [symmetry; apply firstn_skipn|].
    rewrite length_be, firstn_length_le by exact E. lia.
  - (* FFixed *)
    destruct (Nat.leb n (length i)) eqn:E; [|discriminate]. apply Nat.leb_le in E.
    apply some_pair_inv in H as [-> ->].
    exists (firstn n i), (firstn n i). cbn [enc].
    rewrite firstn_length_le by exact E. rewrite Nat.eqb_refl.
    split; [reflexivity|]. split; [symmetry; apply firstn_skipn|]. lia.
  - (* FConst *)
    destruct (eqb_bytes (firstn (length c) i) c) eqn:E; [|discriminate]. apply eqb_bytes_eq in E.
    apply some_pair_inv in H as [-> ->].
    exists c, c. cbn [enc]. rewrite eqb_bytes_refl.
    split; [reflexivity|]. split; [|lia].
    pose proof (firstn_skipn (length c) i) as K. rewrite E in K. symmetry. exact K.
  - (* FMPI *)
    destruct (Nat.leb 2 (length i) && Nat.leb (Z.to_nat ((unbe (firstn 2 i) + 7) / 8)) (length (skipn 2 i))) eqn:E;
      [|discriminate].
    apply andb_prop in E as [E1 E2]. apply Nat.leb_le in E1. apply Nat.leb_le in E2.
    unfold mpi_parse in H. cbv beta iota zeta in H.
    pose proof (unbe_firstn_range 2 i W E1) as B2.
    set (fl := (unbe (firstn 2 i) + 7) / 8) in *.
    assert (Hfl : 0 <= fl) by (unfold fl; lia).
    pose proof (unbe_firstn_range (Z.to_nat fl) (skipn 2 i) (proj2 (wf_firstn_skipn 2 i W)) E2) as Bv.
    rewrite Z2Nat.id in Bv by lia.
    set (val := unbe (firstn (Z.to_nat fl) (skipn 2 i))) in *.
    destruct (bit_length val <? 65536) eqn:E3; [|discriminate].
    apply some_pair_inv in H as [-> ->].
    pose proof (to_mpibytes_bound val fl Hfl Bv ltac:(lia)) as Hlen.
    exists (to_mpibytes val), (firstn 2 i ++ firstn (Z.to_nat fl) (skipn 2 i)). cbn [enc].
    destruct ((0 <=? val) && (bit_length val <? 65536)) eqn:E4; [|lia].
    split; [reflexivity|].
    split; [rewrite <- app_assoc, !firstn_skipn; reflexivity|].
    rewrite app_length, !firstn_length_le by assumption. lia.
  - (* FRest *)
    apply some_pair_inv in H as [-> ->]. exists i, i. cbn [enc].
    split; [reflexivity|]. split; [symmetry; apply app_nil_r|]. lia.
  - (* FSeq *)
    destruct (dec_strict2 fuel fa i) as [[x r1]|] eqn:Ea; [|discriminate].
    destruct (dec_strict2 fuel fb r1) as [[y r2]|] eqn:Eb; [|discriminate].
    apply some_pair_inv in H as [-> ->].
    destruct (IH _ _ _ _ W Ea) as [p [c1 [Ep [Hi1 [L1 N1]]]]].
    assert (W1 : wf_bytes r1) by (rewrite Hi1 in W; apply wf_bytes_app in W; apply W).
    destruct (IH _ _ _ _ W1 Eb) as [q [c2 [Eq [Hi2 [L2 N2]]]]].
    exists (p ++ q), (c1 ++ c2). cbn [enc]. rewrite Ep, Eq.
    split; [reflexivity|]. split; [rewrite Hi1, Hi2; apply app_assoc|].
    rewrite !app_length. lia.
  - (* FLen *)
    destruct (Nat.leb n (length i)) eqn:E; [|discriminate]. apply Nat.leb_le in E.
    destruct (Nat.leb (Z.to_nat (unbe (firstn n i))) (length (skipn n i))) eqn:E2; [|discriminate].
    apply Nat.leb_le in E2.
    destruct (dec_strict2 fuel fa (firstn (Z.to_nat (unbe (firstn n i))) (skipn n i))) as [[x r0]|] eqn:Ea;
      [|discriminate].
    destruct r0 as [|z0 r0]; [|discriminate]. apply some_pair_inv in H as [-> ->].
    pose proof (unbe_firstn_range n i W E) as B.
    set (len := Z.to_nat (unbe (firstn n i))) in *.
    assert (Wr : wf_bytes (firstn len (skipn n i))).
    { apply wf_firstn_skipn. apply (wf_firstn_skipn n i W). }
    destruct (IH _ _ _ _ Wr Ea) as [p [c0 [Ep [Hi0 [L0 N0]]]]].
    assert (Hc0 : length c0 = len).
    { rewrite app_nil_r in Hi0. rewrite <- Hi0. apply firstn_length_le. exact E2. }
    exists (be n (Z.of_nat (length p)) ++ p), (firstn n i ++ firstn len (skipn n i)). cbn [enc]. rewrite Ep.
    destruct (Z.of_nat (length p) <? 256 ^ Z.of_nat n) eqn:E3; [|lia].
    split; [reflexivity|].
    split; [rewrite <- app_assoc, !firstn_skipn; reflexivity|].
    rewrite !app_length, length_be, !firstn_length_le by assumption.
    split; [lia|]. intros Hpos.
    destruct n as [|n']; [|lia].
    rewrite Z.pow_0_r in B. lia.
  - (* FNewLen *)
    destruct (new_len_np i) as [[l rest]|] eqn:En; [|discriminate].
    destruct (Nat.leb (Z.to_nat l) (length rest)) eqn:E2; [|discriminate]. apply Nat.leb_le in E2.
    destruct (dec_strict2 fuel fa (firstn (Z.to_nat l) rest)) as [[x r0]|] eqn:Ea; [|discriminate].
    destruct r0 as [|z0 r0]; [|discriminate]. apply some_pair_inv in H as [-> ->].
    destruct (new_len_np_bound i l rest W En E2) as [Bl [h [Hi [Hh NLh]]]].
    assert (Wrest : wf_bytes rest) by (rewrite Hi in W; apply wf_bytes_app in W; apply W).
    assert (Wr : wf_bytes (firstn (Z.to_nat l) rest)) by (apply wf_firstn_skipn; exact Wrest).
    destruct (IH _ _ _ _ Wr Ea) as [p [c0 [Ep [Hi0 [L0 N0]]]]].
    assert (Hc0 : length c0 = Z.to_nat l).
    { rewrite app_nil_r in Hi0. rewrite <- Hi0. apply firstn_length_le. exact E2. }
    pose proof (NLh (Z.of_nat (length p)) ltac:(lia)) as K.
    exists (new_length (Z.of_nat (length p)) ++ p), (h ++ firstn (Z.to_nat l) rest). cbn [enc]. rewrite Ep.
    destruct (Z.of_nat (length p) <? 4294967296) eqn:E3; [|lia].
    split; [reflexivity|].
    split; [rewrite <- app_assoc, firstn_skipn; exact Hi|].
    rewrite !app_length, firstn_length_le by assumption. lia.
  - (* FSubLen *)
    destruct (sub_len_np i) as [[l rest]|] eqn:En; [|discriminate].
    destruct (Nat.leb (Z.to_nat l) (length rest)) eqn:E2; [|discriminate]. apply Nat.leb_le in E2.
    destruct (dec_strict2 fuel fa (firstn (Z.to_nat l) rest)) as [[x r0]|] eqn:Ea; [|discriminate].
    destruct r0 as [|z0 r0]; [|discriminate]. apply some_pair_inv in H as [-> ->].
    destruct (sub_len_np_bound i l rest W En E2) as [Bl [h [Hi [Hh NLh]]]].
    assert (Wrest : wf_bytes rest) by (rewrite Hi in W; apply wf_bytes_app in W; apply W).
    assert (Wr : wf_bytes (firstn (Z.to_nat l) rest)) by (apply wf_firstn_skipn; exact Wrest).
    destruct (IH _ _ _ _ Wr Ea) as [p [c0 [Ep [Hi0 [L0 N0]]]]].
    assert (Hc0 : length c0 = Z.to_nat l).
    { rewrite app_nil_r in Hi0. rewrite <- Hi0. apply firstn_length_le. exact E2. }
    pose proof (NLh (Z.of_nat (length p)) ltac:(lia)) as K.
    exists (sub_length (Z.of_nat (length p)) ++ p), (h ++ firstn (Z.to_nat l) rest). cbn [enc]. rewrite Ep.
    destruct (Z.of_nat (length p) <? 4294967296) eqn:E3; [|lia].
    split; [reflexivity|].
    split; [rewrite <- app_assoc, firstn_skipn; exact Hi|].
    rewrite !app_length, firstn_length_le by assumption. lia.
  - (* FMany *)
    destruct i as [|z t].
    { apply some_pair_inv in H as [-> ->]. exists [], []. split; [reflexivity|]. split; [reflexivity|]. cbn [length]. lia. }
    destruct (dec_strict2 fuel fa (z :: t)) as [[x r1]|] eqn:Ea; [|discriminate].
    destruct (Nat.ltb (length r1) (length (z :: t))) eqn:Elt; [|discriminate]. apply Nat.ltb_lt in Elt.
    destruct (dec_strict2 fuel (FMany fa) r1) as [[vl r2]|] eqn:Em; [|discriminate].
    destruct vl as [| | |l]; try discriminate. apply some_pair_inv in H as [-> ->].
    destruct (IH _ _ _ _ W Ea) as [p [c1 [Ep [Hi1 [L1 N1]]]]].
    assert (W1 : wf_bytes r1) by (rewrite Hi1 in W; apply wf_bytes_app in W; apply W).
    destruct (IH _ _ _ _ W1 Em) as [q [c2 [Eq [Hi2 [L2 N2]]]]].
    assert (Hc1 : (0 < length c1)%nat).
    { rewrite Hi1 in Elt. rewrite app_length in Elt. lia. }
    exists (p ++ q), (c1 ++ c2). rewrite many_enc_cons, Ep, Eq.
    destruct (Nat.eqb (length p) 0) eqn:E0; [apply Nat.eqb_eq in E0; lia|].
    split; [reflexivity|]. split; [rewrite Hi1, Hi2; apply app_assoc|].
    rewrite !app_length. lia.
Qed.

(* the statement asked for, for dec_strict2 (partial body lengths and 65536-bit values refused as well)
   (the hypothesis wf m f = true is kept for citation; it is not used) *)
Theorem dec_strict_enc_defined_partial : forall fuel f m i v r,
  wf m f = true -> wf_bytes i -> dec_strict2 fuel f i = Some (v, r) ->
  exists b, enc f v = Some b /\ (length b + length r <= length i)%nat.
Proof.
  intros fuel f m i v r _ W H.
  destruct (dec_strict2_enc_inv fuel f i v r W H) as [b [c [Eb [Hi [L _]]]]].
  exists b. split; [exact Eb|]. rewrite Hi, app_length. lia.
Qed.

(* the remaining data is literally a suffix of the input, and is left alone *)
Corollary dec_strict2_suffix fuel f i v r : wf_bytes i -> dec_strict2 fuel f i = Some (v, r) ->
  exists c, i = c ++ r.
Proof.
  intros W H. destruct (dec_strict2_enc_inv fuel f i v r W H) as [b [c [_ [Hi _]]]]. exists c. exact Hi.
Qed.

Theorem foreign_normalises_once_partial : forall f i v r,
  In f all_formats -> wf_bytes i -> dec_strict2_full f i = Some (v, r) ->
  exists b, enc f v = Some b /\ (length b + length r <= length i)%nat /\
    dec_full f (b ++ r) = Some (v, r) /\
    (exists v', dec_full f (b ++ r) = Some (v', r) /\ enc f v' = Some b).
Proof.
  intros f i v r Hin W H. unfold dec_strict2_full in H.
  destruct (dec_strict_enc_defined_partial _ f true i v r
              (proj1 (forallb_forall (wf true) all_formats) all_formats_wf f Hin) W H) as [b [Eb L]].
  exists b. split; [exact Eb|]. split; [exact L|].
  split; [apply packet_emit_parse; assumption|exact (packet_emit_parse_emit f v b r Hin Eb)].
Qed.

(* and the accepted input itself decodes, tolerantly, to the same value *)
Corollary foreign_normalises_once_partial_dec f i v r :
  dec_strict2_full f i = Some (v, r) -> dec_strict_full f i = Some (v, r) /\ dec_full f i = Some (v, r).
Proof.
  intros H. split; [apply dec_strict2_full_dec_strict_full; exact H|].
  apply dec_strict_full_dec_full, dec_strict2_full_dec_strict_full, H.
Qed.

(* ---------- dec_strict2 is not vacuous: it accepts everything the encoder writes ---------- *)
Lemma to_mpibytes_shape z : 0 <= z -> bit_length z < 65536 ->
  exists body, to_mpibytes z = be 2 (bit_length z) ++ body /\ length body = Z.to_nat ((bit_length z + 7) / 8).
Proof.
  intros Hz Hb. pose proof (bit_length_nonneg z) as N.
  assert (H2 : 256 ^ 2 = 65536) by reflexivity.
  unfold to_mpibytes. rewrite (int_to_bytes_fits (bit_length z) 2) by (rewrite ?H2; lia).
  change (Z.to_nat 2) with 2%nat.
  destruct (z =? 0) eqn:E; cbn [negb].
  - assert (z = 0) by lia. subst z. exists []. split; reflexivity.
  - exists (int_to_bytes z (mpi_byte_length z)). split; [reflexivity|].
    rewrite length_int_to_bytes. change (int_byte_len z) with (mpi_byte_length z).
    pose proof (mpi_byte_length_pos z ltac:(lia)) as P. unfold mpi_byte_length in *. lia.
Qed.

Lemma new_len_np_roundtrip n r : 0 <= n < 4294967296 -> new_len_np (new_length n ++ r) = Some (n, r).
Proof.
  intros H. destruct (new_length_parse n H) as [sz [P Hsz]].
  unfold new_len_np. rewrite (parse_len_app _ r n sz P) by lia.
  rewrite skipn_app_exact by auto. reflexivity.
Qed.

Lemma sub_len_np_roundtrip n r : 0 <= n < 4294967296 -> sub_len_np (sub_length n ++ r) = Some (n, r).
Proof.
  intros H. pose proof (sub_len_roundtrip n r H) as K. rewrite sub_length_new_length in *.
  destruct (Z_lt_ge_dec n 192) as [C1|C1].
  { rewrite new_length_1 in * by lia. cbn [app] in *. unfold sub_len_np.
    destruct ((224 <=? n) && (n <? 255)) eqn:E; [lia|exact K]. }
  destruct (Z_lt_ge_dec n 8384) as [C2|C2].
  { rewrite new_length_2 in * by lia. cbn [app] in *. unfold sub_len_np.
    assert (B : 0 <= (n - 192) / 256 < 32) by (split; [apply Z.div_pos; lia|apply Z.div_lt_upper_bound; lia]).
    destruct ((224 <=? (n - 192) / 256 + 192) && ((n - 192) / 256 + 192 <? 255)) eqn:E; [lia|exact K]. }
  rewrite new_length_5 in * by lia. cbn [app] in *. unfold sub_len_np.
  destruct ((224 <=? 255) && (255 <? 255)) eqn:E; [discriminate E|exact K].
Qed.

Theorem dec_strict2_enc : forall fuel f m v b r,
  wf m f = true -> enc f v = Some b -> (fuel > depth f + length (inp m b r))%nat ->
  dec_strict2 fuel f (inp m b r) = Some (v, out m r).
Proof.
  induction fuel as [|fuel IH]; intros f m v b r Hwf He Hf; [lia|].
  destruct f as [n|n|c| | |fa fb|n fa|fa|fa|fa].
  - (* FBE *)
    destruct v as [z| | |]; try discriminate. cbn in He.
    destruct ((0 <=? z) && (z <? 256 ^ Z.of_nat n)) eqn:E; [|discriminate]. injection He as <-.
    apply andb_prop in E as [E1 E2]. apply Z.leb_le in E1. apply Z.ltb_lt in E2.
    cbn [dec_strict2]. destruct m; cbn [inp out] in *.
    + rewrite app_length, length_be.
      replace (Nat.leb n (n + length r)) with true by (symmetry; apply Nat.leb_le; lia).
      rewrite firstn_app_exact, skipn_app_exact by apply length_be. rewrite unbe_be by lia. reflexivity.
    + rewrite length_be, Nat.leb_refl.
      rewrite <- (app_nil_r (be n z)).
      rewrite firstn_app_exact, skipn_app_exact by apply length_be. rewrite unbe_be by lia. reflexivity.
  - (* FFixed *)
    destruct v as [|bb| |]; try discriminate. cbn in He.
    destruct (Nat.eqb (length bb) n) eqn:E; [|discriminate]. injection He as <-. apply Nat.eqb_eq in E.
    cbn [dec_strict2]. destruct m; cbn [inp out] in *.
    + rewrite app_length. replace (Nat.leb n (length bb + length r)) with true by (symmetry; apply Nat.leb_le; lia).
      rewrite firstn_app_exact, skipn_app_exact by assumption. reflexivity.
    + rewrite <- E, Nat.leb_refl, firstn_all, skipn_all. reflexivity.
  - (* FConst *)
    destruct v as [|bb| |]; try discriminate. cbn [enc] in He.
    destruct (eqb_bytes bb c) eqn:E; [|discriminate]. injection He as <-. apply eqb_bytes_eq in E. subst bb.
    cbn [dec_strict2]. destruct m; cbn [inp out] in *.
    + rewrite firstn_app_exact, skipn_app_exact by reflexivity. rewrite eqb_bytes_refl. reflexivity.
    + rewrite firstn_all, skipn_all. rewrite eqb_bytes_refl. reflexivity.
  - (* FMPI *)
    destruct v as [z| | |]; try discriminate. cbn [enc] in He.
    destruct ((0 <=? z) && (bit_length z <? 65536)) eqn:E; [|discriminate]. injection He as <-.
    apply andb_prop in E as [E1 E2]. apply Z.leb_le in E1. apply Z.ltb_lt in E2.
    cbn [dec_strict2].
    assert (Hin : inp m (to_mpibytes z) r = to_mpibytes z ++ out m r).
    { destruct m; cbn [inp out]; [reflexivity|symmetry; apply app_nil_r]. }
    rewrite Hin. rewrite mpi_roundtrip by assumption. cbv beta iota.
    replace (bit_length z <? 65536) with true by lia.
    destruct (to_mpibytes_shape z E1 E2) as [body [Hs Hl]]. rewrite Hs. rewrite <- app_assoc.
    rewrite firstn_app_exact, skipn_app_exact by apply length_be.
    pose proof (bit_length_nonneg z) as N.
    assert (H2 : 256 ^ Z.of_nat 2 = 65536) by reflexivity.
    rewrite unbe_be by (rewrite H2; lia).
    rewrite !app_length, length_be, Hl.
    destruct (Nat.leb 2 (2 + (Z.to_nat ((bit_length z + 7) / 8) + length (out m r))) &&
              Nat.leb (Z.to_nat ((bit_length z + 7) / 8)) (Z.to_nat ((bit_length z + 7) / 8) + length (out m r))) eqn:E3;
      [reflexivity|].
    apply andb_false_iff in E3 as [E3|E3]; apply Nat.leb_gt in E3; lia.
  - (* FRest *)
    destruct m; [discriminate|]. destruct v as [|bb| |]; try discriminate. injection He as <-. reflexivity.
  - (* FSeq *)
    destruct v as [| |x y|]; try discriminate. cbn [enc] in He.
    destruct (enc fa x) as [p|] eqn:Ea; [|discriminate]. destruct (enc fb y) as [q|] eqn:Eb; [|discriminate].
    injection He as <-. cbn [wf] in Hwf. apply andb_prop in Hwf as [Wa Wb]. cbn [depth] in Hf.
    cbn [dec_strict2].
    assert (Hin : inp m (p ++ q) r = inp true p (inp m q r)) by (destruct m; cbn [inp]; [apply app_assoc_reverse|reflexivity]).
    rewrite Hin in *.
    rewrite (IH fa true x p (inp m q r) Wa Ea) by (cbn [inp] in *; lia). cbn [out].
    rewrite (IH fb m y q r Wb Eb).
    + reflexivity.
    + cbn [inp] in Hf. rewrite app_length in Hf. lia.
  - (* FLen *)
    cbn [enc] in He. destruct (enc fa v) as [p|] eqn:Ea; [|discriminate].
    destruct (Z.of_nat (length p) <? 256 ^ Z.of_nat n) eqn:E; [|discriminate]. injection He as <-.
    apply Z.ltb_lt in E. cbn [wf] in Hwf. cbn [depth] in Hf.
    assert (Hw : wf false fa = true) by (destruct m; exact Hwf).
    cbn [dec_strict2].
    assert (Hin : inp m (be n (Z.of_nat (length p)) ++ p) r = be n (Z.of_nat (length p)) ++ (p ++ out m r)).
    { destruct m; cbn [inp out]; [apply app_assoc_reverse| rewrite app_nil_r; reflexivity]. }
    rewrite Hin in *. rewrite app_length, length_be in *.
    replace (Nat.leb n (n + length (p ++ out m r))) with true by (symmetry; apply Nat.leb_le; lia).
    rewrite firstn_app_exact, skipn_app_exact by apply length_be.
    rewrite unbe_be by lia. rewrite Nat2Z.id.
    rewrite app_length. replace (Nat.leb (length p) (length p + length (out m r))) with true by (symmetry; apply Nat.leb_le; lia).
    rewrite firstn_app_exact, skipn_app_exact by reflexivity.
    pose proof (IH fa false v p [] Hw Ea) as K. cbn [inp out] in K. rewrite K.
    + reflexivity.
    + rewrite app_length in Hf. lia.
  - (* FNewLen *)
    cbn [enc] in He. destruct (enc fa v) as [p|] eqn:Ea; [|discriminate].
    destruct (Z.of_nat (length p) <? 4294967296) eqn:E; [|discriminate]. injection He as <-.
    apply Z.ltb_lt in E. cbn [wf] in Hwf. cbn [depth] in Hf.
    assert (Hw : wf false fa = true) by (destruct m; exact Hwf).
    cbn [dec_strict2].
    assert (Hin : inp m (new_length (Z.of_nat (length p)) ++ p) r = new_length (Z.of_nat (length p)) ++ (p ++ out m r)).
    { destruct m; cbn [inp out]; [apply app_assoc_reverse| rewrite app_nil_r; reflexivity]. }
    rewrite Hin in *.
    rewrite new_len_np_roundtrip by lia. rewrite Nat2Z.id.
    rewrite app_length. replace (Nat.leb (length p) (length p + length (out m r))) with true by (symmetry; apply Nat.leb_le; lia).
    rewrite firstn_app_exact, skipn_app_exact by reflexivity.
    pose proof (IH fa false v p [] Hw Ea) as K. cbn [inp out] in K. rewrite K.
    + reflexivity.
    + rewrite !app_length in Hf. lia.
  - (* FSubLen *)
    cbn [enc] in He. destruct (enc fa v) as [p|] eqn:Ea; [|discriminate].
    destruct (Z.of_nat (length p) <? 4294967296) eqn:E; [|discriminate]. injection He as <-.
    apply Z.ltb_lt in E. cbn [wf] in Hwf. cbn [depth] in Hf.
    assert (Hw : wf false fa = true) by (destruct m; exact Hwf).
    cbn [dec_strict2].
    assert (Hin : inp m (sub_length (Z.of_nat (length p)) ++ p) r = sub_length (Z.of_nat (length p)) ++ (p ++ out m r)).
    { destruct m; cbn [inp out]; [apply app_assoc_reverse| rewrite app_nil_r; reflexivity]. }
    rewrite Hin in *.
    rewrite sub_len_np_roundtrip by lia. rewrite Nat2Z.id.
    rewrite app_length. replace (Nat.leb (length p) (length p + length (out m r))) with true by (symmetry; apply Nat.leb_le; lia).
    rewrite firstn_app_exact, skipn_app_exact by reflexivity.
    pose proof (IH fa false v p [] Hw Ea) as K. cbn [inp out] in K. rewrite K.
    + reflexivity.
    + rewrite !app_length in Hf. lia.
  - (* FMany *)
    destruct m; [discriminate|]. cbn [wf] in Hwf. cbn [inp out] in *. cbn [depth] in Hf.
    destruct v as [| | |l]; try discriminate.
    destruct l as [|x l].
    + rewrite many_enc_nil in He. injection He as <-. reflexivity.
    + rewrite many_enc_cons in He.
      destruct (enc fa x) as [p|] eqn:Ea; [|discriminate].
      destruct (enc (FMany fa) (VL l)) as [q|] eqn:Eq; [|discriminate].
      destruct (Nat.eqb (length p) 0) eqn:E0; [discriminate|]. injection He as <-. apply Nat.eqb_neq in E0.
      cbn [dec_strict2]. destruct (p ++ q) as [|c t] eqn:Epq.
      { destruct p; [contradiction|discriminate]. }
      rewrite <- Epq in *. clear c t Epq.
      pose proof (IH fa true x p q Hwf Ea) as K. cbn [inp out] in K. rewrite K by lia.
      rewrite app_length. replace (Nat.ltb (length q) (length p + length q)) with true by (symmetry; apply Nat.ltb_lt; lia).
      pose proof (IH (FMany fa) false (VL l) q [] Hwf Eq) as K2. cbn [inp out] in K2. rewrite K2.
      * reflexivity.
      * rewrite app_length in Hf. cbn [depth]. lia.
Qed.

Corollary dec_strict2_full_enc f v b r : In f all_formats -> enc f v = Some b ->
  dec_strict2_full f (b ++ r) = Some (v, r).
Proof.
  intros Hin He. unfold dec_strict2_full.
  apply (dec_strict2_enc _ f true v b r
           (proj1 (forallb_forall (wf true) all_formats) all_formats_wf f Hin) He). cbn [inp]. lia.
Qed.

(* the normalised form is accepted by the strict decoder too: a fixed point of strict decode / encode *)
Corollary foreign_normalises_once_partial_strict f i v r :
  In f all_formats -> wf_bytes i -> dec_strict2_full f i = Some (v, r) ->
  exists b, enc f v = Some b /\ (length b + length r <= length i)%nat /\
    dec_strict2_full f (b ++ r) = Some (v, r).
Proof.
  intros Hin W H. destruct (foreign_normalises_once_partial f i v r Hin W H) as [b [Eb [L _]]].
  exists b. split; [exact Eb|]. split; [exact L|]. apply dec_strict2_full_enc; assumption.
Qed.

(* ---------- a foreign encoding that meets the hypotheses ---------- *)
(* RSA public key packet, not in PGPy's own form: five-octet body length (PGPy: one octet), modulus
   200 declared with 16 bits (PGPy: 8 bits, one octet less), exponent 65537 declared with 24 bits
   (PGPy: 17), followed by three octets of other data *)
Definition ex_in : bytes :=
  [198; 255; 0; 0; 0; 15;  4;  95; 94; 16; 0;  1;  0; 16; 0; 200;  0; 24; 1; 0; 1] ++ [1; 2; 3].
Definition ex_val : value :=
  VP (VB [198]) (VP (VB [4]) (VP (VZ 1600000000) (VP (VB [1]) (VP (VZ 200) (VZ 65537))))).
Definition ex_out : bytes := [198; 14;  4;  95; 94; 16; 0;  1;  0; 8; 200;  0; 17; 1; 0; 1].

Example foreign_example :
  In (f_pubkey 6 pub_rsa) all_formats /\ wf_bytes ex_in /\
  dec_strict2_full (f_pubkey 6 pub_rsa) ex_in = Some (ex_val, [1; 2; 3]) /\
  dec_strict_full (f_pubkey 6 pub_rsa) ex_in = Some (ex_val, [1; 2; 3]) /\
  enc (f_pubkey 6 pub_rsa) ex_val = Some ex_out /\
  (length ex_out + length [1; 2; 3] < length ex_in)%nat /\
  dec_full (f_pubkey 6 pub_rsa) (ex_out ++ [1; 2; 3]) = Some (ex_val, [1; 2; 3]).
Proof.
  split; [unfold all_formats, named_formats; cbn [map snd]; repeat (try (left; reflexivity); right)|].
  split; [apply wfb_iff; vm_compute; reflexivity|].
  split; [vm_compute; reflexivity|].
  split; [vm_compute; reflexivity|].
  split; [vm_compute; reflexivity|].
  split; [apply Nat.ltb_lt; vm_compute; reflexivity|].
  vm_compute. reflexivity.
Qed.

(* the general theorem applied to it *)
Example foreign_example_normalises :
  exists b, enc (f_pubkey 6 pub_rsa) ex_val = Some b /\ (length b + 3 <= length ex_in)%nat /\
    dec_full (f_pubkey 6 pub_rsa) (b ++ [1; 2; 3]) = Some (ex_val, [1; 2; 3]).
Proof.
  destruct foreign_example as [Hin [W [D _]]].
  destruct (foreign_normalises_once_partial _ _ _ _ Hin W D) as [b [Eb [L [P _]]]].
  exists b. split; [exact Eb|]. split; [exact L|exact P].
Qed.

Print Assumptions dec_strict_dec.
Print Assumptions dec_strict2_dec_strict.
Print Assumptions dec_strict2_enc_inv.
Print Assumptions dec_strict_enc_defined_partial.
Print Assumptions foreign_normalises_once_partial.
Print Assumptions dec_strict2_enc.
Print Assumptions foreign_normalises_once_partial_strict.
Print Assumptions foreign_example.
Print Assumptions foreign_example_normalises.
