(* The refutations belonging to Proofs/Fmt_lemmas2.v (why the unrestricted "foreign input normalises once" statement is false of the
   model), kept in a file of their own: the witnesses are 65537-octet inputs and a 65536-bit integer, evaluated with vm_compute
   (24 s for coqc); coqchk re-evaluates them with its own, much slower, reduction, so this file is checked by coqchk separately
   from the closure of Props/C08.v (see DESIGN.md 10.6). *)
From Coq Require Import ZArith List Bool Lia ZifyBool ZifyNat.
Import ListNotations.
Require Import PV.Lib.Bytes PV.Lib.BytesLemmas PV.Model.Wire PV.Proofs.Wire_lemmas PV.Proofs.Wire_lemmas2.
Require Import PV.Model.Fmt PV.Model.FmtStrict PV.Model.Packets PV.Proofs.Fmt_lemmas PV.Proofs.Packets_lemmas.
Open Scope Z_scope.
Require Import PV.Proofs.Fmt_lemmas2.

(* ---------- refutation of the statement for dec_strict (partial body lengths) ---------- *)
Lemma in_all_userid : In f_userid all_formats.
Proof. unfold all_formats, named_formats. cbn [map snd]. repeat (try (left; reflexivity); right). Qed.
Lemma in_all_subarea : In f_subarea all_formats.
Proof. unfold all_formats, named_formats. cbn [map snd]. repeat (try (left; reflexivity); right). Qed.

(* boolean checkers, so that vm_compute only has to return a boolean (the decoded values are never
   read back: one of them is a 65536-bit number) *)
Definition chk_undefined (fuel : nat) (f : fmt) (i : bytes) : bool :=
  wfb i && match dec_strict fuel f i with
           | Some (v, r) => match enc f v with None => true | Some _ => false end
           | None => false end.
Definition chk_longer (fuel : nat) (f : fmt) (i : bytes) : bool :=
  wfb i && match dec_strict fuel f i with
           | Some (v, r) => match enc f v with Some b => Nat.ltb (length i) (length b + length r) | None => false end
           | None => false end.
Lemma chk_undefined_sound fuel f i : chk_undefined fuel f i = true ->
  wf_bytes i /\ exists v r, dec_strict fuel f i = Some (v, r) /\ enc f v = None.
Proof.
  unfold chk_undefined. intros H. apply andb_prop in H as [H1 H2]. split; [apply wfb_iff; exact H1|].
  destruct (dec_strict fuel f i) as [[v r]|]; [|discriminate].
  destruct (enc f v) as [b|] eqn:E; [discriminate|]. exists v, r. split; [reflexivity|exact E].
Qed.
Lemma chk_longer_sound fuel f i : chk_longer fuel f i = true ->
  wf_bytes i /\ exists v r b, dec_strict fuel f i = Some (v, r) /\ enc f v = Some b /\ (length i < length b + length r)%nat.
Proof.
  unfold chk_longer. intros H. apply andb_prop in H as [H1 H2]. split; [apply wfb_iff; exact H1|].
  destruct (dec_strict fuel f i) as [[v r]|]; [|discriminate].
  destruct (enc f v) as [b|] eqn:E; [|discriminate]. apply Nat.ltb_lt in H2.
  exists v, r, b. split; [reflexivity|]. split; [exact E|exact H2].
Qed.

(* user id packet: tag octet, partial length 2^13, 8192 octets, final two-octet length 192, 192 octets:
   8388 octets in, 1 + 5 + 8384 = 8390 octets out *)
Definition w_len : bytes := [205; 237] ++ repeat 7 (Z.to_nat 8192) ++ [192; 0] ++ repeat 7 (Z.to_nat 192).

(* signature subpacket area, two-octet count 65535, no partial length anywhere: four subpackets of 16319
   body octets written with the two-octet length 254 255 (16321 octets each, re-encoded 16324), one of
   191 and one of 58 body octets (one-octet lengths): the re-encoded content has 65547 octets, which the
   two-octet count cannot express *)
Definition w_sp : bytes := [254; 255] ++ repeat 7 (Z.to_nat 16319).
Definition w_def : bytes :=
  [255; 255] ++ w_sp ++ w_sp ++ w_sp ++ w_sp ++ [191] ++ repeat 7 (Z.to_nat 191) ++ [58] ++ repeat 7 (Z.to_nat 58).

(* user attribute packet, five-octet body length, one such subpacket: 16327 octets in, 16330 out *)
Definition w_sub : bytes := [209; 255; 0; 0; 63; 193] ++ w_sp.

(* session key packet (RSA), one five-octet body length, no partial length anywhere: the multiprecision
   integer declares 65535 bits, so 8192 value octets follow, and the first of them is 255: the value has
   65536 significant bits, for which there is no two-octet bit count (PGPy would write a three-octet
   count); the encoder answers None *)
Definition w_mpi : bytes :=
  [193; 255; 0; 0; 32; 12;  3;  1; 2; 3; 4; 5; 6; 7; 8;  1;  255; 255;  255] ++ repeat 0 (Z.to_nat 8191).

Lemma in_all_pkesk_rsa : In f_pkesk_rsa all_formats.
Proof. unfold all_formats, named_formats. cbn [map snd]. repeat (try (left; reflexivity); right). Qed.

(* 1: re-encoding longer than the input; 2 and 3: re-encoding undefined *)
Theorem foreign_normalises_once_refuted :
  (exists f i v r b, In f all_formats /\ wf_bytes i /\ dec_strict_full f i = Some (v, r) /\
     enc f v = Some b /\ (length i < length b + length r)%nat) /\
  (exists f i v r, In f all_formats /\ wf_bytes i /\ dec_strict_full f i = Some (v, r) /\ enc f v = None) /\
  (exists i v r, wf_bytes i /\ dec_strict_full f_pkesk_rsa i = Some (v, r) /\ enc f_pkesk_rsa v = None /\
     (* not a matter of lengths: only the FMPI refusal of dec_strict2 applies *)
     new_len_np (skipn 1 i) = new_len (skipn 1 i)).
Proof.
  split; [|split].
  - assert (C : chk_longer (S (S (depth f_userid + length w_len))) f_userid w_len = true) by (vm_compute; reflexivity).
    apply chk_longer_sound in C as [W [v [r [b [D [E L]]]]]].
    exists f_userid, w_len, v, r, b. split; [exact in_all_userid|]. split; [exact W|]. split; [exact D|]. split; [exact E|exact L].
  - assert (C : chk_undefined (S (S (depth f_subarea + length w_def))) f_subarea w_def = true) by (vm_compute; reflexivity).
    apply chk_undefined_sound in C as [W [v [r [D E]]]].
    exists f_subarea, w_def, v, r. split; [exact in_all_subarea|]. split; [exact W|]. split; [exact D|exact E].
  - assert (C : chk_undefined (S (S (depth f_pkesk_rsa + length w_mpi))) f_pkesk_rsa w_mpi = true) by (vm_compute; reflexivity).
    apply chk_undefined_sound in C as [W [v [r [D E]]]].
    exists w_mpi, v, r. split; [exact W|]. split; [exact D|]. split; [exact E|]. vm_compute. reflexivity.
Qed.

(* re-encoding longer without any partial length: the two-octet subpacket lengths 8384..16319 *)
Theorem foreign_subpacket_longer :
  exists i v r b, wf_bytes i /\ dec_strict_full f_uattr i = Some (v, r) /\ enc f_uattr v = Some b /\
    (length i < length b + length r)%nat /\ new_len_np (skipn 1 i) = new_len (skipn 1 i).
Proof.
  assert (C : chk_longer (S (S (depth f_uattr + length w_sub))) f_uattr w_sub = true) by (vm_compute; reflexivity).
  apply chk_longer_sound in C as [W [v [r [b [D [E L]]]]]].
  exists w_sub, v, r, b. split; [exact W|]. split; [exact D|]. split; [exact E|]. split; [exact L|].
  vm_compute. reflexivity.
Qed.

Theorem dec_strict_enc_defined_refuted :
  (exists fuel f m i v r b, wf m f = true /\ wf_bytes i /\ dec_strict fuel f i = Some (v, r) /\
     enc f v = Some b /\ (length i < length b + length r)%nat) /\
  (exists fuel f m i v r, wf m f = true /\ wf_bytes i /\ dec_strict fuel f i = Some (v, r) /\ enc f v = None) /\
  (* the smallest cause: a multiprecision integer on its own *)
  (exists i v r, wf_bytes i /\ dec_strict 1 FMPI i = Some (v, r) /\ enc FMPI v = None).
Proof.
  destruct foreign_normalises_once_refuted as
    [[f [i [v [r [b [Hin [W [D [E L]]]]]]]]] [[f' [i' [v' [r' [Hin' [W' [D' E']]]]]]] _]].
  split; [|split].
  - exists (S (S (depth f + length i))), f, true, i, v, r, b.
    split; [apply (proj1 (forallb_forall (wf true) all_formats) all_formats_wf f Hin)|].
    split; [exact W|]. split; [exact D|]. split; [exact E|exact L].
  - exists (S (S (depth f' + length i'))), f', true, i', v', r'.
    split; [apply (proj1 (forallb_forall (wf true) all_formats) all_formats_wf f' Hin')|].
    split; [exact W'|]. split; [exact D'|exact E'].
  - assert (C : chk_undefined 1 FMPI ([255; 255; 255] ++ repeat 0 (Z.to_nat 8191)) = true) by (vm_compute; reflexivity).
    apply chk_undefined_sound in C as [W2 [v2 [r2 [D2 E2]]]].
    exists ([255; 255; 255] ++ repeat 0 (Z.to_nat 8191)), v2, r2. split; [exact W2|]. split; [exact D2|exact E2].
Qed.

(* the universally quantified statements themselves are therefore false *)
Corollary foreign_normalises_once_false :
  ~ (forall f i v r, In f all_formats -> wf_bytes i -> dec_strict_full f i = Some (v, r) ->
       exists b, enc f v = Some b /\ (length b + length r <= length i)%nat).
Proof.
  intros A. destruct foreign_normalises_once_refuted as [_ [[f [i [v [r [Hin [W [D E]]]]]]] _]].
  destruct (A f i v r Hin W D) as [b [Eb _]]. congruence.
Qed.

(* both refuting inputs are accepted by the tolerant decoder as well, with the same value *)
Corollary tolerant_accepts_unencodable :
  exists f i v r, In f all_formats /\ wf_bytes i /\ dec_full f i = Some (v, r) /\ enc f v = None.
Proof.
  destruct foreign_normalises_once_refuted as [_ [_ [i [v [r [W [D [E _]]]]]]]].
  exists f_pkesk_rsa, i, v, r. split; [exact in_all_pkesk_rsa|]. split; [exact W|].
  split; [apply dec_strict_full_dec_full; exact D|exact E].
Qed.


Print Assumptions foreign_normalises_once_refuted.
Print Assumptions dec_strict_enc_defined_refuted.
Print Assumptions foreign_subpacket_longer.
Print Assumptions foreign_normalises_once_false.
Print Assumptions tolerant_accepts_unencodable.
