(* C13 proof scripts. *)
From Coq Require Import ZArith List Bool Lia ZifyBool.
Import ListNotations.
Require Import PV.Lib.Bytes PV.Model.Fresh.
Open Scope Z_scope.

Definition tr {A} (r : A * list drawrec * nat) : list drawrec := snd (fst r).
Definition nx {A} (r : A * list drawrec * nat) : nat := snd r.
Definition cells (t : list drawrec) : list nat := map d_cell t.
(* the i-th draw takes cell n + i, and the allocator ends at n + number of draws *)
Definition good {A} (n : nat) (r : A * list drawrec * nat) : Prop :=
  cells (tr r) = seq n (length (tr r)) /\ nx r = (n + length (tr r))%nat.

Lemma cells_app a b : cells (a ++ b) = cells a ++ cells b.
Proof. apply map_app. Qed.

Lemma good_join (t1 t2 : list drawrec) n n1 n2 :
  cells t1 = seq n (length t1) -> n1 = (n + length t1)%nat ->
  cells t2 = seq n1 (length t2) -> n2 = (n1 + length t2)%nat ->
  cells (t1 ++ t2) = seq n (length (t1 ++ t2)) /\ n2 = (n + length (t1 ++ t2))%nat.
Proof.
  intros H1 E1 H2 E2. rewrite cells_app, app_length, seq_app, H1, H2. subst. split; [reflexivity | lia].
Qed.

Lemma protect_loop_good c pass k : forall i n, good n (protect_loop c pass k i n).
Proof.
  induction k as [|k IH]; intros i n; [split; cbn; [reflexivity | lia]|].
  cbn [protect_loop]. unfold draw.
  destruct (protect_loop c pass k (S i) (S (S n))) as [[outs t3] n3] eqn:E.
  specialize (IH (S i) (S (S n))). rewrite E in IH. destruct IH as [I1 I2]. unfold tr, nx in *. cbn [fst snd] in *.
  unfold good, tr, nx. cbn [fst snd app length cells map d_cell]. unfold cells in I1. rewrite I1, I2. cbn [seq]. split; [reflexivity | lia].
Qed.

Lemma nothing_good {A} (x : A) n : good n (x, [], n).
Proof. split; cbn; [reflexivity | lia]. Qed.

Lemma protect_refused_good c k n : good n (protect_refused c k n).
Proof.
  unfold protect_refused. destruct k; [apply nothing_good|].
  destruct ((c =? 1) || (c =? 10)); [|apply nothing_good]. split; cbn; [reflexivity | lia].
Qed.

Lemma exec_good o n : good n (exec o n).
Proof.
  destruct o as [c pass msg sk enc | c k rcpt msg sk enc | c pass npk]; cbn [exec].
  - destruct (sk_fits c sk); [|apply nothing_good]. destruct sk, enc; cbn; split; cbn; try reflexivity; lia.
  - destruct (sk_fits c sk); [|apply nothing_good]. destruct sk, enc, k; cbn; split; cbn; try reflexivity; lia.
  - destruct (can_protect c); [apply protect_loop_good | apply protect_refused_good].
Qed.

Lemma traces_cons o r n : traces (o :: r) n = tr (exec o n) ++ traces r (nx (exec o n)).
Proof.
  unfold traces, tr, nx. cbn [run]. destruct (exec o n) as [[outs t] n1]. cbn [fst snd].
  destruct (run r n1) as [rest n2]. reflexivity.
Qed.
Lemma outputs_cons o r n : outputs (o :: r) n = fst (fst (exec o n)) ++ outputs r (nx (exec o n)).
Proof.
  unfold outputs, nx. cbn [run]. destruct (exec o n) as [[outs t] n1]. cbn [fst snd].
  destruct (run r n1) as [rest n2]. reflexivity.
Qed.
Lemma run_next_cons o r n : snd (run (o :: r) n) = snd (run r (nx (exec o n))).
Proof.
  unfold nx. cbn [run]. destruct (exec o n) as [[outs t] n1]. cbn [fst snd]. destruct (run r n1) as [rest n2]. reflexivity.
Qed.

(* ---------- cells_strictly_increasing ---------- *)
Lemma run_good ops : forall n, cells (traces ops n) = seq n (length (traces ops n)) /\ snd (run ops n) = (n + length (traces ops n))%nat.
Proof.
  induction ops as [|o r IH]; intros n; [split; cbn; [reflexivity | lia]|].
  rewrite traces_cons, run_next_cons. destruct (exec_good o n) as [G1 G2]. destruct (IH (nx (exec o n))) as [I1 I2].
  exact (good_join _ _ _ _ _ G1 G2 I1 I2).
Qed.

Lemma cells_strictly_increasing ops n : cells (traces ops n) = seq n (length (traces ops n)).
Proof. apply run_good. Qed.

Lemma nth_cell ops n i : (i < length (traces ops n))%nat -> nth i (cells (traces ops n)) O = (n + i)%nat.
Proof. intros H. rewrite cells_strictly_increasing. apply seq_nth. exact H. Qed.

(* ---------- no_cell_shared ---------- *)
Lemma no_cell_shared ops n : NoDup (cells (traces ops n)).
Proof. rewrite cells_strictly_increasing. apply seq_NoDup. Qed.

Lemma cells_range ops n c : In c (cells (traces ops n)) -> (n <= c < snd (run ops n))%nat.
Proof. destruct (run_good ops n) as [H1 H2]. rewrite H1, H2. intros H. apply in_seq in H. lia. Qed.

Lemma exec_range o n c : In c (cells (tr (exec o n))) -> (n <= c < nx (exec o n))%nat.
Proof. destruct (exec_good o n) as [H1 H2]. rewrite H1, H2. intros H. apply in_seq in H. lia. Qed.

(* two different operations of a sequence never use the same cell *)
Lemma ops_disjoint a o1 b o2 r n c :
  let ops := a ++ o1 :: b ++ o2 :: r in
  In c (cells (tr (exec o1 (snd (run a n))))) ->
  In c (cells (tr (exec o2 (snd (run (a ++ o1 :: b) n))))) -> False.
Proof.
  cbv zeta. intros H1 H2. apply exec_range in H1. apply exec_range in H2.
  assert (M : forall x y m, (m <= snd (run x m))%nat /\ snd (run (x ++ y) m) = snd (run y (snd (run x m)))).
  { induction x as [|o x IH]; intros y m; [split; cbn; [lia | reflexivity]|].
    cbn [app]. rewrite !run_next_cons. destruct (IH y (nx (exec o m))) as [A B]. split; [|exact B].
    destruct (exec_good o m) as [_ G]. lia. }
  destruct (M a (o1 :: b) n) as [_ E]. rewrite E in H2. rewrite run_next_cons in H2.
  destruct (M b [] (nx (exec o1 (snd (run a n))))) as [L _]. lia.
Qed.

(* ---------- draw_sizes ---------- *)
Lemma protect_loop_sizes c pass k : forall i n, forallb (size_ok c) (tr (protect_loop c pass k i n)) = true.
Proof.
  induction k as [|k IH]; intros i n; [reflexivity|].
  cbn [protect_loop]. unfold draw. specialize (IH (S i) (S (S n))).
  destruct (protect_loop c pass k (S i) (S (S n))) as [[outs t3] n3]. unfold tr in *. cbn [fst snd] in *.
  cbn [app forallb]. rewrite IH. unfold size_ok, want_size. cbn [d_purpose d_size]. rewrite !Z.eqb_refl. reflexivity.
Qed.

Lemma protect_refused_sizes c k n : forallb (size_ok c) (tr (protect_refused c k n)) = true.
Proof.
  unfold protect_refused. destruct k; [reflexivity|]. destruct ((c =? 1) || (c =? 10)); [|reflexivity].
  cbn. unfold size_ok, want_size. cbn [d_purpose d_size]. rewrite !Z.eqb_refl. reflexivity.
Qed.

Lemma draw_sizes o n : forallb (size_ok (cipher_of o)) (tr (exec o n)) = true.
Proof.
  destruct o as [c pass msg sk enc | c k rcpt msg sk enc | c pass npk]; cbn [exec cipher_of].
  - destruct (sk_fits c sk); [|reflexivity].
    destruct sk, enc; cbn; unfold size_ok, want_size; cbn [d_purpose d_size]; rewrite ?Z.eqb_refl; reflexivity.
  - destruct (sk_fits c sk); [|reflexivity].
    destruct sk, enc, k; cbn; unfold size_ok, want_size; cbn [d_purpose d_size]; rewrite ?Z.eqb_refl; reflexivity.
  - destruct (can_protect c); [apply protect_loop_sizes | apply protect_refused_sizes].
Qed.

Lemma draw_sizes_run ops : forall n, Forall2 (fun o r => forallb (size_ok (cipher_of o)) (snd r) = true) ops (fst (run ops n)).
Proof.
  induction ops as [|o r IH]; intros n; [constructor|].
  cbn [run]. assert (D := draw_sizes o n). unfold tr in D. destruct (exec o n) as [[outs t] n1]. cbn [fst snd] in D.
  specialize (IH n1). destruct (run r n1) as [rest n2]. cbn [fst]. constructor; [exact D | exact IH].
Qed.

(* ---------- draws_independent_of_message ---------- *)
Lemma protect_loop_indep c p1 p2 k : forall i1 i2 n,
  tr (protect_loop c p1 k i1 n) = tr (protect_loop c p2 k i2 n) /\ nx (protect_loop c p1 k i1 n) = nx (protect_loop c p2 k i2 n).
Proof.
  induction k as [|k IH]; intros i1 i2 n; [split; reflexivity|].
  cbn [protect_loop]. unfold draw. specialize (IH (S i1) (S i2) (S (S n))).
  destruct (protect_loop c p1 k (S i1) (S (S n))) as [[o1 t1] n1]. destruct (protect_loop c p2 k (S i2) (S (S n))) as [[o2 t2] n2].
  unfold tr, nx in *. cbn [fst snd] in *. destruct IH as [-> ->]. split; reflexivity.
Qed.

Lemma exec_indep o1 o2 n : shape_of o1 = shape_of o2 -> tr (exec o1 n) = tr (exec o2 n) /\ nx (exec o1 n) = nx (exec o2 n).
Proof.
  destruct o1 as [c1 p1 m1 s1 e1 | c1 k1 r1 m1 s1 e1 | c1 p1 n1]; destruct o2 as [c2 p2 m2 s2 e2 | c2 k2 r2 m2 s2 e2 | c2 p2 n2];
    cbn [shape_of]; intros H; try discriminate.
  - injection H as Hc Hs Hf He. subst c2 e2. cbn [exec]. rewrite Hf. destruct (sk_fits c1 s2); [|split; reflexivity].
    destruct s1, s2; try discriminate; destruct e1; split; reflexivity.
  - injection H as Hc Hk Hs Hf He. subst c2 k2 e2. cbn [exec]. rewrite Hf. destruct (sk_fits c1 s2); [|split; reflexivity].
    destruct s1, s2; try discriminate; destruct e1, k1; split; reflexivity.
  - injection H as Hc Hn. subst c2 n2. cbn [exec]. destruct (can_protect c1); [apply protect_loop_indep | split; reflexivity].
Qed.

Lemma draws_independent_of_message ops1 : forall ops2 n, map shape_of ops1 = map shape_of ops2 ->
  traces ops1 n = traces ops2 n /\ snd (run ops1 n) = snd (run ops2 n).
Proof.
  induction ops1 as [|o1 r1 IH]; intros [|o2 r2] n H; try discriminate; [split; reflexivity|].
  cbn [map] in H. inversion H as [[Ho Hr]]. rewrite !traces_cons, !run_next_cons.
  destruct (exec_indep o1 o2 n Ho) as [-> ->]. destruct (IH r2 (nx (exec o2 n)) Hr) as [-> ->]. split; reflexivity.
Qed.

(* ---------- session_key_only_under_encryption ---------- *)
Definition secret_cells (t : list drawrec) : list nat := cells (filter (fun d => secret_purpose (d_purpose d)) t).
Definition exposed_all (l : list sterm) : list nat := concat (map exposed l).
Definition outs {A} (r : list sterm * A * nat) : list sterm := fst (fst r).

Lemma protect_loop_no_secret c pass k : forall i n, secret_cells (tr (protect_loop c pass k i n)) = [].
Proof.
  induction k as [|k IH]; intros i n; [reflexivity|].
  cbn [protect_loop]. unfold draw. specialize (IH (S i) (S (S n))).
  destruct (protect_loop c pass k (S i) (S (S n))) as [[o t3] n3]. unfold tr, secret_cells in *. cbn [fst snd] in *.
  cbn [app filter d_purpose secret_purpose]. exact IH.
Qed.

Lemma protect_loop_exposed_own c pass k : forall i n x,
  In x (exposed_all (outs (protect_loop c pass k i n))) -> In x (cells (tr (protect_loop c pass k i n))).
Proof.
  induction k as [|k IH]; intros i n x; [intros []|].
  cbn [protect_loop]. unfold draw. specialize (IH (S i) (S (S n)) x).
  destruct (protect_loop c pass k (S i) (S (S n))) as [[o t3] n3]. unfold tr, outs, exposed_all, cells in *. cbn [fst snd] in *.
  cbn [map concat exposed app d_cell]. intros [H | [H | H]]; [right; left; exact H | left; exact H | right; right; apply IH; exact H].
Qed.

(* a refused protect has no output at all, and what it drew before it was refused (an IV and a salt) is not secret *)
Lemma protect_refused_outs c k n : outs (protect_refused c k n) = [].
Proof. unfold protect_refused. destruct k; [reflexivity|]. destruct ((c =? 1) || (c =? 10)); reflexivity. Qed.
Lemma protect_refused_no_secret c k n : secret_cells (tr (protect_refused c k n)) = [].
Proof. unfold protect_refused. destruct k; [reflexivity|]. destruct ((c =? 1) || (c =? 10)); reflexivity. Qed.

Lemma exec_exposed_own o n x : In x (exposed_all (outs (exec o n))) -> In x (cells (tr (exec o n))).
Proof.
  destruct o as [c pass msg sk enc | c k rcpt msg sk enc | c pass npk]; cbn [exec].
  - destruct (sk_fits c sk); [|intros []]. destruct sk, enc; cbn; tauto.
  - destruct (sk_fits c sk); [|intros []]. destruct sk, enc, k; cbn; tauto.
  - destruct (can_protect c); [apply protect_loop_exposed_own | rewrite protect_refused_outs; intros []].
Qed.

Lemma exec_secret_hidden o n x : In x (secret_cells (tr (exec o n))) -> In x (exposed_all (outs (exec o n))) -> False.
Proof.
  destruct o as [c pass msg sk enc | c k rcpt msg sk enc | c pass npk]; cbn [exec].
  - destruct (sk_fits c sk); [|intros []]. destruct sk, enc; cbn; intros H1 H2; intuition lia.
  - destruct (sk_fits c sk); [|intros []]. destruct sk, enc, k; cbn; intros H1 H2; intuition lia.
  - destruct (can_protect c); [rewrite protect_loop_no_secret | rewrite protect_refused_no_secret]; intros [].
Qed.

Lemma secret_cells_app a b : secret_cells (a ++ b) = secret_cells a ++ secret_cells b.
Proof. unfold secret_cells, cells. rewrite filter_app, map_app. reflexivity. Qed.
Lemma secret_cells_sub t x : In x (secret_cells t) -> In x (cells t).
Proof.
  unfold secret_cells, cells. intros H. apply in_map_iff in H. destruct H as (d & E & H). apply filter_In in H.
  apply in_map_iff. exists d. tauto.
Qed.
Lemma exposed_all_app a b : exposed_all (a ++ b) = exposed_all a ++ exposed_all b.
Proof. unfold exposed_all. rewrite map_app, concat_app. reflexivity. Qed.

Lemma run_exposed_own ops : forall n x, In x (exposed_all (outputs ops n)) -> In x (cells (traces ops n)).
Proof.
  induction ops as [|o r IH]; intros n x; [intros []|].
  rewrite outputs_cons, traces_cons, exposed_all_app, cells_app, !in_app_iff.
  intros [H | H]; [left; apply exec_exposed_own; exact H | right; apply IH; exact H].
Qed.

(* over a whole sequence: a cell drawn as session key, prefix or ephemeral secret is readable in NO output of the sequence *)
Lemma session_key_only_under_encryption ops : forall n x,
  In x (secret_cells (traces ops n)) -> In x (exposed_all (outputs ops n)) -> False.
Proof.
  induction ops as [|o r IH]; intros n x; [intros []|].
  rewrite outputs_cons, traces_cons, exposed_all_app, secret_cells_app, !in_app_iff.
  intros [S1 | S2] [E1 | E2].
  - exact (exec_secret_hidden o n x S1 E1).
  - apply secret_cells_sub, exec_range in S1. apply run_exposed_own, cells_range in E2. lia.
  - apply secret_cells_sub, cells_range in S2. apply exec_exposed_own, exec_range in E1. lia.
  - exact (IH _ x S2 E2).
Qed.

(* the definition of "exposed" is not vacuous: salts and IVs ARE readable *)
Lemma salt_is_exposed c pass msg n : In (S n) (exposed_all (outs (exec (EncPass c pass msg None false) n))).
Proof. cbn. left. reflexivity. Qed.

(* ---------- a refused operation draws nothing (repair 29ef9ad for the passphrase path) ---------- *)
Lemma refused_key_draws_nothing c pass k rcpt msg b enc n : Z.of_nat (length b) <> key_octets c ->
  exec (EncPass c pass msg (Some b) enc) n = ([], [], n) /\ exec (EncKey c k rcpt msg (Some b) enc) n = ([], [], n).
Proof.
  intros H. cbn [exec sk_fits]. destruct (Z.eqb_spec (Z.of_nat (length b)) (key_octets c)) as [E|_]; [contradiction|]. split; reflexivity.
Qed.
(* ... and an operation that is carried out is exactly the one with a fitting (or no) supplied key: it has an output *)
Lemma pass_accepted_iff_output c pass msg sk enc n : sk_fits c sk = true <-> outs (exec (EncPass c pass msg sk enc) n) <> [].
Proof.
  cbn [exec]. destruct (sk_fits c sk); [|split; [discriminate | intros H; exfalso; apply H; reflexivity]].
  split; [intros _ | intros _; reflexivity]. destruct sk, enc; cbn; discriminate.
Qed.
Lemma key_accepted_iff_output c k rcpt msg sk enc n : sk_fits c sk = true <-> outs (exec (EncKey c k rcpt msg sk enc) n) <> [].
Proof.
  cbn [exec]. destruct (sk_fits c sk); [|split; [discriminate | intros H; exfalso; apply H; reflexivity]].
  split; [intros _ | intros _; reflexivity]. destruct sk, enc, k; cbn; discriminate.
Qed.
(* the rule before the repair drew the salt for a supplied key of any length *)
Lemma refused_key_old_refuted : exists c pass msg b enc n, Z.of_nat (length b) <> key_octets c /\
  tr (exec_pass_old c pass msg (Some b) enc n) <> [].
Proof. exists 7, [1], [2], [9; 9; 9], false, O. split; [cbn; discriminate | cbn; discriminate]. Qed.

(* a refused protect (repair a3ce830 leaves the draws where they were): no output; IDEA / Twofish256 have drawn the IV and
   the salt of the first key packet, anything else nothing *)
Lemma refused_protect_trace c pass k n : can_protect c = false ->
  outs (exec (Protect c pass k) n) = [] /\
  (tr (exec (Protect c pass k) n) = [] \/
   tr (exec (Protect c pass k) n) = [ {| d_purpose := PIV; d_size := blk_octets c; d_cell := n |}; {| d_purpose := PSalt; d_size := 8; d_cell := S n |} ]).
Proof.
  intros H. cbn [exec]. rewrite H. split; [apply protect_refused_outs|].
  unfold protect_refused. destruct k; [left; reflexivity|]. destruct ((c =? 1) || (c =? 10)); [right | left]; reflexivity.
Qed.
(* an accepted protect draws, per key packet and in this order, an IV of the block size and a salt of 8 octets *)
Fixpoint protect_trace (c : Z) (k n : nat) : list drawrec :=
  match k with
  | O => []
  | S k' => {| d_purpose := PIV; d_size := blk_octets c; d_cell := n |} :: {| d_purpose := PSalt; d_size := 8; d_cell := S n |} :: protect_trace c k' (S (S n))
  end.
Lemma protect_loop_trace c pass k : forall i n, tr (protect_loop c pass k i n) = protect_trace c k n.
Proof.
  induction k as [|k IH]; intros i n; [reflexivity|].
  cbn [protect_loop protect_trace]. unfold draw. specialize (IH (S i) (S (S n))).
  destruct (protect_loop c pass k (S i) (S (S n))) as [[o t3] n3]. unfold tr in *. cbn [fst snd] in *. rewrite <- IH. reflexivity.
Qed.
Lemma accepted_protect_trace c pass k n : can_protect c = true -> tr (exec (Protect c pass k) n) = protect_trace c k n.
Proof. intros H. cbn [exec]. rewrite H. apply protect_loop_trace. Qed.

(* ---------- supplied_key_not_redrawn ---------- *)
Definition sk_of (o : fop) : option (option bytes) :=
  match o with EncPass _ _ _ sk _ => Some sk | EncKey _ _ _ _ sk _ => Some sk | Protect _ _ _ => None end.
Definition given_all (l : list sterm) : list bytes := concat (map exposed_given l).

Lemma supplied_key_not_redrawn o n b : sk_of o = Some (Some b) ->
  sk_term o n = Some (Given b) /\
  filter (fun d => match d_purpose d with PSessionKey => true | _ => false end) (tr (exec o n)) = [] /\
  given_all (outs (exec o n)) = [].
Proof.
  destruct o as [c pass msg sk enc | c k rcpt msg sk enc | c pass npk]; cbn [sk_of]; intros H; inversion H; subst.
  - cbn [exec sk_fits]. destruct (Z.of_nat (length b) =? key_octets c); [destruct enc; cbn; auto | cbn; auto].
  - cbn [exec sk_fits]. destruct (Z.of_nat (length b) =? key_octets c); [destruct enc, k; cbn; auto | cbn; auto].
Qed.

Lemma absent_key_drawn_first o n : sk_of o = Some None ->
  sk_term o n = Some (Tok n) /\
  exists t, tr (exec o n) = {| d_purpose := PSessionKey; d_size := key_octets (cipher_of o); d_cell := n |} :: t /\
            filter (fun d => match d_purpose d with PSessionKey => true | _ => false end) t = [].
Proof.
  destruct o as [c pass msg sk enc | c k rcpt msg sk enc | c pass npk]; cbn [sk_of]; intros H; inversion H; subst.
  - destruct enc; cbn; split; try reflexivity; eexists; split; reflexivity.
  - destruct enc, k; cbn; split; try reflexivity; eexists; split; reflexivity.
Qed.
