From Coq Require Import ZArith List Bool Lia ZifyBool.
Import ListNotations.
Require Import PV.Lib.Bytes PV.Lib.BytesLemmas PV.Model.Wire PV.Proofs.Wire_lemmas PV.Proofs.Wire_lemmas2 PV.Model.HashData PV.Spec.Rfc4880_sig.
Open Scope Z_scope.

(* ---------- generic list facts ---------- *)
Lemma app_inv_tail_length {A} (a a' b b' : list A) : a ++ b = a' ++ b' -> length b = length b' -> a = a' /\ b = b'.
Proof.
  revert a'. induction a as [|x a IH]; intros [|y a'] H L; cbn in *.
  - auto.
  - subst b. cbn in L. rewrite app_length in L. lia.
  - subst b'. cbn in L. rewrite app_length in L. lia.
  - injection H as -> H. destruct (IH a' H L) as [-> ->]. auto.
Qed.

Lemma app_inv_head_length {A} (a a' b b' : list A) : a ++ b = a' ++ b' -> length a = length a' -> a = a' /\ b = b'.
Proof.
  revert a'. induction a as [|x a IH]; intros [|y a'] H L; cbn in *; try lia.
  - auto.
  - injection H as -> H. destruct (IH a' H ltac:(lia)) as [-> ->]. auto.
Qed.

Lemma int_to_bytes_be v k : 1 <= k -> 0 <= v < 256 ^ k -> int_to_bytes v k = be (Z.to_nat k) v.
Proof. apply int_to_bytes_fits. Qed.

(* ---------- well-formedness of what is signed ---------- *)
Definition wf_keybody (kb : bytes) : Prop := (0 < length kb)%nat /\ Z.of_nat (length kb) < 65536.
Definition wf_subject (s : subject) : Prop :=
  match s with
  | SDoc _ => True
  | SKey kb => wf_keybody kb
  | SUid kb u => wf_keybody kb /\ Z.of_nat (length u) < 4294967296
  | SUattr kb u => wf_keybody kb /\ Z.of_nat (length u) < 4294967296
  | SSubkey pb sb => wf_keybody pb /\ wf_keybody sb
  end.
Definition wf_fields (f : sigfields) : Prop := Z.of_nat (length (sf_hashed f)) < 4294967296 - 4.

Lemma key_block_eq kb : wf_keybody kb -> key_block kb = rfc_key kb.
Proof.
  intros [H0 H1]. unfold key_block, rfc_key. replace (0 <? Z.of_nat (length kb)) with true by lia.
  rewrite int_to_bytes_be by (change (256 ^ 2) with 65536; lia). reflexivity.
Qed.
Lemma key_raw_eq kb : wf_keybody kb -> [153] ++ int_to_bytes (Z.of_nat (length kb)) 2 ++ kb = rfc_key kb.
Proof.
  intros [H0 H1]. unfold rfc_key. rewrite int_to_bytes_be by (change (256 ^ 2) with 65536; lia). reflexivity.
Qed.
Lemma uid_block_eq m u : Z.of_nat (length u) < 4294967296 -> uid_block m u = rfc_uid m u.
Proof.
  intros H. unfold uid_block, rfc_uid. rewrite int_to_bytes_be by (change (256 ^ 4) with 4294967296; lia). reflexivity.
Qed.
Lemma trailer_eq f : wf_fields f -> trailer f = rfc_trailer f.
Proof.
  intros H. unfold trailer, rfc_trailer, hcontext, wf_fields in *.
  rewrite int_to_bytes_be; [reflexivity|lia|].
  change (256 ^ 4) with 4294967296. rewrite app_length. cbn [length]. lia.
Qed.

(* ---------- prefix-freeness of the framing elements ---------- *)
Lemma rfc_key_split kb x : rfc_key kb ++ x = ([153] ++ be 2 (Z.of_nat (length kb))) ++ (kb ++ x).
Proof. unfold rfc_key. rewrite <- !app_assoc. reflexivity. Qed.
Lemma rfc_uid_split m u x : rfc_uid m u ++ x = ([m] ++ be 4 (Z.of_nat (length u))) ++ (u ++ x).
Proof. unfold rfc_uid. rewrite <- !app_assoc. reflexivity. Qed.

Lemma rfc_key_inj kb kb' x x' : wf_keybody kb -> wf_keybody kb' -> rfc_key kb ++ x = rfc_key kb' ++ x' -> kb = kb' /\ x = x'.
Proof.
  intros [_ H] [_ H'] E. rewrite !rfc_key_split in E.
  destruct (app_inv_head_length _ _ _ _ E ltac:(rewrite !app_length, !length_be; reflexivity)) as [E1 E2].
  apply app_inv_head in E1.
  assert (L : length kb = length kb').
  { apply (f_equal unbe) in E1. rewrite !unbe_be in E1 by (change (256 ^ Z.of_nat 2) with 65536; lia). lia. }
  apply (app_inv_head_length _ _ _ _ E2 L).
Qed.

Lemma rfc_uid_inj m m' u u' x x' : Z.of_nat (length u) < 4294967296 -> Z.of_nat (length u') < 4294967296 ->
  rfc_uid m u ++ x = rfc_uid m' u' ++ x' -> m = m' /\ u = u' /\ x = x'.
Proof.
  intros H H' E. rewrite !rfc_uid_split in E.
  destruct (app_inv_head_length _ _ _ _ E ltac:(rewrite !app_length, !length_be; reflexivity)) as [E1 E2].
  assert (Em : m = m') by (injection E1; auto). subst m'. apply app_inv_head in E1.
  assert (L : length u = length u').
  { apply (f_equal unbe) in E1. rewrite !unbe_be in E1 by (change (256 ^ Z.of_nat 4) with 4294967296; lia). lia. }
  destruct (app_inv_head_length _ _ _ _ E2 L) as [-> ->]. auto.
Qed.

(* the trailer determines the header fields and the hashed area, reading from the END of the hash input *)
Lemma rfc_trailer_inj f f' b b' : wf_fields f -> wf_fields f' ->
  b ++ rfc_trailer f = b' ++ rfc_trailer f' -> b = b' /\ f = f'.
Proof.
  intros W W' E. unfold rfc_trailer in E. unfold wf_fields in *.
  set (hp := [sf_ver f; sf_type f; sf_pkalg f; sf_halg f] ++ sf_hashed f) in *.
  set (hp' := [sf_ver f'; sf_type f'; sf_pkalg f'; sf_halg f'] ++ sf_hashed f') in *.
  assert (Lhp : Z.of_nat (length hp) < 4294967296) by (unfold hp; rewrite app_length; cbn [length]; lia).
  assert (Lhp' : Z.of_nat (length hp') < 4294967296) by (unfold hp'; rewrite app_length; cbn [length]; lia).
  (* last four octets: the length *)
  replace (b ++ hp ++ [4; 255] ++ be 4 (Z.of_nat (length hp))) with ((b ++ hp ++ [4; 255]) ++ be 4 (Z.of_nat (length hp))) in E
    by (rewrite <- !app_assoc; reflexivity).
  replace (b' ++ hp' ++ [4; 255] ++ be 4 (Z.of_nat (length hp'))) with ((b' ++ hp' ++ [4; 255]) ++ be 4 (Z.of_nat (length hp'))) in E
    by (rewrite <- !app_assoc; reflexivity).
  destruct (app_inv_tail_length _ _ _ _ E ltac:(rewrite !length_be; reflexivity)) as [E1 E2].
  assert (L : length hp = length hp').
  { apply (f_equal unbe) in E2. rewrite !unbe_be in E2 by (change (256 ^ Z.of_nat 4) with 4294967296; lia). lia. }
  (* then the marker and the hashed part *)
  rewrite !app_assoc in E1.
  destruct (app_inv_tail_length _ _ _ _ E1 eq_refl) as [E3 _].
  destruct (app_inv_tail_length _ _ _ _ E3 L) as [-> E4].
  split; [reflexivity|]. unfold hp, hp' in E4. cbn [app] in E4. injection E4 as ? ? ? ? ?.
  destruct f, f'; cbn in *; subst; reflexivity.
Qed.

(* ---------- C02: the hash input PGPy builds is the RFC 4880 5.2.4 hash input ---------- *)
Definition kind_matches (t : Z) (s : subject) : bool :=
  match s with
  | SDoc _ => (t =? 0) || (t =? 1) || existsb (Z.eqb t) [2; 64; 80]
  | SUid _ _ | SUattr _ _ => existsb (Z.eqb t) [16; 17; 18; 19; 22; 48]
  | SSubkey _ _ => existsb (Z.eqb t) [24; 25; 40]
  | SKey _ => existsb (Z.eqb t) [31; 32]
  end.

Lemma existsb_In t l : existsb (Z.eqb t) l = true -> In t l.
Proof. intros H. apply existsb_exists in H as [x [Hin Hx]]. apply Z.eqb_eq in Hx. subst. exact Hin. Qed.

(* canonical text: the left-to-right rewriting PGPy does equals split / strip one CR / join with CR LF *)
Definition nolf (l : bytes) : Prop := ~ In 10 l.

Lemma canon_nolf l : nolf l -> canon l = l.
Proof.
  unfold nolf. induction l as [|x r IH]; intros H; [reflexivity|].
  cbn [canon]. assert (x <> 10) by (intro; subst; apply H; left; reflexivity).
  destruct (x =? 10) eqn:E; [lia|].
  assert (IHr : canon r = r) by (apply IH; intro K; apply H; right; exact K).
  destruct (x =? 13) eqn:E2; [|rewrite IHr; reflexivity].
  assert (x = 13) by lia. subst x.
  destruct r as [|y r']; [reflexivity|].
  assert (y <> 10) by (intro; subst; apply H; right; left; reflexivity).
  destruct (y =? 10) eqn:E3; [lia|]. rewrite IHr. reflexivity.
Qed.

Lemma canon_nolf_lf l r : nolf l -> canon (l ++ 10 :: r) = strip_cr l ++ [13; 10] ++ canon r.
Proof.
  unfold nolf. induction l as [|x l IH]; intros H.
  - cbn [app canon]. reflexivity.
  - assert (x <> 10) by (intro; subst; apply H; left; reflexivity).
    assert (Hl : ~ In 10 l) by (intro K; apply H; right; exact K).
    specialize (IH Hl).
    cbn [app canon]. destruct (x =? 10) eqn:E; [lia|].
    destruct (x =? 13) eqn:E2.
    + assert (x = 13) by lia. subst x.
      destruct l as [|y l'].
      * cbn [app]. replace (10 =? 10) with true by reflexivity. reflexivity.
      * cbn [app]. assert (y <> 10) by (intro; subst; apply Hl; left; reflexivity).
        destruct (y =? 10) eqn:E3; [lia|]. cbn [app] in IH. rewrite IH.
        assert (S : strip_cr (13 :: y :: l') = 13 :: strip_cr (y :: l')) by reflexivity.
        rewrite S. reflexivity.
    + rewrite IH.
      assert (S : strip_cr (x :: l) = x :: strip_cr l).
      { destruct l as [|y l']; [|reflexivity]. cbn. rewrite E2. reflexivity. }
      rewrite S. reflexivity.
Qed.

Lemma split_lf_nonempty cur d : split_lf cur d <> [].
Proof. revert cur; induction d as [|x r IH]; intros cur; cbn; [discriminate|]. destruct (x =? 10); [discriminate|apply IH]. Qed.

Lemma canon_eq_rfc_gen d : forall cur, nolf (rev cur) ->
  join_crlf (strip_all_but_last (split_lf cur d)) = canon (rev cur ++ d).
Proof.
  induction d as [|x r IH]; intros cur H.
  - cbn. rewrite app_nil_r. symmetry. apply canon_nolf. exact H.
  - cbn [split_lf]. destruct (x =? 10) eqn:E.
    + assert (x = 10) by lia. subst x.
      rewrite canon_nolf_lf by exact H.
      specialize (IH [] ltac:(intros [])). cbn [rev app] in IH.
      destruct (split_lf [] r) as [|l1 rest] eqn:Es; [exfalso; eapply split_lf_nonempty; exact Es|].
      cbn [strip_all_but_last]. destruct rest as [|l2 rest']; cbn [join_crlf]; rewrite <- IH; cbn [strip_all_but_last join_crlf]; reflexivity.
    + rewrite (IH (x :: cur)).
      * cbn [rev]. rewrite <- app_assoc. reflexivity.
      * cbn [rev]. unfold nolf in *. intro K. apply in_app_or in K as [K|[K|[]]]; [exact (H K)|lia].
Qed.

Theorem canon_eq_rfc d : canon d = rfc_canon d.
Proof. unfold rfc_canon. rewrite (canon_eq_rfc_gen d [] ltac:(intros [])). reflexivity. Qed.

Lemma hash_body_eq_rfc t s : wf_subject s -> kind_matches t s = true -> hash_body t s = rfc_body t s.
Proof.
  intros W K. destruct s as [d|kb|kb u|kb u|pb sb]; cbn [kind_matches] in K; cbn [wf_subject] in W.
  - apply orb_prop in K as [K|K]; [apply orb_prop in K as [K|K]|].
    + assert (t = 0) by lia. subst. reflexivity.
    + assert (t = 1) by lia. subst. unfold hash_body, rfc_body. cbn [Z.eqb Pos.eqb]. rewrite canon_eq_rfc. reflexivity.
    + apply existsb_In in K. cbn [In] in K. destruct K as [<-|[<-|[<-|[]]]]; reflexivity.
  - apply existsb_In in K. cbn [In] in K. destruct K as [<-|[<-|[]]]; unfold hash_body, rfc_body; cbn [Z.eqb Pos.eqb is_cert_type is_binding_type is_key_type existsb orb];
      rewrite key_raw_eq by assumption; reflexivity.
  - destruct W as [W1 W2]. apply existsb_In in K. cbn [In] in K.
    repeat (destruct K as [<-|K]; [unfold hash_body, rfc_body; cbn [Z.eqb Pos.eqb is_cert_type is_binding_type is_key_type existsb orb];
      rewrite key_block_eq, uid_block_eq by assumption; reflexivity|]). destruct K.
  - destruct W as [W1 W2]. apply existsb_In in K. cbn [In] in K.
    repeat (destruct K as [<-|K]; [unfold hash_body, rfc_body; cbn [Z.eqb Pos.eqb is_cert_type is_binding_type is_key_type existsb orb];
      rewrite key_block_eq, uid_block_eq by assumption; reflexivity|]). destruct K.
  - destruct W as [W1 W2]. apply existsb_In in K. cbn [In] in K.
    repeat (destruct K as [<-|K]; [unfold hash_body, rfc_body; cbn [Z.eqb Pos.eqb is_cert_type is_binding_type is_key_type existsb orb];
      rewrite ?key_block_eq, ?key_raw_eq by assumption; reflexivity|]). destruct K.
Qed.

Theorem hashdata_eq_rfc f s : wf_fields f -> wf_subject s -> kind_matches (sf_type f) s = true ->
  hashdata f s = rfc_hashdata f s.
Proof.
  intros Wf Ws K. unfold hashdata, rfc_hashdata. rewrite hash_body_eq_rfc by assumption.
  rewrite trailer_eq by assumption. reflexivity.
Qed.

(* ---------- C01: injectivity of the hash input ---------- *)
Definition subject_equiv (t : Z) (s s' : subject) : Prop :=
  if t =? 1 then match s, s' with SDoc d, SDoc d' => canon d = canon d' | _, _ => False end
  else if existsb (Z.eqb t) [2; 64; 80] then True      (* these types cover no subject at all (RFC 4880 5.2.1) *)
  else s = s'.

Definition known_types : list Z := [0; 1; 2; 16; 17; 18; 19; 22; 24; 25; 31; 32; 40; 48; 64; 80].

Ltac eval_body H := unfold hash_body in H; cbn [Z.eqb Pos.eqb is_cert_type is_binding_type is_key_type existsb orb] in H.

(* normal form of the subject-dependent part, per class of signature type *)
Lemma hb_cert t s b : In t [16; 17; 18; 19; 22; 48] -> wf_subject s -> hash_body t s = Some b ->
  (exists kb u, s = SUid kb u /\ b = rfc_key kb ++ rfc_uid 180 u) \/ (exists kb u, s = SUattr kb u /\ b = rfc_key kb ++ rfc_uid 209 u).
Proof.
  intros Ht W H. cbn [In] in Ht.
  repeat (destruct Ht as [<-|Ht]; [eval_body H; destruct s; try discriminate; cbn [wf_subject] in W; destruct W as [W1 W2];
    rewrite key_block_eq, uid_block_eq in H by assumption; injection H as <-; [left|right]; eauto|]).
  destruct Ht.
Qed.
Lemma hb_bind t s b : In t [24; 25; 40] -> wf_subject s -> hash_body t s = Some b ->
  exists pb sb, s = SSubkey pb sb /\ b = rfc_key pb ++ rfc_key sb.
Proof.
  intros Ht W H. cbn [In] in Ht.
  repeat (destruct Ht as [<-|Ht]; [eval_body H; destruct s; try discriminate; cbn [wf_subject] in W; destruct W as [W1 W2];
    rewrite ?key_block_eq, ?key_raw_eq in H by assumption; injection H as <-; eauto|]).
  destruct Ht.
Qed.
Lemma hb_key t s b : In t [31; 32] -> wf_subject s -> hash_body t s = Some b -> exists kb, s = SKey kb /\ b = rfc_key kb.
Proof.
  intros Ht W H. cbn [In] in Ht.
  repeat (destruct Ht as [<-|Ht]; [eval_body H; destruct s; try discriminate; cbn [wf_subject] in W;
    rewrite ?key_raw_eq in H by assumption; injection H as <-; eauto|]).
  destruct Ht.
Qed.

Lemma hash_body_inj t s s' b : In t known_types -> wf_subject s -> wf_subject s' ->
  hash_body t s = Some b -> hash_body t s' = Some b -> subject_equiv t s s'.
Proof.
  intros Ht W W' H H'. unfold known_types in Ht.
  assert (C : t = 0 \/ t = 1 \/ In t [2; 64; 80] \/ In t [16; 17; 18; 19; 22; 48] \/ In t [24; 25; 40] \/ In t [31; 32])
    by (cbn [In] in *; intuition).
  clear Ht. destruct C as [->|[->|[C|[C|[C|C]]]]].
  - unfold subject_equiv. cbn. eval_body H. eval_body H'. destruct s; try discriminate. destruct s'; try discriminate. congruence.
  - unfold subject_equiv. cbn. eval_body H. eval_body H'. destruct s; try discriminate. destruct s'; try discriminate. congruence.
  - unfold subject_equiv. cbn [In] in C. destruct C as [<-|[<-|[<-|[]]]]; cbn; exact I.
  - assert (N : subject_equiv t s s' = (s = s')).
    { unfold subject_equiv. cbn [In] in C. repeat (destruct C as [<-|C]; [reflexivity|]). destruct C. }
    rewrite N. destruct (hb_cert t s b C W H) as [[kb [u [-> E]]]|[kb [u [-> E]]]];
      destruct (hb_cert t s' b C W' H') as [[kb' [u' [-> E']]]|[kb' [u' [-> E']]]];
      cbn [wf_subject] in W, W'; destruct W as [W1 W2]; destruct W' as [W1' W2']; rewrite E' in E;
      apply (rfc_key_inj _ _ _ _ W1' W1) in E; destruct E as [-> E];
      rewrite <- (app_nil_r (rfc_uid _ u')) in E; rewrite <- (app_nil_r (rfc_uid _ u)) in E;
      apply (rfc_uid_inj _ _ _ _ _ _ W2' W2) in E; destruct E as [Em [-> _]]; try discriminate; reflexivity.
  - assert (N : subject_equiv t s s' = (s = s')).
    { unfold subject_equiv. cbn [In] in C. repeat (destruct C as [<-|C]; [reflexivity|]). destruct C. }
    rewrite N. destruct (hb_bind t s b C W H) as [pb [sb [-> E]]]. destruct (hb_bind t s' b C W' H') as [pb' [sb' [-> E']]].
    cbn [wf_subject] in W, W'. destruct W as [W1 W2]. destruct W' as [W1' W2']. rewrite E' in E.
    apply (rfc_key_inj _ _ _ _ W1' W1) in E. destruct E as [-> E].
    rewrite <- (app_nil_r (rfc_key sb')) in E. rewrite <- (app_nil_r (rfc_key sb)) in E.
    apply (rfc_key_inj _ _ _ _ W2' W2) in E. destruct E as [-> _]. reflexivity.
  - assert (N : subject_equiv t s s' = (s = s')).
    { unfold subject_equiv. cbn [In] in C. repeat (destruct C as [<-|C]; [reflexivity|]). destruct C. }
    rewrite N. destruct (hb_key t s b C W H) as [kb [-> E]]. destruct (hb_key t s' b C W' H') as [kb' [-> E']].
    cbn [wf_subject] in W, W'. rewrite E' in E.
    rewrite <- (app_nil_r (rfc_key kb')) in E. rewrite <- (app_nil_r (rfc_key kb)) in E.
    apply (rfc_key_inj _ _ _ _ W' W) in E. destruct E as [-> _]. reflexivity.
Qed.

Theorem hashdata_injective f f' s s' d :
  wf_fields f -> wf_fields f' -> wf_subject s -> wf_subject s' -> In (sf_type f) known_types ->
  hashdata f s = Some d -> hashdata f' s' = Some d ->
  f = f' /\ subject_equiv (sf_type f) s s'.
Proof.
  intros Wf Wf' Ws Ws' Kt H H'. unfold hashdata in *.
  destruct (hash_body (sf_type f) s) as [b|] eqn:Hb; [|discriminate].
  destruct (hash_body (sf_type f') s') as [b'|] eqn:Hb'; [|discriminate].
  injection H as H. injection H' as H'. rewrite <- H' in H. clear H'.
  rewrite !trailer_eq in H by assumption.
  destruct (rfc_trailer_inj f f' b b' Wf Wf' H) as [-> ->]. split; [reflexivity|].
  apply (hash_body_inj (sf_type f') s s' b'); assumption.
Qed.

(* any change of the signature type, an algorithm id or the hashed area changes the hash input,
   whatever the two subjects are *)
Corollary different_fields_different_input f f' s s' d d' :
  wf_fields f -> wf_fields f' -> f <> f' -> hashdata f s = Some d -> hashdata f' s' = Some d' -> d <> d'.
Proof.
  intros Wf Wf' N H H' E. subst d'. unfold hashdata in *.
  destruct (hash_body (sf_type f) s) as [b|]; [|discriminate].
  destruct (hash_body (sf_type f') s') as [b'|]; [|discriminate].
  injection H as H. injection H' as H'. rewrite <- H' in H.
  rewrite !trailer_eq in H by assumption.
  destruct (rfc_trailer_inj f f' b b' Wf Wf' H) as [_ E]. contradiction.
Qed.

(* ---------- C01: verify reports success only through the primitive ---------- *)
Section VerifyFacts.
  Variable pk_verify : bytes -> bytes -> bytes -> Z -> bool.

  Theorem verify_ok_only_via_primitive pub issues fails s subj :
    verify_pair pk_verify pub issues fails s subj = Some 0 ->
    (issues = 0 \/ fails = false) /\
    exists d, hashdata (fields_of s) subj = Some d /\ pk_verify pub d (sg_mpis s) (sg_halg s) = true.
  Proof.
    unfold verify_pair. destruct (negb (issues =? 0) && fails) eqn:E.
    - intros [= ->]. cbn in E. discriminate.
    - destruct (hashdata (fields_of s) subj) as [d|]; [|discriminate].
      destruct (pk_verify pub d (sg_mpis s) (sg_halg s)) eqn:P; [|discriminate].
      intros _. split; [|eauto]. destruct (issues =? 0) eqn:Z0; [left; lia|right]. cbn in E. exact E.
  Qed.

  Theorem verify_wrong_is_one pub issues fails s subj d :
    negb (issues =? 0) && fails = false -> hashdata (fields_of s) subj = Some d ->
    pk_verify pub d (sg_mpis s) (sg_halg s) = false ->
    verify_pair pk_verify pub issues fails s subj = Some 1.
  Proof. intros E H P. unfold verify_pair. rewrite E, H, P. reflexivity. Qed.

  Theorem disqualified_never_verifies pub issues s subj :
    issues <> 0 -> verify_pair pk_verify pub issues true s subj = Some issues.
  Proof. intros H. unfold verify_pair. replace (issues =? 0) with false by lia. reflexivity. Qed.
End VerifyFacts.

(* ---------- C05: the hashed region is fed to the hash verbatim ---------- *)
Definition suffix (r p : bytes) : Prop := exists pre, p = pre ++ r.
Lemma suffix_refl p : suffix p p. Proof. exists []. reflexivity. Qed.
Lemma suffix_skipn n p : suffix (skipn n p) p.
Proof. exists (firstn n p). symmetry. apply firstn_skipn. Qed.
Lemma suffix_trans a b c : suffix a b -> suffix b c -> suffix a c.
Proof. intros [x ->] [y ->]. exists (y ++ x). apply app_assoc. Qed.
Lemma suffix_length r p : suffix r p -> (length r <= length p)%nat.
Proof. intros [pre ->]. rewrite app_length. lia. Qed.

Lemma new_len_nonpartial_suffix p l r : (forall fo t, p = fo :: t -> 224 > fo \/ fo >= 255) -> new_len p = Some (l, r) -> suffix r p.
Proof.
  intros Hnp H. unfold new_len in H. destruct (parse_len p 0) as [[[pl sz] partial]|] eqn:E; [|discriminate].
  destruct partial.
  - exfalso. unfold parse_len in E. destruct p as [|fo t]; [discriminate|]. cbn [nth_error] in E.
    specialize (Hnp fo t eq_refl).
    destruct (192 >? fo) eqn:E1; [discriminate|]. destruct (224 >? fo) eqn:E2; [discriminate|].
    destruct (255 >? fo) eqn:E3; [lia|discriminate].
  - injection H as _ <-. apply suffix_skipn.
Qed.

Lemma sub_len_suffix p l r : sub_len p = Some (l, r) -> suffix r p.
Proof.
  unfold sub_len. destruct p as [|p0 rest]; [discriminate|].
  destruct ((192 <=? p0) && (p0 <? 255)) eqn:E.
  - destruct rest as [|p1 r']; [discriminate|]. intros [= _ <-]. exists [p0; p1]. reflexivity.
  - intros H. apply (new_len_nonpartial_suffix _ _ _) in H; [exact H|].
    intros fo t [= <- <-]. lia.
Qed.

Lemma sp_step_suffix p l t c body rest : sp_step p = Some (l, t, c, body, rest) -> suffix rest p.
Proof.
  unfold sp_step, sub_header_parse. destruct (sub_len p) as [[l0 r0]|] eqn:E; [|discriminate].
  intros [= _ _ _ _ <-]. eapply suffix_trans; [apply suffix_skipn|].
  eapply suffix_trans; [apply (suffix_skipn 1 r0)|]. eapply sub_len_suffix. exact E.
Qed.

Lemma sp_walk_spec : forall fuel p hl c sps r tot, sp_walk fuel p hl c = Some (sps, r, tot) ->
  suffix r p /\ (tot + length r = c + length p)%nat /\ (hl <= tot)%nat.
Proof.
  induction fuel as [|fuel IH]; intros p hl c sps r tot H; cbn [sp_walk] in H.
  - destruct (hl <=? c)%nat eqn:E; [|discriminate]. injection H as _ <- <-.
    split; [apply suffix_refl|]. split; [lia|]. apply Nat.leb_le. exact E.
  - destruct (hl <=? c)%nat eqn:E.
    { injection H as _ <- <-. split; [apply suffix_refl|]. split; [lia|]. apply Nat.leb_le. exact E. }
    destruct (sp_step p) as [[[[[l t] cr] body] rest]|] eqn:Es; [|discriminate].
    destruct ((length p - length rest) =? 0)%nat eqn:E0; [discriminate|].
    destruct (sp_walk fuel rest hl (c + (length p - length rest))) as [[[sps' r'] tot']|] eqn:Ew; [|discriminate].
    injection H as _ <- <-.
    destruct (IH _ _ _ _ _ _ Ew) as [S [L B]].
    pose proof (sp_step_suffix _ _ _ _ _ _ Es) as S0. pose proof (suffix_length _ _ S0).
    split; [eapply suffix_trans; eassumption|]. split; [lia|exact B].
Qed.

Theorem hashed_region_verbatim p s : sig_body_parse p = Some s ->
  exists rest, p = [sg_type s; sg_pkalg s; sg_halg s] ++ sp_hashed_raw (sg_sub s) ++ rest.
Proof.
  unfold sig_body_parse. destruct p as [|t [|pk [|h r]]]; try discriminate.
  destruct (subpackets_parse r) as [[sp r2]|] eqn:E; [|discriminate]. intros [= <-]. cbn [sg_type sg_pkalg sg_halg sg_sub].
  unfold subpackets_parse in E.
  destruct (sp_walk _ (skipn 2 r) _ 0) as [[[hs p2] tot]|]; [|discriminate].
  destruct (negb (tot =? Z.to_nat (unbe (firstn 2 r)))%nat); [discriminate|].
  destruct (sp_walk _ (skipn 2 p2) _ 0) as [[[us p4] tot2]|]; [|discriminate].
  destruct (negb (tot2 =? Z.to_nat (unbe (firstn 2 p2)))%nat); [discriminate|].
  injection E as <- _. cbn [sp_hashed_raw].
  exists (skipn (Z.to_nat (unbe (firstn 2 r)) + 2) r).
  change ([t; pk; h] ++ firstn (Z.to_nat (unbe (firstn 2 r)) + 2) r ++ skipn (Z.to_nat (unbe (firstn 2 r)) + 2) r)
    with (t :: pk :: h :: (firstn (Z.to_nat (unbe (firstn 2 r)) + 2) r ++ skipn (Z.to_nat (unbe (firstn 2 r)) + 2) r)).
  rewrite firstn_skipn. reflexivity.
Qed.

(* the declared two-octet length is honoured: the area is exactly that long (an overrun is rejected) *)
Theorem hashed_area_length p sp rest : subpackets_parse p = Some (sp, rest) -> (2 <= length p)%nat ->
  length (sp_hashed_raw sp) = (2 + Z.to_nat (unbe (firstn 2 p)))%nat.
Proof.
  unfold subpackets_parse. remember (Z.to_nat (unbe (firstn 2 p))) as hl eqn:Ehl. clear Ehl. intros H L2.
  destruct (sp_walk _ (skipn 2 p) _ 0) as [[[hs p2] tot]|] eqn:Ew; [|discriminate].
  destruct (tot =? hl)%nat eqn:Et; cbn [negb] in H; [|discriminate].
  destruct (sp_walk _ (skipn 2 p2) _ 0) as [[[us p4] tot2]|]; [|discriminate].
  destruct (negb (tot2 =? Z.to_nat (unbe (firstn 2 p2)))%nat); [discriminate|].
  injection H as <- _. cbn [sp_hashed_raw]. apply Nat.eqb_eq in Et.
  destruct (sp_walk_spec _ _ _ _ _ _ _ Ew) as [_ [Lw _]].
  rewrite firstn_length. rewrite skipn_length in Lw. lia.
Qed.

(* the hash context of an accepted signature is literally the received octets *)
Corollary hcontext_is_received p s : sig_body_parse p = Some s ->
  hcontext (fields_of s) = 4 :: firstn (3 + length (sp_hashed_raw (sg_sub s))) p.
Proof.
  intros H. destruct (hashed_region_verbatim p s H) as [rest ->].
  unfold hcontext, fields_of. cbn [sf_ver sf_type sf_pkalg sf_halg sf_hashed app firstn Nat.add].
  rewrite firstn_app_exact by reflexivity. reflexivity.
Qed.

(* two accepted packets that differ anywhere in the signed region (type, algorithm ids, hashed area)
   never have the same hash input, for any subjects *)
Theorem signed_region_change_changes_input p p' s s' subj subj' d d' :
  sig_body_parse p = Some s -> sig_body_parse p' = Some s' ->
  wf_fields (fields_of s) -> wf_fields (fields_of s') ->
  firstn (3 + length (sp_hashed_raw (sg_sub s))) p <> firstn (3 + length (sp_hashed_raw (sg_sub s'))) p' ->
  hashdata (fields_of s) subj = Some d -> hashdata (fields_of s') subj' = Some d' -> d <> d'.
Proof.
  intros H H' W W' N Hd Hd'.
  apply (different_fields_different_input (fields_of s) (fields_of s') subj subj' d d' W W'); try assumption.
  intro E. apply N.
  pose proof (hcontext_is_received p s H) as C. pose proof (hcontext_is_received p' s' H') as C'.
  rewrite E in C. rewrite C in C'. injection C' as C'.
  assert (L : length (sp_hashed_raw (sg_sub s)) = length (sp_hashed_raw (sg_sub s'))).
  { apply (f_equal sf_hashed) in E. cbn in E. rewrite E. reflexivity. }
  rewrite L. rewrite L in C'. exact C'.
Qed.

(* ---------- C01: a signature naming another key is never examined, hence never good ---------- *)
Lemma examined_iff ids issuer : examined ids issuer = true <-> In issuer ids.
Proof.
  unfold examined. rewrite existsb_exists. split.
  - intros [x [Hin Hx]]. apply eqb_bytes_eq in Hx. subst. exact Hin.
  - intros H. exists issuer. split; [exact H|apply eqb_bytes_refl].
Qed.

Theorem wrong_key_never_examined pk_verify pub ids issues fails issuer s subj :
  ~ In issuer ids -> verify_explicit pk_verify pub ids issues fails issuer s subj = None.
Proof.
  intros H. unfold verify_explicit. destruct (examined ids issuer) eqn:E; [|reflexivity].
  apply examined_iff in E. contradiction.
Qed.

Theorem filter_sigs_sound {A} ids (sigs : list (bytes * A)) s : In s (filter_sigs ids sigs) <-> In s sigs /\ In (fst s) ids.
Proof. unfold filter_sigs. rewrite filter_In. rewrite examined_iff. tauto. Qed.
