(* C15 proofs: the invariant of key-management histories. *)
From Coq Require Import ZArith List Bool Lia ZifyBool Permutation Arith.
Import ListNotations.
Require Import PV.Model.KeyStruct PV.Model.KeyHist PV.Proofs.KeyStruct_lemmas PV.Proofs.KeyStruct_lemmas2 PV.Proofs.KeyStruct_lemmas3.
Open Scope Z_scope.

(* ---------- symbolic signatures ---------- *)
Lemma eqb_lz_refl : forall a, eqb_lz a a = true.
Proof. induction a as [|x a IH]; simpl; auto. rewrite Z.eqb_refl, IH. reflexivity. Qed.
Lemma eqb_lz_eq : forall a b, eqb_lz a b = true -> a = b.
Proof.
  induction a as [|x a IH]; intros [|y b] H; simpl in H; try discriminate; auto.
  apply andb_true_iff in H. destruct H as [H1 H2]. apply Z.eqb_eq in H1. rewrite (IH b H2), H1. reflexivity.
Qed.
Lemma eqb_ob_refl : forall a, eqb_ob a a = true.
Proof. intros [[|]|]; reflexivity. Qed.
Lemma subject_eqb_refl : forall a, subject_eqb a a = true.
Proof. intros [k|k i c|k s]; simpl; rewrite ?Z.eqb_refl, ?eqb_reflx, ?eqb_lz_refl; reflexivity. Qed.
Lemma digest_eqb_refl : forall d, digest_eqb d d = true.
Proof.
  intro d. unfold digest_eqb. rewrite subject_eqb_refl, !Z.eqb_refl, eqb_ob_refl, eqb_reflx, eqb_lz_refl. reflexivity.
Qed.

(* a signature made by `sign` verifies under the signer's public half for the subject it was made over *)
Lemma verifies_sign : forall sk typ t e p info subj, verifies sk (sign sk typ t e p info subj) subj = true.
Proof. intros. unfold verifies, sign, hashdata. simpl. rewrite Z.eqb_refl, digest_eqb_refl. reflexivity. Qed.

(* ---------- list helpers ---------- *)
Lemma replace_nth_in {A : Type} : forall j (x : A) l y, In y (replace_nth j x l) -> y = x \/ In y l.
Proof.
  intros j x l. revert j. induction l as [|z r IH]; intros j y H; simpl in H.
  - destruct j; destruct H.
  - destruct j as [|j]; simpl in H.
    + destruct H as [H|H]; [left; auto | right; right; exact H].
    + destruct H as [H|H]; [right; left; exact H|]. destruct (IH _ _ H); auto. right. right. assumption.
Qed.

Lemma replace_nth_length {A : Type} : forall j (x : A) l, length (replace_nth j x l) = length l.
Proof. intros j x l. revert j. induction l as [|z r IH]; intros [|j]; simpl; auto. Qed.

Lemma remove_replace_nth {A : Type} : forall j (x : A) l, remove_nth j (replace_nth j x l) = remove_nth j l.
Proof.
  intros j x l. revert j. induction l as [|z r IH]; intros [|j]; simpl; auto.
  rewrite !remove_nth_cons. rewrite IH. reflexivity.
Qed.

Lemma nth_replace_nth {A : Type} : forall j (x : A) l, (j < length l)%nat -> nth_error (replace_nth j x l) j = Some x.
Proof. intros j x l. revert j. induction l as [|z r IH]; intros [|j] H; simpl in *; try lia; auto. apply IH. lia. Qed.

Lemma nth_replace_nth_other {A : Type} : forall j j' (x : A) l, j <> j' -> nth_error (replace_nth j x l) j' = nth_error l j'.
Proof.
  intros j j' x l. revert j j'. induction l as [|z r IH]; intros [|j] [|j'] H; simpl; auto; try congruence.
Qed.

Lemma Forall_replace_nth {A : Type} (P : A -> Prop) : forall j x l, Forall P l -> P x -> Forall P (replace_nth j x l).
Proof.
  intros j x l. revert j. induction l as [|z r IH]; intros j Hl Hx.
  - destruct j; simpl; constructor.
  - inversion Hl; subst. destruct j; simpl; constructor; auto.
Qed.

Lemma map_replace_nth_same {A B : Type} (f : A -> B) : forall j x l y, nth_error l j = Some y -> f x = f y ->
  map f (replace_nth j x l) = map f l.
Proof.
  intros j x l. revert j. induction l as [|z r IH]; intros [|j] y H E; simpl in *; try discriminate; auto.
  - inversion H; subst. rewrite E. reflexivity.
  - rewrite (IH j y H E). reflexivity.
Qed.

Lemma find_uid_spec : forall isuid c l j, find_uid isuid c l = Some j ->
  exists u, nth_error l j = Some u /\ u_isuid u = isuid /\ u_content u = c.
Proof.
  intros isuid c l. induction l as [|u r IH]; intros j H; simpl in H; [discriminate|].
  destruct (Bool.eqb (u_isuid u) isuid && eqb_lz (u_content u) c) eqn:E.
  - inversion H; subst. apply andb_true_iff in E. destruct E as [E1 E2]. exists u. simpl.
    repeat split; auto using eqb_prop, eqb_lz_eq.
  - destruct (find_uid isuid c r) as [j0|]; [|discriminate]. inversion H; subst. simpl. apply IH. reflexivity.
Qed.

Lemma find_uid_none : forall isuid c l, find_uid isuid c l = None ->
  forall u, In u l -> ~ (u_isuid u = isuid /\ u_content u = c).
Proof.
  intros isuid c l. induction l as [|u r IH]; intros H x Hx [E1 E2]; [destruct Hx|]. simpl in H.
  destruct (Bool.eqb (u_isuid u) isuid && eqb_lz (u_content u) c) eqn:E; [discriminate|].
  destruct (find_uid isuid c r) eqn:F; [discriminate|]. destruct Hx as [Hx|Hx].
  - subst x. rewrite E1, E2, eqb_reflx, eqb_lz_refl in E. discriminate.
  - apply (IH eq_refl x Hx). auto.
Qed.

Lemma find_uid_none_intro : forall isuid c l, (forall u, In u l -> ~ (u_isuid u = isuid /\ u_content u = c)) -> find_uid isuid c l = None.
Proof.
  intros isuid c l H. destruct (find_uid isuid c l) as [j|] eqn:E; auto.
  apply find_uid_spec in E. destruct E as [u [E1 E2]]. apply nth_error_In in E1. exfalso. apply (H u E1). exact E2.
Qed.

Lemma find_sub_spec : forall label l j, find_sub label l = Some j -> exists sk, nth_error l j = Some sk /\ sk_label sk = label.
Proof.
  intros label l. induction l as [|sk r IH]; intros j H; simpl in H; [discriminate|].
  destruct (sk_label sk =? label) eqn:E.
  - inversion H; subst. exists sk. split; auto. apply Z.eqb_eq. exact E.
  - destruct (find_sub label r) as [j0|]; [|discriminate]. inversion H; subst. simpl. apply IH. reflexivity.
Qed.

(* ---------- the invariant in Prop form ---------- *)
Definition invP (k : key) : Prop :=
  (forall u s, In u (p_uids k) -> In s (u_sigs u) -> uid_sig_ok k u s = true)
  /\ (forall it, In it (p_sigs k) -> key_item_ok k it = true)
  /\ (forall sk it, In sk (p_subs k) -> In it (sk_sigs sk) -> sub_item_ok k sk it = true).

Lemma inv_key_P : forall k, inv_key k = true <-> invP k.
Proof.
  intro k. unfold inv_key, invP. rewrite !andb_true_iff, !forallb_forall. split.
  - intros [[H1 H2] H3]. repeat split; auto.
    + intros u s Hu Hs. specialize (H1 u Hu). rewrite forallb_forall in H1. auto.
    + intros sk it Hsk Hit. specialize (H3 sk Hsk). rewrite forallb_forall in H3. auto.
  - intros [H1 [H2 H3]]. repeat split; auto.
    + intros u Hu. apply forallb_forall. intros s Hs. auto.
    + intros sk Hsk. apply forallb_forall. intros it Hit. auto.
Qed.

Definition goodP (k : key) : Prop := invP k /\ sorted_keyP k /\ wfk k.
Lemma good_key_P : forall k, good_key k = true <-> goodP k.
Proof. intro k. unfold good_key, goodP. rewrite !andb_true_iff, inv_key_P, all_sortedb_P, wfkb_P. tauto. Qed.

Definition goodW (w : world) : Prop := Forall (fun ob => goodP (o_key ob)) w.
Lemma inv_world_P : forall w, inv_world w = true <-> goodW w.
Proof.
  intro w. unfold inv_world, goodW. rewrite forallb_forall, Forall_forall. split; intros H ob Hob.
  - apply good_key_P. auto.
  - apply good_key_P. auto.
Qed.

Lemma upd_good : forall w i f, goodW w -> (forall ob, goodP (o_key ob) -> goodP (o_key (f ob))) -> goodW (upd w i f).
Proof.
  intros w i f Hw Hf. unfold upd. destruct (nth_error w i) as [ob|] eqn:E; auto.
  apply Forall_replace_nth; auto. apply Hf. unfold goodW in Hw. rewrite Forall_forall in Hw. apply Hw. eapply nth_error_In. exact E.
Qed.

(* the checks depend on the key only through its label *)
Lemma uid_sig_ok_cong : forall k k' u u' s, p_label k = p_label k' -> u_isuid u = u_isuid u' -> u_content u = u_content u' ->
  uid_sig_ok k u s = uid_sig_ok k' u' s.
Proof. intros. unfold uid_sig_ok. congruence. Qed.
Lemma key_item_ok_cong : forall k k' it, p_label k = p_label k' -> key_item_ok k it = key_item_ok k' it.
Proof. intros k k' it H. unfold key_item_ok. destruct it; auto. rewrite H. reflexivity. Qed.
Lemma sub_item_ok_cong : forall k k' sk sk' it, p_label k = p_label k' -> sk_label sk = sk_label sk' -> sk_cansign sk = sk_cansign sk' ->
  sub_item_ok k sk it = sub_item_ok k' sk' it.
Proof. intros k k' sk sk' it H1 H2 H3. unfold sub_item_ok, emb_ok. rewrite H1, H2, H3. reflexivity. Qed.

(* ---------- the pieces the operations are made of keep a key good ---------- *)
Lemma good_empty : forall label, goodP {| p_label := label; p_public := false; p_sigs := []; p_uids := []; p_subs := [] |}.
Proof.
  intro label. split; [|split].
  - split; [|split]; simpl; intros; contradiction.
  - split; [|split; [|split]]; simpl; intros; try contradiction; reflexivity.
  - split; [intros sk []|constructor].
Qed.

Lemma good_key_or_uid : forall k u, goodP k ->
  (forall s, In s (u_sigs u) -> uid_sig_ok k u s = true) -> sortedb sig_lt (u_sigs u) = true -> goodP (key_or_uid k u).
Proof.
  intros k u [[I1 [I2 I3]] [[S1 [S2 [S3 S4]]] W]] Hu Hs. split; [|split].
  - split; [|split].
    + intros u' s Hin Hs'. simpl in Hin. apply insort_in in Hin. destruct Hin as [E|Hin].
      * subst u'. exact (Hu s Hs').
      * exact (I1 u' s Hin Hs').
    + exact I2.
    + exact I3.
  - split; [|split; [|split]].
    + exact S1.
    + intros u' Hin. simpl in Hin. apply insort_in in Hin. destruct Hin as [E|Hin]; [subst; exact Hs | exact (S2 u' Hin)].
    + exact S3.
    + simpl. apply insort_sorted; auto using uid_lt_irrefl, uid_lt_trans, uid_lt_negtrans.
  - exact W.
Qed.

Lemma good_attach : forall k j u s, goodP k -> nth_error (p_uids k) j = Some u -> uid_sig_ok k u s = true ->
  goodP (attach_uid_sig k j s).
Proof.
  intros k j u s [[I1 [I2 I3]] [[S1 [S2 [S3 S4]]] W]] Hn Hs. unfold attach_uid_sig. rewrite Hn.
  assert (In u (p_uids k)) as Hu by (eapply nth_error_In; eauto).
  assert (forall x, In x (resort (uid_lt (p_label k)) j (replace_nth j (uid_or_sig u s) (p_uids k))) -> x = uid_or_sig u s \/ In x (p_uids k)) as Hmem.
  { intros x Hx. apply (Permutation_in _ (resort_perm _ _ _)) in Hx. apply replace_nth_in in Hx. exact Hx. }
  split; [|split].
  - split; [|split].
    + intros u' s' Hin Hs'. simpl in Hin. apply Hmem in Hin. destruct Hin as [E|Hin].
      * subst u'. simpl in Hs'. apply insort_in in Hs'. rewrite (uid_sig_ok_cong _ k _ u) by reflexivity.
        destruct Hs' as [E|Hs']; [subst; exact Hs | exact (I1 u s' Hu Hs')].
      * exact (I1 u' s' Hin Hs').
    + exact I2.
    + exact I3.
  - split; [|split; [|split]].
    + exact S1.
    + intros u' Hin. simpl in Hin. apply Hmem in Hin. destruct Hin as [E|Hin]; [|exact (S2 u' Hin)]. subst u'. simpl.
      apply insort_sorted; auto using sig_lt_irrefl, sig_lt_trans, sig_lt_negtrans.
    + exact S3.
    + simpl. apply resort_sorted; auto using uid_lt_irrefl, uid_lt_trans, uid_lt_negtrans.
      * rewrite replace_nth_length. apply nth_error_Some. congruence.
      * rewrite remove_replace_nth. apply sortedb_remove_nth. exact S4.
  - exact W.
Qed.

Lemma good_with_sigs : forall k s, goodP k -> c_type (s_core s) <> T_SUBKEY_BINDING ->
  verifies (c_issuer (s_core s)) (s_core s) (OnKey (p_label k)) = true -> goodP (with_sigs k (key_or_sig (p_sigs k) s)).
Proof.
  intros k s [[I1 [I2 I3]] [[S1 [S2 [S3 S4]]] W]] Ht Hv. split; [|split].
  - split; [|split].
    + exact I1.
    + intros it Hin. simpl in Hin. apply key_or_sig_in in Hin. destruct Hin as [E|[Hin|[E _]]].
      * subst it. unfold key_item_ok. simpl. rewrite Hv. simpl. apply negb_true_iff. apply Z.eqb_neq. exact Ht.
      * exact (I2 it Hin).
      * contradiction.
    + exact I3.
  - split; [|split; [|split]].
    + simpl. apply key_or_sig_spec. exact S1.
    + exact S2.
    + exact S3.
    + exact S4.
  - exact W.
Qed.

Lemma good_del_uid : forall k j, goodP k -> goodP (with_uids k (remove_nth j (p_uids k))).
Proof.
  intros k j [[I1 [I2 I3]] [[S1 [S2 [S3 S4]]] W]]. split; [|split].
  - split; [|split].
    + intros u s Hu Hs. simpl in Hu. apply remove_nth_incl in Hu. exact (I1 u s Hu Hs).
    + exact I2.
    + exact I3.
  - split; [|split; [|split]].
    + exact S1.
    + intros u Hu. simpl in Hu. apply remove_nth_incl in Hu. exact (S2 u Hu).
    + exact S3.
    + simpl. apply sortedb_remove_nth. exact S4.
  - exact W.
Qed.

Lemma good_sub_set : forall k sk, goodP k -> (forall it, In it (sk_sigs sk) -> sub_item_ok k sk it = true) ->
  sortedb item_lt (sk_sigs sk) = true -> sk_public sk = p_public k -> goodP (with_subs k (sub_set sk (p_subs k))).
Proof.
  intros k sk [[I1 [I2 I3]] [[S1 [S2 [S3 S4]]] [W1 W2]]] Hi Hs Hp. split; [|split].
  - split; [|split].
    + exact I1.
    + exact I2.
    + intros sk' it Hin Hit. simpl in Hin. apply sub_set_in in Hin. destruct Hin as [E|Hin]; [subst; exact (Hi it Hit) | exact (I3 sk' it Hin Hit)].
  - split; [|split; [|split]].
    + exact S1.
    + exact S2.
    + intros sk' Hin. simpl in Hin. apply sub_set_in in Hin. destruct Hin as [E|Hin]; [subst; exact Hs | exact (S3 sk' Hin)].
    + exact S4.
  - split.
    + intros sk' Hin. simpl in Hin. apply sub_set_in in Hin. destruct Hin as [E|Hin]; [subst; exact Hp | exact (W1 sk' Hin)].
    + simpl. apply sub_set_labels_nodup. exact W2.
Qed.

Lemma good_sub_replace : forall k j sk sk', goodP k -> nth_error (p_subs k) j = Some sk ->
  sk_label sk' = sk_label sk -> sk_public sk' = sk_public sk ->
  (forall it, In it (sk_sigs sk') -> sub_item_ok k sk' it = true) -> sortedb item_lt (sk_sigs sk') = true ->
  goodP (with_subs k (replace_nth j sk' (p_subs k))).
Proof.
  intros k j sk sk' [[I1 [I2 I3]] [[S1 [S2 [S3 S4]]] [W1 W2]]] Hn El Ep Hi Hs.
  assert (In sk (p_subs k)) as Hsk by (eapply nth_error_In; eauto).
  split; [|split].
  - split; [|split].
    + exact I1.
    + exact I2.
    + intros x it Hin Hit. simpl in Hin. apply replace_nth_in in Hin. destruct Hin as [E|Hin]; [subst; exact (Hi it Hit) | exact (I3 x it Hin Hit)].
  - split; [|split; [|split]].
    + exact S1.
    + exact S2.
    + intros x Hin. simpl in Hin. apply replace_nth_in in Hin. destruct Hin as [E|Hin]; [subst; exact Hs | exact (S3 x Hin)].
    + exact S4.
  - split.
    + intros x Hin. simpl in Hin. apply replace_nth_in in Hin. destruct Hin as [E|Hin]; [subst x; rewrite Ep; exact (W1 sk Hsk) | exact (W1 x Hin)].
    + simpl. rewrite (map_replace_nth_same sk_label j sk' (p_subs k) sk Hn El). exact W2.
Qed.

(* rebuilding (copy, public twin) and stripping *)
Lemma inv_strip : forall k, invP k -> invP (strip_nonexportable k).
Proof.
  intros k [I1 [I2 I3]]. repeat split; simpl.
  - intros u s Hu Hs. apply in_map_iff in Hu. destruct Hu as [u0 [E Hu0]]. subst u. simpl in Hs. apply strip_sigs_in in Hs.
    rewrite (uid_sig_ok_cong _ k _ u0); auto. apply I1; tauto.
  - intros it Hin. apply in_map_iff in Hin. destruct Hin as [s [E Hs]]. subst it. apply strip_sigs_in in Hs. destruct Hs as [Hs _].
    apply in_tops in Hs. rewrite (key_item_ok_cong _ k); auto.
  - intros sk it Hsk Hit. apply in_map_iff in Hsk. destruct Hsk as [sk0 [E Hsk0]]. subst sk. simpl in Hit.
    apply in_map_iff in Hit. destruct Hit as [s [E Hs]]. subst it. apply strip_sigs_in in Hs. destruct Hs as [Hs _].
    apply in_tops in Hs. rewrite (sub_item_ok_cong _ k _ sk0); auto.
Qed.

Lemma inv_rebuild : forall pub k, invP k -> invP (rebuild_as pub k).
Proof.
  intros pub k [I1 [I2 I3]]. repeat split; simpl.
  - intros u s Hu Hs. apply insort_all_in in Hu. destruct Hu as [[]|Hu]. apply in_map_iff in Hu. destruct Hu as [u0 [E Hu0]]. subst u.
    apply (proj1 (copy_uid_in _ _)) in Hs. rewrite (uid_sig_ok_cong _ k _ u0); auto; rewrite copy_uid_eq; reflexivity.
  - intros it Hin. apply fold_key_or_sig_in in Hin. destruct Hin as [[]|[s [Hs [E|[Ht _]]]]].
    + subst it. apply in_tops in Hs. rewrite (key_item_ok_cong _ k); auto.
    + apply in_tops in Hs. specialize (I2 _ Hs). simpl in I2. apply andb_true_iff in I2. destruct I2 as [_ I2].
      apply negb_true_iff in I2. apply Z.eqb_neq in I2. contradiction.
  - intros sk it Hsk Hit. apply fold_sub_set_in in Hsk. destruct Hsk as [[]|[sk0 [Hsk0 E]]]. subst sk. simpl in Hit.
    rewrite (sub_item_ok_cong _ k _ sk0); auto.
    apply fold_key_or_sig_in in Hit. destruct Hit as [[]|[s [Hs [E|[Ht [e [He E]]]]]]].
    + subst it. apply in_tops in Hs. exact (I3 sk0 _ Hsk0 Hs).
    + subst it. apply in_tops in Hs. specialize (I3 sk0 _ Hsk0 Hs). simpl in I3. simpl.
      apply andb_true_iff in I3. destruct I3 as [_ I3]. rewrite Ht in I3. simpl in I3.
      apply andb_true_iff in I3. destruct I3 as [I3 _]. rewrite forallb_forall in I3. exact (I3 e He).
Qed.

Lemma good_rebuild : forall pub k, invP k -> goodP (rebuild_as pub k).
Proof. intros pub k H. split; [apply inv_rebuild; exact H|]. split; [apply rebuild_sorted | apply rebuild_wfk]. Qed.

Lemma good_reimport : forall k, invP k -> wf_pub k ->
  first_key (import (export k)) = Some (copy (strip_nonexportable k)) /\ goodP (copy (strip_nonexportable k)).
Proof.
  intros k Hi Hw. split.
  - rewrite import_export by exact Hw. reflexivity.
  - apply good_rebuild. apply inv_strip. exact Hi.
Qed.

Lemma pubkey_of_inv : forall k, goodP k -> invP (pubkey_of k) /\ wf_pub (pubkey_of k).
Proof.
  intros k [Hi [Hs [Hw _]]]. unfold pubkey_of. destruct (p_public k); [auto|].
  split; [apply inv_rebuild; exact Hi | apply rebuild_wfk].
Qed.

(* ---------- one step ---------- *)
Ltac keep := intros ob Hg; simpl; try exact Hg.

Theorem inv_step : forall w o, goodW w -> goodW (apply w o).
Proof.
  intros w o Hw. destruct o; simpl.
  - (* create *) apply Forall_app. split; auto. constructor; [|constructor]. apply good_empty.
  - (* add_uid *) apply upd_good; auto. intros ob Hg. destruct (certify_ok ob); auto. simpl.
    apply good_key_or_uid; auto.
    intros s Hs. unfold uid_or_sig in Hs. cbn [u_sigs] in Hs. apply insort_in in Hs. destruct Hs as [E|[]]. subst s.
    unfold uid_sig_ok. simpl. apply verifies_sign.
  - (* recertify *) apply upd_good; auto. intros ob Hg. destruct (find_uid isuid c (p_uids (o_key ob))) as [j|] eqn:F; auto.
    destruct (certify_ok ob); auto. simpl. destruct (find_uid_spec _ _ _ _ F) as [u [Hn [E1 E2]]].
    eapply good_attach; eauto. unfold uid_sig_ok. simpl. rewrite E1, E2. apply verifies_sign.
  - (* third-party certify *) destruct (nth_error w by_) as [cert|]; auto. apply upd_good; auto. intros ob Hg.
    destruct (find_uid isuid c (p_uids (o_key ob))) as [j|] eqn:F; auto.
    destruct (certify_ok cert); auto. simpl. destruct (find_uid_spec _ _ _ _ F) as [u [Hn [E1 E2]]].
    eapply good_attach; eauto. unfold uid_sig_ok. simpl. rewrite E1, E2. apply verifies_sign.
  - (* third-party direct-key certification *) destruct (nth_error w by_) as [cert|]; auto. apply upd_good; auto. intros ob Hg.
    destruct (certify_ok cert); auto. simpl. apply good_with_sigs; auto; [discriminate | apply verifies_sign].
  - (* revoke uid *) apply upd_good; auto. intros ob Hg. destruct (find_uid isuid c (p_uids (o_key ob))) as [j|] eqn:F; auto.
    destruct (revoke_ok ob); auto. simpl. destruct (find_uid_spec _ _ _ _ F) as [u [Hn [E1 E2]]].
    eapply good_attach; eauto. unfold uid_sig_ok. simpl. rewrite E1, E2. apply verifies_sign.
  - (* attestation by the key on its own identity *) apply upd_good; auto. intros ob Hg. destruct (find_uid isuid c (p_uids (o_key ob))) as [j|] eqn:F; auto.
    destruct (certify_ok ob); auto. simpl. destruct (find_uid_spec _ _ _ _ F) as [u [Hn [E1 E2]]].
    eapply good_attach; eauto. unfold uid_sig_ok. simpl. rewrite E1, E2. apply verifies_sign.
  - (* add_subkey *) apply upd_good; auto. intros ob Hg. destruct (p_public (o_key ob) || negb (o_lock ob =? 0)) eqn:E; auto.
    apply orb_false_iff in E. destruct E as [Ep _]. simpl.
    destruct (direct_ok ob) eqn:Eok; [|exact Hg]. simpl.
    apply good_sub_set; auto.
    + simpl.
      intros it Hin. apply key_or_sig_in in Hin. simpl in Hin. destruct Hin as [E|[[]|[_ [e [He E]]]]].
      * subst it. simpl. rewrite verifies_sign. simpl. destruct cansign; simpl; auto.
        unfold emb_ok. simpl. rewrite verifies_sign. reflexivity.
      * subst it. destruct cansign; [|destruct He]. destruct He as [He|[]]. subst e. simpl. unfold emb_ok. simpl.
        rewrite verifies_sign. reflexivity.
    + simpl. apply key_or_sig_spec. reflexivity.
  - (* add_subkey of a key with identities: refused, nothing changes *) exact Hw.
  - (* revoke subkey *) apply upd_good; auto. intros ob Hg. destruct (find_sub label (p_subs (o_key ob))) as [j|] eqn:F; auto.
    destruct (revoke_ok ob); auto. destruct (find_sub_spec _ _ _ F) as [sk [Hn El]]. rewrite Hn. simpl.
    assert (In sk (p_subs (o_key ob))) as Hsk by (eapply nth_error_In; eauto).
    pose proof Hg as [[I1 [I2 I3]] [[S1 [S2 [S3 S4]]] W]].
    apply (good_sub_replace (o_key ob) j sk _ Hg Hn); try reflexivity.
    + simpl. intros it Hin. apply key_or_sig_in in Hin. simpl in Hin. destruct Hin as [E|[Hin|[E _]]].
      * subst it. simpl. rewrite <- El. rewrite verifies_sign. reflexivity.
      * rewrite (sub_item_ok_cong _ (o_key ob) _ sk); auto.
      * discriminate.
    + simpl. apply key_or_sig_spec. auto.
  - (* revoke key *) apply upd_good; auto. intros ob Hg. destruct (revoke_ok ob); auto. simpl.
    apply good_with_sigs; auto; [discriminate | apply verifies_sign].
  - (* add revoker *) destruct (nth_error w by_) as [rv|]; auto. apply upd_good; auto. intros ob Hg.
    destruct (direct_ok ob); auto. simpl. apply good_with_sigs; auto; [discriminate | apply verifies_sign].
  - (* del_uid *) apply upd_good; auto. intros ob Hg. destruct (find_uid true c (p_uids (o_key ob))); auto. simpl. apply good_del_uid. exact Hg.
  - (* protect *) apply upd_good; auto. intros ob Hg. destruct (p_public (o_key ob)); auto.
  - (* unlock *) apply upd_good; auto. intros ob Hg. destruct (o_lock ob =? 2); auto.
  - (* lock *) apply upd_good; auto. intros ob Hg. destruct (o_lock ob =? 1); auto.
  - (* copy *) apply upd_good; auto. intros ob Hg. simpl. apply good_rebuild. apply Hg.
  - (* export + import *) apply upd_good; auto. intros ob Hg.
    destruct (good_reimport (o_key ob)) as [E G]; [apply Hg | apply Hg |]. rewrite E. simpl. exact G.
  - (* publish the public twin *) destruct (nth_error w k) as [ob|] eqn:En; auto.
    assert (goodP (o_key ob)) as Hg. { unfold goodW in Hw. rewrite Forall_forall in Hw. apply Hw. eapply nth_error_In; eauto. }
    destruct (pubkey_of_inv _ Hg) as [Hi Hp]. destruct (good_reimport _ Hi Hp) as [E G]. rewrite E.
    apply Forall_app. split; auto.
Qed.

Theorem inv_init : goodW [].
Proof. constructor. Qed.

Theorem inv_reachable : forall ops, goodW (run ops).
Proof.
  intro ops. unfold run. assert (forall w, goodW w -> goodW (fold_left apply ops w)) as G.
  { induction ops as [|o ops IH]; intros w Hw; simpl; auto. apply IH. apply inv_step. exact Hw. }
  apply G. apply inv_init.
Qed.

(* boolean forms (the same functions the harness evaluates on the extracted model) *)
Theorem inv_step_b : forall w o, inv_world w = true -> inv_world (apply w o) = true.
Proof. intros w o H. apply inv_world_P. apply inv_step. apply inv_world_P. exact H. Qed.
Theorem inv_reachable_b : forall ops, inv_world (run ops) = true.
Proof. intro ops. apply inv_world_P. apply inv_reachable. Qed.

(* ---------- export / import of a good key ---------- *)
Theorem inv_survives_export_import : forall k, good_key k = true ->
  exists k', import (export k) = Ok [k'] /\ good_key k' = true.
Proof.
  intros k H. apply good_key_P in H. destruct H as [Hi [Hs [Hw Hn]]].
  exists (copy (strip_nonexportable k)). split; [apply import_export; exact Hw|].
  apply good_key_P. apply good_rebuild. apply inv_strip. exact Hi.
Qed.

(* ---------- the effective self-signature ---------- *)
Lemma find_rev_last {A : Type} (f : A -> bool) : forall l x, find f (rev l) = Some x ->
  exists l1 l2, l = l1 ++ x :: l2 /\ f x = true /\ forall y, In y l2 -> f y = false.
Proof.
  intros l. induction l as [|z r IH] using rev_ind; intros x H; [discriminate|].
  rewrite rev_app_distr in H. simpl in H. destruct (f z) eqn:E.
  - inversion H; subst. exists r, []. repeat split; auto. intros y [].
  - destruct (IH x H) as [l1 [l2 [E1 [E2 E3]]]]. exists l1, (l2 ++ [z]). subst r. rewrite <- app_assoc. repeat split; auto.
    intros y Hy. apply in_app_or in Hy. destruct Hy as [Hy|[Hy|[]]]; [auto | subst; auto].
Qed.

Lemma sortedb_app_mid {A : Type} (lt : A -> A -> bool) : forall l1 x l2, sortedb lt (l1 ++ x :: l2) = true ->
  forall y, In y l1 -> lt x y = false.
Proof.
  induction l1 as [|z r IH]; intros x l2 H y Hy; [destruct Hy|]. simpl app in H. apply sortedb_cons in H. destruct H as [H1 H2].
  destruct Hy as [Hy|Hy]; [subst; apply H1; apply in_or_app; right; left; reflexivity | eapply IH; eauto].
Qed.

(* selfsig (after repair 812bc0f) is a CERTIFICATION issued by the key, no certification issued by the key is newer, and none
   stands behind it *)
Theorem effective_is_most_recent : forall K u s, sortedb sig_lt (u_sigs u) = true -> selfsig K u = Some s ->
  In s (u_sigs u) /\ c_issuer (s_core s) = K /\ is_cert_type (c_type (s_core s)) = true
  /\ forall s', In s' (u_sigs u) -> c_issuer (s_core s') = K -> is_cert_type (c_type (s_core s')) = true ->
       c_created (s_core s') <= c_created (s_core s).
Proof.
  intros K u s Hs H. unfold selfsig in H. apply find_rev_last in H. destruct H as [l1 [l2 [E [Hf Hl2]]]].
  apply andb_true_iff in Hf. destruct Hf as [Hc Hf]. apply Z.eqb_eq in Hf. rewrite E.
  split; [apply in_or_app; right; left; reflexivity|]. split; [exact Hf|]. split; [exact Hc|].
  intros s' Hin Hi Hc'. apply in_app_or in Hin. destruct Hin as [Hin|[Hin|Hin]].
  - rewrite E in Hs. pose proof (sortedb_app_mid sig_lt l1 s l2 Hs s' Hin) as L. unfold sig_lt, score_lt in L. lia.
  - subst. lia.
  - specialize (Hl2 s' Hin). cbv beta in Hl2. rewrite Hc', Hi, Z.eqb_refl in Hl2. discriminate.
Qed.

(* ... and there is none exactly when the key has issued no certification on the identity *)
Theorem effective_none_iff : forall K u, selfsig K u = None <->
  forall s, In s (u_sigs u) -> c_issuer (s_core s) = K -> is_cert_type (c_type (s_core s)) = false.
Proof.
  intros K u. unfold selfsig. split.
  - intros H s Hin Hi. apply in_rev in Hin. apply (find_none _ _ H) in Hin. cbv beta in Hin.
    rewrite Hi, Z.eqb_refl, andb_true_r in Hin. exact Hin.
  - intros H. destruct (find _ (rev (u_sigs u))) as [s|] eqn:E; [|reflexivity].
    apply find_some in E. destruct E as [Hin Hq]. apply in_rev in Hin. apply andb_true_iff in Hq. destruct Hq as [Hc Hi].
    apply Z.eqb_eq in Hi. rewrite (H s Hin Hi) in Hc. discriminate.
Qed.

(* the later-added of two same-second self-certifications wins (stable insort) *)
Theorem later_added_wins_ties : forall K u s, sortedb sig_lt (u_sigs u) = true -> c_issuer (s_core s) = K ->
  is_cert_type (c_type (s_core s)) = true ->
  (forall s', In s' (u_sigs u) -> c_created (s_core s') <= c_created (s_core s)) ->
  selfsig K (uid_or_sig u s) = Some s.
Proof.
  intros K u s Hs Hi Hc Hle. unfold selfsig, uid_or_sig. simpl.
  rewrite (insort_stable sig_lt sig_lt_negtrans s (u_sigs u) Hs).
  - rewrite rev_app_distr. simpl. rewrite Hc, Hi, Z.eqb_refl. reflexivity.
  - intros y Hy. specialize (Hle y Hy). unfold sig_lt, score_lt. lia.
Qed.

(* a signature that is not a certification by the key - a certification revocation, an attestation, anything by another key -
   leaves the effective self-signature of the identity as it was, wherever the deque puts it *)
(* revoking an identity / attesting on it: what the history step attaches is such a signature *)
Theorem revocation_keeps_effective : forall K u isuid c t typ, typ = T_CERT_REV \/ typ = T_ATTESTATION ->
  selfsig K (uid_or_sig u (plain (sign K typ t None false no_info (OnUid K isuid c)))) = selfsig K u.
Proof. intros K u isuid c t typ [->| ->]; apply noncert_keeps_effective; left; reflexivity. Qed.

(* ---------- removed identities ---------- *)
Lemma export_uid_packets : forall k isuid c, In (PUid isuid c) (export k) -> exists u, In u (p_uids k) /\ u_isuid u = isuid /\ u_content u = c.
Proof.
  intros k isuid c H. unfold export in H. destruct H as [H|H]; [discriminate|]. apply in_app_or in H. destruct H as [H|H].
  - unfold export_sigs in H. apply in_flat_map in H. destruct H as [s [_ H]]. destruct (exportable (s_core s)); simpl in H; intuition discriminate.
  - apply in_app_or in H. destruct H as [H|H].
    + apply in_flat_map in H. destruct H as [u [Hu H]]. unfold export_uid in H. destruct H as [H|H].
      * inversion H; subst. exists u. auto.
      * unfold export_sigs in H. apply in_flat_map in H. destruct H as [s [_ H]]. destruct (exportable (s_core s)); simpl in H; intuition discriminate.
    + apply in_flat_map in H. destruct H as [sk [_ H]]. unfold export_sub in H. destruct H as [H|H]; [discriminate|].
      unfold export_sigs in H. apply in_flat_map in H. destruct H as [s [_ H]]. destruct (exportable (s_core s)); simpl in H; intuition discriminate.
Qed.

Definition ukey (u : uid) : bool * list Z := (u_isuid u, u_content u).

Lemma rebuild_uids_keys : forall pub k u', In u' (p_uids (rebuild_as pub k)) -> exists u, In u (p_uids k) /\ ukey u' = ukey u.
Proof.
  intros pub k u' H. unfold rebuild_as in H. simpl in H. apply insort_all_in in H. destruct H as [[]|H].
  apply in_map_iff in H. destruct H as [u [E Hu]]. exists u. split; auto. subst u'. rewrite copy_uid_eq. reflexivity.
Qed.

Theorem removed_uid_absent : forall w i c ob j,
  nth_error w i = Some ob -> find_uid true c (p_uids (o_key ob)) = Some j ->
  NoDup (map ukey (p_uids (o_key ob))) ->
  exists ob', nth_error (apply w (ODelUid i c)) i = Some ob'
    /\ p_uids (o_key ob') = remove_nth j (p_uids (o_key ob))
    /\ find_uid true c (p_uids (o_key ob')) = None
    /\ ~ In (PUid true c) (export (o_key ob'))
    /\ ~ In (PUid true c) (export (copy (o_key ob')))
    /\ ~ In (PUid true c) (export (pubkey_of (o_key ob')))
    /\ (forall k2, import (export (o_key ob')) = Ok [k2] -> wf_pub (o_key ob') -> find_uid true c (p_uids k2) = None).
Proof.
  intros w i c ob j Hn F Hnd. cbv beta iota delta [apply]. unfold upd. rewrite Hn, F.
  exists (set_key ob (with_uids (o_key ob) (remove_nth j (p_uids (o_key ob))))).
  split; [apply nth_replace_nth; apply nth_error_Some; congruence|]. cbn [o_key set_key]. split; [reflexivity|].
  destruct (find_uid_spec _ _ _ _ F) as [u [Hu [E1 E2]]].
  assert (forall x, In x (remove_nth j (p_uids (o_key ob))) -> ~ (u_isuid x = true /\ u_content x = c)) as Habs.
  { intros x Hx [X1 X2]. pose proof (remove_nth_perm j _ u Hu) as P.
    assert (NoDup (map ukey (u :: remove_nth j (p_uids (o_key ob))))) as N.
    { eapply Permutation_NoDup; [|exact Hnd]. apply Permutation_map. exact P. }
    simpl in N. inversion N as [|? ? N1 _]; subst. apply N1. apply in_map_iff. exists x. split; auto. unfold ukey. congruence. }
  assert (forall pub, ~ In (PUid true c) (export (rebuild_as pub (with_uids (o_key ob) (remove_nth j (p_uids (o_key ob))))))) as Hreb.
  { intros pub H. apply export_uid_packets in H. destruct H as [u' [Hu' [X1 X2]]]. apply rebuild_uids_keys in Hu'.
    destruct Hu' as [u0 [Hu0 E]]. simpl in Hu0. apply (Habs u0 Hu0). unfold ukey in E. inversion E. split; congruence. }
  split; [apply find_uid_none_intro; exact Habs|]. split; [|split; [|split]].
  - intro H. apply export_uid_packets in H. destruct H as [u' [Hu' X]]. simpl in Hu'. exact (Habs u' Hu' X).
  - apply Hreb.
  - unfold pubkey_of. simpl. destruct (p_public (o_key ob)).
    + intro H. apply export_uid_packets in H. destruct H as [u' [Hu' X]]. simpl in Hu'. exact (Habs u' Hu' X).
    + apply Hreb.
  - intros k2 Hi Hw. rewrite import_export in Hi by exact Hw. inversion Hi; subst k2. apply find_uid_none_intro.
    intros x Hx [X1 X2]. unfold copy in Hx. apply rebuild_uids_keys in Hx. destruct Hx as [u0 [Hu0 E]]. simpl in Hu0.
    apply in_map_iff in Hu0. destruct Hu0 as [u1 [E' Hu1]]. subst u0. apply (Habs u1 Hu1).
    unfold ukey in E. simpl in E. inversion E. split; congruence.
Qed.

(* ---------- revocations are reported for exactly the revoked component ---------- *)
Lemma upd_other : forall w i f i', i <> i' -> nth_error (upd w i f) i' = nth_error w i'.
Proof. intros w i f i' H. unfold upd. destruct (nth_error w i); auto. apply nth_replace_nth_other. exact H. Qed.

Lemma upd_same : forall w i f ob, nth_error w i = Some ob -> nth_error (upd w i f) i = Some (f ob).
Proof. intros w i f ob H. unfold upd. rewrite H. apply nth_replace_nth. apply nth_error_Some. congruence. Qed.

Lemma in_nonempty {A : Type} : forall (x : A) l, In x l -> l <> [].
Proof. intros x l H E. rewrite E in H. destruct H. Qed.

Theorem revoke_key_exact : forall w i t ob, nth_error w i = Some ob -> revoke_ok ob = true ->
  exists ob', nth_error (apply w (ORevokeKey i t)) i = Some ob'
    /\ key_revocations (o_key ob') <> []
    /\ p_uids (o_key ob') = p_uids (o_key ob) /\ p_subs (o_key ob') = p_subs (o_key ob)
    /\ (forall it, In it (p_sigs (o_key ob')) -> In it (p_sigs (o_key ob)) \/ (c_type (icore it) = T_KEY_REV /\ c_created (icore it) = t))
    /\ forall i', i <> i' -> nth_error (apply w (ORevokeKey i t)) i' = nth_error w i'.
Proof.
  intros w i t ob Hn Hr. simpl. eexists. split; [apply upd_same; exact Hn|]. rewrite Hr. simpl. repeat split.
  - apply (in_nonempty (Top (plain (sign (p_label (o_key ob)) T_KEY_REV t None false no_info (OnKey (p_label (o_key ob))))))).
    unfold key_revocations. apply filter_In. split; [simpl; apply key_or_sig_in; left; reflexivity|]. simpl. rewrite Z.eqb_refl. reflexivity.
  - intros it Hin. apply key_or_sig_in in Hin. destruct Hin as [E|[Hin|[E _]]]; [subst; right; split; reflexivity | left; exact Hin | discriminate].
  - intros i' Hne. apply upd_other. exact Hne.
Qed.

Theorem revoke_subkey_exact : forall w i label t ob j sk, nth_error w i = Some ob -> revoke_ok ob = true ->
  find_sub label (p_subs (o_key ob)) = Some j -> nth_error (p_subs (o_key ob)) j = Some sk ->
  exists ob' sk', nth_error (apply w (ORevokeSubkey i label t)) i = Some ob'
    /\ nth_error (p_subs (o_key ob')) j = Some sk' /\ sk_label sk' = sk_label sk
    /\ sub_revocations (o_key ob') sk' <> []
    /\ (forall j', j <> j' -> nth_error (p_subs (o_key ob')) j' = nth_error (p_subs (o_key ob)) j')
    /\ p_uids (o_key ob') = p_uids (o_key ob) /\ p_sigs (o_key ob') = p_sigs (o_key ob)
    /\ forall i', i <> i' -> nth_error (apply w (ORevokeSubkey i label t)) i' = nth_error w i'.
Proof.
  intros w i label t ob j sk Hn Hr F Hj. simpl.
  set (s := plain (sign (p_label (o_key ob)) T_SUBKEY_REV t None false no_info (OnSub (p_label (o_key ob)) label))).
  eexists. exists {| sk_label := sk_label sk; sk_public := sk_public sk; sk_cansign := sk_cansign sk; sk_sigs := key_or_sig (sk_sigs sk) s |}.
  split; [apply upd_same; exact Hn|]. rewrite F, Hr, Hj. simpl. repeat split.
  - apply nth_replace_nth. apply nth_error_Some. congruence.
  - apply (in_nonempty (Top s)). unfold sub_revocations. apply filter_In. split; [simpl; apply key_or_sig_in; left; reflexivity|].
    simpl. rewrite Z.eqb_refl. reflexivity.
  - intros j' Hne. apply nth_replace_nth_other. exact Hne.
  - intros i' Hne. apply upd_other. exact Hne.
Qed.

Theorem revoke_uid_exact : forall w i isuid c t ob j u, nth_error w i = Some ob -> revoke_ok ob = true ->
  find_uid isuid c (p_uids (o_key ob)) = Some j -> nth_error (p_uids (o_key ob)) j = Some u ->
  exists ob' s, nth_error (apply w (ORevokeUid i isuid c t)) i = Some ob'
    /\ c_type (s_core s) = T_CERT_REV /\ c_issuer (s_core s) = p_label (o_key ob)
    /\ Permutation (p_uids (o_key ob')) (replace_nth j (uid_or_sig u s) (p_uids (o_key ob)))
    /\ In s (uid_revocations (o_key ob') (uid_or_sig u s))
    /\ p_subs (o_key ob') = p_subs (o_key ob) /\ p_sigs (o_key ob') = p_sigs (o_key ob)
    /\ forall i', i <> i' -> nth_error (apply w (ORevokeUid i isuid c t)) i' = nth_error w i'.
Proof.
  intros w i isuid c t ob j u Hn Hr F Hj. simpl.
  set (s := plain (sign (p_label (o_key ob)) T_CERT_REV t None false no_info (OnUid (p_label (o_key ob)) isuid c))).
  eexists. exists s. split; [apply upd_same; exact Hn|]. rewrite F, Hr. unfold attach_uid_sig. rewrite Hj. simpl. repeat split.
  - apply resort_perm.
  - unfold uid_revocations. apply filter_In. split; [simpl; apply insort_in; left; reflexivity|]. simpl. rewrite Z.eqb_refl. reflexivity.
  - intros i' Hne. apply upd_other. exact Hne.
Qed.

(* ---------- the public twin ---------- *)
Lemma key_equiv_refl : forall k, key_equiv k k.
Proof.
  intro k. unfold key_equiv. repeat split. induction (p_subs k) as [|sk l IH]; constructor; auto. unfold sub_equiv. auto.
Qed.

Theorem twin_reflects_state : forall k, good_key k = true ->
  key_equiv (pubkey_of k) (if p_public k then k else set_pub true k) /\ good_key (pubkey_of k) = true.
Proof.
  intros k H. apply good_key_P in H. destruct H as [Hi [Hs [Hw Hn]]]. unfold pubkey_of. destruct (p_public k) eqn:E.
  - split; [apply key_equiv_refl|]. apply good_key_P. repeat split; auto; apply Hi || apply Hs.
  - split; [apply rebuild_equiv; auto|]. apply good_key_P. apply good_rebuild. exact Hi.
Qed.

(* ---------- verification is sensitive to the signer and to the subject (the invariant is not vacuous) ---------- *)
Lemma subject_eqb_eq : forall a b, subject_eqb a b = true -> a = b.
Proof.
  intros [k|k i c|k s] [k'|k' i' c'|k' s'] H; simpl in H; try discriminate.
  - apply Z.eqb_eq in H. congruence.
  - apply andb_true_iff in H. destruct H as [H H3]. apply andb_true_iff in H. destruct H as [H1 H2].
    apply Z.eqb_eq in H1. apply eqb_prop in H2. apply eqb_lz_eq in H3. congruence.
  - apply andb_true_iff in H. destruct H as [H1 H2]. apply Z.eqb_eq in H1. apply Z.eqb_eq in H2. congruence.
Qed.

Theorem verifies_sound : forall pk c subj, verifies pk c subj = true ->
  c_signer c = pk /\ d_subj (c_digest c) = subj /\ d_type (c_digest c) = c_type c /\ d_created (c_digest c) = c_created c
  /\ d_issuer (c_digest c) = c_issuer c /\ d_info (c_digest c) = c_info c.
Proof.
  intros pk c subj H. unfold verifies, digest_eqb, hashdata in H. cbn [d_subj d_type d_created d_exp d_primary d_info d_issuer] in H.
  apply andb_true_iff in H. destruct H as [H0 H].
  apply andb_true_iff in H. destruct H as [H H7]. apply andb_true_iff in H. destruct H as [H H6].
  apply andb_true_iff in H. destruct H as [H H5]. apply andb_true_iff in H. destruct H as [H H4].
  apply andb_true_iff in H. destruct H as [H H3]. apply andb_true_iff in H. destruct H as [H1 H2].
  repeat split; try (apply Z.eqb_eq; assumption).
  - apply subject_eqb_eq. assumption.
  - apply eqb_lz_eq. assumption.
Qed.
