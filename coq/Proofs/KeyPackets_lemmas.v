(* Proofs about key packet bodies: nominal lengths are real lengths, the public body is a prefix of the
   secret body, model = RFC transcription, OID table, parse after emit. *)
From Coq Require Import ZArith List Bool Lia ZifyBool.
Import ListNotations.
Require Import PV.Lib.Bytes PV.Lib.BytesLemmas PV.Model.Wire PV.Spec.Rfc4880_wire PV.Proofs.Wire_lemmas PV.Proofs.Wire_lemmas2.
Require Import PV.Model.KeyPackets PV.Spec.Rfc4880_keys.
Open Scope Z_scope.

(* ---------- MPIs ---------- *)
Lemma to_mpibytes_eq_rfc v : wf_mpi v -> to_mpibytes v = rfc_mpi_emit v.
Proof.
  intros [H0 Hb]. unfold to_mpibytes, rfc_mpi_emit. change (rfc_bits v) with (bit_length v).
  pose proof (bit_length_nonneg v) as Hn.
  rewrite (int_to_bytes_fits (bit_length v) 2) by (change (256 ^ 2) with 65536; lia).
  f_equal.
  destruct (Z.eq_dec v 0) as [->|Hne]; [reflexivity|].
  replace (v =? 0) with false by lia. cbn [negb].
  pose proof (mpi_byte_length_pos v ltac:(lia)) as Hp.
  rewrite int_to_bytes_fits; [reflexivity|lia|].
  split; [lia|]. apply lt_pow256_byte_len; lia.
Qed.

Lemma length_rfc_mpi_emit v : Z.of_nat (length (rfc_mpi_emit v)) = mpi_len v.
Proof.
  unfold rfc_mpi_emit. rewrite app_length, !length_be. unfold mpi_len, mpi_byte_length.
  change (rfc_bits v) with (bit_length v). pose proof (bit_length_nonneg v).
  rewrite Nat2Z.inj_add, Z2Nat.id by (apply Z.div_pos; lia). lia.
Qed.

Lemma length_to_mpibytes v : wf_mpi v -> Z.of_nat (length (to_mpibytes v)) = mpi_len v.
Proof. intros H. rewrite to_mpibytes_eq_rfc by assumption. apply length_rfc_mpi_emit. Qed.

(* ---------- an octet string with a non-zero first octet, stored as an MPI, is stored verbatim ---------- *)
Lemma unbe_cons f rest : unbe (f :: rest) = f * 256 ^ Z.of_nat (length rest) + unbe rest.
Proof. change (f :: rest) with ([f] ++ rest). rewrite unbe_app. unfold unbe at 1. cbn [unbe_acc]. lia. Qed.

Lemma pow256_succ n : 256 ^ (n + 1) = 256 * 256 ^ n \/ n < 0.
Proof. destruct (Z_lt_ge_dec n 0); [right; assumption|left]. rewrite Z.pow_add_r by lia. lia. Qed.

Lemma octets_value_bounds f rest : 0 < f < 256 -> wf_bytes rest ->
  let n := Z.of_nat (length rest) in 256 ^ n <= unbe (f :: rest) < 256 ^ (n + 1).
Proof.
  intros Hf Hw n. rewrite unbe_cons. fold n. pose proof (unbe_bounds rest Hw) as Hb. fold n in Hb.
  assert (Hp : 0 < 256 ^ n) by (apply Z.pow_pos_nonneg; lia).
  rewrite Z.pow_add_r by lia. change (256 ^ 1) with 256. nia.
Qed.

Lemma int_byte_len_octets f rest : 0 < f < 256 -> wf_bytes rest ->
  int_byte_len (unbe (f :: rest)) = Z.of_nat (length rest) + 1.
Proof.
  intros Hf Hw. pose proof (octets_value_bounds f rest Hf Hw) as Hb. cbv zeta in Hb.
  set (n := Z.of_nat (length rest)) in *. set (v := unbe (f :: rest)) in *.
  assert (Hn : 0 <= n) by (unfold n; lia).
  assert (Hp : 0 < 256 ^ n) by (apply Z.pow_pos_nonneg; lia).
  assert (Hu : int_byte_len v <= n + 1) by (apply int_byte_len_le; lia).
  destruct (Z_le_gt_dec (int_byte_len v) n) as [Hle|Hgt]; [|lia].
  exfalso. pose proof (lt_pow256_byte_len v ltac:(lia)) as Hlt.
  pose proof (int_byte_len_nonneg v). pose proof (pow256_mono (int_byte_len v) n ltac:(lia)). lia.
Qed.

Lemma pow256_as_pow2 k : 0 <= k -> 256 ^ k = 2 ^ (8 * k).
Proof. intros H. rewrite Z.pow_mul_r by lia. reflexivity. Qed.

Lemma mpi_of_octets f rest : 0 < f < 256 -> wf_bytes rest -> 8 * (Z.of_nat (length rest) + 1) < 65536 ->
  to_mpibytes (unbe (f :: rest)) = be 2 (bit_length (unbe (f :: rest))) ++ f :: rest.
Proof.
  intros Hf Hw Hsz. pose proof (octets_value_bounds f rest Hf Hw) as Hb. cbv zeta in Hb.
  pose proof (int_byte_len_octets f rest Hf Hw) as Hl.
  set (n := Z.of_nat (length rest)) in *. set (v := unbe (f :: rest)) in *.
  assert (Hn : 0 <= n) by (unfold n; lia).
  assert (Hp : 0 < 256 ^ n) by (apply Z.pow_pos_nonneg; lia).
  assert (Hbl : bit_length v <= 8 * (n + 1)).
  { apply bit_length_le; [lia|]. rewrite <- pow256_as_pow2 by lia. lia. }
  pose proof (bit_length_nonneg v) as Hbn.
  unfold to_mpibytes. replace (v =? 0) with false by lia. cbn [negb].
  rewrite (int_to_bytes_fits (bit_length v) 2) by (change (256 ^ 2) with 65536; lia).
  f_equal. unfold mpi_byte_length. fold (int_byte_len v). rewrite Hl.
  rewrite int_to_bytes_fits by lia.
  replace (Z.to_nat (n + 1)) with (length (f :: rest)) by (cbn [length]; unfold n; lia).
  unfold v. apply be_unbe. constructor; [lia|assumption].
Qed.

Lemma length_mpi_of_octets f rest : 0 < f < 256 -> wf_bytes rest -> 8 * (Z.of_nat (length rest) + 1) < 65536 ->
  Z.of_nat (length (to_mpibytes (unbe (f :: rest)))) = Z.of_nat (length rest) + 3.
Proof.
  intros. rewrite mpi_of_octets by assumption. rewrite app_length, length_be. cbn [length]. lia.
Qed.

Lemma wf_mpi_octets f rest : 0 < f < 256 -> wf_bytes rest -> 8 * (Z.of_nat (length rest) + 1) < 65536 ->
  wf_mpi (unbe (f :: rest)).
Proof.
  intros Hf Hw Hsz. pose proof (octets_value_bounds f rest Hf Hw) as Hb. cbv zeta in Hb.
  set (n := Z.of_nat (length rest)) in *.
  assert (Hn : 0 <= n) by (unfold n; lia).
  assert (Hp : 0 < 256 ^ n) by (apply Z.pow_pos_nonneg; lia).
  split; [lia|].
  assert (bit_length (unbe (f :: rest)) <= 8 * (n + 1)); [|lia].
  apply bit_length_le; [lia|]. rewrite <- pow256_as_pow2 by lia. lia.
Qed.

(* ---------- EC points ---------- *)
Lemma int_to_bytes_coord x bl : 1 <= bl -> 0 <= x < 256 ^ bl -> int_to_bytes x bl = be (Z.to_nat bl) x.
Proof. intros. apply int_to_bytes_fits; assumption. Qed.

Lemma ecpoint_raw_std bl x y : 1 <= bl -> 0 <= x < 256 ^ bl -> 0 <= y < 256 ^ bl ->
  ecpoint_raw (EPStd bl x y) = 4 :: be (Z.to_nat bl) x ++ be (Z.to_nat bl) y.
Proof. intros. cbn [ecpoint_raw]. rewrite !int_to_bytes_coord by assumption. reflexivity. Qed.

(* the raw buffer: format octet, then `tail` *)
Definition point_tail (p : ecpoint) : bytes :=
  match p with
  | EPStd bl x y => be (Z.to_nat bl) x ++ be (Z.to_nat bl) y
  | EPNative x => x
  end.
Definition point_fmt (p : ecpoint) : Z := match p with EPStd _ _ _ => 4 | EPNative _ => 64 end.

Lemma ecpoint_raw_shape p : wf_point p -> ecpoint_raw p = point_fmt p :: point_tail p.
Proof.
  destruct p as [bl x y|x]; cbn [wf_point]; intros H.
  - destruct H as [Hb [Hx Hy]]. apply ecpoint_raw_std; lia.
  - reflexivity.
Qed.

Lemma point_tail_facts p : wf_point p ->
  wf_bytes (point_tail p) /\ Z.of_nat (length (point_tail p)) + 3 = ecpoint_len p /\
  8 * (Z.of_nat (length (point_tail p)) + 1) < 65536 /\ 0 < point_fmt p < 256.
Proof.
  destruct p as [bl x y|x]; cbn [wf_point point_tail ecpoint_len point_fmt]; intros H.
  - destruct H as [Hb [Hx Hy]]. rewrite app_length, !length_be.
    split; [apply wf_bytes_app; split; apply wf_be|]. lia.
  - destruct H as [Hw Hl]. repeat split; try assumption; lia.
Qed.

Lemma ecpoint_bytes_shape p : wf_point p ->
  ecpoint_bytes p = be 2 (bit_length (unbe (point_fmt p :: point_tail p))) ++ point_fmt p :: point_tail p.
Proof.
  intros H. unfold ecpoint_bytes, bytes_to_int. rewrite ecpoint_raw_shape by assumption.
  destruct (point_tail_facts p H) as [Hw [_ [Hs Hf]]]. apply mpi_of_octets; assumption.
Qed.

Lemma length_ecpoint_bytes p : wf_point p -> Z.of_nat (length (ecpoint_bytes p)) = ecpoint_len p.
Proof.
  intros H. unfold ecpoint_bytes, bytes_to_int. rewrite ecpoint_raw_shape by assumption.
  destruct (point_tail_facts p H) as [Hw [Hl [Hs Hf]]]. rewrite length_mpi_of_octets by assumption. exact Hl.
Qed.

Lemma ecpoint_bytes_eq_rfc p : wf_point p -> ecpoint_bytes p = rfc_point p.
Proof.
  intros H. unfold ecpoint_bytes, bytes_to_int. rewrite ecpoint_raw_shape by assumption.
  destruct (point_tail_facts p H) as [Hw [Hl [Hs Hf]]].
  rewrite to_mpibytes_eq_rfc by (apply wf_mpi_octets; assumption).
  destruct p; reflexivity.
Qed.

(* ---------- OIDs: the DER encoder yields the RFC 6637 / 4880bis table ---------- *)
Lemma oid_eq_rfc c : der_oid_content (curve_arcs c) = rfc_curve_oid c.
Proof. destruct c; vm_compute; reflexivity. Qed.
Lemma oid_field_eq_rfc c : oid_field c = rfc_oid_field c.
Proof. unfold oid_field, rfc_oid_field. rewrite oid_eq_rfc. reflexivity. Qed.
Lemma oid_lookup_content c : oid_lookup (der_oid_content (curve_arcs c)) = Some c.
Proof. destruct c; vm_compute; reflexivity. Qed.
Lemma oid_parse_emit c r : oid_parse (oid_field c ++ r) = Some (c, r).
Proof.
  unfold oid_field, oid_parse. cbn [app]. rewrite Nat2Z.id.
  set (ct := der_oid_content (curve_arcs c)).
  rewrite app_length. replace (length ct + length r <? length ct)%nat with false by lia.
  rewrite firstn_app_exact, skipn_app_exact by reflexivity. unfold ct. rewrite oid_lookup_content. reflexivity.
Qed.
(* distinct curves have distinct encodings *)
Lemma oid_injective c c' : oid_field c = oid_field c' -> c = c'.
Proof. destruct c, c'; vm_compute; intros H; try reflexivity; discriminate H. Qed.

(* ---------- nominal public length = real length ---------- *)
Theorem publen_correct m : wf_pubmat m -> Z.of_nat (length (pubmat_bytes m)) = pubmat_len m.
Proof.
  destruct m; cbn [wf_pubmat pubmat_bytes pubmat_len]; intros H.
  - destruct H as [? ?]. rewrite app_length, Nat2Z.inj_add, !length_to_mpibytes by assumption. lia.
  - destruct H as [? [? [? ?]]]. rewrite !app_length, !Nat2Z.inj_add, !length_to_mpibytes by assumption. lia.
  - destruct H as [? [? ?]]. rewrite !app_length, !Nat2Z.inj_add, !length_to_mpibytes by assumption. lia.
  - rewrite app_length, Nat2Z.inj_add, length_ecpoint_bytes by assumption. unfold oid_len. lia.
  - rewrite app_length, Nat2Z.inj_add, length_ecpoint_bytes by assumption. unfold oid_len. lia.
  - destruct H as [? ?]. rewrite !app_length, !Nat2Z.inj_add, length_ecpoint_bytes by assumption.
    unfold oid_len, kdf_len, kdf_bytes. cbn [length]. lia.
  - contradiction.
Qed.

Lemma pub_mat_old_wf m : wf_pubmat m -> pub_mat_old m = m.
Proof. destruct m; cbn [wf_pubmat pub_mat_old]; intros H; [reflexivity..|contradiction]. Qed.

Lemma wf_not_opaque m : wf_pubmat m -> is_opaque m = false.
Proof. destruct m; cbn [wf_pubmat is_opaque]; intros H; [reflexivity..|contradiction]. Qed.

(* pubkey() never refuses a key of a supported algorithm ... *)
Lemma pubkey_pkt_wf k : wf_pub k -> pubkey_pkt k = Some (pub_half k).
Proof.
  intros [_ [_ Hm]]. unfold pubkey_pkt, opaque_private. rewrite (wf_not_opaque _ Hm), andb_false_r. reflexivity.
Qed.
(* ... and on those the repair 3c1c8c6 changed nothing *)
Lemma pubkey_pkt_old_same k : wf_pub k -> pubkey_pkt k = Some (pubkey_pkt_old k).
Proof.
  intros H. rewrite pubkey_pkt_wf by exact H. destruct H as [_ [_ Hm]].
  unfold pubkey_pkt_old, pub_half. rewrite (pub_mat_old_wf _ Hm). reflexivity.
Qed.
(* it refuses exactly the private packets with opaque material *)
Lemma pubkey_pkt_none_iff k : pubkey_pkt k = None <-> is_private k = true /\ is_opaque (k_mat k) = true.
Proof.
  unfold pubkey_pkt, opaque_private. destruct (is_private k), (is_opaque (k_mat k)); cbn; split; intros H;
    try discriminate; try reflexivity; try (destruct H; discriminate); auto.
Qed.
Lemma pubkey_pkt_some k p : pubkey_pkt k = Some p -> p = pub_half k.
Proof. unfold pubkey_pkt. destruct (opaque_private k); intros H; [discriminate|]. inversion H. reflexivity. Qed.

Lemma wf_pub_half k : wf_pub k -> wf_pub (pub_half k).
Proof. intros H. exact H. Qed.

Lemma pubmat_len_nonneg m : wf_pubmat m -> 0 <= pubmat_len m.
Proof. intros H. rewrite <- publen_correct by assumption. lia. Qed.

(* ---------- model = RFC transcription ---------- *)
Theorem material_eq_rfc m : wf_pubmat m -> pubmat_bytes m = rfc_material m.
Proof.
  destruct m; cbn [wf_pubmat pubmat_bytes rfc_material]; intros H.
  - destruct H as [? ?]. rewrite !to_mpibytes_eq_rfc by assumption. reflexivity.
  - destruct H as [? [? [? ?]]]. rewrite !to_mpibytes_eq_rfc by assumption. reflexivity.
  - destruct H as [? [? ?]]. rewrite !to_mpibytes_eq_rfc by assumption. reflexivity.
  - rewrite oid_field_eq_rfc, ecpoint_bytes_eq_rfc by assumption. reflexivity.
  - rewrite oid_field_eq_rfc, ecpoint_bytes_eq_rfc by assumption. reflexivity.
  - destruct H as [? ?]. rewrite oid_field_eq_rfc, ecpoint_bytes_eq_rfc by assumption. reflexivity.
  - contradiction.
Qed.

Lemma key_head k : wf_pub k ->
  [4] ++ int_to_bytes (k_created k) 4 ++ int_to_bytes (k_alg k) 1 = [4] ++ be 4 (k_created k) ++ [k_alg k].
Proof.
  intros [Hc [Ha _]]. rewrite int_to_bytes_octet by assumption.
  rewrite int_to_bytes_fits by (change (256 ^ 4) with 4294967296; lia). reflexivity.
Qed.

Lemma key_body_split k : key_body k =
  ([4] ++ int_to_bytes (k_created k) 4 ++ int_to_bytes (k_alg k) 1) ++ keymaterial_bytes k.
Proof. unfold key_body. rewrite <- !app_assoc. reflexivity. Qed.

Lemma key_body_half k :
  key_body (pub_half k) = ([4] ++ int_to_bytes (k_created k) 4 ++ int_to_bytes (k_alg k) 1) ++ pubmat_bytes (k_mat k).
Proof.
  rewrite key_body_split. unfold keymaterial_bytes, pub_half. cbn [k_mat k_sec k_created k_alg].
  destruct (is_opaque (k_mat k)); rewrite app_nil_r; reflexivity.
Qed.

Lemma half_body_eq_rfc k : wf_pub k -> key_body (pub_half k) = rfc_pub_body (k_created k) (k_alg k) (k_mat k).
Proof.
  intros H. rewrite key_body_half. rewrite key_head by assumption.
  destruct H as [_ [_ Hm]]. rewrite material_eq_rfc by assumption.
  unfold rfc_pub_body. rewrite <- !app_assoc. reflexivity.
Qed.

Theorem pub_body_eq_rfc k : wf_pub k -> pub_packet_body k = Some (rfc_pub_body (k_created k) (k_alg k) (k_mat k)).
Proof.
  intros H. unfold pub_packet_body. rewrite pubkey_pkt_wf by exact H. rewrite half_body_eq_rfc by exact H. reflexivity.
Qed.

Lemma length_key_head k : wf_pub k ->
  length ([4] ++ int_to_bytes (k_created k) 4 ++ int_to_bytes (k_alg k) 1) = 6%nat.
Proof. intros H. rewrite key_head by assumption. rewrite !app_length, length_be. reflexivity. Qed.

Lemma length_half_body k : wf_pub k -> Z.of_nat (length (key_body (pub_half k))) = 6 + publen k.
Proof.
  intros H. rewrite key_body_half, app_length. rewrite length_key_head by exact H.
  destruct H as [_ [_ Hm]]. unfold publen. rewrite Nat2Z.inj_add, publen_correct by assumption. lia.
Qed.

(* ---------- the public packet body is exactly the first 6 + publen octets of the secret packet body ---------- *)
Lemma half_body_is_prefix k : wf_pub k ->
  key_body (pub_half k) = firstn (Z.to_nat (6 + publen k)) (sec_packet_body k).
Proof.
  intros H. unfold sec_packet_body. rewrite (key_body_split k). unfold keymaterial_bytes at 1.
  rewrite app_assoc.
  assert (Hl : length (([4] ++ int_to_bytes (k_created k) 4 ++ int_to_bytes (k_alg k) 1) ++ pubmat_bytes (k_mat k))
               = Z.to_nat (6 + publen k)).
  { rewrite app_length, length_key_head by assumption. destruct H as [_ [_ Hm]].
    pose proof (publen_correct _ Hm). unfold publen. lia. }
  rewrite firstn_app_exact by exact Hl. apply key_body_half.
Qed.

(* the twin exists (no refusal for a supported algorithm) and its body is that prefix *)
Theorem pub_body_is_prefix k : wf_pub k ->
  pub_packet_body k = Some (firstn (Z.to_nat (6 + publen k)) (sec_packet_body k)).
Proof.
  intros H. unfold pub_packet_body. rewrite pubkey_pkt_wf by exact H. rewrite half_body_is_prefix by exact H. reflexivity.
Qed.

(* the first publen octets of the (public or secret) material are the public material *)
Lemma material_prefix k : wf_pub k -> firstn (Z.to_nat (publen k)) (keymaterial_bytes k) = pubmat_bytes (k_mat k).
Proof.
  intros [_ [_ Hm]]. unfold keymaterial_bytes, publen. apply firstn_app_exact.
  pose proof (publen_correct _ Hm). lia.
Qed.

(* the nominal public length is the real one for supported AND for opaque material *)
Lemma real_publen_wf k : wf_pubmat (k_mat k) -> real_publen k.
Proof. intros H. unfold real_publen, publen. apply publen_correct. exact H. Qed.
Lemma real_publen_opaque k : is_opaque (k_mat k) = true -> real_publen k.
Proof. unfold real_publen, publen. destruct (k_mat k); cbn [is_opaque]; intros H; try discriminate. reflexivity. Qed.
Lemma material_prefix_real k : real_publen k -> firstn (Z.to_nat (publen k)) (keymaterial_bytes k) = pubmat_bytes (k_mat k).
Proof. intros H. unfold keymaterial_bytes. apply firstn_app_exact. unfold real_publen in H. lia. Qed.

(* ---------- the secret tail under the String2Key.__bool__ of repair 8563c06 (usage != 0) ---------- *)
(* every non-zero usage octet - 254, 255 or a cipher id - is followed by what String2Key writes and the ciphertext only *)
Lemma sec_tail_protected sp : s_usage sp <> 0 -> sec_tail sp = s_usage sp :: s_s2k sp ++ s_enc sp.
Proof.
  intros H. unfold sec_tail, s2k_bytes, s2k_on. replace (s_usage sp =? 0) with false by lia. cbn [negb app].
  rewrite app_nil_r. reflexivity.
Qed.
Lemma sec_tail_clear sp : s_usage sp = 0 -> sec_tail sp = 0 :: flat_map to_mpibytes (s_priv sp) ++ s_chk sp.
Proof. intros H. unfold sec_tail, s2k_bytes, s2k_on. rewrite H. reflexivity. Qed.
(* the rule before the repair is the same function on the usage octets 0, 254 and 255 ... *)
Lemma sec_tail_old_same sp : s_usage sp = 0 \/ s_usage sp = 254 \/ s_usage sp = 255 -> sec_tail_old sp = sec_tail sp.
Proof.
  intros [H|[H|H]]; unfold sec_tail_old, sec_tail, s2k_bytes, s2k_on, s2k_on_old; rewrite H; reflexivity.
Qed.
(* ... and wrong on a cipher-id usage octet: usage octet and the cleared integers instead of usage octet, IV, ciphertext *)
Definition legacy_witness : secpart :=
  {| s_usage := 7; s_s2k := [1; 2; 3; 4; 5; 6; 7; 8; 9; 10; 11; 12; 13; 14; 15; 16]; s_enc := [200; 201; 202; 203];
     s_priv := [0]; s_chk := [] |}.
Lemma sec_tail_legacy_old_refuted :
  sec_tail_old legacy_witness <> sec_tail legacy_witness /\
  sec_tail legacy_witness = 7 :: s_s2k legacy_witness ++ s_enc legacy_witness /\
  sec_tail_old legacy_witness = [7; 0; 0].
Proof. repeat split; vm_compute; discriminate. Qed.
