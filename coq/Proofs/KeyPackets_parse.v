(* Parse after emit for version-4 key packet bodies: the parser recovers creation time, algorithm and
   public material from every well-formed emitted body and hands back the secret tail untouched. *)
From Coq Require Import ZArith List Bool Lia ZifyBool.
Import ListNotations.
Require Import PV.Lib.Bytes PV.Lib.BytesLemmas PV.Model.Wire PV.Proofs.Wire_lemmas PV.Proofs.Wire_lemmas2.
Require Import PV.Model.KeyPackets PV.Spec.Rfc4880_keys PV.Proofs.KeyPackets_lemmas.
Open Scope Z_scope.

Lemma mpi_rt v r : wf_mpi v -> mpi_parse (to_mpibytes v ++ r) = (v, r).
Proof. intros [? ?]. apply mpi_roundtrip; assumption. Qed.

Lemma even_double n : Nat.even (2 * n) = true.
Proof. change (2 * n)%nat with (0 + 2 * n)%nat. rewrite Nat.even_add_mul_2. reflexivity. Qed.

Lemma ecpoint_parse_emit p r : wf_point p -> ecpoint_parse (ecpoint_bytes p ++ r) = Some (p, r).
Proof.
  intros H. unfold ecpoint_parse.
  assert (Hv : wf_mpi (bytes_to_int (ecpoint_raw p))).
  { unfold bytes_to_int. rewrite ecpoint_raw_shape by assumption.
    destruct (point_tail_facts p H) as [Hw [_ [Hs Hf]]]. apply wf_mpi_octets; assumption. }
  unfold ecpoint_bytes at 1. rewrite mpi_rt by exact Hv.
  fold (ecpoint_bytes p). rewrite ecpoint_bytes_shape by assumption.
  rewrite skipn_app_exact by apply length_be.
  destruct p as [bl x y|x]; cbn [point_fmt point_tail].
  - destruct H as [Hb [Hx Hy]]. change (4 =? 4) with true. cbv iota.
    set (nb := Z.to_nat bl).
    assert (Hlen : length (be nb x ++ be nb y) = (2 * nb)%nat) by (rewrite app_length, !length_be; lia).
    rewrite Hlen, even_double, Nat.div2_double.
    rewrite firstn_app_exact, skipn_app_exact by apply length_be.
    unfold bytes_to_int. rewrite !unbe_be by (unfold nb; rewrite Z2Nat.id by lia; lia).
    unfold nb. rewrite Z2Nat.id by lia. reflexivity.
  - change (64 =? 4) with false. change (64 =? 64) with true. reflexivity.
Qed.

Lemma eqb_negb b : Bool.eqb b (negb b) = false.
Proof. destruct b; reflexivity. Qed.

Theorem material_parse_emit m r : wf_pubmat m ->
  match m with
  | PECDSA _ pt => is_std pt = true
  | PEdDSA _ pt => is_std pt = false
  | PECDH c pt _ _ => is_std pt = negb (curve_eqb c C25519)
  | _ => True
  end ->
  material_parse (kind_of m) (pubmat_bytes m ++ r) = Some (m, r).
Proof.
  destruct m; cbn [wf_pubmat kind_of pubmat_bytes material_parse]; intros H Hc.
  - destruct H as [? ?]. rewrite <- !app_assoc. rewrite !mpi_rt by assumption. reflexivity.
  - destruct H as [? [? [? ?]]]. rewrite <- !app_assoc. rewrite !mpi_rt by assumption. reflexivity.
  - destruct H as [? [? ?]]. rewrite <- !app_assoc. rewrite !mpi_rt by assumption. reflexivity.
  - rewrite <- app_assoc, oid_parse_emit, ecpoint_parse_emit by assumption. rewrite Hc. reflexivity.
  - rewrite <- app_assoc, oid_parse_emit, ecpoint_parse_emit by assumption. rewrite Hc. reflexivity.
  - destruct H as [? ?]. rewrite <- !app_assoc, oid_parse_emit, ecpoint_parse_emit by assumption.
    rewrite Hc, eqb_negb. unfold kdf_bytes. change (4 - 1) with 3. reflexivity.
  - contradiction.
Qed.

Theorem key_body_parse_emit k : wf_pub k -> parse_consistent k ->
  key_body_parse (key_body k) =
  Some (k_created k, k_alg k, k_mat k, match k_sec k with Some sp => sec_tail sp | None => [] end).
Proof.
  intros H [Hk Hc]. rewrite key_body_split, key_head by assumption.
  destruct H as [Hcr [Ha Hm]].
  unfold key_body_parse. cbn [app]. change (4 =? 4) with true. cbv iota.
  rewrite <- app_assoc.
  rewrite firstn_app_exact, skipn_app_exact by apply length_be.
  unfold bytes_to_int. rewrite unbe_be by (change (256 ^ Z.of_nat 4) with 4294967296; lia).
  cbn [app]. rewrite Hk. unfold keymaterial_bytes. rewrite (wf_not_opaque _ Hm).
  rewrite material_parse_emit; [reflexivity|assumption|].
  destruct (k_mat k); try exact I; exact Hc.
Qed.
