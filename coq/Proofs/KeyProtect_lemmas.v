(* C06 proof scripts, part 1: layout = RFC 4880 5.5.3, unprotect o protect, the acceptance gate. *)
From Coq Require Import ZArith List Bool Lia ZifyBool.
Import ListNotations.
Require Import PV.Lib.Bytes PV.Lib.BytesLemmas PV.Model.Wire PV.Proofs.Wire_lemmas PV.Proofs.Wire_lemmas2.
Require Import PV.Spec.Rfc4880_keyprotect PV.Model.KeyProtect.
Open Scope Z_scope.

Definition wf_mpi (v : Z) : Prop := 0 <= v /\ bit_length v < 65536.
Definition wf_mpis (l : list Z) : Prop := Forall wf_mpi l.

Lemma secret_plain_cons v ms : secret_plain (v :: ms) = to_mpibytes v ++ secret_plain ms.
Proof. reflexivity. Qed.

Lemma parse_mpis_plain ms : forall r, wf_mpis ms -> parse_mpis (length ms) (secret_plain ms ++ r) = (ms, r).
Proof.
  induction ms as [|v ms IH]; intros r H; [reflexivity|].
  inversion H as [|? ? [Hv Hb] Hms]; subst.
  rewrite secret_plain_cons, <- app_assoc. cbn [length parse_mpis].
  rewrite (mpi_roundtrip v _ Hv Hb). rewrite (IH r Hms). reflexivity.
Qed.

(* ---------- MPI encoding = RFC 3.2 ---------- *)
Lemma rfc_bits_eq v : rfc_bits v = bit_length v.
Proof. reflexivity. Qed.

Lemma to_mpibytes_eq_rfc v : wf_mpi v -> to_mpibytes v = rfc_mpi_enc v.
Proof.
  intros [Hv Hb]. unfold to_mpibytes, rfc_mpi_enc. change (rfc_bits v) with (bit_length v).
  assert (Hn := bit_length_nonneg v).
  rewrite (int_to_bytes_fits (bit_length v) 2) by (change (256 ^ 2) with 65536; lia).
  change (Z.to_nat 2) with 2%nat. f_equal.
  destruct (v =? 0) eqn:E.
  - assert (v = 0) by lia. subst. reflexivity.
  - cbn [negb]. assert (0 < v) by lia.
    change ((bit_length v + 7) / 8) with (mpi_byte_length v).
    apply int_to_bytes_fits; [apply mpi_byte_length_pos; assumption|].
    split; [lia|]. apply (lt_pow256_byte_len v); lia.
Qed.

Lemma secret_plain_eq_rfc ms : wf_mpis ms -> secret_plain ms = concat (map rfc_mpi_enc ms).
Proof.
  induction 1 as [|v ms Hv _ IH]; [reflexivity|].
  rewrite secret_plain_cons. cbn [map concat]. rewrite IH, (to_mpibytes_eq_rfc v Hv). reflexivity.
Qed.

Lemma nsecret_eq_rfc a : nsecret a = rfc_nsecret a.
Proof.
  unfold nsecret, rfc_nsecret.
  destruct ((1 <=? a) && (a <=? 3)) eqn:E1.
  - assert (a = 1 \/ a = 2 \/ a = 3) as [->|[->| ->]] by lia; reflexivity.
  - destruct ((a =? 16) || (a =? 17) || (a =? 20)) eqn:E2.
    + assert (a = 16 \/ a = 17 \/ a = 20) as [->|[->| ->]] by lia; reflexivity.
    + destruct ((a =? 18) || (a =? 19) || (a =? 22)) eqn:E3.
      * assert (a = 18 \/ a = 19 \/ a = 22) as [->|[->| ->]] by lia; reflexivity.
      * destruct a as [|p|p]; try reflexivity.
        do 5 (destruct p as [p|p|]; try reflexivity; try (exfalso; lia)).
Qed.

Lemma int16_be x : 0 <= x < 65536 -> int_to_bytes x 2 = be 2 x.
Proof. intros H. apply (int_to_bytes_fits x 2); [lia|]. change (256 ^ 2) with 65536. lia. Qed.

(* ---------- GNU stubs: String2Key.parse inverts String2Key.__bytearray__ (repair 05bf06b) ---------- *)
(* extension 1 (no secret) has no serial; extension 2 (divert to card) keeps at most 16 octets of serial number *)
Definition wf_gnu (u a ext : Z) (serial : bytes) : Prop :=
  (u = 254 \/ u = 255) /\ valid_symalg a = true /\ (ext = 1 /\ serial = [] \/ ext = 2 /\ (length serial <= 16)%nat).

Lemma s2k_parse_emit_gnu u a ext serial rest : wf_gnu u a ext serial ->
  s2k_parse (blob_emit (BGnu u a ext serial rest)) = Some (inr (BGnu u a ext serial rest), []).
Proof.
  intros (Hu & Ha & He). unfold blob_emit, s2k_emit_gnu, gnu_magic.
  assert (Hu' : (u =? 254) || (u =? 255) = true) by lia.
  destruct He as [[-> ->] | [-> Hl]].
  - cbn [app Z.eqb Pos.eqb]. unfold s2k_parse. rewrite Hu', Ha. reflexivity.
  - change (2 =? 2) with true. cbv iota. cbn [app]. unfold s2k_parse. rewrite Hu', Ha.
    change (valid_spec 101) with true. change (101 =? 101) with true. cbn [andb].
    change (eqb_bytes (firstn 4 (0 :: 71 :: 78 :: 85 :: 2 :: Z.of_nat (length serial) :: serial ++ rest)) gnu_magic) with true.
    cbv iota. change (skipn 4 (0 :: 71 :: 78 :: 85 :: 2 :: Z.of_nat (length serial) :: serial ++ rest))
      with (2 :: Z.of_nat (length serial) :: serial ++ rest).
    change (2 =? 1) with false. change (2 =? 2) with true. cbv iota zeta.
    rewrite Z.min_l by lia. rewrite Nat2Z.id.
    rewrite (firstn_app_exact serial rest _ eq_refl), (skipn_app_exact serial rest _ eq_refl). reflexivity.
Qed.

(* the rule before the repair wrote no length octet for an empty serial: the reader then takes the first octet of whatever
   follows as the length *)
Lemma s2k_parse_emit_gnu_old_refuted : exists u a ext serial rest, wf_gnu u a ext serial /\
  s2k_parse (s2k_emit_gnu_old u a ext serial ++ rest) <> Some (inr (BGnu u a ext serial rest), []).
Proof.
  exists 255, 0, 2, [], [3; 9; 9; 9]. split.
  - split; [right; reflexivity|]. split; [reflexivity|]. right. split; [reflexivity | cbn; lia].
  - vm_compute. intros H. discriminate H.
Qed.

Section Prims.
  Variable cfb_enc cfb_dec : Z -> bytes -> bytes -> bytes -> bytes.
  Variable sha1 : bytes -> bytes.
  Variable s2k : Z -> Z -> Z -> bytes -> Z -> bytes -> bytes.

  (* ---------- protect_layout_eq_rfc ---------- *)
  Lemma protect_layout_eq_rfc mpis pass iv salt count alg halg : wf_mpis mpis ->
    protect cfb_enc sha1 s2k mpis pass iv salt count alg halg
    = rfc_secret_part cfb_enc sha1 254 alg (RIterSalted halg salt count) iv (s2k 3 halg alg salt count pass) mpis.
  Proof.
    intros H. unfold protect, rfc_secret_part, rfc_secret_data, rfc_s2k_octets.
    rewrite <- (secret_plain_eq_rfc mpis H).
    change (254 =? 0) with false. change (254 =? 254) with true. cbv iota.
    cbn [app]. rewrite <- !app_assoc. reflexivity.
  Qed.

  (* s2k specifier the model stores <-> RFC specifier *)
  Definition spec_of (sp halg : Z) (salt : bytes) (count : Z) : rfc_s2k_spec :=
    if sp =? 0 then RSimple halg else if sp =? 1 then RSalted halg salt else RIterSalted halg salt count.

  (* every form the model writes (usage 254 / 255; simple, salted, iterated) is the RFC layout *)
  Lemma write_form_eq_rfc u a sp h salt c iv pass ms :
    wf_mpis ms -> (u = 254 \/ u = 255) -> (sp = 0 /\ salt = [] \/ sp = 1 \/ sp = 3) ->
    write_secret cfb_enc sha1 s2k (WStd u a sp h salt c iv pass) ms
    = rfc_secret_part cfb_enc sha1 u a (spec_of sp h salt c) iv (s2k sp h a salt c pass) ms.
  Proof.
    intros H Hu Hsp. unfold write_secret, blob_emit, s2k_emit_std, mk_sblob, protect_enc, rfc_secret_part, rfc_secret_data, spec_of.
    cbn [b_usage b_alg b_spec b_halg b_salt b_count b_iv b_enc].
    rewrite <- (secret_plain_eq_rfc ms H).
    assert (Hs : 0 <= sumz (secret_plain ms) mod 65536 < 65536) by (apply Z.mod_pos_bound; lia).
    rewrite (int16_be _ Hs).
    destruct Hu as [-> | ->]; destruct Hsp as [[-> ->] | [-> | ->]]; cbn; rewrite <- ?app_assoc; reflexivity.
  Qed.

  (* the legacy form the model writes (usage octet = cipher id) is the RFC layout with the MD5 simple S2K key *)
  Lemma write_legacy_eq_rfc u iv pass ms : wf_mpis ms -> legacy u = true ->
    write_secret cfb_enc sha1 s2k (WStd u u 0 1 [] 0 iv pass) ms
    = rfc_secret_part_legacy cfb_enc sha1 u iv (s2k 0 1 u [] 0 pass) ms.
  Proof.
    intros H Hl. unfold write_secret, blob_emit, s2k_emit_std, mk_sblob, protect_enc, rfc_secret_part_legacy, rfc_secret_data.
    cbn [b_usage b_alg b_spec b_halg b_salt b_count b_iv b_enc]. rewrite Hl.
    rewrite <- (secret_plain_eq_rfc ms H).
    assert (Hs : 0 <= sumz (secret_plain ms) mod 65536 < 65536) by (apply Z.mod_pos_bound; lia).
    rewrite (int16_be _ Hs). unfold legacy in Hl. replace (u =? 254) with false by lia.
    rewrite <- app_assoc. reflexivity.
  Qed.

  (* ---------- unprotect o protect ---------- *)
  Hypothesis cfb_inv : forall a k iv x, cfb_dec a k iv (cfb_enc a k iv x) = x.
  Hypothesis sha1_len : forall x, length (sha1 x) = 20%nat.

  Lemma lastn_app_exact {A} (l t : list A) n : length t = n -> lastn n (l ++ t) = t.
  Proof.
    intros H. unfold lastn. rewrite app_length, H.
    replace (length l + n - n)%nat with (length l) by lia. apply skipn_app_exact. reflexivity.
  Qed.
  Lemma firstn_app_drop {A} (l t : list A) n : length t = n -> firstn (length (l ++ t) - n) (l ++ t) = l.
  Proof.
    intros H. rewrite app_length, H. replace (length l + n - n)%nat with (length l) by lia.
    apply firstn_app_exact. reflexivity.
  Qed.

  Lemma gate_254_ok pt : gate sha1 254 (pt ++ sha1 pt) = true.
  Proof.
    unfold gate. change (254 =? 254) with true. cbv iota.
    rewrite (lastn_app_exact pt (sha1 pt) 20 (sha1_len pt)), (firstn_app_drop pt (sha1 pt) 20 (sha1_len pt)).
    apply eqb_bytes_refl.
  Qed.

  Lemma gate_255_ok pt : gate sha1 255 (pt ++ int_to_bytes (sumz pt mod 65536) 2) = true.
  Proof.
    assert (Hs : 0 <= sumz pt mod 65536 < 65536) by (apply Z.mod_pos_bound; lia).
    unfold gate. change (255 =? 254) with false. change (255 =? 255) with true. cbv iota.
    rewrite (int16_be _ Hs).
    rewrite (lastn_app_exact pt (be 2 _) 2 (length_be 2 _)), (firstn_app_drop pt (be 2 _) 2 (length_be 2 _)).
    rewrite unbe_be by (change (256 ^ Z.of_nat 2) with 65536; lia). lia.
  Qed.

  Definition tail_of (u : Z) (ms : list Z) : bytes :=
    if u =? 254 then sha1 (secret_plain ms) else int_to_bytes (sumz (secret_plain ms) mod 65536) 2.

  Lemma unprotect_std_protect u a sp h salt c iv pass ms :
    wf_mpis ms -> (u = 254 \/ u = 255) ->
    unprotect_std cfb_dec sha1 s2k (length ms) (mk_sblob cfb_enc sha1 s2k u a sp h salt c iv pass ms) pass = UOk ms (tail_of u ms).
  Proof.
    intros H Hu. unfold unprotect_std, decrypt_std, mk_sblob, protect_enc.
    cbn [b_usage b_alg b_spec b_halg b_salt b_count b_iv b_enc]. rewrite cfb_inv.
    destruct Hu as [-> | ->].
    - change (254 =? 254) with true. cbv iota. rewrite gate_254_ok.
      rewrite (parse_mpis_plain ms _ H). reflexivity.
    - change (255 =? 254) with false. cbv iota. rewrite gate_255_ok.
      rewrite (parse_mpis_plain ms _ H). reflexivity.
  Qed.

  (* the same for ANY usage octet (repair 8563c06: whatever is not 254 carries the 16-bit checksum) *)
  Lemma gate_sum_ok u pt : u <> 254 -> gate sha1 u (pt ++ int_to_bytes (sumz pt mod 65536) 2) = true.
  Proof.
    intros Hu. assert (G := gate_255_ok pt). unfold gate in *.
    destruct (Z.eqb_spec u 254) as [E|_]; [contradiction|]. change (255 =? 254) with false in G. exact G.
  Qed.
  Lemma unprotect_std_protect_any u a sp h salt c iv pass ms : wf_mpis ms ->
    unprotect_std cfb_dec sha1 s2k (length ms) (mk_sblob cfb_enc sha1 s2k u a sp h salt c iv pass ms) pass = UOk ms (tail_of u ms).
  Proof.
    intros H. unfold unprotect_std, decrypt_std, mk_sblob, protect_enc, tail_of.
    cbn [b_usage b_alg b_spec b_halg b_salt b_count b_iv b_enc]. rewrite cfb_inv.
    destruct (Z.eqb_spec u 254) as [->|Hu].
    - rewrite gate_254_ok. rewrite (parse_mpis_plain ms _ H). reflexivity.
    - rewrite (gate_sum_ok u _ Hu). rewrite (parse_mpis_plain ms _ H). reflexivity.
  Qed.

  (* the rule before the repair accepted anything under a legacy usage octet *)
  Lemma gate_old_refuted : exists u pt, legacy u = true /\ gate_old sha1 u pt = true /\ gate sha1 u pt = false.
  Proof. exists 7, [1; 2; 3]. repeat split. Qed.

  (* ---------- the legacy form: usage octet = cipher id, key = MD5 of the passphrase, IV, 16-bit checksum ---------- *)
  Definition wf_legacy (u : Z) (iv : bytes) : Prop :=
    legacy u = true /\ exists bs, block_octets u = Some bs /\ length iv = Z.to_nat bs.
  Definition legacy_blob (u : Z) (iv enc : bytes) : sblob :=
    {| b_usage := u; b_alg := u; b_spec := 0; b_halg := 1; b_salt := []; b_count := 0; b_iv := iv; b_enc := enc |}.

  Lemma block_valid' a bs : block_octets a = Some bs -> valid_symalg a = true.
  Proof.
    unfold block_octets, valid_symalg. intros H.
    destruct ((1 <=? a) && (a <=? 4)) eqn:E1; [lia|].
    destruct ((7 <=? a) && (a <=? 13)) eqn:E2; [lia|discriminate].
  Qed.

  Lemma s2k_parse_emit_legacy u iv enc : wf_legacy u iv ->
    blob_emit (BStd (legacy_blob u iv enc)) = [u] ++ iv ++ enc /\
    s2k_parse (blob_emit (BStd (legacy_blob u iv enc))) = Some (inr (BStd (legacy_blob u iv enc)), []).
  Proof.
    intros (Hl & bs & Hbs & Hiv). unfold blob_emit, s2k_emit_std, legacy_blob.
    cbn [b_usage b_alg b_spec b_halg b_salt b_count b_iv b_enc]. rewrite Hl. cbn [app]. split; [reflexivity|].
    assert (Hva := block_valid' u bs Hbs). unfold legacy in Hl.
    unfold s2k_parse.
    replace ((u =? 254) || (u =? 255)) with false by lia. replace (u =? 0) with false by lia.
    rewrite Hva, Hbs. rewrite (firstn_app_exact iv enc _ Hiv), (skipn_app_exact iv enc _ Hiv). reflexivity.
  Qed.

  Lemma legacy_usage_roundtrip u iv pass ms : wf_legacy u iv -> wf_mpis ms ->
    let b := mk_sblob cfb_enc sha1 s2k u u 0 1 [] 0 iv pass ms in
    blob_emit (BStd b) = [u] ++ iv ++ cfb_enc u (s2k 0 1 u [] 0 pass) iv
                                      (secret_plain ms ++ int_to_bytes (sumz (secret_plain ms) mod 65536) 2) /\
    s2k_parse (blob_emit (BStd b)) = Some (inr (BStd b), []) /\
    unprotect cfb_dec sha1 s2k (length ms) b pass = Some ms.
  Proof.
    intros Hw Hm. cbv zeta.
    change (mk_sblob cfb_enc sha1 s2k u u 0 1 [] 0 iv pass ms)
      with (legacy_blob u iv (protect_enc cfb_enc sha1 s2k u u 0 1 [] 0 iv pass ms)).
    destruct (s2k_parse_emit_legacy u iv (protect_enc cfb_enc sha1 s2k u u 0 1 [] 0 iv pass ms) Hw) as [E P].
    split; [|split; [exact P|]].
    - rewrite E. unfold protect_enc. destruct Hw as [Hl _]. unfold legacy in Hl. replace (u =? 254) with false by lia. reflexivity.
    - change (legacy_blob u iv (protect_enc cfb_enc sha1 s2k u u 0 1 [] 0 iv pass ms))
        with (mk_sblob cfb_enc sha1 s2k u u 0 1 [] 0 iv pass ms).
      unfold unprotect. rewrite (unprotect_std_protect_any u u 0 1 [] 0 iv pass ms Hm). reflexivity.
  Qed.

  (* the DESIGN.md statement *)
  Lemma unprotect_protect u a sp h salt c iv pass ms :
    wf_mpis ms -> (u = 254 \/ u = 255) ->
    unprotect cfb_dec sha1 s2k (length ms) (mk_sblob cfb_enc sha1 s2k u a sp h salt c iv pass ms) pass = Some ms.
  Proof. intros H Hu. unfold unprotect. rewrite (unprotect_std_protect u a sp h salt c iv pass ms H Hu). reflexivity. Qed.

  (* reading back the octets: String2Key.parse inverts the emitted header *)
  Definition wf_form (u a sp h : Z) (salt : bytes) (c : Z) (iv : bytes) : Prop :=
    (u = 254 \/ u = 255) /\ valid_halg h = true /\
    (exists bs, block_octets a = Some bs /\ length iv = Z.to_nat bs) /\
    (sp = 0 /\ salt = [] /\ c = 0 \/ sp = 1 /\ length salt = 8%nat /\ c = 0 \/ sp = 3 /\ length salt = 8%nat).

  Lemma block_valid a bs : block_octets a = Some bs -> valid_symalg a = true.
  Proof.
    unfold block_octets, valid_symalg. intros H.
    destruct ((1 <=? a) && (a <=? 4)) eqn:E1; [lia|].
    destruct ((7 <=? a) && (a <=? 13)) eqn:E2; [lia|discriminate].
  Qed.

  Lemma s2k_parse_emit b : wf_form (b_usage b) (b_alg b) (b_spec b) (b_halg b) (b_salt b) (b_count b) (b_iv b) ->
    s2k_parse (blob_emit (BStd b)) = Some (inr (BStd b), []).
  Proof.
    destruct b as [u a sp h salt c iv enc]. cbn [b_usage b_alg b_spec b_halg b_salt b_count b_iv b_enc].
    intros (Hu & Hh & (bs & Hbs & Hiv) & Hsp).
    unfold blob_emit, s2k_emit_std. cbn [b_usage b_alg b_spec b_halg b_salt b_count b_iv b_enc].
    assert (Hl : legacy u = false) by (unfold legacy; lia). rewrite Hl.
    assert (Hva := block_valid a bs Hbs).
    assert (Hu' : (u =? 254) || (u =? 255) = true) by lia.
    destruct Hsp as [(-> & -> & ->) | [(-> & Hs & ->) | (-> & Hs)]].
    - cbn [app]. unfold s2k_parse. rewrite Hu', Hva. cbn [valid_spec Z.leb Z.eqb Z.compare andb orb].
      cbn -[firstn skipn block_octets valid_halg]. rewrite Hh, Hbs.
      cbn [nth_error]. rewrite (firstn_app_exact iv enc _ Hiv), (skipn_app_exact iv enc _ Hiv). reflexivity.
    - cbn [app]. unfold s2k_parse. rewrite Hu', Hva.
      cbn -[firstn skipn block_octets valid_halg]. rewrite Hh, Hbs. rewrite <- !app_assoc.
      rewrite (firstn_app_exact salt _ 8 Hs), (skipn_app_exact salt _ 8 Hs).
      cbn [app]. rewrite (firstn_app_exact iv enc _ Hiv), (skipn_app_exact iv enc _ Hiv). reflexivity.
    - cbn [app]. unfold s2k_parse. rewrite Hu', Hva.
      cbn -[firstn skipn block_octets valid_halg nth_error]. rewrite Hh. rewrite <- !app_assoc.
      rewrite (firstn_app_exact salt _ 8 Hs), (skipn_app_exact salt _ 8 Hs).
      cbn [app nth_error skipn]. rewrite Hbs.
      rewrite (firstn_app_exact iv enc _ Hiv), (skipn_app_exact iv enc _ Hiv). reflexivity.
  Qed.

  (* the reader (String2Key.parse, then decrypt_keyblob) recovers what the writer was given, for every form the writer knows *)
  Lemma reader_recovers_written u a sp h salt c iv pass ms :
    wf_form u a sp h salt c iv -> wf_mpis ms ->
    exists b, s2k_parse (write_secret cfb_enc sha1 s2k (WStd u a sp h salt c iv pass) ms) = Some (inr (BStd b), []) /\
              unprotect cfb_dec sha1 s2k (length ms) b pass = Some ms.
  Proof.
    intros Hf Hm. exists (mk_sblob cfb_enc sha1 s2k u a sp h salt c iv pass ms). split.
    - unfold write_secret. apply s2k_parse_emit. exact Hf.
    - apply unprotect_protect; [exact Hm | destruct Hf as [Hu _]; exact Hu].
  Qed.

  (* ---------- the gate is the only way to acceptance ---------- *)
  Lemma unprotect_accept_iff n b pass ms r :
    unprotect_std cfb_dec sha1 s2k n b pass = UOk ms r <->
    gate sha1 (b_usage b) (decrypt_std cfb_dec s2k b pass) = true /\ parse_mpis n (decrypt_std cfb_dec s2k b pass) = (ms, r).
  Proof.
    unfold unprotect_std. destruct (gate sha1 (b_usage b) (decrypt_std cfb_dec s2k b pass)).
    - destruct (parse_mpis n (decrypt_std cfb_dec s2k b pass)) as [ms' r'].
      split; [intros H; inversion H; auto | intros [_ H]; inversion H; reflexivity].
    - split; [discriminate | intros [H _]; discriminate].
  Qed.

  Lemma unprotect_reject_iff n b pass :
    unprotect_std cfb_dec sha1 s2k n b pass = UBadPass <-> gate sha1 (b_usage b) (decrypt_std cfb_dec s2k b pass) = false.
  Proof.
    unfold unprotect_std. destruct (gate sha1 (b_usage b) (decrypt_std cfb_dec s2k b pass)).
    - destruct (parse_mpis n (decrypt_std cfb_dec s2k b pass)). split; discriminate.
    - split; reflexivity.
  Qed.

  Lemma unprotect_never_error n b pass : unprotect_std cfb_dec sha1 s2k n b pass <> UError.
  Proof.
    unfold unprotect_std. destruct (gate sha1 (b_usage b) (decrypt_std cfb_dec s2k b pass)); [|discriminate].
    destruct (parse_mpis n (decrypt_std cfb_dec s2k b pass)). discriminate.
  Qed.

  (* what the gate says, in terms of the decrypted octets *)
  Lemma gate_254_iff pt : gate sha1 254 pt = true <-> lastn 20 pt = sha1 (firstn (length pt - 20) pt).
  Proof. unfold gate. change (254 =? 254) with true. cbv iota. apply eqb_bytes_eq. Qed.
  Lemma gate_255_iff pt : gate sha1 255 pt = true <-> unbe (lastn 2 pt) = sumz (firstn (length pt - 2) pt) mod 65536.
  Proof. unfold gate. change (255 =? 254) with false. change (255 =? 255) with true. cbv iota. lia. Qed.
End Prims.
