(* C06 proof scripts, part 2: the lock automaton over arbitrary histories.
   Follows the repairs e967622 (PGPKey.unlock passes over key material that is not protected, on entry and in the finally
   block) and a3ce830 (a refused protect leaves the key unchanged). *)
From Coq Require Import ZArith List Bool Lia ZifyBool.
Import ListNotations.
Require Import PV.Lib.Bytes PV.Lib.BytesLemmas PV.Model.Wire PV.Model.KeyProtect PV.Proofs.KeyProtect_lemmas.
Open Scope Z_scope.

(* ---------- facts that need no primitive ---------- *)
Lemma zeros_all_zero l : forallb (Z.eqb 0) (zeros l) = true.
Proof. induction l; [reflexivity|]. cbn. exact IHl. Qed.
Lemma zeros_length l : length (zeros l) = length l.
Proof. apply map_length. Qed.
Lemma zeros_id l : forallb (Z.eqb 0) l = true -> zeros l = l.
Proof.
  induction l as [|x l IH]; [reflexivity|]. cbn [forallb zeros map]. intros H.
  apply andb_true_iff in H. destruct H as [Hx Hl]. unfold zeros in IH. rewrite (IH Hl). f_equal. lia.
Qed.

Lemma all_zero_clear c : all_zero (clear c) = true.
Proof. unfold all_zero, clear. cbn [p_fields]. apply zeros_all_zero. Qed.
Lemma clear_blob c : p_blob (clear c) = p_blob c.
Proof. reflexivity. Qed.
Lemma clear_locked_id c : all_zero c = true -> clear c = c.
Proof. destruct c as [b f ch]. unfold all_zero, clear. cbn [p_fields p_blob p_chk]. intros H. rewrite (zeros_id f H). reflexivity. Qed.
Lemma map_clear_all_zero k : forallb all_zero (map clear k) = true.
Proof. induction k; [reflexivity|]. cbn [map forallb]. rewrite all_zero_clear. exact IHk. Qed.

Lemma relock_blob c : p_blob (relock c) = p_blob c.
Proof. unfold relock. destruct (protected c); reflexivity. Qed.
(* key material that is not protected is left alone *)
Lemma relock_unprot c : protected c = false -> relock c = c.
Proof. unfold relock. intros ->. reflexivity. Qed.
Lemma relock_prot c : protected c = true -> relock c = clear c.
Proof. unfold relock. intros ->. reflexivity. Qed.
Lemma relock_spec c : (protected c = true -> relock c = clear c /\ all_zero (relock c) = true) /\ (protected c = false -> relock c = c).
Proof. split; [intros H; split; [apply relock_prot; exact H | rewrite (relock_prot c H); apply all_zero_clear] | apply relock_unprot]. Qed.

Lemma Forall2_imp {A B} (P Q : A -> B -> Prop) l l' : (forall a b, P a b -> Q a b) -> Forall2 P l l' -> Forall2 Q l l'.
Proof. intros H F. induction F; constructor; auto. Qed.

Definition locked_or_unprot (c : pkt) : bool := negb (protected c) || all_zero c.
Lemma all_zero_locked k : forallb all_zero k = true -> forallb locked_or_unprot k = true.
Proof.
  induction k as [|c k IH]; [reflexivity|]. cbn [forallb]. intros H. apply andb_true_iff in H. destruct H as [Hc Hk].
  unfold locked_or_unprot at 1. rewrite Hc, (IH Hk). rewrite orb_true_r. reflexivity.
Qed.
Lemma map_relock_locked k : forallb locked_or_unprot (map relock k) = true.
Proof.
  induction k as [|c k IH]; [reflexivity|]. cbn [map forallb]. rewrite IH, andb_true_r.
  unfold locked_or_unprot, relock. destruct (protected c) eqn:E.
  - rewrite all_zero_clear. apply orb_true_r.
  - rewrite E. reflexivity.
Qed.
Lemma relock_id c : locked_or_unprot c = true -> relock c = c.
Proof.
  unfold relock, locked_or_unprot. destruct (protected c); cbn [negb orb]; intros H; [apply clear_locked_id; exact H | reflexivity].
Qed.
Lemma map_relock_id k : forallb locked_or_unprot k = true -> map relock k = k.
Proof.
  induction k as [|c k IH]; [reflexivity|]. cbn [forallb map]. intros H. apply andb_true_iff in H. destruct H as [Hc Hk].
  rewrite (relock_id c Hc), (IH Hk). reflexivity.
Qed.
Lemma lou_view k : forallb locked_or_unprot k = true ->
  forall c, In c k -> protected c = true -> all_zero c = true /\ exists b, view c = Locked b.
Proof.
  intros H c Hin Hp. rewrite forallb_forall in H. specialize (H c Hin). unfold locked_or_unprot in H. rewrite Hp in H.
  cbn [negb orb] in H. split; [exact H|]. unfold view. unfold protected in Hp. destruct (p_blob c) as [b|]; [|discriminate].
  rewrite H. exists b. reflexivity.
Qed.

Lemma private_op_state st b i : fst (private_op st b i) = st.
Proof.
  unfold private_op. destruct (b && negb (primary_unlocked (k_pkts st))); [reflexivity|].
  destruct (nth_error (k_pkts st) i); [|reflexivity]. destruct (unlocked_flag p); reflexivity.
Qed.

(* a Locked packet with at least one secret field does not pass PrivKeyV4.unlocked *)
Lemma locked_flag c : protected c = true -> all_zero c = true -> p_fields c <> [] -> unlocked_flag c = false.
Proof.
  unfold unlocked_flag, fields_nonzero, all_zero. intros -> H Hn.
  destruct (p_fields c) as [|x l]; [congruence|]. cbn [forallb existsb] in *.
  apply andb_true_iff in H. destruct H as [Hx _]. rewrite Hx. reflexivity.
Qed.

Definition exit_op (o : op) : Prop := o = OExit \/ o = ORaiseInScope.
(* what the body of an unlock scope may do without opening or closing a scope -- including add_subkey *)
Definition scope_neutral (o : op) : bool :=
  match o with OProtect _ _ _ _ _ | OSign _ | ODecrypt _ | OExport | OAddSub _ _ => true | _ => false end.
Definition open_scope (st : kst) : bool := existsb (fun b => b) (k_scopes st).
(* no real unlock scope open  =>  every protected packet is locked *)
Definition inv (st : kst) : bool := open_scope st || forallb locked_or_unprot (k_pkts st).

(* operations that neither create an at-rest form nor attach a packet *)
Definition keeps_pkts (o : op) : bool := match o with OProtect _ _ _ _ _ | OAddSub _ _ => false | _ => true end.
(* c' is c up to the secret fields of PROTECTED key material: same at-rest form, and identical when c is not protected *)
Definition same_unprot (c c' : pkt) : Prop := p_blob c' = p_blob c /\ (protected c = false -> c' = c).

Lemma same_unprot_refl k : Forall2 same_unprot k k.
Proof. induction k; constructor; [split; auto | assumption]. Qed.
Lemma same_unprot_trans k1 k2 : Forall2 same_unprot k1 k2 -> forall k3, Forall2 same_unprot k2 k3 -> Forall2 same_unprot k1 k3.
Proof.
  induction 1 as [|x y l1 l2 [B1 U1] _ IH]; intros k3 H2; inversion H2 as [|y' z l2' l3 [B2 U2] Hr]; subst; constructor.
  - split; [congruence|]. intros Hp. assert (E := U1 Hp). subst y. exact (U2 Hp).
  - apply IH. exact Hr.
Qed.
Lemma relock_same k : Forall2 same_unprot k (map relock k).
Proof.
  induction k as [|c k IH]; cbn [map]; constructor; [|exact IH].
  split; [apply relock_blob | intros Hp; apply relock_unprot; exact Hp].
Qed.

Section Auto.
  Variable cfb_enc cfb_dec : Z -> bytes -> bytes -> bytes -> bytes.
  Variable sha1 : bytes -> bytes.
  Variable s2k : Z -> Z -> Z -> bytes -> Z -> bytes -> bytes.
  Notation STEP := (step cfb_enc cfb_dec sha1 s2k).
  Notation RUN := (run cfb_enc cfb_dec sha1 s2k).
  Notation ENTER := (enter_pkts cfb_dec sha1 s2k).
  Notation PROTECT := (protect_pkts cfb_enc sha1 s2k).

  Lemma protect_pkts_zero pass alg halg count : forall k rnd, forallb all_zero (PROTECT pass alg halg count rnd k) = true.
  Proof.
    induction k as [|c k IH]; intros rnd; [reflexivity|]. cbn [protect_pkts forallb]. rewrite IH, andb_true_r.
    unfold all_zero, protect_pkt. cbn [p_fields]. apply zeros_all_zero.
  Qed.

  Lemma run_app a b st : RUN (a ++ b) st = RUN b (RUN a st).
  Proof. unfold run. apply fold_left_app. Qed.
  Lemma run_cons o r st : RUN (o :: r) st = RUN r (fst (STEP st o)).
  Proof. reflexivity. Qed.

  Lemma lou_added k ms chk : forallb locked_or_unprot (k ++ [{| p_blob := None; p_fields := ms; p_chk := chk |}]) = forallb locked_or_unprot k.
  Proof. rewrite forallb_app. cbn [forallb]. change (locked_or_unprot {| p_blob := None; p_fields := ms; p_chk := chk |}) with true. rewrite !andb_true_r. reflexivity. Qed.

  (* ---------- the invariant over arbitrary histories ---------- *)
  Lemma inv_step st o : inv st = true -> inv (fst (STEP st o)) = true.
  Proof.
    destruct st as [k sc]. unfold inv, open_scope. cbn [k_pkts k_scopes]. intros H.
    destruct o; unfold step; cbn [k_pkts k_scopes].
    - destruct (any_locked k); cbn [fst k_pkts k_scopes]; [exact H|].
      destruct (can_encrypt alg); cbn [fst k_pkts k_scopes]; [|exact H].
      rewrite (all_zero_locked _ (protect_pkts_zero pass alg halg count k rnd)). apply orb_true_r.
    - destruct (negb (any_protected k)); cbn [fst k_pkts k_scopes].
      + cbn [existsb]. exact H.
      + destruct (ENTER pass k); cbn [fst k_pkts k_scopes].
        * rewrite map_relock_locked. apply orb_true_r.
        * reflexivity.
    - destruct sc as [|[|] sc]; cbn [fst k_pkts k_scopes].
      + exact H.
      + rewrite map_relock_locked. apply orb_true_r.
      + exact H.
    - destruct sc as [|[|] sc]; cbn [fst k_pkts k_scopes].
      + exact H.
      + rewrite map_relock_locked. apply orb_true_r.
      + exact H.
    - rewrite private_op_state. exact H.
    - rewrite private_op_state. exact H.
    - exact H.
    - cbn [fst k_pkts k_scopes existsb]. apply map_relock_locked.
    - destruct (primary_unlocked k); cbn [fst k_pkts k_scopes]; [rewrite lou_added|]; exact H.
  Qed.

  Lemma inv_run ops : forall st, inv st = true -> inv (RUN ops st) = true.
  Proof.
    induction ops as [|o r IH]; intros st H; [exact H|]. rewrite run_cons. apply IH. apply inv_step. exact H.
  Qed.

  Lemma inv_locked st : inv st = true -> open_scope st = false ->
    forall c, In c (k_pkts st) -> protected c = true -> all_zero c = true /\ exists b, view c = Locked b.
  Proof.
    unfold inv. intros H Ho. rewrite Ho in H. cbn [orb] in H. apply lou_view. exact H.
  Qed.

  (* ---------- every exit of a real unlock scope clears the protected key material, and only that ---------- *)
  Lemma exit_clears st o s : exit_op o -> k_scopes st = true :: s ->
    fst (STEP st o) = {| k_pkts := map relock (k_pkts st); k_scopes := s |}.
  Proof. intros [-> | ->] Hs; unfold step; rewrite Hs; reflexivity. Qed.

  Lemma exit_keeps_lou st o : exit_op o -> forallb locked_or_unprot (k_pkts st) = true ->
    forallb locked_or_unprot (k_pkts (fst (STEP st o))) = true.
  Proof.
    intros [-> | ->] H; unfold step; destruct (k_scopes st) as [|[|] s]; cbn [fst k_pkts]; auto using map_relock_locked.
  Qed.

  Lemma failed_enter_clears st pass kind : any_protected (k_pkts st) = true -> ENTER pass (k_pkts st) = inl kind ->
    STEP st (OEnter pass) = ({| k_pkts := map relock (k_pkts st); k_scopes := k_scopes st |}, BRaised kind).
  Proof. intros Hp He. unfold step. rewrite Hp, He. reflexivity. Qed.

  (* the statements before repair e967622 (every packet cleared; an unprotected packet makes entering raise) no longer hold *)
  Lemma exit_clears_all_old_refuted : exists st s, k_scopes st = true :: s /\
    fst (STEP st OExit) <> {| k_pkts := map clear (k_pkts st); k_scopes := s |}.
  Proof.
    exists {| k_pkts := [ {| p_blob := Some (BGnu 254 0 1 [] []); p_fields := [0]; p_chk := [] |};
                          {| p_blob := None; p_fields := [5]; p_chk := [0; 5] |} ]; k_scopes := [true] |}, [].
    split; [reflexivity|]. cbn. intros H. inversion H.
  Qed.
  Lemma enter_unprotected_raises_old_refuted : exists c, p_blob c = None /\ forall pass, ENTER pass [c] <> inl 2.
  Proof. exists {| p_blob := None; p_fields := [5]; p_chk := [0; 5] |}. split; [reflexivity|]. intros pass. cbn. discriminate. Qed.

  (* key material that is not protected is passed over when entering *)
  Lemma enter_skips_unprotected pass c r : p_blob c = None ->
    ENTER pass (c :: r) = match ENTER pass r with inr r' => inr (c :: r') | inl k => inl k end.
  Proof. intros H. cbn [enter_pkts]. rewrite H. reflexivity. Qed.

  Lemma neutral_scopes st o : scope_neutral o = true -> k_scopes (fst (STEP st o)) = k_scopes st.
  Proof.
    destruct o; try discriminate; intros _; unfold step.
    - destruct (any_locked (k_pkts st)); [reflexivity|].
      destruct (can_encrypt alg); reflexivity.
    - rewrite private_op_state. reflexivity.
    - rewrite private_op_state. reflexivity.
    - reflexivity.
    - destruct (primary_unlocked (k_pkts st)); reflexivity.
  Qed.
  Lemma neutral_lou st o : scope_neutral o = true -> forallb locked_or_unprot (k_pkts st) = true ->
    forallb locked_or_unprot (k_pkts (fst (STEP st o))) = true.
  Proof.
    destruct o; try discriminate; intros _ H; unfold step.
    - destruct (any_locked (k_pkts st)); cbn [fst k_pkts]; [exact H|].
      destruct (can_encrypt alg); cbn [fst k_pkts]; [|exact H].
      apply all_zero_locked. apply protect_pkts_zero.
    - rewrite private_op_state. exact H.
    - rewrite private_op_state. exact H.
    - exact H.
    - destruct (primary_unlocked (k_pkts st)); cbn [fst k_pkts]; [rewrite lou_added|]; exact H.
  Qed.
  Lemma run_neutral body : forall st, forallb scope_neutral body = true ->
    k_scopes (RUN body st) = k_scopes st /\
    (forallb locked_or_unprot (k_pkts st) = true -> forallb locked_or_unprot (k_pkts (RUN body st)) = true).
  Proof.
    induction body as [|o r IH]; intros st H; [split; auto|].
    cbn [forallb] in H. apply andb_true_iff in H. destruct H as [Ho Hr]. rewrite run_cons.
    destruct (IH (fst (STEP st o)) Hr) as [I1 I2]. split.
    - rewrite I1. apply neutral_scopes. exact Ho.
    - intros Hz. apply I2. apply neutral_lou; assumption.
  Qed.

  Lemma enter_state st p : any_protected (k_pkts st) = true ->
    fst (STEP st (OEnter p)) = match ENTER p (k_pkts st) with
                               | inl _ => {| k_pkts := map relock (k_pkts st); k_scopes := k_scopes st |}
                               | inr k' => {| k_pkts := k'; k_scopes := true :: k_scopes st |}
                               end.
  Proof. intros Hp. unfold step. rewrite Hp. cbn [negb]. destruct (ENTER p (k_pkts st)); reflexivity. Qed.

  Lemma run_one o st : RUN [o] st = fst (STEP st o).
  Proof. reflexivity. Qed.

  (* with key.unlock(p): body ; normal exit or exception -- also when entering fails half-way through the subkeys.
     Since e967622 the conclusion speaks about the PROTECTED packets only (an unprotected subkey, e.g. one attached by the
     body, keeps its secret: [subkey_added_in_scope_survives], [unprotected_untouched]) *)
  Lemma scope_exit_locks st0 p body o : exit_op o -> forallb scope_neutral body = true -> any_protected (k_pkts st0) = true ->
    let st := RUN (OEnter p :: body ++ [o]) st0 in
    forallb locked_or_unprot (k_pkts st) = true /\
    (forall c, In c (k_pkts st) -> protected c = true -> all_zero c = true /\ exists b, view c = Locked b) /\
    (forall k', ENTER p (k_pkts st0) = inr k' -> k_scopes st = k_scopes st0).
  Proof.
    intros Ho Hb Hp. cbv zeta. rewrite run_cons, run_app, run_one, (enter_state st0 p Hp).
    assert (Z : forall s1, s1 = match ENTER p (k_pkts st0) with
                               | inl _ => {| k_pkts := map relock (k_pkts st0); k_scopes := k_scopes st0 |}
                               | inr k' => {| k_pkts := k'; k_scopes := true :: k_scopes st0 |}
                               end ->
                forallb locked_or_unprot (k_pkts (fst (STEP (RUN body s1) o))) = true /\
                (forall k', ENTER p (k_pkts st0) = inr k' -> k_scopes (fst (STEP (RUN body s1) o)) = k_scopes st0)).
    { intros s1 Hs1. destruct (ENTER p (k_pkts st0)) as [kind|k'] eqn:E; subst s1.
      - split; [|discriminate].
        destruct (run_neutral body {| k_pkts := map relock (k_pkts st0); k_scopes := k_scopes st0 |} Hb) as [_ I2].
        cbn [k_pkts] in I2. specialize (I2 (map_relock_locked _)).
        apply exit_keeps_lou; assumption.
      - destruct (run_neutral body {| k_pkts := k'; k_scopes := true :: k_scopes st0 |} Hb) as [I1 _].
        cbn [k_scopes] in I1.
        rewrite (exit_clears _ o _ Ho I1). cbn [k_pkts k_scopes].
        split; [apply map_relock_locked | reflexivity]. }
    destruct (Z _ eq_refl) as [Z1 Z2]. split; [exact Z1|]. split; [|exact Z2].
    apply lou_view. exact Z1.
  Qed.

  (* the witness of e967622: a subkey attached inside the scope is still there, secret integers and all, after the scope *)
  Lemma add_sub_unlocked st ms chk : primary_unlocked (k_pkts st) = true ->
    STEP st (OAddSub ms chk) =
    ({| k_pkts := k_pkts st ++ [{| p_blob := None; p_fields := ms; p_chk := chk |}]; k_scopes := k_scopes st |}, BDone).
  Proof. intros H. unfold step. rewrite H. reflexivity. Qed.
  (* repair 163b208: add_subkey on a locked key is refused and leaves the key as it was *)
  Lemma add_sub_locked_unchanged st ms chk : primary_unlocked (k_pkts st) = false -> STEP st (OAddSub ms chk) = (st, BRefused).
  Proof. intros H. unfold step. rewrite H. reflexivity. Qed.
  (* the rule before the repair left the unbound packet attached *)
  Lemma add_sub_old_refuted : exists st ms chk, primary_unlocked (k_pkts st) = false /\
    k_pkts (fst (add_sub_old st ms chk)) <> k_pkts (fst (STEP st (OAddSub ms chk))).
  Proof.
    exists {| k_pkts := [ {| p_blob := Some (BGnu 254 0 1 [] []); p_fields := [0]; p_chk := [] |} ]; k_scopes := [] |}, [5], [0; 5].
    split; [reflexivity|]. cbn. intros H. inversion H.
  Qed.

  Lemma subkey_added_in_scope_survives st ms chk o s : exit_op o -> k_scopes st = true :: s -> primary_unlocked (k_pkts st) = true ->
    fst (STEP (fst (STEP st (OAddSub ms chk))) o) =
    {| k_pkts := map relock (k_pkts st) ++ [{| p_blob := None; p_fields := ms; p_chk := chk |}]; k_scopes := s |}.
  Proof.
    intros Ho Hs Hu. rewrite (add_sub_unlocked st ms chk Hu). cbn [fst].
    set (st1 := {| k_pkts := k_pkts st ++ [{| p_blob := None; p_fields := ms; p_chk := chk |}]; k_scopes := k_scopes st |}).
    assert (Hs1 : k_scopes st1 = true :: s) by exact Hs.
    rewrite (exit_clears st1 o s Ho Hs1). unfold st1. cbn [k_pkts]. rewrite map_app. reflexivity.
  Qed.

  (* entering, leaving (normally, by exception, by a failed enter), private operations, export, re-import: key material
     that is not protected is never touched, and no at-rest form changes *)
  Lemma enter_same pass : forall k k', ENTER pass k = inr k' -> Forall2 same_unprot k k'.
  Proof.
    induction k as [|c k IH]; intros k' H; cbn [enter_pkts] in H.
    - inversion H. constructor.
    - destruct (p_blob c) as [bl|] eqn:Eb.
      + destruct (unprotect_blob cfb_dec sha1 s2k (length (p_fields c)) bl pass); try discriminate.
        * destruct (ENTER pass k) as [?|r'] eqn:Er; [discriminate|]. inversion H; subst.
          constructor; [|apply IH; reflexivity].
          split; [cbn [p_blob]; symmetry; exact Eb | unfold protected; rewrite Eb; discriminate].
        * destruct (ENTER pass k) as [?|r'] eqn:Er; [discriminate|]. inversion H; subst.
          constructor; [split; auto | apply IH; reflexivity].
      + destruct (ENTER pass k) as [?|r'] eqn:Er; [discriminate|]. inversion H; subst.
        constructor; [split; auto | apply IH; reflexivity].
  Qed.

  Lemma step_same st o : keeps_pkts o = true -> Forall2 same_unprot (k_pkts st) (k_pkts (fst (STEP st o))).
  Proof.
    destruct o; try discriminate; intros _; unfold step.
    - destruct (negb (any_protected (k_pkts st))); cbn [fst k_pkts]; [apply same_unprot_refl|].
      destruct (ENTER pass (k_pkts st)) as [kind|k'] eqn:E; cbn [fst k_pkts]; [apply relock_same | apply (enter_same pass); exact E].
    - destruct (k_scopes st) as [|[|] s]; cbn [fst k_pkts]; auto using same_unprot_refl, relock_same.
    - destruct (k_scopes st) as [|[|] s]; cbn [fst k_pkts]; auto using same_unprot_refl, relock_same.
    - rewrite private_op_state. apply same_unprot_refl.
    - rewrite private_op_state. apply same_unprot_refl.
    - apply same_unprot_refl.
    - cbn [fst k_pkts]. apply relock_same.
  Qed.

  Lemma unprotected_untouched ops : forall st, forallb keeps_pkts ops = true ->
    Forall2 same_unprot (k_pkts st) (k_pkts (RUN ops st)).
  Proof.
    induction ops as [|o r IH]; intros st H; [apply same_unprot_refl|].
    cbn [forallb] in H. apply andb_true_iff in H. destruct H as [Ho Hr]. rewrite run_cons.
    apply (same_unprot_trans _ _ (step_same st o Ho)). apply IH. exact Hr.
  Qed.

  (* ---------- a refused protect leaves the key as it was (repair a3ce830) ---------- *)
  Lemma refused_protect_unchanged st pass alg halg count rnd : can_encrypt alg = false ->
    fst (STEP st (OProtect pass alg halg count rnd)) = st /\
    (snd (STEP st (OProtect pass alg halg count rnd)) = BWarned \/ snd (STEP st (OProtect pass alg halg count rnd)) = BRaised 2).
  Proof.
    intros Hc. unfold step. rewrite Hc.
    destruct (any_locked (k_pkts st)); split; auto.
  Qed.
  (* ... hence every later observation is the one the untouched key gives: same export, same passphrase *)
  Lemma refused_protect_invisible st pass alg halg count rnd ops : can_encrypt alg = false ->
    RUN (OProtect pass alg halg count rnd :: ops) st = RUN ops st /\
    run_obs cfb_enc cfb_dec sha1 s2k ops (fst (STEP st (OProtect pass alg halg count rnd))) = run_obs cfb_enc cfb_dec sha1 s2k ops st.
  Proof.
    intros Hc. destruct (refused_protect_unchanged st pass alg halg count rnd Hc) as [E _].
    rewrite run_cons, E. split; reflexivity.
  Qed.
  (* repair 080d1e8: while any component is protected and locked, protect only warns *)
  Lemma protect_refused_while_any_locked st pass alg halg count rnd : any_locked (k_pkts st) = true ->
    STEP st (OProtect pass alg halg count rnd) = (st, BWarned).
  Proof. intros H. unfold step. rewrite H. reflexivity. Qed.
  (* an accepted cipher on a key that is not locked does protect *)
  Lemma accepted_protect st pass alg halg count rnd : can_encrypt alg = true ->
    any_locked (k_pkts st) = false ->
    STEP st (OProtect pass alg halg count rnd) =
    ({| k_pkts := PROTECT pass alg halg count rnd (k_pkts st); k_scopes := k_scopes st |}, BDone).
  Proof. intros Hc Hl. unfold step. rewrite Hl, Hc. reflexivity. Qed.

  (* ---------- a locked key refuses private operations ---------- *)
  (* since repair cab6d36 the condition is checked on the component that does the work: a locked COMPONENT refuses to sign
     and to decrypt; a locked primary refuses its own signatures and every decryption (PGPKey.decrypt checks the key it is
     called on before it re-dispatches) *)
  Lemma locked_component_refuses st c i : nth_error (k_pkts st) i = Some c -> protected c = true -> all_zero c = true -> p_fields c <> [] ->
    STEP st (OSign i) = (st, BRefused) /\ STEP st (ODecrypt i) = (st, BRefused).
  Proof.
    intros Hk Hp Hz Hn. unfold step, private_op. rewrite Hk, (locked_flag c Hp Hz Hn). cbn [andb].
    split; [reflexivity|]. destruct (negb (primary_unlocked (k_pkts st))); reflexivity.
  Qed.

  Lemma locked_refuses st c rest i : k_pkts st = c :: rest -> protected c = true -> all_zero c = true -> p_fields c <> [] ->
    STEP st (OSign 0) = (st, BRefused) /\ STEP st (ODecrypt i) = (st, BRefused).
  Proof.
    intros Hk Hp Hz Hn. split.
    - apply (locked_component_refuses st c 0); [rewrite Hk; reflexivity | assumption..].
    - unfold step, private_op. rewrite Hk. cbn [primary_unlocked]. rewrite (locked_flag c Hp Hz Hn). reflexivity.
  Qed.

  Lemma locked_refuses_run st0 ops c rest i : inv st0 = true ->
    open_scope (RUN ops st0) = false -> k_pkts (RUN ops st0) = c :: rest -> protected c = true -> p_fields c <> [] ->
    STEP (RUN ops st0) (OSign 0) = (RUN ops st0, BRefused) /\ STEP (RUN ops st0) (ODecrypt i) = (RUN ops st0, BRefused).
  Proof.
    intros Hi Ho Hk Hp Hn.
    destruct (inv_locked _ (inv_run ops st0 Hi) Ho c) as [Hz _]; [rewrite Hk; left; reflexivity | exact Hp |].
    apply (locked_refuses _ c rest i Hk Hp Hz Hn).
  Qed.

  (* after any history that leaves no real scope open, every protected component (primary or subkey) refuses *)
  Lemma locked_component_refuses_run st0 ops c i : inv st0 = true ->
    open_scope (RUN ops st0) = false -> nth_error (k_pkts (RUN ops st0)) i = Some c -> protected c = true -> p_fields c <> [] ->
    STEP (RUN ops st0) (OSign i) = (RUN ops st0, BRefused) /\ STEP (RUN ops st0) (ODecrypt i) = (RUN ops st0, BRefused).
  Proof.
    intros Hi Ho Hk Hp Hn.
    destruct (inv_locked _ (inv_run ops st0 Hi) Ho c) as [Hz _]; [apply (nth_error_In _ i); exact Hk | exact Hp |].
    apply (locked_component_refuses _ c i Hk Hp Hz Hn).
  Qed.

  (* ---------- a wrong passphrase leaves a locked key exactly as it was ---------- *)
  Lemma bad_gate_raises pass c rest b : p_blob c = Some (BStd b) ->
    gate sha1 (b_usage b) (decrypt_std cfb_dec s2k b pass) = false -> ENTER pass (c :: rest) = inl 1.
  Proof.
    intros Hb Hg. cbn [enter_pkts]. rewrite Hb. cbn [unprotect_blob].
    rewrite (proj2 (unprotect_reject_iff cfb_dec sha1 s2k _ b pass) Hg). reflexivity.
  Qed.

  Lemma wrong_pass_stays_locked st pass kind : any_protected (k_pkts st) = true -> forallb locked_or_unprot (k_pkts st) = true ->
    ENTER pass (k_pkts st) = inl kind -> STEP st (OEnter pass) = (st, BRaised kind).
  Proof.
    intros Hp Hz He. rewrite (failed_enter_clears st pass kind Hp He). rewrite (map_relock_id _ Hz). destruct st; reflexivity.
  Qed.

  (* ---------- the scope locks again exactly what it unlocked (repairs a8a4c11 / 9a72221) ---------- *)
  Lemma zeros_repeat l : zeros l = repeat 0 (length l).
  Proof. induction l as [|x l IH]; [reflexivity|]. cbn [zeros map length repeat]. unfold zeros in IH. rewrite IH. reflexivity. Qed.
  Lemma parse_mpis_length n : forall b, length (fst (parse_mpis n b)) = n.
  Proof.
    induction n as [|n IH]; intros b; [reflexivity|]. cbn [parse_mpis]. destruct (mpi_parse b) as [v r].
    specialize (IH r). destruct (parse_mpis n r) as [vs r']. cbn [fst length] in *. rewrite IH. reflexivity.
  Qed.
  Lemma unprotect_blob_length n bl pass ms r : unprotect_blob cfb_dec sha1 s2k n bl pass = UOk ms r -> length ms = n.
  Proof.
    destruct bl as [b|]; cbn [unprotect_blob]; [|discriminate]. unfold unprotect_std.
    destruct (gate sha1 (b_usage b) (decrypt_std cfb_dec s2k b pass)); [|discriminate].
    assert (L := parse_mpis_length n (decrypt_std cfb_dec s2k b pass)).
    destruct (parse_mpis n (decrypt_std cfb_dec s2k b pass)) as [ms' r']. intros H. inversion H as [[E1 E2]]. rewrite <- E1. exact L.
  Qed.
  (* a stub is passed over when entering (repair 9a72221; before, it raised NotImplementedError out of the loop) *)
  Lemma enter_skips_stub pass c r u a e sn rs : p_blob c = Some (BGnu u a e sn rs) ->
    ENTER pass (c :: r) = match ENTER pass r with inr r' => inr (c :: r') | inl k => inl k end.
  Proof. intros H. cbn [enter_pkts]. rewrite H. reflexivity. Qed.

  Lemma enter_relock pass : forall k k', ENTER pass k = inr k' -> forallb locked_or_unprot k = true -> map relock k' = k.
  Proof.
    induction k as [|c k IH]; intros k' H L; cbn [enter_pkts] in H.
    - inversion H. reflexivity.
    - cbn [forallb] in L. apply andb_true_iff in L. destruct L as [Lc Lk].
      destruct (p_blob c) as [bl|] eqn:Eb.
      + destruct (unprotect_blob cfb_dec sha1 s2k (length (p_fields c)) bl pass) as [ms r| | |] eqn:U; try discriminate.
        * destruct (ENTER pass k) as [?|r'] eqn:Er; [discriminate|]. inversion H; subst. cbn [map]. rewrite (IH r' eq_refl Lk). f_equal.
          unfold relock, protected. cbn [p_blob]. unfold clear. cbn [p_blob p_fields p_chk].
          unfold locked_or_unprot, protected in Lc. rewrite Eb in Lc. cbn [negb orb] in Lc.
          destruct c as [cb cf cc]. cbn [p_blob p_fields p_chk] in *. subst cb. f_equal.
          rewrite (zeros_repeat ms), (unprotect_blob_length _ _ _ _ _ U), <- zeros_repeat. apply zeros_id. exact Lc.
        * destruct (ENTER pass k) as [?|r'] eqn:Er; [discriminate|]. inversion H; subst. cbn [map].
          rewrite (IH r' eq_refl Lk), (relock_id c Lc). reflexivity.
      + destruct (ENTER pass k) as [?|r'] eqn:Er; [discriminate|]. inversion H; subst. cbn [map].
        rewrite (IH r' eq_refl Lk), (relock_id c Lc). reflexivity.
  Qed.

  Definition reads_only (o : op) : bool := match o with OSign _ | ODecrypt _ | OExport => true | _ => false end.
  Lemma run_reads body : forall st, forallb reads_only body = true -> RUN body st = st.
  Proof.
    induction body as [|o r IH]; intros st H; [reflexivity|]. cbn [forallb] in H. apply andb_true_iff in H. destruct H as [Ho Hr].
    rewrite run_cons. destruct o; try discriminate; unfold step; rewrite ?private_op_state; cbn [fst]; apply IH; exact Hr.
  Qed.

  (* `with key.unlock(p): <use the key>`: inside, exactly the protected non-stub components carry secret integers (every
     other component is as it was); afterwards the key is EXACTLY what it was -- whichever components are protected *)
  Lemma scope_relocks_exactly st0 p body o k' : exit_op o -> forallb reads_only body = true ->
    any_protected (k_pkts st0) = true -> forallb locked_or_unprot (k_pkts st0) = true -> ENTER p (k_pkts st0) = inr k' ->
    fst (STEP st0 (OEnter p)) = {| k_pkts := k'; k_scopes := true :: k_scopes st0 |} /\
    Forall2 same_unprot (k_pkts st0) k' /\
    RUN (OEnter p :: body ++ [o]) st0 = st0.
  Proof.
    intros Ho Hb Hp Hl He. assert (E1 : fst (STEP st0 (OEnter p)) = {| k_pkts := k'; k_scopes := true :: k_scopes st0 |}).
    { rewrite (enter_state st0 p Hp), He. reflexivity. }
    split; [exact E1|]. split; [exact (enter_same p _ _ He)|].
    rewrite run_cons, run_app, run_one, E1, (run_reads body _ Hb).
    rewrite (exit_clears {| k_pkts := k'; k_scopes := true :: k_scopes st0 |} o (k_scopes st0) Ho eq_refl). cbn [k_pkts]. rewrite (enter_relock p _ _ He Hl). destruct st0; reflexivity.
  Qed.

  (* the rules before the repairs looked at the primary key only *)
  Lemma enter_old_refuted : exists st pass, any_protected (k_pkts st) = true /\ snd (enter_old cfb_dec sha1 s2k st pass) = BWarned /\
    STEP st (OEnter pass) <> enter_old cfb_dec sha1 s2k st pass.
  Proof.
    exists {| k_pkts := [ {| p_blob := None; p_fields := [5]; p_chk := [0; 5] |};
                          {| p_blob := Some (BGnu 254 0 1 [] []); p_fields := [0]; p_chk := [] |} ]; k_scopes := [] |}, [1].
    split; [reflexivity|]. split; [reflexivity|]. cbn. intros H. inversion H.
  Qed.
  Lemma protect_old_refuted : exists st, any_locked (k_pkts st) = true /\
    STEP st (OProtect [1] 9 8 96 []) = (st, BWarned) /\
    snd (protect_old cfb_enc sha1 s2k st [1] 9 8 96 []) = BDone /\
    nth_error (k_pkts (fst (protect_old cfb_enc sha1 s2k st [1] 9 8 96 []))) 1 =
      Some {| p_blob := Some (BStd (mk_sblob cfb_enc sha1 s2k 254 9 3 8 [] 96 [] [1] [0])); p_fields := [0]; p_chk := [] |}.
  Proof.
    exists {| k_pkts := [ {| p_blob := None; p_fields := [5]; p_chk := [0; 5] |};
                          {| p_blob := Some (BStd {| b_usage := 254; b_alg := 9; b_spec := 3; b_halg := 8; b_salt := []; b_count := 96;
                                                     b_iv := []; b_enc := [1; 2; 3] |}); p_fields := [0]; p_chk := [] |} ]; k_scopes := [] |}.
    repeat split.
  Qed.

  (* ---------- the right passphrase restores the secret integers ---------- *)
  Hypothesis cfb_inv : forall a k iv x, cfb_dec a k iv (cfb_enc a k iv x) = x.
  Hypothesis sha1_len : forall x, length (sha1 x) = 20%nat.

  Lemma protect_then_enter pass alg halg count : forall k rnd, Forall (fun c => wf_mpis (p_fields c)) k ->
    exists k', ENTER pass (PROTECT pass alg halg count rnd k) = inr k' /\ map p_fields k' = map p_fields k
               /\ map p_blob k' = map p_blob (PROTECT pass alg halg count rnd k).
  Proof.
    induction k as [|c k IH]; intros rnd H; [exists []; auto|].
    inversion H as [|? ? Hc Hk]; subst. destruct (IH (tl rnd) Hk) as (k' & E & F & B).
    cbn [protect_pkts enter_pkts]. unfold protect_pkt. cbn [p_blob p_fields p_chk unprotect_blob].
    rewrite zeros_length.
    rewrite (unprotect_std_protect cfb_enc cfb_dec sha1 s2k cfb_inv sha1_len 254 alg 3 halg _ count _ pass (p_fields c) Hc (or_introl eq_refl)).
    rewrite E. eexists. split; [reflexivity|]. cbn [map p_fields p_blob]. rewrite F, B. split; reflexivity.
  Qed.

  (* a protected primary with subkeys that are not protected (the mixed key of e967622) unlocks: the protected part is
     restored, the rest is passed over unchanged *)
  Lemma mixed_key_enters pass alg halg count rnd c : forall subs, wf_mpis (p_fields c) ->
    Forall (fun s => p_blob s = None) subs ->
    ENTER pass (protect_pkt cfb_enc sha1 s2k pass alg halg count rnd c :: subs) =
    inr ({| p_blob := p_blob (protect_pkt cfb_enc sha1 s2k pass alg halg count rnd c); p_fields := p_fields c; p_chk := p_chk c |} :: subs).
  Proof.
    intros subs Hc Hs.
    assert (S : ENTER pass subs = inr subs).
    { induction Hs as [|s subs Hn _ IH]; [reflexivity|]. rewrite (enter_skips_unprotected pass s subs Hn), IH. reflexivity. }
    cbn [enter_pkts]. unfold protect_pkt. cbn [p_blob p_fields p_chk unprotect_blob]. rewrite zeros_length.
    rewrite (unprotect_std_protect cfb_enc cfb_dec sha1 s2k cfb_inv sha1_len 254 alg 3 halg _ count _ pass (p_fields c) Hc (or_introl eq_refl)).
    rewrite S. reflexivity.
  Qed.

  (* ---------- protect never encrypts a locked component (repair 080d1e8) ---------- *)
  (* idealisation of the acceptance gate: two passphrases the gate lets through give the same integers (false for about
     one wrong passphrase in 65536 under the 16-bit checksum, and then the CODE hands out and re-encrypts wrong integers) *)
  Hypothesis gate_sound : forall n b p1 p2 m1 r1 m2 r2,
    unprotect_std cfb_dec sha1 s2k n b p1 = UOk m1 r1 -> unprotect_std cfb_dec sha1 s2k n b p2 = UOk m2 r2 -> m2 = m1.

  (* component c carries the original secret integers s: in the clear when it is not protected; otherwise its ciphertext
     decrypts to s (under some passphrase) and its fields are s or cleared; a stub has no secret fields *)
  Definition faithful1 (s : list Z) (c : pkt) : Prop :=
    length (p_fields c) = length s /\
    match p_blob c with
    | None => p_fields c = s
    | Some (BStd b) => (exists pass r, unprotect_std cfb_dec sha1 s2k (length s) b pass = UOk s r) /\ (p_fields c = s \/ all_zero c = true)
    | Some (BGnu _ _ _ _ _) => all_zero c = true
    end.
  Definition faithful (orig : list (list Z)) (k : list pkt) : Prop := Forall2 faithful1 orig k.
  (* the ghost list of original secrets grows when add_subkey attaches a component *)
  Definition orig_step (st : kst) (orig : list (list Z)) (o : op) : list (list Z) :=
    match o with OAddSub ms _ => if primary_unlocked (k_pkts st) then orig ++ [ms] else orig | _ => orig end.
  Fixpoint run_orig (ops : list op) (st : kst) (orig : list (list Z)) : list (list Z) :=
    match ops with [] => orig | o :: r => run_orig r (fst (STEP st o)) (orig_step st orig o) end.
  Definition op_wf (o : op) : Prop := match o with OAddSub ms _ => wf_mpis ms | _ => True end.

  Lemma zero_nonzero_nil c : all_zero c = true -> fields_nonzero c = true -> p_fields c = [].
  Proof.
    unfold all_zero, fields_nonzero. destruct (p_fields c) as [|x l]; [reflexivity|]. cbn [forallb existsb].
    intros H1 H2. apply andb_true_iff in H1. destruct H1 as [Hx _]. rewrite Hx in H2. discriminate.
  Qed.
  (* a component that is not locked has its original secret integers in its fields *)
  Lemma not_locked_fields s c : faithful1 s c -> locked_comp c = false -> p_fields c = s.
  Proof.
    intros [Hl F] L. unfold locked_comp, protected, unlocked_flag, protected in L.
    destruct (p_blob c) as [[b|u a e sn rs]|]; [| |exact F]; cbn [andb] in L; apply negb_false_iff in L.
    - destruct F as [_ [F|F]]; [exact F|]. assert (E := zero_nonzero_nil c F L). rewrite E in *. destruct s; [reflexivity|discriminate].
    - assert (E := zero_nonzero_nil c F L). rewrite E in *. destruct s; [reflexivity|discriminate].
  Qed.
  Lemma relock_faithful1 s c : faithful1 s c -> faithful1 s (relock c).
  Proof.
    intros F. unfold relock. destruct (protected c) eqn:P; [|exact F]. destruct F as [Hl F]. unfold faithful1.
    cbn [clear p_blob p_fields]. rewrite zeros_length. split; [exact Hl|]. unfold protected in P.
    destruct (p_blob c) as [[b|u a e sn rs]|]; [| |discriminate].
    - destruct F as [F _]. split; [exact F|]. right. apply all_zero_clear.
    - apply all_zero_clear.
  Qed.
  Lemma relock_faithful orig k : faithful orig k -> faithful orig (map relock k).
  Proof. intros F. induction F; cbn [map]; constructor; [apply relock_faithful1|]; assumption. Qed.

  Lemma protect_faithful pass alg halg count : forall orig k rnd, Forall wf_mpis orig -> faithful orig k -> any_locked k = false ->
    faithful orig (PROTECT pass alg halg count rnd k).
  Proof.
    intros orig k rnd W F. revert rnd W. induction F as [|s c orig k Fc _ IH]; intros rnd W L; [constructor|].
    cbn [any_locked existsb] in L. apply orb_false_iff in L. destruct L as [Lc Lk].
    inversion W as [|? ? Ws Wo]; subst. cbn [protect_pkts]. constructor; [|apply IH; assumption].
    assert (E := not_locked_fields s c Fc Lc). unfold faithful1, protect_pkt. cbn [p_blob p_fields]. rewrite zeros_length, E.
    split; [reflexivity|]. split; [|right; unfold all_zero; cbn [p_fields]; apply zeros_all_zero].
    exists pass. eexists. apply (unprotect_std_protect_any cfb_enc cfb_dec sha1 s2k cfb_inv sha1_len 254 alg 3 halg _ count _ pass s Ws).
  Qed.

  Lemma enter_faithful pass : forall orig k k', faithful orig k -> ENTER pass k = inr k' -> faithful orig k'.
  Proof.
    intros orig k k' F. revert k'. induction F as [|s c orig k Fc _ IH]; intros k' H; cbn [enter_pkts] in H.
    - inversion H. constructor.
    - destruct (p_blob c) as [bl|] eqn:Eb.
      + destruct (unprotect_blob cfb_dec sha1 s2k (length (p_fields c)) bl pass) as [ms r| | |] eqn:U; try discriminate.
        * destruct (ENTER pass k) as [?|r'] eqn:Er; [discriminate|]. inversion H; subst. constructor; [|apply IH; reflexivity].
          destruct Fc as [Hl Fc]. rewrite Eb in Fc. destruct bl as [b|]; [|discriminate]. cbn [unprotect_blob] in U. rewrite Hl in U.
          destruct Fc as [(p0 & r0 & D) _]. assert (E := gate_sound _ _ _ _ _ _ _ _ D U). subst ms.
          unfold faithful1. cbn [p_blob p_fields]. split; [reflexivity|]. split; [exists p0, r0; exact D | left; reflexivity].
        * destruct (ENTER pass k) as [?|r'] eqn:Er; [discriminate|]. inversion H; subst. constructor; [exact Fc | apply IH; reflexivity].
      + destruct (ENTER pass k) as [?|r'] eqn:Er; [discriminate|]. inversion H; subst. constructor; [exact Fc | apply IH; reflexivity].
  Qed.

  Lemma faithful_step st orig o : Forall wf_mpis orig -> faithful orig (k_pkts st) -> op_wf o ->
    Forall wf_mpis (orig_step st orig o) /\ faithful (orig_step st orig o) (k_pkts (fst (STEP st o))).
  Proof.
    intros W F Wo. destruct o; unfold step, orig_step.
    - split; [exact W|]. destruct (any_locked (k_pkts st)) eqn:L; cbn [fst k_pkts]; [exact F|].
      destruct (can_encrypt alg); cbn [fst k_pkts]; [apply protect_faithful; assumption | exact F].
    - split; [exact W|]. destruct (negb (any_protected (k_pkts st))); cbn [fst k_pkts]; [exact F|].
      destruct (ENTER pass (k_pkts st)) as [kind|k'] eqn:E; cbn [fst k_pkts]; [apply relock_faithful; exact F | exact (enter_faithful pass _ _ _ F E)].
    - split; [exact W|]. destruct (k_scopes st) as [|[|] s]; cbn [fst k_pkts]; auto using relock_faithful.
    - split; [exact W|]. destruct (k_scopes st) as [|[|] s]; cbn [fst k_pkts]; auto using relock_faithful.
    - rewrite private_op_state. split; assumption.
    - rewrite private_op_state. split; assumption.
    - split; assumption.
    - split; [exact W|]. cbn [fst k_pkts]. apply relock_faithful. exact F.
    - destruct (primary_unlocked (k_pkts st)); cbn [fst k_pkts]; [|split; assumption]. split.
      + apply Forall_app. split; [exact W | constructor; [exact Wo | constructor]].
      + apply Forall2_app; [exact F|]. constructor; [|constructor]. split; reflexivity.
  Qed.

  (* after ANY history: every component still carries its original secret integers -- in the clear when it is not protected,
     otherwise inside a ciphertext that decrypts to them.  In particular protect never wrote a ciphertext of cleared fields. *)
  Lemma protect_never_encrypts_a_locked_component ops : forall st orig, Forall wf_mpis orig -> faithful orig (k_pkts st) ->
    Forall op_wf ops -> faithful (run_orig ops st orig) (k_pkts (RUN ops st)).
  Proof.
    induction ops as [|o r IH]; intros st orig W F Wo; [exact F|].
    inversion Wo as [|? ? Wo1 Wor]; subst. cbn [run_orig]. rewrite run_cons.
    destruct (faithful_step st orig o W F Wo1) as [W' F']. apply IH; assumption.
  Qed.
  (* what [faithful] says about one component *)
  Lemma faithful_spec orig k : faithful orig k ->
    Forall2 (fun s c => (p_blob c = None -> p_fields c = s) /\
                        (forall b, p_blob c = Some (BStd b) -> exists pass r, unprotect_std cfb_dec sha1 s2k (length s) b pass = UOk s r)) orig k.
  Proof.
    intros F. induction F as [|s c orig k [Hl Fc] _ IH]; constructor; [|exact IH]. split.
    - intros E. rewrite E in Fc. exact Fc.
    - intros b E. rewrite E in Fc. destruct Fc as [D _]. exact D.
  Qed.
  (* a freshly protected key (protect on an unprotected key with well-formed secrets) is faithful *)
  Lemma unprotected_faithful k : Forall (fun c => p_blob c = None) k -> faithful (map p_fields k) k.
  Proof. intros H. induction H as [|c k Hc _ IH]; cbn [map]; constructor; [|exact IH]. split; [reflexivity|]. rewrite Hc. reflexivity. Qed.
End Auto.

(* ---------- the premises of the theorems above are satisfiable (trivial primitives: identity cipher) ---------- *)
Definition triv_cfb : Z -> bytes -> bytes -> bytes -> bytes := fun _ _ _ x => x.
Definition triv_sha1 : bytes -> bytes := fun _ => repeat 0 20.
Definition triv_s2k : Z -> Z -> Z -> bytes -> Z -> bytes -> bytes := fun _ _ _ _ _ _ => [].
Lemma triv_prims_ok :
  (forall a k iv x, triv_cfb a k iv (triv_cfb a k iv x) = x) /\ (forall x, length (triv_sha1 x) = 20%nat) /\
  (forall n b p1 p2 m1 r1 m2 r2, unprotect_std triv_cfb triv_sha1 triv_s2k n b p1 = UOk m1 r1 ->
                                 unprotect_std triv_cfb triv_sha1 triv_s2k n b p2 = UOk m2 r2 -> m2 = m1).
Proof.
  split; [reflexivity|]. split; [reflexivity|]. intros n b p1 p2 m1 r1 m2 r2 H1 H2.
  unfold unprotect_std, decrypt_std, triv_cfb in *. rewrite H1 in H2. inversion H2. reflexivity.
Qed.
(* a key with an unprotected primary, a protected-and-locked stub subkey: enters, and the premises of the scope theorem hold *)
Lemma scope_premises_inhabited (cfb_dec : Z -> bytes -> bytes -> bytes -> bytes) (sha1 : bytes -> bytes)
  (s2k : Z -> Z -> Z -> bytes -> Z -> bytes -> bytes) :
  let k := [ {| p_blob := None; p_fields := [5]; p_chk := [0; 5] |}; {| p_blob := Some (BGnu 254 0 1 [] []); p_fields := [0]; p_chk := [] |} ] in
  any_protected k = true /\ forallb locked_or_unprot k = true /\ enter_pkts cfb_dec sha1 s2k [1] k = inr k.
Proof. repeat split. Qed.

(* ---------- symbolic origin of every protected export ---------- *)
Section Sym.
  Variable cfb_enc cfb_dec : Z -> bytes -> bytes -> bytes -> bytes.
  Variable sha1 : bytes -> bytes.
  Variable s2k : Z -> Z -> Z -> bytes -> Z -> bytes -> bytes.
  Notation STEP := (step cfb_enc cfb_dec sha1 s2k).
  Notation RUN := (run cfb_enc cfb_dec sha1 s2k).
  Notation EVAL := (eval cfb_enc sha1 s2k).

  Definition sym_ok (c : pkt) (t : sym) : Prop := protected c = true -> EVAL t = export_secret c /\ guarded t = true.

  Lemma eval_protect_sym mpis pass iv salt count alg halg :
    EVAL (protect_sym mpis pass iv salt count alg halg) = protect cfb_enc sha1 s2k mpis pass iv salt count alg halg.
  Proof. unfold protect_sym, protect. cbn [eval]. rewrite <- !app_assoc. reflexivity. Qed.

  Lemma guarded_protect_sym mpis pass iv salt count alg halg : guarded (protect_sym mpis pass iv salt count alg halg) = true.
  Proof. reflexivity. Qed.

  Lemma protect_sym_ok mpis pass iv salt count alg halg :
    EVAL (protect_sym mpis pass iv salt count alg halg) = protect cfb_enc sha1 s2k mpis pass iv salt count alg halg
    /\ guarded (protect_sym mpis pass iv salt count alg halg) = true.
  Proof. split; [apply eval_protect_sym | reflexivity]. Qed.

  Lemma protect_pkt_export pass alg halg count iv salt c :
    export_secret (protect_pkt cfb_enc sha1 s2k pass alg halg count (iv, salt) c) = protect cfb_enc sha1 s2k (p_fields c) pass iv salt count alg halg.
  Proof.
    unfold export_secret, protect_pkt, protect, blob_emit, s2k_emit_std, mk_sblob, protect_enc.
    cbn [p_blob b_usage b_alg b_spec b_halg b_salt b_count b_iv b_enc fst snd].
    change (legacy 254) with false. change (254 =? 254) with true. change (1 <=? 3) with true. change (3 =? 3) with true. cbv iota.
    cbn [app]. rewrite <- !app_assoc. reflexivity.
  Qed.

  Lemma sym_ok_blob c c' t : p_blob c' = p_blob c -> sym_ok c t -> sym_ok c' t.
  Proof. intros E H. unfold sym_ok, protected, export_secret in *. rewrite E. destruct (p_blob c); [exact H | discriminate]. Qed.

  Lemma init_ok k : Forall2 sym_ok k (map sym_of_pkt k).
  Proof.
    induction k as [|c k IH]; [constructor|]. cbn [map]. constructor; [|exact IH].
    unfold sym_ok, sym_of_pkt, protected, export_secret. destruct (p_blob c); [|discriminate]. intros _. split; reflexivity.
  Qed.

  Lemma protect_ok pass alg halg count : forall k rnd,
    Forall2 sym_ok (protect_pkts cfb_enc sha1 s2k pass alg halg count rnd k) (protect_syms pass alg halg count rnd k).
  Proof.
    induction k as [|c k IH]; intros rnd; [constructor|]. cbn [protect_pkts protect_syms]. constructor; [|apply IH].
    intros _. destruct (hd ([], []) rnd) as [iv salt]. cbn [fst snd].
    rewrite eval_protect_sym, protect_pkt_export. split; reflexivity.
  Qed.

  Lemma same_blobs_ok k k' syms : Forall2 (fun c c' => p_blob c' = p_blob c) k k' -> Forall2 sym_ok k syms -> Forall2 sym_ok k' syms.
  Proof.
    intros H. revert syms. induction H as [|c c' k k' Hc _ IH]; intros syms Hs; inversion Hs; subst; constructor.
    - eapply sym_ok_blob; eauto.
    - apply IH. assumption.
  Qed.
  Lemma map_same_blobs f k : (forall c, p_blob (f c) = p_blob c) -> Forall2 (fun c c' => p_blob c' = p_blob c) k (map f k).
  Proof. intros H. induction k; cbn [map]; constructor; auto. Qed.
  Lemma enter_same_blobs pass : forall k k', enter_pkts cfb_dec sha1 s2k pass k = inr k' -> Forall2 (fun c c' => p_blob c' = p_blob c) k k'.
  Proof.
    intros k k' H. eapply Forall2_imp; [|exact (enter_same cfb_dec sha1 s2k pass k k' H)]. intros a b [E _]. exact E.
  Qed.
  Lemma refl_blobs k : Forall2 (fun c c' : pkt => p_blob c' = p_blob c) k k.
  Proof. induction k; constructor; auto. Qed.

  Lemma step_ok st syms o : Forall2 sym_ok (k_pkts st) syms -> Forall2 sym_ok (k_pkts (fst (STEP st o))) (step_sym st syms o).
  Proof.
    intros H. destruct o; unfold step, step_sym.
    - destruct (any_locked (k_pkts st)); cbn [fst k_pkts]; [exact H|].
      destruct (can_encrypt alg); cbn [fst k_pkts]; [apply protect_ok | exact H].
    - destruct (negb (any_protected (k_pkts st))); cbn [fst k_pkts]; [exact H|].
      destruct (enter_pkts cfb_dec sha1 s2k pass (k_pkts st)) as [kind|k'] eqn:E; cbn [fst k_pkts].
      + apply (same_blobs_ok (k_pkts st)); [apply map_same_blobs; apply relock_blob | exact H].
      + apply (same_blobs_ok (k_pkts st)); [apply enter_same_blobs with (pass := pass); exact E | exact H].
    - destruct (k_scopes st) as [|[|] s]; cbn [fst k_pkts]; try exact H.
      apply (same_blobs_ok (k_pkts st)); [apply map_same_blobs; apply relock_blob | exact H].
    - destruct (k_scopes st) as [|[|] s]; cbn [fst k_pkts]; try exact H.
      apply (same_blobs_ok (k_pkts st)); [apply map_same_blobs; apply relock_blob | exact H].
    - rewrite private_op_state. exact H.
    - rewrite private_op_state. exact H.
    - exact H.
    - cbn [fst k_pkts]. apply (same_blobs_ok (k_pkts st)); [apply map_same_blobs; apply relock_blob | exact H].
    - destruct (primary_unlocked (k_pkts st)); cbn [fst k_pkts]; [apply Forall2_app; [exact H | apply (init_ok [_])] | exact H].
  Qed.

  Lemma run_sym_ok ops : forall st syms, Forall2 sym_ok (k_pkts st) syms ->
    fst (run_sym cfb_enc cfb_dec sha1 s2k ops st syms) = RUN ops st /\
    Forall2 sym_ok (k_pkts (RUN ops st)) (snd (run_sym cfb_enc cfb_dec sha1 s2k ops st syms)).
  Proof.
    induction ops as [|o r IH]; intros st syms H; [split; [reflexivity | exact H]|].
    cbn [run_sym]. change (RUN (o :: r) st) with (RUN r (fst (STEP st o))). apply IH. apply step_ok. exact H.
  Qed.

  (* after any history, what export writes for a protected packet is the value of a term in which no secret occurs
     outside the plaintext of a CFB encryption *)
  Lemma export_protected_symbolic st0 ops :
    exists syms, Forall2 (fun c t => protected c = true -> export_secret c = EVAL t /\ guarded t = true) (k_pkts (RUN ops st0)) syms.
  Proof.
    destruct (run_sym_ok ops st0 _ (init_ok (k_pkts st0))) as [_ H].
    eexists. eapply Forall2_imp; [|exact H]. intros c t Hs Hp. destruct (Hs Hp). split; auto.
  Qed.

  Lemma export_obs st : STEP st OExport = (st, BExported (map export_secret (k_pkts st))).
  Proof. reflexivity. Qed.
End Sym.
