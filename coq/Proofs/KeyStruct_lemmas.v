(* C14 / C15 proofs, part 1: binary search, SorteDeque.insort, sortedness, stability, permutation. *)
From Coq Require Import ZArith List Bool Lia ZifyBool Permutation Arith.
Import ListNotations.
Require Import PV.Model.KeyStruct.
Open Scope Z_scope.

(* ---------- binary search finds the boundary of a partitioned list ---------- *)
Lemma div2_bounds : forall lo hi : nat, (lo < hi)%nat -> (lo <= Nat.div2 (lo + hi) < hi)%nat.
Proof.
  intros lo hi H. pose proof (Nat.div2_odd (lo + hi)) as E.
  destruct (Nat.odd (lo + hi)); simpl Nat.b2n in E; lia.
Qed.

Section Bsearch.
  Context {A : Type}.

  Lemma bsearch_partition : forall (p : A -> bool) (l1 l2 : list A) fuel lo hi,
    forallb (fun y => negb (p y)) l1 = true -> forallb p l2 = true ->
    (lo <= length l1)%nat -> (length l1 <= hi)%nat -> (hi <= length (l1 ++ l2))%nat -> (hi - lo < fuel)%nat ->
    bsearch p (l1 ++ l2) fuel lo hi = length l1.
  Proof.
    intros p l1 l2 fuel. induction fuel as [|f IH]; intros lo hi H1 H2 Hlo Hhi Hlen Hf; [lia|].
    simpl. destruct (Nat.ltb lo hi) eqn:E.
    - apply Nat.ltb_lt in E. pose proof (div2_bounds lo hi E) as Hm.
      set (mid := Nat.div2 (lo + hi)) in *.
      destruct (nth_error (l1 ++ l2) mid) as [y|] eqn:Ey.
      + destruct (Nat.lt_ge_cases mid (length l1)) as [Hlt|Hge].
        * rewrite nth_error_app1 in Ey by exact Hlt.
          apply nth_error_In in Ey. pose proof (proj1 (forallb_forall _ _) H1 _ Ey) as Hy.
          apply negb_true_iff in Hy. rewrite Hy. apply IH; auto; lia.
        * rewrite nth_error_app2 in Ey by exact Hge.
          apply nth_error_In in Ey. rewrite (proj1 (forallb_forall _ _) H2 _ Ey).
          apply IH; auto; lia.
      + apply nth_error_None in Ey. lia.
    - apply Nat.ltb_ge in E. lia.
  Qed.

  Lemma insert_at_app : forall (x : A) l1 l2, insert_at (length l1) x (l1 ++ l2) = l1 ++ x :: l2.
  Proof.
    intros. unfold insert_at. rewrite firstn_app, Nat.sub_diag, firstn_all, skipn_app, Nat.sub_diag, skipn_all. simpl.
    rewrite app_nil_r. reflexivity.
  Qed.

  Lemma insert_at_perm : forall i (x : A) l, Permutation (insert_at i x l) (x :: l).
  Proof.
    intros. unfold insert_at. rewrite <- (firstn_skipn i l) at 3. symmetry. apply Permutation_middle.
  Qed.

  Lemma insert_at_in : forall i (x y : A) l, In y (insert_at i x l) <-> y = x \/ In y l.
  Proof.
    intros. split; intro H.
    - apply (Permutation_in _ (insert_at_perm i x l)) in H. destruct H; auto.
    - apply (Permutation_in _ (Permutation_sym (insert_at_perm i x l))). destruct H; [left; auto | right; auto].
  Qed.

  Lemma remove_nth_cons : forall j (x : A) r, remove_nth (S j) (x :: r) = x :: remove_nth j r.
  Proof. reflexivity. Qed.

  Lemma remove_nth_incl : forall j (l : list A) y, In y (remove_nth j l) -> In y l.
  Proof.
    intros j l. revert j. induction l as [|x r IH]; intros j y H.
    - unfold remove_nth in H. destruct j; simpl in H; exact H.
    - destruct j as [|j].
      + unfold remove_nth in H. simpl in H. right. exact H.
      + rewrite remove_nth_cons in H. destruct H as [H|H]; [left; exact H | right; eapply IH; exact H].
  Qed.

  Lemma remove_nth_perm : forall j (l : list A) x, nth_error l j = Some x -> Permutation l (x :: remove_nth j l).
  Proof.
    intros j l. revert j. induction l as [|z r IH]; intros j x H.
    - destruct j; discriminate.
    - destruct j as [|j].
      + simpl in H. inversion H. subst. unfold remove_nth. simpl. reflexivity.
      + simpl in H. rewrite remove_nth_cons. rewrite (IH j x H) at 1. apply perm_swap.
  Qed.
End Bsearch.

(* ---------- insort on sorted lists = linear insertion after the last element not greater ---------- *)
Section Ins.
  Context {A : Type}.
  Variable lt : A -> A -> bool.

  (* the properties of a strict weak order that the arguments need *)
  Definition lt_irrefl := forall a, lt a a = false.
  Definition lt_trans := forall a b c, lt a b = true -> lt b c = true -> lt a c = true.
  Definition lt_negtrans := forall a b c, lt a b = false -> lt b c = false -> lt a c = false.

  Fixpoint ins (x : A) (l : list A) : list A :=
    match l with
    | [] => [x]
    | y :: r => if lt x y then x :: y :: r else y :: ins x r
    end.

  Lemma sortedb_cons : forall x l, sortedb lt (x :: l) = true <-> (forall y, In y l -> lt y x = false) /\ sortedb lt l = true.
  Proof.
    intros. simpl. rewrite andb_true_iff, forallb_forall. split; intros [H1 H2]; split; auto; intros y Hy.
    - apply negb_true_iff. apply H1; auto.
    - apply negb_true_iff. apply H1; auto.
  Qed.

  Lemma split_sorted : lt_negtrans -> forall x l, sortedb lt l = true ->
    exists l1 l2, l = l1 ++ l2 /\ forallb (fun y => negb (lt x y)) l1 = true /\ forallb (fun y => lt x y) l2 = true
                  /\ ins x l = l1 ++ x :: l2.
  Proof.
    intros Hneg x l. induction l as [|y r IH]; intro Hs.
    - exists [], []. simpl. auto.
    - apply sortedb_cons in Hs. destruct Hs as [Hy Hr]. destruct (lt x y) eqn:E.
      + exists [], (y :: r). simpl. rewrite E. repeat split; auto. simpl.
        apply forallb_forall. intros z Hz. destruct (lt x z) eqn:Ez; auto.
        rewrite (Hneg x z y Ez (Hy z Hz)) in E. discriminate.
      + destruct (IH Hr) as [l1 [l2 [E1 [H1 [H2 H3]]]]]. exists (y :: l1), l2. simpl. rewrite E, H3. simpl.
        repeat split; auto. rewrite E1 at 1. reflexivity.
  Qed.

  Theorem insort_ins : lt_negtrans -> forall x l, sortedb lt l = true -> insort lt x l = ins x l.
  Proof.
    intros Hneg x l Hs. destruct (split_sorted Hneg x l Hs) as [l1 [l2 [E [H1 [H2 H3]]]]].
    rewrite H3. subst l. unfold insort, bisect_right.
    rewrite (bsearch_partition (fun y => lt x y) l1 l2); auto; try lia.
    - apply insert_at_app.
    - rewrite app_length. lia.
  Qed.

  (* before the F9 repair: insertion in front of the first element not smaller *)
  Fixpoint ins_left (x : A) (l : list A) : list A :=
    match l with
    | [] => [x]
    | y :: r => if lt y x then y :: ins_left x r else x :: y :: r
    end.

  Lemma ins_in : forall x y l, In y (ins x l) <-> y = x \/ In y l.
  Proof.
    intros x y l. induction l as [|z r IH]; simpl.
    - intuition.
    - destruct (lt x z); simpl; [intuition|]. rewrite IH. intuition.
  Qed.

  Lemma ins_perm : forall x l, Permutation (ins x l) (x :: l).
  Proof.
    intros x l. induction l as [|z r IH]; simpl; auto.
    destruct (lt x z); auto. rewrite IH. apply perm_swap.
  Qed.

  Lemma ins_sorted : lt_irrefl -> lt_trans -> lt_negtrans -> forall x l, sortedb lt l = true -> sortedb lt (ins x l) = true.
  Proof.
    intros Hirr Htr Hneg x l. induction l as [|y r IH]; intro Hs.
    - reflexivity.
    - simpl. apply sortedb_cons in Hs. destruct Hs as [Hy Hr]. destruct (lt x y) eqn:E.
      + assert (lt y x = false) as Hyx.
        { destruct (lt y x) eqn:E2; auto. pose proof (Htr x y x E E2) as C. rewrite Hirr in C. discriminate. }
        apply sortedb_cons. split.
        * intros z [Hz|Hz]; [subst z; exact Hyx | apply (Hneg z y x (Hy z Hz) Hyx)].
        * apply sortedb_cons. auto.
      + apply sortedb_cons. split.
        * intros z Hz. apply ins_in in Hz. destruct Hz as [Hz|Hz]; [subst; auto | auto].
        * auto.
  Qed.

  (* stability: an element that is not smaller than anything present goes to the end (behind its equals) *)
  Lemma ins_last : forall x l, (forall y, In y l -> lt x y = false) -> ins x l = l ++ [x].
  Proof.
    intros x l. induction l as [|y r IH]; intro H; simpl; auto.
    rewrite (H y (or_introl eq_refl)). rewrite IH; auto. intros z Hz. apply H. right. exact Hz.
  Qed.

  Lemma sortedb_app_last : forall l x, sortedb lt (l ++ [x]) = true -> sortedb lt l = true /\ (forall y, In y l -> lt x y = false).
  Proof.
    induction l as [|z r IH]; intros x H.
    - split; auto. intros y [].
    - simpl app in H. apply sortedb_cons in H. destruct H as [H1 H2]. destruct (IH x H2) as [H3 H4]. split.
      + apply sortedb_cons. split; auto. intros y Hy. apply H1. apply in_or_app. auto.
      + intros y [Hy|Hy]; [subst; apply H1; apply in_or_app; right; left; auto | auto].
  Qed.

  Lemma insort_all_snoc : forall xs x (l : list A), insort_all lt (xs ++ [x]) l = insort lt x (insort_all lt xs l).
  Proof. intros. unfold insort_all. rewrite fold_left_app. reflexivity. Qed.

  (* inserting the elements of a sorted list one after the other into the empty deque reproduces the list *)
  Theorem insort_all_sorted_id : lt_negtrans -> forall l, sortedb lt l = true -> insort_all lt l [] = l.
  Proof.
    intros Hneg l. induction l as [|x l IH] using rev_ind; intro Hs; [reflexivity|].
    rewrite insort_all_snoc. destruct (sortedb_app_last l x Hs) as [H1 H2].
    rewrite (IH H1). rewrite (insort_ins Hneg x l H1). apply ins_last. exact H2.
  Qed.

  Lemma insort_perm : forall x l, Permutation (insort lt x l) (x :: l).
  Proof. intros. apply insert_at_perm. Qed.

  Lemma insort_in : forall x y l, In y (insort lt x l) <-> y = x \/ In y l.
  Proof. intros. apply insert_at_in. Qed.

  Lemma insort_sorted : lt_irrefl -> lt_trans -> lt_negtrans -> forall x l, sortedb lt l = true -> sortedb lt (insort lt x l) = true.
  Proof. intros Hi Ht Hn x l Hs. rewrite (insort_ins Hn x l Hs). apply ins_sorted; auto. Qed.

  Lemma insort_all_sorted : lt_irrefl -> lt_trans -> lt_negtrans -> forall xs l, sortedb lt l = true -> sortedb lt (insort_all lt xs l) = true.
  Proof.
    intros Hi Ht Hn xs. induction xs as [|x xs IH]; intros l Hs; simpl; auto.
    apply IH. apply insort_sorted; auto.
  Qed.

  Lemma insort_all_cons : forall x xs (l : list A), insort_all lt (x :: xs) l = insort_all lt xs (insort lt x l).
  Proof. reflexivity. Qed.

  Lemma insort_all_perm : forall xs l, Permutation (insort_all lt xs l) (l ++ xs).
  Proof.
    induction xs as [|x xs IH]; intros l.
    - unfold insort_all. simpl. rewrite app_nil_r. reflexivity.
    - rewrite insort_all_cons. rewrite IH.
      transitivity ((x :: l) ++ xs).
      + apply Permutation_app_tail. apply insort_perm.
      + simpl. apply Permutation_middle.
  Qed.

  Lemma insort_all_in : forall xs l y, In y (insort_all lt xs l) <-> In y l \/ In y xs.
  Proof.
    intros xs l y. split; intro H.
    - apply (Permutation_in _ (insort_all_perm xs l)) in H. apply in_app_or in H. exact H.
    - apply (Permutation_in _ (Permutation_sym (insort_all_perm xs l))). apply in_or_app. exact H.
  Qed.

  Lemma sortedb_remove_nth : forall j l, sortedb lt l = true -> sortedb lt (remove_nth j l) = true.
  Proof.
    intros j l. revert j. induction l as [|x r IH]; intros j Hs.
    - unfold remove_nth. destruct j; reflexivity.
    - apply sortedb_cons in Hs. destruct Hs as [H1 H2]. destruct j as [|j].
      + unfold remove_nth. simpl. exact H2.
      + change (remove_nth (S j) (x :: r)) with (x :: remove_nth j r).
        apply sortedb_cons. split; auto. intros y Hy. apply H1. eapply remove_nth_incl. exact Hy.
  Qed.

  Lemma sortedb_filter : forall (f : A -> bool) l, sortedb lt l = true -> sortedb lt (filter f l) = true.
  Proof.
    intros f l. induction l as [|x r IH]; intro Hs; auto.
    apply sortedb_cons in Hs. destruct Hs as [H1 H2]. simpl. destruct (f x); auto.
    apply sortedb_cons. split; auto. intros y Hy. apply filter_In in Hy. apply H1. tauto.
  Qed.
End Ins.

(* ---------- the order on signatures: measured by the creation time ---------- *)
Lemma score_lt_irrefl : forall a, score_lt a a = false.
Proof. intros. unfold score_lt. lia. Qed.

Lemma sig_lt_irrefl : lt_irrefl sig_lt.  Proof. intro a. unfold sig_lt, score_lt. lia. Qed.
Lemma sig_lt_trans : lt_trans sig_lt.  Proof. intros a b c. unfold sig_lt, score_lt. lia. Qed.
Lemma sig_lt_negtrans : lt_negtrans sig_lt.  Proof. intros a b c. unfold sig_lt, score_lt. lia. Qed.
Lemma item_lt_irrefl : lt_irrefl item_lt.  Proof. intro a. unfold item_lt, score_lt. lia. Qed.
Lemma item_lt_trans : lt_trans item_lt.  Proof. intros a b c. unfold item_lt, score_lt. lia. Qed.
Lemma item_lt_negtrans : lt_negtrans item_lt.  Proof. intros a b c. unfold item_lt, score_lt. lia. Qed.

(* ---------- the order on user ids is a strict weak order ---------- *)
Definition lt3 (a b : bool * bool * option Z) : bool :=
  let '(ia, pa, ca) := a in
  let '(ib, pb, cb) := b in
  if Bool.eqb ia ib then
    if Bool.eqb pa pb then
      match ca, cb with
      | None, None => false
      | None, Some _ => true
      | Some _, None => false
      | Some m, Some o => o <? m
      end
    else pa
  else ia.

Definition key3 (k : Z) (u : uid) : bool * bool * option Z :=
  (u_isuid u, uid_is_primary k u, match selfsig k u with Some s => Some (c_created (s_core s)) | None => None end).

Lemma uid_lt_lt3 : forall k a b, uid_lt k a b = lt3 (key3 k a) (key3 k b).
Proof.
  intros. unfold key3, lt3, uid_lt, uid_lt_with, uid_is_primary. destruct (Bool.eqb (u_isuid a) (u_isuid b)); auto.
  destruct (Bool.eqb (uid_is_primary_with selfsig k a) (uid_is_primary_with selfsig k b)); auto.
  destruct (selfsig k a), (selfsig k b); auto.
Qed.

Lemma lt3_irrefl : forall a, lt3 a a = false.
Proof. intros [[i p] [c|]]; simpl; rewrite !eqb_reflx; auto. lia. Qed.

Lemma lt3_trans : forall a b c, lt3 a b = true -> lt3 b c = true -> lt3 a c = true.
Proof.
  intros [[i1 p1] c1] [[i2 p2] c2] [[i3 p3] c3]. unfold lt3.
  destruct i1, i2, i3, p1, p2, p3; simpl; try congruence; destruct c1, c2, c3; try congruence; lia.
Qed.

Lemma lt3_negtrans : forall a b c, lt3 a b = false -> lt3 b c = false -> lt3 a c = false.
Proof.
  intros [[i1 p1] c1] [[i2 p2] c2] [[i3 p3] c3]. unfold lt3.
  destruct i1, i2, i3, p1, p2, p3; simpl; try congruence; destruct c1, c2, c3; try congruence; lia.
Qed.

Lemma uid_lt_irrefl : forall k, lt_irrefl (uid_lt k).
Proof. intros k a. rewrite uid_lt_lt3. apply lt3_irrefl. Qed.
Lemma uid_lt_trans : forall k, lt_trans (uid_lt k).
Proof. intros k a b c. rewrite !uid_lt_lt3. apply lt3_trans. Qed.
Lemma uid_lt_negtrans : forall k, lt_negtrans (uid_lt k).
Proof. intros k a b c. rewrite !uid_lt_lt3. apply lt3_negtrans. Qed.
