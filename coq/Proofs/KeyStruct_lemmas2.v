(* C14 / C15 proofs, part 2: attachment operators, grouping of an exported packet sequence, import of an export. *)
From Coq Require Import ZArith List Bool Lia ZifyBool Permutation Arith.
Import ListNotations.
Require Import PV.Model.KeyStruct PV.Proofs.KeyStruct_lemmas.
Open Scope Z_scope.

(* ---------- small list facts ---------- *)
Lemma fold_left_map {A B C : Type} (f : A -> B -> A) (g : C -> B) (l : list C) (a : A) :
  fold_left f (map g l) a = fold_left (fun acc x => f acc (g x)) l a.
Proof. revert a. induction l as [|x l IH]; intro a; simpl; auto. Qed.

Lemma fold_left_ext {A B : Type} (f g : A -> B -> A) (l : list B) (a : A) :
  (forall x y, f x y = g x y) -> fold_left f l a = fold_left g l a.
Proof. intro H. revert a. induction l as [|x l IH]; intro a; simpl; auto. rewrite H. apply IH. Qed.

Lemma filter_all_true {A : Type} (f : A -> bool) (l : list A) : forallb f l = true -> filter f l = l.
Proof.
  induction l as [|x l IH]; simpl; auto. intro H. apply andb_true_iff in H. destruct H as [H1 H2].
  rewrite H1, IH; auto.
Qed.

Lemma tops_map_Top : forall l, tops (map Top l) = l.
Proof. induction l as [|s l IH]; simpl; auto. rewrite IH. reflexivity. Qed.

Lemma tops_app : forall a b, tops (a ++ b) = tops a ++ tops b.
Proof. intros. unfold tops. apply flat_map_app. Qed.

Lemma in_tops : forall s l, In s (tops l) <-> In (Top s) l.
Proof.
  intros s l. unfold tops. rewrite in_flat_map. split.
  - intros [i [Hi Hs]]. destruct i; simpl in Hs; [destruct Hs as [Hs|[]]; subst; auto | destruct Hs].
  - intro H. exists (Top s). split; auto. simpl. auto.
Qed.

(* ---------- linear insertion, tops, and the signature list of a key ---------- *)
Lemma ins_head {A : Type} (lt : A -> A -> bool) (x : A) (l : list A) :
  forallb (fun y => lt x y) l = true -> ins lt x l = x :: l.
Proof. destruct l as [|y r]; simpl; auto. intro H. apply andb_true_iff in H. destruct H as [H _]. rewrite H. reflexivity. Qed.

Lemma tops_ins_emb : forall e l, tops (ins item_lt (Emb e) l) = tops l.
Proof.
  intros e l. induction l as [|y r IH]; simpl; auto.
  destruct (item_lt (Emb e) y); simpl; auto. rewrite IH. reflexivity.
Qed.

Lemma tops_ins_top : forall s l, sortedb item_lt l = true -> tops (ins item_lt (Top s) l) = ins sig_lt s (tops l).
Proof.
  intros s l. induction l as [|y r IH]; intro Hs; simpl; auto.
  apply sortedb_cons in Hs. destruct Hs as [Hy Hr]. destruct y as [s'|e].
  - change (item_lt (Top s) (Top s')) with (sig_lt s s'). simpl. destruct (sig_lt s s'); simpl; auto. rewrite IH; auto.
  - destruct (item_lt (Top s) (Emb e)) eqn:E; simpl.
    + symmetry. apply ins_head. apply forallb_forall. intros z Hz. apply in_tops in Hz. specialize (Hy _ Hz).
      unfold item_lt, sig_lt, score_lt in *. simpl in *. lia.
    + apply IH; auto.
Qed.

Lemma sorted_tops : forall l, sortedb item_lt l = true -> sortedb sig_lt (tops l) = true.
Proof.
  induction l as [|y r IH]; intro Hs; auto. apply sortedb_cons in Hs. destruct Hs as [Hy Hr]. destruct y as [s|e]; simpl; auto.
  apply sortedb_cons. split; auto. intros z Hz. apply in_tops in Hz. exact (Hy _ Hz).
Qed.

Lemma sorted_map_Top : forall l, sortedb sig_lt l = true -> sortedb item_lt (map Top l) = true.
Proof.
  induction l as [|s l IH]; intro Hs; auto. apply sortedb_cons in Hs. destruct Hs as [H1 H2]. simpl map.
  apply sortedb_cons. split; auto. intros y Hy. apply in_map_iff in Hy. destruct Hy as [z [E Hz]]. subst y. exact (H1 _ Hz).
Qed.

Lemma fold_emb_spec : forall es l, sortedb item_lt l = true ->
  sortedb item_lt (fold_left (fun acc e => insort item_lt (Emb e) acc) es l) = true
  /\ tops (fold_left (fun acc e => insort item_lt (Emb e) acc) es l) = tops l.
Proof.
  induction es as [|e es IH]; intros l Hs; simpl; auto.
  assert (sortedb item_lt (insort item_lt (Emb e) l) = true) as H1
    by (apply insort_sorted; auto using item_lt_irrefl, item_lt_trans, item_lt_negtrans).
  destruct (IH _ H1) as [H2 H3]. split; auto. rewrite H3.
  rewrite (insort_ins item_lt item_lt_negtrans _ _ Hs). apply tops_ins_emb.
Qed.

Lemma key_or_sig_spec : forall l s, sortedb item_lt l = true ->
  sortedb item_lt (key_or_sig l s) = true /\ tops (key_or_sig l s) = ins sig_lt s (tops l).
Proof.
  intros l s Hs. unfold key_or_sig.
  assert (sortedb item_lt (insort item_lt (Top s) l) = true) as H1
    by (apply insort_sorted; auto using item_lt_irrefl, item_lt_trans, item_lt_negtrans).
  assert (tops (insort item_lt (Top s) l) = ins sig_lt s (tops l)) as H2
    by (rewrite (insort_ins item_lt item_lt_negtrans _ _ Hs); apply tops_ins_top; auto).
  destruct (c_type (s_core s) =? T_SUBKEY_BINDING).
  - destruct (fold_emb_spec (s_emb s) _ H1) as [H3 H4]. split; auto. rewrite H4. exact H2.
  - split; auto.
Qed.

Lemma fold_ins_insort_all {A : Type} (lt : A -> A -> bool) :
  lt_irrefl lt -> lt_trans lt -> lt_negtrans lt ->
  forall xs l, sortedb lt l = true -> fold_left (fun acc x => ins lt x acc) xs l = insort_all lt xs l.
Proof.
  intros Hi Ht Hn xs. induction xs as [|x xs IH]; intros l Hs; [reflexivity|].
  rewrite insort_all_cons. rewrite (insort_ins lt Hn x l Hs). simpl fold_left. apply IH. apply ins_sorted; auto.
Qed.

Lemma fold_key_or_sig_spec : forall ss l, sortedb item_lt l = true ->
  sortedb item_lt (fold_left key_or_sig ss l) = true
  /\ tops (fold_left key_or_sig ss l) = insort_all sig_lt ss (tops l).
Proof.
  induction ss as [|s ss IH]; intros l Hs; [split; auto|]. simpl fold_left.
  destruct (key_or_sig_spec l s Hs) as [H1 H2]. destruct (IH _ H1) as [H3 H4]. split; auto.
  rewrite H4, H2, insort_all_cons. rewrite (insort_ins sig_lt sig_lt_negtrans s (tops l) (sorted_tops l Hs)). reflexivity.
Qed.

(* re-attaching the signature packets of a sorted list gives back the same signature packets, in the same order *)
Lemma tops_reattach_sorted : forall l, sortedb item_lt l = true -> tops (fold_left key_or_sig (tops l) []) = tops l.
Proof.
  intros l Hs. destruct (fold_key_or_sig_spec (tops l) [] eq_refl) as [_ H]. rewrite H. simpl.
  apply insort_all_sorted_id; auto using sig_lt_negtrans, sorted_tops.
Qed.

(* membership in an attached list (no sortedness needed) *)
Lemma fold_emb_in : forall es l it,
  In it (fold_left (fun acc e => insort item_lt (Emb e) acc) es l) <-> In it l \/ exists e, In e es /\ it = Emb e.
Proof.
  induction es as [|e es IH]; intros l it; simpl.
  - split; [auto | intros [H|[e [[] _]]]; auto].
  - rewrite IH, insort_in. split.
    + intros [[H|H]|[e' [H1 H2]]]; [right; exists e; auto | auto | right; exists e'; auto].
    + intros [H|[e' [[H1|H1] H2]]]; [auto | subst; auto | right; exists e'; auto].
Qed.

Lemma key_or_sig_in : forall l s it,
  In it (key_or_sig l s) <->
  it = Top s \/ In it l \/ (c_type (s_core s) = T_SUBKEY_BINDING /\ exists e, In e (s_emb s) /\ it = Emb e).
Proof.
  intros l s it. unfold key_or_sig. destruct (c_type (s_core s) =? T_SUBKEY_BINDING) eqn:E.
  - rewrite fold_emb_in, insort_in. apply Z.eqb_eq in E. intuition.
  - rewrite insort_in. apply Z.eqb_neq in E. intuition.
Qed.

Lemma fold_key_or_sig_in : forall ss l it,
  In it (fold_left key_or_sig ss l) <->
  In it l \/ exists s, In s ss /\ (it = Top s \/ (c_type (s_core s) = T_SUBKEY_BINDING /\ exists e, In e (s_emb s) /\ it = Emb e)).
Proof.
  induction ss as [|s ss IH]; intros l it; simpl.
  - split; [auto | intros [H|[s [[] _]]]; auto].
  - rewrite IH, key_or_sig_in. split.
    + intros [[H|[H|H]]|[s' [H1 H2]]].
      * right. exists s. auto.
      * auto.
      * right. exists s. auto.
      * right. exists s'. auto.
    + intros [H|[s' [[H1|H1] H2]]].
      * auto.
      * subst s'. left. destruct H2 as [H2|H2]; auto.
      * right. exists s'. auto.
Qed.

(* ---------- user ids ---------- *)
Lemma fold_uid_or_sig : forall ss u,
  fold_left uid_or_sig ss u = {| u_isuid := u_isuid u; u_content := u_content u; u_sigs := insort_all sig_lt ss (u_sigs u) |}.
Proof.
  induction ss as [|s ss IH]; intro u; simpl.
  - destruct u; reflexivity.
  - rewrite IH. simpl. reflexivity.
Qed.

Lemma copy_uid_eq : forall u,
  copy_uid u = {| u_isuid := u_isuid u; u_content := u_content u; u_sigs := insort_all sig_lt (u_sigs u) [] |}.
Proof. intro u. unfold copy_uid. rewrite fold_uid_or_sig. reflexivity. Qed.

Lemma copy_uid_sorted_id : forall u, sortedb sig_lt (u_sigs u) = true -> copy_uid u = u.
Proof.
  intros u H. rewrite copy_uid_eq. rewrite (insort_all_sorted_id sig_lt sig_lt_negtrans _ H). destruct u; reflexivity.
Qed.

Lemma copy_uid_sigs_sorted : forall u, sortedb sig_lt (u_sigs (copy_uid u)) = true.
Proof.
  intro u. rewrite copy_uid_eq. simpl. apply insort_all_sorted; auto using sig_lt_irrefl, sig_lt_trans, sig_lt_negtrans.
Qed.

(* ---------- subkey dictionary ---------- *)
Lemma sub_set_fresh : forall sk l, (forall x, In x l -> sk_label x <> sk_label sk) -> sub_set sk l = l ++ [sk].
Proof.
  intros sk l. induction l as [|x r IH]; intro H; simpl; auto.
  destruct (sk_label x =? sk_label sk) eqn:E.
  - apply Z.eqb_eq in E. exfalso. apply (H x); auto. left. reflexivity.
  - rewrite IH; auto. intros y Hy. apply H. right. exact Hy.
Qed.

Lemma fold_sub_set_nodup : forall (f : subkey -> subkey) l acc,
  (forall sk, sk_label (f sk) = sk_label sk) ->
  NoDup (map sk_label acc ++ map sk_label l) ->
  fold_left (fun a sk => sub_set (f sk) a) l acc = acc ++ map f l.
Proof.
  intros f l. induction l as [|sk l IH]; intros acc Hf Hnd; simpl.
  - rewrite app_nil_r. reflexivity.
  - rewrite sub_set_fresh.
    + rewrite IH; auto.
      * rewrite <- app_assoc. reflexivity.
      * rewrite map_app. simpl. rewrite Hf. rewrite <- app_assoc. simpl. exact Hnd.
    + intros x Hx E. rewrite Hf in E. simpl in Hnd. apply NoDup_remove_2 in Hnd. apply Hnd.
      apply in_or_app. left. rewrite <- E. apply in_map. exact Hx.
Qed.

Lemma sub_set_in : forall sk l x, In x (sub_set sk l) -> x = sk \/ In x l.
Proof.
  intros sk l. induction l as [|y r IH]; intros x H; simpl in H.
  - destruct H as [H|[]]; auto.
  - destruct (sk_label y =? sk_label sk).
    + destruct H as [H|H]; auto. right. right. exact H.
    + destruct H as [H|H]; [right; left; exact H|]. destruct (IH _ H); auto. right. right. assumption.
Qed.

Lemma fold_sub_set_in : forall (f : subkey -> subkey) l acc x,
  In x (fold_left (fun a sk => sub_set (f sk) a) l acc) -> In x acc \/ exists sk, In sk l /\ x = f sk.
Proof.
  intros f l. induction l as [|sk l IH]; intros acc x H; simpl in H; auto.
  destruct (IH _ _ H) as [H1|[sk' [H1 H2]]].
  - apply sub_set_in in H1. destruct H1 as [H1|H1]; auto. right. exists sk. split; auto. left. reflexivity.
  - right. exists sk'. split; auto. right. exact H1.
Qed.

(* ---------- grouping an exported packet sequence ---------- *)
Lemma export_sigs_sig : forall l, forallb is_sigpkt (export_sigs l) = true.
Proof.
  induction l as [|s l IH]; simpl; auto. unfold export_sigs in *. simpl. destruct (exportable (s_core s)); simpl; auto.
Qed.

Lemma export_sigs_not_trust : forall l, forallb not_trust (export_sigs l) = true.
Proof.
  induction l as [|s l IH]; simpl; auto. unfold export_sigs in *. simpl. destruct (exportable (s_core s)); simpl; auto.
Qed.

Lemma sigs_of_export_sigs : forall l, sigs_of (export_sigs l) = strip_sigs l.
Proof.
  induction l as [|s l IH]; simpl; auto. unfold export_sigs, sigs_of, strip_sigs in *. simpl.
  destruct (exportable (s_core s)); simpl; rewrite IH; reflexivity.
Qed.

Lemma groups_sig_app : forall ss rest, forallb is_sigpkt ss = true ->
  groups (ss ++ rest) = (ss ++ fst (groups rest), snd (groups rest)).
Proof.
  induction ss as [|p ss IH]; intros rest H; simpl.
  - destruct (groups rest); reflexivity.
  - apply andb_true_iff in H. destruct H as [H1 H2]. rewrite (IH rest H2). rewrite H1. reflexivity.
Qed.

Lemma groups_block : forall h l rest, is_sigpkt h = false -> fst (groups rest) = [] ->
  groups (h :: export_sigs l ++ rest) = ([], (h, export_sigs l) :: snd (groups rest)).
Proof.
  intros h l rest Hh Hr. simpl. rewrite (groups_sig_app _ rest (export_sigs_sig l)). rewrite Hh, Hr, app_nil_r. reflexivity.
Qed.

Definition guid (u : uid) : packet * list packet := (PUid (u_isuid u) (u_content u), export_sigs (u_sigs u)).
Definition gsub (sk : subkey) : packet * list packet :=
  (PKey false (sk_public sk) (sk_cansign sk) (sk_label sk), export_sigs (tops (sk_sigs sk))).
Definition gkey (k : key) : packet * list packet := (PKey true (p_public k) true (p_label k), export_sigs (tops (p_sigs k))).
Definition kgroups (k : key) : list (packet * list packet) := gkey k :: map guid (p_uids k) ++ map gsub (p_subs k).

Lemma groups_uids : forall us rest, fst (groups rest) = [] ->
  groups (flat_map export_uid us ++ rest) = ([], map guid us ++ snd (groups rest)).
Proof.
  induction us as [|u us IH]; intros rest Hr.
  - simpl. destruct (groups rest) as [a b]. simpl in *. subst. reflexivity.
  - cbn [flat_map map]. unfold export_uid at 1. rewrite <- app_assoc. rewrite <- app_comm_cons.
    rewrite groups_block; [|reflexivity|rewrite (IH rest Hr); reflexivity].
    rewrite (IH rest Hr). reflexivity.
Qed.

Lemma groups_subs : forall sks rest, fst (groups rest) = [] ->
  groups (flat_map export_sub sks ++ rest) = ([], map gsub sks ++ snd (groups rest)).
Proof.
  induction sks as [|sk sks IH]; intros rest Hr.
  - simpl. destruct (groups rest) as [a b]. simpl in *. subst. reflexivity.
  - cbn [flat_map map]. unfold export_sub at 1. rewrite <- app_assoc. rewrite <- app_comm_cons.
    rewrite groups_block; [|reflexivity|rewrite (IH rest Hr); reflexivity].
    rewrite (IH rest Hr). reflexivity.
Qed.

Lemma groups_export : forall k rest, fst (groups rest) = [] ->
  groups (export k ++ rest) = ([], kgroups k ++ snd (groups rest)).
Proof.
  intros k rest Hr. unfold export, kgroups. rewrite <- app_comm_cons. rewrite <- !app_assoc.
  rewrite groups_block; auto.
  - rewrite groups_uids.
    + simpl. rewrite (groups_subs _ rest Hr). simpl. rewrite <- app_assoc. reflexivity.
    + rewrite (groups_subs _ rest Hr). reflexivity.
  - rewrite groups_uids.
    + reflexivity.
    + rewrite (groups_subs _ rest Hr). reflexivity.
Qed.

Lemma groups_exports : forall ks, groups (flat_map export ks) = ([], flat_map kgroups ks).
Proof.
  induction ks as [|k ks IH]; [reflexivity|]. cbn [flat_map].
  rewrite groups_export; rewrite IH; reflexivity.
Qed.

Lemma export_not_trust : forall k, forallb not_trust (export k) = true.
Proof.
  intro k. unfold export. simpl. rewrite !forallb_app. rewrite export_sigs_not_trust. simpl.
  apply andb_true_iff. split.
  - induction (p_uids k) as [|u us IH]; simpl; auto. rewrite forallb_app, export_sigs_not_trust, IH. reflexivity.
  - induction (p_subs k) as [|u us IH]; simpl; auto. rewrite forallb_app, export_sigs_not_trust, IH. reflexivity.
Qed.

Lemma exports_not_trust : forall ks, forallb not_trust (flat_map export ks) = true.
Proof. induction ks as [|k ks IH]; [reflexivity|]. cbn [flat_map]. rewrite forallb_app, export_not_trust, IH. reflexivity. Qed.

(* ---------- importing the groups of one exported key ---------- *)
Definition wf_pub (k : key) : Prop := forall sk, In sk (p_subs k) -> sk_public sk = p_public k.
Definition kid (k : key) : Z * bool := (p_label k, p_public k).

Notation imp_groups := (import_groups key_or_sig uid_or_sig key_or_uid (fun s => s) upd_cur).
Notation imp_group := (import_group key_or_sig uid_or_sig key_or_uid (fun s => s) upd_cur).

Lemma keys_set_fresh : forall k ks, (forall x, In x ks -> kid x <> kid k) -> keys_set k ks = ks ++ [k].
Proof.
  intros k ks. induction ks as [|x r IH]; intro H; simpl; auto.
  destruct ((p_label x =? p_label k) && Bool.eqb (p_public x) (p_public k)) eqn:E.
  - apply andb_true_iff in E. destruct E as [E1 E2]. apply Z.eqb_eq in E1. apply eqb_prop in E2.
    exfalso. apply (H x (or_introl eq_refl)). unfold kid. congruence.
  - rewrite IH; auto. intros y Hy. apply H. right. exact Hy.
Qed.

Lemma same_id_kid : forall k, same_id (kid k) k = true.
Proof. intro k. unfold same_id, kid. simpl. rewrite Z.eqb_refl, eqb_reflx. reflexivity. Qed.

Lemma same_id_other : forall id x, kid x <> id -> same_id id x = false.
Proof.
  intros [l p] x H. unfold same_id, kid in *. simpl. destruct (p_label x =? l) eqn:E1; auto. destruct (Bool.eqb (p_public x) p) eqn:E2; auto.
  apply Z.eqb_eq in E1. apply eqb_prop in E2. exfalso. apply H. congruence.
Qed.

(* the current primary key is the last dictionary entry whenever no earlier entry has its id *)
Lemma upd_key_snoc : forall f ks K K', (forall x, In x ks -> kid x <> kid K) -> f K = Ok K' ->
  upd_key (kid K) f (ks ++ [K]) = Ok (ks ++ [K']).
Proof.
  intros f ks K K' Hf H. induction ks as [|x r IH]; simpl.
  - rewrite same_id_kid, H. reflexivity.
  - rewrite (same_id_other (kid K) x) by (apply Hf; left; reflexivity). rewrite IH; auto. intros y Hy. apply Hf. right. exact Hy.
Qed.

Lemma map_id_sigs : forall l : list sig, map (fun s => s) l = l.
Proof. apply map_id. Qed.

Lemma import_uid_groups : forall us gs ks K, (forall x, In x ks -> kid x <> kid K) ->
  imp_groups (map guid us ++ gs) (ks ++ [K], Some (kid K))
  = imp_groups gs (ks ++ [{| p_label := p_label K; p_public := p_public K; p_sigs := p_sigs K;
                             p_uids := insort_all (uid_lt (p_label K)) (map (fun u => copy_uid (strip_uid u)) us) (p_uids K);
                             p_subs := p_subs K |}], Some (kid K)).
Proof.
  induction us as [|u us IH]; intros gs ks K Hf; simpl.
  - unfold insort_all. simpl. destruct K; reflexivity.
  - rewrite map_id_sigs, sigs_of_export_sigs.
    erewrite upd_key_snoc by (auto; reflexivity).
    change (kid K) with (kid (key_or_uid K (fold_left uid_or_sig (strip_sigs (u_sigs u)) {| u_isuid := u_isuid u; u_content := u_content u; u_sigs := [] |}))).
    rewrite IH by exact Hf. simpl. reflexivity.
Qed.

Lemma import_sub_groups : forall sks gs ks K, (forall x, In x ks -> kid x <> kid K) ->
  (forall sk, In sk sks -> sk_public sk = p_public K) ->
  imp_groups (map gsub sks ++ gs) (ks ++ [K], Some (kid K))
  = imp_groups gs (ks ++ [{| p_label := p_label K; p_public := p_public K; p_sigs := p_sigs K; p_uids := p_uids K;
                             p_subs := fold_left (fun acc sk => sub_set (copy_sub (p_public K) (strip_sub sk)) acc) sks (p_subs K) |}], Some (kid K)).
Proof.
  induction sks as [|sk sks IH]; intros gs ks K Hf Hp; simpl.
  - destruct K; reflexivity.
  - rewrite map_id_sigs, sigs_of_export_sigs.
    assert (sk_public sk = p_public K) as E by (apply Hp; left; reflexivity).
    erewrite upd_key_snoc; [|exact Hf|].
    2:{ unfold key_or_sub. simpl. rewrite E, eqb_reflx. reflexivity. }
    match goal with |- imp_groups _ (_ ++ [?K1], _) = _ => change (kid K) with (kid K1) end.
    rewrite IH.
    + simpl. unfold copy_sub, strip_sub. simpl. rewrite tops_map_Top. reflexivity.
    + exact Hf.
    + intros sk' H'. simpl. apply Hp. right. exact H'.
Qed.

Lemma import_key_groups : forall k gs ks cur,
  wf_pub k -> (forall x, In x ks -> kid x <> kid k) ->
  imp_groups (kgroups k ++ gs) (ks, cur) = imp_groups gs (ks ++ [copy (strip_nonexportable k)], Some (kid k)).
Proof.
  intros k gs ks cur Hw Hf. unfold kgroups. rewrite <- app_comm_cons. simpl.
  rewrite map_id_sigs, sigs_of_export_sigs. rewrite keys_set_fresh by exact Hf.
  rewrite <- app_assoc.
  match goal with |- imp_groups _ (_ ++ [?K1], _) = _ => change (p_label k, p_public k) with (kid K1) end.
  rewrite import_uid_groups by exact Hf. simpl.
  match goal with |- imp_groups _ (_ ++ [?K1], _) = _ => change (kid _) with (kid K1) end.
  rewrite import_sub_groups; [|exact Hf|exact Hw]. simpl.
  unfold copy, rebuild_as, strip_nonexportable. simpl.
  rewrite tops_map_Top, map_map, fold_left_map. reflexivity.
Qed.

Lemma import_keys_groups : forall kl ks cur,
  (forall k, In k kl -> wf_pub k) -> NoDup (map kid ks ++ map kid kl) ->
  imp_groups (flat_map kgroups kl) (ks, cur) = Ok (ks ++ map (fun k => copy (strip_nonexportable k)) kl).
Proof.
  induction kl as [|k kl IH]; intros ks cur Hw Hnd.
  - simpl. rewrite app_nil_r. reflexivity.
  - cbn [flat_map map]. rewrite import_key_groups.
    + rewrite IH.
      * rewrite <- app_assoc. reflexivity.
      * intros k' H'. apply Hw. right. exact H'.
      * rewrite map_app. simpl. rewrite <- app_assoc. simpl. exact Hnd.
    + apply Hw. left. reflexivity.
    + intros x Hx E. simpl in Hnd. apply NoDup_remove_2 in Hnd. apply Hnd. apply in_or_app. left. rewrite <- E.
      apply in_map. exact Hx.
Qed.

(* an export has no opaque packets: nothing is skipped *)
Lemma drop_skipped_kgroups : forall kl, drop_skipped false (flat_map kgroups kl) = flat_map kgroups kl.
Proof.
  assert (Hu : forall us rest, drop_skipped false rest = rest -> drop_skipped false (map guid us ++ rest) = map guid us ++ rest).
  { induction us as [|u us IH]; intros rest Hr; [exact Hr|]. cbn [map app]. unfold guid at 1. cbn [drop_skipped]. rewrite (IH rest Hr). reflexivity. }
  assert (Hs : forall sks rest, drop_skipped false rest = rest -> drop_skipped false (map gsub sks ++ rest) = map gsub sks ++ rest).
  { induction sks as [|sk sks IH]; intros rest Hr; [exact Hr|]. cbn [map app]. unfold gsub at 1. cbn [drop_skipped]. rewrite (IH rest Hr). reflexivity. }
  induction kl as [|k kl IH]; [reflexivity|]. cbn [flat_map].
  change (kgroups k ++ flat_map kgroups kl)
    with ((PKey true (p_public k) true (p_label k), export_sigs (tops (p_sigs k))) :: (map guid (p_uids k) ++ map gsub (p_subs k)) ++ flat_map kgroups kl).
  cbn [drop_skipped]. rewrite <- app_assoc. rewrite Hu; [reflexivity|]. apply Hs. exact IH.
Qed.

(* ---------- C14: import of an export ---------- *)
Theorem concat_splits : forall kl,
  (forall k, In k kl -> wf_pub k) -> NoDup (map kid kl) ->
  import (flat_map export kl) = Ok (map (fun k => copy (strip_nonexportable k)) kl).
Proof.
  intros kl Hw Hnd. unfold import, import_with.
  rewrite (filter_all_true _ _ (exports_not_trust kl)).
  rewrite groups_exports, drop_skipped_kgroups.
  rewrite import_keys_groups; auto.
Qed.

Theorem import_export : forall k, wf_pub k -> import (export k) = Ok [copy (strip_nonexportable k)].
Proof.
  intros k Hw. pose proof (concat_splits [k]) as H. simpl in H. rewrite app_nil_r in H. apply H.
  - intros k' [E|[]]. subst. exact Hw.
  - constructor; [intros []|constructor].
Qed.
