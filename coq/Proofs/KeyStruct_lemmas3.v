(* C14 / C15 proofs, part 3: rebuilding (copy, public twin), equivalence, what export / import keeps. *)
From Coq Require Import ZArith List Bool Lia ZifyBool Permutation Arith.
Import ListNotations.
Require Import PV.Model.KeyStruct PV.Proofs.KeyStruct_lemmas PV.Proofs.KeyStruct_lemmas2.
Open Scope Z_scope.

(* ---------- boolean predicates and their Prop readings ---------- *)
Lemma nodupb_NoDup : forall l, nodupb l = true <-> NoDup l.
Proof.
  induction l as [|x r IH]; simpl.
  - split; [constructor | auto].
  - rewrite andb_true_iff, negb_true_iff, IH. split.
    + intros [H1 H2]. constructor; auto. intro Hin. assert (existsb (Z.eqb x) r = true) as C.
      { apply existsb_exists. exists x. split; auto. apply Z.eqb_refl. }
      congruence.
    + intro H. inversion H as [|? ? H1 H2]; subst. split; auto.
      destruct (existsb (Z.eqb x) r) eqn:E; auto. apply existsb_exists in E. destruct E as [y [Hy E]].
      apply Z.eqb_eq in E. subst y. contradiction.
Qed.

Lemma wf_pubb_wf_pub : forall k, wf_pubb k = true <-> wf_pub k.
Proof.
  intro k. unfold wf_pubb, wf_pub. rewrite forallb_forall. split; intros H sk Hs.
  - apply eqb_prop. apply H. exact Hs.
  - rewrite (H sk Hs). apply eqb_reflx.
Qed.

Definition sorted_keyP (k : key) : Prop :=
  sortedb item_lt (p_sigs k) = true /\ (forall u, In u (p_uids k) -> sortedb sig_lt (u_sigs u) = true)
  /\ (forall sk, In sk (p_subs k) -> sortedb item_lt (sk_sigs sk) = true) /\ sortedb (uid_lt (p_label k)) (p_uids k) = true.

Lemma all_sortedb_P : forall k, all_sortedb k = true <-> sorted_keyP k.
Proof.
  intro k. unfold all_sortedb, sorted_keyP, uids_sortedb. rewrite !andb_true_iff, !forallb_forall. tauto.
Qed.

Definition wfk (k : key) : Prop := wf_pub k /\ NoDup (map sk_label (p_subs k)).
Lemma wfkb_P : forall k, wfkb k = true <-> wfk k.
Proof. intro k. unfold wfkb, wfk, sub_labels_nodupb. rewrite andb_true_iff, wf_pubb_wf_pub, nodupb_NoDup. tauto. Qed.

(* ---------- equivalence: same material, same components, same signature packets in the same order ---------- *)
Definition sub_equiv (a b : subkey) : Prop :=
  sk_label a = sk_label b /\ sk_public a = sk_public b /\ sk_cansign a = sk_cansign b /\ tops (sk_sigs a) = tops (sk_sigs b).
Definition key_equiv (a b : key) : Prop :=
  p_label a = p_label b /\ p_public a = p_public b /\ tops (p_sigs a) = tops (p_sigs b) /\ p_uids a = p_uids b
  /\ Forall2 sub_equiv (p_subs a) (p_subs b).

Lemma export_equiv : forall a b, key_equiv a b -> export a = export b.
Proof.
  intros a b [H1 [H2 [H3 [H4 H5]]]]. unfold export. rewrite H1, H2, H3, H4.
  assert (flat_map export_sub (p_subs a) = flat_map export_sub (p_subs b)) as E.
  { induction H5 as [|x y l l' [E1 [E2 [E3 E4]]] _ IH]; simpl; auto.
    rewrite IH. unfold export_sub. rewrite E1, E2, E3, E4. reflexivity. }
  rewrite E. reflexivity.
Qed.

(* the key with another public flag (what the public twin is compared with) *)
Definition set_pub (pub : bool) (k : key) : key :=
  {| p_label := p_label k; p_public := pub; p_sigs := p_sigs k; p_uids := p_uids k;
     p_subs := map (fun sk => {| sk_label := sk_label sk; sk_public := pub; sk_cansign := sk_cansign sk; sk_sigs := sk_sigs sk |}) (p_subs k) |}.

Lemma copy_sub_label : forall pub sk, sk_label (copy_sub pub sk) = sk_label sk.
Proof. reflexivity. Qed.

Theorem rebuild_equiv : forall pub k, sorted_keyP k -> NoDup (map sk_label (p_subs k)) -> key_equiv (rebuild_as pub k) (set_pub pub k).
Proof.
  intros pub k [S1 [S2 [S3 S4]]] Hnd. unfold key_equiv, rebuild_as, set_pub. simpl. repeat split.
  - apply tops_reattach_sorted. exact S1.
  - assert (map copy_uid (p_uids k) = p_uids k) as E.
    { rewrite <- (map_id (p_uids k)) at 2. apply map_ext_in. intros u Hu. apply copy_uid_sorted_id. apply S2. exact Hu. }
    rewrite E. apply insort_all_sorted_id; auto using uid_lt_negtrans.
  - rewrite (fold_sub_set_nodup (copy_sub pub)); auto using copy_sub_label.
    simpl. clear Hnd. induction (p_subs k) as [|sk l IH]; simpl; constructor.
    + unfold sub_equiv, copy_sub. simpl. repeat split. apply tops_reattach_sorted. apply S3. left. reflexivity.
    + apply IH. intros sk' H'. apply S3. right. exact H'.
Qed.

Lemma Forall2_set_pub : forall pub l, (forall sk, In sk l -> sk_public sk = pub) ->
  Forall2 sub_equiv (map (fun sk => {| sk_label := sk_label sk; sk_public := pub; sk_cansign := sk_cansign sk; sk_sigs := sk_sigs sk |}) l) l.
Proof.
  intros pub l. induction l as [|sk l IH]; intro H; simpl; constructor.
  - unfold sub_equiv. simpl. repeat split. symmetry. apply H. left. reflexivity.
  - apply IH. intros sk' H'. apply H. right. exact H'.
Qed.

Lemma set_pub_same : forall k, wf_pub k -> key_equiv (set_pub (p_public k) k) k.
Proof.
  intros k Hw. unfold key_equiv, set_pub. simpl. repeat split. apply Forall2_set_pub. exact Hw.
Qed.

Lemma sub_equiv_trans : forall a b c, sub_equiv a b -> sub_equiv b c -> sub_equiv a c.
Proof. intros a b c [A1 [A2 [A3 A4]]] [B1 [B2 [B3 B4]]]. unfold sub_equiv. repeat split; congruence. Qed.

Lemma Forall2_sub_equiv_trans : forall l1 l2 l3, Forall2 sub_equiv l1 l2 -> Forall2 sub_equiv l2 l3 -> Forall2 sub_equiv l1 l3.
Proof.
  intros l1 l2 l3 H. revert l3. induction H as [|x y l l' Hxy _ IH]; intros l3 H3; inversion H3; subst; constructor.
  - eapply sub_equiv_trans; eauto.
  - apply IH. assumption.
Qed.

Lemma key_equiv_trans : forall a b c, key_equiv a b -> key_equiv b c -> key_equiv a c.
Proof.
  intros a b c [A1 [A2 [A3 [A4 A5]]]] [B1 [B2 [B3 [B4 B5]]]]. unfold key_equiv. repeat split; try congruence.
  eapply Forall2_sub_equiv_trans; eauto.
Qed.

Theorem copy_equiv : forall k, sorted_keyP k -> wfk k -> key_equiv (copy k) k.
Proof.
  intros k Hs [Hw Hnd]. unfold copy. eapply key_equiv_trans.
  - apply rebuild_equiv; auto.
  - apply set_pub_same. exact Hw.
Qed.

Theorem copy_exports_identically : forall k, sorted_keyP k -> wfk k -> export (copy k) = export k.
Proof. intros k Hs Hw. apply export_equiv. apply copy_equiv; auto. Qed.

(* ---------- whatever the input, a rebuilt key is in order and well formed ---------- *)
Lemma sub_set_labels_nodup : forall sk l, NoDup (map sk_label l) -> NoDup (map sk_label (sub_set sk l)).
Proof.
  intros sk l. induction l as [|x r IH]; intro H; simpl.
  - constructor; [intros []|constructor].
  - destruct (sk_label x =? sk_label sk) eqn:E.
    + apply Z.eqb_eq in E. simpl. rewrite <- E. exact H.
    + simpl in *. inversion H as [|? ? H1 H2]; subst. constructor; auto.
      intro Hin. apply in_map_iff in Hin. destruct Hin as [y [Ey Hy]]. apply sub_set_in in Hy. destruct Hy as [Hy|Hy].
      * subst y. apply Z.eqb_neq in E. congruence.
      * apply H1. rewrite <- Ey. apply in_map. exact Hy.
Qed.

Lemma fold_sub_set_labels_nodup : forall (f : subkey -> subkey) l acc,
  NoDup (map sk_label acc) -> NoDup (map sk_label (fold_left (fun a sk => sub_set (f sk) a) l acc)).
Proof. intros f l. induction l as [|sk l IH]; intros acc H; simpl; auto. apply IH. apply sub_set_labels_nodup. exact H. Qed.

Theorem rebuild_sorted : forall pub k, sorted_keyP (rebuild_as pub k).
Proof.
  intros pub k. unfold sorted_keyP, rebuild_as. simpl. repeat split.
  - apply (fold_key_or_sig_spec (tops (p_sigs k)) [] eq_refl).
  - intros u Hu. apply insort_all_in in Hu. destruct Hu as [[]|Hu]. apply in_map_iff in Hu. destruct Hu as [u0 [E _]]. subst u.
    apply copy_uid_sigs_sorted.
  - intros sk Hs. apply fold_sub_set_in in Hs. destruct Hs as [[]|[sk0 [_ E]]]. subst sk. unfold copy_sub. simpl.
    apply (fold_key_or_sig_spec (tops (sk_sigs sk0)) [] eq_refl).
  - apply insort_all_sorted; auto using uid_lt_irrefl, uid_lt_trans, uid_lt_negtrans.
Qed.

Theorem rebuild_wfk : forall pub k, wfk (rebuild_as pub k).
Proof.
  intros pub k. split.
  - intros sk Hs. unfold rebuild_as in Hs. simpl in Hs. apply fold_sub_set_in in Hs. destruct Hs as [[]|[sk0 [_ E]]]. subst sk. reflexivity.
  - unfold rebuild_as. simpl. apply fold_sub_set_labels_nodup. constructor.
Qed.

(* ---------- export ignores what strip removes ---------- *)
Lemma export_sigs_strip : forall l, export_sigs (strip_sigs l) = export_sigs l.
Proof.
  induction l as [|s l IH]; simpl; auto. unfold export_sigs, strip_sigs in *. simpl.
  destruct (exportable (s_core s)) eqn:E; simpl; rewrite ?E, IH; reflexivity.
Qed.

Theorem export_strip : forall k, export (strip_nonexportable k) = export k.
Proof.
  intro k. unfold export, strip_nonexportable. simpl. rewrite tops_map_Top, export_sigs_strip. do 2 f_equal.
  f_equal.
  - induction (p_uids k) as [|u l IH]; simpl; auto. rewrite IH. unfold export_uid, strip_uid. simpl. rewrite export_sigs_strip. reflexivity.
  - induction (p_subs k) as [|sk l IH]; simpl; auto. rewrite IH. unfold export_sub, strip_sub. simpl.
    rewrite tops_map_Top, export_sigs_strip. reflexivity.
Qed.

Lemma strip_wfk : forall k, wfk k -> wfk (strip_nonexportable k).
Proof.
  intros k [Hw Hnd]. split.
  - intros sk Hs. unfold strip_nonexportable in Hs. simpl in Hs. apply in_map_iff in Hs. destruct Hs as [sk0 [E H0]]. subst sk.
    simpl. apply Hw. exact H0.
  - unfold strip_nonexportable. simpl. rewrite map_map. simpl. exact Hnd.
Qed.

Lemma strip_wf_pub : forall k, wf_pub k -> wf_pub (strip_nonexportable k).
Proof.
  intros k Hw sk Hs. unfold strip_nonexportable in Hs. simpl in Hs. apply in_map_iff in Hs. destruct Hs as [sk0 [E H0]]. subst sk.
  simpl. apply Hw. exact H0.
Qed.

(* ---------- import . export, exact form ---------- *)
Theorem import_export_exact : forall k, wfk k -> sorted_keyP (strip_nonexportable k) ->
  exists k', import (export k) = Ok [k'] /\ key_equiv k' (strip_nonexportable k).
Proof.
  intros k Hw Hs. exists (copy (strip_nonexportable k)). split.
  - apply import_export. apply Hw.
  - apply copy_equiv; auto. apply strip_wfk. exact Hw.
Qed.

(* when no non-exportable signature is the newest self-signature of a user id, sortedness survives strip *)
Lemma strip_sorted_sigs : forall k, sorted_keyP k ->
  sortedb item_lt (p_sigs (strip_nonexportable k)) = true
  /\ (forall u, In u (p_uids (strip_nonexportable k)) -> sortedb sig_lt (u_sigs u) = true)
  /\ (forall sk, In sk (p_subs (strip_nonexportable k)) -> sortedb item_lt (sk_sigs sk) = true).
Proof.
  intros k [S1 [S2 [S3 _]]]. unfold strip_nonexportable. simpl. repeat split.
  - apply sorted_map_Top. apply sortedb_filter. apply sorted_tops. exact S1.
  - intros u Hu. apply in_map_iff in Hu. destruct Hu as [u0 [E H0]]. subst u. simpl. apply sortedb_filter. apply S2. exact H0.
  - intros sk Hs. apply in_map_iff in Hs. destruct Hs as [sk0 [E H0]]. subst sk. simpl.
    apply sorted_map_Top. apply sortedb_filter. apply sorted_tops. apply S3. exact H0.
Qed.

Definition uids_exportable (k : key) : Prop := forall u s, In u (p_uids k) -> In s (u_sigs u) -> exportable (s_core s) = true.

Lemma strip_uid_id : forall u, (forall s, In s (u_sigs u) -> exportable (s_core s) = true) -> strip_uid u = u.
Proof.
  intros u H. unfold strip_uid, strip_sigs. rewrite filter_all_true.
  - destruct u; reflexivity.
  - apply forallb_forall. exact H.
Qed.

Lemma strip_sorted : forall k, sorted_keyP k -> uids_exportable k -> sorted_keyP (strip_nonexportable k).
Proof.
  intros k Hs He. destruct (strip_sorted_sigs k Hs) as [A [B C]]. unfold sorted_keyP. repeat split; auto.
  unfold strip_nonexportable. simpl.
  assert (map strip_uid (p_uids k) = p_uids k) as E.
  { rewrite <- (map_id (p_uids k)) at 2. apply map_ext_in. intros u Hu. apply strip_uid_id. intros s Hin. eapply He; eauto. }
  rewrite E. apply Hs.
Qed.

(* ---------- what the imported key contains (no sortedness assumed) ---------- *)
Lemma reattach_tops_in : forall ss s, In s (tops (fold_left key_or_sig ss [])) <-> In s ss.
Proof.
  intros ss s. destruct (fold_key_or_sig_spec ss [] eq_refl) as [_ H]. rewrite H. rewrite insort_all_in. simpl. tauto.
Qed.

Lemma strip_sigs_in : forall l s, In s (strip_sigs l) <-> In s l /\ exportable (s_core s) = true.
Proof. intros. unfold strip_sigs. apply filter_In. Qed.

Lemma copy_uid_in : forall u s, In s (u_sigs (copy_uid u)) <-> In s (u_sigs u).
Proof. intros u s. rewrite copy_uid_eq. simpl. rewrite insort_all_in. simpl. tauto. Qed.

Theorem only_nonexportable_omitted : forall k, wf_pub k ->
  exists k', import (export k) = Ok [k'] /\ p_label k' = p_label k /\ p_public k' = p_public k
  /\ (forall s, In s (tops (p_sigs k')) <-> In s (tops (p_sigs k)) /\ exportable (s_core s) = true)
  /\ (exists us, Permutation (p_uids k') us /\ Forall2 (fun u' u => u_isuid u' = u_isuid u /\ u_content u' = u_content u
        /\ forall s, In s (u_sigs u') <-> In s (u_sigs u) /\ exportable (s_core s) = true) us (p_uids k))
  /\ (NoDup (map sk_label (p_subs k)) ->
      Forall2 (fun sk' sk => sk_label sk' = sk_label sk /\ sk_public sk' = sk_public sk /\ sk_cansign sk' = sk_cansign sk
        /\ forall s, In s (tops (sk_sigs sk')) <-> In s (tops (sk_sigs sk)) /\ exportable (s_core s) = true) (p_subs k') (p_subs k)).
Proof.
  intros k Hw. exists (copy (strip_nonexportable k)). split; [apply import_export; exact Hw|].
  unfold copy, rebuild_as, strip_nonexportable. simpl.
  split; [reflexivity|]. split; [reflexivity|]. split; [|split].
  - intro s. rewrite tops_map_Top, reattach_tops_in, strip_sigs_in. tauto.
  - exists (map copy_uid (map strip_uid (p_uids k))). split.
    + rewrite insort_all_perm. reflexivity.
    + induction (p_uids k) as [|u l IH]; simpl; constructor; auto.
      pose proof (copy_uid_eq (strip_uid u)) as E.
      split; [rewrite E; reflexivity|]. split; [rewrite E; reflexivity|]. intro s. rewrite copy_uid_in. simpl. apply strip_sigs_in.
  - intro Hnd. rewrite (fold_sub_set_nodup (copy_sub (p_public k))); auto using copy_sub_label.
    + simpl. clear Hnd. unfold wf_pub in Hw. induction (p_subs k) as [|sk l IH]; simpl; constructor.
      * unfold copy_sub, strip_sub. simpl. split; [reflexivity|]. split; [symmetry; apply Hw; left; reflexivity|].
        split; [reflexivity|]. intro s. rewrite tops_map_Top, reattach_tops_in, strip_sigs_in. tauto.
      * apply IH. intros sk' H'. apply Hw. right. exact H'.
    + simpl. rewrite map_map. simpl. exact Hnd.
Qed.

(* ---------- second round trip ---------- *)
Lemma imported_uids_exportable : forall k, uids_exportable (copy (strip_nonexportable k)).
Proof.
  intros k u s Hu Hs. unfold copy, rebuild_as, strip_nonexportable in Hu. simpl in Hu.
  apply insort_all_in in Hu. destruct Hu as [[]|Hu]. rewrite map_map in Hu. apply in_map_iff in Hu. destruct Hu as [u0 [E _]]. subst u.
  apply (proj1 (copy_uid_in _ _)) in Hs. simpl in Hs. apply (proj1 (strip_sigs_in _ _)) in Hs. tauto.
Qed.

Theorem export_import_export_fixpoint : forall k, wf_pub k ->
  exists k1 k2, import (export k) = Ok [k1] /\ import (export k1) = Ok [k2] /\ export k2 = export k1.
Proof.
  intros k Hw. set (k1 := copy (strip_nonexportable k)).
  exists k1, (copy (strip_nonexportable k1)).
  assert (wfk k1) as W1 by apply rebuild_wfk.
  split; [apply import_export; exact Hw|]. split; [apply import_export; apply W1|].
  rewrite copy_exports_identically.
  - apply export_strip.
  - apply strip_sorted; [apply rebuild_sorted | apply imported_uids_exportable].
  - apply strip_wfk. exact W1.
Qed.

(* ---------- explicit exportable=True ---------- *)
Lemma explicit_true_exportable : forall c, c_exp c = Some true -> exportable c = true.
Proof. intros c H. unfold exportable. rewrite H. reflexivity. Qed.

Lemma export_sigs_in : forall l s, In s l -> exportable (s_core s) = true -> In (PSig s) (export_sigs l).
Proof. intros l s Hin He. unfold export_sigs. apply in_flat_map. exists s. split; auto. rewrite He. left. reflexivity. Qed.

Lemma export_in_key_sig : forall k s, In s (tops (p_sigs k)) -> exportable (s_core s) = true -> In (PSig s) (export k).
Proof. intros k s H He. unfold export. right. apply in_or_app. left. apply export_sigs_in; auto. Qed.

Lemma export_in_uid_sig : forall k u s, In u (p_uids k) -> In s (u_sigs u) -> exportable (s_core s) = true -> In (PSig s) (export k).
Proof.
  intros k u s Hu H He. unfold export. right. apply in_or_app. right. apply in_or_app. left.
  apply in_flat_map. exists u. split; auto. unfold export_uid. right. apply export_sigs_in; auto.
Qed.

Lemma export_in_sub_sig : forall k sk s, In sk (p_subs k) -> In s (tops (sk_sigs sk)) -> exportable (s_core s) = true -> In (PSig s) (export k).
Proof.
  intros k sk s Hu H He. unfold export. right. apply in_or_app. right. apply in_or_app. right.
  apply in_flat_map. exists sk. split; auto. unfold export_sub. right. apply export_sigs_in; auto.
Qed.

Theorem explicit_exportable_true_kept : forall k, wf_pub k ->
  exists k1, import (export k) = Ok [k1]
  /\ (forall s, In s (tops (p_sigs k)) -> c_exp (s_core s) = Some true -> In s (tops (p_sigs k1)) /\ In (PSig s) (export k1))
  /\ (forall u s, In u (p_uids k) -> In s (u_sigs u) -> c_exp (s_core s) = Some true ->
        exists u1, In u1 (p_uids k1) /\ u_isuid u1 = u_isuid u /\ u_content u1 = u_content u /\ In s (u_sigs u1) /\ In (PSig s) (export k1))
  /\ (forall sk s, In sk (p_subs k) -> NoDup (map sk_label (p_subs k)) -> In s (tops (sk_sigs sk)) -> c_exp (s_core s) = Some true ->
        exists sk1, In sk1 (p_subs k1) /\ sk_label sk1 = sk_label sk /\ In s (tops (sk_sigs sk1)) /\ In (PSig s) (export k1)).
Proof.
  intros k Hw. exists (copy (strip_nonexportable k)). split; [apply import_export; exact Hw|].
  split; [|split].
  - intros s Hin He. apply explicit_true_exportable in He.
    assert (In s (tops (p_sigs (copy (strip_nonexportable k))))) as H1.
    { unfold copy, rebuild_as, strip_nonexportable. simpl. rewrite tops_map_Top. apply reattach_tops_in. apply strip_sigs_in. auto. }
    split; auto. apply export_in_key_sig; auto.
  - intros u s Hu Hin He. apply explicit_true_exportable in He.
    exists (copy_uid (strip_uid u)).
    assert (In (copy_uid (strip_uid u)) (p_uids (copy (strip_nonexportable k)))) as H1.
    { unfold copy, rebuild_as, strip_nonexportable. simpl. apply insort_all_in. right. rewrite map_map. apply in_map_iff. exists u. auto. }
    assert (In s (u_sigs (copy_uid (strip_uid u)))) as H2.
    { apply copy_uid_in. simpl. apply strip_sigs_in. auto. }
    pose proof (copy_uid_eq (strip_uid u)) as E.
    split; [exact H1|]. split; [rewrite E; reflexivity|]. split; [rewrite E; reflexivity|]. split; [exact H2|].
    eapply export_in_uid_sig; eauto.
  - intros sk s Hsk Hnd Hin He. apply explicit_true_exportable in He.
    exists (copy_sub (p_public k) (strip_sub sk)).
    assert (In (copy_sub (p_public k) (strip_sub sk)) (p_subs (copy (strip_nonexportable k)))) as H1.
    { unfold copy, rebuild_as, strip_nonexportable. simpl.
      rewrite (fold_sub_set_nodup (copy_sub (p_public k))); auto using copy_sub_label.
      - simpl. rewrite map_map. apply in_map_iff. exists sk. auto.
      - simpl. rewrite map_map. simpl. exact Hnd. }
    assert (In s (tops (sk_sigs (copy_sub (p_public k) (strip_sub sk))))) as H2.
    { unfold copy_sub, strip_sub. simpl. rewrite tops_map_Top. apply reattach_tops_in. apply strip_sigs_in. auto. }
    repeat split; auto. eapply export_in_sub_sig; eauto.
Qed.

(* ---------- the stable insort, stated for the deque itself ---------- *)
Theorem insort_stable {A : Type} (lt : A -> A -> bool) : lt_negtrans lt ->
  forall x l, sortedb lt l = true -> (forall y, In y l -> lt x y = false) -> insort lt x l = l ++ [x].
Proof. intros Hn x l Hs H. rewrite (insort_ins lt Hn x l Hs). apply ins_last. exact H. Qed.

(* among equal keys the order of insertion is kept: everything not greater than x stays in front of it *)
Theorem insort_after_equals {A : Type} (lt : A -> A -> bool) : lt_negtrans lt ->
  forall x l, sortedb lt l = true ->
  exists l1 l2, l = l1 ++ l2 /\ insort lt x l = l1 ++ x :: l2
                /\ (forall y, In y l1 -> lt x y = false) /\ (forall y, In y l2 -> lt x y = true).
Proof.
  intros Hn x l Hs. destruct (split_sorted lt Hn x l Hs) as [l1 [l2 [E [H1 [H2 H3]]]]].
  exists l1, l2. rewrite (insort_ins lt Hn x l Hs). repeat split; auto.
  - intros y Hy. apply negb_true_iff. exact (proj1 (forallb_forall _ _) H1 y Hy).
  - intros y Hy. exact (proj1 (forallb_forall _ _) H2 y Hy).
Qed.

(* ---------- SorteDeque.resort ---------- *)
Lemma resort_perm {A : Type} (lt : A -> A -> bool) : forall j l, Permutation (resort lt j l) l.
Proof.
  intros j l. unfold resort. destruct (nth_error l j) as [x|] eqn:E; [|reflexivity].
  rewrite insort_perm. symmetry. apply remove_nth_perm. exact E.
Qed.

Lemma resort_sorted {A : Type} (lt : A -> A -> bool) : lt_irrefl lt -> lt_trans lt -> lt_negtrans lt ->
  forall j l, (j < length l)%nat -> sortedb lt (remove_nth j l) = true -> sortedb lt (resort lt j l) = true.
Proof.
  intros Hi Ht Hn j l Hj Hs. unfold resort. destruct (nth_error l j) as [x|] eqn:E.
  - apply insort_sorted; auto.
  - apply nth_error_None in E. lia.
Qed.

Lemma bisect_finds_boundary : forall (A : Type) (p : A -> bool) (l1 l2 : list A),
  forallb (fun y => negb (p y)) l1 = true -> forallb p l2 = true ->
  bsearch p (l1 ++ l2) (S (length (l1 ++ l2))) 0 (length (l1 ++ l2)) = length l1.
Proof. intros A p l1 l2 H1 H2. apply bsearch_partition; auto; rewrite ?app_length; lia. Qed.

(* ---------- PGPUID.selfsig (repair 812bc0f: the newest self-CERTIFICATION) and its readers ---------- *)
(* a signature that is not a certification by the key - a certification revocation, an attestation, anything by another key -
   leaves the self-signature of the identity as it was, wherever the deque puts it *)
Lemma find_app_k {A : Type} (f : A -> bool) : forall a b, find f (a ++ b) = match find f a with Some x => Some x | None => find f b end.
Proof. induction a as [|x r IH]; intros b; simpl; [reflexivity|]. destruct (f x); [reflexivity|apply IH]. Qed.

Lemma find_rev_insert_at {A : Type} (f : A -> bool) : forall i x l, f x = false -> find f (rev (insert_at i x l)) = find f (rev l).
Proof.
  intros i x l Hx. unfold insert_at. rewrite <- (firstn_skipn i l) at 3. rewrite !rev_app_distr. simpl.
  rewrite <- app_assoc, !find_app_k. simpl. rewrite Hx. reflexivity.
Qed.

Theorem noncert_keeps_effective : forall K u s,
  (is_cert_type (c_type (s_core s)) = false \/ c_issuer (s_core s) <> K) ->
  selfsig K (uid_or_sig u s) = selfsig K u.
Proof.
  intros K u s H. unfold selfsig, uid_or_sig, insort. simpl. apply find_rev_insert_at.
  destruct H as [H|H]; [rewrite H; reflexivity|]. apply Z.eqb_neq in H. rewrite H. apply andb_false_r.
Qed.

(* hence the primary mark and the place of the identity in PGPKey._uids (PGPUID.__lt__) do not move either *)
Theorem uid_lt_ignores_noncert : forall K a b s,
  (is_cert_type (c_type (s_core s)) = false \/ c_issuer (s_core s) <> K) ->
  uid_is_primary K (uid_or_sig a s) = uid_is_primary K a
  /\ uid_lt K (uid_or_sig a s) b = uid_lt K a b /\ uid_lt K b (uid_or_sig a s) = uid_lt K b a.
Proof.
  intros K a b s H. unfold uid_lt, uid_lt_with, uid_is_primary, uid_is_primary_with. rewrite (noncert_keeps_effective K a s H). simpl. repeat split.
Qed.

(* ---------- PGPKey.parse after repair bf7dbf5 and the orphan repair ---------- *)
(* an opaque primary key packet and everything after it up to the next understood primary key packet leaves no trace *)
Lemma drop_skipped_true_nokey : forall gs, (forall g, In g gs -> match fst g with PKey true _ _ _ => False | _ => True end) ->
  drop_skipped true gs = [].
Proof.
  induction gs as [|[h ss] r IH]; intros H; [reflexivity|]. cbn [drop_skipped].
  pose proof (H (h, ss) (or_introl eq_refl)) as Hh. cbn [fst] in Hh.
  assert (Hr : drop_skipped true r = []) by (apply IH; intros g Hg; apply H; right; exact Hg).
  destruct h as [prim pub cs l|isu c|s| |st id|id|id]; try exact Hr. destruct prim; [contradiction|exact Hr].
Qed.

(* signatures before the first non-signature packet are set aside: they change nothing *)
Theorem leading_signatures_ignored : forall ss ps, forallb is_sigpkt ss = true -> import (ss ++ ps) = import ps.
Proof.
  intros ss ps H. unfold import, import_with. rewrite filter_app.
  assert (Hf : forallb is_sigpkt (filter not_trust ss) = true).
  { apply forallb_forall. intros x Hx. apply filter_In in Hx. destruct Hx as [Hx _]. exact (proj1 (forallb_forall _ _) H x Hx). }
  rewrite (groups_sig_app _ _ Hf). destruct (groups (filter not_trust ps)) as [lead gs]. reflexivity.
Qed.

(* the groups of a ++ rest when rest does not begin with signatures: those of a, then those of rest *)
Lemma groups_app_nolead : forall a rest, fst (groups rest) = [] ->
  groups (a ++ rest) = (fst (groups a), snd (groups a) ++ snd (groups rest)).
Proof.
  induction a as [|p a IH]; intros rest Hr.
  - cbn [app groups fst snd]. destruct (groups rest) as [l g]. cbn in *. subst. reflexivity.
  - cbn [app groups]. rewrite (IH rest Hr). destruct (groups a) as [la ga]. cbn [fst snd].
    destruct (is_sigpkt p); reflexivity.
Qed.

(* a stray packet with the signatures grouped with it is invisible to the skipping pass, wherever it stands *)
Lemma drop_skipped_stray : forall ga b id ss gb, drop_skipped b (ga ++ (PStray id, ss) :: gb) = drop_skipped b (ga ++ gb).
Proof.
  induction ga as [|[h hs] ga IH]; intros b id ss gb; [reflexivity|]. cbn [app drop_skipped].
  destruct h as [prim pub cs l|isu c|s| |st i|i|i]; try (rewrite !IH; reflexivity); try (destruct b; rewrite !IH; reflexivity).
Qed.

(* the repaired parse: a stray packet and the signatures that follow it, put in front of, between or after the packets of the keys
   (anywhere but in front of signatures, which would then be the stray packet's instead of the previous component's), change nothing *)
Theorem stray_packets_do_not_disturb : forall a id ss b, forallb is_sigpkt ss = true -> fst (groups (filter not_trust b)) = [] ->
  import (a ++ PStray id :: ss ++ b) = import (a ++ b).
Proof.
  intros a id ss b Hs Hb. unfold import, import_with. rewrite !filter_app. cbn [filter not_trust]. rewrite filter_app.
  assert (Hf : forallb is_sigpkt (filter not_trust ss) = true).
  { apply forallb_forall. intros x Hx. apply filter_In in Hx. destruct Hx as [Hx _]. exact (proj1 (forallb_forall _ _) Hs x Hx). }
  set (fa := filter not_trust a). set (fb := filter not_trust b) in *. set (fs := filter not_trust ss) in *.
  assert (Hx : groups (PStray id :: fs ++ fb) = ([], (PStray id, fs) :: snd (groups fb))).
  { cbn [groups]. rewrite (groups_sig_app _ fb Hf). rewrite Hb, app_nil_r. reflexivity. }
  rewrite (groups_app_nolead fa (PStray id :: fs ++ fb)) by (rewrite Hx; reflexivity).
  rewrite (groups_app_nolead fa fb Hb). rewrite Hx. cbn [snd]. rewrite drop_skipped_stray. reflexivity.
Qed.

(* the same for whole group lists: removing every stray group changes nothing *)
Definition stray_group (g : packet * list packet) : bool := match fst g with PStray _ => true | _ => false end.
Lemma drop_skipped_filter_stray : forall gs b, drop_skipped b (filter (fun g => negb (stray_group g)) gs) = drop_skipped b gs.
Proof.
  induction gs as [|[h ss] r IH]; intros b; [reflexivity|]. cbn [filter].
  destruct h as [prim pub cs l|isu c|s| |st i|i|i]; cbn [stray_group fst negb drop_skipped]; rewrite ?IH; try reflexivity.
Qed.

(* ---------- a primary key of unknown version between two exported keys: the neighbours come back as if it were not there ---------- *)
(* the groups of an export pass the skipping pass whole, and leave it not skipping *)
Lemma drop_skipped_kgroups_app : forall k b rest, drop_skipped b (kgroups k ++ rest) = kgroups k ++ drop_skipped false rest.
Proof.
  assert (Hu : forall us rest, drop_skipped false (map guid us ++ rest) = map guid us ++ drop_skipped false rest).
  { induction us as [|u us IH]; intros rest; [reflexivity|]. cbn [map app]. unfold guid at 1. cbn [drop_skipped]. rewrite IH. reflexivity. }
  assert (Hs : forall sks rest, drop_skipped false (map gsub sks ++ rest) = map gsub sks ++ drop_skipped false rest).
  { induction sks as [|sk sks IH]; intros rest; [reflexivity|]. cbn [map app]. unfold gsub at 1. cbn [drop_skipped]. rewrite IH. reflexivity. }
  intros k b rest.
  change (kgroups k ++ rest)
    with ((PKey true (p_public k) true (p_label k), export_sigs (tops (p_sigs k))) :: (map guid (p_uids k) ++ map gsub (p_subs k)) ++ rest).
  cbn [drop_skipped]. rewrite <- app_assoc, Hu, Hs. unfold kgroups. rewrite <- app_comm_cons, <- app_assoc. reflexivity.
Qed.

(* the head of every group of a packet list is one of its packets *)
Lemma groups_heads_in : forall ps g, In g (snd (groups ps)) -> In (fst g) ps.
Proof.
  induction ps as [|p r IH]; intros g Hg; [destruct Hg|]. cbn [groups] in Hg. destruct (groups r) as [lead gs] eqn:E.
  destruct (is_sigpkt p); cbn [snd] in Hg.
  - right. apply IH. exact Hg.
  - destruct Hg as [<-|Hg]; [left; reflexivity|right; apply IH; exact Hg].
Qed.

(* while skipping, groups that are not headed by an understood primary key packet leave no trace and do not end the skipping *)
Lemma drop_skipped_true_app : forall gj rest, (forall g, In g gj -> match fst g with PKey true _ _ _ => False | _ => True end) ->
  drop_skipped true (gj ++ rest) = drop_skipped true rest.
Proof.
  induction gj as [|[h ss] r IH]; intros rest H; [reflexivity|]. cbn [app drop_skipped].
  pose proof (H (h, ss) (or_introl eq_refl)) as Hh. cbn [fst] in Hh.
  assert (Hr : drop_skipped true (r ++ rest) = drop_skipped true rest) by (apply IH; intros g Hg; apply H; right; exact Hg).
  destruct h as [prim pub cs l|isu c|s| |st id|id|id]; try exact Hr. destruct prim; [contradiction|exact Hr].
Qed.

Theorem unknown_primary_between_exports : forall k1 k2 (junk : list packet) v,
  wf_pub k1 -> wf_pub k2 -> kid k1 <> kid k2 ->
  (forall p, In p junk -> match p with PKey true _ _ _ => False | _ => True end) ->
  import (export k1 ++ POpaqueKey v :: junk ++ export k2) = Ok [copy (strip_nonexportable k1); copy (strip_nonexportable k2)].
Proof.
  intros k1 k2 junk v H1 H2 Hne Hj. unfold import, import_with.
  rewrite filter_app. cbn [filter not_trust]. rewrite filter_app.
  rewrite (filter_all_true _ _ (export_not_trust k1)), (filter_all_true _ _ (export_not_trust k2)).
  set (fj := filter not_trust junk).
  assert (G2 : groups (export k2) = ([], kgroups k2)).
  { pose proof (groups_export k2 [] eq_refl) as G. rewrite !app_nil_r in G. exact G. }
  assert (Gj : groups (fj ++ export k2) = (fst (groups fj), snd (groups fj) ++ kgroups k2)).
  { rewrite (groups_app_nolead fj (export k2)) by (rewrite G2; reflexivity). rewrite G2. reflexivity. }
  assert (Gr : groups (POpaqueKey v :: fj ++ export k2) = ([], (POpaqueKey v, fst (groups fj)) :: snd (groups fj) ++ kgroups k2)).
  { cbn [groups]. rewrite Gj. reflexivity. }
  rewrite (groups_export k1 (POpaqueKey v :: fj ++ export k2)) by (rewrite Gr; reflexivity). rewrite Gr. cbn [snd].
  rewrite drop_skipped_kgroups_app. cbn [drop_skipped].
  rewrite drop_skipped_true_app.
  - rewrite <- (app_nil_r (kgroups k2)) at 1. rewrite drop_skipped_kgroups_app. cbn [drop_skipped]. rewrite app_nil_r.
    pose proof (import_keys_groups [k1; k2] [] None) as I. cbn [flat_map map app] in I. rewrite app_nil_r in I. apply I.
    + intros k [<-|[<-|[]]]; assumption.
    + constructor; [intros [E|[]]; congruence|constructor; [intros []|constructor]].
  - intros g Hg. apply groups_heads_in in Hg. unfold fj in Hg. apply filter_In in Hg. destruct Hg as [Hg _]. exact (Hj _ Hg).
Qed.
