(* C19 -- proofs: the layered alias index of PGPKeyring refines the set of (identifier, key) pairs of the loaded keys,
   for every reachable state.  Part A is the design spike (DESIGN.md A.6) adapted to string aliases, dict insertion order and the
   blank-insensitive membership test; part B adds unload, add_key with subkeys, the state invariant and the lifting. *)
From Coq Require Import ZArith List Bool Lia ZifyBool Permutation.
Import ListNotations.
Require Import PV.Lib.Bytes PV.Lib.BytesLemmas PV.Model.Keyring PV.Spec.Keyring_spec.
Open Scope Z_scope.

Lemma aeqb_spec a b : reflect (a = b) (aeqb a b).
Proof.
  unfold aeqb. destruct (eqb_bytes a b) eqn:E; constructor.
  - apply eqb_bytes_eq; exact E.
  - intro H. apply eqb_bytes_eq in H. congruence.
Qed.
Lemma aeqb_refl a : aeqb a a = true.
Proof. destruct (aeqb_spec a a); congruence. Qed.
Lemma alias_eq_dec (a b : alias) : {a = b} + {a <> b}.
Proof. apply (list_eq_dec Z.eq_dec). Qed.

(* ---- the model's boolean `unspaced` and the specification's `id_shape` say the same ---- *)
Lemma hexdigit_spec c : hexdigit c = true <-> hex_digit c.
Proof. unfold hexdigit, hex_digit. lia. Qed.
Lemma id_shaped_spec s : id_shaped s = true <-> id_shape s.
Proof.
  unfold id_shaped, id_shape. rewrite andb_true_iff, forallb_forall, Forall_forall. cbv zeta. split.
  - intros [H1 H2]. split; [lia|]. intros c Hc. apply hexdigit_spec. auto.
  - intros [H1 H2]. split; [|lia]. intros c Hc. apply hexdigit_spec. auto.
Qed.
Lemma selects_unspaced i a : selects i a <-> carries i a \/ carries i (unspaced a).
Proof.
  unfold selects, unspaced. cbv zeta. destruct (id_shaped (strip a)) eqn:E.
  - apply id_shaped_spec in E. tauto.
  - assert (~ id_shape (strip a)) by (intro H; apply id_shaped_spec in H; congruence). tauto.
Qed.
(* identifiers that are not a fingerprint / key id written in groups are taken literally ... *)
Lemma unspaced_literal a : ~ id_shape (strip a) -> unspaced a = a.
Proof.
  intros H. unfold unspaced. cbv zeta. destruct (id_shaped (strip a)) eqn:E; [|reflexivity].
  apply id_shaped_spec in E. contradiction.
Qed.
Lemma selects_literal i a : ~ id_shape (strip a) -> (selects i a <-> carries i a).
Proof. unfold selects. tauto. Qed.
(* ... and a fingerprint / key id / short id of hexadecimal digits is found however it is grouped *)
Lemma selects_grouped i a : carries i (strip a) -> id_shape (strip a) -> selects i a.
Proof. unfold selects. tauto. Qed.
(* what the old rule accepted and the new one does not: only space-free forms that are not id-shaped *)
Lemma selects_implies_old i a : selects i a -> selects_old i a.
Proof. unfold selects, selects_old. tauto. Qed.

Lemma NoDup_snoc {A} (l : list A) x : NoDup l -> ~ In x l -> NoDup (l ++ [x]).
Proof.
  induction l as [|y r IH]; cbn; intros Hnd Hni.
  - constructor; [intros []|constructor].
  - inversion Hnd; subst. constructor.
    + rewrite in_app_iff. cbn. intros [H|[H|[]]]; [contradiction|]. apply Hni. left. symmetry. exact H.
    + apply IH; [assumption|]. intro H. apply Hni. right. exact H.
Qed.

Lemma in_abs_nonempty (ls : layers) p : In p (abs ls) -> ls <> [].
Proof. intros H E. subst. exact H. Qed.

(* ------------------------------------------------------------------------------------------------ *)
(* Part A: one layer, pids, place, sort_alias, add_alias                                             *)
(* ------------------------------------------------------------------------------------------------ *)
Lemma in_lremove a l p : In p (lremove a l) <-> In p l /\ fst p <> a.
Proof.
  unfold lremove. rewrite filter_In. split; intros [H1 H2]; split; auto.
  - apply negb_true_iff in H2. destruct (aeqb_spec a (fst p)); [discriminate|]. intro E. apply n. symmetry. exact E.
  - apply negb_true_iff. destruct (aeqb_spec a (fst p)); [|reflexivity]. exfalso. apply H2. symmetry. exact e.
Qed.

Lemma in_lset a k l p : In p (lset a k l) <-> p = (a, k) \/ (In p l /\ fst p <> a).
Proof.
  unfold lset. rewrite in_app_iff, in_lremove. cbn [In]. split.
  - intros [H|[H|[]]]; [right; exact H|left; symmetry; exact H].
  - intros [H|H]; [right; left; symmetry; exact H|left; exact H].
Qed.

Lemma lookup_in a l k : lookup a l = Some k -> In (a, k) l.
Proof.
  induction l as [|[b k'] r IH]; cbn; [discriminate|].
  destruct (aeqb_spec a b); [intros [= <-]; subst; auto | auto].
Qed.

Lemma in_lookup a l k : layer_ok l -> In (a, k) l -> lookup a l = Some k.
Proof.
  unfold layer_ok. induction l as [|[b k'] r IH]; cbn; [tauto|].
  intros Hnd [H|H].
  - injection H as -> ->. rewrite aeqb_refl. reflexivity.
  - inversion Hnd as [|? ? Hni Hnd']; subst.
    destruct (aeqb_spec a b) as [->|]; [|auto].
    exfalso. apply Hni. apply in_map_iff. exists (b, k). auto.
Qed.

Lemma lookup_none_notin a l : lookup a l = None -> ~ In a (map fst l).
Proof.
  induction l as [|[b k] r IH]; cbn; [auto|]. destruct (aeqb_spec a b); [discriminate|].
  intros H [E|E]; [congruence|apply IH; assumption].
Qed.

Lemma in_pids_abs a ls k : In k (pids a ls) -> In (a, k) (abs ls).
Proof.
  unfold pids, abs. rewrite in_flat_map, in_concat. intros [l [Hl Hk]]. exists l. split; auto.
  destruct (lookup a l) eqn:E; [|contradiction]. destruct Hk as [<-|[]]. apply lookup_in; auto.
Qed.

Lemma in_pids a ls k : Inv ls -> (In k (pids a ls) <-> In (a, k) (abs ls)).
Proof.
  intros HI. split; [apply in_pids_abs|].
  unfold pids, abs, Inv in *. rewrite in_flat_map, in_concat.
  intros [l [Hl Hk]]. exists l. split; auto.
  rewrite Forall_forall in HI. rewrite (in_lookup a l k (HI l Hl) Hk). left; reflexivity.
Qed.

Lemma pids_length a ls : (length (pids a ls) <= length ls)%nat.
Proof.
  unfold pids. induction ls as [|l r IH]; cbn; [lia|].
  rewrite app_length. destruct (lookup a l); cbn; lia.
Qed.

Lemma contains_true_in a ls : contains a ls = true -> exists k, In (a, k) (abs ls).
Proof.
  unfold contains. destruct (pids a ls) as [|k r] eqn:E; [discriminate|]. intros _.
  exists k. apply in_pids_abs. rewrite E. left. reflexivity.
Qed.

Lemma contains_false a ls : Inv ls -> contains a ls = false -> forall q, In q (abs ls) -> fst q <> a.
Proof.
  intros HI Hc [b k] Hq E. cbn in E. subst b. unfold contains in Hc.
  apply (in_pids a ls k HI) in Hq. destruct (pids a ls); [contradiction|discriminate].
Qed.

Lemma containsS_false a ls : containsS a ls = false -> contains a ls = false /\ contains (unspaced a) ls = false.
Proof. unfold containsS. apply orb_false_iff. Qed.

(* placing ks (no more than there are layers) into layers that no longer mention a *)
Lemma in_abs_place a : forall ks ls p,
  (length ks <= length ls)%nat ->
  (forall l, In l ls -> forall q, In q l -> fst q <> a) ->
  (In p (abs (place a ks ls)) <-> (exists k, In k ks /\ p = (a, k)) \/ In p (abs ls)).
Proof.
  induction ks as [|k ks IH]; intros ls p Hlen Hno.
  - cbn. destruct ls; cbn; split; auto; intros [[k [[] _]]|H]; auto.
  - destruct ls as [|l ls]; [cbn in Hlen; lia|].
    cbn [place]. unfold abs in *. cbn [concat]. rewrite !in_app_iff.
    rewrite IH; [| cbn in Hlen; lia | intros l' Hl'; apply Hno; right; exact Hl'].
    rewrite in_lset.
    split.
    + intros [[H|[H _]]|[[k' [Hk' ->]]|H]].
      * left. exists k. split; [left; reflexivity|exact H].
      * right. left. exact H.
      * left. exists k'. split; [right; exact Hk'|reflexivity].
      * right. right. exact H.
    + intros [[k' [[<-|Hk'] ->]]|[H|H]].
      * left. left. reflexivity.
      * right. left. exists k'. auto.
      * left. right. split; [exact H|]. apply (Hno l); [left; reflexivity|exact H].
      * right. right. exact H.
Qed.

Lemma in_abs_filter_nonempty ls p : In p (abs (filter nonempty ls)) <-> In p (abs ls).
Proof.
  unfold abs. rewrite !in_concat. split; intros [l [Hl Hp]]; exists l; split; auto.
  - apply filter_In in Hl. tauto.
  - apply filter_In. split; auto. destruct l; [contradiction|reflexivity].
Qed.

Lemma in_abs_map_filter (f : alias * pkid -> bool) ls p : In p (abs (map (filter f) ls)) <-> In p (abs ls) /\ f p = true.
Proof.
  unfold abs. rewrite !in_concat. split.
  - intros [l [Hl Hp]]. apply in_map_iff in Hl as [l0 [<- Hl0]]. apply filter_In in Hp as [Hp Hf].
    split; [exists l0; auto|exact Hf].
  - intros [[l [Hl Hp]] Hf]. exists (filter f l). split; [apply in_map; exact Hl|apply filter_In; auto].
Qed.

Lemma in_abs_map_lremove a ls p : In p (abs (map (lremove a) ls)) <-> In p (abs ls) /\ fst p <> a.
Proof.
  unfold abs. rewrite !in_concat. split.
  - intros [l [Hl Hp]]. apply in_map_iff in Hl as [l0 [<- Hl0]]. apply in_lremove in Hp as [Hp Hne].
    split; [exists l0; auto|exact Hne].
  - intros [[l [Hl Hp]] Hne]. exists (lremove a l). split; [apply in_map; exact Hl|apply in_lremove; auto].
Qed.

Lemma filter_ok (f : alias * pkid -> bool) l : layer_ok l -> layer_ok (filter f l).
Proof.
  unfold layer_ok. induction l as [|[b k] r IH]; cbn; [auto|].
  intros H. inversion H as [|? ? Hni Hnd]; subst. destruct (f (b, k)); cbn; [|auto].
  constructor; [|auto]. intro Hin. apply Hni. apply in_map_iff in Hin as [q [Hq Hin]].
  apply filter_In in Hin as [Hin _]. apply in_map_iff. exists q. auto.
Qed.
Lemma lremove_ok a l : layer_ok l -> layer_ok (lremove a l).
Proof. apply filter_ok. Qed.
Lemma lremove_no a l : ~ In a (map fst (lremove a l)).
Proof. intro H. apply in_map_iff in H as [q [Hq Hin]]. apply in_lremove in Hin. tauto. Qed.
Lemma snoc_ok a k l : layer_ok l -> ~ In a (map fst l) -> layer_ok (l ++ [(a, k)]).
Proof. unfold layer_ok. intros H Hn. rewrite map_app. cbn. apply NoDup_snoc; assumption. Qed.
Lemma lset_ok a k l : layer_ok l -> layer_ok (lset a k l).
Proof. intros H. unfold lset. apply snoc_ok; [apply lremove_ok; exact H|apply lremove_no]. Qed.

Lemma place_ok a : forall ks ls, Inv ls -> Inv (place a ks ls).
Proof.
  induction ks as [|k ks IH]; intros ls H; [destruct ls; exact H|].
  destruct ls as [|l ls]; [exact H|]. cbn [place]. inversion H; subst.
  constructor; [apply lset_ok; assumption|apply IH; assumption].
Qed.

Lemma map_filter_ok (f : alias * pkid -> bool) ls : Inv ls -> Inv (map (filter f) ls).
Proof.
  unfold Inv. intros H. apply Forall_forall. intros l Hl. apply in_map_iff in Hl as [l0 [<- Hl0]].
  apply filter_ok. rewrite Forall_forall in H. auto.
Qed.

Section WithSort.
  (* the order used by sorted(...) is irrelevant for the refinement: any permutation will do *)
  Variable sort : list pkid -> list pkid.
  Hypothesis sort_perm : forall l, Permutation l (sort l).

  (* the key lemma: re-sorting one alias neither loses nor invents an (alias, key) pair *)
  Theorem sort_alias_preserves_pairs a ls p :
    Inv ls -> (In p (abs (sort_alias sort a ls)) <-> In p (abs ls)).
  Proof.
    intros HI. unfold sort_alias. rewrite in_abs_filter_nonempty.
    rewrite in_abs_place.
    - rewrite in_abs_map_lremove. split.
      + intros [[k [Hk ->]]|[H _]]; [|exact H].
        apply (Permutation_in _ (Permutation_sym (sort_perm _))) in Hk. apply in_pids in Hk; assumption.
      + intros H. destruct p as [b k]. destruct (alias_eq_dec b a) as [->|Hne].
        * left. exists k. split; [|reflexivity].
          apply (Permutation_in _ (sort_perm _)). apply in_pids; assumption.
        * right. split; [exact H|exact Hne].
    - rewrite map_length. rewrite <- (Permutation_length (sort_perm _)). apply pids_length.
    - intros l Hl q Hq. apply in_map_iff in Hl as [l0 [<- _]]. apply in_lremove in Hq. tauto.
  Qed.

  Lemma sort_alias_ok a ls : Inv ls -> Inv (sort_alias sort a ls).
  Proof.
    intros H. unfold sort_alias, Inv. apply Forall_forall. intros l Hl. apply filter_In in Hl as [Hl _].
    revert l Hl. apply Forall_forall. apply place_ok. apply map_filter_ok. exact H.
  Qed.

  (* _sort_alias never leaves an empty dict behind *)
  Lemma sort_alias_no_empty_layer a ls : Forall (fun l => l <> []) (sort_alias sort a ls).
  Proof.
    unfold sort_alias. apply Forall_forall. intros l Hl. apply filter_In in Hl as [_ Hl]. destruct l; [discriminate|discriminate].
  Qed.

  Lemma ins_spec a k : forall ls ls', Inv ls -> ins a k ls = Some ls' ->
    Inv ls' /\ forall p, In p (abs ls') <-> p = (a, k) \/ In p (abs ls).
  Proof.
    induction ls as [|l r IH]; intros ls' HI; cbn [ins]; [discriminate|].
    inversion HI as [|? ? Hl Hr]; subst.
    destruct (lookup a l) as [k0|] eqn:E.
    - destruct (ins a k r) as [r'|] eqn:Er; [|discriminate]. cbn. intros [= <-].
      destruct (IH r' Hr eq_refl) as [HI' Hp]. split; [constructor; assumption|].
      intros p. unfold abs in *. cbn [concat]. rewrite !in_app_iff, Hp. tauto.
    - intros [= <-]. split.
      + constructor; [|assumption]. apply snoc_ok; [exact Hl|apply lookup_none_notin; exact E].
      + intros p. unfold abs. cbn [concat]. rewrite !in_app_iff. cbn [In]. intuition congruence.
  Qed.

  Lemma insert_free_spec a k ls : Inv ls ->
    Inv (insert_free a k ls) /\ forall p, In p (abs (insert_free a k ls)) <-> p = (a, k) \/ In p (abs ls).
  Proof.
    intros HI. unfold insert_free. destruct (ins a k ls) as [x|] eqn:E.
    - apply (ins_spec a k ls x HI E).
    - split.
      + constructor; [|exact HI]. unfold layer_ok. cbn. constructor; [intros []|constructor].
      + intros p. unfold abs. cbn. intuition congruence.
  Qed.

  Lemma set_last_spec a k : forall ls, Inv ls -> (forall q, In q (abs ls) -> fst q <> a) ->
    Inv (set_last a k ls) /\ forall p, In p (abs (set_last a k ls)) <-> p = (a, k) \/ In p (abs ls).
  Proof.
    induction ls as [|l r IH]; intros HI Hno.
    - cbn. split; [constructor; [unfold layer_ok; cbn; constructor; [intros []|constructor]|constructor]|]. intros p. intuition congruence.
    - inversion HI as [|? ? Hl Hr]; subst. destruct r as [|l2 r2].
      + cbn [set_last]. split; [constructor; [apply lset_ok; exact Hl|constructor]|].
        intros p. unfold abs. cbn [concat]. rewrite !app_nil_r. rewrite in_lset.
        split; [intros [H|[H _]]; auto|]. intros [H|H]; [left; exact H|].
        right. split; [exact H|]. apply Hno. unfold abs. cbn. rewrite app_nil_r. exact H.
      + change (set_last a k (l :: l2 :: r2)) with (l :: set_last a k (l2 :: r2)).
        destruct (IH Hr) as [HI' Hp].
        { intros q Hq. apply Hno. unfold abs in *. cbn [concat] in *. rewrite in_app_iff. right. exact Hq. }
        split; [constructor; assumption|]. intros p. unfold abs in *. cbn [concat] in *.
        rewrite in_app_iff. rewrite Hp. rewrite !in_app_iff. tauto.
  Qed.

  (* refinement step: _add_alias adds exactly the pair (alias, key) *)
  Theorem add_alias_refines a k ls : Inv ls ->
    Inv (add_alias sort a k ls) /\ forall p, In p (abs (add_alias sort a k ls)) <-> p = (a, k) \/ In p (abs ls).
  Proof.
    intros HI. unfold add_alias, add_alias_with. destruct (containsS a ls) eqn:Ec; cbn [negb].
    - destruct (existsb (Z.eqb k) (pids a ls)) eqn:Ee.
      + split; [exact HI|]. intros p. split; [auto|]. intros [->|H]; [|exact H].
        apply existsb_exists in Ee as [k' [Hk' Hkk]]. apply Z.eqb_eq in Hkk. subst k'. apply in_pids; assumption.
      + destruct (insert_free_spec a k ls HI) as [HI' Hp]. split; [apply sort_alias_ok; exact HI'|].
        intros p. rewrite sort_alias_preserves_pairs by exact HI'. apply Hp.
    - apply set_last_spec; [exact HI|]. apply contains_false; [assumption|]. apply containsS_false in Ec. tauto.
  Qed.

  (* ---------------------------------------------------------------------------------------------- *)
  (* Part B: add_key / unload on states, invariant, reachable states                                  *)
  (* ---------------------------------------------------------------------------------------------- *)
  Lemma add_aliases_spec k : forall als ls, Inv ls ->
    let r := fold_left (fun ls a => add_alias sort a k ls) als ls in
    Inv r /\ forall p, In p (abs r) <-> In p (abs ls) \/ (snd p = k /\ In (fst p) als).
  Proof.
    induction als as [|a als IH]; intros ls HI; cbn.
    - split; [exact HI|]. intros p. tauto.
    - destruct (add_alias_refines a k ls HI) as [HI1 Hp1].
      destruct (IH _ HI1) as [HI2 Hp2]. split; [exact HI2|].
      intros p. rewrite Hp2, Hp1. destruct p as [b k']. cbn. split.
      + intros [[H|H]|[H1 H2]]; auto. injection H as -> ->. auto.
      + intros [H|[H1 [H2|H2]]]; auto. subst. auto.
  Qed.

  (* one removal step of unload *)
  Lemma unstep_spec k a ls : Inv ls ->
    Inv (unstep sort k ls a) /\ forall p, In p (abs (unstep sort k ls a)) <-> In p (abs ls) /\ p <> (a, k).
  Proof.
    intros HI. unfold unstep, unstep_with.
    match goal with |- context [map (filter ?g) ls] => set (f := g) end.
    assert (Hf : forall p, f p = true <-> p <> (a, k)).
    { intros [b k']. unfold f. cbn. rewrite negb_true_iff, andb_false_iff. split.
      - intros [H|H] E; injection E as -> ->; [rewrite aeqb_refl in H|rewrite Z.eqb_refl in H]; discriminate.
      - intros H. destruct (aeqb_spec a b) as [->|]; [|auto]. right. apply Z.eqb_neq. intro. subst. apply H. reflexivity. }
    assert (HI1 : Inv (map (filter f) ls)) by (apply map_filter_ok; exact HI).
    destruct (containsS a (map (filter f) ls)).
    - split; [apply sort_alias_ok; exact HI1|]. intros p. rewrite sort_alias_preserves_pairs by exact HI1.
      rewrite in_abs_map_filter, Hf. tauto.
    - split; [exact HI1|]. intros p. rewrite in_abs_map_filter, Hf. tauto.
  Qed.

  Lemma unsteps_spec k : forall als ls, Inv ls ->
    let r := fold_left (unstep sort k) als ls in
    Inv r /\ forall p, In p (abs r) <-> In p (abs ls) /\ ~ (snd p = k /\ In (fst p) als).
  Proof.
    induction als as [|a als IH]; intros ls HI; cbn.
    - split; [exact HI|]. intros p. tauto.
    - destruct (unstep_spec k a ls HI) as [HI1 Hp1].
      destruct (IH _ HI1) as [HI2 Hp2]. split; [exact HI2|].
      intros p. rewrite Hp2, Hp1. destruct p as [b k']. cbn. split.
      + intros [[H1 H2] H3]. split; [exact H1|]. intros [-> [->|H4]]; [apply H2; reflexivity|apply H3; auto].
      + intros [H1 H2]. split; [split; [exact H1|]|]; [intros [= -> ->]; apply H2; auto|intros [-> H4]; apply H2; auto].
  Qed.

  Lemma in_todo k ls a : In a (todo k ls) <-> In (a, k) (abs ls).
  Proof.
    unfold todo, abs. rewrite in_flat_map, in_concat. split.
    - intros [l [Hl Ha]]. exists l. split; [exact Hl|]. apply in_map_iff in Ha as [[b k'] [Hb Hin]].
      apply filter_In in Hin as [Hin Hk]. cbn in *. apply Z.eqb_eq in Hk. subst. exact Hin.
    - intros [l [Hl Ha]]. exists l. split; [exact Hl|]. apply in_map_iff. exists (a, k). split; [reflexivity|].
      apply filter_In. split; [exact Ha|]. cbn. apply Z.eqb_refl.
  Qed.

  (* all of unload's alias work: exactly the pairs of that key object disappear *)
  Lemma unload_layers_spec k ls : Inv ls ->
    let r := fold_left (unstep sort k) (todo k ls) ls in
    Inv r /\ forall p, In p (abs r) <-> In p (abs ls) /\ snd p <> k.
  Proof.
    intros HI. destruct (unsteps_spec k (todo k ls) ls HI) as [H1 H2]. split; [exact H1|].
    intros p. rewrite H2. destruct p as [b k']. cbn. split.
    - intros [Ha Hb]. split; [exact Ha|]. intros ->. apply Hb. split; [reflexivity|]. apply in_todo. exact Ha.
    - intros [Ha Hb]. split; [exact Ha|]. intros [E _]. contradiction.
  Qed.

  (* non-emptiness of the deque *)
  Lemma add_alias_nonempty a k ls : Inv ls -> add_alias sort a k ls <> [].
  Proof.
    intros HI. apply (in_abs_nonempty _ (a, k)). apply (add_alias_refines a k ls HI). left. reflexivity.
  Qed.
  Lemma add_aliases_nonempty k : forall als ls, Inv ls -> ls <> [] -> fold_left (fun ls a => add_alias sort a k ls) als ls <> [].
  Proof.
    induction als as [|a als IH]; intros ls HI Hne; cbn; [exact Hne|].
    apply IH; [apply add_alias_refines; exact HI|apply add_alias_nonempty; exact HI].
  Qed.
  Lemma unstep_nonempty k a ls : Inv ls -> ls <> [] -> unstep sort k ls a <> [].
  Proof.
    intros HI Hne. unfold unstep, unstep_with.
    match goal with |- context [map (filter ?g) ls] => set (s1 := map (filter g) ls) end.
    assert (HI1 : Inv s1) by (apply map_filter_ok; exact HI).
    destruct (containsS a s1) eqn:E.
    - unfold containsS in E. apply orb_true_iff in E. destruct E as [E|E]; apply contains_true_in in E as [k' Hk'];
        eapply in_abs_nonempty; apply sort_alias_preserves_pairs; eauto.
    - unfold s1. destruct ls; [congruence|discriminate].
  Qed.
  Lemma unsteps_nonempty k : forall als ls, Inv ls -> ls <> [] -> fold_left (unstep sort k) als ls <> [].
  Proof.
    induction als as [|a als IH]; intros ls HI Hne; cbn; [exact Hne|].
    apply IH; [apply unstep_spec; exact HI|apply unstep_nonempty; assumption].
  Qed.

  (* ---- the pairs a list of key objects stands for ---- *)
  Definition pairs_of (ks : list kinfo) : list (alias * pkid) :=
    flat_map (fun i => map (fun a => (a, kid i)) (aliases_of i)) ks.

  Lemma in_pairs_of ks p : In p (pairs_of ks) <-> exists i, In i ks /\ kid i = snd p /\ In (fst p) (aliases_of i).
  Proof.
    unfold pairs_of. rewrite in_flat_map. split.
    - intros [i [Hi Hp]]. exists i. split; [exact Hi|]. apply in_map_iff in Hp as [a [<- Ha]]. cbn. auto.
    - intros [i [Hi [Hk Ha]]]. exists i. split; [exact Hi|]. apply in_map_iff. exists (fst p). split; [|exact Ha].
      destruct p; cbn in *. congruence.
  Qed.

  Lemma in_uid_aliases u a : In a (uid_aliases u) <-> a = u_name u \/ (a = u_comment u /\ a <> []) \/ (a = u_email u /\ a <> []).
  Proof.
    unfold uid_aliases. cbn [In]. rewrite in_app_iff.
    destruct (u_comment u) as [|c cr] eqn:Ec; destruct (u_email u) as [|e er] eqn:Ee; cbn; split; intros H;
      repeat match goal with
             | H : _ \/ _ |- _ => destruct H
             | H : _ /\ _ |- _ => destruct H
             | H : False |- _ => contradiction
             end; subst; auto; try congruence;
      try (right; left; split; [reflexivity|discriminate]); try (right; right; split; [reflexivity|discriminate]).
  Qed.

  Lemma in_aliases_of i a : In a (aliases_of i) <-> carries i a.
  Proof.
    unfold aliases_of, carries. cbn [In]. rewrite in_flat_map. split.
    - intros [H|[H|[H|[u [Hu Ha]]]]]; auto. right. right. right. exists u. split; [exact Hu|]. apply in_uid_aliases. exact Ha.
    - intros [H|[H|[H|[u [Hu Ha]]]]]; auto. right. right. right. exists u. split; [exact Hu|]. apply in_uid_aliases. exact Ha.
  Qed.

  Lemma pairs_of_spec ks p : In p (pairs_of ks) <-> spec_pairs ks p.
  Proof.
    rewrite in_pairs_of. unfold spec_pairs. split; intros [i [H1 [H2 H3]]]; exists i; repeat split; auto; apply in_aliases_of; exact H3.
  Qed.

  (* ---- state invariant ---- *)
  Definition SInv (s : state) : Prop :=
    Inv (lays s) /\ (forall p, In p (abs (lays s)) <-> In p (pairs_of (keys s))) /\ NoDup (map kid (keys s)) /\ lays s <> [].

  Lemma has_key_true k ks : has_key k ks = true <-> In k (map kid ks).
  Proof.
    unfold has_key. rewrite existsb_exists, in_map_iff. split; intros [i [H1 H2]]; exists i.
    - apply Z.eqb_eq in H2. auto.
    - split; [tauto|]. apply Z.eqb_eq. tauto.
  Qed.
  Lemma has_key_false k ks : has_key k ks = false <-> ~ In k (map kid ks).
  Proof. rewrite <- has_key_true. destruct (has_key k ks); split; congruence. Qed.

  Lemma init_SInv : SInv init.
  Proof.
    unfold SInv, init. cbn. repeat split; try tauto.
    - constructor; [constructor|constructor].
    - constructor.
    - discriminate.
  Qed.

  Lemma add_one_SInv s i : SInv s -> SInv (add_one sort s i).
  Proof.
    intros (HI & Hp & Hnd & Hne). unfold add_one, add_one_with. destruct (has_key (kid i) (keys s)) eqn:E.
    - repeat split; auto; apply Hp.
    - destruct (add_aliases_spec (kid i) (aliases_of i) (lays s) HI) as [HI' Hp'].
      unfold SInv. cbn [keys lays]. split; [exact HI'|]. split; [|split].
      + intros p. rewrite Hp'. unfold pairs_of. rewrite flat_map_app, in_app_iff. cbn [flat_map]. rewrite app_nil_r.
        rewrite in_map_iff. fold (pairs_of (keys s)). rewrite Hp. split.
        * intros [H|[H1 H2]]; [left; exact H|]. right. exists (fst p). split; [|exact H2]. destruct p; cbn in *; congruence.
        * intros [H|[a [<- Ha]]]; [left; exact H|]. right. cbn. auto.
      + rewrite map_app. cbn. apply NoDup_snoc; [exact Hnd|]. apply has_key_false. exact E.
      + apply add_aliases_nonempty; assumption.
  Qed.

  Lemma add_ones_SInv : forall subs s, SInv s -> SInv (fold_left (add_one sort) subs s).
  Proof. induction subs as [|j r IH]; intros s H; cbn; [exact H|]. apply IH. apply add_one_SInv. exact H. Qed.

  Lemma add_key_SInv s k : SInv s -> SInv (add_key sort s k).
  Proof.
    intros H. unfold add_key, add_key_with.
    apply add_ones_SInv. apply add_one_SInv. exact H.
  Qed.

  Lemma NoDup_map_filter {A B} (f : A -> B) (g : A -> bool) l : NoDup (map f l) -> NoDup (map f (filter g l)).
  Proof.
    induction l as [|x r IH]; cbn; [auto|]. intros H. inversion H; subst. destruct (g x); cbn; [|auto].
    constructor; [|auto]. intro Hin. apply H2. apply in_map_iff in Hin as [y [Hy Hin]]. apply filter_In in Hin as [Hin _].
    apply in_map_iff. exists y. auto.
  Qed.

  Lemma unload_one_SInv s i : SInv s -> SInv (unload_one sort s i).
  Proof.
    intros (HI & Hp & Hnd & Hne). unfold unload_one, unload_one_with. destruct (has_key (kid i) (keys s)) eqn:E.
    - destruct (unload_layers_spec (kid i) (lays s) HI) as [HI' Hp'].
      unfold SInv. cbn [keys lays]. split; [exact HI'|]. split; [|split].
      + intros p. rewrite Hp', Hp, !in_pairs_of. split.
        * intros [[j [Hj [Hk Ha]]] Hne']. exists j. split; [|auto]. apply filter_In. split; [exact Hj|].
          apply negb_true_iff. apply Z.eqb_neq. congruence.
        * intros [j [Hj [Hk Ha]]]. apply filter_In in Hj as [Hj Hf]. apply negb_true_iff in Hf. apply Z.eqb_neq in Hf.
          split; [exists j; auto|congruence].
      + apply NoDup_map_filter. exact Hnd.
      + apply unsteps_nonempty; assumption.
    - repeat split; auto; apply Hp.
  Qed.

  Lemma unload_ones_SInv : forall subs s, SInv s -> SInv (fold_left (unload_one sort) subs s).
  Proof. induction subs as [|j r IH]; intros s H; cbn; [exact H|]. apply IH. apply unload_one_SInv. exact H. Qed.

  Lemma unload_SInv s k : SInv s -> SInv (unload sort s k).
  Proof.
    intros H. unfold unload, unload_with. destruct (has_key (kid (fst k)) (keys s)); [|exact H].
    destruct (kprimary (fst k)); [apply unload_ones_SInv|]; apply unload_one_SInv; exact H.
  Qed.

  Lemma step_SInv s o : SInv s -> SInv (step sort s o).
  Proof. destruct o; cbn; [apply add_key_SInv|apply unload_SInv]. Qed.

  Lemma fold_SInv : forall ops s, SInv s -> SInv (fold_left (step sort) ops s).
  Proof. induction ops as [|o r IH]; intros s H; cbn; [exact H|]. apply IH. apply step_SInv. exact H. Qed.

  Theorem run_SInv ops : SInv (run sort ops).
  Proof. unfold run. apply fold_SInv. apply init_SInv. Qed.

  (* ---- the key table follows the specification's notion of "loaded" exactly ---- *)
  Lemma keys_add_one s i : keys (add_one sort s i) = add_new (keys s) i.
  Proof. unfold add_one, add_one_with, add_new, is_loaded, has_key. destruct (existsb _ (keys s)); reflexivity. Qed.

  Lemma keys_add_ones : forall subs s, keys (fold_left (add_one sort) subs s) = fold_left add_new subs (keys s).
  Proof. induction subs as [|j r IH]; intros s; cbn; [reflexivity|]. rewrite IH, keys_add_one. reflexivity. Qed.

  Lemma drop_not_loaded k S : is_loaded k S = false -> drop k S = S.
  Proof.
    unfold is_loaded, drop. induction S as [|j r IH]; cbn; [reflexivity|]. intros H. apply orb_false_iff in H as [H1 H2].
    rewrite H1. cbn. rewrite IH by exact H2. reflexivity.
  Qed.

  Lemma keys_unload_one s i : keys (unload_one sort s i) = drop (kid i) (keys s).
  Proof.
    unfold unload_one, unload_one_with. destruct (has_key (kid i) (keys s)) eqn:E; [reflexivity|].
    symmetry. apply drop_not_loaded. exact E.
  Qed.

  Lemma keys_unload_ones : forall subs s,
    keys (fold_left (unload_one sort) subs s) = fold_left (fun S j => drop (kid j) S) subs (keys s).
  Proof. induction subs as [|j r IH]; intros s; cbn; [reflexivity|]. rewrite IH, keys_unload_one. reflexivity. Qed.

  Lemma keys_step s o : keys (step sort s o) = spec_step (keys s) o.
  Proof.
    destruct o as [[i subs]|[i subs]]; cbn [step spec_step].
    - unfold add_key, add_key_with. cbn [fst snd].
      fold (add_one sort). rewrite keys_add_ones, keys_add_one. reflexivity.
    - unfold unload, unload_with. cbn [fst snd]. change (has_key (kid i) (keys s)) with (is_loaded (kid i) (keys s)).
      fold (unload_one sort).
      destruct (is_loaded (kid i) (keys s)) eqn:E; [|reflexivity].
      destruct (kprimary i); [rewrite keys_unload_ones|]; rewrite keys_unload_one; reflexivity.
  Qed.

  Theorem keys_reachable ops : keys (run sort ops) = loaded_after ops.
  Proof.
    unfold run, loaded_after. change (@nil kinfo) with (keys init). generalize init.
    induction ops as [|o r IH]; intros s; cbn; [reflexivity|]. rewrite IH, keys_step. reflexivity.
  Qed.

  (* ---- the refinement, for every reachable state ---- *)
  Theorem abs_reachable ops p : In p (abs (lays (run sort ops))) <-> spec_pairs (loaded_after ops) p.
  Proof.
    destruct (run_SInv ops) as (_ & Hp & _ & _). rewrite Hp, pairs_of_spec, keys_reachable. reflexivity.
  Qed.

  Theorem inv_reachable ops : Inv (lays (run sort ops)).
  Proof. apply run_SInv. Qed.

  Theorem layers_never_empty ops : lays (run sort ops) <> [].
  Proof. apply run_SInv. Qed.

  (* single steps, stated on the abstraction (the form DESIGN.md names) *)
  Theorem abs_add_key s k p : SInv s ->
    (In p (abs (lays (add_key sort s k))) <-> spec_pairs (spec_step (keys s) (Load k)) p).
  Proof.
    intros H. destruct (add_key_SInv s k H) as (_ & Hp & _ & _). rewrite Hp, pairs_of_spec.
    change (add_key sort s k) with (step sort s (Load k)). rewrite keys_step. reflexivity.
  Qed.
  Theorem abs_unload s k p : SInv s ->
    (In p (abs (lays (unload sort s k))) <-> spec_pairs (spec_step (keys s) (Unload k)) p).
  Proof.
    intros H. destruct (unload_SInv s k H) as (_ & Hp & _ & _). rewrite Hp, pairs_of_spec.
    change (unload sort s k) with (step sort s (Unload k)). rewrite keys_step. reflexivity.
  Qed.
End WithSort.
