(* C19 -- corollaries of the refinement: membership, selection, fingerprints, len; the refutation of the pre-repair
   _add_alias; histories over whole keys. *)
From Coq Require Import ZArith List Bool Lia Permutation.
Import ListNotations.
Require Import PV.Lib.Bytes PV.Lib.BytesLemmas PV.Model.Keyring PV.Spec.Keyring_spec PV.Proofs.Keyring_lemmas.
Open Scope Z_scope.

Lemma pids_cons a l r : pids a (l :: r) = (match lookup a l with Some k => [k] | None => [] end) ++ pids a r.
Proof. reflexivity. Qed.
Lemma contains_cons a l r : contains a (l :: r) = (match lookup a l with Some _ => true | None => false end) || contains a r.
Proof. unfold contains. rewrite pids_cons. destruct (lookup a l); reflexivity. Qed.

(* _get_key raises KeyError exactly when __contains__ says no *)
Lemma get_none_iff a ls : get a ls = None <-> containsS a ls = false.
Proof.
  induction ls as [|l r IH]; [cbn; tauto|].
  cbn [get]. unfold containsS in *. rewrite !contains_cons.
  destruct (lookup a l); destruct (lookup (unspaced a) l); cbn; rewrite ?orb_true_r; try (split; discriminate).
  exact IH.
Qed.

Lemma get_in a ls k : get a ls = Some k -> In (a, k) (abs ls) \/ In (unspaced a, k) (abs ls).
Proof.
  induction ls as [|l r IH]; [discriminate|]. cbn [get]. unfold abs in *. cbn [concat]. rewrite !in_app_iff.
  destruct (lookup a l) eqn:E1.
  - intros [= ->]. left. left. apply lookup_in. exact E1.
  - destruct (lookup (unspaced a) l) eqn:E2.
    + intros [= ->]. right. left. apply lookup_in. exact E2.
    + intros H. destruct (IH H); tauto.
Qed.

Lemma contains_iff_pairs a ls : Inv ls -> (contains a ls = true <-> exists k, In (a, k) (abs ls)).
Proof.
  intros HI. split; [apply contains_true_in|]. intros [k Hk]. apply in_pids in Hk; [|exact HI].
  unfold contains. destruct (pids a ls); [contradiction|reflexivity].
Qed.

Lemma kid_inj ks i j : NoDup (map kid ks) -> In i ks -> In j ks -> kid i = kid j -> i = j.
Proof.
  induction ks as [|x r IH]; cbn; [tauto|]. intros Hnd Hi Hj E. inversion Hnd as [|? ? Hni Hnd']; subst.
  destruct Hi as [->|Hi]; destruct Hj as [->|Hj]; auto.
  - exfalso. apply Hni. rewrite E. apply in_map. exact Hj.
  - exfalso. apply Hni. rewrite <- E. apply in_map. exact Hi.
Qed.

Lemma find_key_some k ks i : find_key k ks = Some i -> In i ks /\ kid i = k.
Proof. unfold find_key. intros H. apply find_some in H as [H1 H2]. apply Z.eqb_eq in H2. auto. Qed.
Lemma find_key_exists ks j : In j ks -> exists i, find_key (kid j) ks = Some i.
Proof.
  intros Hj. unfold find_key. destruct (find (fun i => kid i =? kid j) ks) eqn:E; [eauto|].
  exfalso. pose proof (find_none _ _ E j Hj) as H. cbn in H. rewrite Z.eqb_refl in H. discriminate.
Qed.

Section WithSort.
  Variable sort : list pkid -> list pkid.
  Hypothesis sort_perm : forall l, Permutation l (sort l).

  Lemma pair_to_key s a k : SInv s -> In (a, k) (abs (lays s)) -> exists i, In i (keys s) /\ kid i = k /\ carries i a.
  Proof.
    intros (_ & Hp & _ & _) H. apply Hp in H. apply in_pairs_of in H as [i [H1 [H2 H3]]]. exists i. cbn in *.
    repeat split; auto. apply in_aliases_of. exact H3.
  Qed.
  Lemma key_to_pair s i a : SInv s -> In i (keys s) -> carries i a -> In (a, kid i) (abs (lays s)).
  Proof.
    intros (_ & Hp & _ & _) H1 H2. apply Hp. apply in_pairs_of. exists i. cbn. repeat split; auto. apply in_aliases_of. exact H2.
  Qed.

  Lemma contains_iff_s s a : SInv s -> (containsS a (lays s) = true <-> exists i, In i (keys s) /\ selects i a).
  Proof.
    intros HS. pose proof HS as (HI & _). unfold containsS. rewrite orb_true_iff, !contains_iff_pairs by exact HI. split.
    - intros [[k Hk]|[k Hk]]; destruct (pair_to_key s _ k HS Hk) as [i [H1 [H2 H3]]]; exists i; split; auto;
        apply selects_unspaced; auto.
    - intros [i [H1 H2]]. apply selects_unspaced in H2. destruct H2 as [H2|H2]; [left|right]; exists (kid i); apply key_to_pair; assumption.
  Qed.

  Lemma get_key_sound_s s a i : SInv s -> get_key s a = Some i -> In i (keys s) /\ selects i a.
  Proof.
    intros HS. unfold get_key. destruct (get a (lays s)) as [k|] eqn:E; [|discriminate]. intros Hf.
    apply find_key_some in Hf as [Hi Hk]. split; [exact Hi|].
    pose proof HS as (_ & _ & Hnd & _).
    destruct (get_in _ _ _ E) as [H|H]; destruct (pair_to_key s _ k HS H) as [j [H1 [H2 H3]]];
      assert (j = i) by (apply (kid_inj (keys s)); auto; congruence); subst j; apply selects_unspaced; [left|right]; exact H3.
  Qed.

  Lemma get_key_total_s s a : SInv s -> containsS a (lays s) = true -> exists i, get_key s a = Some i.
  Proof.
    intros HS Hc. unfold get_key. destruct (get a (lays s)) as [k|] eqn:E.
    - destruct (get_in _ _ _ E) as [H|H]; destruct (pair_to_key s _ k HS H) as [j [H1 [H2 H3]]]; subst k;
        apply find_key_exists; exact H1.
    - apply get_none_iff in E. congruence.
  Qed.

  (* ---- on reachable states ---- *)
  Theorem contains_iff ops a :
    containsS a (lays (run sort ops)) = true <-> exists i, In i (loaded_after ops) /\ selects i a.
  Proof. rewrite <- (keys_reachable sort). apply contains_iff_s. apply run_SInv. exact sort_perm. Qed.

  Theorem get_sound ops a i : get_key (run sort ops) a = Some i -> In i (loaded_after ops) /\ selects i a.
  Proof. rewrite <- (keys_reachable sort). apply get_key_sound_s. apply run_SInv. exact sort_perm. Qed.

  Theorem get_total ops a i : In i (loaded_after ops) -> selects i a ->
    exists j, get_key (run sort ops) a = Some j /\ In j (loaded_after ops) /\ selects j a.
  Proof.
    intros H1 H2. destruct (get_key_total_s (run sort ops) a) as [j Hj].
    - apply run_SInv. exact sort_perm.
    - apply contains_iff. eauto.
    - exists j. split; [exact Hj|]. apply get_sound. exact Hj.
  Qed.

  Theorem unloaded_selects_nothing ops a : (forall i, In i (loaded_after ops) -> ~ selects i a) ->
    containsS a (lays (run sort ops)) = false /\ get_key (run sort ops) a = None.
  Proof.
    intros H. assert (Hc : containsS a (lays (run sort ops)) = false).
    { destruct (containsS a (lays (run sort ops))) eqn:E; [|reflexivity]. apply contains_iff in E as [i [H1 H2]]. exfalso. exact (H i H1 H2). }
    split; [exact Hc|]. unfold get_key. apply get_none_iff in Hc. rewrite Hc. reflexivity.
  Qed.

  (* ---- with keyring.key(message): the first issuer / recipient the keyring knows; KeyError when it knows none ---- *)
  Theorem issuers_sound ops iss j : get_key_issuers (run sort ops) iss = Some j ->
    exists a, In a iss /\ In j (loaded_after ops) /\ selects j a.
  Proof.
    unfold get_key_issuers. destruct (find (fun i => containsS i (lays (run sort ops))) iss) as [a|] eqn:E; [|discriminate].
    intros H. apply find_some in E as [Ha _]. exists a. split; [exact Ha|]. apply get_sound. exact H.
  Qed.

  Theorem issuers_keyerror_iff ops iss :
    get_key_issuers (run sort ops) iss = None <-> forall a i, In a iss -> In i (loaded_after ops) -> ~ selects i a.
  Proof.
    unfold get_key_issuers. destruct (find (fun i => containsS i (lays (run sort ops))) iss) as [a|] eqn:E; split.
    - intros H. exfalso. apply find_some in E as [Ha Hc]. apply contains_iff in Hc as [i [H1 H2]].
      destruct (get_total ops a i H1 H2) as [j [Hj _]]. congruence.
    - intros H. exfalso. apply find_some in E as [Ha Hc]. apply contains_iff in Hc as [i [H1 H2]]. exact (H a i Ha H1 H2).
    - intros _ a i Ha Hi Hs. pose proof (find_none _ _ E a Ha) as Hc. cbn in Hc.
      assert (containsS a (lays (run sort ops)) = true) by (apply contains_iff; eauto). congruence.
    - reflexivity.
  Qed.

  Lemma filter_true {A} (l : list A) : filter (fun _ => true) l = l.
  Proof. induction l; cbn; congruence. Qed.

  Theorem fingerprints_exact ops : fingerprints (run sort ops) None None = map kfp (loaded_after ops).
  Proof. unfold fingerprints. cbn. rewrite filter_true, keys_reachable. reflexivity. Qed.

  Theorem fingerprints_filtered ops half typ f :
    In f (fingerprints (run sort ops) half typ) <->
    exists i, In i (loaded_after ops) /\ kfp i = f /\ sel typ (kprimary i) = true /\ sel half (kpublic i) = true.
  Proof.
    unfold fingerprints. rewrite keys_reachable, in_map_iff. split.
    - intros [i [H1 H2]]. apply filter_In in H2 as [H2 H3]. apply andb_true_iff in H3. exists i. tauto.
    - intros [i [H1 [H2 [H3 H4]]]]. exists i. split; [exact H2|]. apply filter_In. split; [exact H1|]. apply andb_true_iff. auto.
  Qed.

  Theorem len_exact ops : klen (run sort ops) = length (loaded_after ops).
  Proof. unfold klen. rewrite keys_reachable. reflexivity. Qed.

  Theorem loaded_ids_distinct ops : NoDup (map kid (loaded_after ops)).
  Proof. rewrite <- (keys_reachable sort). apply run_SInv. exact sort_perm. Qed.
End WithSort.

(* ------------------------------------------------------------------------------------------------ *)
(* the code before commit 1574c30: a concrete history on which a loaded key loses an identifier       *)
(* ------------------------------------------------------------------------------------------------ *)
Fixpoint insert_sorted (k : pkid) (l : list pkid) : list pkid :=
  match l with [] => [k] | h :: t => if k <=? h then k :: l else h :: insert_sorted k t end.
Definition isort (l : list pkid) : list pkid := fold_right insert_sorted [] l.

Lemma insert_sorted_perm k l : Permutation (k :: l) (insert_sorted k l).
Proof.
  induction l as [|h t IH]; cbn; [reflexivity|]. destruct (k <=? h); [reflexivity|].
  rewrite perm_swap. constructor. exact IH.
Qed.
Lemma isort_perm l : Permutation l (isort l).
Proof.
  induction l as [|h t IH]; cbn; [constructor|]. rewrite <- insert_sorted_perm. constructor. exact IH.
Qed.

Definition step_repo (s : state) (o : op) : state :=
  match o with Load k => add_key_with (add_alias_repo isort) s k | Unload k => unload isort s k end.
Definition run_repo (ops : list op) : state := fold_left step_repo ops init.

Definition name_x : alias := [120].
Definition mkkey (id : Z) (fp : alias) : key :=
  ({| kid := id; kfp := fp; kuids := [{| u_name := name_x; u_comment := []; u_email := [] |}];
      kcreated := id; kpublic := false; kprimary := true; kparentless := true |}, []).
Definition keyA := mkkey 1 [65; 65]. Definition keyB := mkkey 2 [66; 66].
Definition f5_history : list op := [Load keyA; Load keyB; Unload keyA; Load keyA].

(* B is loaded and carries "x", but the old index no longer holds the pair ... *)
Lemma repo_loses_alias :
  spec_pairs (loaded_after f5_history) (name_x, 2) /\ ~ In (name_x, 2) (abs (lays (run_repo f5_history))).
Proof.
  split.
  - exists (fst keyB). split; [vm_compute; auto|]. split; [reflexivity|].
    right. right. right. eexists. split; [left; reflexivity|]. left. reflexivity.
  - vm_compute. intuition congruence.
Qed.
(* ... and one more unload makes "x" unknown although B is still there *)
Lemma repo_loses_alias_observable :
  let ops := f5_history ++ [Unload keyA] in
  In (fst keyB) (loaded_after ops) /\ carries (fst keyB) name_x /\
  containsS name_x (lays (run_repo ops)) = false /\ get_key (run_repo ops) name_x = None.
Proof.
  cbv zeta. split; [vm_compute; auto|]. split.
  - right. right. right. eexists. split; [left; reflexivity|]. left. reflexivity.
  - split; vm_compute; reflexivity.
Qed.
(* the code as it is now keeps it (instance of the general theorem, shown on the same history) *)
Lemma repaired_keeps_alias : In (name_x, 2) (abs (lays (run isort f5_history))).
Proof. vm_compute. tauto. Qed.

(* ------------------------------------------------------------------------------------------------ *)
(* the code before commit 48f9d25: blanks were ignored in EVERY identifier, so two names differing    *)
(* only by blanks select each other's keys                                                            *)
(* ------------------------------------------------------------------------------------------------ *)
Definition name_john_smith : alias := [74; 111; 104; 110; 32; 83; 109; 105; 116; 104].     (* "John Smith" *)
Definition name_johnsmith : alias := [74; 111; 104; 110; 83; 109; 105; 116; 104].           (* "JohnSmith" *)
Definition mkkeyn (id : Z) (fp name : alias) : key :=
  ({| kid := id; kfp := fp; kuids := [{| u_name := name; u_comment := []; u_email := [] |}];
      kcreated := id; kpublic := false; kprimary := true; kparentless := true |}, []).
Definition keyJ := mkkeyn 3 [67; 67] name_john_smith. Definition keyJS := mkkeyn 4 [68; 68] name_johnsmith.
Definition js_history : list op := [Load keyJ; Load keyJS; Unload keyJ].

Lemma john_smith_not_grouped_id : ~ id_shape (strip name_john_smith).
Proof. intros [[H|[H|H]] _]; vm_compute in H; discriminate H. Qed.
Lemma keyJS_not_john_smith : ~ selects (fst keyJS) name_john_smith.
Proof.
  intros H. apply selects_literal in H; [|exact john_smith_not_grouped_id].
  destruct H as [H|[H|[H|[u [[<-|[]] [H|[[H _]|[H _]]]]]]]]; vm_compute in H; discriminate H.
Qed.

(* with only "JohnSmith" loaded the old lookup hands out his key for "John Smith" (key() was sound only for the old reading) ... *)
Lemma get_sound_old_refuted :
  exists ops a j, get_key_old (run_old isort ops) a = Some j /\ In j (loaded_after ops) /\ ~ selects j a.
Proof.
  exists [Load keyJS], name_john_smith, (fst keyJS). split; [vm_compute; reflexivity|]. split; [vm_compute; auto|].
  exact keyJS_not_john_smith.
Qed.
(* ... and "John Smith" stays `in` the keyring after his own key has been unloaded *)
Lemma unloaded_selects_nothing_old_refuted :
  exists ops a, (forall i, In i (loaded_after ops) -> ~ selects i a) /\
    containsS_old a (lays (run_old isort ops)) = true /\ get_key_old (run_old isort ops) a <> None.
Proof.
  exists js_history, name_john_smith. split; [|split; vm_compute; [reflexivity|discriminate]].
  intros i Hi. assert (E : loaded_after js_history = [fst keyJS]) by (vm_compute; reflexivity).
  rewrite E in Hi. destruct Hi as [<-|[]]. exact keyJS_not_john_smith.
Qed.
(* the same histories on the code as it is now (instances of get_sound / unloaded_selects_nothing) *)
Lemma repaired_names_literal :
  get_key (run isort [Load keyJS]) name_john_smith = None /\
  containsS name_john_smith (lays (run isort js_history)) = false /\
  get_key (run isort js_history) name_johnsmith = Some (fst keyJS).
Proof. vm_compute. auto. Qed.
(* a fingerprint-shaped identifier written in groups is still found: 8 hexadecimal digits as "DEAD BEEF" *)
Definition id_deadbeef : alias := [68; 69; 65; 68; 66; 69; 69; 70].
Definition id_dead_beef : alias := [68; 69; 65; 68; 32; 66; 69; 69; 70].
Definition keyH := mkkeyn 5 id_deadbeef name_x.
Lemma repaired_grouped_id_found :
  unspaced id_dead_beef = id_deadbeef /\ get_key (run isort [Load keyH]) id_dead_beef = Some (fst keyH).
Proof. vm_compute. auto. Qed.
