(* C19 -- histories that load / unload whole keys of a universe of distinct key objects: the specification's "loaded" set is
   exactly the components (primary + subkeys) of the keys that are currently in.  This connects `loaded_after` (defined on key
   objects one by one) with the reading of the property text "the keys (and their subkeys) currently loaded". *)
From Coq Require Import ZArith List Bool Lia.
Import ListNotations.
Require Import PV.Lib.Bytes PV.Model.Keyring PV.Spec.Keyring_spec PV.Proofs.Keyring_lemmas PV.Proofs.Keyring_lemmas2.
Open Scope Z_scope.

Lemma NoDup_app_inv {A} (l1 l2 : list A) : NoDup (l1 ++ l2) -> NoDup l1 /\ NoDup l2 /\ forall x, In x l1 -> In x l2 -> False.
Proof.
  induction l1 as [|a r IH]; cbn; intros H.
  - repeat split; auto. constructor.
  - inversion H as [|? ? Hni Hnd]; subst. destruct (IH Hnd) as (A1 & A2 & A3). split; [|split; [exact A2|]].
    + constructor; [|exact A1]. intro Hin. apply Hni. apply in_or_app. left. exact Hin.
    + intros x [<-|Hx] Hx2; [apply Hni; apply in_or_app; right; exact Hx2|eapply A3; eauto].
Qed.

Lemma univ_sep U : NoDup (map kid (flat_map comps U)) -> forall k k' x y,
  In k U -> In k' U -> In x (comps k) -> In y (comps k') -> kid x = kid y -> k = k'.
Proof.
  induction U as [|u r IH]; [intros _ k k' x y []|]. cbn [flat_map]. rewrite map_app. intros Hnd.
  apply NoDup_app_inv in Hnd as (N1 & N2 & N3).
  intros k k' x y [<-|Hk] [<-|Hk'] Hx Hy E.
  - reflexivity.
  - exfalso. apply (N3 (kid x)); [apply in_map; exact Hx|]. rewrite E. apply in_map. apply in_flat_map. exists k'. auto.
  - exfalso. apply (N3 (kid y)); [apply in_map; exact Hy|]. rewrite <- E. apply in_map. apply in_flat_map. exists k. auto.
  - apply (IH N2 k k' x y); assumption.
Qed.

Lemma comps_nodup U k : NoDup (map kid (flat_map comps U)) -> In k U -> NoDup (map kid (comps k)).
Proof.
  induction U as [|u r IH]; [intros _ []|]. cbn [flat_map]. rewrite map_app. intros Hnd.
  apply NoDup_app_inv in Hnd as (N1 & N2 & _). intros [<-|Hk]; [exact N1|apply IH; assumption].
Qed.

Lemma is_loaded_true k S : is_loaded k S = true <-> exists x, In x S /\ kid x = k.
Proof.
  unfold is_loaded. rewrite existsb_exists. split; intros [x [H1 H2]]; exists x; split; auto; apply Z.eqb_eq; exact H2.
Qed.
Lemma is_loaded_false k S : is_loaded k S = false <-> forall x, In x S -> kid x <> k.
Proof.
  split.
  - intros H x Hx E. assert (is_loaded k S = true) by (apply is_loaded_true; eauto). congruence.
  - intros H. destruct (is_loaded k S) eqn:E; [|reflexivity]. apply is_loaded_true in E as [x [H1 H2]]. exfalso. exact (H x H1 H2).
Qed.
Lemma is_loaded_app k S T : is_loaded k (S ++ T) = is_loaded k S || is_loaded k T.
Proof. unfold is_loaded. apply existsb_app. Qed.

Lemma fold_add_new_fresh : forall subs S, (forall j, In j subs -> is_loaded (kid j) S = false) -> NoDup (map kid subs) ->
  fold_left add_new subs S = S ++ subs.
Proof.
  induction subs as [|j r IH]; intros S Hf Hnd; cbn; [rewrite app_nil_r; reflexivity|].
  unfold add_new at 2. rewrite (Hf j (or_introl eq_refl)). cbn in Hnd. inversion Hnd as [|? ? Hni Hnd']; subst.
  rewrite IH; [rewrite <- app_assoc; reflexivity| |exact Hnd'].
  intros j' Hj'. rewrite is_loaded_app, (Hf j' (or_intror Hj')). cbn.
  rewrite orb_false_r. apply Z.eqb_neq. intro E. apply Hni. rewrite E. apply in_map. exact Hj'.
Qed.

Lemma fold_add_new_loaded : forall subs S, (forall j, In j subs -> is_loaded (kid j) S = true) -> fold_left add_new subs S = S.
Proof.
  induction subs as [|j r IH]; intros S Hl; cbn; [reflexivity|].
  unfold add_new at 2. rewrite (Hl j (or_introl eq_refl)). apply IH. intros j' Hj'. apply Hl. right. exact Hj'.
Qed.

Lemma in_drop k S x : In x (drop k S) <-> In x S /\ kid x <> k.
Proof.
  unfold drop. rewrite filter_In, negb_true_iff, Z.eqb_neq. tauto.
Qed.
Lemma in_fold_drop : forall subs S x,
  In x (fold_left (fun S j => drop (kid j) S) subs S) <-> In x S /\ ~ In (kid x) (map kid subs).
Proof.
  induction subs as [|j r IH]; intros S x; cbn; [tauto|]. rewrite IH, in_drop. split.
  - intros [[H1 H2] H3]. split; [exact H1|]. intros [E|E]; [apply H2; symmetry; exact E|contradiction].
  - intros [H1 H2]. split; [split; [exact H1|]|]; intro E; apply H2; [left; symmetry; exact E|right; exact E].
Qed.

Definition J (U : list key) (S : list kinfo) (L : list key) : Prop :=
  (forall x, In x S <-> exists k, In k L /\ In x (comps k)) /\ incl L U.

Lemma live_has (k : key) (L : list key) : existsb (fun k' => kid (fst k') =? kid (fst k)) L = true <-> exists k', In k' L /\ kid (fst k') = kid (fst k).
Proof. rewrite existsb_exists. split; intros [k' [H1 H2]]; exists k'; split; auto; apply Z.eqb_eq; exact H2. Qed.

Lemma whole_step U S L o : universe_ok U -> In (key_of o) U -> J U S L -> J U (spec_step S o) (live_step L o).
Proof.
  intros [Hnd Hprim] Hk [HJ Hincl]. destruct o as [[i subs]|[i subs]]; cbn [key_of] in Hk; cbn [spec_step live_step fst].
  - (* Load *)
    assert (Hadd : add_new S i = if is_loaded (kid i) S then S else S ++ [i]) by reflexivity. rewrite Hadd. clear Hadd.
    destruct (is_loaded (kid i) S) eqn:E.
    + apply is_loaded_true in E as [x [Hx Ex]]. apply HJ in Hx as [k' [Hk' Hxk']].
      assert (k' = (i, subs)) by (apply (univ_sep U Hnd k' (i, subs) x i); auto; left; reflexivity). subst k'.
      rewrite fold_add_new_loaded.
      2:{ intros j Hj. apply is_loaded_true. exists j. split; [|reflexivity]. apply HJ. exists (i, subs). split; [exact Hk'|right; exact Hj]. }
      assert (Hex : existsb (fun k' : kinfo * list kinfo => kid (fst k') =? kid i) L = true) by (apply (live_has (i, subs)); exists (i, subs); auto).
      rewrite Hex. split; assumption.
    + assert (Hex : existsb (fun k' : kinfo * list kinfo => kid (fst k') =? kid i) L = false).
      { destruct (existsb (fun k' : kinfo * list kinfo => kid (fst k') =? kid i) L) eqn:Hex; [|reflexivity]. apply (live_has (i, subs)) in Hex as [k' [Hk' Ek']]. cbn in Ek'.
        exfalso. rewrite is_loaded_false in E. apply (E (fst k')); [|exact Ek']. apply HJ. exists k'. split; [exact Hk'|left; reflexivity]. }
      rewrite Hex. pose proof (comps_nodup U (i, subs) Hnd Hk) as Hcn. cbn in Hcn. inversion Hcn as [|? ? Hni Hns]; subst.
      rewrite fold_add_new_fresh; [| |exact Hns].
      * split.
        -- intros x. rewrite !in_app_iff. cbn [In]. rewrite HJ. split.
           ++ intros [[Ha|Hb]|Hx].
              ** destruct Ha as [k' [H1 H2]]. exists k'. split; [apply in_or_app; left; exact H1|exact H2].
              ** destruct Hb as [Hb|Hb]; [|contradiction]. subst x. exists (i, subs). split; [apply in_or_app; right; left; reflexivity|left; reflexivity].
              ** exists (i, subs). split; [apply in_or_app; right; left; reflexivity|right; exact Hx].
           ++ intros [k' [Hin H2]]. apply in_app_or in Hin. destruct Hin as [H1|Hin].
              ** left. left. exists k'. auto.
              ** destruct Hin as [Hin|Hin]; [|contradiction]. subst k'. cbn in H2.
                 destruct H2 as [H2|H2]; [left; right; left; exact H2|right; exact H2].
        -- intros k' Hin. apply in_app_or in Hin as [Hin|Hin]; [apply Hincl; exact Hin|]. destruct Hin as [Hin|Hin]; [subst k'; exact Hk|contradiction].
      * intros j Hj. rewrite is_loaded_app. apply orb_false_iff. split.
        -- apply is_loaded_false. intros x Hx Ex. apply HJ in Hx as [k' [Hk' Hxk']].
           assert (k' = (i, subs)) by (apply (univ_sep U Hnd k' (i, subs) x j); auto; right; exact Hj). subst k'.
           rewrite is_loaded_false in E. apply (E i); [|reflexivity]. apply HJ. exists (i, subs). split; [exact Hk'|left; reflexivity].
        -- cbn. rewrite orb_false_r. apply Z.eqb_neq. intro Ex. apply Hni. rewrite Ex. apply in_map. exact Hj.
  - (* Unload *)
    pose proof (Hprim _ Hk) as Hp. cbn in Hp. destruct (is_loaded (kid i) S) eqn:E.
    + rewrite Hp. split.
      * intros x. rewrite in_fold_drop, in_drop, HJ. split.
        -- intros [[[k' [H1 H2]] H3] H4]. exists k'. split; [|exact H2]. apply filter_In. split; [exact H1|].
           apply negb_true_iff. apply Z.eqb_neq. intro Ek.
           assert (k' = (i, subs)) by (apply (univ_sep U Hnd k' (i, subs) (fst k') i); auto; left; reflexivity). subst k'.
           destruct H2 as [<-|H2]; [apply H3; reflexivity|apply H4; apply in_map; exact H2].
        -- intros [k' [H1 H2]]. apply filter_In in H1 as [H1 Hne]. apply negb_true_iff in Hne. apply Z.eqb_neq in Hne.
           assert (Hsep : forall y, In y (comps (i, subs)) -> kid x <> kid y).
           { intros y Hy Exy. apply Hne. assert (k' = (i, subs)) by (apply (univ_sep U Hnd k' (i, subs) x y); auto). subst k'. reflexivity. }
           split; [split; [exists k'; auto|]|].
           ++ apply Hsep. left. reflexivity.
           ++ intros Hin. apply in_map_iff in Hin as [y [Ey Hy]]. apply (Hsep y); [right; exact Hy|congruence].
      * intros k' Hin. apply filter_In in Hin as [Hin _]. apply Hincl. exact Hin.
    + assert (Hall : forall k', In k' L -> negb (kid (fst k') =? kid i) = true).
      { intros k' Hk'. apply negb_true_iff. apply Z.eqb_neq. intro Ek. rewrite is_loaded_false in E.
        apply (E (fst k')); [|exact Ek]. apply HJ. exists k'. split; [exact Hk'|left; reflexivity]. }
      split.
      * intros x. rewrite HJ. split; intros [k' [H1 H2]]; exists k'; split; auto.
        -- apply filter_In. split; [exact H1|apply Hall; exact H1].
        -- apply filter_In in H1. tauto.
      * intros k' Hin. apply filter_In in Hin as [Hin _]. apply Hincl. exact Hin.
Qed.

Lemma whole_fold U : universe_ok U -> forall ops S L, (forall o, In o ops -> In (key_of o) U) -> J U S L ->
  J U (fold_left spec_step ops S) (fold_left live_step ops L).
Proof.
  intros HU. induction ops as [|o r IH]; intros S L Hops HJ; cbn; [exact HJ|].
  apply IH; [intros o' Ho'; apply Hops; right; exact Ho'|]. apply whole_step; auto. apply Hops. left. reflexivity.
Qed.

Theorem whole_key_histories U ops : universe_ok U -> (forall o, In o ops -> In (key_of o) U) ->
  forall x, In x (loaded_after ops) <-> exists k, In k (live_after ops) /\ In x (comps k).
Proof.
  intros HU Hops. unfold loaded_after, live_after. apply (whole_fold U HU ops [] [] Hops).
  split; [|intros k []]. intros x. split; [intros []|intros [k [[] _]]].
Qed.

(* ------------------------------------------------------------------------------------------------ *)
(* what load() reports is loaded, after ANY history (also one that unloaded a subkey on its own)      *)
(* ------------------------------------------------------------------------------------------------ *)
Lemma add_new_keeps k T j : is_loaded k T = true -> is_loaded k (add_new T j) = true.
Proof. intros H. unfold add_new. destruct (is_loaded (kid j) T); [exact H|]. rewrite is_loaded_app, H. reflexivity. Qed.
Lemma add_new_has T j : is_loaded (kid j) (add_new T j) = true.
Proof.
  unfold add_new. destruct (is_loaded (kid j) T) eqn:E; [exact E|]. rewrite is_loaded_app. cbn. rewrite Z.eqb_refl.
  rewrite orb_true_r. reflexivity.
Qed.
Lemma fold_add_new_keeps k : forall subs T, is_loaded k T = true -> is_loaded k (fold_left add_new subs T) = true.
Proof. induction subs as [|j r IH]; intros T H; cbn; [exact H|]. apply IH. apply add_new_keeps. exact H. Qed.
Lemma fold_add_new_has j : forall subs T, In j subs -> is_loaded (kid j) (fold_left add_new subs T) = true.
Proof.
  induction subs as [|j' r IH]; intros T []; cbn.
  - subst j'. apply fold_add_new_keeps. apply add_new_has.
  - apply IH. assumption.
Qed.
Lemma load_components_loaded S k x : In x (comps k) -> is_loaded (kid x) (spec_step S (Load k)) = true.
Proof.
  destruct k as [i subs]. cbn [comps fst snd spec_step]. intros [<-|Hx].
  - apply fold_add_new_keeps. apply add_new_has.
  - apply fold_add_new_has. exact Hx.
Qed.

Lemma in_add_new T j x : In x (add_new T j) -> In x T \/ x = j.
Proof. unfold add_new. destruct (is_loaded (kid j) T); [auto|]. rewrite in_app_iff. cbn. intuition. Qed.
Lemma in_fold_add_new x : forall subs T, In x (fold_left add_new subs T) -> In x T \/ In x subs.
Proof.
  induction subs as [|j r IH]; intros T H; cbn in *; [auto|].
  destruct (IH _ H) as [H1|H1]; [|auto]. destruct (in_add_new _ _ _ H1); auto.
Qed.
Lemma in_spec_step S o x : In x (spec_step S o) -> In x S \/ In x (comps (key_of o)).
Proof.
  destruct o as [[i subs]|[i subs]]; cbn [spec_step key_of comps fst snd].
  - intros H. destruct (in_fold_add_new _ _ _ H) as [H1|H1]; [|right; right; exact H1].
    destruct (in_add_new _ _ _ H1); [auto|right; left; auto].
  - intros H. left. destruct (is_loaded (kid i) S); [|exact H]. destruct (kprimary i).
    + apply in_fold_drop in H as [H _]. apply in_drop in H. tauto.
    + apply in_drop in H. tauto.
Qed.
Lemma loaded_in_objects_gen : forall ops S x, In x (fold_left spec_step ops S) -> In x S \/ In x (objects ops).
Proof.
  induction ops as [|o r IH]; intros S x H; cbn [fold_left] in H; [auto|].
  change (objects (o :: r)) with (comps (key_of o) ++ objects r).
  destruct (IH _ _ H) as [H1|H1]; [|right; apply in_or_app; auto].
  destruct (in_spec_step _ _ _ H1); [auto|right; apply in_or_app; auto].
Qed.
Lemma loaded_in_objects ops x : In x (loaded_after ops) -> In x (objects ops).
Proof. intros H. destruct (loaded_in_objects_gen ops [] x H) as [[]|H1]. exact H1. Qed.

Theorem load_result_loaded ops k x : objects_consistent (ops ++ [Load k]) -> In x (comps k) ->
  In x (loaded_after (ops ++ [Load k])).
Proof.
  intros Hc Hx. pose proof (load_components_loaded (loaded_after ops) k x Hx) as Hl.
  assert (E : loaded_after (ops ++ [Load k]) = spec_step (loaded_after ops) (Load k)).
  { unfold loaded_after. rewrite fold_left_app. reflexivity. }
  rewrite <- E in Hl. apply is_loaded_true in Hl as [y [Hy Ey]].
  assert (y = x); [|subst; exact Hy]. apply Hc; [apply loaded_in_objects; exact Hy| |exact Ey].
  unfold objects. rewrite flat_map_app. apply in_or_app. right. cbn. rewrite app_nil_r. exact Hx.
Qed.

Section LoadResult.
  Variable sort : list pkid -> list pkid.

  (* every fingerprint load() returns is reported by fingerprints() afterwards *)
  Theorem load_result_is_indexed ops k f : objects_consistent (ops ++ [Load k]) -> In f (load_result k) ->
    In f (fingerprints (run sort (ops ++ [Load k])) None None).
  Proof.
    intros Hc Hf. rewrite fingerprints_exact. unfold load_result in Hf. apply in_map_iff in Hf as [x [<- Hx]].
    apply in_map. apply load_result_loaded; assumption.
  Qed.

  (* ... is `in` the keyring and selects a loaded key that has this fingerprint *)
  Theorem load_result_selects : (forall l, Permutation.Permutation l (sort l)) -> forall ops k f,
    objects_consistent (ops ++ [Load k]) -> In f (load_result k) ->
    containsS f (lays (run sort (ops ++ [Load k]))) = true /\
    exists j, get_key (run sort (ops ++ [Load k])) f = Some j /\ In j (loaded_after (ops ++ [Load k])) /\ selects j f.
  Proof.
    intros Hp ops k f Hc Hf. unfold load_result in Hf. apply in_map_iff in Hf as [x [<- Hx]].
    pose proof (load_result_loaded ops k x Hc Hx) as Hl.
    assert (Hs : selects x (kfp x)) by (left; left; reflexivity).
    split; [apply (contains_iff sort Hp); eauto|]. apply (get_total sort Hp _ _ x); assumption.
  Qed.
End LoadResult.

(* ---- the code before commit 7e98898: load K, unload sub(K), load K -- load() reports sub(K), the keyring does not hold it ---- *)
Definition subS : kinfo :=
  {| kid := 7; kfp := [83; 83]; kuids := []; kcreated := 7; kpublic := false; kprimary := false; kparentless := false |}.
Definition keyK : key := (fst (mkkeyn 6 [75; 75] name_x), [subS]).
Definition reload_history : list op := [Load keyK; Unload (subS, []); Load keyK].

Lemma reload_history_consistent : objects_consistent reload_history.
Proof.
  intros x y Hx Hy E. cbn in Hx, Hy.
  repeat match goal with H : _ \/ _ |- _ => destruct H | H : False |- _ => contradiction end; subst;
    try reflexivity; vm_compute in E; discriminate E.
Qed.
Lemma load_result_is_indexed_old_refuted :
  objects_consistent reload_history /\ In (kfp subS) (load_result keyK) /\
  ~ In (kfp subS) (fingerprints (run_old_addkey isort reload_history) None None) /\
  get_key (run_old_addkey isort reload_history) (kfp subS) = None /\
  keys (run_old_addkey isort reload_history) = loaded_after_old reload_history.
Proof.
  split; [exact reload_history_consistent|]. split; [vm_compute; auto|]. split; [|split; vm_compute; reflexivity].
  vm_compute. intuition discriminate.
Qed.
Lemma reload_restores_subkey :
  In (kfp subS) (fingerprints (run isort reload_history) None None) /\
  get_key (run isort reload_history) (kfp subS) = Some subS.
Proof. vm_compute. auto. Qed.
