(* C19 -- histories that load / unload whole keys of a universe of distinct key objects: the specification's "loaded" set is
   exactly the components (primary + subkeys) of the keys that are currently in.  This connects `loaded_after` (defined on key
   objects one by one) with the reading of the property text "the keys (and their subkeys) currently loaded". *)
From Coq Require Import ZArith List Bool Lia.
Import ListNotations.
Require Import PV.Lib.Bytes PV.Model.Keyring PV.Spec.Keyring_spec.
Open Scope Z_scope.

Lemma NoDup_app_inv {A} (l1 l2 : list A) : NoDup (l1 ++ l2) -> NoDup l1 /\ NoDup l2 /\ forall x, In x l1 -> In x l2 -> False.
Proof.
  induction l1 as [|a r IH]; cbn; intros H.
  - repeat split; auto. constructor.
  - inversion H as [|? ? Hni Hnd]; subst. destruct (IH Hnd) as (A1 & A2 & A3). split; [|split; [exact A2|]].
    + constructor; [|exact A1]. intro Hin. apply Hni. apply in_or_app. left. exact Hin.
    + intros x [<-|Hx] Hx2; [apply Hni; apply in_or_app; right; exact Hx2|eapply A3; eauto].
Qed.

Lemma univ_sep U : NoDup (map kid (flat_map comps U)) -> forall k k' x y,
  In k U -> In k' U -> In x (comps k) -> In y (comps k') -> kid x = kid y -> k = k'.
Proof.
  induction U as [|u r IH]; [intros _ k k' x y []|]. cbn [flat_map]. rewrite map_app. intros Hnd.
  apply NoDup_app_inv in Hnd as (N1 & N2 & N3).
  intros k k' x y [<-|Hk] [<-|Hk'] Hx Hy E.
  - reflexivity.
  - exfalso. apply (N3 (kid x)); [apply in_map; exact Hx|]. rewrite E. apply in_map. apply in_flat_map. exists k'. auto.
  - exfalso. apply (N3 (kid y)); [apply in_map; exact Hy|]. rewrite <- E. apply in_map. apply in_flat_map. exists k. auto.
  - apply (IH N2 k k' x y); assumption.
Qed.

Lemma comps_nodup U k : NoDup (map kid (flat_map comps U)) -> In k U -> NoDup (map kid (comps k)).
Proof.
  induction U as [|u r IH]; [intros _ []|]. cbn [flat_map]. rewrite map_app. intros Hnd.
  apply NoDup_app_inv in Hnd as (N1 & N2 & _). intros [<-|Hk]; [exact N1|apply IH; assumption].
Qed.

Lemma is_loaded_true k S : is_loaded k S = true <-> exists x, In x S /\ kid x = k.
Proof.
  unfold is_loaded. rewrite existsb_exists. split; intros [x [H1 H2]]; exists x; split; auto; apply Z.eqb_eq; exact H2.
Qed.
Lemma is_loaded_false k S : is_loaded k S = false <-> forall x, In x S -> kid x <> k.
Proof.
  split.
  - intros H x Hx E. assert (is_loaded k S = true) by (apply is_loaded_true; eauto). congruence.
  - intros H. destruct (is_loaded k S) eqn:E; [|reflexivity]. apply is_loaded_true in E as [x [H1 H2]]. exfalso. exact (H x H1 H2).
Qed.
Lemma is_loaded_app k S T : is_loaded k (S ++ T) = is_loaded k S || is_loaded k T.
Proof. unfold is_loaded. apply existsb_app. Qed.

Lemma fold_add_new_fresh : forall subs S, (forall j, In j subs -> is_loaded (kid j) S = false) -> NoDup (map kid subs) ->
  fold_left add_new subs S = S ++ subs.
Proof.
  induction subs as [|j r IH]; intros S Hf Hnd; cbn; [rewrite app_nil_r; reflexivity|].
  unfold add_new at 2. rewrite (Hf j (or_introl eq_refl)). cbn in Hnd. inversion Hnd as [|? ? Hni Hnd']; subst.
  rewrite IH; [rewrite <- app_assoc; reflexivity| |exact Hnd'].
  intros j' Hj'. rewrite is_loaded_app, (Hf j' (or_intror Hj')). cbn.
  rewrite orb_false_r. apply Z.eqb_neq. intro E. apply Hni. rewrite E. apply in_map. exact Hj'.
Qed.

Lemma in_drop k S x : In x (drop k S) <-> In x S /\ kid x <> k.
Proof.
  unfold drop. rewrite filter_In, negb_true_iff, Z.eqb_neq. tauto.
Qed.
Lemma in_fold_drop : forall subs S x,
  In x (fold_left (fun S j => drop (kid j) S) subs S) <-> In x S /\ ~ In (kid x) (map kid subs).
Proof.
  induction subs as [|j r IH]; intros S x; cbn; [tauto|]. rewrite IH, in_drop. split.
  - intros [[H1 H2] H3]. split; [exact H1|]. intros [E|E]; [apply H2; symmetry; exact E|contradiction].
  - intros [H1 H2]. split; [split; [exact H1|]|]; intro E; apply H2; [left; symmetry; exact E|right; exact E].
Qed.

Definition J (U : list key) (S : list kinfo) (L : list key) : Prop :=
  (forall x, In x S <-> exists k, In k L /\ In x (comps k)) /\ incl L U.

Lemma live_has (k : key) (L : list key) : existsb (fun k' => kid (fst k') =? kid (fst k)) L = true <-> exists k', In k' L /\ kid (fst k') = kid (fst k).
Proof. rewrite existsb_exists. split; intros [k' [H1 H2]]; exists k'; split; auto; apply Z.eqb_eq; exact H2. Qed.

Lemma whole_step U S L o : universe_ok U -> In (key_of o) U -> J U S L -> J U (spec_step S o) (live_step L o).
Proof.
  intros [Hnd Hprim] Hk [HJ Hincl]. destruct o as [[i subs]|[i subs]]; cbn [key_of] in Hk; cbn [spec_step live_step fst].
  - (* Load *)
    destruct (is_loaded (kid i) S) eqn:E.
    + apply is_loaded_true in E as [x [Hx Ex]]. apply HJ in Hx as [k' [Hk' Hxk']].
      assert (k' = (i, subs)) by (apply (univ_sep U Hnd k' (i, subs) x i); auto; left; reflexivity). subst k'.
      assert (Hex : existsb (fun k' : kinfo * list kinfo => kid (fst k') =? kid i) L = true) by (apply (live_has (i, subs)); exists (i, subs); auto).
      rewrite Hex. split; assumption.
    + assert (Hex : existsb (fun k' : kinfo * list kinfo => kid (fst k') =? kid i) L = false).
      { destruct (existsb (fun k' : kinfo * list kinfo => kid (fst k') =? kid i) L) eqn:Hex; [|reflexivity]. apply (live_has (i, subs)) in Hex as [k' [Hk' Ek']]. cbn in Ek'.
        exfalso. rewrite is_loaded_false in E. apply (E (fst k')); [|exact Ek']. apply HJ. exists k'. split; [exact Hk'|left; reflexivity]. }
      rewrite Hex. pose proof (comps_nodup U (i, subs) Hnd Hk) as Hcn. cbn in Hcn. inversion Hcn as [|? ? Hni Hns]; subst.
      rewrite fold_add_new_fresh; [| |exact Hns].
      * split.
        -- intros x. rewrite !in_app_iff. cbn [In]. rewrite HJ. split.
           ++ intros [[Ha|Hb]|Hx].
              ** destruct Ha as [k' [H1 H2]]. exists k'. split; [apply in_or_app; left; exact H1|exact H2].
              ** destruct Hb as [Hb|Hb]; [|contradiction]. subst x. exists (i, subs). split; [apply in_or_app; right; left; reflexivity|left; reflexivity].
              ** exists (i, subs). split; [apply in_or_app; right; left; reflexivity|right; exact Hx].
           ++ intros [k' [Hin H2]]. apply in_app_or in Hin. destruct Hin as [H1|Hin].
              ** left. left. exists k'. auto.
              ** destruct Hin as [Hin|Hin]; [|contradiction]. subst k'. cbn in H2.
                 destruct H2 as [H2|H2]; [left; right; left; exact H2|right; exact H2].
        -- intros k' Hin. apply in_app_or in Hin as [Hin|Hin]; [apply Hincl; exact Hin|]. destruct Hin as [Hin|Hin]; [subst k'; exact Hk|contradiction].
      * intros j Hj. rewrite is_loaded_app. apply orb_false_iff. split.
        -- apply is_loaded_false. intros x Hx Ex. apply HJ in Hx as [k' [Hk' Hxk']].
           assert (k' = (i, subs)) by (apply (univ_sep U Hnd k' (i, subs) x j); auto; right; exact Hj). subst k'.
           rewrite is_loaded_false in E. apply (E i); [|reflexivity]. apply HJ. exists (i, subs). split; [exact Hk'|left; reflexivity].
        -- cbn. rewrite orb_false_r. apply Z.eqb_neq. intro Ex. apply Hni. rewrite Ex. apply in_map. exact Hj.
  - (* Unload *)
    pose proof (Hprim _ Hk) as Hp. cbn in Hp. destruct (is_loaded (kid i) S) eqn:E.
    + rewrite Hp. split.
      * intros x. rewrite in_fold_drop, in_drop, HJ. split.
        -- intros [[[k' [H1 H2]] H3] H4]. exists k'. split; [|exact H2]. apply filter_In. split; [exact H1|].
           apply negb_true_iff. apply Z.eqb_neq. intro Ek.
           assert (k' = (i, subs)) by (apply (univ_sep U Hnd k' (i, subs) (fst k') i); auto; left; reflexivity). subst k'.
           destruct H2 as [<-|H2]; [apply H3; reflexivity|apply H4; apply in_map; exact H2].
        -- intros [k' [H1 H2]]. apply filter_In in H1 as [H1 Hne]. apply negb_true_iff in Hne. apply Z.eqb_neq in Hne.
           assert (Hsep : forall y, In y (comps (i, subs)) -> kid x <> kid y).
           { intros y Hy Exy. apply Hne. assert (k' = (i, subs)) by (apply (univ_sep U Hnd k' (i, subs) x y); auto). subst k'. reflexivity. }
           split; [split; [exists k'; auto|]|].
           ++ apply Hsep. left. reflexivity.
           ++ intros Hin. apply in_map_iff in Hin as [y [Ey Hy]]. apply (Hsep y); [right; exact Hy|congruence].
      * intros k' Hin. apply filter_In in Hin as [Hin _]. apply Hincl. exact Hin.
    + assert (Hall : forall k', In k' L -> negb (kid (fst k') =? kid i) = true).
      { intros k' Hk'. apply negb_true_iff. apply Z.eqb_neq. intro Ek. rewrite is_loaded_false in E.
        apply (E (fst k')); [|exact Ek]. apply HJ. exists k'. split; [exact Hk'|left; reflexivity]. }
      split.
      * intros x. rewrite HJ. split; intros [k' [H1 H2]]; exists k'; split; auto.
        -- apply filter_In. split; [exact H1|apply Hall; exact H1].
        -- apply filter_In in H1. tauto.
      * intros k' Hin. apply filter_In in Hin as [Hin _]. apply Hincl. exact Hin.
Qed.

Lemma whole_fold U : universe_ok U -> forall ops S L, (forall o, In o ops -> In (key_of o) U) -> J U S L ->
  J U (fold_left spec_step ops S) (fold_left live_step ops L).
Proof.
  intros HU. induction ops as [|o r IH]; intros S L Hops HJ; cbn; [exact HJ|].
  apply IH; [intros o' Ho'; apply Hops; right; exact Ho'|]. apply whole_step; auto. apply Hops. left. reflexivity.
Qed.

Theorem whole_key_histories U ops : universe_ok U -> (forall o, In o ops -> In (key_of o) U) ->
  forall x, In x (loaded_after ops) <-> exists k, In k (live_after ops) /\ In x (comps k).
Proof.
  intros HU Hops. unfold loaded_after, live_after. apply (whole_fold U HU ops [] [] Hops).
  split; [|intros k []]. intros x. split; [intros []|intros [k [[] _]]].
Qed.
