(* C20 proofs, part 1: the RFC 4880 11.3 grammar checker is sound and complete for the inductive transcription;
   composition theorems about PGPMessage.__iter__ / __bytearray__ / __or__ (packet level). *)
From Coq Require Import ZArith List Bool Lia ZifyBool Arith.
Import ListNotations.
Require Import PV.Lib.Bytes PV.Lib.BytesLemmas PV.Model.Wire PV.Model.Message PV.Spec.Rfc4880_msg PV.Model.Message_abs.
Open Scope Z_scope.

(* ================================================================== grammar: checker vs inductive definition *)
Lemma corr_corresponds o s : corr o s = true <-> corresponds o s.
Proof.
  destruct o; destruct s; cbn; try (split; [discriminate|tauto]).
  rewrite !andb_true_iff, eqb_bytes_eq, !Z.eqb_eq. tauto.
Qed.

Lemma corr_is_sig o s : corr o s = true -> is_sig s.
Proof. destruct o; destruct s; cbn; try discriminate; trivial. Qed.

(* the trailing part recognised by match_sigs: exactly one corresponding signature per pending one-pass packet *)
Lemma match_sigs_forall2 stack l : match_sigs stack l = true <-> Forall2 (fun o s => corr o s = true) stack l.
Proof.
  revert l; induction stack as [|o st IH]; intros [|s r]; cbn; split; intro H; try discriminate; try constructor; try (inversion H; fail).
  - apply andb_true_iff in H. tauto.
  - apply IH. apply andb_true_iff in H. tauto.
  - inversion H; subst. apply andb_true_iff. split; [assumption|apply IH; assumption].
Qed.

Lemma esk_tail_sound l r : esk_tail l = Some r ->
  exists esks d, l = esks ++ d :: r /\ Forall is_esk esks /\ is_encdata d.
Proof.
  revert r; induction l as [|t l IH]; intros r H; [discriminate|].
  destruct t; cbn in H; try discriminate.
  - destruct (IH _ H) as (e & d & -> & He & Hd). exists (TPkesk :: e), d. repeat split; auto. constructor; [left; reflexivity|assumption].
  - destruct (IH _ H) as (e & d & -> & He & Hd). exists (TSkesk :: e), d. repeat split; auto. constructor; [right; reflexivity|assumption].
  - inversion H; subst. exists [], TSed. repeat split; auto. left; reflexivity.
  - inversion H; subst. exists [], TSeipd. repeat split; auto. right; reflexivity.
Qed.

Lemma esk_tail_complete esks d r : Forall is_esk esks -> is_encdata d -> esk_tail (esks ++ d :: r) = Some r.
Proof.
  intros He Hd. induction He as [|e esks [->| ->] _ IH]; cbn.
  - destruct Hd as [-> | ->]; reflexivity.
  - assumption.
  - assumption.
Qed.

(* a message followed by the signatures that close the pending one-pass packets *)
Lemma scan_sound inner_ok : (forall x, inner_ok x = true -> Message x) ->
  forall l stack, scan inner_ok l stack = true ->
  exists m sigs, l = m ++ sigs /\ Message m /\ Forall2 (fun o s => corr o s = true) stack sigs.
Proof.
  intros Hin. induction l as [|t l IH]; intros stack H; [discriminate|].
  destruct t; cbn [scan] in H.
  - (* one-pass packet *)
    destruct (IH _ H) as (m & sigs & -> & Hm & Hs). inversion Hs as [|o s st r Hc Hr]; subst.
    exists (TOps sigtype halg pkalg keyid flag :: m ++ [s]), r. split; [cbn; rewrite <- app_assoc; reflexivity|].
    split; [|assumption]. apply M_onepass; [apply corr_corresponds; assumption|assumption].
  - (* prefix signature *)
    destruct (IH _ H) as (m & sigs & -> & Hm & Hs).
    exists (TSig sigtype halg pkalg keyid :: m), sigs. repeat split; auto. apply M_signed; [exact I|assumption].
  - exists [TLit], l. repeat split; [constructor|apply match_sigs_forall2; assumption].
  - apply andb_true_iff in H. destruct H as [Hi Hs].
    exists [TComp inner], l. repeat split; [apply M_compressed, Hin, Hi|apply match_sigs_forall2; assumption].
  - destruct (esk_tail (TPkesk :: l)) as [r|] eqn:E; [|discriminate].
    destruct (esk_tail_sound _ _ E) as (e & d & Hl & He & Hd). exists (e ++ [d]), r. rewrite Hl, <- app_assoc.
    repeat split; [apply M_encrypted; assumption|apply match_sigs_forall2; assumption].
  - destruct (esk_tail (TSkesk :: l)) as [r|] eqn:E; [|discriminate].
    destruct (esk_tail_sound _ _ E) as (e & d & Hl & He & Hd). exists (e ++ [d]), r. rewrite Hl, <- app_assoc.
    repeat split; [apply M_encrypted; assumption|apply match_sigs_forall2; assumption].
  - destruct (esk_tail (TSed :: l)) as [r|] eqn:E; [|discriminate].
    destruct (esk_tail_sound _ _ E) as (e & d & Hl & He & Hd). exists (e ++ [d]), r. rewrite Hl, <- app_assoc.
    repeat split; [apply M_encrypted; assumption|apply match_sigs_forall2; assumption].
  - destruct (esk_tail (TSeipd :: l)) as [r|] eqn:E; [|discriminate].
    destruct (esk_tail_sound _ _ E) as (e & d & Hl & He & Hd). exists (e ++ [d]), r. rewrite Hl, <- app_assoc.
    repeat split; [apply M_encrypted; assumption|apply match_sigs_forall2; assumption].
  - discriminate.
Qed.

Theorem msg_d_sound : forall d l, msg_d d l = true -> Message l.
Proof.
  induction d as [|d IH]; intros l H; cbn [msg_d] in H.
  - destruct (scan_sound (fun _ => false) (fun x Hx => False_ind _ (diff_false_true Hx)) l [] H) as (m & sigs & -> & Hm & Hs).
    inversion Hs; subst. rewrite app_nil_r. assumption.
  - destruct (scan_sound (msg_d d) IH l [] H) as (m & sigs & -> & Hm & Hs).
    inversion Hs; subst. rewrite app_nil_r. assumption.
Qed.

Theorem is_message_sound l : is_message l = true -> Message l.
Proof. apply msg_d_sound. Qed.

(* ---- completeness ---- *)
Lemma toks_depth_app a b : toks_depth (a ++ b) = Nat.max (toks_depth a) (toks_depth b).
Proof. unfold toks_depth. rewrite map_app. apply list_max_app. Qed.
Lemma toks_depth_cons t l : toks_depth (t :: l) = Nat.max (tok_depth t) (toks_depth l).
Proof. reflexivity. Qed.

Definition inner_of (d : nat) : list tok -> bool := match d with O => fun _ => false | S d' => msg_d d' end.
Lemma msg_d_unfold d l : msg_d d l = scan (inner_of d) l [].
Proof. destruct d; reflexivity. Qed.

Lemma scan_esk inner_ok esks d sigs stack : Forall is_esk esks -> is_encdata d ->
  match_sigs stack sigs = true -> scan inner_ok (esks ++ d :: sigs) stack = true.
Proof.
  intros He Hd Hs.
  assert (E := esk_tail_complete esks d sigs He Hd).
  destruct esks as [|e esks]; cbn [app] in *.
  - destruct Hd as [-> | ->]; cbn [scan]; rewrite E; assumption.
  - inversion He as [|? ? [-> | ->] _]; subst; cbn [scan]; rewrite E; assumption.
Qed.

Lemma scan_complete : forall m, Message m -> forall d stack sigs, (toks_depth m <= d)%nat ->
  Forall2 (fun o s => corr o s = true) stack sigs -> scan (inner_of d) (m ++ sigs) stack = true.
Proof.
  induction 1 as [|inner Hm IH|esks dd He Hd|s m Hs Hm IH|o m s Hc Hm IH]; intros d stack sigs Hdep Hst.
  - cbn. apply match_sigs_forall2; assumption.
  - cbn [app scan]. apply andb_true_iff. split; [|apply match_sigs_forall2; assumption].
    rewrite toks_depth_cons in Hdep. cbn [tok_depth] in Hdep. fold (toks_depth inner) in Hdep.
    destruct d as [|d]; [lia|]. cbn [inner_of]. rewrite msg_d_unfold.
    specialize (IH d [] []). rewrite app_nil_r in IH. apply IH; [lia|constructor].
  - rewrite <- app_assoc. cbn [app]. apply scan_esk; try assumption. apply match_sigs_forall2; assumption.
  - destruct s; try (destruct Hs; fail). cbn [app scan]. apply IH; [|assumption].
    rewrite toks_depth_cons in Hdep. lia.
  - destruct o; try (destruct Hc; fail). cbn [app scan]. rewrite <- app_assoc. cbn [app].
    apply IH.
    + rewrite toks_depth_cons, toks_depth_app in Hdep. lia.
    + constructor; [apply corr_corresponds; assumption|assumption].
Qed.

Theorem msg_d_complete l d : Message l -> (toks_depth l <= d)%nat -> msg_d d l = true.
Proof.
  intros H Hd. rewrite msg_d_unfold. rewrite <- (app_nil_r l). apply scan_complete; [assumption|assumption|constructor].
Qed.

Theorem is_message_iff l : is_message l = true <-> Message l.
Proof. split; [apply is_message_sound|]. intro H. apply msg_d_complete; [assumption|apply Nat.le_refl]. Qed.

(* ================================================================== one-pass packets of n signers *)
Lemma combine_snoc {A B} (l1 : list A) (l2 : list B) a b : length l1 = length l2 ->
  combine (l1 ++ [a]) (l2 ++ [b]) = combine l1 l2 ++ [(a, b)].
Proof.
  revert l2; induction l1 as [|x l1 IH]; intros [|y l2] H; cbn in *; try discriminate; [reflexivity|].
  rewrite IH; [reflexivity|lia].
Qed.

Lemma indexed_snoc sigs x : indexed (sigs ++ [x]) = indexed sigs ++ [(length sigs, x)].
Proof.
  unfold indexed. rewrite app_length. cbn [length]. rewrite Nat.add_1_r, seq_S. cbn [plus].
  apply combine_snoc. rewrite seq_length. reflexivity.
Qed.

(* adding a later signature puts its one-pass packet in front and leaves the others (and their flags) alone *)
Lemma ops_list_snoc sigs x :
  ops_list (sigs ++ [x]) = POps (with_flag (make_onepass x) (Nat.eqb (length sigs) 0)) :: ops_list sigs.
Proof. unfold ops_list. rewrite indexed_snoc, rev_app_distr. reflexivity. Qed.

Lemma ops_list_length sigs : length (ops_list sigs) = length sigs.
Proof.
  unfold ops_list, indexed. rewrite map_length, rev_length, combine_length, seq_length. apply Nat.min_id.
Qed.

Lemma tok_of_ops x f : tok_of (POps (with_flag (make_onepass x) f)) = TOps (s_type x) (s_halg x) (s_pkalg x) (s_keyid x) (if f then 1 else 0).
Proof. reflexivity. Qed.

Lemma corresponds_onepass x f : corresponds (tok_of (POps (with_flag (make_onepass x) f))) (tok_of (PSig x)).
Proof. cbn. tauto. Qed.

(* the signed literal sequence for every signer count, by induction on the signature list (from its end) *)
Lemma signed_literal_in_grammar l : forall sigs,
  Message (toks (ops_list sigs ++ [PLit l] ++ map PSig sigs)).
Proof.
  induction sigs as [|x sigs IH] using rev_ind.
  - cbn. constructor.
  - rewrite ops_list_snoc, map_app. cbn [map app]. unfold toks in *. cbn [map].
    replace (map tok_of (ops_list sigs ++ PLit l :: map PSig sigs ++ [PSig x]))
      with (map tok_of (ops_list sigs ++ [PLit l] ++ map PSig sigs) ++ [tok_of (PSig x)]).
    + apply M_onepass; [apply corresponds_onepass|exact IH].
    + rewrite !map_app. cbn [map app]. rewrite <- !app_assoc. cbn [app]. rewrite map_app. reflexivity.
Qed.

Definition literal_state (m : msg) (l : litd) : Prop := m_body m = BLit l /\ m_mdc m = None.

Lemma add_sigs_fields m ss : m_comp (add_sigs m ss) = m_comp m /\ m_body (add_sigs m ss) = m_body m
  /\ m_mdc (add_sigs m ss) = m_mdc m /\ m_esk (add_sigs m ss) = m_esk m.
Proof. revert m; induction ss as [|s ss IH]; intro m; cbn; [tauto|]. destruct (IH (add_sig m s)) as (a & b & c & e). cbn in *. tauto. Qed.

Lemma iter_literal m l : literal_state m l ->
  iter_packets m = Some (ops_list (m_sigs m) ++ [PLit l] ++ map PSig (m_sigs m)).
Proof. intros [Hb Hm]. unfold iter_packets, iter_with. rewrite Hb, Hm. reflexivity. Qed.

Theorem export_in_grammar_state m l : literal_state m l ->
  exists ps, export_pkts m = Some ps /\ Message (toks ps) /\ is_message (toks ps) = true.
Proof.
  intro H. unfold export_pkts. rewrite (iter_literal m l H).
  destruct (is_compressed m).
  - eexists. split; [reflexivity|]. assert (Message (toks [PComp (m_comp m) (ops_list (m_sigs m) ++ [PLit l] ++ map PSig (m_sigs m))])).
    { cbn. apply M_compressed. apply (signed_literal_in_grammar l (m_sigs m)). }
    split; [assumption|apply is_message_iff; assumption].
  - eexists. split; [reflexivity|]. split; [apply signed_literal_in_grammar|apply is_message_iff, signed_literal_in_grammar].
Qed.

(* every message PGPMessage.new builds, with any number of signatures added in any order at any times *)
Theorem export_in_grammar l comp added :
  exists ps, export_pkts (add_sigs (new_msg l comp) added) = Some ps /\ Message (toks ps) /\ is_message (toks ps) = true.
Proof.
  apply (export_in_grammar_state _ l). destruct (add_sigs_fields (new_msg l comp) added) as (_ & b & c & _).
  split; [rewrite b|rewrite c]; reflexivity.
Qed.

(* i-th one-pass packet describes the (n-1-i)-th signature; the flag is set exactly on the last *)
Theorem ops_mirror_sigs : forall sigs i s, (i < length sigs)%nat -> nth_error sigs (length sigs - 1 - i) = Some s ->
  nth_error (ops_list sigs) i = Some (POps (with_flag (make_onepass s) (Nat.eqb i (length sigs - 1)))).
Proof.
  induction sigs as [|x sigs IH] using rev_ind; intros i s Hi Hn; [cbn in Hi; lia|].
  rewrite app_length in *. cbn [length] in *. rewrite ops_list_snoc.
  destruct i as [|i].
  - cbn [nth_error]. replace (length sigs + 1 - 1 - 0)%nat with (length sigs) in Hn by lia.
    rewrite nth_error_app2 in Hn by lia. rewrite Nat.sub_diag in Hn. cbn in Hn. inversion Hn; subst.
    replace (length sigs + 1 - 1)%nat with (length sigs) by lia.
    rewrite (Nat.eqb_sym 0 (length sigs)). reflexivity.
  - cbn [nth_error]. replace (length sigs + 1 - 1 - S i)%nat with (length sigs - 1 - i)%nat in Hn by lia.
    rewrite nth_error_app1 in Hn by lia. rewrite (IH i s) by (assumption || lia).
    f_equal. f_equal. f_equal.
    destruct (Nat.eqb_spec i (length sigs - 1)), (Nat.eqb_spec (S i) (length sigs + 1 - 1)); (reflexivity || lia).
Qed.

Theorem ops_last_flag_only : forall sigs,
  ops_flags (ops_list sigs) = match sigs with [] => [] | _ => repeat false (length sigs - 1) ++ [true] end.
Proof.
  induction sigs as [|x sigs IH] using rev_ind; [reflexivity|].
  rewrite ops_list_snoc. cbn [ops_flags flat_map app]. fold (ops_flags (ops_list sigs)). rewrite IH.
  rewrite app_length. cbn [length]. replace (length sigs + 1 - 1)%nat with (length sigs) by lia.
  destruct sigs as [|y sigs]; [reflexivity|].
  cbn [length Nat.eqb o_flag with_flag app]. replace (S (length sigs) - 1)%nat with (length sigs) by lia.
  destruct (y :: sigs ++ [x]) eqn:E; [discriminate|]. reflexivity.
Qed.

(* the RFC 5.4 rule on the exported sequence: a zero flag is always followed by another one-pass packet *)
Lemma flags_rule_ops : forall sigs rest, ops_flags_ok (toks rest) = true ->
  match rest with POps _ :: _ => False | _ => True end ->
  ops_flags_ok (toks (ops_list sigs ++ rest)) = true.
Proof.
  induction sigs as [|x sigs IH] using rev_ind; intros rest Hr Hnot; [assumption|].
  rewrite ops_list_snoc. cbn [app toks map]. rewrite tok_of_ops. cbn [ops_flags_ok].
  fold (toks (ops_list sigs ++ rest)). rewrite (IH rest Hr Hnot). rewrite andb_true_r.
  destruct sigs as [|y sigs _] using rev_ind; [reflexivity|].
  rewrite app_length. cbn [length]. rewrite Nat.add_1_r. cbn [Nat.eqb]. cbn [Z.eqb].
  rewrite ops_list_snoc. reflexivity.
Qed.

Lemma flags_sigs sigs : ops_flags_ok (toks (map PSig sigs)) = true.
Proof. induction sigs as [|s sigs IH]; [reflexivity|exact IH]. Qed.

Lemma unwrap_signed sigs l r : unwrap (ops_list sigs ++ PLit l :: r) = ops_list sigs ++ PLit l :: r.
Proof. destruct sigs as [|x sigs _] using rev_ind; [reflexivity|]. rewrite ops_list_snoc. reflexivity. Qed.

Theorem export_flags_ok m l : literal_state m l -> forall ps, export_pkts m = Some ps -> flags_ok ps = true.
Proof.
  intros H ps E. unfold export_pkts in E. rewrite (iter_literal m l H) in E.
  assert (G : ops_flags_ok (toks (ops_list (m_sigs m) ++ [PLit l] ++ map PSig (m_sigs m))) = true).
  { apply flags_rule_ops; [|exact I]. change (ops_flags_ok (toks (map PSig (m_sigs m))) = true). apply flags_sigs. }
  destruct (is_compressed m); inversion E; subst; [exact G|].
  unfold flags_ok. rewrite unwrap_signed. exact G.
Qed.

(* the rule before the repair: a single signer gets flag 0 in front of the literal packet, three signers 0,1,1 *)
Definition sig_example (c : Z) : sigd :=
  {| s_type := 0; s_halg := 8; s_pkalg := 1; s_keyid := [1; 2; 3; 4; 5; 6; 7; c]; s_created := c; s_raw := [4; 0; 1; 8] |}.
Definition lit_example : litd := {| l_format := 98; l_name := []; l_mtime := 0; l_data := [104; 105] |}.

Theorem ops_flags_prefix_refuted :
  ops_flags (ops_list_prefix [sig_example 1]) = [false] /\
  ops_flags (ops_list_prefix [sig_example 1; sig_example 2; sig_example 3]) = [false; true; true] /\
  exists ps, export_pkts_prefix (add_sigs (new_msg lit_example 0) [sig_example 1]) = Some ps /\ flags_ok ps = false.
Proof. split; [reflexivity|]. split; [reflexivity|]. eexists. split; [vm_compute; reflexivity|vm_compute; reflexivity]. Qed.

(* ================================================================== compression wraps the whole signed sequence *)
Theorem compressed_wraps_all m l : literal_state m l -> m_comp m <> 0 ->
  export_pkts m = Some [PComp (m_comp m) (ops_list (m_sigs m) ++ [PLit l] ++ map PSig (m_sigs m))].
Proof.
  intros H Hc. unfold export_pkts. rewrite (iter_literal m l H). unfold is_compressed.
  destruct (m_comp m =? 0) eqn:E; [apply Z.eqb_eq in E; contradiction|reflexivity].
Qed.

Theorem uncompressed_export m l : literal_state m l -> m_comp m = 0 ->
  export_pkts m = Some (ops_list (m_sigs m) ++ [PLit l] ++ map PSig (m_sigs m)).
Proof. intros H Hc. unfold export_pkts. rewrite (iter_literal m l H). unfold is_compressed. rewrite Hc. reflexivity. Qed.

(* ================================================================== encrypted messages *)
Inductive eop := EAddSig (s : sigd) | EEncrypt (skesk : bytes) (ct : bytes).
Definition apply_eop (m : msg) (e : eop) : msg :=
  match e with EAddSig s => add_sig m s | EEncrypt k ct => encrypt_msg m (PSkesk k) ct end.

Definition is_esk_pkt (p : pkt) : Prop := match p with PPkesk _ | PSkesk _ => True | _ => False end.
Definition enc_inv (m : msg) : Prop :=
  (exists i ct, m_body m = BEnc i ct) /\ m_comp m = 0 /\ m_esk m <> [] /\ Forall is_esk_pkt (m_esk m).

Lemma enc_inv_step m e : enc_inv m -> enc_inv (apply_eop m e).
Proof.
  intros ((i & ct & Hb) & Hc & Hn & Hf). destruct e as [s|k c]; cbn.
  - repeat split; cbn; eauto.
  - unfold encrypt_msg, is_encrypted. rewrite Hb. repeat split; cbn; eauto; [discriminate|]. constructor; [exact I|assumption].
Qed.

Lemma enc_inv_first m k ct : is_encrypted m = false -> enc_inv (encrypt_msg m (PSkesk k) ct).
Proof.
  intro H. unfold encrypt_msg. rewrite H. repeat split; cbn; eauto; [discriminate|]. constructor; [exact I|constructor].
Qed.

Lemma esk_toks esks : Forall is_esk_pkt esks -> Forall is_esk (toks esks).
Proof.
  induction 1 as [|p esks Hp _ IH]; cbn; constructor; [|assumption].
  destruct p; try (destruct Hp; fail); [left|right]; reflexivity.
Qed.

Lemma sigs_then_message sigs rest : Message (toks rest) -> Message (toks (map PSig sigs ++ rest)).
Proof. intro H. induction sigs as [|s sigs IH]; [assumption|]. cbn. apply M_signed; [exact I|exact IH]. Qed.

Lemma enc_inv_shape m : enc_inv m ->
  exists i ct, export_pkts m = Some (map PSig (m_sigs m) ++ m_esk m ++ [enc_pkt i ct]) /\
    Message (toks (map PSig (m_sigs m) ++ m_esk m ++ [enc_pkt i ct])).
Proof.
  intros ((i & ct & Hb) & Hc & Hn & Hf). exists i, ct. unfold export_pkts, iter_packets, iter_with, is_compressed.
  rewrite Hb, Hc. split; [reflexivity|]. apply sigs_then_message. unfold toks. rewrite map_app. apply M_encrypted.
  - apply esk_toks; assumption.
  - destruct i; [right|left]; reflexivity.
Qed.

(* any message, encrypted (once or repeatedly) and signed before / after in any order: signatures, then at least one
   session-key packet, then exactly one encrypted container *)
Theorem encrypted_shape m0 k ct ops : is_encrypted m0 = false ->
  let m := fold_left apply_eop ops (encrypt_msg m0 (PSkesk k) ct) in
  exists sigs esks c, export_pkts m = Some (map PSig sigs ++ esks ++ [c]) /\
    esks <> [] /\ Forall is_esk_pkt esks /\ (exists i ct', c = enc_pkt i ct') /\
    Message (toks (map PSig sigs ++ esks ++ [c])).
Proof.
  intros H m. assert (I : enc_inv m).
  { subst m. generalize (enc_inv_first m0 k ct H). generalize (encrypt_msg m0 (PSkesk k) ct).
    induction ops as [|e ops IH]; intros mm Hm; [assumption|]. cbn. apply IH, enc_inv_step, Hm. }
  destruct (enc_inv_shape m I) as (i & ct' & E & G). destruct I as (_ & _ & Hn & Hf).
  exists (m_sigs m), (m_esk m), (enc_pkt i ct'). repeat split; eauto.
Qed.

(* ================================================================== insort / import(export) at packet level *)
Fixpoint sorted_sigs (l : list sigd) : Prop :=
  match l with
  | [] => True
  | x :: r => Forall (fun y => s_created x <= s_created y) r /\ sorted_sigs r
  end.

Lemma insort_forall (P : sigd -> Prop) s l : P s -> Forall P l -> Forall P (insort s l).
Proof.
  intros Hs Hl. induction Hl as [|x r Hx Hr IH]; cbn; [constructor; auto|].
  destruct (s_created s <? s_created x); constructor; auto.
Qed.

Lemma insort_sorted s l : sorted_sigs l -> sorted_sigs (insort s l).
Proof.
  induction l as [|x r IH]; intro H; cbn; [auto|]. destruct H as [Hx Hr].
  destruct (s_created s <? s_created x) eqn:E.
  - cbn. split; [|split; assumption]. constructor; [lia|].
    eapply Forall_impl; [|exact Hx]. cbn. intros; lia.
  - cbn. split; [|apply IH; assumption]. apply insort_forall; [lia|assumption].
Qed.

Lemma add_sigs_sigs m ss : m_sigs (add_sigs m ss) = fold_left (fun acc s => insort s acc) ss (m_sigs m).
Proof. unfold add_sigs. revert m; induction ss as [|s ss IH]; intro m; cbn [fold_left]; [reflexivity|]. rewrite IH. reflexivity. Qed.

Theorem add_sigs_sorted m ss : sorted_sigs (m_sigs m) -> sorted_sigs (m_sigs (add_sigs m ss)).
Proof.
  rewrite add_sigs_sigs. generalize (m_sigs m). induction ss as [|s ss IH]; intros l H; cbn; [assumption|].
  apply IH, insort_sorted, H.
Qed.

(* a signature not earlier than all present ones goes to the end (bisect_right: also after equal times) *)
Lemma insort_last s l : Forall (fun y => s_created y <= s_created s) l -> insort s l = l ++ [s].
Proof.
  induction 1 as [|x r Hx _ IH]; cbn; [reflexivity|].
  destruct (s_created s <? s_created x) eqn:E; [lia|]. rewrite IH. reflexivity.
Qed.

Lemma sorted_app_inv a x l : sorted_sigs (a ++ x :: l) -> Forall (fun y => s_created y <= s_created x) a.
Proof.
  induction a as [|y a IH]; cbn; intro H; [constructor|]. destruct H as [Hy Hs]. constructor.
  - rewrite Forall_forall in Hy. apply Hy. apply in_or_app. right. left. reflexivity.
  - apply IH, Hs.
Qed.

Lemma fold_insort_sorted l : forall acc, sorted_sigs (acc ++ l) -> fold_left (fun a s => insort s a) l acc = acc ++ l.
Proof.
  induction l as [|x l IH]; intros acc H; cbn; [rewrite app_nil_r; reflexivity|].
  rewrite (insort_last x acc (sorted_app_inv _ _ _ H)). rewrite IH; rewrite <- app_assoc; [reflexivity|exact H].
Qed.

Lemma fold_opt_none {A B} (f : A -> B -> option A) l : fold_opt f l None = None.
Proof. destruct l; reflexivity. Qed.
Lemma fold_opt_app {A B} (f : A -> B -> option A) l1 l2 a : fold_opt f (l1 ++ l2) a = fold_opt f l2 (fold_opt f l1 a).
Proof.
  revert a; induction l1 as [|x l1 IH]; intro a; cbn [app fold_opt]; [reflexivity|].
  destruct a as [a|]; [apply IH|]. rewrite fold_opt_none. reflexivity.
Qed.

Lemma import_ops m sigs : fold_opt or_pkt (ops_list sigs) (Some m) = Some m.
Proof.
  unfold ops_list. induction (rev (indexed sigs)) as [|p r IH]; cbn; [reflexivity|exact IH].
Qed.

Lemma import_sigs sigs : forall m, fold_opt or_pkt (map PSig sigs) (Some m) = Some (add_sigs m sigs).
Proof. induction sigs as [|s sigs IH]; intro m; cbn; [reflexivity|apply IH]. Qed.

Lemma add_sigs_from_empty c l sg : sorted_sigs sg ->
  add_sigs {| m_comp := c; m_body := BLit l; m_mdc := None; m_sigs := []; m_esk := [] |} sg
  = {| m_comp := c; m_body := BLit l; m_mdc := None; m_sigs := sg; m_esk := [] |}.
Proof.
  intro Hs. set (M := {| m_comp := c; m_body := BLit l; m_mdc := None; m_sigs := []; m_esk := [] |}).
  destruct (add_sigs_fields M sg) as (a & b & cc & e). pose proof (add_sigs_sigs M sg) as S.
  change (m_sigs M) with (@nil sigd) in S. rewrite (fold_insort_sorted sg [] Hs) in S. cbn [app] in S.
  destruct (add_sigs M sg); cbn in *; subst; reflexivity.
Qed.

Definition importable (m : msg) (l : litd) : Prop :=
  literal_state m l /\ m_esk m = [] /\ sorted_sigs (m_sigs m).

(* import(export) is the identity on every state PGPMessage.new + signing reaches: content, name, time, format,
   compression, signature list (hence multiset) *)
Theorem import_export_state m l : importable m l ->
  exists ps, export_pkts m = Some ps /\ import_pkts ps = Some m.
Proof.
  intros (H & He & Hs).
  assert (core : forall c, fold_opt or_pkt (ops_list (m_sigs m) ++ [PLit l] ++ map PSig (m_sigs m)) (Some (set_comp empty_msg c))
                 = Some {| m_comp := c; m_body := BLit l; m_mdc := None; m_sigs := m_sigs m; m_esk := [] |}).
  { intro c. rewrite fold_opt_app, import_ops, fold_opt_app. cbn [fold_opt or_pkt has_body set_comp empty_msg m_body].
    change (fold_opt or_pkt (map PSig (m_sigs m)) (Some (set_body {| m_comp := c; m_body := BNone; m_mdc := None; m_sigs := []; m_esk := [] |} (BLit l))))
      with (fold_opt or_pkt (map PSig (m_sigs m)) (Some {| m_comp := c; m_body := BLit l; m_mdc := None; m_sigs := []; m_esk := [] |})).
    rewrite import_sigs. f_equal. apply add_sigs_from_empty. exact Hs. }
  destruct H as [Hb Hm]. destruct m as [c b md sg ek]. cbn [m_body m_mdc m_esk m_sigs] in Hb, Hm, He, Hs, core. subst b md ek.
  unfold export_pkts, iter_packets, iter_with, is_compressed. cbn [m_body m_mdc m_sigs m_comp].
  destruct (negb (c =? 0)) eqn:E.
  - eexists. split; [reflexivity|]. unfold import_pkts. cbn [fold_opt or_pkt]. apply core.
  - eexists. split; [reflexivity|]. unfold import_pkts. apply negb_false_iff, Z.eqb_eq in E. subst c. apply (core 0).
Qed.

Theorem import_export l comp added :
  let m := add_sigs (new_msg l comp) added in
  exists ps, export_pkts m = Some ps /\ import_pkts ps = Some m.
Proof.
  intro m. apply (import_export_state m l). destruct (add_sigs_fields (new_msg l comp) added) as (_ & b & c & e).
  repeat split; [subst m; rewrite b; reflexivity|subst m; rewrite c; reflexivity|subst m; rewrite e; reflexivity|].
  apply add_sigs_sorted. exact I.
Qed.

(* a stray MDC packet (what decryption leaves in the message object) is exported in the clear, outside the grammar *)
Theorem export_with_mdc_refuted :
  exists m ps, import_pkts [PLit lit_example; PMdc [0]] = Some m /\ export_pkts m = Some ps /\ is_message (toks ps) = false.
Proof. eexists. eexists. split; [reflexivity|]. split; [reflexivity|]. vm_compute. reflexivity. Qed.
