(* C20 proofs, part 2: literal / one-pass body codecs, their agreement with the RFC decoders, text read-back,
   byte-level parse(emit) round trip under the decompress(compress) premise, framings of other producers. *)
From Coq Require Import ZArith List Bool Lia ZifyBool Arith.
Import ListNotations.
Require Import PV.Lib.Bytes PV.Lib.BytesLemmas PV.Model.Wire PV.Model.Message PV.Spec.Rfc4880_msg PV.Model.Message_abs.
Require Import PV.Proofs.Wire_lemmas PV.Proofs.Wire_lemmas2 PV.Proofs.Message_lemmas.
Open Scope Z_scope.

Definition small (b : bytes) : Prop := Z.of_nat (length b) < 4294967296.

(* ================================================================== Python slices on exact lengths *)
Lemma clamp_exact b r : clamp (Z.of_nat (length b)) (b ++ r) = length b.
Proof. unfold clamp. rewrite app_length. lia. Qed.
Lemma py_take_exact b r : py_take (Z.of_nat (length b)) (b ++ r) = b.
Proof.
  unfold py_take. destruct (Z.of_nat (length b) <? 0) eqn:E; [lia|]. rewrite clamp_exact. apply firstn_app_exact. reflexivity.
Qed.
Lemma py_drop_exact b r : py_drop (Z.of_nat (length b)) (b ++ r) = r.
Proof.
  unfold py_drop. destruct (Z.of_nat (length b) <? 0) eqn:E; [lia|]. rewrite clamp_exact. apply skipn_app_exact. reflexivity.
Qed.
(* clamping does not change the slice *)
Lemma py_take_spec k l : 0 <= k -> py_take k l = firstn (Z.to_nat k) l.
Proof.
  intro H. unfold py_take, clamp. destruct (k <? 0) eqn:E; [lia|].
  destruct (Z.le_ge_cases k (Z.of_nat (length l))) as [L|G].
  - rewrite Z.min_l by lia. reflexivity.
  - rewrite Z.min_r by lia. rewrite Nat2Z.id, firstn_all. symmetry. apply firstn_all2. lia.
Qed.

(* ================================================================== literal data body *)
Lemma be4_value a b c d : unbe [a; b; c; d] = a * 16777216 + b * 65536 + c * 256 + d.
Proof. unfold unbe. cbn [unbe_acc]. lia. Qed.

(* the model parser agrees with the RFC 4880 5.9 decoder on every body the RFC decoder accepts *)
Theorem lit_parse_eq_rfc body r f name t data : wf_bytes body ->
  rfc_lit_dec body = Some (f, name, t, data) ->
  lit_parse (Z.of_nat (length body)) (body ++ r)
  = Some ({| l_format := f; l_name := name; l_mtime := t; l_data := data |}, r).
Proof.
  intros Hwf H. destruct body as [|f0 [|n r0]]; try discriminate. cbn [rfc_lit_dec] in H.
  destruct (Z.to_nat n + 4 <=? length r0)%nat eqn:E; [|discriminate]. apply Nat.leb_le in E.
  destruct (skipn (Z.to_nat n) r0) as [|a [|b [|c [|d data0]]]] eqn:S; try discriminate.
  inversion H; subst; clear H.
  assert (Hn : 0 <= n < 256).
  { inversion Hwf as [|? ? _ Hw]; subst. inversion Hw; subst. assumption. }
  assert (L : length r0 = (Z.to_nat n + (4 + length data))%nat).
  { pose proof (firstn_skipn (Z.to_nat n) r0) as FS. rewrite S in FS. rewrite <- FS at 1.
    rewrite app_length, firstn_length_le by lia. cbn [length]. lia. }
  cbn [app lit_parse].
  assert (F1 : firstn (Z.to_nat n) (r0 ++ r) = firstn (Z.to_nat n) r0).
  { rewrite firstn_app. replace (Z.to_nat n - length r0)%nat with 0%nat by lia. cbn [firstn]. apply app_nil_r. }
  assert (S1 : skipn (Z.to_nat n) (r0 ++ r) = a :: b :: c :: d :: data ++ r).
  { rewrite skipn_app. replace (Z.to_nat n - length r0)%nat with 0%nat by lia. cbn [skipn]. rewrite S. reflexivity. }
  rewrite F1, S1. cbn [firstn skipn]. rewrite be4_value.
  replace (Z.of_nat (length (f :: n :: r0)) <? 6 + n) with false by (cbn [length]; lia).
  replace (Z.of_nat (length (f :: n :: r0)) - (6 + n)) with (Z.of_nat (length data)) by (cbn [length]; lia).
  rewrite py_take_exact, py_drop_exact. reflexivity.
Qed.

(* ... and on no other: whatever the model parser accepts of a packet body (followed by anything) the RFC decoder accepts with the
   same fields, and the octets after the body are left alone.  (False before 08ffd01: a name length beyond the body took the name,
   the date and the data from the octets that follow.) *)
Theorem lit_parse_only_rfc body r l r' : wf_bytes body -> wf_bytes r ->
  lit_parse (Z.of_nat (length body)) (body ++ r) = Some (l, r') ->
  rfc_lit_dec body = Some (l_format l, l_name l, l_mtime l, l_data l) /\ r' = r.
Proof.
  intros Hwf Hr H.
  assert (X : exists f name t data, rfc_lit_dec body = Some (f, name, t, data)).
  { destruct body as [|f0 [|n r0]].
    - (* empty body: format and name length would be octets of what follows *)
      exfalso. cbn [app length Z.of_nat] in H. destruct r as [|a [|b r2]]; try discriminate H. cbn [lit_parse] in H.
      assert (0 <= b < 256) by (inversion Hr as [|? ? _ Hw]; subst; inversion Hw; subst; assumption).
      replace (0 <? 6 + b) with true in H by lia. discriminate H.
    - exfalso. cbn [app length] in H. destruct r as [|b r2]; try discriminate H. cbn [lit_parse] in H.
      assert (0 <= b < 256) by (inversion Hr; subst; assumption).
      replace (Z.of_nat 1 <? 6 + b) with true in H by lia. discriminate H.
    - assert (Hn : 0 <= n < 256).
      { inversion Hwf as [|? ? _ Hw]; subst. inversion Hw; subst. assumption. }
      cbn [app lit_parse] in H.
      destruct (Z.of_nat (length (f0 :: n :: r0)) <? 6 + n) eqn:G; [discriminate H|]. cbn [length] in G.
      cbn [rfc_lit_dec].
      assert (E : (Z.to_nat n + 4 <= length r0)%nat) by lia.
      apply Nat.leb_le in E. rewrite E. apply Nat.leb_le in E.
      pose proof (skipn_length (Z.to_nat n) r0) as SL.
      destruct (skipn (Z.to_nat n) r0) as [|a [|b [|c [|d data0]]]] eqn:S; cbn [length] in SL; try lia.
      eauto. }
  destruct X as (f & name & t & data & X).
  rewrite (lit_parse_eq_rfc body r f name t data Hwf X) in H.
  inversion H; subst; clear H. cbn [l_format l_name l_mtime l_data]. split; [exact X|reflexivity].
Qed.

Lemma latin1_ok_wf t : latin1_ok t = true -> wf_bytes t.
Proof.
  unfold latin1_ok. intro H. apply Forall_forall. intros x Hx. rewrite forallb_forall in H. specialize (H x Hx). lia.
Qed.

(* what LiteralData.__bytearray__ emits is what the RFC decoder reads *)
Lemma lit_body_rfc l b : lit_body l = Some b ->
  rfc_lit_dec b = Some (l_format l, l_name l, l_mtime l, l_data l).
Proof.
  unfold lit_body. intros H.
  destruct ((0 <=? l_format l) && (l_format l <? 256) && (Z.of_nat (length (l_name l)) <=? 255) && latin1_ok (l_name l) && (0 <=? l_mtime l) && (l_mtime l <? 4294967296)) eqn:C; [|discriminate].
  inversion H; subst; clear H. repeat (apply andb_prop in C as [C ?]).
  rewrite (int_to_bytes_fits (l_mtime l) 4) by (change (256 ^ 4) with 4294967296; lia).
  change (Z.to_nat 4) with 4%nat. destruct (be4_shape (l_mtime l)) as (a & b & c & d & B).
  pose proof (unbe_be 4 (l_mtime l)) as U. change (256 ^ Z.of_nat 4) with 4294967296 in U. rewrite B, be4_value in U.
  cbn [app rfc_lit_dec]. rewrite Nat2Z.id.
  replace (length (l_name l) + 4 <=? length (l_name l ++ be 4 (l_mtime l) ++ l_data l))%nat with true
    by (symmetry; apply Nat.leb_le; rewrite !app_length, length_be; lia).
  rewrite (firstn_app_exact (l_name l)) by reflexivity. rewrite (skipn_app_exact (l_name l)) by reflexivity.
  rewrite B. cbn [app]. rewrite U by lia. reflexivity.
Qed.

Lemma lit_body_wf l b : lit_body l = Some b -> wf_bytes (l_data l) -> wf_bytes b.
Proof.
  unfold lit_body. intros H Hd.
  destruct ((0 <=? l_format l) && (l_format l <? 256) && (Z.of_nat (length (l_name l)) <=? 255) && latin1_ok (l_name l) && (0 <=? l_mtime l) && (l_mtime l <? 4294967296)) eqn:C; [|discriminate].
  inversion H; subst; clear H. repeat (apply andb_prop in C as [C ?]).
  cbn [app]. constructor; [lia|]. constructor; [lia|].
  apply wf_bytes_app. split; [apply latin1_ok_wf; assumption|]. apply wf_bytes_app. split; [unfold int_to_bytes; apply wf_be|assumption].
Qed.

(* round trip of the literal body: consumes exactly its own length, following data untouched *)
Theorem lit_roundtrip l b r : lit_body l = Some b -> wf_bytes (l_data l) ->
  lit_parse (Z.of_nat (length b)) (b ++ r) = Some (l, r).
Proof.
  intros H Hd. rewrite (lit_parse_eq_rfc b r _ _ _ _ (lit_body_wf l b H Hd) (lit_body_rfc l b H)).
  destruct l; reflexivity.
Qed.

(* a time that does not fit four octets is refused, never emitted *)
Theorem lit_time_refused l : 4294967296 <= l_mtime l -> lit_body l = None.
Proof.
  intro H. unfold lit_body. replace (l_mtime l <? 4294967296) with false by lia. rewrite andb_false_r. reflexivity.
Qed.
Theorem lit_body_time l b : lit_body l = Some b -> 0 <= l_mtime l < 4294967296.
Proof.
  unfold lit_body. destruct ((0 <=? l_format l) && (l_format l <? 256) && (Z.of_nat (length (l_name l)) <=? 255) && latin1_ok (l_name l) && (0 <=? l_mtime l) && (l_mtime l <? 4294967296)) eqn:C; [|discriminate].
  intros _. repeat (apply andb_prop in C as [C ?]). lia.
Qed.

(* the emitter before the repair: a time after 2106-02-07 came out as five octets and was read back differently *)
Theorem lit_time_overflow_prefix_refuted :
  exists l b l' r', lit_body_prefix l = Some b /\ lit_parse (Z.of_nat (length b)) (b ++ [170]) = Some (l', r') /\
    l_mtime l' <> l_mtime l /\ l_data l' <> l_data l.
Proof.
  exists {| l_format := 98; l_name := []; l_mtime := 4294967296; l_data := [97; 98; 99] |}.
  eexists. eexists. eexists. split; [vm_compute; reflexivity|]. split; [vm_compute; reflexivity|].
  split; vm_compute; discriminate.
Qed.

(* ================================================================== one-pass signature body *)
Lemma list8 (k : bytes) : length k = 8%nat -> exists a b c d e f g h, k = [a; b; c; d; e; f; g; h].
Proof.
  intro H. do 8 (destruct k as [|? k]; [discriminate|]). destruct k; [|discriminate]. repeat eexists.
Qed.

Theorem ops_roundtrip o r : length (o_keyid o) = 8%nat -> memz (o_type o) sigtypes = true -> memz (o_pkalg o) pkalgs = true ->
  exists b', ops_body o = 3 :: b' /\ ops_parse (b' ++ r) = Some (o, r) /\ length (ops_body o) = 13%nat.
Proof.
  intros Hk Ht Ha. eexists. split; [reflexivity|]. destruct (list8 _ Hk) as (a & b & c & d & e & f & g & h & K).
  split.
  - cbn [app ops_parse]. rewrite Ht, Ha. cbn [andb]. rewrite K. cbn [app skipn firstn].
    destruct o as [t hh aa kk fl]; cbn in *; subst. destruct fl; reflexivity.
  - unfold ops_body. rewrite !app_length, Hk. reflexivity.
Qed.

(* the emitted body is the RFC 4880 5.4 body: version 3, type, hash, pk algorithm, key id, flag octet *)
Theorem ops_body_rfc o : length (o_keyid o) = 8%nat ->
  rfc_ops_dec (ops_body o) = Some (o_type o, o_halg o, o_pkalg o, o_keyid o, if o_flag o then 1 else 0).
Proof.
  intro Hk. destruct (list8 _ Hk) as (a & b & c & d & e & f & g & h & K). unfold ops_body. rewrite K. reflexivity.
Qed.

(* ================================================================== text read back *)
(* Unicode scalar values: what str.encode('utf-8') accepts *)
Definition valid_cp (c : Z) : bool := (0 <=? c) && (c <? 1114112) && negb ((55296 <=? c) && (c <? 57344)).

Ltac tst := match goal with |- context [if ?a <? ?b then _ else _] => let E := fresh "E" in destruct (a <? b) eqn:E; try lia end.
Ltac tstb := match goal with |- context [if ?b then _ else _] => replace b with true by (symmetry; unfold cont; lia) end.

Lemma utf8_decode_cp c rest : valid_cp c = true -> utf8_decode (utf8_cp c ++ rest) = option_map (cons c) (utf8_decode rest).
Proof.
  unfold valid_cp. intro V. unfold utf8_cp.
  pose proof (Z.div_mod c 64 ltac:(discriminate)) as D1. pose proof (Z.mod_pos_bound c 64 eq_refl) as B1.
  pose proof (Z.div_mod (c / 64) 64 ltac:(discriminate)) as D2. pose proof (Z.mod_pos_bound (c / 64) 64 eq_refl) as B2.
  pose proof (Z.div_mod (c / 64 / 64) 64 ltac:(discriminate)) as D3. pose proof (Z.mod_pos_bound (c / 64 / 64) 64 eq_refl) as B3.
  replace (c / 4096) with (c / 64 / 64) by (rewrite Z.div_div by lia; reflexivity).
  replace (c / 262144) with (c / 64 / 64 / 64) by (rewrite !Z.div_div by lia; reflexivity).
  remember (c mod 64) as r0. remember (c / 64) as q1. remember (q1 mod 64) as r1. remember (q1 / 64) as q2.
  remember (q2 mod 64) as r2. remember (q2 / 64) as q3.
  destruct (c <? 128) eqn:C1; [|destruct (c <? 2048) eqn:C2; [|destruct (c <? 65536) eqn:C3]]; cbn [app utf8_decode].
  - rewrite C1. replace (0 <=? c) with true by lia. reflexivity.
  - repeat tst. tstb. do 2 f_equal. lia.
  - repeat tst. tstb. do 2 f_equal. lia.
  - repeat tst. tstb. do 2 f_equal. lia.
Qed.

(* the strict UTF-8 decoder inverts text_to_bytes on every Python string that can be encoded *)
Theorem utf8_roundtrip t : forallb valid_cp t = true -> utf8_decode (utf8 t) = Some t.
Proof.
  induction t as [|c t IH]; cbn [forallb utf8 flat_map]; intro H; [reflexivity|].
  apply andb_prop in H as [Hc Ht]. fold (utf8 t). rewrite (utf8_decode_cp c (utf8 t) Hc), (IH Ht). reflexivity.
Qed.

(* text given to PGPMessage.new with a textual format reads back as the same text, for every Unicode string *)
Theorem text_roundtrip fmt name mtime t comp : fmt = 116 \/ fmt = 117 -> forallb valid_cp t = true ->
  match m_body (new_text fmt name mtime t comp) with BLit l => contents l = VText t | _ => False end.
Proof.
  intros F V. unfold new_text, new_msg. cbn [m_body]. unfold contents. cbn [l_format l_data].
  rewrite (utf8_roundtrip t V). destruct F as [-> | ->]; reflexivity.
Qed.

(* the reader before the repair: format 't' was decoded latin-1 although stored as UTF-8 *)
Theorem text_t_prefix_refuted :
  exists t, forallb valid_cp t = true /\
    contents_prefix {| l_format := 116; l_name := []; l_mtime := 0; l_data := utf8 t |} <> VText t.
Proof. exists [233]. split; [reflexivity|vm_compute; discriminate]. Qed.

(* text of another producer that is not UTF-8 is still readable: latin-1, code point = octet *)
Theorem text_t_foreign_latin1 l : l_format l = 116 -> utf8_decode (l_data l) = None -> contents l = VText (l_data l).
Proof. intros F N. unfold contents. rewrite F, N. reflexivity. Qed.

(* every other format marker hands back the stored octets *)
Theorem contents_octets l : l_format l <> 116 -> l_format l <> 117 -> contents l = VBytes (l_data l).
Proof.
  intros H1 H2. unfold contents. destruct (l_format l =? 116) eqn:E1; [lia|]. destruct (l_format l =? 117) eqn:E2; [lia|]. reflexivity.
Qed.

(* ================================================================== framing *)
Lemma frame_parse tag body x y : 0 <= tag < 64 -> small body -> frame tag body = Some x ->
  x <> [] /\ exists h, header_parse (x ++ y) = Some (h, body ++ y) /\ h_tag h = tag /\ h_len h = Z.of_nat (length body).
Proof.
  intros Ht Hs H. unfold frame in H.
  destruct (new_header_roundtrip tag (Z.of_nat (length body)) 1 (body ++ y) Ht) as (bs & h' & E & P & T & L & _); [unfold small in Hs; lia|].
  rewrite E in H. inversion H; subst; clear H. split.
  - destruct bs; [|discriminate]. cbn in P. exfalso.
    unfold header_emit in E. cbn [h_lenfmt] in E. change (negb (1 =? 0)) with true in E. cbv iota in E.
    inversion E as [E']. apply (f_equal (@length Z)) in E'. rewrite app_length, length_int_to_bytes in E'. cbn [length] in E'. lia.
  - exists h'. rewrite <- app_assoc. auto.
Qed.

(* the body parsers look only at the tag, the length and the octets after the header: framing is irrelevant *)
Theorem parse_one_framing decompress rec b1 b2 h1 h2 r :
  header_parse b1 = Some (h1, r) -> header_parse b2 = Some (h2, r) -> h_tag h1 = h_tag h2 -> h_len h1 = h_len h2 ->
  parse_one decompress rec b1 = parse_one decompress rec b2.
Proof. intros P1 P2 T L. unfold parse_one. rewrite P1, P2, T, L. reflexivity. Qed.

(* a literal data packet (tag 11) and a modification detection code packet (tag 19) are read out of the octets their header declares:
   whatever follows the declared body is what is left, untouched, for the next packet -- or the packet is refused.  (False before
   9b50cd0 / 08ffd01: tag 19 took 20 octets whatever was declared, tag 11 took name, date and data from what follows.) *)
Theorem parse_one_literal_mdc_confined decompress rec b h body r p r' : wf_bytes body -> wf_bytes r ->
  header_parse b = Some (h, body ++ r) -> h_len h = Z.of_nat (length body) -> h_tag h = 11 \/ h_tag h = 19 ->
  parse_one decompress rec b = Ok (p, r') -> r' = r.
Proof.
  intros Hb Hr HP Ln [T|T] H; unfold parse_one in H; rewrite HP, T, Ln in H; cbn [Z.eqb Pos.eqb] in H.
  - destruct (lit_parse (Z.of_nat (length body)) (body ++ r)) as [[l r0]|] eqn:L; [|discriminate H].
    inversion H; subst; clear H. exact (proj2 (lit_parse_only_rfc body r l r' Hb Hr L)).
  - destruct (Z.of_nat (length body) =? 20) eqn:E; [|discriminate H].
    assert (Hl : length body = 20%nat) by lia.
    rewrite skipn_app_exact in H by exact Hl. congruence.
Qed.

(* partial body lengths written by frame_partial reassemble to the body *)
Lemma enc_chunks_eq cs last : Message.encode_chunks cs last = Wire_lemmas.encode_chunks cs last.
Proof. induction cs as [|[k d] cs IH]; cbn; [reflexivity|]. rewrite IH. reflexivity. Qed.

Lemma split_chunks_ok ks : forall body cs last, Forall (fun k => 0 <= k < 31) ks -> split_chunks ks body = (cs, last) ->
  Forall chunk_ok cs /\ chunks_data cs ++ last = body /\ (chunks_len cs + length last = length body)%nat.
Proof.
  induction ks as [|k ks IH]; intros body cs last Hk H; cbn [split_chunks] in H.
  - inversion H; subst. repeat split; constructor.
  - inversion Hk as [|? ? Hk0 Hks]; subst.
    destruct (Z.to_nat (2 ^ k) <=? length body)%nat eqn:E.
    + destruct (split_chunks ks (skipn (Z.to_nat (2 ^ k)) body)) as [cs' last'] eqn:S. inversion H; subst; clear H.
      destruct (IH _ _ _ Hks S) as (F & D & L). apply Nat.leb_le in E.
      assert (P : 0 < 2 ^ k) by (apply Z.pow_pos_nonneg; lia).
      repeat split.
      * constructor; [|assumption]. split; [assumption|]. cbn [snd fst]. rewrite firstn_length_le by lia. lia.
      * cbn [chunks_data flat_map snd]. fold (chunks_data cs'). rewrite <- app_assoc, D. apply firstn_skipn.
      * cbn [chunks_len fold_right snd]. fold (chunks_len cs'). rewrite firstn_length_le by lia.
        rewrite skipn_length in L. lia.
    + inversion H; subst. repeat split; constructor.
Qed.

Lemma tag_octet_sweep : forallb (fun t => (192 + t =? Z.lor (Z.lor 128 (Z.shiftl 1 6)) t)) tags64 = true.
Proof. vm_compute. reflexivity. Qed.

Theorem frame_partial_parse tag ks body r : 0 <= tag < 64 -> Forall (fun k => 0 <= k < 31) ks -> small body ->
  exists h, header_parse (frame_partial tag ks body ++ r) = Some (h, body ++ r) /\ h_tag h = tag /\ h_len h = Z.of_nat (length body).
Proof.
  intros Ht Hk Hs. unfold frame_partial. destruct (split_chunks ks body) as [cs last] eqn:S.
  destruct (split_chunks_ok ks body cs last Hk S) as (F & D & L).
  pose proof (proj1 (forallb_forall _ tags64) tag_octet_sweep tag (in_tags64 tag Ht)) as O. cbv beta in O. apply Z.eqb_eq in O.
  pose proof (proj1 (forallb_forall new_tag_ok tags64) new_tag_sweep tag (in_tags64 tag Ht)) as K.
  unfold new_tag_ok in K. cbv zeta in K. rewrite <- O in K. repeat (apply andb_prop in K as [K ?]).
  assert (Hl : Z.of_nat (length last) < 4294967296) by (unfold small in Hs; lia).
  cbn [app]. unfold header_parse.
  replace (Z.shiftr (Z.land (192 + tag) 64) 6) with 1 by lia. change (1 =? 0) with false. change (1 =? 1) with true. cbv iota.
  rewrite enc_chunks_eq.
  destruct cs as [|[k d] cs].
  - cbn [Wire_lemmas.encode_chunks]. rewrite <- app_assoc. rewrite new_len_roundtrip by lia.
    cbn in D, L. subst body. eexists. split; [reflexivity|]. cbn [h_tag h_len]. split; [lia|reflexivity].
  - rewrite (partial_reassembly k d cs last r F Hl).
    eexists. split; [rewrite <- D, <- app_assoc; reflexivity|]. cbn [h_tag h_len]. split; [lia|]. rewrite <- L. reflexivity.
Qed.

(* old-format headers (1, 2, 4 octet length) written by frame_old *)
Theorem frame_old_parse tag w body x r : 0 <= tag < 16 -> (w = 1 \/ w = 2 \/ w = 4) -> small body ->
  frame_old tag w body = Some x ->
  exists h, header_parse (x ++ r) = Some (h, body ++ r) /\ h_tag h = tag /\ h_len h = Z.of_nat (length body).
Proof.
  intros Ht Hw Hs H. unfold frame_old in H.
  destruct (old_header_never_narrow tag (Z.of_nat (length body)) w (body ++ r) Ht) as (bs & h' & E & P & T & L & _); [unfold small in Hs; lia|assumption|].
  rewrite E in H. inversion H; subst. exists h'. rewrite <- app_assoc. auto.
Qed.

(* ================================================================== parse (emit packets) *)
Fixpoint pkt_size (p : pkt) : nat :=
  match p with
  | PComp _ inner => S (list_sum (map pkt_size inner))
  | _ => 1%nat
  end.
Definition pkts_size (ps : list pkt) : nat := list_sum (map pkt_size ps).

Lemma pkts_size_cons p ps : pkts_size (p :: ps) = (pkt_size p + pkts_size ps)%nat.
Proof. reflexivity. Qed.
Lemma pkt_size_comp a inner : pkt_size (PComp a inner) = S (pkts_size inner).
Proof. reflexivity. Qed.

Section Bytes.
  Variable compress : Z -> bytes -> bytes.
  Variable decompress : Z -> bytes -> option bytes.
  (* the premise on the primitive: every compression algorithm gives the content back unchanged *)
  Hypothesis compress_roundtrip : forall a x, valid_calg a = true -> decompress a (compress a x) = Some x.

  Inductive wf_pkt : pkt -> Prop :=
  | W_ops o : length (o_keyid o) = 8%nat -> memz (o_type o) sigtypes = true -> memz (o_pkalg o) pkalgs = true -> wf_pkt (POps o)
  | W_sig s b' : s_raw s = 4 :: b' -> sig_peek (s_raw s) = Some s -> small (s_raw s) -> wf_pkt (PSig s)
  | W_lit l b : lit_body l = Some b -> wf_bytes (l_data l) -> small b -> wf_pkt (PLit l)
  | W_comp a inner pb : valid_calg a = true -> Forall wf_pkt inner -> emit_pkts compress inner = Some pb ->
                        small (a :: compress a pb) -> wf_pkt (PComp a inner)
  | W_pkesk b : small (3 :: b) -> wf_pkt (PPkesk (3 :: b))
  | W_skesk b : small (4 :: b) -> wf_pkt (PSkesk (4 :: b))
  | W_sed b : small b -> wf_pkt (PSed b)
  | W_seipd b : small (1 :: b) -> wf_pkt (PSeipd (1 :: b))
  | W_marker b : small b -> wf_pkt (PMarker b)
  | W_mdc b : length b = 20%nat -> wf_pkt (PMdc b).

  Lemma versioned_exact v b y ver mk tag : v = ver ->
    versioned (Z.of_nat (length (v :: b))) ((v :: b) ++ y) ver mk tag = Ok (mk (v :: b), y).
  Proof.
    intro E. unfold versioned. cbn [app]. replace (Z.of_nat (length (v :: b)) - 1) with (Z.of_nat (length b)) by (cbn [length]; lia).
    rewrite py_take_exact, py_drop_exact. subst. rewrite Z.eqb_refl. reflexivity.
  Qed.

  Lemma parse_one_emit rec p x y : wf_pkt p -> emit_pkt compress p = Some x ->
    (forall a inner pb, p = PComp a inner -> emit_pkts compress inner = Some pb -> rec pb = Ok inner) ->
    x <> [] /\ parse_one decompress rec (x ++ y) = Ok (p, y).
  Proof.
    intros W E R. destruct W as [o Hk Ht Ha|s b' Hr Hp Hs|l b Hb Hd Hs|a inner pb Hv Hf He Hs|b Hs|b Hs|b Hs|b Hs|b Hs|b Hl];
      cbn [emit_pkt] in E.
    - (* one-pass *)
      destruct (ops_roundtrip o y Hk Ht Ha) as (b' & B & P & L).
      destruct (frame_parse 4 (ops_body o) x y ltac:(lia) ltac:(unfold small; rewrite L; lia) E) as (NE & h & HP & T & Ln).
      split; [assumption|]. unfold parse_one. rewrite HP, T. cbn [Z.eqb Pos.eqb]. rewrite B. cbn [app]. rewrite P. reflexivity.
    - (* signature *)
      destruct (frame_parse 2 (s_raw s) x y ltac:(lia) Hs E) as (NE & h & HP & T & Ln).
      split; [assumption|]. unfold parse_one. rewrite HP, T, Ln. cbn [Z.eqb Pos.eqb]. rewrite Hr. cbn [app].
      replace (Z.of_nat (length (4 :: b')) - 1) with (Z.of_nat (length b')) by (cbn [length]; lia).
      rewrite py_take_exact, py_drop_exact. cbn [Z.eqb Pos.eqb]. rewrite <- Hr, Hp. reflexivity.
    - (* literal *)
      rewrite Hb in E. destruct (frame_parse 11 b x y ltac:(lia) Hs E) as (NE & h & HP & T & Ln).
      split; [assumption|]. unfold parse_one. rewrite HP, T, Ln. cbn [Z.eqb Pos.eqb].
      rewrite (lit_roundtrip l b y Hb Hd). reflexivity.
    - (* compressed *)
      rewrite Hv in E. fold (emit_pkts compress inner) in E. rewrite He in E.
      destruct (frame_parse 8 (a :: compress a pb) x y ltac:(lia) Hs E) as (NE & h & HP & T & Ln).
      split; [assumption|]. unfold parse_one. rewrite HP, T, Ln. cbn [Z.eqb Pos.eqb]. cbn [app]. rewrite Hv.
      replace (Z.of_nat (length (a :: compress a pb)) - 1) with (Z.of_nat (length (compress a pb))) by (cbn [length]; lia).
      rewrite py_take_exact, py_drop_exact, (compress_roundtrip a pb Hv), (R a inner pb eq_refl He). reflexivity.
    - destruct (frame_parse 1 (3 :: b) x y ltac:(lia) Hs E) as (NE & h & HP & T & Ln).
      split; [assumption|]. unfold parse_one. rewrite HP, T, Ln. cbn [Z.eqb Pos.eqb]. apply versioned_exact. reflexivity.
    - destruct (frame_parse 3 (4 :: b) x y ltac:(lia) Hs E) as (NE & h & HP & T & Ln).
      split; [assumption|]. unfold parse_one. rewrite HP, T, Ln. cbn [Z.eqb Pos.eqb]. apply versioned_exact. reflexivity.
    - destruct (frame_parse 9 b x y ltac:(lia) Hs E) as (NE & h & HP & T & Ln).
      split; [assumption|]. unfold parse_one. rewrite HP, T, Ln. cbn [Z.eqb Pos.eqb]. rewrite py_take_exact, py_drop_exact. reflexivity.
    - destruct (frame_parse 18 (1 :: b) x y ltac:(lia) Hs E) as (NE & h & HP & T & Ln).
      split; [assumption|]. unfold parse_one. rewrite HP, T, Ln. cbn [Z.eqb Pos.eqb]. apply versioned_exact. reflexivity.
    - destruct (frame_parse 10 b x y ltac:(lia) Hs E) as (NE & h & HP & T & Ln).
      split; [assumption|]. unfold parse_one. rewrite HP, T, Ln. cbn [Z.eqb Pos.eqb]. rewrite py_take_exact, py_drop_exact. reflexivity.
    - destruct (frame_parse 19 b x y ltac:(lia) ltac:(unfold small; rewrite Hl; lia) E) as (NE & h & HP & T & Ln).
      split; [assumption|]. unfold parse_one. rewrite HP, T, Ln, Hl. cbn [Z.eqb Pos.eqb Z.of_nat Pos.of_succ_nat Pos.succ].
      rewrite firstn_app_exact, skipn_app_exact by assumption. reflexivity.
  Qed.

  (* tag and body octets of a packet as PGPy frames it *)
  Definition tag_body (p : pkt) : option (Z * bytes) :=
    match p with
    | POps o => Some (4, ops_body o)
    | PSig s => Some (2, s_raw s)
    | PLit l => match lit_body l with Some b => Some (11, b) | None => None end
    | PComp a inner =>
      if valid_calg a then
        match emit_pkts compress inner with Some pb => Some (8, a :: compress a pb) | None => None end
      else None
    | PPkesk b => Some (1, b)
    | PSkesk b => Some (3, b)
    | PSed b => Some (9, b)
    | PSeipd b => Some (18, b)
    | PMarker b => Some (10, b)
    | PMdc b => Some (19, b)
    | POther t b => Some (t, b)
    end.
  Lemma emit_tag_body p : emit_pkt compress p = match tag_body p with Some (t, b) => frame t b | None => None end.
  Proof.
    destruct p; cbn [emit_pkt tag_body]; try reflexivity.
    - destruct (lit_body l); reflexivity.
    - destruct (valid_calg alg); [|reflexivity]. fold (emit_pkts compress inner). destruct (emit_pkts compress inner); reflexivity.
  Qed.
  Lemma wf_tag_body p t b : wf_pkt p -> tag_body p = Some (t, b) -> 0 <= t < 64 /\ small b.
  Proof.
    intros W E. destruct W as [o Hk Ht Ha|s b' Hr Hp Hs|l b0 Hb Hd Hs|a inner pb Hv Hf He Hs|b0 Hs|b0 Hs|b0 Hs|b0 Hs|b0 Hs|b0 Hl];
      cbn [tag_body] in E; try (inversion E; subst; split; [lia|assumption]).
    - inversion E; subst. split; [lia|]. unfold small, ops_body. rewrite !app_length, Hk. cbn [length]. lia.
    - rewrite Hb in E. inversion E; subst. split; [lia|assumption].
    - rewrite Hv, He in E. inversion E; subst. split; [lia|assumption].
    - inversion E; subst. split; [lia|]. unfold small. rewrite Hl. lia.
  Qed.
  Lemma frame_some tag body : 0 <= tag < 64 -> small body -> exists x, frame tag body = Some x.
  Proof.
    intros Ht Hs. unfold frame.
    destruct (new_header_roundtrip tag (Z.of_nat (length body)) 1 [] Ht) as (bs & h' & E & _); [unfold small in Hs; lia|].
    rewrite E. eauto.
  Qed.

  (* a well-formed packet in ANY framing that decodes to its tag, length and body is parsed to the same packet:
     covers partial body lengths and old-format headers of other producers *)
  Theorem foreign_framing_same_packet rec p t b enc y h :
    wf_pkt p -> tag_body p = Some (t, b) ->
    (forall a inner pb, p = PComp a inner -> emit_pkts compress inner = Some pb -> rec pb = Ok inner) ->
    header_parse (enc ++ y) = Some (h, b ++ y) -> h_tag h = t -> h_len h = Z.of_nat (length b) ->
    parse_one decompress rec (enc ++ y) = Ok (p, y).
  Proof.
    intros W E R HP HT HL. destruct (wf_tag_body p t b W E) as (Ht & Hs).
    destruct (frame_some t b Ht Hs) as (x & Fx).
    assert (Ex : emit_pkt compress p = Some x) by (rewrite emit_tag_body, E; exact Fx).
    destruct (parse_one_emit rec p x y W Ex R) as (_ & P).
    destruct (frame_parse t b x y Ht Hs Fx) as (_ & h1 & HP1 & T1 & L1).
    rewrite <- P. apply (parse_one_framing decompress rec (enc ++ y) (x ++ y) h h1 (b ++ y)); [exact HP|exact HP1|rewrite HT, T1; reflexivity|rewrite HL, L1; reflexivity].
  Qed.
  Corollary partial_framing_same_packet rec p t b ks y :
    wf_pkt p -> tag_body p = Some (t, b) ->
    (forall a inner pb, p = PComp a inner -> emit_pkts compress inner = Some pb -> rec pb = Ok inner) ->
    Forall (fun k => 0 <= k < 31) ks ->
    parse_one decompress rec (frame_partial t ks b ++ y) = Ok (p, y).
  Proof.
    intros W E R Hk. destruct (wf_tag_body p t b W E) as (Ht & Hs).
    destruct (frame_partial_parse t ks b y Ht Hk Hs) as (h & HP & T & L).
    apply (foreign_framing_same_packet rec p t b _ y h W E R HP T L).
  Qed.
  Corollary old_framing_same_packet rec p t b w x y :
    wf_pkt p -> tag_body p = Some (t, b) ->
    (forall a inner pb, p = PComp a inner -> emit_pkts compress inner = Some pb -> rec pb = Ok inner) ->
    0 <= t < 16 -> (w = 1 \/ w = 2 \/ w = 4) -> frame_old t w b = Some x ->
    parse_one decompress rec (x ++ y) = Ok (p, y).
  Proof.
    intros W E R Ht Hw Fx. destruct (wf_tag_body p t b W E) as (_ & Hs).
    destruct (frame_old_parse t w b x y Ht Hw Hs Fx) as (h & HP & T & L).
    apply (foreign_framing_same_packet rec p t b _ y h W E R HP T L).
  Qed.

  Lemma emit_pkts_cons p ps b : emit_pkts compress (p :: ps) = Some b ->
    exists x y, emit_pkt compress p = Some x /\ emit_pkts compress ps = Some y /\ b = x ++ y.
  Proof.
    unfold emit_pkts. cbn [concat_opt]. destruct (emit_pkt compress p) as [x|]; [|discriminate].
    fold (concat_opt (emit_pkt compress) ps). destruct (concat_opt (emit_pkt compress) ps) as [y|]; [|discriminate].
    intro H. inversion H. eauto.
  Qed.

  Lemma pkt_size_pos p : (1 <= pkt_size p)%nat.
  Proof. destruct p; cbn; lia. Qed.

  (* PGPy's (model) parser reads back exactly the packets that were emitted; fuel = number of packets incl. nested *)
  Theorem parse_emit : forall fuel ps b, (pkts_size ps < fuel)%nat -> Forall wf_pkt ps ->
    emit_pkts compress ps = Some b -> parse_pkts decompress fuel b = Ok ps.
  Proof.
    induction fuel as [|f IH]; intros ps b Hf W E; [lia|].
    destruct ps as [|p ps].
    - unfold emit_pkts in E. cbn in E. inversion E. reflexivity.
    - destruct (emit_pkts_cons p ps b E) as (x & y & Ex & Ey & ->).
      inversion W as [|? ? Wp Wps]; subst.
      rewrite pkts_size_cons in Hf.
      assert (R : forall a inner pb, p = PComp a inner -> emit_pkts compress inner = Some pb -> parse_pkts decompress f pb = Ok inner).
      { intros a inner pb -> He. apply IH; [rewrite pkt_size_comp in Hf; lia| |assumption].
        inversion Wp; subst; assumption. }
      destruct (parse_one_emit (parse_pkts decompress f) p x y Wp Ex R) as (NE & P).
      cbn [parse_pkts]. destruct (x ++ y) eqn:XY; [destruct x; [contradiction|discriminate]|]. rewrite P.
      rewrite (IH ps y); [reflexivity| |assumption|assumption]. pose proof (pkt_size_pos p). lia.
  Qed.

  (* bytes(message) imported again gives the same message state: content, name, time, format, compression, signatures *)
  Theorem import_export_bytes m l ps b fuel : importable m l -> export_pkts m = Some ps -> Forall wf_pkt ps ->
    emit_pkts compress ps = Some b -> (pkts_size ps < fuel)%nat -> import_bytes decompress fuel b = Ok m.
  Proof.
    intros Hi He W Eb Hf. unfold import_bytes. rewrite (parse_emit fuel ps b Hf W Eb).
    destruct (import_export_state m l Hi) as (ps' & He' & Hm). rewrite He in He'. inversion He'; subst. rewrite Hm. reflexivity.
  Qed.

  (* byte level: the compression packet's body is the algorithm octet and the compressed concatenation of ALL packets *)
  Theorem compressed_export_bytes m l : literal_state m l -> valid_calg (m_comp m) = true -> m_comp m <> 0 ->
    export_bytes compress m =
      match emit_pkts compress (ops_list (m_sigs m) ++ [PLit l] ++ map PSig (m_sigs m)) with
      | Some pb => frame 8 (m_comp m :: compress (m_comp m) pb)
      | None => None
      end.
  Proof.
    intros H Hv Hc. unfold export_bytes. rewrite (compressed_wraps_all m l H Hc). unfold emit_pkts at 1. cbn [concat_opt emit_pkt].
    rewrite Hv. fold (emit_pkts compress (ops_list (m_sigs m) ++ [PLit l] ++ map PSig (m_sigs m))).
    destruct (emit_pkts compress (ops_list (m_sigs m) ++ [PLit l] ++ map PSig (m_sigs m))) as [pb|]; [|reflexivity].
    destruct (frame 8 (m_comp m :: compress (m_comp m) pb)); [rewrite app_nil_r|]; reflexivity.
  Qed.
End Bytes.

(* the premises are satisfiable: a signed, compressed message with the identity "compressor" *)
Definition sig_ok : sigd :=
  {| s_type := 0; s_halg := 8; s_pkalg := 1; s_keyid := [1; 2; 3; 4; 5; 6; 7; 8]; s_created := 1577934245;
     s_raw := [4; 0; 1; 8; 0; 6; 5; 2; 94; 13; 93; 165; 0; 10; 9; 16; 1; 2; 3; 4; 5; 6; 7; 8; 171; 205; 0; 9; 1; 35] |}.
Definition msg_ok : msg := add_sigs (new_msg {| l_format := 116; l_name := [99; 97; 102; 233]; l_mtime := 1577934245; l_data := [104; 105] |} 2) [sig_ok].

Definition id_compress (a : Z) (x : bytes) : bytes := x.
Definition id_decompress (a : Z) (x : bytes) : option bytes := Some x.

Lemma example_premises :
  importable msg_ok {| l_format := 116; l_name := [99; 97; 102; 233]; l_mtime := 1577934245; l_data := [104; 105] |} /\
  exists ps b, export_pkts msg_ok = Some ps /\ Forall (wf_pkt id_compress) ps /\ emit_pkts id_compress ps = Some b /\
    (pkts_size ps < 10)%nat /\ import_bytes id_decompress 10 b = Ok msg_ok.
Proof.
  split.
  - repeat split; try reflexivity. constructor.
  - eexists. eexists. split; [vm_compute; reflexivity|]. split; [|split; [vm_compute; reflexivity|split; [vm_compute; lia|vm_compute; reflexivity]]].
    constructor; [|constructor].
    eapply (W_comp id_compress 2 _ _ eq_refl); [|vm_compute; reflexivity|vm_compute; reflexivity].
    constructor; [apply W_ops; reflexivity|]. constructor.
    + eapply W_lit; [vm_compute; reflexivity|repeat constructor; lia|vm_compute; reflexivity].
    + constructor; [|constructor]. eapply W_sig; [reflexivity|vm_compute; reflexivity|vm_compute; reflexivity].
Qed.

Lemma example_framing_premises :
  wf_pkt id_compress (PLit lit_example) /\ tag_body id_compress (PLit lit_example) = Some (11, [98; 0; 0; 0; 0; 0; 104; 105]).
Proof. split; [eapply W_lit; [vm_compute; reflexivity|repeat constructor; lia|vm_compute; reflexivity]|reflexivity]. Qed.
