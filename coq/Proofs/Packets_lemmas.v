From Coq Require Import ZArith List Bool Lia String.
Import ListNotations.
Require Import PV.Lib.Bytes PV.Model.Wire PV.Model.Fmt PV.Model.Packets PV.Proofs.Fmt_lemmas.
Open Scope Z_scope.

(* every packet format is self-delimiting *)
Lemma all_formats_wf : forallb (wf true) all_formats = true.
Proof. vm_compute. reflexivity. Qed.

Theorem packet_emit_parse f v b r : In f all_formats -> enc f v = Some b -> dec_full f (b ++ r) = Some (v, r).
Proof.
  intros Hin He. unfold dec_full.
  apply dec_enc_app; [|exact He].
  apply (proj1 (forallb_forall (wf true) all_formats) all_formats_wf f Hin).
Qed.

(* parse o emit o parse = parse: what was parsed re-serialises to the same octets *)
Corollary packet_emit_parse_emit f v b r : In f all_formats -> enc f v = Some b ->
  exists v', dec_full f (b ++ r) = Some (v', r) /\ enc f v' = Some b.
Proof. intros Hin He. exists v. split; [apply packet_emit_parse; assumption|exact He]. Qed.

(* the header of every emitted packet carries exactly the body length *)
Theorem packet_header_length tag body c y b : enc (pkt tag body) (VP (VB c) y) = Some b ->
  exists p, enc body y = Some p /\ b = [192 + tag] ++ new_length (Z.of_nat (List.length p)) ++ p.
Proof.
  unfold pkt. cbn [enc].
  destruct (eqb_bytes c [192 + tag]) eqn:E; [|discriminate].
  destruct (enc body y) as [p|] eqn:Eb; [|discriminate].
  destruct (Z.of_nat (List.length p) <? 4294967296); [|discriminate].
  intros [= <-]. exists p. split; reflexivity.
Qed.
